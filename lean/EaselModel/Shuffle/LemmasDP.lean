import EaselModel.Shuffle.LemmasMarkov1
/-! Doublet-preserving shuffle (Altschul–Erickson): edge bookkeeping, the walk invariant, and the conditional theorem
    "if the code's own final checks pass, the ordered-pair multiset, the first and the last residue are preserved". -/
namespace EaselModel.Shuffle
open EaselModel.Random
open scoped List

/-! ## gathering per-vertex lists -/
def gather {β : Type} (f : Nat → List β) : Nat → List β
  | 0 => []
  | K+1 => gather f K ++ f K

theorem gather_congr {β : Type} (f g : Nat → List β) (K : Nat) (h : ∀ v, v < K → g v = f v) : gather g K = gather f K := by
  induction K with
  | zero => rfl
  | succ K ih => simp only [gather]; rw [ih (fun v hv => h v (by omega)), h K (by omega)]

theorem gather_perm {β : Type} (f g : Nat → List β) (K : Nat) (h : ∀ v, v < K → (g v).Perm (f v)) : (gather g K).Perm (gather f K) := by
  induction K with
  | zero => exact List.Perm.refl _
  | succ K ih => simp only [gather]; exact (ih (fun v hv => h v (by omega))).append (h K (by omega))

theorem gather_sublist {β : Type} (f g : Nat → List β) (K : Nat) (h : ∀ v, v < K → (g v).Sublist (f v)) : (gather g K).Sublist (gather f K) := by
  induction K with
  | zero => exact List.Sublist.refl _
  | succ K ih => simp only [gather]; exact (ih (fun v hv => h v (by omega))).append (h K (by omega))

/-- appending one element to the list of one vertex `x < K` -/
theorem gather_snoc {β : Type} (f g : Nat → List β) (K x : Nat) (e : β) (hx : x < K)
    (hne : ∀ v, v ≠ x → g v = f v) (hx' : g x = f x ++ [e]) : (gather g K).Perm (gather f K ++ [e]) := by
  induction K with
  | zero => omega
  | succ K ih =>
    simp only [gather]
    by_cases e1 : x = K
    · subst e1
      rw [gather_congr f g x (fun v hv => hne v (by omega)), hx', List.append_assoc]
    · rw [hne K (fun h => e1 h.symm)]
      have := ih (by omega)
      calc gather g K ++ f K
          _ ~ (gather f K ++ [e]) ++ f K := this.append_right _
          _ ~ gather f K ++ ([e] ++ f K) := by rw [List.append_assoc]
          _ ~ gather f K ++ (f K ++ [e]) := List.Perm.append_left _ List.perm_append_comm
          _ ~ (gather f K ++ f K) ++ [e] := by rw [List.append_assoc]

/-! ## edge lists -/
/-- the list of vertex `v` (empty for `v` out of range) -/
def elist (E : Edges) (v : Nat) : List Nat := (E[v]!).toList
/-- all edges `(v, y)` of the edge ordering -/
def edgePairs (E : Edges) (K : Nat) : List (Nat × Nat) := gather (fun v => (elist E v).map (fun y => (v, y))) K
/-- the edges consumed so far: the first `iE[v]` entries of every list -/
def usedEdges (E : Edges) (iE : Array Nat) (K : Nat) : List (Nat × Nat) :=
  gather (fun v => ((elist E v).take iE[v]!).map (fun y => (v, y))) K

theorem elist_modify_ne (E : Edges) (x v : Nat) (f : Array Nat → Array Nat) (h : x ≠ v) : elist (E.modify x f) v = elist E v := by
  unfold elist
  rw [Array.getElem!_eq_getD, Array.getElem!_eq_getD, Array.getD_eq_getD_getElem?, Array.getD_eq_getD_getElem?, Array.getElem?_modify]
  simp [h]

theorem elist_modify_eq (E : Edges) (x : Nat) (f : Array Nat → Array Nat) (h : x < E.size) : elist (E.modify x f) x = (f E[x]!).toList := by
  unfold elist
  rw [getElem!_pos (E.modify x f) x (by simpa using h), getElem!_pos E x h, Array.getElem_modify]
  simp

theorem elist_set_ne (E : Edges) (x v : Nat) (l : Array Nat) (h : x ≠ v) : elist (E.setIfInBounds x l) v = elist E v := by
  unfold elist
  rw [Array.getElem!_eq_getD, Array.getElem!_eq_getD, Array.getD_eq_getD_getElem?, Array.getD_eq_getD_getElem?, Array.getElem?_setIfInBounds]
  simp [h]

theorem elist_set_eq (E : Edges) (x : Nat) (l : Array Nat) (h : x < E.size) : elist (E.setIfInBounds x l) x = l.toList := by
  unfold elist
  rw [getElem!_pos (E.setIfInBounds x l) x (by simpa using h), Array.getElem_setIfInBounds (by simpa using h)]
  simp

/-- every list of `E'` is a permutation of the corresponding list of `E` -/
structure PermEdges (E' E : Edges) : Prop where
  size : E'.size = E.size
  perm : ∀ v, (elist E' v).Perm (elist E v)

theorem PermEdges.refl (E : Edges) : PermEdges E E := ⟨rfl, fun _ => List.Perm.refl _⟩
theorem PermEdges.trans {A B C : Edges} (h1 : PermEdges A B) (h2 : PermEdges B C) : PermEdges A C :=
  ⟨h1.size.trans h2.size, fun v => (h1.perm v).trans (h2.perm v)⟩

theorem PermEdges.edgePairs {E' E : Edges} (h : PermEdges E' E) (K : Nat) : (edgePairs E' K).Perm (edgePairs E K) :=
  gather_perm _ _ K (fun v _ => (h.perm v).map _)

theorem permEdges_modify_swap (E : Edges) (x i j : Nat) : PermEdges (E.modify x (fun l => l.swapIfInBounds i j)) E := by
  refine ⟨by simp, fun v => ?_⟩
  by_cases h : x = v
  · subst h
    by_cases hx : x < E.size
    · rw [elist_modify_eq E x _ hx]
      exact (swapIfInBounds_perm _ i j).toList
    · have : E.modify x (fun l => l.swapIfInBounds i j) = E := by
        apply Array.ext (by simp)
        intro k hk1 hk2
        rw [Array.getElem_modify]; simp; intro e; omega
      rw [this]
  · rw [elist_modify_ne E x v _ h]

theorem dpSelectLast_perm (sf : Nat) : ∀ (xs : List Nat) (E : Edges) (r : Rng), PermEdges (dpSelectLast sf xs E r).1 E := by
  intro xs
  induction xs with
  | nil => intro E r; exact PermEdges.refl E
  | cons x xs ih =>
    intro E r
    simp only [dpSelectLast]
    split
    · exact ih E r
    · exact (ih _ _).trans (permEdges_modify_swap E x _ _)

theorem dpFind_perm (K sf : Nat) : ∀ (fuel : Nat) (E : Edges) (r : Rng) (E' : Edges) (r' : Rng),
    dpFind K sf fuel E r = some (E', r') → PermEdges E' E := by
  intro fuel
  induction fuel with
  | zero => intro E r E' r' h; simp [dpFind] at h
  | succ fuel ih =>
    intro E r E' r' h
    simp only [dpFind] at h
    split at h
    · simp only [Option.some.injEq, Prod.mk.injEq] at h
      rw [← h.1]; exact dpSelectLast_perm sf _ E r
    · exact (ih _ _ E' r' h).trans (dpSelectLast_perm sf _ E r)

theorem dpPermute_perm : ∀ (xs : List Nat) (E : Edges) (r : Rng), PermEdges (dpPermute xs E r).1 E := by
  intro xs
  induction xs with
  | nil => intro E r; exact PermEdges.refl E
  | cons x xs ih =>
    intro E r
    simp only [dpPermute]
    refine (ih _ _).trans ⟨by simp, fun v => ?_⟩
    by_cases h : x = v
    · subst h
      by_cases hx : x < E.size
      · rw [elist_set_eq E x _ hx]
        have := fyLoop_inv (fun (a : Array Nat) i j => a.swapIfInBounds i j) 0 ((E[x]!).size - 1) (fun a => a.Perm (E[x]!))
          (fun s i j hs _ _ _ _ => (swapIfInBounds_perm s i j).trans hs) ((E[x]!).size - 1) (Nat.le_refl _) (E[x]!) r (Array.Perm.refl _)
        exact this.toList
      · rw [Array.setIfInBounds_eq_of_size_le (by omega)]
    · rw [elist_set_ne E x v _ h]

/-! ## step (1): the edge lists are the adjacent pairs of the input -/
theorem edgePairs_push (E : Edges) (K p y : Nat) (hp : p < K) (hs : E.size = K) :
    (edgePairs (E.modify p (fun l => l.push y)) K).Perm (edgePairs E K ++ [(p, y)]) := by
  apply gather_snoc _ _ K p (p, y) hp
  · intro v hv
    rw [elist_modify_ne E p v _ (fun e => hv e.symm)]
  · rw [elist_modify_eq E p _ (by omega)]
    simp [elist, getElem!_pos E p (by omega : p < E.size)]

theorem dpBuild_fold (K : Nat) : ∀ (ys : List Nat) (E : Edges) (p : Nat), E.size = K → p < K → (∀ y ∈ ys, y < K) →
    let st := ys.foldl (fun (st : Edges × Nat) y => (st.1.modify st.2 (fun l => l.push y), y)) (E, p)
    st.1.size = K ∧ (edgePairs st.1 K).Perm (edgePairs E K ++ adjPairs (p :: ys)) := by
  intro ys
  induction ys with
  | nil => intro E p hs _ _; simp [adjPairs, hs]
  | cons y t ih =>
    intro E p hs hp hy
    simp only [List.foldl_cons]
    obtain ⟨h1, h2⟩ := ih (E.modify p (fun l => l.push y)) y (by simp [hs]) (hy y (by simp)) (fun z hz => hy z (by simp [hz]))
    refine ⟨h1, h2.trans ?_⟩
    simp only [adjPairs]
    calc edgePairs (E.modify p fun l => l.push y) K ++ adjPairs (y :: t)
        _ ~ (edgePairs E K ++ [(p, y)]) ++ adjPairs (y :: t) := (edgePairs_push E K p y hp hs).append_right _
        _ ~ edgePairs E K ++ (p, y) :: adjPairs (y :: t) := by rw [List.append_assoc]; rfl

theorem edgePairs_replicate (K : Nat) : edgePairs (Array.replicate K #[]) K = [] := by
  have : ∀ n, gather (fun v => (elist (Array.replicate K (#[] : Array Nat)) v).map (fun y => (v, y))) n = [] := by
    intro n
    induction n with
    | zero => rfl
    | succ n ih =>
      simp only [gather]
      rw [ih, List.nil_append]
      simp only [elist]
      by_cases h : n < K
      · rw [getElem!_pos _ n (by simpa using h)]; simp
      · rw [Array.getElem!_eq_getD, Array.getD_eq_getD_getElem?, Array.getElem?_eq_none (by simpa using h)]; rfl
  exact this K

theorem dpBuild_spec (K : Nat) (codes : List Nat) (h : ∀ c ∈ codes, c < K) :
    (dpBuild K codes).size = K ∧ (edgePairs (dpBuild K codes) K).Perm (adjPairs codes) := by
  cases codes with
  | nil => simp [dpBuild, edgePairs_replicate, adjPairs]
  | cons c0 rest =>
    obtain ⟨h1, h2⟩ := dpBuild_fold K rest (Array.replicate K #[]) c0 (by simp) (h c0 (by simp)) (fun y hy => h y (by simp [hy]))
    refine ⟨h1, ?_⟩
    simp only [dpBuild]
    rw [edgePairs_replicate] at h2
    simpa using h2

/-! ## step (6): the walk -/
/-- state of the walk: `walked = out ++ [x]` is the vertex sequence so far -/
structure WalkInv (E : Edges) (K c0 : Nat) (x : Nat) (iE : Array Nat) (out : Array Nat) : Prop where
  isize : iE.size = K
  le : ∀ v, v < K → iE[v]! ≤ (elist E v).length
  pairs : (adjPairs (out.toList ++ [x])).Perm (usedEdges E iE K)
  head : (out.toList ++ [x]).head? = some c0
  xlt : x < K

theorem iE_modify_ne (iE : Array Nat) (x v : Nat) (h : x ≠ v) : (iE.modify x (· + 1))[v]! = iE[v]! := by
  rw [Array.getElem!_eq_getD, Array.getElem!_eq_getD, Array.getD_eq_getD_getElem?, Array.getD_eq_getD_getElem?, Array.getElem?_modify]
  simp [h]

theorem iE_modify_eq (iE : Array Nat) (x : Nat) (h : x < iE.size) : (iE.modify x (· + 1))[x]! = iE[x]! + 1 := by
  rw [getElem!_pos (iE.modify x (· + 1)) x (by simpa using h), getElem!_pos iE x h, Array.getElem_modify]
  simp

/-- one step of the walk keeps the invariant (the edge read is inside its list, and is consumed exactly once) -/
theorem walk_step (E : Edges) (K c0 x : Nat) (iE out : Array Nat) (hlt : ∀ v y, y ∈ elist E v → y < K)
    (h : WalkInv E K c0 x iE out) (hx : iE[x]! < (elist E x).length) :
    WalkInv E K c0 ((E[x]!)[iE[x]!]!) (iE.modify x (· + 1)) (out.push x) := by
  have hxK := h.xlt
  have hy : (E[x]!)[iE[x]!]! = (elist E x)[iE[x]!]'hx := by
    unfold elist at hx ⊢
    rw [getElem!_pos (E[x]!) _ (by simpa using hx)]
    simp
  refine ⟨by simp [h.isize], ?_, ?_, ?_, ?_⟩
  · intro v hv
    by_cases e : x = v
    · subst e; rw [iE_modify_eq iE x (by rw [h.isize]; exact hv)]; omega
    · rw [iE_modify_ne iE x v e]; exact h.le v hv
  · rw [Array.toList_push]
    -- new pair (x, y)
    have hsplit : adjPairs ((out.toList ++ [x]) ++ [(E[x]!)[iE[x]!]!]) = adjPairs (out.toList ++ [x]) ++ [(x, (E[x]!)[iE[x]!]!)] := by
      cases ho : out.toList with
      | nil => simp [adjPairs]
      | cons a t =>
        rw [show (a :: t ++ [x]) ++ [(E[x]!)[iE[x]!]!] = (a :: (t ++ [x])) ++ [(E[x]!)[iE[x]!]!] by simp, adjPairs_append_singleton, getLast_snoc']
        simp
    rw [hsplit]
    refine (h.pairs.append_right _).trans (List.Perm.symm ?_)
    apply gather_snoc _ _ K x _ hxK
    · intro v hv
      rw [iE_modify_ne iE x v (fun e => hv e.symm)]
    · rw [iE_modify_eq iE x (by rw [h.isize]; exact hxK), List.take_add_one, List.getElem?_eq_getElem hx, hy, List.map_append]
      rfl
  · rw [Array.toList_push]
    have := h.head
    cases ho : out.toList with
    | nil => simp [ho] at this ⊢; exact this
    | cons a t => simp [ho] at this ⊢; exact this
  · rw [hy]; exact hlt x _ (List.getElem_mem hx)

theorem dpWalk_inv (E : Edges) (K c0 : Nat) (hlt : ∀ v y, y ∈ elist E v → y < K) :
    ∀ (fuel x : Nat) (iE out : Array Nat), WalkInv E K c0 x iE out → iE[x]! < (elist E x).length →
      let res := dpWalk E fuel x iE out
      WalkInv E K c0 res.2.1 res.2.2 res.1 := by
  intro fuel
  induction fuel with
  | zero => intro x iE out h _; simpa [dpWalk] using h
  | succ fuel ih =>
    intro x iE out h hx
    have hstep := walk_step E K c0 x iE out hlt h hx
    simp only [dpWalk]
    split
    · exact hstep
    · rename_i hne
      apply ih _ _ _ hstep
      have hyK := hstep.xlt
      have := hstep.le _ hyK
      have hne' : (iE.modify x (· + 1))[(E[x]!)[iE[x]!]!]! ≠ (elist E ((E[x]!)[iE[x]!]!)).length := by
        intro e; apply hne; simp only [elist, Array.length_toList] at e; simp [e]
      omega

/-- the walk consumes each edge at most once: the adjacent pairs of the vertex sequence are (a permutation of) a
    sub-list of the edge list — prefixes of every vertex's list -/
theorem usedEdges_sublist (E : Edges) (iE : Array Nat) (K : Nat) : (usedEdges E iE K).Sublist (edgePairs E K) :=
  gather_sublist _ _ K (fun v _ => (List.take_sublist _ _).map _)

theorem adjPairs_length (l : List Nat) : (adjPairs l).length = l.length - 1 := by
  induction l with
  | nil => rfl
  | cons a t ih =>
    cases t with
    | nil => rfl
    | cons b t' => simp only [adjPairs, List.length_cons] at ih ⊢; omega

/-- **conditional DP theorem**: if `shuffleDPcore` returns `ok out` (both of the code's reality checks passed) then
    `out` has the input's length, first and last residue, and exactly the input's multiset of ordered adjacent pairs -/
theorem shuffleDPcore_ok (K : Nat) (codes : List Nat) (hK : ∀ c ∈ codes, c < K) (hlen : 2 < codes.length) (r : Rng)
    (out : Array Nat) (r' : Rng) (h : shuffleDPcore K codes r = (.ok out, r')) :
    out.size = codes.length ∧ out.toList.head? = codes.head? ∧ out.toList.getLast? = codes.getLast? ∧
      (adjPairs out.toList).Perm (adjPairs codes) := by
  obtain ⟨c0, c1, rest, hc⟩ : ∃ c0 c1 rest, codes = c0 :: c1 :: rest := by
    match codes, hlen with
    | c0 :: c1 :: rest, _ => exact ⟨c0, c1, rest, rfl⟩
  obtain ⟨hbs, hbp⟩ := dpBuild_spec K codes hK
  unfold shuffleDPcore at h
  simp only at h
  split at h
  · simp at h
  · rename_i E1 r1 hfind
    have p1 := dpFind_perm K _ _ _ _ E1 r1 hfind
    have p2 := dpPermute_perm (List.range K) E1 r1
    generalize hE2 : (dpPermute (List.range K) E1 r1).1 = E2 at h p2
    have p20 : PermEdges E2 (dpBuild K codes) := p2.trans p1
    -- entries of E2 are vertices < K
    have hlt : ∀ v y, y ∈ elist E2 v → y < K := by
      intro v y hy
      have hy0 : y ∈ elist (dpBuild K codes) v := (p20.perm v).mem_iff.mp hy
      by_cases hv : v < K
      · have : (v, y) ∈ edgePairs (dpBuild K codes) K := by
          have hmem : ∀ n, v < n → (v, y) ∈ gather (fun v => (elist (dpBuild K codes) v).map (fun y => (v, y))) n := by
            intro n
            induction n with
            | zero => intro h; omega
            | succ n ih =>
              intro hvn
              simp only [gather, List.mem_append]
              by_cases e : v = n
              · subst e; exact Or.inr (List.mem_map.mpr ⟨y, hy0, rfl⟩)
              · exact Or.inl (ih (by omega))
          exact hmem K hv
        have := hbp.mem_iff.mp this
        have hin : y ∈ codes := by
          have : ∀ l : List Nat, (v, y) ∈ adjPairs l → y ∈ l := by
            intro l
            induction l with
            | nil => simp [adjPairs]
            | cons a t ih =>
              cases t with
              | nil => simp [adjPairs]
              | cons b t' =>
                simp only [adjPairs, List.mem_cons, Prod.mk.injEq]
                rintro (⟨_, h2⟩ | h2)
                · simp [h2]
                · have := ih h2; simp only [List.mem_cons] at this; exact Or.inr this
          exact this codes ‹_›
        exact hK y hin
      · have : elist (dpBuild K codes) v = [] := by
          simp only [elist]
          rw [Array.getElem!_eq_getD, Array.getD_eq_getD_getElem?, Array.getElem?_eq_none (by omega)]; rfl
        rw [this] at hy0; simp at hy0
    have hc0 : codes.headD 0 = c0 := by rw [hc]; rfl
    have hc0K : c0 < K := hK c0 (by rw [hc]; simp)
    -- the first vertex has an outgoing edge
    have hfirst : 0 < (elist E2 c0).length := by
      rw [(p20.perm c0).length_eq]
      have : (c0, c1) ∈ edgePairs (dpBuild K codes) K := hbp.mem_iff.mpr (by rw [hc]; simp [adjPairs])
      have hmem : ∀ n, (c0, c1) ∈ gather (fun v => (elist (dpBuild K codes) v).map (fun y => (v, y))) n → c1 ∈ elist (dpBuild K codes) c0 := by
        intro n
        induction n with
        | zero => simp [gather]
        | succ n ih =>
          simp only [gather, List.mem_append, List.mem_map, Prod.mk.injEq]
          rintro (h | ⟨y, hy, h1, h2⟩)
          · exact ih h
          · subst h1; subst h2; exact hy
      exact List.length_pos_of_mem (hmem K this)
    have w0 : WalkInv E2 K c0 c0 (Array.replicate K 0) #[] := by
      refine ⟨by simp, ?_, ?_, by simp, hc0K⟩
      · intro v hv; rw [getElem!_pos _ v (by simpa using hv)]; simp
      · have : usedEdges E2 (Array.replicate K 0) K = [] := by
          have : ∀ n, n ≤ K → gather (fun v => ((elist E2 v).take (Array.replicate K 0)[v]!).map (fun y => (v, y))) n = [] := by
            intro n
            induction n with
            | zero => intro _; rfl
            | succ n ih =>
              intro hn
              simp only [gather, ih (by omega), List.nil_append]
              rw [getElem!_pos _ n (by simp; omega)]; simp
          exact this K (Nat.le_refl _)
        rw [this]; simp [adjPairs]
    have hw := dpWalk_inv E2 K c0 hlt codes.length c0 (Array.replicate K 0) #[] w0
      (by rw [getElem!_pos _ c0 (by simpa using hc0K)]; simpa using hfirst)
    rw [hc0] at h
    generalize dpWalk E2 codes.length c0 (Array.replicate K 0) #[] = res at h hw
    obtain ⟨wout, wx, wiE⟩ := res
    simp only at h hw
    split at h
    · simp at h
    · rename_i hxsf
      split at h
      · simp at h
      · rename_i hsz
        simp only [Prod.mk.injEq, DPResult.ok.injEq] at h
        have hxsf' : wx = codes.getLastD 0 := by simpa using hxsf
        have hsz' : (wout.push (codes.getLastD 0)).size = codes.length := by simpa using hsz
        rw [← h.1]
        have hlist : (wout.push (codes.getLastD 0)).toList = wout.toList ++ [wx] := by rw [Array.toList_push, hxsf']
        refine ⟨hsz', ?_, ?_, ?_⟩
        · rw [hlist, hw.head, hc]; rfl
        · rw [Array.toList_push, List.getLast?_append]; simp [hc, List.getLast?_eq_some_getLast, List.getLastD]
        · rw [hlist]
          have hsub := usedEdges_sublist E2 wiE K
          have hlen1 : (usedEdges E2 wiE K).length = (edgePairs E2 K).length := by
            rw [← hw.pairs.length_eq, (p20.edgePairs K).length_eq, hbp.length_eq, adjPairs_length, adjPairs_length, ← hlist]
            simp only [Array.length_toList]; omega
          have heq := hsub.eq_of_length hlen1
          exact (hw.pairs.trans (heq ▸ List.Perm.refl _)).trans ((p20.edgePairs K).trans hbp)

theorem letterCode_lt (c : UInt8) (h : isAlpha c = true) : letterCode c < 26 := by
  unfold isAlpha at h; unfold letterCode
  simp only [Bool.or_eq_true, Bool.and_eq_true, decide_eq_true_eq, UInt8.le_iff_toNat_le] at h ⊢
  have e1 : (65 : UInt8).toNat = 65 := rfl
  have e2 : (90 : UInt8).toNat = 90 := rfl
  have e3 : (97 : UInt8).toNat = 97 := rfl
  have e4 : (122 : UInt8).toNat = 122 := rfl
  rw [e1, e2, e3, e4] at h
  split
  · rename_i h1; rw [e1, e2] at h1; omega
  · split
    · rename_i h1 h2; rw [e3, e4] at h2; omega
    · rename_i h1 h2; rw [e1, e2] at h1; rw [e3, e4] at h2; omega

theorem ofDP_ok (f : Array Nat → Bytes) (x : DPResult × Rng) (out : Bytes) (h : (ofDP f x).1 = .ok out) :
    ∃ codes, x = (.ok codes, x.2) ∧ out = f codes := by
  obtain ⟨o, r⟩ := x
  cases o with
  | ok c => simp only [ofDP, SeqResult.ok.injEq] at h; exact ⟨c, rfl, h.symm⟩
  | einval => simp [ofDP] at h
  | einconceivable => simp [ofDP] at h
  | nohalt => simp [ofDP] at h

/-- the walk never reuses an edge, whatever the outcome of the final checks: the adjacent pairs of the vertex sequence
    produced by `dpWalk` are a permutation of prefixes of the edge lists, a sub-list of all edges -/
theorem dpWalk_uses_each_edge_once (E : Edges) (K c0 : Nat) (hlt : ∀ v y, y ∈ elist E v → y < K) (hc0 : c0 < K)
    (hfirst : 0 < (elist E c0).length) (fuel : Nat) :
    let res := dpWalk E fuel c0 (Array.replicate K 0) #[]
    (adjPairs (res.1.toList ++ [res.2.1])).Perm (usedEdges E res.2.2 K) ∧ (usedEdges E res.2.2 K).Sublist (edgePairs E K) := by
  have w0 : WalkInv E K c0 c0 (Array.replicate K 0) #[] := by
    refine ⟨by simp, ?_, ?_, by simp, hc0⟩
    · intro v hv; rw [getElem!_pos _ v (by simpa using hv)]; simp
    · have : usedEdges E (Array.replicate K 0) K = [] := by
        have : ∀ n, n ≤ K → gather (fun v => ((elist E v).take (Array.replicate K 0)[v]!).map (fun y => (v, y))) n = [] := by
          intro n
          induction n with
          | zero => intro _; rfl
          | succ n ih =>
            intro hn
            simp only [gather, ih (by omega), List.nil_append]
            rw [getElem!_pos _ n (by simp; omega)]; simp
        exact this K (Nat.le_refl _)
      rw [this]; simp [adjPairs]
  have hw := dpWalk_inv E K c0 hlt fuel c0 (Array.replicate K 0) #[] w0
    (by rw [getElem!_pos _ c0 (by simpa using hc0)]; simpa using hfirst)
  exact ⟨hw.pairs, usedEdges_sublist _ _ _⟩

end EaselModel.Shuffle
