import EaselModel.Shuffle.IeeeCarrier
import EaselModel.Shuffle.LemmasMarkov1
import EaselModel.Shuffle.MarkovRat
import Mathlib.Tactic.Positivity
import Mathlib.Data.List.Count
/-! # `esl_rsq_{C,X}Markov0` never reaches `esl_fatal` in ROUNDED arithmetic (C18, round 6)

Over the IEEE carrier `Ieee ρ` (any monotone rounding): the counts `p[x] += 1.0` are exact integers (≤ 2^32), `p[x] /= L` is `+0.0`
or a value in `[2^-32, 1]` (no underflow: `k/L ≥ 2^-32` is above a representable number), the running sums of `esl_rnd_DChoose` stay
finite (`≤ K`) and become positive at the first non-zero entry and stay positive (`R(s + p) ≥ R(s) = s`), so `norm` is finite and
positive, `norm/norm = 1.0` and the scan returns at the last entry at the latest. -/
namespace EaselModel.Shuffle
open CNum EaselModel.Random

variable (ρ : Rounding)

theorem ofNat_val (n : ℕ) (hn : n ≤ 4294967296) : (ofNat n : Ieee ρ).1 = if n = 0 then .zero false else .fin (n : ℚ) := by
  show rnd ρ (n : ℚ) = _
  split
  · rename_i h; subst h; simp [rnd]
  · rename_i h
    have hpos : (0 : ℚ) < (n : ℚ) := by exact_mod_cast Nat.pos_of_ne_zero h
    have hle : (n : ℚ) ≤ 4294967296 := by exact_mod_cast hn
    exact rnd_of_rep ρ _ ⟨ne_of_gt hpos, ρ.nat n hn, by rw [abs_of_pos hpos]; linarith [ρ.big_ge]⟩

/-- `p[x] += 1.0` on an exact integer count -/
theorem ofNat_add_one (n : ℕ) (hn : n + 1 ≤ 4294967296) : add (ofNat n : Ieee ρ) one = ofNat (n + 1) := by
  apply Subtype.ext
  show Raw.add ρ (ofNat n : Ieee ρ).1 (rnd ρ 1) = rnd ρ ((n + 1 : ℕ) : ℚ)
  rw [ofNat_val ρ n (by omega), rnd_one]
  split
  · rename_i h; subst h; simp [Raw.add]
  · simp only [Raw.add]; push_cast; rfl

theorem ofNat_zero : (ofNat 0 : Ieee ρ) = zero := by
  apply Subtype.ext
  show rnd ρ ((0 : ℕ) : ℚ) = .zero false
  simp [rnd]

/-- the counting loop: entry `k` is the exact integer `count k` -/
theorem counts_ieee (K : Nat) : ∀ codes : List Nat, codes.length ≤ 4294967296 → ∀ k : Nat,
    (codes.foldl (fun (p : Array (Ieee ρ)) c => p.modify c (fun v => add v one)) (Array.replicate K zero))[k]? =
      if k < K then some (ofNat (codes.count k)) else none := by
  intro codes
  induction codes using List.reverseRecOn with
  | nil =>
    intro _ k
    simp only [List.foldl_nil, Array.getElem?_replicate, List.count_nil]
    split
    · rw [ofNat_zero]
    · rfl
  | append_singleton cs c ih =>
    intro hlen k
    have hlen' : cs.length + 1 ≤ 4294967296 := by simpa using hlen
    rw [List.foldl_append, List.foldl_cons, List.foldl_nil, Array.getElem?_modify, ih (by omega) k, List.count_append]
    by_cases e : c = k
    · subst e
      simp only [↓reduceIte, List.count_singleton_self]
      split
      · simp only [Option.map_some]
        rw [ofNat_add_one ρ _ (by have := List.count_le_length (a := c) (l := cs); omega)]
      · rfl
    · have : List.count k [c] = 0 := by simp [List.count_singleton]; exact fun h => e (by omega)
      simp [e, this]

/-- `+0.0`, or finite in `(0, m]` -/
def Sm (m : ℕ) (x : Raw) : Prop := x = .zero false ∨ ∃ r, x = .fin r ∧ 0 < r ∧ r ≤ (m : ℚ)
def Pos (x : Raw) : Prop := ∃ r, x = .fin r ∧ 0 < r

/-- `count / L`: `+0.0` for a zero count, else finite in `(0, 1]` -/
theorem ratio_ieee (a n : ℕ) (han : a ≤ n) (hn0 : 0 < n) (hn : n ≤ 4294967296) :
    Sm 1 (div (ofNat a) (ofNat n) : Ieee ρ).1 ∧ (0 < a → Pos (div (ofNat a) (ofNat n) : Ieee ρ).1) := by
  show Sm 1 (Raw.div ρ (ofNat a : Ieee ρ).1 (ofNat n : Ieee ρ).1) ∧ (0 < a → Pos (Raw.div ρ (ofNat a : Ieee ρ).1 (ofNat n : Ieee ρ).1))
  have hnv : (ofNat n : Ieee ρ).1 = .fin (n : ℚ) := by rw [ofNat_val ρ n hn, if_neg (by omega)]
  rw [ofNat_val ρ a (by omega), hnv]
  have hnq : (0 : ℚ) < (n : ℚ) := by exact_mod_cast hn0
  split
  · rename_i h
    refine ⟨Or.inl ?_, fun h' => by omega⟩
    simp [Raw.div, sgn_pos _ hnq]
  · rename_i h
    have haq : (0 : ℚ) < (a : ℚ) := by exact_mod_cast Nat.pos_of_ne_zero h
    have hq : (0 : ℚ) < (a : ℚ) / (n : ℚ) := div_pos haq hnq
    have hle1 : (a : ℚ) / (n : ℚ) ≤ 1 := by rw [div_le_one hnq]; exact_mod_cast han
    have hge : (1 : ℚ) / 4294967296 ≤ (a : ℚ) / (n : ℚ) := by
      rw [div_le_div_iff₀ (by norm_num) hnq]
      have h1 : (1 : ℚ) ≤ (a : ℚ) := by exact_mod_cast Nat.pos_of_ne_zero h
      have h2 : (n : ℚ) ≤ 4294967296 := by exact_mod_cast hn
      nlinarith
    have hR1 : ρ.R ((a : ℚ) / (n : ℚ)) ≤ 1 := by have := ρ.mono _ _ hle1; rwa [R_one] at this
    have hR0 : (1 : ℚ) / 4294967296 ≤ ρ.R ((a : ℚ) / (n : ℚ)) := by
      have := ρ.mono _ _ hge
      have hg := ρ.grid 1 (by norm_num)
      simp only [Nat.cast_one] at hg
      rwa [hg] at this
    have hRpos : (0 : ℚ) < ρ.R ((a : ℚ) / (n : ℚ)) := lt_of_lt_of_le (by norm_num) hR0
    have hval : Raw.div ρ (.fin (a : ℚ)) (.fin (n : ℚ)) = .fin (ρ.R ((a : ℚ) / (n : ℚ))) := by
      simp only [Raw.div, rnd]
      rw [if_neg (ne_of_gt hq), if_neg (ne_of_gt hRpos), if_neg]
      rw [abs_of_pos hRpos]; linarith [ρ.big_ge]
    rw [hval]
    exact ⟨Or.inr ⟨_, rfl, hRpos, by simpa using hR1⟩, fun _ => ⟨_, rfl, hRpos⟩⟩

/-- one step of the running sum: finite, bounded by the number of entries added, positive as soon as an entry was -/
theorem add_Sm (a b : Ieee ρ) (m : ℕ) (hm : m + 1 ≤ 4294967296) (ha : Sm m a.1) (hb : Sm 1 b.1) :
    Sm (m + 1) (add a b).1 ∧ (Pos a.1 ∨ Pos b.1 → Pos (add a b).1) := by
  show Sm (m + 1) (Raw.add ρ a.1 b.1) ∧ (Pos a.1 ∨ Pos b.1 → Pos (Raw.add ρ a.1 b.1))
  have hra := a.2
  have hrb := b.2
  have hmq : ((m + 1 : ℕ) : ℚ) = (m : ℚ) + 1 := by push_cast; rfl
  rcases ha with ha | ⟨s, ha, hs0, hsm⟩ <;> rcases hb with hb | ⟨r, hb, hr0, hr1⟩
  · rw [ha, hb]
    refine ⟨Or.inl (by simp [Raw.add]), ?_⟩
    rintro (⟨_, h, _⟩ | ⟨_, h, _⟩) <;> cases h
  · rw [hb] at hrb
    rw [ha, hb]
    simp only [Raw.add, rnd_of_rep ρ r hrb]
    exact ⟨Or.inr ⟨r, rfl, hr0, by rw [hmq]; simp at hr1; linarith [Nat.cast_nonneg (α := ℚ) m]⟩, fun _ => ⟨r, rfl, hr0⟩⟩
  · rw [ha] at hra
    rw [ha, hb]
    simp only [Raw.add, rnd_of_rep ρ s hra]
    exact ⟨Or.inr ⟨s, rfl, hs0, by rw [hmq]; linarith⟩, fun _ => ⟨s, rfl, hs0⟩⟩
  · rw [ha] at hra
    rw [ha, hb]
    have hsum : (0 : ℚ) < s + r := by linarith
    have hRge : s ≤ ρ.R (s + r) := by have := ρ.mono s (s + r) (by linarith); rwa [hra.2.1] at this
    have hRle : ρ.R (s + r) ≤ (m : ℚ) + 1 := by
      have := ρ.mono (s + r) ((m + 1 : ℕ) : ℚ) (by rw [hmq]; simp at hr1; linarith)
      rwa [ρ.nat (m + 1) hm, hmq] at this
    have hRpos : (0 : ℚ) < ρ.R (s + r) := lt_of_lt_of_le hs0 hRge
    have hmb : (m : ℚ) + 1 ≤ 4294967296 := by rw [← hmq]; exact_mod_cast hm
    have hval : Raw.add ρ (.fin s) (.fin r) = .fin (ρ.R (s + r)) := by
      simp only [Raw.add, rnd]
      rw [if_neg (ne_of_gt hsum), if_neg (ne_of_gt hRpos), if_neg]
      rw [abs_of_pos hRpos]; linarith [ρ.big_ge]
    rw [hval]
    exact ⟨Or.inr ⟨_, rfl, hRpos, by rw [hmq]; exact hRle⟩, fun _ => ⟨_, rfl, hRpos⟩⟩

theorem Sm_mono (m n : ℕ) (h : m ≤ n) (x : Raw) (hx : Sm m x) : Sm n x := by
  rcases hx with hx | ⟨r, hx, h0, h1⟩
  · exact Or.inl hx
  · exact Or.inr ⟨r, hx, h0, le_trans h1 (by exact_mod_cast h)⟩

/-- the first loop of `esl_rnd_DChoose` on entries in `{+0.0} ∪ (0,1]` -/
theorem foldl_Sm : ∀ (p : List (Ieee ρ)) (s : Ieee ρ) (m : ℕ), Sm m s.1 → (∀ q ∈ p, Sm 1 q.1) → m + p.length ≤ 4294967296 →
    Sm (m + p.length) (p.foldl add s).1 ∧ ((Pos s.1 ∨ ∃ q ∈ p, Pos q.1) → Pos (p.foldl add s).1) := by
  intro p
  induction p with
  | nil => intro s m hs _ _; exact ⟨by simpa using hs, fun h => by rcases h with h | ⟨q, hq, _⟩; exact h; simp at hq⟩
  | cons q rest ih =>
    intro s m hs hp hlen
    simp only [List.length_cons] at hlen
    obtain ⟨h1, h2⟩ := add_Sm ρ s q m (by omega) hs (hp q (by simp))
    obtain ⟨h3, h4⟩ := ih (add s q) (m + 1) h1 (fun x hx => hp x (List.mem_cons_of_mem _ hx)) (by omega)
    simp only [List.foldl_cons, List.length_cons]
    refine ⟨by rw [show m + (rest.length + 1) = m + 1 + rest.length by omega]; exact h3, ?_⟩
    intro h
    apply h4
    rcases h with h | ⟨x, hx, hxp⟩
    · exact Or.inl (h2 (Or.inl h))
    · rcases List.mem_cons.mp hx with e | e
      · subst e; exact Or.inl (h2 (Or.inr hxp))
      · exact Or.inr ⟨x, e, hxp⟩

/-- the emission vector of `esl_rsq_{C,X}Markov0` in rounded arithmetic -/
theorem markov0P_ieee_getElem? (K : Nat) (codes : List Nat) (hne : codes ≠ []) (hlen : codes.length ≤ 4294967296) (k : Nat) :
    (markov0P (α := Ieee ρ) K codes)[k]? =
      if k < K then some (div (ofNat (codes.count k)) (ofNat codes.length)) else none := by
  have hpos : codes.length > 0 := List.length_pos_iff.2 hne
  unfold markov0P
  simp only [hpos, ↓reduceIte, Array.toList_map, List.getElem?_map, Array.getElem?_toList]
  rw [counts_ieee ρ K codes hlen k]
  split <;> rfl

/-- **`esl_rsq_{C,X}Markov0` never reaches `esl_fatal` in rounded arithmetic**, for every validated input of at most `2^32`
    residues over at most `2^32` symbols, every generator state and every monotone rounding -/
theorem markov0_total_ieee (K : Nat) (codes : List Nat) (hK : ∀ c ∈ codes, c < K) (hlen : codes.length ≤ 4294967296)
    (hKb : K ≤ 4294967296) (r : Rng) : ∃ out, (markov0 (α := Ieee ρ) K codes r).1 = some out := by
  unfold markov0
  by_cases hne : codes = []
  · subst hne; exact ⟨#[], rfl⟩
  · have hpos : 0 < codes.length := List.length_pos_iff.2 hne
    have hent : ∀ q ∈ markov0P (α := Ieee ρ) K codes, Sm 1 q.1 := by
      intro q hq
      obtain ⟨k, hk, hk'⟩ := List.getElem_of_mem hq
      have := markov0P_ieee_getElem? ρ K codes hne hlen k
      rw [List.getElem?_eq_getElem hk, hk'] at this
      split at this
      · simp only [Option.some.injEq] at this
        rw [this]
        exact (ratio_ieee ρ _ _ List.count_le_length hpos hlen).1
      · cases this
    have hsize : (markov0P (α := Ieee ρ) K codes).length = K := by
      unfold markov0P
      have hs : ∀ (l : List Nat) (init : Array (Ieee ρ)),
          (l.foldl (fun (p : Array (Ieee ρ)) c => p.modify c (fun v => add v one)) init).size = init.size := by
        intro l
        induction l with
        | nil => intro init; rfl
        | cons c cs ih => intro init; simp only [List.foldl_cons]; rw [ih]; simp
      split <;> simp [hs]
    obtain ⟨c0, rest, rfl⟩ := List.exists_cons_of_ne_nil hne
    have hc0 : c0 < K := hK c0 (by simp)
    have he := markov0P_ieee_getElem? ρ K (c0 :: rest) hne hlen c0
    rw [if_pos hc0] at he
    have hposent : Pos (div (ofNat ((c0 :: rest).count c0)) (ofNat (c0 :: rest).length) : Ieee ρ).1 :=
      (ratio_ieee ρ _ _ List.count_le_length hpos hlen).2 (by simp)
    obtain ⟨_, hP⟩ := foldl_Sm ρ (markov0P (α := Ieee ρ) K (c0 :: rest)) zero 0 (Or.inl rfl) hent (by rw [hsize]; omega)
    obtain ⟨q, hq, _⟩ := hP (Or.inr ⟨_, List.mem_of_getElem? he, hposent⟩)
    have hp : markov0P (α := Ieee ρ) K (c0 :: rest) ≠ [] := by
      intro h; rw [h] at hsize; simp at hsize; omega
    exact iidLoop_total_abs _ hp (ieee_div_self ρ _ q hq) (ieee_random_lt_one ρ) _ r #[]

/-- `esl_rsq_CMarkov0` in rounded arithmetic: `eslEINVAL` exactly on a non-alphabetic character, else `eslOK` — never `esl_fatal` -/
theorem cMarkov0_total_ieee (s : Bytes) (hs : s.size ≤ 4294967296) (r : Rng) :
    ((cMarkov0 (Ieee ρ) s r).1 = .einval ∧ s.any (fun c => !isAlpha c) = true) ∨
    (¬ (s.any (fun c => !isAlpha c) = true) ∧ ∃ out, (cMarkov0 (Ieee ρ) s r).1 = .ok out) := by
  unfold cMarkov0
  split
  · rename_i h; exact Or.inl ⟨rfl, h⟩
  · rename_i h
    obtain ⟨out, ho⟩ := markov0_total_ieee ρ 26 (textCodes s) (textCodes_lt s h) (by simpa [textCodes] using hs) (by norm_num) r
    exact Or.inr ⟨h, _, ofOpt_some _ _ out ho⟩

theorem xMarkov0_total_ieee (dsq : Bytes) (L K : Nat) (hL : L ≤ 4294967296) (hK : K ≤ 4294967296) (r : Rng) :
    ((xMarkov0 (Ieee ρ) dsq L K r).1 = .einval ∧ (digitalCodes dsq L).any (fun c => c ≥ K) = true) ∨
    (¬ ((digitalCodes dsq L).any (fun c => c ≥ K) = true) ∧ ∃ out, (xMarkov0 (Ieee ρ) dsq L K r).1 = .ok out) := by
  unfold xMarkov0
  split
  · rename_i h; exact Or.inl ⟨rfl, h⟩
  · rename_i h
    obtain ⟨out, ho⟩ := markov0_total_ieee ρ K (digitalCodes dsq L) (digitalCodes_lt dsq L K h) (by simp [digitalCodes]; omega) hK r
    exact Or.inr ⟨h, _, ofOpt_some _ _ out ho⟩

end EaselModel.Shuffle

/-! # order-1 Markov in rounded arithmetic
Same structure as over ℚ (`MarkovRat.lean`): the circularised count matrix holds exact integers; a residue of the input has an
outgoing circular pair, so its row sum `p0[x]` is an exact positive integer `≤ L`; the conditional row `count/p0[x]` has entries in
`{+0.0} ∪ [2^-32, 1]` with at least one positive, so its computed sum is finite and positive and `DChoose` returns; the residue it
returns has a non-zero entry (support theorem), i.e. is again a residue of the input. -/
namespace EaselModel.Shuffle
open CNum EaselModel.Random

variable (ρ : Rounding)

theorem ofNat_add (a b : ℕ) (h : a + b ≤ 4294967296) : add (ofNat a : Ieee ρ) (ofNat b) = ofNat (a + b) := by
  apply Subtype.ext
  show Raw.add ρ (ofNat a : Ieee ρ).1 (ofNat b : Ieee ρ).1 = (ofNat (a + b) : Ieee ρ).1
  rw [ofNat_val ρ a (by omega), ofNat_val ρ b (by omega)]
  by_cases ha : a = 0
  · subst ha
    by_cases hb : b = 0
    · subst hb; simp [Raw.add, ofNat_val]
    · rw [if_neg hb]; simp only [↓reduceIte, Raw.add, zero_add]; exact ((ofNat b : Ieee ρ)).2 |> fun _ => by
        show rnd ρ (b : ℚ) = _; rfl
  · rw [if_neg ha]
    by_cases hb : b = 0
    · subst hb; simp only [↓reduceIte, Raw.add, add_zero]; rfl
    · rw [if_neg hb]; simp only [Raw.add]; show rnd ρ ((a : ℚ) + (b : ℚ)) = rnd ρ ((a + b : ℕ) : ℚ); push_cast; rfl

/-- summing exact integers is exact -/
theorem foldl_ofNat : ∀ (ns : List ℕ) (a : ℕ), a + ns.sum ≤ 4294967296 →
    (ns.map (fun n => (ofNat n : Ieee ρ))).foldl add (ofNat a) = ofNat (a + ns.sum) := by
  intro ns
  induction ns with
  | nil => intro a _; simp
  | cons n t ih =>
    intro a h
    simp only [List.sum_cons] at h
    simp only [List.map_cons, List.foldl_cons, List.sum_cons]
    rw [ofNat_add ρ a n (by omega), ih (a + n) (by omega)]
    congr 1; omega

theorem ent_modify_eq' {α : Type} (m : Array (Array α)) (a b : Nat) (f : α → α) :
    (m.modify a (fun row => row.modify b f))[a]?.bind (fun row => row[b]?) = (m[a]?.bind (fun row => row[b]?)).map f := by
  rw [Array.getElem?_modify]
  cases hm : m[a]? with
  | none => simp
  | some row => simp only [↓reduceIte, Option.map_some, Option.bind_some, Array.getElem?_modify]

/-- the counting fold in rounded arithmetic: exact integer counts -/
theorem countsRun_ieee (ys : List Nat) : ∀ (m : Array (Array (Ieee ρ))) (prev x y a : Nat),
    ent m x y = some (ofNat a) → a + (adjPairs (prev :: ys)).count (x, y) ≤ 4294967296 →
    ent (ys.foldl (fun (st : Array (Array (Ieee ρ)) × Nat) y =>
      (st.1.modify st.2 (fun row => row.modify y (fun v => add v one)), y)) (m, prev)).1 x y =
      some (ofNat (a + (adjPairs (prev :: ys)).count (x, y))) := by
  induction ys with
  | nil => intro m prev x y a h _; simpa [adjPairs] using h
  | cons y0 t ih =>
    intro m prev x y a h hb
    simp only [List.foldl_cons]
    simp only [adjPairs, List.count_cons] at hb ⊢
    by_cases e : (prev, y0) = (x, y)
    · obtain ⟨e1, e2⟩ := Prod.mk.inj e
      subst e1; subst e2
      simp only [beq_self_eq_true, ↓reduceIte] at hb ⊢
      have h' : ent (m.modify prev (fun row => row.modify y0 (fun v => add v one))) prev y0 = some (ofNat (a + 1)) := by
        unfold ent at h ⊢
        rw [ent_modify_eq', h, Option.map_some, ofNat_add_one ρ a (by omega)]
      rw [ih _ y0 prev y0 (a + 1) h' (by omega)]
      congr 2; omega
    · have hne : ((prev, y0) == (x, y)) = false := by simpa using e
      simp only [hne, Bool.false_eq_true, ↓reduceIte, Nat.add_zero] at hb ⊢
      exact ih _ y0 x y a (by rw [ent_modify m prev y0 x y _ e]; exact h) hb

theorem countsRun_none (ys : List Nat) : ∀ (m : Array (Array (Ieee ρ))) (prev x y : Nat),
    ent m x y = none →
    ent (ys.foldl (fun (st : Array (Array (Ieee ρ)) × Nat) y =>
      (st.1.modify st.2 (fun row => row.modify y (fun v => add v one)), y)) (m, prev)).1 x y = none := by
  induction ys with
  | nil => intro m prev x y h; simpa using h
  | cons y0 t ih =>
    intro m prev x y h
    simp only [List.foldl_cons]
    apply ih
    by_cases e : (prev, y0) = (x, y)
    · obtain ⟨e1, e2⟩ := Prod.mk.inj e
      subst e1; subst e2
      unfold ent at h ⊢
      rw [ent_modify_eq', h]; rfl
    · rw [ent_modify m prev y0 x y _ e]; exact h

theorem ent_zeros_ieee (K x y : Nat) :
    ent (Array.replicate K (Array.replicate K (zero : Ieee ρ))) x y = if x < K ∧ y < K then some (ofNat 0) else none := by
  unfold ent
  simp only [Array.getElem?_replicate]
  by_cases hx : x < K
  · by_cases hy : y < K
    · simp [hx, hy, ofNat_zero]
    · simp [hx, hy]
  · simp [hx]

/-- **exact counts in rounded arithmetic** -/
theorem markov1Counts_ieee (K c0 : Nat) (rest : List Nat) (hlen : (c0 :: rest).length ≤ 4294967296) (x y : Nat) :
    ent (markov1Counts (α := Ieee ρ) K (c0 :: rest)) x y =
      if x < K ∧ y < K then some (ofNat ((circPairs (c0 :: rest)).count (x, y))) else none := by
  simp only [markov1Counts]
  have hl := (countsRun_spec (α := Ieee ρ) rest (Array.replicate K (Array.replicate K zero)) c0).1
  have hc : circPairs (c0 :: rest) = adjPairs (c0 :: rest) ++ [((c0 :: rest).getLast (by simp), c0)] := by
    simp only [circPairs, List.take_succ_cons, List.take_zero]
    exact adjPairs_append_singleton c0 rest c0
  have hcnt : (adjPairs (c0 :: rest)).count (x, y) + 1 ≤ 4294967296 := by
    have := List.count_le_length (a := (x, y)) (l := adjPairs (c0 :: rest))
    rw [adjPairs_length] at this
    simp only [List.length_cons] at this hlen
    omega
  rw [hc, List.count_append]
  by_cases hxy : x < K ∧ y < K
  · rw [if_pos hxy]
    have h0 := ent_zeros_ieee ρ K x y
    rw [if_pos hxy] at h0
    have hrun := countsRun_ieee ρ rest _ c0 x y 0 h0 (by omega)
    by_cases e : ((c0 :: rest).getLast (by simp), c0) = (x, y)
    · obtain ⟨e1, e2⟩ := Prod.mk.inj e
      subst e2; subst e1
      rw [hl]
      unfold ent at hrun ⊢
      rw [ent_modify_eq', hrun, Option.map_some]
      rw [ofNat_add_one ρ _ (by omega)]
      simp
    · rw [ent_modify _ _ _ x y _ (by rw [hl]; exact e), hrun]
      have hne : (((c0 :: rest).getLast (by simp), c0) == (x, y)) = false := by simpa using e
      simp [List.count_cons, hne]
  · rw [if_neg hxy]
    have h0 := ent_zeros_ieee ρ K x y
    rw [if_neg hxy] at h0
    have hrun := countsRun_none ρ rest _ c0 x y h0
    by_cases e : ((c0 :: rest).getLast (by simp), c0) = (x, y)
    · obtain ⟨e1, e2⟩ := Prod.mk.inj e
      subst e2; subst e1
      rw [hl]
      unfold ent at hrun ⊢
      rw [ent_modify_eq', hrun]; rfl
    · rw [ent_modify _ _ _ x y _ (by rw [hl]; exact e), hrun]


/-- how often `x` is followed by something `< K` in the circular reading: the exact value of `p0[x]` before the division by `L` -/
def rowN (K : Nat) (codes : List Nat) (x : Nat) : List ℕ := (List.range K).map (fun y => (circPairs codes).count (x, y))

theorem ind_sum (K : Nat) (p : Nat × Nat) (x : Nat) :
    ((List.range K).map (fun y => if p == (x, y) then 1 else 0)).sum = if p.1 = x ∧ p.2 < K then 1 else 0 := by
  obtain ⟨a, b⟩ := p
  induction K with
  | zero => simp
  | succ K ih =>
    rw [List.range_succ, List.map_append, List.sum_append, ih]
    simp only [List.map_cons, List.map_nil, List.sum_cons, List.sum_nil, Nat.add_zero, beq_iff_eq, Prod.mk.injEq]
    split_ifs <;> omega

theorem count_row_le (K : Nat) (l : List (Nat × Nat)) (x : Nat) :
    ((List.range K).map (fun y => l.count (x, y))).sum ≤ l.length := by
  induction l with
  | nil => simp
  | cons p t ih =>
    have : ((List.range K).map (fun y => (p :: t).count (x, y))).sum =
        ((List.range K).map (fun y => t.count (x, y))).sum + ((List.range K).map (fun y => if p == (x, y) then 1 else 0)).sum := by
      rw [← List.sum_map_add]
      congr 1
      apply List.map_congr_left
      intro y _
      rw [List.count_cons]
    rw [this, ind_sum]
    simp only [List.length_cons]
    split_ifs <;> omega

theorem circPairs_length (c0 : Nat) (rest : List Nat) : (circPairs (c0 :: rest)).length = (c0 :: rest).length := by
  simp only [circPairs, List.take_succ_cons, List.take_zero]
  rw [adjPairs_length]
  simp

theorem rowN_sum_le (K : Nat) (c0 : Nat) (rest : List Nat) (x : Nat) : (rowN K (c0 :: rest) x).sum ≤ (c0 :: rest).length := by
  rw [← circPairs_length]; exact count_row_le K _ x

theorem rowN_sum_pos (K : Nat) (codes : List Nat) (hK : ∀ c ∈ codes, c < K) (x : Nat) (hx : x ∈ codes) : 0 < (rowN K codes x).sum := by
  obtain ⟨y, hy1, hy2⟩ := circ_succ codes x hx
  have hmem : (circPairs codes).count (x, y) ∈ rowN K codes x := by
    simp only [rowN, List.mem_map, List.mem_range]
    exact ⟨y, hK y hy2, rfl⟩
  have hle := List.single_le_sum (fun _ _ => Nat.zero_le _) _ hmem
  have : 0 < (circPairs codes).count (x, y) := List.count_pos_iff.2 hy1
  omega

/-- the rows of the count matrix hold the exact integers -/
theorem markov1Counts_row_ieee (K c0 : Nat) (rest : List Nat) (hlen : (c0 :: rest).length ≤ 4294967296) (x : Nat) (hx : x < K) :
    ∃ row, (markov1Counts (α := Ieee ρ) K (c0 :: rest))[x]? = some row ∧
      row.toList = (rowN K (c0 :: rest) x).map (fun n => (ofNat n : Ieee ρ)) := by
  have he := fun y => markov1Counts_ieee ρ K c0 rest hlen x y
  have h0 := he 0
  rw [if_pos ⟨hx, by omega⟩] at h0
  unfold ent at h0 he
  cases hr : (markov1Counts (α := Ieee ρ) K (c0 :: rest))[x]? with
  | none => simp [hr] at h0
  | some row =>
    refine ⟨row, rfl, ?_⟩
    apply List.ext_getElem?
    intro y
    have := he y
    simp only [hr, Option.bind_some] at this
    rw [Array.getElem?_toList, this]
    simp only [rowN, List.map_map, List.getElem?_map]
    by_cases hy : y < K
    · rw [if_pos ⟨hx, hy⟩, List.getElem?_range hy]; rfl
    · rw [if_neg (by omega), List.getElem?_eq_none (by simpa using hy)]; rfl

theorem markov1Counts_size_ieee (K c0 : Nat) (rest : List Nat) : (markov1Counts (α := Ieee ρ) K (c0 :: rest)).size = K := by
  simp only [markov1Counts, Array.size_modify]
  have key : ∀ (ys : List Nat) (m0 : Array (Array (Ieee ρ))) (prev : Nat), m0.size = K →
      (ys.foldl (fun (st : Array (Array (Ieee ρ)) × Nat) y =>
        (st.1.modify st.2 (fun row => row.modify y (fun v => add v one)), y)) (m0, prev)).1.size = K := by
    intro ys
    induction ys with
    | nil => intro m0 prev h; simpa using h
    | cons y t ih => intro m0 prev h; simp only [List.foldl_cons]; exact ih _ y (by simpa using h)
  exact key rest _ c0 (by simp)

/-- `p0[x]` before the division: the exact integer row sum -/
theorem rowsum_ieee (K c0 : Nat) (rest : List Nat) (hlen : (c0 :: rest).length ≤ 4294967296) (x : Nat) (hx : x < K) :
    ((markov1Counts (α := Ieee ρ) K (c0 :: rest)).map (fun row => row.foldl add zero)).getD x zero =
      ofNat (rowN K (c0 :: rest) x).sum := by
  obtain ⟨row, h1, h2⟩ := markov1Counts_row_ieee ρ K c0 rest hlen x hx
  rw [Array.getD_eq_getD_getElem?, Array.getElem?_map, h1]
  simp only [Option.map_some, Option.getD_some]
  rw [← Array.foldl_toList, h2, ← ofNat_zero ρ, foldl_ofNat ρ _ 0 (by have := rowN_sum_le K c0 rest x; omega), Nat.zero_add]

theorem lt_zero_ofNat (n : ℕ) (h0 : 0 < n) (hn : n ≤ 4294967296) : lt (zero : Ieee ρ) (ofNat n) = true := by
  show Raw.lt (.zero false) (ofNat n : Ieee ρ).1 = true
  rw [ofNat_val ρ n hn, if_neg (by omega)]
  simp only [Raw.lt, decide_eq_true_eq]
  exact_mod_cast h0

/-- the conditional row `p[x]` of a residue with a positive row sum -/
theorem markov1P_row_ieee (K c0 : Nat) (rest : List Nat) (hlen : (c0 :: rest).length ≤ 4294967296) (x : Nat) (hx : x < K)
    (hS : 0 < (rowN K (c0 :: rest) x).sum) :
    (((markov1P (c0 :: rest).length (markov1Counts (α := Ieee ρ) K (c0 :: rest))).1)[x]!).toList =
      (rowN K (c0 :: rest) x).map (fun n => (div (ofNat n) (ofNat (rowN K (c0 :: rest) x).sum) : Ieee ρ)) := by
  obtain ⟨row, h1, h2⟩ := markov1Counts_row_ieee ρ K c0 rest hlen x hx
  have hsum := rowsum_ieee ρ K c0 rest hlen x hx
  simp only [markov1P]
  rw [Array.getElem!_eq_getD, Array.getD_eq_getD_getElem?, Array.getElem?_mapIdx, h1]
  simp only [Option.map_some, Option.getD_some, Array.toList_map]
  rw [h2, hsum]
  have hlt := lt_zero_ofNat ρ _ hS (le_trans (rowN_sum_le K c0 rest x) hlen)
  simp only [hlt, ↓reduceIte, List.map_map]
  rfl

/-- the marginal vector `p0` -/
theorem markov1P_marginal_ieee (K c0 : Nat) (rest : List Nat) (hlen : (c0 :: rest).length ≤ 4294967296) :
    ((markov1P (c0 :: rest).length (markov1Counts (α := Ieee ρ) K (c0 :: rest))).2).toList =
      (List.range K).map (fun x => (div (ofNat (rowN K (c0 :: rest) x).sum) (ofNat (c0 :: rest).length) : Ieee ρ)) := by
  apply List.ext_getElem?
  intro x
  simp only [markov1P, Array.toList_map, List.getElem?_map, Array.getElem?_toList]
  by_cases hx : x < K
  · obtain ⟨row, h1, h2⟩ := markov1Counts_row_ieee ρ K c0 rest hlen x hx
    rw [h1, List.getElem?_range hx]
    simp only [Option.map_some, Option.some.injEq]
    rw [← Array.foldl_toList, h2, ← ofNat_zero ρ, foldl_ofNat ρ _ 0 (by have := rowN_sum_le K c0 rest x; omega), Nat.zero_add]
  · rw [Array.getElem?_eq_none (by rw [markov1Counts_size_ieee]; omega), List.getElem?_eq_none (by simpa using hx)]
    rfl

/-- `esl_rnd_DChoose` on a vector of at most `2^32` entries in `{+0.0} ∪ (0,1]`, one of them positive, returns -/
theorem dchoose_total_ieee (p : List (Ieee ρ)) (hlen : p.length ≤ 4294967296) (hent : ∀ q ∈ p, Sm 1 q.1) (hpos : ∃ q ∈ p, Pos q.1)
    (x : Nat) (hx : x < 4294967296) : ∃ k, dchoose (div (ofNat x) (ofNat 4294967296) : Ieee ρ) p = some k := by
  obtain ⟨_, hP⟩ := foldl_Sm ρ p zero 0 (Or.inl rfl) hent (by omega)
  obtain ⟨q, hq, _⟩ := hP (Or.inr hpos)
  have hne : p ≠ [] := by obtain ⟨q, hq, _⟩ := hpos; exact List.ne_nil_of_mem hq
  exact dchoose_total_abs _ p hne (ieee_div_self ρ _ q hq) (ieee_random_lt_one ρ x hx)

/-- i.i.d. generation from a probability-like vector in rounded arithmetic: at most `2^32` entries, each `+0.0` or in `(0, 1]`, one of
    them positive — whatever their computed sum is (it need not be `1.0`), the loop returns -/
theorem iidLoop_total_ieee (p : List (Ieee ρ)) (hlen : p.length ≤ 4294967296) (hent : ∀ q ∈ p, Sm 1 q.1)
    (hpos : ∃ q ∈ p, Pos q.1) : ∀ (n : Nat) (r : Rng) (acc : Array Nat), ∃ out, (iidLoop p n r acc).1 = some out := by
  obtain ⟨_, hP⟩ := foldl_Sm ρ p zero 0 (Or.inl rfl) hent (by omega)
  obtain ⟨q, hq, _⟩ := hP (Or.inr hpos)
  have hne : p ≠ [] := by obtain ⟨q, hq, _⟩ := hpos; exact List.ne_nil_of_mem hq
  exact iidLoop_total_abs p hne (ieee_div_self ρ _ q hq) (ieee_random_lt_one ρ)

theorem randomNum_ieee (r : Rng) : ∃ x, x < 4294967296 ∧ (randomNum (α := Ieee ρ) r).1 = div (ofNat x) (ofNat 4294967296) := by
  refine ⟨(r.randomNum).1, ?_, rfl⟩
  unfold Rng.randomNum
  exact (r.next).1.toNat_lt

/-- the rows `count/p0[x]` of a residue of the input: entries in `{+0.0} ∪ (0,1]`, the entry of a circular successor positive -/
theorem row_good (K : Nat) (codes : List Nat) (c0 : Nat) (rest : List Nat) (hc : codes = c0 :: rest) (hK : ∀ c ∈ codes, c < K)
    (hlen : codes.length ≤ 4294967296) (x : Nat) (hx : x ∈ codes) :
    (∀ q ∈ (rowN K codes x).map (fun n => (div (ofNat n) (ofNat (rowN K codes x).sum) : Ieee ρ)), Sm 1 q.1) ∧
    ∃ q ∈ (rowN K codes x).map (fun n => (div (ofNat n) (ofNat (rowN K codes x).sum) : Ieee ρ)), Pos q.1 := by
  have hS := rowN_sum_pos K codes hK x hx
  have hSle : (rowN K codes x).sum ≤ 4294967296 := by subst hc; exact le_trans (rowN_sum_le K c0 rest x) hlen
  constructor
  · intro q hq
    obtain ⟨n, hn, rfl⟩ := List.mem_map.1 hq
    exact (ratio_ieee ρ n _ (List.single_le_sum (fun _ _ => Nat.zero_le _) _ hn) hS hSle).1
  · obtain ⟨y, hy1, hy2⟩ := circ_succ codes x hx
    have hmem : (circPairs codes).count (x, y) ∈ rowN K codes x := by
      simp only [rowN, List.mem_map, List.mem_range]
      exact ⟨y, hK y hy2, rfl⟩
    refine ⟨_, List.mem_map.2 ⟨_, hmem, rfl⟩, ?_⟩
    exact (ratio_ieee ρ _ _ (List.single_le_sum (fun _ _ => Nat.zero_le _) _ hmem) hS hSle).2 (List.count_pos_iff.2 hy1)

/-- the generation loop never falls through as long as the current residue occurs in the input — and then so does the next -/
theorem markov1Loop_total_ieee (K c0 : Nat) (rest : List Nat) (hK : ∀ c ∈ c0 :: rest, c < K)
    (hlen : (c0 :: rest).length ≤ 4294967296) (hKb : K ≤ 4294967296) :
    ∀ (n x : Nat) (r : Rng) (acc : Array Nat), x ∈ c0 :: rest →
    ∃ out, (markov1Loop ((markov1P (c0 :: rest).length (markov1Counts (α := Ieee ρ) K (c0 :: rest))).1) n x r acc).1 = some out := by
  intro n
  induction n with
  | zero => intro x r acc _; exact ⟨acc, rfl⟩
  | succ n ih =>
    intro x r acc hx
    simp only [markov1Loop]
    have hxK := hK x hx
    have hS := rowN_sum_pos K (c0 :: rest) hK x hx
    obtain ⟨xn, hxn, hrn⟩ := randomNum_ieee ρ r
    obtain ⟨hent, hpos⟩ := row_good ρ K (c0 :: rest) c0 rest rfl hK hlen x hx
    have hrow := markov1P_row_ieee ρ K c0 rest hlen x hxK hS
    obtain ⟨y, hy⟩ := dchoose_total_ieee ρ _ (by simp [rowN]; exact hKb) hent hpos xn hxn
    rw [hrn, hrow, hy]
    apply ih
    -- the chosen residue has a non-zero conditional probability: `(x, y)` is a circular pair of the input
    rw [← hrow] at hy
    obtain ⟨q, hq1, hq2⟩ := dchoose_nonzero xn 4294967296 _ y hy
    obtain ⟨v, hv1, hv2⟩ := markov1P_cond (c0 :: rest).length _ x y q (bang_toList_getElem? _ x y q hq1) hq2
    exact circ_snd_mem _ x y (markov1Counts_support K (c0 :: rest) x y v hv1 hv2)

/-- **`esl_rsq_{C,X}Markov1` never reaches `esl_fatal` in rounded arithmetic** -/
theorem markov1_total_ieee (K : Nat) (codes : List Nat) (hK : ∀ c ∈ codes, c < K) (h2 : 2 < codes.length)
    (hlen : codes.length ≤ 4294967296) (hKb : K ≤ 4294967296) (r : Rng) :
    ∃ out, (markov1 (α := Ieee ρ) K codes r).1 = some out := by
  obtain ⟨c0, rest, rfl⟩ := List.exists_cons_of_ne_nil (show codes ≠ [] by intro e; simp [e] at h2)
  unfold markov1
  simp only
  obtain ⟨xn, hxn, hrn⟩ := randomNum_ieee ρ r
  have hmarg := markov1P_marginal_ieee ρ K c0 rest hlen
  have hLpos : 0 < (c0 :: rest).length := by simp
  have hent : ∀ q ∈ (List.range K).map (fun x => (div (ofNat (rowN K (c0 :: rest) x).sum) (ofNat (c0 :: rest).length) : Ieee ρ)), Sm 1 q.1 := by
    intro q hq
    obtain ⟨x, _, rfl⟩ := List.mem_map.1 hq
    exact (ratio_ieee ρ _ _ (rowN_sum_le K c0 rest x) hLpos hlen).1
  have hc0 : c0 < K := hK c0 (by simp)
  have hpos : ∃ q ∈ (List.range K).map (fun x => (div (ofNat (rowN K (c0 :: rest) x).sum) (ofNat (c0 :: rest).length) : Ieee ρ)), Pos q.1 :=
    ⟨_, List.mem_map.2 ⟨c0, by simpa using hc0, rfl⟩,
      (ratio_ieee ρ _ _ (rowN_sum_le K c0 rest c0) hLpos hlen).2 (rowN_sum_pos K _ hK c0 (by simp))⟩
  obtain ⟨x, hx⟩ := dchoose_total_ieee ρ _ (by simpa using hKb) hent hpos xn hxn
  rw [hrn, hmarg, hx]
  apply markov1Loop_total_ieee ρ K c0 rest hK hlen hKb
  -- the first residue has a non-zero marginal: it occurs in the input
  rw [← hmarg] at hx
  obtain ⟨q, hq1, hq2⟩ := dchoose_nonzero xn 4294967296 _ x hx
  rw [Array.getElem?_toList] at hq1
  obtain ⟨y, v, hv1, hv2⟩ := markov1P_marg (c0 :: rest).length hLpos _ x q hq1 hq2
  have hxy := markov1Counts_support K (c0 :: rest) x y v hv1 hv2
  have := fst_mem_of_adjPairs _ x y hxy
  simp only [List.take_succ_cons, List.take_zero] at this
  rw [List.dropLast_concat] at this
  exact this

theorem cMarkov1_total_ieee (s : Bytes) (hs : s.size ≤ 4294967296) (r : Rng) :
    ((cMarkov1 (Ieee ρ) s r).1 = .einval ∧ s.any (fun c => !isAlpha c) = true) ∨
    (¬ (s.any (fun c => !isAlpha c) = true) ∧ ∃ out, (cMarkov1 (Ieee ρ) s r).1 = .ok out) := by
  unfold cMarkov1
  split
  · rename_i h; exact Or.inl ⟨rfl, h⟩
  · rename_i h
    refine Or.inr ⟨h, ?_⟩
    split
    · exact ⟨_, rfl⟩
    · rename_i h2
      obtain ⟨out, ho⟩ := markov1_total_ieee ρ 26 (textCodes s) (textCodes_lt s h) (by simp [textCodes]; omega)
        (by simpa [textCodes] using hs) (by norm_num) r
      exact ⟨_, ofOpt_some _ _ out ho⟩

theorem xMarkov1_total_ieee (dsq : Bytes) (L K : Nat) (hL : L + 2 ≤ dsq.size) (hLb : L ≤ 4294967296) (hKb : K ≤ 4294967296) (r : Rng) :
    ((xMarkov1 (Ieee ρ) dsq L K r).1 = .einval ∧ (digitalCodes dsq L).any (fun c => c ≥ K) = true) ∨
    (¬ ((digitalCodes dsq L).any (fun c => c ≥ K) = true) ∧ ∃ out, (xMarkov1 (Ieee ρ) dsq L K r).1 = .ok out) := by
  have hlen : (digitalCodes dsq L).length = L := by simp [digitalCodes]; omega
  unfold xMarkov1
  split
  · rename_i h; exact Or.inl ⟨rfl, h⟩
  · rename_i h
    refine Or.inr ⟨h, ?_⟩
    split
    · exact ⟨_, rfl⟩
    · rename_i h2
      obtain ⟨out, ho⟩ := markov1_total_ieee ρ K (digitalCodes dsq L) (digitalCodes_lt dsq L K h) (by omega) (by omega) hKb r
      exact ⟨_, ofOpt_some _ _ out ho⟩

end EaselModel.Shuffle
