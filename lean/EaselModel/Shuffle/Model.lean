import EaselModel.Random.Model
/-! # Executable model of esl_randomseq.c / esl_msashuffle.c / esl_vectorops.c shufflers (C18). Core Lean only.

Conventions
* text sequence  = `Array UInt8` of the `strlen` bytes (the NUL terminator is not modelled);
* digital sequence = the whole C array `dsq[0..L+1]` (sentinels included), so index expressions are the C ones;
  `base` is the index of the first residue (0 for text, 1 for digital).
* every randomised routine takes and returns the generator state `Rng` (C09 model, bit-identical to the C generator).
* the three-statement C swap `c=a[i]; a[i]=a[j]; a[j]=c` is `Array.swapIfInBounds` (identical when both indices are
  in bounds; `Lemmas.lean` proves that all indices used are in bounds). -/
namespace EaselModel.Shuffle
open EaselModel.Random

abbrev Bytes := Array UInt8

def rollFuel : Nat := 1000000

/-- `esl_rnd_Roll(r, n)`: the first accepted draw. The C rejection loop is unbounded; if no draw is accepted within
    `rollFuel` words (probability < 2^-1000000) the model answers 0. -/
def roll (r : Rng) (n : Nat) : Nat × Rng :=
  match r.roll n rollFuel with
  | some p => p
  | none => (0, r)

/-! ## Fisher–Yates skeleton
`for ( ; n > 1; n--) { i = esl_rnd_Roll(r, n); swap(base+i, base+n-1); }` over any state `σ` with a swap action.
Instances: `esl_rsq_CShuffle` (base 0), `esl_rsq_XShuffle` (base 1), `esl_vec_{DFIL}Shuffle`, the per-list
shuffle of the DP shuffle, `esl_msashuffle_Shuffle` (swap = swap in every row), `esl_msashuffle_PermuteSequenceOrder`
(swap = swap in every per-sequence array), `esl_rsq_{C,X}ShuffleKmers` (swap = block swap by three memmoves). -/
def fyLoop {σ : Type} (sw : σ → Nat → Nat → σ) (base : Nat) : Nat → σ → Rng → σ × Rng
  | n+2, s, r =>
    let (i, r') := roll r (n+2)
    fyLoop sw base (n+1) (sw s (base + i) (base + (n+2) - 1)) r'
  | _, s, r => (s, r)

/-- `esl_rsq_CShuffle` (also `esl_vec_*Shuffle`): `L = strlen(s)`, swap `shuffled[i]`, `shuffled[L-1]` -/
def cShuffle {α : Type} (s : Array α) (r : Rng) : Array α × Rng :=
  fyLoop (fun a i j => a.swapIfInBounds i j) 0 s.size s r

/-- `esl_rsq_XShuffle(r, dsq, L, shuffled)`: `i = 1 + Roll(L)`, swap `shuffled[i]`, `shuffled[L]` -/
def xShuffle (dsq : Bytes) (L : Nat) (r : Rng) : Bytes × Rng :=
  fyLoop (fun a i j => a.swapIfInBounds i j) 1 L dsq r

/-! ## k-mer shuffle -/
/-- `memmove(dst + pos, src, K)` -/
def blit {α : Type} (a : Array α) (pos : Nat) (src : Array α) : Array α :=
  (List.range src.size).foldl (fun (acc : Array α) t => match src[t]? with
    | some v => acc.setIfInBounds (pos + t) v
    | none => acc) a

/-- the three memmoves of `esl_rsq_{C,X}ShuffleKmers`: word `i` ↔ word `j` (`j = W-1`), words start at `off` -/
def blockSwap {α : Type} (K off : Nat) (a : Array α) (i j : Nat) : Array α :=
  let swap := a.extract (off + i*K) (off + i*K + K)
  let a := blit a (off + i*K) (a.extract (off + j*K) (off + j*K + K))
  blit a (off + j*K) swap

/-- `esl_rsq_CShuffleKmers` (`base = 0`) / `esl_rsq_XShuffleKmers` (`base = 1`: words start at `shuffled + 1 + P`).
    `W = L / K`, `P = L % K`; word `w` is at `base + P + w*K`. -/
def shuffleKmers {α : Type} (base : Nat) (a : Array α) (L K : Nat) (r : Rng) : Array α × Rng :=
  let W := L / K
  let P := L % K
  fyLoop (fun a i j => blockSwap K (base + P) a i j) 0 W a r

/-! ## window shuffle -/
/-- inner loop `for (j = top; j > i; j--) { k = i + Roll(j-i+d); swap(k, j); }`; argument `m = j - i`.
    `d = 0` in `esl_rsq_CShuffleWindows` (`Roll(j-i)`), `d = 1` in `esl_rsq_XShuffleWindows` (`Roll(j-i+1)`). -/
def winInner {α : Type} (d i : Nat) : Nat → Array α → Rng → Array α × Rng
  | 0, a, r => (a, r)
  | m+1, a, r =>
    let (t, r') := roll r (m + 1 + d)
    winInner d i m (a.swapIfInBounds (i + t) (i + (m+1))) r'

/-- outer loop `for (i = base; i < base+L; i += w)` with `top = MIN(base+L-1, i+w-1)`; `fuel` bounds the number of
    windows (`L` suffices when `w ≥ 1`; with `w = 0` the C loop never ends). -/
def winOuter {α : Type} (d w base L : Nat) : Nat → Nat → Array α → Rng → Array α × Rng
  | 0, _, a, r => (a, r)
  | fuel+1, i, a, r =>
    if i < base + L then
      let top := min (base + L - 1) (i + w - 1)
      let (a', r') := winInner d i (top - i) a r
      winOuter d w base L fuel (i + w) a' r'
    else (a, r)

def cShuffleWindows {α : Type} (s : Array α) (w : Nat) (r : Rng) : Array α × Rng :=
  winOuter 0 w 0 s.size s.size 0 s r
def xShuffleWindows (dsq : Bytes) (L w : Nat) (r : Rng) : Bytes × Rng :=
  winOuter 1 w 1 L L 1 dsq r

/-! ## reversal (alias-aware: `rev` may be the same storage as `s`) -/
/-- one iteration `c = s[hi]; rev[hi] = s[lo]; rev[lo] = c`, reading through the alias when `alias` -/
def revStep {α : Type} [Inhabited α] (alias : Bool) (src : Array α) (dst : Array α) (lo hi : Nat) : Array α :=
  let c := if alias then dst[hi]! else src[hi]!
  let v := if alias then dst[lo]! else src[lo]!
  let dst := dst.setIfInBounds hi v
  dst.setIfInBounds lo c

/-- `for (i = 0; i < L/2; i++)` with `lo = base+i`, `hi = base+L-1-i` -/
def revLoop {α : Type} [Inhabited α] (alias : Bool) (src : Array α) (base L : Nat) : Nat → Nat → Array α → Array α
  | 0, _, dst => dst
  | n+1, i, dst => revLoop alias src base L n (i+1) (revStep alias src dst (base + i) (base + L - 1 - i))

/-- `esl_rsq_CReverse` (base 0) / `esl_rsq_XReverse` (base 1) / `esl_vec_*Reverse`; `dst` is the caller's storage.
    The odd middle element `rev[i] = s[i]` is copied last. -/
def reverse {α : Type} [Inhabited α] (alias : Bool) (src dst : Array α) (base L : Nat) : Array α :=
  let dst := revLoop alias src base L (L/2) 0 dst
  if L % 2 = 1 then
    let mid := base + L/2
    dst.setIfInBounds mid (if alias then dst[mid]! else src[mid]!)
  else dst

/-! ## alignment shufflers -/
/-- swap columns `i`,`j` in every row (also: swap entries `i`,`j` in every per-sequence array) -/
def multiSwap {α : Type} (rows : Array (Array α)) (i j : Nat) : Array (Array α) :=
  rows.map (fun row => row.swapIfInBounds i j)

/-- `esl_msashuffle_Shuffle`: text `base = 0`, digital `base = 1` -/
def msaShuffle {α : Type} (base : Nat) (rows : Array (Array α)) (alen : Nat) (r : Rng) : Array (Array α) × Rng :=
  fyLoop multiSwap base alen rows r

/-- `esl_msashuffle_PermuteSequenceOrder`: `arrays` = all per-sequence arrays that are present
    (aseq/ax, sqname, wgt, sqacc, sqdesc, ss, sa, pp, sqlen, sslen, salen, pplen, gs[tag], gr[tag]), each of length `nseq` -/
def permuteSeqOrder {α : Type} (arrays : Array (Array α)) (nseq : Nat) (r : Rng) : Array (Array α) × Rng :=
  fyLoop multiSwap 0 nseq arrays r

/-- `esl_msashuffle_Bootstrap`: `for pos: col = Roll(alen); for i: boot[i][base+pos] = msa[i][base+col]` -/
def bootLoop (base alen : Nat) (msa : Array Bytes) : Nat → Nat → Array Bytes → Rng → Array Bytes × Rng
  | 0, _, boot, r => (boot, r)
  | n+1, pos, boot, r =>
    let (col, r') := roll r alen
    let boot := boot.mapIdx (fun i row => row.setIfInBounds (base + pos) ((msa[i]!)[base + col]!))
    bootLoop base alen msa n (pos+1) boot r'

def bootstrap (base alen : Nat) (msa boot : Array Bytes) (r : Rng) : Array Bytes × Rng :=
  bootLoop base alen msa alen 0 boot r

/-- column `apos` of `msa`: the non-gap residues in row order (`csq[1..nres]`) -/
def vColumn (gap : UInt8) (msa : Array Bytes) (apos : Nat) : Bytes :=
  msa.foldl (fun (acc : Bytes) row => if row[apos]! != gap then acc.push row[apos]! else acc) #[]

/-- put `csq` back into the non-gap rows of column `apos` of `shuf` (gap test on `msa`) -/
def vPutBack (gap : UInt8) (msa : Array Bytes) (apos : Nat) (csq : Bytes) : Nat → Nat → Array Bytes → Array Bytes
  | 0, _, shuf => shuf
  | n+1, nres, shuf =>
    let idx := msa.size - (n+1)
    if (msa[idx]!)[apos]! != gap then
      vPutBack gap msa apos csq n (nres+1) (shuf.modify idx (fun row => row.setIfInBounds apos csq[nres]!))
    else vPutBack gap msa apos csq n nres shuf

/-- `esl_msashuffle_VShuffle` (digital): per column, `esl_rsq_XShuffle` of the non-gap residues (`csq` has a leading
    sentinel, hence the `#[255] ++`), written back to the non-gap rows. `inplace` = `msa == shuf`. -/
def vShuffleLoop (gap : UInt8) (inplace : Bool) (msa : Array Bytes) : Nat → Nat → Array Bytes → Rng → Array Bytes × Rng
  | 0, _, shuf, r => (shuf, r)
  | n+1, apos, shuf, r =>
    let src := if inplace then shuf else msa
    let col := vColumn gap src apos
    let (csq, r') := xShuffle (#[255] ++ col ++ #[255]) col.size r
    let shuf := vPutBack gap src apos (csq.extract 1 (col.size + 1)) src.size 0 shuf
    vShuffleLoop gap inplace msa n (apos+1) shuf r'

def vShuffle (gap : UInt8) (inplace : Bool) (alen : Nat) (msa shuf : Array Bytes) (r : Rng) : Array Bytes × Rng :=
  vShuffleLoop gap inplace msa alen 1 shuf r

/-! ## QRNA pairwise shuffle -/
structure Qrna where
  xs : Bytes
  ys : Bytes
  col : Array Nat

/-- one iteration of the three loops of `esl_msashuffle_{C,X}QRNA`, statement by statement.
    `last = false` is the first loop (its final statement is `xycol[pos] = c`),
    `last = true` the second and third (`xcol[nx-1] = c`). -/
def qrnaStep (last : Bool) (q : Qrna) (pos n : Nat) : Qrna :=
  let xsym := q.xs[q.col[pos]!]!
  let ysym := q.ys[q.col[pos]!]!
  let c := q.col[pos]!
  let xs := q.xs.setIfInBounds (q.col[pos]!) (q.xs[q.col[n-1]!]!)
  let ys := q.ys.setIfInBounds (q.col[pos]!) (q.ys[q.col[n-1]!]!)
  let col := q.col.setIfInBounds pos (q.col[n-1]!)
  let xs := xs.setIfInBounds (col[n-1]!) xsym
  let ys := ys.setIfInBounds (col[n-1]!) ysym
  let col := col.setIfInBounds (if last then n-1 else pos) c
  { xs := xs, ys := ys, col := col }

def qrnaLoop (last : Bool) : Nat → Qrna → Rng → Qrna × Rng
  | n+2, q, r =>
    let (pos, r') := roll r (n+2)
    qrnaLoop last (n+1) (qrnaStep last q pos (n+2)) r'
  | _, q, r => (q, r)

/-- column lists: positions `base..base+L-1` classified by the gap predicate -/
def qrnaCols (isGap : UInt8 → Bool) (x y : Bytes) (base L : Nat) : Array Nat × Array Nat × Array Nat :=
  (List.range L).foldl (fun (acc : Array Nat × Array Nat × Array Nat) t =>
    let i := base + t
    let gx := isGap x[i]!
    let gy := isGap y[i]!
    if gx && gy then acc
    else if !gx && !gy then (acc.1.push i, acc.2.1, acc.2.2)
    else if gx then (acc.1, acc.2.1, acc.2.2.push i)
    else (acc.1, acc.2.1.push i, acc.2.2)) (#[], #[], #[])

/-- `esl_msashuffle_CQRNA` (base 0) / `esl_msashuffle_XQRNA` (base 1); `x`,`y` of equal length (else `eslEINVAL`) -/
def qrna (isGap : UInt8 → Bool) (x y : Bytes) (base L : Nat) (r : Rng) : (Bytes × Bytes) × Rng :=
  let (xy, xc, yc) := qrnaCols isGap x y base L
  let (q, r) := qrnaLoop false xy.size { xs := x, ys := y, col := xy } r
  let (q, r) := qrnaLoop true xc.size { q with col := xc } r
  let (q, r) := qrnaLoop true yc.size { q with col := yc } r
  ((q.xs, q.ys), r)

/-! ## doublet-preserving shuffle (Altschul–Erickson) -/
abbrev Edges := Array (Array Nat)

/-- step (1): `E[x][nE[x]++] = y` along the sequence -/
def dpBuild (K : Nat) : List Nat → Edges
  | [] => Array.replicate K #[]
  | c0 :: rest =>
    (rest.foldl (fun (st : Edges × Nat) y => (st.1.modify st.2 (fun l => l.push y), y)) (Array.replicate K #[], c0)).1

/-- step (2): for each vertex `x` with edges, `x ≠ sf`: `pos = Roll(nE[x])`, swap `E[x][pos]`, `E[x][nE[x]-1]` -/
def dpSelectLast (sf : Nat) : List Nat → Edges → Rng → Edges × Rng
  | [], E, r => (E, r)
  | x :: xs, E, r =>
    let n := (E[x]!).size
    if n == 0 || x == sf then dpSelectLast sf xs E r
    else
      let (pos, r') := roll r n
      dpSelectLast sf xs (E.modify x (fun l => l.swapIfInBounds pos (n-1))) r'

/-- one sweep of step (3) over `x = 0..K-1` -/
def dpSweep (E : Edges) : List Nat → Array Bool → Bool → Array Bool × Bool
  | [], Z, keep => (Z, keep)
  | x :: xs, Z, keep =>
    let n := (E[x]!).size
    if n == 0 then dpSweep E xs Z keep
    else
      let y := (E[x]!)[n-1]!
      if !Z[x]! && Z[y]! then dpSweep E xs (Z.setIfInBounds x true) true
      else dpSweep E xs Z keep

/-- `while (keep_connecting)`: at most `K+1` sweeps can be productive -/
def dpConnect (E : Edges) (K : Nat) : Nat → Array Bool → Array Bool
  | 0, Z => Z
  | fuel+1, Z =>
    let (Z', keep) := dpSweep E (List.range K) Z false
    if keep then dpConnect E K fuel Z' else Z'

def dpIsEulerian (E : Edges) (K sf : Nat) (Z : Array Bool) : Bool :=
  (List.range K).all (fun x => (E[x]!).size == 0 || x == sf || Z[x]!)

/-- `while (!is_eulerian)` with fuel: returns the first accepted last-edge selection -/
def dpFind (K sf : Nat) : Nat → Edges → Rng → Option (Edges × Rng)
  | 0, _, _ => none
  | fuel+1, E, r =>
    let (E', r') := dpSelectLast sf (List.range K) E r
    let Z := dpConnect E' K (K+1) ((Array.replicate K false).setIfInBounds sf true)
    if dpIsEulerian E' K sf Z then some (E', r') else dpFind K sf fuel E' r'

/-- step (5): `for x: for (n = nE[x]-1; n > 1; n--) { pos = Roll(n); swap(E[x][pos], E[x][n-1]); }` -/
def dpPermute : List Nat → Edges → Rng → Edges × Rng
  | [], E, r => (E, r)
  | x :: xs, E, r =>
    let (l, r') := fyLoop (fun (a : Array Nat) i j => a.swapIfInBounds i j) 0 ((E[x]!).size - 1) (E[x]!) r
    dpPermute xs (E.setIfInBounds x l) r'

/-- step (6), the walk: `out.push x; y = E[x][iE[x]++]; x = y; if (iE[x] == nE[x]) break;`.
    Every step consumes one edge, so `len` steps of fuel are never exhausted. -/
def dpWalk (E : Edges) : Nat → Nat → Array Nat → Array Nat → Array Nat × Nat × Array Nat
  | 0, x, iE, out => (out, x, iE)
  | fuel+1, x, iE, out =>
    let out := out.push x
    let y := (E[x]!)[iE[x]!]!
    let iE := iE.modify x (· + 1)
    if iE[y]! == (E[y]!).size then (out, y, iE) else dpWalk E fuel y iE out

inductive DPResult
  | ok (out : Array Nat)
  | einval
  | einconceivable   -- one of the two "reality checks" fired
  | nohalt           -- retry fuel exhausted (C: loops on)
deriving Repr, DecidableEq

def dpRetryFuel : Nat := 100000

/-- the body of `esl_rsq_{C,X}ShuffleDP` after validation, on vertex codes `0..K-1`; `codes.length > 2` -/
def shuffleDPcore (K : Nat) (codes : List Nat) (r : Rng) : DPResult × Rng :=
  let len := codes.length
  let E := dpBuild K codes
  let sf := codes.getLastD 0
  match dpFind K sf dpRetryFuel E r with
  | none => (.nohalt, r)
  | some (E, r) =>
    let (E, r) := dpPermute (List.range K) E r
    let (out, x, _) := dpWalk E len (codes.headD 0) (Array.replicate K 0) #[]
    let out := out.push sf
    if x != sf then (.einconceivable, r)
    else if out.size != len then (.einconceivable, r)
    else (.ok out, r)

/-- validation + the `len <= 2` edge case (copy) -/
def shuffleDP (K : Nat) (codes : List Nat) (r : Rng) : DPResult × Rng :=
  if codes.any (fun c => c ≥ K) then (.einval, r)
  else if codes.length ≤ 2 then (.ok codes.toArray, r)
  else shuffleDPcore K codes r

def isAlpha (c : UInt8) : Bool := (65 ≤ c && c ≤ 90) || (97 ≤ c && c ≤ 122)
/-- `toupper(c) - 'A'` for alphabetic `c`; 26 (= invalid vertex) otherwise -/
def letterCode (c : UInt8) : Nat :=
  if 65 ≤ c && c ≤ 90 then c.toNat - 65 else if 97 ≤ c && c ≤ 122 then c.toNat - 97 else 26

/-! ## Markov-0/1 resampling and i.i.d. generation, generic in the number type -/
class CNum (α : Type) where
  zero : α
  one : α
  add : α → α → α
  div : α → α → α
  lt : α → α → Bool
  ofNat : Nat → α

instance : CNum Float where
  zero := 0.0
  one := 1.0
  add := (· + ·)
  div := (· / ·)
  lt := fun a b => a < b
  ofNat := Float.ofNat

open CNum in
/-- the second loop of `esl_rnd_DChoose` / `esl_rnd_FChoose` -/
def dchooseGo {α : Type} [CNum α] (rollv norm : α) : List α → α → Nat → Option Nat
  | [], _, _ => none
  | q :: rest, sum, i =>
    let sum := add sum q
    if lt rollv (div sum norm) then some i else dchooseGo rollv norm rest sum (i+1)

open CNum in
/-- `esl_rnd_DChoose(r, p, N)` given the value of `esl_random(r)`; `none` = "unreached code was reached" (esl_fatal) -/
def dchoose {α : Type} [CNum α] (rollv : α) (p : List α) : Option Nat :=
  dchooseGo rollv (p.foldl add zero) p zero 0

open CNum in
/-- `esl_random(r)` = `x / 2^32` -/
def randomNum {α : Type} [CNum α] (r : Rng) : α × Rng :=
  let (x, r') := r.randomNum
  (div (ofNat x) (ofNat 4294967296), r')

/-- `n` successive `DChoose(r, p, K)`; `none` if one of them falls through -/
def iidLoop {α : Type} [CNum α] (p : List α) : Nat → Rng → Array Nat → Option (Array Nat) × Rng
  | 0, r, acc => (some acc, r)
  | n+1, r, acc =>
    let (u, r') := randomNum (α := α) r
    match dchoose u p with
    | some i => iidLoop p n r' (acc.push i)
    | none => (none, r')

/-- `esl_rsq_xIID` with `p == NULL`: uniform `Roll(K)` -/
def iidUniform (K : Nat) : Nat → Rng → Array Nat → Array Nat × Rng
  | 0, r, acc => (acc, r)
  | n+1, r, acc => let (i, r') := roll r K; iidUniform K n r' (acc.push i)

open CNum in
/-- counts → frequencies of `esl_rsq_{C,X}Markov0`: `p[c] += 1.0` per residue, then `p[x] /= L` if `L > 0` -/
def markov0P {α : Type} [CNum α] (K : Nat) (codes : List Nat) : List α :=
  let cnt := codes.foldl (fun (p : Array α) c => p.modify c (fun v => add v one)) (Array.replicate K zero)
  if codes.length > 0 then (cnt.map (fun v => div v (ofNat codes.length))).toList else cnt.toList

/-- `esl_rsq_{C,X}Markov0` on vertex codes (validated) -/
def markov0 {α : Type} [CNum α] (K : Nat) (codes : List Nat) (r : Rng) : Option (Array Nat) × Rng :=
  iidLoop (markov0P (α := α) K codes) codes.length r #[]

open CNum in
/-- first-order counts, circularised: `p[x][y] += 1` for adjacent `x,y`, and `p[last][first] += 1` -/
def markov1Counts {α : Type} [CNum α] (K : Nat) : List Nat → Array (Array α)
  | [] => Array.replicate K (Array.replicate K zero)
  | c0 :: rest =>
    let st := rest.foldl (fun (st : Array (Array α) × Nat) y =>
      (st.1.modify st.2 (fun row => row.modify y (fun v => add v one)), y)) (Array.replicate K (Array.replicate K zero), c0)
    st.1.modify st.2 (fun row => row.modify c0 (fun v => add v one))

open CNum in
/-- `p0[x] = Σ_y p[x][y]`; `p[x][y] = p0[x] > 0 ? p[x][y]/p0[x] : 0`; `p0[x] /= L` -/
def markov1P {α : Type} [CNum α] (L : Nat) (cnt : Array (Array α)) : Array (Array α) × Array α :=
  let p0 := cnt.map (fun row => row.foldl add zero)
  let p := cnt.mapIdx (fun x row => row.map (fun v => if lt zero (p0.getD x zero) then div v (p0.getD x zero) else zero))
  (p, p0.map (fun v => div v (ofNat L)))

def markov1Loop {α : Type} [CNum α] (p : Array (Array α)) : Nat → Nat → Rng → Array Nat → Option (Array Nat) × Rng
  | 0, _, r, acc => (some acc, r)
  | n+1, x, r, acc =>
    let (u, r') := randomNum (α := α) r
    match dchoose u (p[x]!).toList with
    | some y => markov1Loop p n y r' (acc.push y)
    | none => (none, r')

/-- `esl_rsq_{C,X}Markov1` on vertex codes (validated, `length > 2`) -/
def markov1 {α : Type} [CNum α] (K : Nat) (codes : List Nat) (r : Rng) : Option (Array Nat) × Rng :=
  let (p, p0) := markov1P codes.length (markov1Counts (α := α) K codes)
  let (u, r') := randomNum (α := α) r
  match dchoose u p0.toList with
  | some x => markov1Loop p (codes.length - 1) x r' #[x]
  | none => (none, r')

/-! ## the C entry points on text / digital sequences -/
inductive SeqResult
  | ok (out : Bytes)
  | einval
  | einconceivable
  | nohalt
  | fatal          -- `esl_fatal("unreached code was reached")` in DChoose
deriving Repr, DecidableEq

def ofCodesText (out : Array Nat) : Bytes := out.map (fun x => UInt8.ofNat (65 + x))
def ofCodesDigital (out : Array Nat) : Bytes := #[255] ++ out.map (fun x => UInt8.ofNat x) ++ #[255]
def textCodes (s : Bytes) : List Nat := s.toList.map letterCode
def digitalCodes (dsq : Bytes) (L : Nat) : List Nat := (dsq.extract 1 (L+1)).toList.map (·.toNat)

def ofDP (f : Array Nat → Bytes) : DPResult × Rng → SeqResult × Rng
  | (.ok out, r) => (.ok (f out), r)
  | (.einval, r) => (.einval, r)
  | (.einconceivable, r) => (.einconceivable, r)
  | (.nohalt, r) => (.nohalt, r)

def ofOpt (f : Array Nat → Bytes) : Option (Array Nat) × Rng → SeqResult × Rng
  | (some out, r) => (.ok (f out), r)
  | (none, r) => (.fatal, r)

/-- `esl_rsq_CShuffleDP`: `isalpha` validation, `len <= 2` copies `s` unchanged, otherwise upper-case output -/
def cShuffleDP (s : Bytes) (r : Rng) : SeqResult × Rng :=
  if s.any (fun c => !isAlpha c) then (.einval, r)
  else if s.size ≤ 2 then (.ok s, r)
  else ofDP ofCodesText (shuffleDPcore 26 (textCodes s) r)

/-- `esl_rsq_XShuffleDP(r, dsq, L, K, shuffled)`: `dsq[i] >= K` is `eslEINVAL`; `L <= 2` is `memcpy` of `L+2` bytes -/
def xShuffleDP (dsq : Bytes) (L K : Nat) (r : Rng) : SeqResult × Rng :=
  if (digitalCodes dsq L).any (fun c => c ≥ K) then (.einval, r)
  else if L ≤ 2 then (.ok dsq, r)
  else ofDP ofCodesDigital (shuffleDPcore K (digitalCodes dsq L) r)

def cMarkov0 (α : Type) [CNum α] (s : Bytes) (r : Rng) : SeqResult × Rng :=
  if s.any (fun c => !isAlpha c) then (.einval, r)
  else ofOpt ofCodesText (markov0 (α := α) 26 (textCodes s) r)

def xMarkov0 (α : Type) [CNum α] (dsq : Bytes) (L K : Nat) (r : Rng) : SeqResult × Rng :=
  if (digitalCodes dsq L).any (fun c => c ≥ K) then (.einval, r)
  else ofOpt ofCodesDigital (markov0 (α := α) K (digitalCodes dsq L) r)

def cMarkov1 (α : Type) [CNum α] (s : Bytes) (r : Rng) : SeqResult × Rng :=
  if s.any (fun c => !isAlpha c) then (.einval, r)
  else if s.size ≤ 2 then (.ok s, r)
  else ofOpt ofCodesText (markov1 (α := α) 26 (textCodes s) r)

def xMarkov1 (α : Type) [CNum α] (dsq : Bytes) (L K : Nat) (r : Rng) : SeqResult × Rng :=
  if (digitalCodes dsq L).any (fun c => c ≥ K) then (.einval, r)
  else if L ≤ 2 then (.ok dsq, r)
  else ofOpt ofCodesDigital (markov1 (α := α) K (digitalCodes dsq L) r)

/-! ## 64-bit vector shuffles (`esl_vec_{D,F,I,L}Shuffle64`, generator `ESL_RAND64`) -/
/-- `esl_rand64_Roll(rng, n)`: first accepted draw (fuel as for `roll`) -/
def roll64 (r : Rng64) (n : Nat) : Nat × Rng64 :=
  match r.roll n rollFuel with
  | some p => p
  | none => (0, r)

/-- the Fisher–Yates skeleton over the 64-bit generator -/
def fyLoop64 {σ : Type} (sw : σ → Nat → Nat → σ) (base : Nat) : Nat → σ → Rng64 → σ × Rng64
  | n+2, s, r =>
    let (i, r') := roll64 r (n+2)
    fyLoop64 sw base (n+1) (sw s (base + i) (base + (n+2) - 1)) r'
  | _, s, r => (s, r)

/-- `esl_vec_{D,F,I,L}Shuffle64(rng, v, n)` -/
def vecShuffle64 {α : Type} (v : Array α) (r : Rng64) : Array α × Rng64 :=
  fyLoop64 (fun a i j => a.swapIfInBounds i j) 0 v.size v r

/-! ## `esl_rsq_Sample`: random character strings from a `<ctype.h>` class (C locale, codes 0..127) -/
def isDigitB (x : Nat) : Bool := 48 ≤ x && x ≤ 57
def isUpperB (x : Nat) : Bool := 65 ≤ x && x ≤ 90
def isLowerB (x : Nat) : Bool := 97 ≤ x && x ≤ 122
def isSpaceB (x : Nat) : Bool := (9 ≤ x && x ≤ 13) || x == 32
def isPrintB (x : Nat) : Bool := 32 ≤ x && x ≤ 126

/-- membership of code `x` in the class selected by `eslRSQ_SAMPLE_*` flag `flag` (1..12); `none` = invalid flag -/
def sampleClass (flag : Nat) : Option (Nat → Bool) :=
  match flag with
  | 1 => some fun x => isDigitB x || isUpperB x || isLowerB x                              -- ALNUM
  | 2 => some fun x => isUpperB x || isLowerB x                                            -- ALPHA
  | 3 => some isLowerB
  | 4 => some isUpperB
  | 5 => some isDigitB
  | 6 => some fun x => isDigitB x || (65 ≤ x && x ≤ 70) || (97 ≤ x && x ≤ 102)            -- XDIGIT
  | 7 => some fun x => x ≤ 31 || x == 127                                                  -- CNTRL
  | 8 => some fun x => 33 ≤ x && x ≤ 126                                                   -- GRAPH
  | 9 => some isSpaceB
  | 10 => some fun x => x == 9 || x == 32                                                  -- BLANK
  | 11 => some isPrintB
  | 12 => some fun x => (33 ≤ x && x ≤ 126) && !(isDigitB x || isUpperB x || isLowerB x)   -- PUNCT
  | _ => none

/-- the table `c[0..n-1]` built by `for (x = 0; x < 128; x++) if (isxxx(x)) c[n++] = x;` -/
def sampleTable (cls : Nat → Bool) : Array Nat := ((List.range 128).filter cls).toArray

/-- `for (i = 0; i < L; i++) s[i] = c[esl_rnd_Roll(rng, n)];` -/
def sampleLoop (c : Array Nat) : Nat → Rng → Array Nat → Array Nat × Rng
  | 0, r, acc => (acc, r)
  | L+1, r, acc => let (i, r') := roll r c.size; sampleLoop c L r' (acc.push (c.getD i 0))

/-- `esl_rsq_Sample(rng, allowed_chars, L, &s)`; `none` = `eslEINVAL` (bad flag) -/
def rsqSample (flag L : Nat) (r : Rng) : Option (Array Nat) × Rng :=
  match sampleClass flag with
  | none => (none, r)
  | some cls => let (o, r') := sampleLoop (sampleTable cls) L r #[]; (some o, r')

/-! ## `esl_rsq_SampleDirty` with `p == NULL`: the probability vector is sampled (binary64 only: uses `log`) -/
/-- `esl_rnd_UniformPositive` as a double -/
def uniformPositiveF (r : Rng) : Float × Rng :=
  match r.uniformPositive rollFuel with
  | some (x, r') => (Float.ofNat x / 4294967296.0, r')
  | none => (0.0, r)

/-- `esl_rnd_Dirichlet(rng, NULL, K, p)`: `p[i] = esl_rnd_Gamma(rng, 1.0) = -log(1.0 * UniformPositive)`, then `p[i] /= norm` -/
def dirichletUniform (K : Nat) (r : Rng) : Array Float × Rng :=
  let rec go : Nat → Rng → Array Float → Float → Array Float × Float × Rng
    | 0, r, p, norm => (p, norm, r)
    | n+1, r, p, norm =>
      let (u, r') := uniformPositiveF r
      let x := -(Float.log (1.0 * u))
      go n r' (p.push x) (norm + x)
  let (p, norm, r') := go K r #[] 0.0
  (p.map (· / norm), r')

/-- the vector built by `esl_rsq_SampleDirty` when none is provided: canonical residues scaled by `pc`, degenerate codes
    `K+1..Kp-3` by `1-pc`, and exactly zero for gap `K`, nonresidue `Kp-2`, missing `Kp-1` -/
def dirtyP (K Kp : Nat) (r : Rng) : Array Float × Rng :=
  let (pcn, r) := r.randomNum
  let pc := Float.ofNat pcn / 4294967296.0
  let (p1, r) := dirichletUniform K r
  let (p2, r) := dirichletUniform (Kp - K - 3) r
  (p1.map (· * pc) ++ #[0.0] ++ p2.map (· * (1.0 - pc)) ++ #[0.0, 0.0], r)

end EaselModel.Shuffle
