import EaselModel.Shuffle.LemmasDP
/-! The Altschul–Erickson / BEST argument for the DP shuffle: once every vertex with edges is connected to `s_f` in the
    last-edge graph, the walk of step (6) ends on `s_f` and consumes every edge — the code's two reality checks cannot fire. -/
namespace EaselModel.Shuffle
open EaselModel.Random
open scoped List

/-! ## counting ends of ordered pairs -/
def cnt1 (v : Nat) (l : List (Nat × Nat)) : Nat := l.countP (fun pr => pr.1 == v)
def cnt2 (v : Nat) (l : List (Nat × Nat)) : Nat := l.countP (fun pr => pr.2 == v)

def ind (b : Prop) [Decidable b] : Nat := if b then 1 else 0

/-- in a vertex sequence, departures + [it is the last] = arrivals + [it is the first] -/
theorem adjPairs_balance (v : Nat) : ∀ (a : Nat) (t : List Nat),
    cnt1 v (adjPairs (a :: t)) + ind ((a :: t).getLast? = some v) = cnt2 v (adjPairs (a :: t)) + ind (a = v) := by
  intro a t
  induction t generalizing a with
  | nil => simp [adjPairs, cnt1, cnt2]
  | cons b t ih =>
    have := ih b
    simp only [adjPairs, cnt1, cnt2, List.countP_cons, List.getLast?_cons_cons] at this ⊢
    have e1 : (if ((a, b).1 == v) = true then 1 else 0) = ind (a = v) := by simp [ind]
    have e2 : (if ((a, b).2 == v) = true then 1 else 0) = ind (b = v) := by simp [ind]
    rw [e1, e2]
    omega

/-! ## counts in gathered edge lists -/
theorem cnt1_gather (g : Nat → List Nat) (v : Nat) : ∀ K, cnt1 v (gather (fun u => (g u).map (fun y => (u, y))) K) = if v < K then (g v).length else 0 := by
  intro K
  induction K with
  | zero => simp [gather, cnt1]
  | succ K ih =>
    simp only [gather, cnt1, List.countP_append] at ih ⊢
    rw [ih, List.countP_map]
    by_cases e : v = K
    · subst e
      simp only [Nat.lt_irrefl, ↓reduceIte, Nat.lt_add_one, Nat.zero_add]
      rw [List.countP_eq_length]
      intro _ _; simp
    · have : List.countP ((fun pr : Nat × Nat => pr.1 == v) ∘ fun y => (K, y)) (g K) = 0 := by
        rw [List.countP_eq_zero]; intro _ _; simp; exact fun h => e h.symm
      rw [this]
      by_cases h : v < K
      · simp [h, show v < K + 1 by omega]
      · simp [h, show ¬ v < K + 1 by omega]

theorem count_map_pair (v w : Nat) (l : List Nat) : (l.map (fun y => (v, y))).count (v, w) = l.count w := by
  induction l with
  | nil => rfl
  | cons a t ih => simp only [List.map_cons, List.count_cons, ih]; simp

theorem count_gather (g : Nat → List Nat) (v w : Nat) : ∀ K, (gather (fun u => (g u).map (fun y => (u, y))) K).count (v, w) = if v < K then (g v).count w else 0 := by
  intro K
  induction K with
  | zero => simp [gather]
  | succ K ih =>
    simp only [gather, List.count_append]
    rw [ih]
    by_cases e : v = K
    · subst e
      simp only [Nat.lt_irrefl, ↓reduceIte, Nat.lt_add_one, Nat.zero_add]
      rw [count_map_pair]
    · have : List.count (v, w) (List.map (fun y => (K, y)) (g K)) = 0 := by
        rw [List.count_eq_zero]; simp; intro _ h; exact e h.symm
      rw [this]
      by_cases h : v < K
      · simp [h, show v < K + 1 by omega]
      · simp [h, show ¬ v < K + 1 by omega]

/-- a sub-list with the same number of `p`-elements contains every `p`-element with full multiplicity -/
theorem sublist_count_eq {β : Type} [BEq β] [LawfulBEq β] (p : β → Bool) (l1 l2 : List β) (hs : l1.Sublist l2)
    (hc : l1.countP p = l2.countP p) (e : β) (he : p e = true) : l1.count e = l2.count e := by
  have hf := hs.filter p
  have hl : (l1.filter p).length = (l2.filter p).length := by rw [← List.countP_eq_length_filter, ← List.countP_eq_length_filter, hc]
  have := hf.eq_of_length hl
  have c1 : (l1.filter p).count e = l1.count e := by rw [List.count_filter he]
  have c2 : (l2.filter p).count e = l2.count e := by rw [List.count_filter he]
  rw [← c1, ← c2, this]

/-! ## the last-edge graph -/
def lastOf (E : Edges) (v : Nat) : Option Nat := (elist E v).getLast?

/-- `v` is connected to `sf` by following last edges -/
inductive Conn (E : Edges) (sf : Nat) : Nat → Prop
  | base : Conn E sf sf
  | step (v w : Nat) : lastOf E v = some w → Conn E sf w → Conn E sf v

theorem cnt1_used (E : Edges) (iE : Array Nat) (K v : Nat) (hv : v < K) (hle : iE[v]! ≤ (elist E v).length) :
    cnt1 v (usedEdges E iE K) = iE[v]! := by
  unfold usedEdges
  rw [cnt1_gather (fun u => (elist E u).take iE[u]!) v K, if_pos hv, List.length_take]
  omega

theorem cnt1_all (E : Edges) (K v : Nat) (hv : v < K) : cnt1 v (edgePairs E K) = (elist E v).length := by
  unfold edgePairs
  rw [cnt1_gather (fun u => elist E u) v K, if_pos hv]

theorem adjPairs_length' (l : List Nat) (x : Nat) : (adjPairs (l ++ [x])).length = l.length := by
  rw [adjPairs_length]; simp

/-- while the current vertex still has an unused edge, fewer than all edges have been used -/
theorem used_lt (E : Edges) (K c0 x : Nat) (iE out : Array Nat) (h : WalkInv E K c0 x iE out) (hx : iE[x]! < (elist E x).length) :
    out.size + 1 ≤ (edgePairs E K).length := by
  have hsub := usedEdges_sublist E iE K
  have hlen : (usedEdges E iE K).length = out.size := by rw [← h.pairs.length_eq, adjPairs_length']; simp
  have hle := hsub.length_le
  by_cases e : (usedEdges E iE K).length = (edgePairs E K).length
  · have heq := hsub.eq_of_length e
    have c1 := cnt1_used E iE K x h.xlt (h.le x h.xlt)
    have c2 := cnt1_all E K x h.xlt
    rw [heq, c2] at c1
    omega
  · omega

/-- with enough fuel the walk stops only because the vertex it arrived at has no unused edge -/
theorem dpWalk_exhausted (E : Edges) (K c0 : Nat) (hlt : ∀ v y, y ∈ elist E v → y < K) :
    ∀ (fuel x : Nat) (iE out : Array Nat), WalkInv E K c0 x iE out → iE[x]! < (elist E x).length →
      (edgePairs E K).length + 1 ≤ fuel + out.size →
      let res := dpWalk E fuel x iE out
      WalkInv E K c0 res.2.1 res.2.2 res.1 ∧ res.2.2[res.2.1]! = (elist E res.2.1).length := by
  intro fuel
  induction fuel with
  | zero =>
    intro x iE out h hx hf
    have := used_lt E K c0 x iE out h hx
    omega
  | succ fuel ih =>
    intro x iE out h hx hf
    have hstep := walk_step E K c0 x iE out hlt h hx
    simp only [dpWalk]
    split
    · rename_i heq
      refine ⟨hstep, ?_⟩
      simp only [elist, Array.length_toList]
      simpa using heq
    · rename_i hne
      have hyK := hstep.xlt
      have hle := hstep.le _ hyK
      have hne' : (iE.modify x (· + 1))[(E[x]!)[iE[x]!]!]! ≠ (elist E ((E[x]!)[iE[x]!]!)).length := by
        intro e; apply hne; simp only [elist, Array.length_toList] at e; simp [e]
      exact ih _ _ _ hstep (by omega) (by simp; omega)

/-- **BEST step**: if the walk has stopped on an exhausted vertex, the degrees are those of a vertex sequence from `c0` to
    `sf`, and every vertex with edges is connected to `sf` by last edges, then the walk stopped on `sf` having used every edge -/
theorem walk_complete (E : Edges) (K c0 sf x : Nat) (iE out : Array Nat)
    (hlt : ∀ v y, y ∈ elist E v → y < K) (hsf : sf < K)
    (hbal : ∀ v, cnt1 v (edgePairs E K) + ind (sf = v) = cnt2 v (edgePairs E K) + ind (c0 = v))
    (hconn : ∀ v, v < K → 0 < (elist E v).length → Conn E sf v)
    (h : WalkInv E K c0 x iE out) (hex : iE[x]! = (elist E x).length) :
    x = sf ∧ usedEdges E iE K = edgePairs E K := by
  have hsub := usedEdges_sublist E iE K
  -- balance along the walk
  have hwb : ∀ v, cnt1 v (usedEdges E iE K) + ind (x = v) = cnt2 v (usedEdges E iE K) + ind (c0 = v) := by
    intro v
    have hp1 : cnt1 v (adjPairs (out.toList ++ [x])) = cnt1 v (usedEdges E iE K) := h.pairs.countP_eq _
    have hp2 : cnt2 v (adjPairs (out.toList ++ [x])) = cnt2 v (usedEdges E iE K) := h.pairs.countP_eq _
    rw [← hp1, ← hp2]
    have hhead := h.head
    have hlast : (out.toList ++ [x]).getLast? = some x := by simp
    cases hw : out.toList ++ [x] with
    | nil => simp at hw
    | cons a t =>
      rw [hw] at hhead hlast
      simp only [List.head?_cons, Option.some.injEq] at hhead
      subst hhead
      have := adjPairs_balance v a t
      rw [hlast] at this
      simpa [ind] using this
  have hle2 : ∀ v, cnt2 v (usedEdges E iE K) ≤ cnt2 v (edgePairs E K) := fun v => hsub.countP_le
  -- (W3) the walk stops on sf
  have hxsf : x = sf := by
    apply Classical.byContradiction
    intro hne
    have b1 := hwb x
    have b2 := hbal x
    rw [cnt1_used E iE K x h.xlt (h.le x h.xlt)] at b1
    rw [cnt1_all E K x h.xlt] at b2
    have := hle2 x
    have e1 : ind (x = x) = 1 := by simp [ind]
    have e2 : ind (sf = x) = 0 := by simp [ind]; exact fun e => hne e.symm
    omega
  -- (W4) every vertex connected to sf is exhausted
  have hfull : ∀ v, Conn E sf v → v < K → iE[v]! = (elist E v).length := by
    intro v hc
    induction hc with
    | base => intro _; rw [← hxsf]; exact hex
    | step v w hl _ ih =>
      intro hv
      have hwmem : w ∈ elist E v := List.mem_of_getLast? hl
      have hw : w < K := hlt v w hwmem
      have ihw := ih hw
      have b1 := hwb w
      have b2 := hbal w
      rw [cnt1_used E iE K w hw (h.le w hw), ihw] at b1
      rw [cnt1_all E K w hw] at b2
      have hcnt : cnt2 w (usedEdges E iE K) = cnt2 w (edgePairs E K) := by rw [hxsf] at b1; omega
      have hc := sublist_count_eq (fun pr : Nat × Nat => pr.2 == w) _ _ hsub hcnt (v, w) (by simp)
      unfold usedEdges edgePairs at hc
      rw [count_gather (fun u => (elist E u).take iE[u]!) v w K, count_gather (fun u => elist E u) v w K, if_pos hv, if_pos hv] at hc
      have hle := h.le v hv
      apply Classical.byContradiction
      intro hne
      have hlt' : iE[v]! < (elist E v).length := by omega
      have hsplit := List.take_append_drop iE[v]! (elist E v)
      have hdl : ((elist E v).drop iE[v]!).getLast? = some w := by
        rw [List.getLast?_drop, if_neg (by omega)]; exact hl
      have hmem : w ∈ (elist E v).drop iE[v]! := List.mem_of_getLast? hdl
      have hpos : 0 < ((elist E v).drop iE[v]!).count w := List.count_pos_iff.mpr hmem
      have : (elist E v).count w = ((elist E v).take iE[v]!).count w + ((elist E v).drop iE[v]!).count w := by
        rw [← List.count_append, hsplit]
      omega
  refine ⟨hxsf, ?_⟩
  unfold usedEdges edgePairs
  apply gather_congr
  intro v hv
  by_cases hz : 0 < (elist E v).length
  · rw [hfull v (hconn v hv hz) hv, List.take_length]
  · have : elist E v = [] := List.eq_nil_of_length_eq_zero (by omega)
    rw [this]; simp

/-! ## tying the argument to the code -/
theorem bang_set_gen {α : Type} [Inhabited α] (a : Array α) (i t : Nat) (v : α) : (a.setIfInBounds i v)[t]! = a[t]! ∨ ((a.setIfInBounds i v)[t]! = v ∧ i = t) := by
  rw [Array.getElem!_eq_getD, Array.getElem!_eq_getD, Array.getD_eq_getD_getElem?, Array.getD_eq_getD_getElem?, Array.getElem?_setIfInBounds]
  by_cases e : i = t
  · subst e
    by_cases h : i < a.size
    · right; simp [h]
    · left; simp [h]
  · left; simp [e]

theorem lastOf_eq (E : Edges) (x : Nat) (hn : (E[x]!).size ≠ 0) : lastOf E x = some ((E[x]!)[(E[x]!).size - 1]!) := by
  unfold lastOf elist
  rw [List.getLast?_eq_getElem?, Array.length_toList, Array.getElem?_toList, getElem!_pos (E[x]!) _ (by omega), Array.getElem?_eq_getElem]

theorem dpSweep_inv (E : Edges) (sf : Nat) : ∀ (xs : List Nat) (Z : Array Bool) (keep : Bool),
    (∀ v, Z[v]! = true → Conn E sf v) → ∀ v, (dpSweep E xs Z keep).1[v]! = true → Conn E sf v := by
  intro xs
  induction xs with
  | nil => intro Z keep h; simpa [dpSweep] using h
  | cons x xs ih =>
    intro Z keep h
    simp only [dpSweep]
    split
    · exact ih Z keep h
    · rename_i hn
      split
      · rename_i hc
        apply ih
        intro v hv
        rcases bang_set_gen Z x v true with e | ⟨_, e⟩
        · exact h v (e ▸ hv)
        · subst e
          simp only [Bool.and_eq_true, Bool.not_eq_true'] at hc
          exact Conn.step x _ (lastOf_eq E x (by simpa using hn)) (h _ hc.2)
      · exact ih Z keep h

theorem dpConnect_inv (E : Edges) (K sf : Nat) : ∀ (fuel : Nat) (Z : Array Bool),
    (∀ v, Z[v]! = true → Conn E sf v) → ∀ v, (dpConnect E K fuel Z)[v]! = true → Conn E sf v := by
  intro fuel
  induction fuel with
  | zero => intro Z h; simpa [dpConnect] using h
  | succ fuel ih =>
    intro Z h
    simp only [dpConnect]
    have hs := dpSweep_inv E sf (List.range K) Z false h
    split
    · exact ih _ hs
    · exact hs

theorem dpFind_conn (K sf : Nat) : ∀ (fuel : Nat) (E : Edges) (r : Rng) (E' : Edges) (r' : Rng),
    dpFind K sf fuel E r = some (E', r') → ∀ v, v < K → 0 < (elist E' v).length → Conn E' sf v := by
  intro fuel
  induction fuel with
  | zero => intro E r E' r' h; simp [dpFind] at h
  | succ fuel ih =>
    intro E r E' r' h
    simp only [dpFind] at h
    split at h
    · rename_i heul
      simp only [Option.some.injEq, Prod.mk.injEq] at h
      rw [← h.1]
      intro v hv hpos
      have hz := dpConnect_inv (dpSelectLast sf (List.range K) E r).1 K sf (K+1)
        ((Array.replicate K false).setIfInBounds sf true) (by
          intro u hu
          rcases bang_set_gen (Array.replicate K false) sf u true with e | ⟨_, e⟩
          · rw [e] at hu
            by_cases hk : u < K
            · rw [getElem!_pos _ u (by simpa using hk)] at hu; simp at hu
            · rw [Array.getElem!_eq_getD, Array.getD_eq_getD_getElem?, Array.getElem?_eq_none (by simpa using hk)] at hu
              simp at hu
          · subst e; exact Conn.base)
      simp only [dpIsEulerian, List.all_eq_true, List.mem_range, Bool.or_eq_true, beq_iff_eq] at heul
      rcases heul v hv with (h0 | h1) | h2
      · simp only [elist, Array.length_toList] at hpos; omega
      · subst h1; exact Conn.base
      · exact hz v h2
    · exact ih _ _ E' r' h

/-- step (5) shuffles only the first `nE[x]-1` entries of every list: lengths and last edges are unchanged -/
theorem dpPermute_last : ∀ (xs : List Nat) (E : Edges) (r : Rng) (v : Nat),
    lastOf (dpPermute xs E r).1 v = lastOf E v ∧ (elist (dpPermute xs E r).1 v).length = (elist E v).length := by
  intro xs
  induction xs with
  | nil => intro E r v; exact ⟨rfl, rfl⟩
  | cons x xs ih =>
    intro E r v
    simp only [dpPermute]
    obtain ⟨h1, h2⟩ := ih (E.setIfInBounds x (fyLoop (fun (a : Array Nat) i j => a.swapIfInBounds i j) 0 ((E[x]!).size - 1) (E[x]!) r).1)
      (fyLoop (fun (a : Array Nat) i j => a.swapIfInBounds i j) 0 ((E[x]!).size - 1) (E[x]!) r).2 v
    rw [h1, h2]
    by_cases e : x = v
    · subst e
      by_cases hx : x < E.size
      · have hrp := fyLoop_inv (fun (a : Array Nat) i j => a.swapIfInBounds i j) 0 ((E[x]!).size - 1) (RegionPerm 0 ((E[x]!).size - 1) (E[x]!))
          (fun s i j hs hi1 hi2 hj1 hj2 => hs.swap (by omega) i j hi1 (by omega) hj1 (by omega)) ((E[x]!).size - 1) (Nat.le_refl _) (E[x]!) r
          (RegionPerm.refl _ _ _)
        generalize (fyLoop (fun (a : Array Nat) i j => a.swapIfInBounds i j) 0 ((E[x]!).size - 1) (E[x]!) r).1 = l at hrp ⊢
        unfold lastOf
        rw [elist_set_eq E x l hx]
        have hsz := hrp.size
        refine ⟨?_, by simp [elist, hsz]⟩
        simp only [elist, List.getLast?_eq_getElem?, Array.length_toList, Array.getElem?_toList, hsz]
        by_cases hz : (E[x]!).size = 0
        · rw [Array.getElem?_eq_none (by omega), Array.getElem?_eq_none (by omega)]
        · rw [Array.getElem?_eq_getElem (by omega), Array.getElem?_eq_getElem (by omega)]
          congr 1
          exact hrp.outside ((E[x]!).size - 1) (by omega) (Or.inr (by omega))
      · rw [Array.setIfInBounds_eq_of_size_le (by omega)]; exact ⟨rfl, rfl⟩
    · unfold lastOf; rw [elist_set_ne E x v _ e]; exact ⟨rfl, rfl⟩

theorem Conn.transfer {E E' : Edges} {sf : Nat} (hl : ∀ v, lastOf E' v = lastOf E v) {v : Nat} (h : Conn E sf v) : Conn E' sf v := by
  induction h with
  | base => exact Conn.base
  | step v w hv _ ih => exact Conn.step v w (by rw [hl]; exact hv) ih

/-- facts about any edge ordering whose lists are permutations of the input's edge lists -/
theorem dp_facts (K : Nat) (codes : List Nat) (c0 c1 : Nat) (rest : List Nat) (hc : codes = c0 :: c1 :: rest)
    (hK : ∀ c ∈ codes, c < K) (E2 : Edges) (p20 : PermEdges E2 (dpBuild K codes)) :
    (edgePairs E2 K ~ adjPairs codes) ∧ (∀ v y, y ∈ elist E2 v → y < K) ∧ 0 < (elist E2 c0).length := by
  obtain ⟨hbs, hbp⟩ := dpBuild_spec K codes hK
  have hall := (p20.edgePairs K).trans hbp
  refine ⟨hall, ?_, ?_⟩
  · intro v y hy
    by_cases hv : v < K
    · have hcnt : 0 < (edgePairs E2 K).count (v, y) := by
        unfold edgePairs
        rw [count_gather (fun u => elist E2 u) v y K, if_pos hv]
        exact List.count_pos_iff.mpr hy
      have hmem : (v, y) ∈ adjPairs codes := hall.mem_iff.mp (List.count_pos_iff.mp hcnt)
      have : ∀ l : List Nat, (v, y) ∈ adjPairs l → y ∈ l := by
        intro l
        induction l with
        | nil => simp [adjPairs]
        | cons a t ih =>
          cases t with
          | nil => simp [adjPairs]
          | cons b t' =>
            simp only [adjPairs, List.mem_cons, Prod.mk.injEq]
            rintro (⟨_, h2⟩ | h2)
            · simp [h2]
            · have := ih h2; simp only [List.mem_cons] at this; exact Or.inr this
      exact hK y (this codes hmem)
    · have : elist E2 v = [] := by
        simp only [elist]
        rw [Array.getElem!_eq_getD, Array.getD_eq_getD_getElem?, Array.getElem?_eq_none (by rw [p20.size, hbs]; omega)]; rfl
      rw [this] at hy; simp at hy
  · have hc0K : c0 < K := hK c0 (by rw [hc]; simp)
    have hmem : (c0, c1) ∈ edgePairs E2 K := hall.mem_iff.mpr (by rw [hc]; simp [adjPairs])
    have hcnt := List.count_pos_iff.mpr hmem
    unfold edgePairs at hcnt
    rw [count_gather (fun u => elist E2 u) c0 c1 K, if_pos hc0K] at hcnt
    exact List.length_pos_of_mem (List.count_pos_iff.mp hcnt)

/-- **the reality checks never fire**: for every input of length > 2 over vertices `< K` and every generator state,
    `shuffleDPcore` returns `ok` unless the retry loop ran out of fuel (`nohalt`: the C code would keep drawing) -/
theorem shuffleDPcore_total (K : Nat) (codes : List Nat) (hK : ∀ c ∈ codes, c < K) (hlen : 2 < codes.length) (r : Rng) :
    (∃ out r', shuffleDPcore K codes r = (.ok out, r')) ∨ shuffleDPcore K codes r = (.nohalt, r) := by
  obtain ⟨c0, c1, rest, hc⟩ : ∃ c0 c1 rest, codes = c0 :: c1 :: rest := by
    match codes, hlen with
    | c0 :: c1 :: rest, _ => exact ⟨c0, c1, rest, rfl⟩
  unfold shuffleDPcore
  simp only
  split
  · exact Or.inr rfl
  · rename_i E1 r1 hfind
    left
    have p1 := dpFind_perm K _ _ _ _ E1 r1 hfind
    have hconn1 := dpFind_conn K _ _ _ _ E1 r1 hfind
    have p2 := dpPermute_perm (List.range K) E1 r1
    have hlast := dpPermute_last (List.range K) E1 r1
    generalize (dpPermute (List.range K) E1 r1).1 = E2 at p2 hlast ⊢
    have p20 : PermEdges E2 (dpBuild K codes) := p2.trans p1
    obtain ⟨hall, hlt, hfirst⟩ := dp_facts K codes c0 c1 rest hc hK E2 p20
    have hc0 : codes.headD 0 = c0 := by rw [hc]; rfl
    have hc0K : c0 < K := hK c0 (by rw [hc]; simp)
    have hsfK : codes.getLastD 0 < K := hK _ (by rw [hc]; simp [List.getLastD])
    have hlastc : codes.getLast? = some (codes.getLastD 0) := by rw [hc]; simp [List.getLastD, List.getLast?_eq_some_getLast]
    -- connectivity in the last-edge graph of E2
    have hconn : ∀ v, v < K → 0 < (elist E2 v).length → Conn E2 (codes.getLastD 0) v := by
      intro v hv hpos
      exact (hconn1 v hv (by rw [← (hlast v).2]; exact hpos)).transfer (fun u => (hlast u).1)
    -- degree balance
    have hbal : ∀ v, cnt1 v (edgePairs E2 K) + ind (codes.getLastD 0 = v) = cnt2 v (edgePairs E2 K) + ind (c0 = v) := by
      intro v
      have e1 : cnt1 v (edgePairs E2 K) = cnt1 v (adjPairs codes) := hall.countP_eq _
      have e2 : cnt2 v (edgePairs E2 K) = cnt2 v (adjPairs codes) := hall.countP_eq _
      rw [e1, e2]
      have := adjPairs_balance v c0 (c1 :: rest)
      rw [← hc, hlastc] at this
      simpa [ind] using this
    have hM : (edgePairs E2 K).length = codes.length - 1 := by rw [hall.length_eq, adjPairs_length]
    have w0 : WalkInv E2 K c0 c0 (Array.replicate K 0) #[] := by
      refine ⟨by simp, ?_, ?_, by simp, hc0K⟩
      · intro v hv; rw [getElem!_pos _ v (by simpa using hv)]; simp
      · have : usedEdges E2 (Array.replicate K 0) K = [] := by
          have : ∀ n, n ≤ K → gather (fun v => ((elist E2 v).take (Array.replicate K 0)[v]!).map (fun y => (v, y))) n = [] := by
            intro n
            induction n with
            | zero => intro _; rfl
            | succ n ih =>
              intro hn
              simp only [gather, ih (by omega), List.nil_append]
              rw [getElem!_pos _ n (by simp; omega)]; simp
          exact this K (Nat.le_refl _)
        rw [this]; simp [adjPairs]
    obtain ⟨hw, hex⟩ := dpWalk_exhausted E2 K c0 hlt codes.length c0 (Array.replicate K 0) #[] w0
      (by rw [getElem!_pos _ c0 (by simpa using hc0K)]; simpa using hfirst) (by simp; omega)
    rw [hc0]
    generalize dpWalk E2 codes.length c0 (Array.replicate K 0) #[] = res at hw hex ⊢
    obtain ⟨wout, wx, wiE⟩ := res
    simp only at hw hex ⊢
    obtain ⟨hxsf, hused⟩ := walk_complete E2 K c0 (codes.getLastD 0) wx wiE wout hlt hsfK hbal hconn hw hex
    have hsz : wout.size = codes.length - 1 := by
      have := hw.pairs.length_eq
      rw [adjPairs_length', hused, hM] at this
      simpa using this
    rw [if_neg (by simp [hxsf]), if_neg (by simp [hsz]; omega)]
    exact ⟨_, _, rfl⟩

end EaselModel.Shuffle
