import EaselModel.Shuffle.LemmasUniform
import EaselModel.Shuffle.LemmasSample
import EaselModel.Shuffle.LemmasMsa
/-! Roll-vector forms of the remaining uniform samplers: the 64-bit vector shuffles, `esl_rsq_Sample`,
    `esl_rsq_xIID(p = NULL)`. -/
namespace EaselModel.Shuffle
open EaselModel.Random

/-! ## 64-bit Fisher–Yates -/
/-- the roll values `fyLoop64` obtains from the 64-bit generator -/
def fyDraw64 : Nat → Rng64 → List Nat
  | n+2, r => (roll64 r (n+2)).1 :: fyDraw64 (n+1) (roll64 r (n+2)).2
  | _, _ => []

theorem fyLoop64_eq_fyRolls {σ : Type} (sw : σ → Nat → Nat → σ) (base : Nat) :
    ∀ n s r, (fyLoop64 sw base n s r).1 = fyRolls sw base n s (fyDraw64 n r) := by
  intro n
  induction n using Nat.strongRecOn with
  | _ n ih =>
    intro s r
    match n with
    | 0 => rfl
    | 1 => rfl
    | n+2 =>
      simp only [fyLoop64, fyDraw64, fyRolls]
      exact ih (n+1) (by omega) _ _

theorem fyDraw64_valid : ∀ n r, ValidRolls n (fyDraw64 n r) := by
  intro n
  induction n using Nat.strongRecOn with
  | _ n ih =>
    intro r
    match n with
    | 0 => rfl
    | 1 => rfl
    | n+2 =>
      simp only [fyDraw64, ValidRolls]
      exact ⟨roll64_lt r (n+2) (by omega), ih (n+1) (by omega) _⟩

/-! ## `esl_rsq_Sample`: every character is `c[Roll(n)]` over the table of the class, which lists each member once -/
/-- the `L` roll values drawn by the sampling loop -/
def sampleDraw (n : Nat) : Nat → Rng → List Nat
  | 0, _ => []
  | L+1, r => (roll r n).1 :: sampleDraw n L (roll r n).2

theorem sampleLoop_eq (c : Array Nat) : ∀ (L : Nat) (r : Rng) (acc : Array Nat),
    (sampleLoop c L r acc).1 = acc ++ ((sampleDraw c.size L r).map (fun i => c.getD i 0)).toArray := by
  intro L
  induction L with
  | zero => intro r acc; simp [sampleLoop, sampleDraw]
  | succ L ih =>
    intro r acc
    simp only [sampleLoop, sampleDraw, List.map_cons]
    rw [ih]
    apply Array.toList_inj.1
    simp

theorem sampleDraw_lt (n : Nat) (hn : 0 < n) : ∀ (L : Nat) (r : Rng), (sampleDraw n L r).length = L ∧ ∀ i ∈ sampleDraw n L r, i < n := by
  intro L
  induction L with
  | zero => intro r; simp [sampleDraw]
  | succ L ih =>
    intro r
    obtain ⟨h1, h2⟩ := ih (roll r n).2
    simp only [sampleDraw, List.length_cons, h1, List.mem_cons, true_and]
    rintro i (rfl | hi)
    · exact roll_lt r n hn
    · exact h2 i hi

theorem sampleTable_iff (cls : Nat → Bool) (x : Nat) : x ∈ sampleTable cls ↔ x < 128 ∧ cls x = true := by
  simp [sampleTable, List.mem_filter, List.mem_range]

theorem sampleTable_nodup (cls : Nat → Bool) : (sampleTable cls).toList.Nodup := by
  simp only [sampleTable]
  exact List.nodup_range.sublist List.filter_sublist

/-! ## `esl_rsq_xIID(r, NULL, K, L, dsq)` -/
theorem iidUniform_eq (K : Nat) : ∀ (L : Nat) (r : Rng) (acc : Array Nat),
    (iidUniform K L r acc).1 = acc ++ (sampleDraw K L r).toArray := by
  intro L
  induction L with
  | zero => intro r acc; simp [iidUniform, sampleDraw]
  | succ L ih =>
    intro r acc
    simp only [iidUniform, sampleDraw]
    rw [ih]
    apply Array.toList_inj.1
    simp

end EaselModel.Shuffle

namespace EaselModel.Shuffle
open EaselModel.Random

/-! ## bootstrap: output column `p` IS input column `Roll(alen)` of the `p`-th draw -/
/-- the column written by one iteration of `esl_msashuffle_Bootstrap` -/
theorem column_bootStep (base alen : Nat) (msa boot : Array Bytes) (pos col : Nat) (hsz : boot.size = msa.size)
    (hm : ∀ k (hk : k < msa.size), base + alen ≤ msa[k].size)
    (hb : ∀ k (hk : k < boot.size), base + alen ≤ boot[k].size) (hpos : pos < alen) (hcol : col < alen) (c : Nat) :
    column (boot.mapIdx fun i row => row.setIfInBounds (base + pos) ((msa[i]!)[base + col]!)) c =
      if c = base + pos then column msa (base + col) else column boot c := by
  apply Array.ext
  · split <;> simp [column, hsz]
  · intro k hk1 hk2
    simp only [column, Array.size_map, Array.size_mapIdx] at hk1
    have hk' : k < msa.size := by omega
    have hb' := hb k hk1
    have hm' := hm k hk'
    simp only [column, Array.getElem_map, Array.getElem_mapIdx, Array.getElem?_setIfInBounds]
    by_cases e : c = base + pos
    · subst e
      simp only [↓reduceIte, Array.getElem_map]
      rw [if_pos (by omega), getElem!_pos msa k hk', getElem!_pos msa[k] _ (by omega), Array.getElem?_eq_getElem]
    · have e' : ¬ (base + pos = c) := fun x => e x.symm
      simp only [e, e', ↓reduceIte, Array.getElem_map]

theorem bootLoop_exact (base alen : Nat) (msa : Array Bytes)
    (hm : ∀ k (hk : k < msa.size), base + alen ≤ msa[k].size) :
    ∀ n pos (boot : Array Bytes) r, pos + n = alen → boot.size = msa.size →
      (∀ k (hk : k < boot.size), base + alen ≤ boot[k].size) →
      ∀ c, column (bootLoop base alen msa n pos boot r).1 c =
        if base + pos ≤ c ∧ c < base + alen then column msa (base + (sampleDraw alen n r).getD (c - (base + pos)) 0)
        else column boot c := by
  intro n
  induction n with
  | zero =>
    intro pos boot r hp hs hb c
    simp only [bootLoop]
    rw [if_neg (by omega)]
  | succ n ih =>
    intro pos boot r hp hs hb c
    have hcol := roll_lt r alen (by omega)
    simp only [bootLoop, sampleDraw]
    rw [ih (pos+1) _ _ (by omega) (by simpa using hs) (by
      intro k hk
      simp only [Array.size_mapIdx] at hk
      simp only [Array.getElem_mapIdx, Array.size_setIfInBounds]
      exact hb k hk)]
    by_cases h1 : base + (pos + 1) ≤ c ∧ c < base + alen
    · rw [if_pos h1, if_pos (by omega)]
      have e : c - (base + pos) = (c - (base + (pos + 1))) + 1 := by omega
      rw [e, List.getD_cons_succ]
    · rw [if_neg h1, column_bootStep base alen msa boot pos _ hs hm hb (by omega) hcol c]
      by_cases h2 : c = base + pos
      · rw [if_pos h2, if_pos (by omega)]
        have e : c - (base + pos) = 0 := by omega
        rw [e]; rfl
      · rw [if_neg h2, if_neg (by omega)]

end EaselModel.Shuffle
