import EaselModel.Shuffle.LemmasChoose
import Mathlib.Algebra.Order.Field.Rat
import Mathlib.Algebra.Order.Field.Basic
/-! The rationals satisfy `LawfulCNum` (non-vacuity of the Markov / IID support theorems: the code read as exact
    arithmetic is a lawful instance). -/
namespace EaselModel.Shuffle

instance : CNum ℚ where
  zero := 0
  one := 1
  add := (· + ·)
  div := (· / ·)
  lt := fun a b => decide (a < b)
  ofNat := fun n => (n : ℚ)

instance : LawfulCNum ℚ where
  add_zero_cmp := fun a u n => by
    show decide (u < (a + 0) / n) = decide (u < a / n)
    rw [add_zero]
  zero_add_zero := add_zero (0 : ℚ)
  zero_div_pos := fun d _ => zero_div d
  zero_div_ofNat := fun n _ => zero_div (n : ℚ)
  not_lt_zero_div := fun x m norm => by
    show decide ((x : ℚ) / (m : ℚ) < 0 / norm) = false
    rw [zero_div, decide_eq_false_iff_not, not_lt]
    exact div_nonneg (Nat.cast_nonneg x) (Nat.cast_nonneg m)

end EaselModel.Shuffle
