/-! Line protocol shared by every model driver (DESIGN §2.3).
    Input:  `case <n>` / one operation per line / `end`.  Output: `case <n>` / one result line per operation / `end`.
    Core Lean only (no Mathlib) so that drivers link as `lean_exe`. -/
namespace EaselModel.Proto

def hexDigit (n : Nat) : Char :=
  if n < 10 then Char.ofNat (48 + n) else Char.ofNat (87 + n)

def hexOfBytes (bs : List UInt8) : String :=
  String.ofList (bs.flatMap fun b => [hexDigit (b.toNat / 16), hexDigit (b.toNat % 16)])

def hexVal (c : Char) : Option Nat :=
  if '0' ≤ c ∧ c ≤ '9' then some (c.toNat - 48)
  else if 'a' ≤ c ∧ c ≤ 'f' then some (c.toNat - 87)
  else if 'A' ≤ c ∧ c ≤ 'F' then some (c.toNat - 55)
  else none

def bytesOfHexAux : List Char → List UInt8 → Option (List UInt8)
  | [], acc => some acc.reverse
  | [_], _ => none
  | a :: b :: rest, acc =>
    match hexVal a, hexVal b with
    | some x, some y => bytesOfHexAux rest (UInt8.ofNat (16 * x + y) :: acc)
    | _, _ => none

/-- `-` denotes the empty byte string. -/
def bytesOfHex (s : String) : Option (List UInt8) :=
  if s == "-" then some [] else bytesOfHexAux s.toList []

def hexOrDash (bs : List UInt8) : String := if bs.isEmpty then "-" else hexOfBytes bs

/-- split a line into words on single blanks, dropping empty words -/
def words (line : String) : List String :=
  (line.splitOn " ").filter (fun w => w ≠ "")

/-- `key=value` lookup in a word list -/
def arg? (ws : List String) (key : String) : Option String :=
  ws.findSome? fun w =>
    if w.startsWith (key ++ "=") then some ((w.drop (key.length + 1)).toString) else none

def argNat? (ws : List String) (key : String) : Option Nat := (arg? ws key).bind String.toNat?
def argInt? (ws : List String) (key : String) : Option Int := (arg? ws key).bind String.toInt?
def argHex? (ws : List String) (key : String) : Option (List UInt8) := (arg? ws key).bind bytesOfHex

def trimLine (s : String) : String :=
  let cs := s.toList.reverse.dropWhile (fun c => c == '\n' || c == '\r')
  String.ofList cs.reverse

/-- Generic driver loop: `σ` is the per-case model state, reset by `init` at every `case` line. -/
partial def loop {σ : Type} (init : σ) (step : σ → String → σ × String) (h : IO.FS.Stream) (out : IO.FS.Stream)
    (s : σ) : IO Unit := do
  let line ← h.getLine
  if line.isEmpty then
    out.flush
    return ()
  let l := trimLine line
  if l.startsWith "case " then
    out.putStrLn l
    loop init step h out init
  else if l == "end" then
    out.putStrLn "end"
    out.flush
    loop init step h out s
  else if l == "" then
    loop init step h out s
  else
    let (s', r) := step s l
    out.putStrLn r
    loop init step h out s'

def runDriver {σ : Type} (init : σ) (step : σ → String → σ × String) : IO Unit := do
  let i ← IO.getStdin
  let o ← IO.getStdout
  loop init step i o init

end EaselModel.Proto
