import EaselModel.Buffer.Model
/-! # C05 (round 4) — executable model of the string/number helpers of `esl_mem.c`

Mirrors, statement by statement: `esl_mem_strtoi32` / `esl_mem_strtoi64` / `esl_mem_strtoi` (one model, parametrised by
the bounds `lo hi` of the integer type), `esl_memtok`, `esl_memspn`, `esl_memcspn`, `esl_memstrcmp`, `esl_memstrpfx`,
`esl_memstrcontains`, `esl_memstrcmp_case`, `esl_memstrpfx_case`, `esl_memstrdup`, `esl_memstrcpy`, `esl_mem_IsReal`.
(`esl_memnewline` is `EaselModel.Buffer.memnewline`.) Core Lean only (the driver links this file).

Conventions
* the memory line `p[0..n)` is a `Bytes`; `n = p.length` (the harness hands the code an exactly sized block);
* a C string argument (`delim`, `allow`, `s`) is given by its bytes *before* the implicit terminating NUL; the code sees
  `cz s = s ++ [0]`, and reading behind that NUL is an out-of-bounds access;
* every data-dependent index goes through `l[i]?`; `none` is the outcome *fault* (a function returning `Option` answers
  `none` for it). Signed overflow of the C integer type (undefined behaviour) is a fault too (`ck`).
* `char` is signed: bytes ≥ 0x80 are negative, and in the C locale belong to no `<ctype.h>` class. -/
namespace EaselModel.Buffer.Mem
open EaselModel.Buffer

inductive MSt where
  | ok | eol | eformat | erange | einval | fault
  deriving DecidableEq, Repr, Inhabited

/-! ## `<ctype.h>` in the C locale -/
def isspaceB (c : UInt8) : Bool := c.toNat == 32 || (9 ≤ c.toNat && c.toNat ≤ 13)
def isdigitB (c : UInt8) : Bool := 48 ≤ c.toNat && c.toNat ≤ 57
def isupperB (c : UInt8) : Bool := 65 ≤ c.toNat && c.toNat ≤ 90
def islowerB (c : UInt8) : Bool := 97 ≤ c.toNat && c.toNat ≤ 122
def toupperB (c : UInt8) : UInt8 := if islowerB c then c - 32 else c

/-- the `if isdigit … else if isupper … else if islower … else break` cascade: the digit value, `none` = `break` -/
def digitOf (c : UInt8) : Option Int :=
  if isdigitB c then some ((c.toNat : Int) - 48)
  else if isupperB c then some (10 + ((c.toNat : Int) - 65))
  else if islowerB c then some (10 + ((c.toNat : Int) - 97))
  else none

/-- the C string seen by the code: the bytes up to the first NUL (the implicit terminator if there is none before) -/
def cstr (s : Bytes) : Bytes := s.takeWhile (· != 0)
/-- the memory behind a `const char *` argument: the given bytes and the terminating NUL -/
def cz (s : Bytes) : Bytes := s ++ [0]

/-! ## esl_mem_strtoi32 / strtoi64 / strtoi -/

structure IRes where
  st : MSt
  /-- `*opt_nc`; `none` = not written by the call -/
  nc : Option Nat
  /-- `*opt_val`; `none` = not written by the call -/
  val : Option Int
  deriving DecidableEq, Repr, Inhabited

/-- arithmetic in the C integer type `[lo, hi]`: a result outside it is signed overflow (undefined behaviour → fault) -/
def ck (lo hi v : Int) : Option Int := if lo ≤ v ∧ v ≤ hi then some v else none

/-- `while (i < n && isspace(p[i])) i++;` -/
def wsLoop (p : Bytes) (i : Nat) : Option Nat :=
  if i < p.length then
    match p[i]? with
    | none => none
    | some c => if isspaceB c then wsLoop p (i + 1) else some i
  else some i
termination_by p.length - i

/-- `if (i < n && p[i] == '-') { sign = -1; i++; }` : `(sign, i)` -/
def signStep (p : Bytes) (i : Nat) : Option (Int × Nat) :=
  if i < p.length then
    match p[i]? with
    | none => none
    | some c => if c = 45 then some (-1, i + 1) else some (1, i)
  else some (1, i)

/-- `(base == 0 || base == 16) && i < n-1 && p[i] == '0' && p[i+1] == 'x'` (short-circuit evaluation; `n-1` is signed) -/
def hexPfx (p : Bytes) (base : Int) (i : Nat) : Option Bool :=
  if (base = 0 ∨ base = 16) ∧ (i : Int) < (p.length : Int) - 1 then
    match p[i]? with
    | none => none
    | some c0 =>
      if c0 = 48 then
        match p[i+1]? with
        | none => none
        | some c1 => some (c1 == 120)
      else some false
  else some false

/-- `base == 0 && i < n && p[i] == '0'` -/
def octPfx (p : Bytes) (base : Int) (i : Nat) : Option Bool :=
  if base = 0 ∧ i < p.length then
    match p[i]? with
    | none => none
    | some c0 => some (c0 == 48)
  else some false

/-- the normal exit: `*opt_nc = ndigits ? i : 0; *opt_val = currval; return ndigits ? eslOK : eslEFORMAT` -/
def fin (i nd : Nat) (cv : Int) : IRes :=
  ⟨if nd ≠ 0 then .ok else .eformat, some (if nd ≠ 0 then i else 0), some cv⟩

/-- `for (; i < n; i++, ndigits++) { … }` and the normal exit -/
def digLoop (lo hi : Int) (p : Bytes) (base sign : Int) (i nd : Nat) (cv : Int) : Option IRes :=
  if i < p.length then
    match p[i]? with
    | none => none
    | some c =>
      match digitOf c with
      | none => some (fin i nd cv)                                   -- break
      | some d =>
        if d ≥ base then some (fin i nd cv)                         -- break
        else if sign = 1 then
          match ck lo hi (hi - d) with
          | none => none
          | some t =>
            if cv > t.tdiv base then some ⟨.erange, some (i + 1), some hi⟩
            else
              match ck lo hi (cv * base) with
              | none => none
              | some m =>
                match ck lo hi (m + d) with
                | none => none
                | some v => digLoop lo hi p base sign (i + 1) (nd + 1) v
        else
          match ck lo hi (lo + d) with
          | none => none
          | some t =>
            if cv < t.tdiv base then some ⟨.erange, some (i + 1), some lo⟩
            else
              match ck lo hi (cv * base) with
              | none => none
              | some m =>
                match ck lo hi (m - d) with
                | none => none
                | some v => digLoop lo hi p base sign (i + 1) (nd + 1) v
  else some (fin i nd cv)
termination_by p.length - i

/-- `esl_mem_strtoi*(p, n, base, &nc, &val)` for the integer type `[lo, hi]`; `none` = fault.
    `ESL_EXCEPTION(eslEINVAL, …)` returns at once: neither `*opt_nc` nor `*opt_val` is written. -/
def strtoiO (lo hi : Int) (p : Bytes) (base : Int) : Option IRes :=
  if base < 0 ∨ base = 1 ∨ base > 36 then some ⟨.einval, none, none⟩ else
  match wsLoop p 0 with
  | none => none
  | some i0 =>
    match signStep p i0 with
    | none => none
    | some (sign, i) =>
      match hexPfx p base i with
      | none => none
      | some true => digLoop lo hi p 16 sign (i + 2) 0 0
      | some false =>
        match octPfx p base i with
        | none => none
        | some true => digLoop lo hi p 8 sign (i + 1) 1 0
        | some false =>
          if base = 0 then digLoop lo hi p 10 sign i 0 0
          else digLoop lo hi p base sign i 0 0

def faultRes : IRes := ⟨.fault, none, none⟩
def strtoi (lo hi : Int) (p : Bytes) (base : Int) : IRes := (strtoiO lo hi p base).getD faultRes

def i32min : Int := -2147483648
def i32max : Int := 2147483647
def i64min : Int := -9223372036854775808
def i64max : Int := 9223372036854775807
def strtoi32 (p : Bytes) (base : Int) : IRes := strtoi i32min i32max p base
def strtoi64 (p : Bytes) (base : Int) : IRes := strtoi i64min i64max p base

/-! ## esl_memspn / esl_memcspn / esl_memtok -/

/-- `strchr(delim, c) != NULL` evaluated on the memory `cz delim`: scan up to the first byte equal to `c` or NUL -/
def strchrLoop (m : Bytes) (c : UInt8) (j : Nat) : Option Bool :=
  match m[j]? with
  | none => none                         -- ran past the terminator
  | some d => if d = c then some true else if d = 0 then some false
              else if j < m.length then strchrLoop m c (j + 1) else none
termination_by m.length - j

def strchr (delim : Bytes) (c : UInt8) : Option Bool := strchrLoop (cz delim) c 0

/-- `for (; so < n; so++) if ((strchr(set, p[so]) != NULL) != want) break;` : the final `so` -/
def spanLoop (set : Bytes) (want : Bool) (p : Bytes) (so : Nat) : Option Nat :=
  if so < p.length then
    match p[so]? with
    | none => none
    | some c =>
      match strchr set c with
      | none => none
      | some b => if b = want then spanLoop set want p (so + 1) else some so
  else some so
termination_by p.length - so

def memspn (p set : Bytes) : Option Nat := spanLoop set true p 0
def memcspn (p set : Bytes) : Option Nat := spanLoop set false p 0

structure TokRes where
  st : MSt
  /-- `*ret_tok - s` and `*ret_toklen`; `none` = `NULL`/0 -/
  tok : Option (Nat × Nat)
  /-- `*p - s` afterwards -/
  adv : Nat
  /-- `*n` afterwards -/
  n : Nat
  deriving DecidableEq, Repr, Inhabited

/-- `esl_memtok(&p, &n, delim, &tok, &toklen)` -/
def memtok (p delim : Bytes) : Option TokRes :=
  match spanLoop delim true p 0 with
  | none => none
  | some so =>
    match spanLoop delim false p so with
    | none => none
    | some xo =>
      match spanLoop delim true p xo with
      | none => none
      | some eo =>
        if so = p.length then some ⟨.eol, none, 0, p.length⟩
        else some ⟨.ok, some (so, xo - so), eo, p.length - eo⟩

/-! ## esl_memstrcmp / esl_memstrpfx / esl_memstrcontains (+ _case) -/

/-- `for (pos = 0; pos < n && s[pos] != '\0'; pos++) if (f(p[pos]) != f(s[pos])) return FALSE;`
    `some (some pos)` = loop left normally at `pos`; `some none` = returned FALSE; `none` = fault.
    `p` is read at `off + pos` (`off = 0` except in `esl_memstrcontains`), `sz` is the memory of `s`. -/
def cmpLoop (f : UInt8 → UInt8) (p sz : Bytes) (off pos : Nat) : Option (Option Nat) :=
  if off + pos < p.length then
    match sz[pos]? with
    | none => none
    | some sc =>
      if sc ≠ 0 then
        match p[off + pos]? with
        | none => none
        | some pc => if f pc ≠ f sc then some none else cmpLoop f p sz off (pos + 1)
      else some (some pos)
  else some (some pos)
termination_by p.length - (off + pos)

/-- `esl_memstrcmp` (`f = id`) / `esl_memstrcmp_case` (`f = toupper`); `p = none`: `p == NULL` (then `n = 0`), `s = none`: `s == NULL` -/
def memstrcmpF (f : UInt8 → UInt8) (p s : Option Bytes) : Option Bool :=
  match p, s with
  | none, none => some true                                       -- p == NULL && n == 0 && s == NULL
  | none, some s => match (cz s)[0]? with                         -- … || s[0] == '\0'
    | none => none
    | some c => some (c == 0)                                     -- else `!p` → FALSE
  | some _, none => some false                                    -- !s
  | some p, some s =>
    match cmpLoop f p (cz s) 0 0 with
    | none => none
    | some none => some false
    | some (some pos) =>
      if pos ≠ p.length then some false
      else match (cz s)[pos]? with
        | none => none
        | some c => some (c == 0)

/-- `esl_memstrpfx` / `esl_memstrpfx_case` -/
def memstrpfxF (f : UInt8 → UInt8) (p s : Option Bytes) : Option Bool :=
  match p, s with
  | some p, some s =>
    match cmpLoop f p (cz s) 0 0 with
    | none => none
    | some none => some false
    | some (some pos) =>
      match (cz s)[pos]? with
      | none => none
      | some c => some (c == 0)
  | _, _ => some false

def memstrcmp := memstrcmpF id
def memstrcmp_case := memstrcmpF toupperB
def memstrpfx := memstrpfxF id
def memstrpfx_case := memstrpfxF toupperB

/-- inner loop of `esl_memstrcontains`: `for (pos = 0; s0+pos < n && s[pos] != '\0'; pos++) if (p[s0+pos] != s[pos]) break;` : final `pos` -/
def inLoop (p sz : Bytes) (s0 pos : Nat) : Option Nat :=
  if s0 + pos < p.length then
    match sz[pos]? with
    | none => none
    | some sc =>
      if sc ≠ 0 then
        match p[s0 + pos]? with
        | none => none
        | some pc => if pc ≠ sc then some pos else inLoop p sz s0 (pos + 1)
      else some pos
  else some pos
termination_by p.length - (s0 + pos)

/-- `for (s0 = 0; s0 < n; s0++) { inner; if (s[pos] == '\0') return TRUE; } return FALSE;` -/
def containsLoop (p sz : Bytes) (s0 : Nat) : Option Bool :=
  if s0 < p.length then
    match inLoop p sz s0 0 with
    | none => none
    | some pos =>
      match sz[pos]? with
      | none => none
      | some c => if c = 0 then some true else containsLoop p sz (s0 + 1)
  else some false
termination_by p.length - s0

def memstrcontains (p s : Option Bytes) : Option Bool :=
  match p, s with
  | some p, some s => containsLoop p (cz s) 0
  | _, _ => some false

/-! ## esl_memstrdup / esl_memstrcpy -/

/-- `memcpy(s, p, n); s[n] = '\0'` into a block of `n+1` bytes: the block afterwards (`none` = a write outside it) -/
def copyZ (p : Bytes) (balloc : Nat) : Option Bytes :=
  if p.length < balloc then some (p ++ [0] ++ List.replicate (balloc - (p.length + 1)) 0) else none

/-- `esl_memstrdup(p, n, &s)`: `some none` = `*ret_s = NULL` (for `p == NULL`), else the allocated block of `n+1` bytes -/
def memstrdup (p : Option Bytes) : Option (Option Bytes) :=
  match p with
  | none => some none
  | some p => (copyZ p (p.length + 1)).map some

/-- `esl_memstrcpy(p, n, dest)` with `dest` of exactly `n+1` bytes (the documented minimum) -/
def memstrcpy (p : Bytes) : Option Bytes := copyZ p (p.length + 1)

/-! ## esl_mem_IsReal -/

/-- `while (n && isspace(*p)) { p++; n--; }` as an index loop -/
def realWs (p : Bytes) (i : Nat) : Option Nat := wsLoop p i

/-- the middle loop: `(gotdecimal, gotexp, gotreal)`; `some none` = `return FALSE`; else the index at which it stopped -/
def realLoop (p : Bytes) (i : Nat) (gd ge gr : Bool) : Option (Option (Nat × Bool)) :=
  if i < p.length then
    match p[i]? with
    | none => none
    | some c =>
      if isdigitB c then realLoop p (i + 1) gd ge true
      else if c = 46 then
        if gd then some none else if ge then some none else realLoop p (i + 1) true ge gr
      else if c = 101 ∨ c = 69 then
        if ge then some none else realLoop p (i + 1) gd true gr
      else if isspaceB c then some (some (i, gr))
      else realLoop p (i + 1) gd ge gr            -- any other byte: no branch taken, `p++; n--;`
  else some (some (i, gr))
termination_by p.length - i

def memIsReal (p : Option Bytes) : Option Bool :=
  match p with
  | none => some false
  | some p =>
    if p.length = 0 then some false else
    match wsLoop p 0 with
    | none => none
    | some i =>
      match (if i < p.length then (p[i]?).map (fun c => if c = 45 ∨ c = 43 then i + 1 else i) else some i) with
      | none => none
      | some i =>
        match realLoop p i false false false with
        | none => none
        | some none => some false
        | some (some (i, gr)) =>
          match wsLoop p i with
          | none => none
          | some i => some (i == p.length && gr)

/-! ### `esl_mem_IsReal` after the proposed repair `C05-mem-isreal-garbage.patch` (executable only; selected by the regenerated
constant `MemConsts.isRealStrict`, so that the tie follows the working tree when the repair lands; `memIsReal_spec` is about the
code as it is today) -/

/-- the middle loop with the two added branches: `+`/`-` directly after the `e`/`E`, and `else return FALSE` -/
def realLoopS (p : Bytes) (i : Nat) (gd ge gr : Bool) : Option (Option (Nat × Bool)) :=
  if i < p.length then
    match p[i]? with
    | none => none
    | some c =>
      if isdigitB c then realLoopS p (i + 1) gd ge true
      else if c = 46 then
        if gd then some none else if ge then some none else realLoopS p (i + 1) true ge gr
      else if c = 101 ∨ c = 69 then
        if ge then some none else realLoopS p (i + 1) gd true gr
      else if isspaceB c then some (some (i, gr))
      else if (c = 45 ∨ c = 43) ∧ ge = true then
        -- `p[-1] == 'e' || p[-1] == 'E'` (bounds-checked; `gotexp` implies `i ≥ 1`)
        if i = 0 then none else
        match p[i - 1]? with
        | none => none
        | some d => if d = 101 ∨ d = 69 then realLoopS p (i + 1) gd ge gr else some none
      else some none
  else some (some (i, gr))
termination_by p.length - i

def memIsRealS (p : Option Bytes) : Option Bool :=
  match p with
  | none => some false
  | some p =>
    if p.length = 0 then some false else
    match wsLoop p 0 with
    | none => none
    | some i =>
      match (if i < p.length then (p[i]?).map (fun c => if c = 45 ∨ c = 43 then i + 1 else i) else some i) with
      | none => none
      | some i =>
        match realLoopS p i false false false with
        | none => none
        | some none => some false
        | some (some (i, gr)) =>
          match wsLoop p i with
          | none => none
          | some i => some (i == p.length && gr)


end EaselModel.Buffer.Mem
