import EaselModel.Buffer.Total
/-! `esl_buffer_SetOffset` on every target offset (inside or outside the contract). -/
namespace EaselModel.Buffer

/-- end of the window never lies beyond both the cursor and the end of the input -/
theorem WF.end_le {b : Buf} (h : WF b) : b.base + b.n ≤ max (b.base + b.pos) b.src.length := by
  have := congrArg List.length h.hwin
  simp only [List.length_drop, List.length_append] at this
  simp only [Buf.n]
  have hp := h.hpos
  simp only [Buf.n] at hp
  omega

/-- fast-forwarding to an offset beyond the end of the input: `eslEINVAL`, the stream is exhausted and the cursor
    stands at its end -/
theorem ffwdLoop_beyond (o : Nat) (fuel : Nat) : ∀ (b : Buf) (C : Nat), WF b → b.rest.length + 1 ≤ fuel →
    b.base + b.pos ≤ C → C < o → b.src.length < o →
    (ffwdLoop o fuel b).1 = .einval ∧ WF (ffwdLoop o fuel b).2 ∧ Keep b (ffwdLoop o fuel b).2 ∧
    (ffwdLoop o fuel b).2.pos = (ffwdLoop o fuel b).2.n ∧ (ffwdLoop o fuel b).2.rest = [] ∧
    b.base + b.pos ≤ (ffwdLoop o fuel b).2.base + (ffwdLoop o fuel b).2.pos ∧
    (ffwdLoop o fuel b).2.base + (ffwdLoop o fuel b).2.pos ≤ max C b.src.length := by
  induction fuel with
  | zero => intro b C _ hf; omega
  | succ fuel ih =>
    intro b C h hfuel hC hCo hlen
    have hp := h.hpos
    have hend := h.end_le
    rw [ffwdLoop_succ]
    have hout : o ≥ b.base + b.n := by omega
    rw [if_pos hout]
    have hwf1 : WF { b with pos := b.n } :=
      ⟨h.hwin, Nat.le_refl _, h.hanch, h.hps, h.heof, h.hnofp⟩
    have hr := refill_post { b with pos := b.n } 0 hwf1
    have hk := refill_keep { b with pos := b.n } 0 hwf1
    have hlt := refill_ok_lt { b with pos := b.n } 0 hwf1
    generalize hrf : refill { b with pos := b.n } 0 = rf at *
    obtain ⟨st, b2⟩ := rf
    simp only [] at hr hk hlt ⊢
    have hoff2 : b2.base + b2.pos = b.base + b.n := hr.frame.off
    have hsrc2 : b2.src = b.src := hr.frame.src
    have hkeep : Keep b b2 := (setpos_keep b b.n).trans hk
    rcases hr.status with hok | heof
    · subst hok
      have c1 : ¬ (St.ok = St.eof ∧ o = b2.base + b2.n) := by intro hh; cases hh.1
      have c2 : ¬ (St.ok = St.eof) := by intro hh; cases hh
      have c3 : ¬ (St.ok ≠ St.ok) := by intro hh; exact hh rfl
      rw [if_neg c1, if_neg c2, if_neg c3]
      have hlt2 := hlt rfl
      have hav1 : ({ b with pos := b.n } : Buf).n - ({ b with pos := b.n } : Buf).pos = 0 := by show b.n - b.n = 0; omega
      have hprog := hr.prog (by rw [hav1]; omega)
      have hrest1 : ({ b with pos := b.n } : Buf).rest = b.rest := rfl
      rw [hrest1] at hprog
      obtain ⟨i1, i2, i3, i4, i5, i6, i7⟩ := ih b2 (max C b.src.length) hr.wf (by omega) (by omega) (by omega) (by rw [hsrc2]; exact hlen)
      refine ⟨i1, i2, hkeep.trans i3, i4, i5, by omega, ?_⟩
      rw [hsrc2] at i7; omega
    · subst heof
      obtain ⟨e1, e2⟩ := hr.eof_imp rfl
      have hex := exhausted_le hr.wf e2
      rw [hsrc2] at hex
      have hne : ¬ (St.eof = St.eof ∧ o = b2.base + b2.n) := by
        rintro ⟨_, hh⟩
        have := hr.wf.end_le
        rw [hsrc2] at this
        omega
      rw [if_neg hne, if_pos rfl]
      exact ⟨rfl, hr.wf, hkeep, e1, e2, by show b.base + b.pos ≤ b2.base + b2.pos; omega,
        by show b2.base + b2.pos ≤ max C b.src.length; omega⟩

/-- `R` after a `SetOffset` that failed but moved the cursor forward (the anchor record is kept) -/
theorem R.moved {P : Nat} {a : AState} {s s' : Sess} (r : R P a s) (c : Nat)
    (wf : WF s'.b) (pg : PG s'.b) (k : Keep s.b s'.b) (hcur : s'.b.base + s'.b.pos = c)
    (hlp : s'.lastp = none) : R P { a with cur := c, lastp := none } s' :=
  r.of_keepA' (s' := s') (a' := { a with cur := c, lastp := none }) wf pg k.toKeepA (r.aok.keep k) rfl rfl rfl hcur hlp rfl

theorem total_setOffset (P o : Nat) (a : AState) (s : Sess) (r : R P a s) (hs : CallerOk s (.setOffset o)) :
    TStep P a s (.setOffset o) := by
  have hp := r.wf.hpos
  have hlp : (s.step (.setOffset o)).2.lastp = none := by
    rw [step_lastp]; show (setOffset s.b o).1.p = none; exact setOffset_p _ _
  have hobs : ∀ st b', setOffset s.b o = (({ st := st } : Out), b') →
      obsOf (.setOffset o) (s.step (.setOffset o)).1 (s.step (.setOffset o)).2 = ⟨st, [], b'.base + b'.pos⟩ ∧
      (s.step (.setOffset o)).2.b = b' := by
    intro st b' e
    have hb : (s.step (.setOffset o)).2.b = b' := by rw [step_b]; show (setOffset s.b o).2 = _; rw [e]
    have ho : (s.step (.setOffset o)).1 = ({ st := st } : Out) := by rw [step_out]; show (setOffset s.b o).1 = _; rw [e]
    refine ⟨?_, hb⟩
    unfold obsOf
    rw [if_neg (by intro hh; cases hh), ho, hb]
  -- success with the cursor at `o` and the anchor record kept: the specification step
  have fin : ∀ b', setOffset s.b o = (({ st := .ok } : Out), b') → WF b' → PG b' → Keep s.b b' → b'.base + b'.pos = o →
      TStep P a s (.setOffset o) := by
    intro b' e w pg k hc
    obtain ⟨h1, hb⟩ := hobs _ _ e
    apply TStep.of_sim
    refine ⟨by rw [h1, hc]; rfl, ?_⟩
    exact r.moved (s' := (s.step (.setOffset o)).2) o (by rw [hb]; exact w) (by rw [hb]; exact pg) (by rw [hb]; exact k)
      (by rw [hb]; exact hc) hlp
  by_cases hm : memMode s.b.mode
  · -- whole input in memory: the cursor goes anywhere up to the end; the anchor record means nothing
    have hf : s.b.hasfp = false := r.modefp.mpr hm
    have hb0 := r.base0 hf
    have hrest := r.wf.hnofp hf
    have hnone := r.nfa hf
    have hn : s.b.n = a.src.length := by
      have := congrArg List.length r.wf.hwin
      rw [hrest, hb0, List.append_nil, List.drop_zero, r.src] at this
      simp only [Buf.n]; omega
    by_cases hgt : s.b.n < o
    · -- beyond the end: eslEINVAL, nothing changes
      have e := setOffset_mem_beyond s.b o hm hgt
      obtain ⟨h1, hb⟩ := hobs _ _ e
      refine ⟨{ a with lastp := none }, ?_, r.unchanged hb hlp⟩
      rw [h1, r.cur]
      exact Total.beyond_end_whole o (by omega)
    have hs1 : s.b.hasfp = false → o ≤ s.b.n := fun _ => by omega
    have e := setOffset_mem s.b o hm (by omega)
    obtain ⟨h1, hb⟩ := hobs _ _ e
    have hw : WF { s.b with base := 0, pos := o } := by
      refine ⟨?_, by show o ≤ s.b.n; exact hs1 hf, ?_, r.wf.hps, r.wf.heof, r.wf.hnofp⟩
      · show s.b.src.drop 0 = s.b.mem ++ s.b.rest
        rw [← hb0]; exact r.wf.hwin
      · intro x hx
        have : s.b.anchor = some x := hx
        rw [hnone] at this; cases this
    refine ⟨{ (specStep a (.setOffset o)).2 with anchor := none, nanchor := 0 }, ?_, ?_⟩
    · rw [h1]
      have : (⟨St.ok, [], ({ s.b with base := 0, pos := o } : Buf).base + ({ s.b with base := 0, pos := o } : Buf).pos⟩ : Obs) =
          (specStep a (.setOffset o)).1 := by
        show (⟨St.ok, [], 0 + o⟩ : Obs) = ⟨.ok, [], o⟩
        rw [Nat.zero_add]
      rw [this]; exact Total.whole_input _
    · show R P { a with cur := o, lastp := none, anchor := none, nanchor := 0 } (s.step (.setOffset o)).2
      refine ⟨by rw [hb]; exact hw, by rw [hb]; exact Or.inr hrest, ?_, ?_, by rw [hb]; exact r.src, by rw [hb]; show 0 + o = o; omega,
        by rw [hb]; exact r.ps, by rw [hb]; exact r.modefp, by rw [hb]; intro _; rfl, ?_, (fun A hA => by cases hA), by rw [hlp]; rfl,
        (fun p hp' => by cases hp')⟩
      · rw [hb]; intro x hx
        have : s.b.anchor = some x := hx
        rw [hnone] at this; cases this
      · rw [hb]; intro _; exact hnone
      · rw [hb]; intro hh
        have : s.b.hasfp = true := hh
        rw [hf] at this; cases this
  · have hf : s.b.hasfp = true := by
      cases hh : s.b.hasfp with
      | true => rfl
      | false => exact absurd (r.modefp.mp hh) hm
    obtain ⟨r1, r2⟩ := r.anch hf
    have est := setOffset_stream s.b o hm
    by_cases hwin : s.b.base ≤ o ∧ o < s.b.base + s.b.pos
    · -- rewind inside the window (possibly to before the anchor, which is then ahead of the cursor)
      have e : setOffset s.b o = (({ st := .ok } : Out), { s.b with pos := o - s.b.base }) := by
        rw [est]; unfold setOffsetStream; rw [if_pos hwin]
      refine fin _ e ?_ ?_ (setpos_keep s.b _) (by show s.b.base + (o - s.b.base) = o; omega)
      · exact ⟨r.wf.hwin, by show o - s.b.base ≤ s.b.n; omega, r.wf.hanch, r.wf.hps, r.wf.heof, r.wf.hnofp⟩
      · rcases r.pg with g | g
        · left; show s.b.pagesize ≤ s.b.n - (o - s.b.base); omega
        · right; exact g
    · by_cases hseek : s.b.mode = .file ∧ s.b.anchor = none
      · -- fseeko
        have hanone : a.anchor = none := by rw [← r1]; exact (absAnchor_eq_none s.b).mpr hseek.2
        generalize hb1 : ({ s.b with rest := s.b.src.drop o, fed := o, eof := false, base := o, mem := [], pos := 0, memgen := s.b.memgen + 1 } : Buf) = b1
        have w1 : WF b1 := by
          rw [← hb1]
          refine ⟨by show s.b.src.drop o = [] ++ s.b.src.drop o; rfl, Nat.le_refl _, ?_, r.wf.hps, ?_, ?_⟩
          · intro x hx; have : s.b.anchor = some x := hx; rw [hseek.2] at this; cases this
          · intro hh; cases hh
          · intro hh; have : s.b.hasfp = false := hh; rw [hf] at this; cases this
        have k1 : Keep s.b b1 := by
          rw [← hb1]
          refine ⟨rfl, rfl, rfl, rfl, ?_, rfl, fun hh => by rw [hf] at hh; cases hh⟩
          simp [Buf.absAnchor, hseek.2]
        have hr := refill_post b1 0 w1
        have hk := refill_keep b1 0 w1
        have hoff : (refill b1 0).2.base + (refill b1 0).2.pos = o := by
          rw [hr.frame.off, ← hb1]; show o + 0 = o; omega
        have hpg : PG (refill b1 0).2 := by
          rcases hr.guarantee (Nat.zero_le _) with g | g
          · left; omega
          · right; exact g
        rcases hr.status with hok | heof
        · have e : setOffset s.b o = (({ st := .ok } : Out), (refill b1 0).2) := by
            rw [est]; unfold setOffsetStream; rw [if_neg hwin, if_pos hseek]
            simp only [hb1, hok]
            rfl
          exact fin _ e hr.wf hpg (k1.trans hk) hoff
        · -- at or beyond the end of the file
          obtain ⟨e1, e2⟩ := hr.eof_imp heof
          have hex := exhausted_le hr.wf e2
          rw [hr.frame.src] at hex
          have hsrcb1 : b1.src = a.src := by rw [← hb1]; exact r.src
          have hlen : a.src.length ≤ o := by rw [hsrcb1] at hex; omega
          have e : setOffset s.b o = (({ st := .einval } : Out), (refill b1 0).2) := by
            rw [est]; unfold setOffsetStream; rw [if_neg hwin, if_pos hseek]
            simp only [hb1, heof]
            rfl
          obtain ⟨h1, hb⟩ := hobs _ _ e
          refine ⟨{ a with cur := o, lastp := none }, ?_, ?_⟩
          · rw [h1, hoff]; exact Total.beyond_end_seek o hlen hanone
          · exact r.moved (s' := (s.step (.setOffset o)).2) o (by rw [hb]; exact hr.wf) (by rw [hb]; exact hpg)
              (by rw [hb]; exact k1.trans hk) (by rw [hb]; exact hoff) hlp
      · by_cases hbase : o < s.b.base
        · -- the stream has moved past the target
          have e : setOffset s.b o = (({ st := .einval } : Out), s.b) := by
            rw [est]; unfold setOffsetStream; rw [if_neg hwin, if_neg hseek, if_pos hbase]
          obtain ⟨h1, hb⟩ := hobs _ _ e
          refine ⟨{ a with lastp := none }, ?_, r.unchanged hb hlp⟩
          rw [h1, r.cur]
          refine Total.rewind_refused o (by rw [← r.cur]; omega) (fun A hA => ?_)
          obtain ⟨a0, _, hb'⟩ := absAnchor_some (by rw [r1]; exact hA : s.b.absAnchor = some A)
          omega
        · have hahead : s.b.base + s.b.pos ≤ o := by omega
          by_cases hlen : o ≤ max a.cur a.src.length
          · obtain ⟨f1, f2, f3, f4, f5⟩ := ffwdLoop_spec o (s.b.rest.length + 2) s.b r.wf (by omega) hahead (by rw [r.src, r.cur]; exact hlen)
            generalize hff : ffwdLoop o (s.b.rest.length + 2) s.b = ff at *
            obtain ⟨stf, bf⟩ := ff
            simp only [] at f1 f2 f3 f4 f5
            subst f1
            have hp' := f2.hpos
            have w2 : WF { bf with pos := o - bf.base } :=
              ⟨f2.hwin, by show o - bf.base ≤ bf.n; omega, f2.hanch, f2.hps, f2.heof, f2.hnofp⟩
            have hr := refill_post { bf with pos := o - bf.base } 0 w2
            have hk := refill_keep { bf with pos := o - bf.base } 0 w2
            have hst : ¬ ((refill { bf with pos := o - bf.base } 0).1 ≠ .eof ∧ (refill { bf with pos := o - bf.base } 0).1 ≠ .ok) := by
              rcases hr.status with h3 | h3 <;> simp [h3]
            have e : setOffset s.b o = (({ st := .ok } : Out), (refill { bf with pos := o - bf.base } 0).2) := by
              rw [est]; unfold setOffsetStream; rw [if_neg hwin, if_neg hseek, if_neg hbase, hff]
              simp only [hst, if_false]
            refine fin _ e hr.wf ?_ ((f3.trans (setpos_keep bf _)).trans hk) ?_
            · rcases hr.guarantee (Nat.zero_le _) with g | g
              · left; omega
              · right; exact g
            · rw [hr.frame.off]; show bf.base + (o - bf.base) = o; omega
          · -- beyond the end of the stream
            have hgt : a.src.length < o := by omega
            have hcgt : s.b.base + s.b.pos < o := by rw [r.cur]; omega
            obtain ⟨f1, f2, f3, f4, f5, f6, f7⟩ := ffwdLoop_beyond o (s.b.rest.length + 2) s.b (s.b.base + s.b.pos) r.wf (by omega)
              (Nat.le_refl _) hcgt (by rw [r.src]; exact hgt)
            generalize hff : ffwdLoop o (s.b.rest.length + 2) s.b = ff at *
            obtain ⟨stf, bf⟩ := ff
            simp only [] at f1 f2 f3 f4 f5 f6 f7
            subst f1
            have e : setOffset s.b o = (({ st := .einval } : Out), bf) := by
              rw [est]; unfold setOffsetStream; rw [if_neg hwin, if_neg hseek, if_neg hbase, hff]
            obtain ⟨h1, hb⟩ := hobs _ _ e
            have hex := exhausted_le f2 f5
            rw [f3.src, r.src] at hex
            rw [r.src, r.cur] at f7
            rw [r.cur] at f6
            have hc : bf.base + bf.pos = max a.cur a.src.length := by
              have : bf.base + bf.pos = bf.base + bf.n := by rw [f4]
              omega
            refine ⟨{ a with cur := max a.cur a.src.length, lastp := none }, ?_, ?_⟩
            · rw [h1, hc]; exact Total.beyond_end o hgt (by rw [← r.cur]; exact hahead)
            · exact r.moved (s' := (s.step (.setOffset o)).2) _ (by rw [hb]; exact f2) (by rw [hb]; exact Or.inr f5)
                (by rw [hb]; exact f3) (by rw [hb]; exact hc) hlp

end EaselModel.Buffer
