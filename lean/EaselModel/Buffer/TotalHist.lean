import EaselModel.Buffer.TotalSetOffset
/-! Whole histories without the API contract. -/
namespace EaselModel.Buffer

/-- **One step, contract or not**: from any state related to a specification state, any of the 14 operations that
    respects the residual duties `SafeOp` yields one of the outcomes of `Total` and a related state again. -/
theorem step_total (P : Nat) (op : Op) (a : AState) (s : Sess) (r : R P a s) (hs : SafeOp s op) : TStep P a s op := by
  cases op with
  | getLine => exact TStep.of_sim (sim_getLine P a s r trivial)
  | fetchLine => exact TStep.of_sim (sim_fetchLine P a s r trivial)
  | fetchLineStr => exact TStep.of_sim (sim_fetchLineStr P a s r trivial)
  | getToken sep => exact TStep.of_sim (sim_getToken P sep a s r trivial)
  | fetchToken sep => exact TStep.of_sim (sim_fetchToken P sep a s r trivial)
  | fetchTokenStr sep => exact TStep.of_sim (sim_fetchTokenStr P sep a s r trivial)
  | read k => exact TStep.of_sim (sim_read P k a s r trivial)
  | get => exact TStep.of_sim (sim_get P a s r trivial)
  | set k => exact total_set P k a s r hs
  | getOffset => exact TStep.of_sim (sim_getOffset P a s r trivial)
  | setOffset o => exact total_setOffset P o a s r hs
  | setAnchor o => exact total_setAnchor P o a s r hs
  | setStableAnchor o => exact total_setStableAnchor P o a s r hs
  | raiseAnchor o => exact TStep.of_sim (sim_raiseAnchor P o a s r trivial)

/-- a history that respects the residual duties at every step of the run of the model -/
def SafeRun : Sess → List Op → Prop
  | _, [] => True
  | s, op :: ops => SafeOp s op ∧ SafeRun (s.step op).2 ops

/-- every step of the run is one of the outcomes of `Total`, threading the specification state -/
def TotalRun : AState → Sess → List Op → Prop
  | _, _, [] => True
  | a, s, op :: ops => ∃ a', Total a op (obsOf op (s.step op).1 (s.step op).2) a' ∧ TotalRun a' (s.step op).2 ops

theorem run_total (P : Nat) (ops : List Op) : ∀ (a : AState) (s : Sess), R P a s → SafeRun s ops → TotalRun a s ops := by
  induction ops with
  | nil => intro _ _ _ _; trivial
  | cons op ops ih =>
    intro a s r hs
    obtain ⟨a', h1, h2⟩ := step_total P op a s r hs.1
    exact ⟨a', h1, ih a' _ h2 hs.2⟩

/-- **Every history of the 14 operations, no API contract**: on every opener, every page size ≥ 1 and every input,
    each step either simulates the specification or answers the documented `eslEINVAL` leaving the described state. -/
theorem history_total (mode : Mode) (ps : Nat) (src : Bytes) (hps : 0 < ps) (ops : List Op)
    (hs : SafeRun { b := openBuf mode ps src } ops) : TotalRun (AState.init src) { b := openBuf mode ps src } ops :=
  run_total ps ops _ _ (open_R mode ps src hps ps (Nat.le_refl _)) hs

theorem totalRun_st (ops : List Op) : ∀ (a : AState) (s : Sess), TotalRun a s ops →
    ∀ o ∈ obsRun s ops, o.st = .ok ∨ o.st = .eof ∨ o.st = .eol ∨ o.st = .einval := by
  induction ops with
  | nil => intro _ _ _ o ho; cases ho
  | cons op ops ih =>
    intro a s ht o ho
    obtain ⟨a', h1, h2⟩ := ht
    rcases List.mem_cons.mp ho with h | h
    · rw [h]; exact h1.st
    · exact ih a' _ h2 o h

/-- … and never faults: no out-of-bounds access, no cursor outside the window, no loop out of fuel, no internal error. -/
theorem history_total_no_fault (mode : Mode) (ps : Nat) (src : Bytes) (hps : 0 < ps) (ops : List Op)
    (hs : SafeRun { b := openBuf mode ps src } ops) :
    ∀ o ∈ obsRun { b := openBuf mode ps src } ops, o.st = .ok ∨ o.st = .eof ∨ o.st = .eol ∨ o.st = .einval :=
  totalRun_st ops _ _ (history_total mode ps src hps ops hs)

/-- executable `SafeRun` -/
def safeRunB : Sess → List Op → Bool
  | _, [] => true
  | s, op :: ops => safeB s op && safeRunB (s.step op).2 ops

theorem safeRunB_iff (ops : List Op) : ∀ s, safeRunB s ops = true ↔ SafeRun s ops := by
  induction ops with
  | nil => intro s; simp [safeRunB, SafeRun]
  | cons op ops ih => intro s; simp only [safeRunB, SafeRun, Bool.and_eq_true, safeB_iff, ih]

/-- inside the contract nothing more is asked: a valid operation is safe -/
theorem valid_safe {P : Nat} {a : AState} {s : Sess} (r : R P a s) (op : Op) (hv : Valid P a op) : SafeOp s op := by
  have hp := r.wf.hpos
  cases op with
  | set k =>
    intro i hi
    have hal : a.lastp = some (s.b.base + i) := by rw [← r.lastp, hi]; rfl
    have hv' : s.b.base + i + k ≤ a.cur + min P (a.src.length - a.cur) := hv _ hal
    have hld := r.loaded_ge
    have := r.cur; omega
  | setOffset o =>
    obtain ⟨hvend, hvalt⟩ : (o < a.src.length ∨ (o = a.src.length ∧ a.anchor ≠ none)) ∧
      (a.cur ≤ o ∨ ∃ A, a.anchor = some A ∧ A ≤ o) := hv
    intro x hx hb
    · have hf : s.b.hasfp = true := by
        cases hh : s.b.hasfp with
        | true => rfl
        | false => have := r.nfa hh; rw [hx] at this; cases this
      obtain ⟨r1, _⟩ := r.anch hf
      have hab : s.b.absAnchor = some (s.b.base + x) := by simp [Buf.absAnchor, hx]
      rw [r1] at hab
      rcases hvalt with h | ⟨A, hA, hle⟩
      · have := (r.aanch _ hab).1; omega
      · rw [hab] at hA; cases hA; exact hle
  | setAnchor o =>
    intro _
    have h1 : o ≤ a.cur := hv.1
    left; rw [r.cur]; exact h1
  | setStableAnchor o =>
    intro _
    have h1 : o ≤ a.cur := hv.1
    left; rw [r.cur]; exact h1
  | getLine => trivial
  | fetchLine => trivial
  | fetchLineStr => trivial
  | getToken sep => trivial
  | fetchToken sep => trivial
  | fetchTokenStr sep => trivial
  | read k => trivial
  | get => trivial
  | getOffset => trivial
  | raiseAnchor o => trivial

end EaselModel.Buffer
