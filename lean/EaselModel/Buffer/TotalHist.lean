import EaselModel.Buffer.TotalSetOffset
/-! Whole histories without the API contract. -/
namespace EaselModel.Buffer

/-- **One step, contract or not**: from any state related to a specification state, any of the 14 operations that
    satisfies `CallerOk` yields one of the outcomes of `Total` and a related state again. -/
theorem step_total (P : Nat) (op : Op) (a : AState) (s : Sess) (r : R P a s) (hs : CallerOk s op) : TStep P a s op := by
  cases op with
  | getLine => exact TStep.of_sim (sim_getLine P a s r trivial)
  | fetchLine => exact TStep.of_sim (sim_fetchLine P a s r trivial)
  | fetchLineStr => exact TStep.of_sim (sim_fetchLineStr P a s r trivial)
  | getToken sep => exact TStep.of_sim (sim_getToken P sep a s r trivial)
  | fetchToken sep => exact TStep.of_sim (sim_fetchToken P sep a s r trivial)
  | fetchTokenStr sep => exact TStep.of_sim (sim_fetchTokenStr P sep a s r trivial)
  | read k => exact TStep.of_sim (sim_read P k a s r trivial)
  | get => exact TStep.of_sim (sim_get P a s r trivial)
  | set k => exact total_set P k a s r hs
  | getOffset => exact TStep.of_sim (sim_getOffset P a s r trivial)
  | setOffset o => exact total_setOffset P o a s r hs
  | setAnchor o => exact total_setAnchor P o a s r hs
  | setStableAnchor o => exact total_setStableAnchor P o a s r hs
  | raiseAnchor o => exact TStep.of_sim (sim_raiseAnchor P o a s r trivial)

/-- a history that satisfies `CallerOk` at every step of the run of the model -/
def CallerOkRun : Sess → List Op → Prop
  | _, [] => True
  | s, op :: ops => CallerOk s op ∧ CallerOkRun (s.step op).2 ops

/-- every step of the run is one of the outcomes of `Total`, threading the specification state -/
def TotalRun : AState → Sess → List Op → Prop
  | _, _, [] => True
  | a, s, op :: ops => ∃ a', Total a op (obsOf op (s.step op).1 (s.step op).2) a' ∧ TotalRun a' (s.step op).2 ops

theorem run_total (P : Nat) (ops : List Op) : ∀ (a : AState) (s : Sess), R P a s → CallerOkRun s ops → TotalRun a s ops := by
  induction ops with
  | nil => intro _ _ _ _; trivial
  | cons op ops ih =>
    intro a s r hs
    obtain ⟨a', h1, h2⟩ := step_total P op a s r hs.1
    exact ⟨a', h1, ih a' _ h2 hs.2⟩

/-- **Every history of the 14 operations, no API contract**: on every opener, every page size ≥ 1 and every input,
    each step either simulates the specification or answers the documented `eslEINVAL` leaving the described state. -/
theorem history_total (mode : Mode) (ps : Nat) (src : Bytes) (hps : 0 < ps) (ops : List Op)
    (hs : CallerOkRun { b := openBuf mode ps src } ops) : TotalRun (AState.init src) { b := openBuf mode ps src } ops :=
  run_total ps ops _ _ (open_R mode ps src hps ps (Nat.le_refl _)) hs

theorem totalRun_st (ops : List Op) : ∀ (a : AState) (s : Sess), TotalRun a s ops →
    ∀ o ∈ obsRun s ops, o.st = .ok ∨ o.st = .eof ∨ o.st = .eol ∨ o.st = .einval := by
  induction ops with
  | nil => intro _ _ _ o ho; cases ho
  | cons op ops ih =>
    intro a s ht o ho
    obtain ⟨a', h1, h2⟩ := ht
    rcases List.mem_cons.mp ho with h | h
    · rw [h]; exact h1.st
    · exact ih a' _ h2 o h

/-- … and never faults: no out-of-bounds access, no cursor outside the window, no loop out of fuel, no internal error. -/
theorem history_total_no_fault (mode : Mode) (ps : Nat) (src : Bytes) (hps : 0 < ps) (ops : List Op)
    (hs : CallerOkRun { b := openBuf mode ps src } ops) :
    ∀ o ∈ obsRun { b := openBuf mode ps src } ops, o.st = .ok ∨ o.st = .eof ∨ o.st = .eol ∨ o.st = .einval :=
  totalRun_st ops _ _ (history_total mode ps src hps ops hs)

/-- executable `CallerOkRun` -/
def callerOkRunB : Sess → List Op → Bool
  | _, [] => true
  | s, op :: ops => callerOkB s op && callerOkRunB (s.step op).2 ops

theorem callerOkRunB_iff (ops : List Op) : ∀ s, callerOkRunB s ops = true ↔ CallerOkRun s ops := by
  induction ops with
  | nil => intro s; simp [callerOkRunB, CallerOkRun]
  | cons op ops ih => intro s; simp only [callerOkRunB, CallerOkRun, Bool.and_eq_true, callerOkB_iff, ih]

/-- a history without `Set` is inside `CallerOkRun` whatever its arguments -/
theorem callerOkRun_of_no_set (ops : List Op) (h : ∀ op ∈ ops, ∀ k, op ≠ .set k) : ∀ s, CallerOkRun s ops := by
  induction ops with
  | nil => intro _; trivial
  | cons op ops ih =>
    intro s
    refine ⟨?_, ih (fun o ho => h o (List.mem_cons_of_mem _ ho)) _⟩
    cases op with
    | set k => exact absurd rfl (h (.set k) (List.mem_cons_self) k)
    | _ => trivial

/-- inside the contract nothing more is asked: a valid operation is safe -/
theorem valid_safe {P : Nat} {a : AState} {s : Sess} (r : R P a s) (op : Op) (hv : Valid P a op) : CallerOk s op := by
  have hp := r.wf.hpos
  cases op with
  | set k =>
    intro i hi
    have hal : a.lastp = some (s.b.base + i) := by rw [← r.lastp, hi]; rfl
    have hv' : s.b.base + i + k ≤ a.cur + min P (a.src.length - a.cur) := hv _ hal
    have hld := r.loaded_ge
    have := r.cur; omega
  | setOffset o => trivial
  | setAnchor o => trivial
  | setStableAnchor o => trivial
  | getLine => trivial
  | fetchLine => trivial
  | fetchLineStr => trivial
  | getToken sep => trivial
  | fetchToken sep => trivial
  | fetchTokenStr sep => trivial
  | read k => trivial
  | get => trivial
  | getOffset => trivial
  | raiseAnchor o => trivial

end EaselModel.Buffer
