import EaselModel.Buffer.Tokens2
/-! `esl_buffer_FetchToken`, `FetchTokenAsStr`, `GetToken` refine `specToken`. -/
namespace EaselModel.Buffer

theorem okOrEof_of {st : St} (h : st = .ok ∨ st = .eof) : okOrEof st = true := by
  rcases h with h | h <;> simp [okOrEof, h]

theorem suffix_of_off {b b' : Buf} (hs : b'.src = b.src) (k : Nat) (ho : b'.base + b'.pos = b.base + b.pos + k) :
    b'.abs.suffix = b.abs.suffix.drop k := by
  show b'.src.drop (b'.base + b'.pos) = (b.src.drop (b.base + b.pos)).drop k
  rw [hs, ho, List.drop_drop]

theorem suffix_ne_nil {b : Buf} (h : WF b) (hlt : b.pos < b.n) : b.abs.suffix ≠ [] := by
  show b.src.drop (b.base + b.pos) ≠ []
  rw [h.suffix_win]
  intro hh
  have := congrArg List.length hh
  simp only [List.length_append, win_length, List.length_nil] at this
  omega

theorem suffix_length_ge {b : Buf} (h : WF b) : b.win.length ≤ b.abs.suffix.length := by
  show _ ≤ (b.src.drop (b.base + b.pos)).length
  rw [h.suffix_win, List.length_append]; omega

/-- everything the token functions do before they look at the token itself -/
theorem token_prefix (b : Buf) (sep : Bytes) (h : WF b) :
    let k := runLen (isSep sep) b.abs.suffix
    let s1 := b.abs.suffix.drop k
    let r1 := skipsep b sep
    WF r1.2 ∧ Keep b r1.2 ∧ r1.2.src = b.src ∧ r1.2.base + r1.2.pos = b.base + b.pos + k ∧ r1.2.abs.suffix = s1 ∧
    ((s1 = [] ∧ r1.1 = .eof ∧ PG r1.2) ∨
     (s1 ≠ [] ∧ r1.1 = .ok ∧ r1.2.pos < r1.2.n)) := by
  intro k s1 r1
  obtain ⟨w1, k1, o1, c1⟩ := skipsep_spec b sep h
  have hsuf := suffix_of_off k1.src k o1
  refine ⟨w1, k1, k1.src, o1, hsuf, ?_⟩
  rcases c1 with ⟨c, clt⟩ | ⟨c, ceq, crest⟩
  · right
    refine ⟨?_, c, clt⟩
    show b.abs.suffix.drop k ≠ []
    rw [← hsuf]; exact suffix_ne_nil w1 clt
  · left
    refine ⟨?_, c, Or.inr crest⟩
    show b.abs.suffix.drop k = []
    rw [← hsuf]; exact suffix_nil_of w1 ceq crest

theorem specToken_eof (a : Abs) (sep : Bytes) (h : a.suffix.drop (runLen (isSep sep) a.suffix) = []) :
    specToken a sep = (.eof, [], { a with cur := a.cur + runLen (isSep sep) a.suffix }) := by
  simp [specToken, specTok, h]

theorem specToken_eol (a : Abs) (sep : Bytes) (h : a.suffix.drop (runLen (isSep sep) a.suffix) ≠ [])
    (hn : nlLen (a.suffix.drop (runLen (isSep sep) a.suffix)) ≠ 0) :
    specToken a sep = (.eol, [], { a with cur := a.cur + (runLen (isSep sep) a.suffix +
      nlLen (a.suffix.drop (runLen (isSep sep) a.suffix))) }) := by
  simp [specToken, specTok, h, hn]

theorem specToken_ok (a : Abs) (sep : Bytes) (h : a.suffix.drop (runLen (isSep sep) a.suffix) ≠ [])
    (hn : nlLen (a.suffix.drop (runLen (isSep sep) a.suffix)) = 0) :
    specToken a sep = (.ok, (a.suffix.drop (runLen (isSep sep) a.suffix)).take
        (tokLen sep (a.suffix.drop (runLen (isSep sep) a.suffix))),
      { a with cur := a.cur + (runLen (isSep sep) a.suffix + tokLen sep (a.suffix.drop (runLen (isSep sep) a.suffix)) +
          runLen (isSep sep) ((a.suffix.drop (runLen (isSep sep) a.suffix)).drop
            (tokLen sep (a.suffix.drop (runLen (isSep sep) a.suffix))))) }) := by
  simp [specToken, specTok, h, hn]

theorem fetchToken_refines (b : Buf) (sep : Bytes) (asStr : Bool) (h : WF b) :
    WF (fetchToken b sep asStr).2 ∧
    ((fetchToken b sep asStr).1.st, (fetchToken b sep asStr).1.bytes, (fetchToken b sep asStr).2.abs) = specToken b.abs sep ∧
    (fetchToken b sep asStr).1.n = (fetchToken b sep asStr).1.bytes.length ∧ PG (fetchToken b sep asStr).2 ∧
    ((fetchToken b sep asStr).1.st = .ok → (fetchToken b sep asStr).1.z = asStr) := by
  obtain ⟨w1, k1, hs1, o1, hsuf1, c1⟩ := token_prefix b sep h
  generalize hk : runLen (isSep sep) b.abs.suffix = k at *
  generalize hs1d : b.abs.suffix.drop k = s1 at *
  generalize hsk : skipsep b sep = r1 at *
  obtain ⟨st1, b1⟩ := r1
  simp only [] at w1 k1 hs1 o1 hsuf1 c1
  rcases c1 with ⟨cs, cst, cpg⟩ | ⟨cs, cst, clt⟩
  · -- end of input
    subst cst
    have e : fetchToken b sep asStr = ({ st := .eof }, b1) := by unfold fetchToken; simp only [hsk]
    rw [e, specToken_eof _ _ (by rw [hk, hs1d]; exact cs), hk]
    refine ⟨w1, ?_, rfl, cpg, fun hh => by cases hh⟩
    simp only [Buf.abs, hs1, o1]
  · subst cst
    obtain ⟨w2, k2, pg2, st2e, o2, lt2⟩ := newline_spec b1 w1 clt
    rw [hsuf1] at st2e o2 lt2
    generalize hnl : newline b1 = r2 at *
    obtain ⟨st2, b2⟩ := r2
    simp only [] at w2 k2 pg2 st2e o2 lt2
    by_cases hn : nlLen s1 = 0
    · -- a token
      have hst2 : st2 = .ok := by rw [st2e]; simp [hn]
      subst hst2
      have lt2' := lt2 hn
      rw [hn, Nat.add_zero] at o2
      have hsuf2 : b2.abs.suffix = s1 := by
        rw [suffix_of_off (k2.src) 0 (by rw [o2]; rfl), hsuf1]; rfl
      obtain ⟨a1, a2, a3⟩ := setAnchor_spec b2 (b2.base + b2.pos) w2 (by omega) (Nat.le_refl _)
      generalize hsa : setAnchor b2 (b2.base + b2.pos) = r3 at *
      obtain ⟨st3, b3⟩ := r3
      simp only [] at a1 a2 a3
      subst a1
      obtain ⟨m1, m2, m3, m4, m5⟩ := a2.same
      have lt3 : b3.pos < b3.n := by simp only [Buf.n, m1, m2] at *; exact lt2'
      have hsuf3 : b3.abs.suffix = s1 := by rw [abs_of_frame a2.frame]; exact hsuf2
      obtain ⟨t1, t2, t3, t4, t5, t6⟩ := counttok_spec b3 sep a3 lt3
      rw [hsuf3] at t5
      generalize hct : counttok b3 sep = r4 at *
      obtain ⟨st4, b4, nc⟩ := r4
      simp only [] at t1 t2 t3 t4 t5 t6
      subst t1
      have hsuf4 : b4.abs.suffix = s1 := by rw [abs_of_frame t3]; exact hsuf3
      have hsl := slice_eq t2 nc t6
      have hsl' : slice b4 b4.pos nc = some (s1.take nc) := by rw [hsl]; exact congrArg (fun l => some (List.take nc l)) hsuf4
      have hp4 := t2.hpos
      have hwl4 := win_length b4
      have w5a := advance_wf' t2 nc (by omega)
      obtain ⟨r5a, w5⟩ := raiseAnchor_spec { b4 with pos := b4.pos + nc } (b2.base + b2.pos) w5a
      generalize hb5 : raiseAnchor { b4 with pos := b4.pos + nc } (b2.base + b2.pos) = b5 at *
      obtain ⟨q1, q2, q3, q4, q5⟩ := r5a.same
      obtain ⟨w6, k6, o6, c6⟩ := skipsep_spec b5 sep w5
      have hsuf5 : b5.abs.suffix = s1.drop nc := by
        rw [← hsuf4]
        have q5' : b5.src = b4.src := q5
        have q32 : b5.base + b5.pos = b4.base + b4.pos + nc := by
          rw [q3, q2]; show b4.base + (b4.pos + nc) = _; omega
        exact suffix_of_off q5' nc q32
      rw [hsuf5] at o6
      generalize hsk6 : skipsep b5 sep = r6 at *
      obtain ⟨st6, b6⟩ := r6
      simp only [] at w6 k6 o6 c6
      have hst6 : okOrEof st6 = true := okOrEof_of (by rcases c6 with c | c; exact Or.inl c.1; exact Or.inr c.1)
      have hr7 := refill_post b6 0 w6
      generalize hrf : refill b6 0 = r7 at *
      obtain ⟨st7, b7⟩ := r7
      simp only [] at hr7
      have hst7 : okOrEof st7 = true := okOrEof_of hr7.status
      have e : fetchToken b sep asStr = (({ st := .ok, bytes := s1.take nc, n := nc, z := asStr } : Out), b7) := by
        unfold fetchToken
        simp only [hsk, hnl, hsa, hct, hsl', hb5, hsk6, hst6, hrf, hst7, Bool.not_true, Bool.false_eq_true, if_false]
      rw [e, specToken_ok _ _ (by rw [hk, hs1d]; exact cs) (by rw [hk, hs1d]; exact hn), hk, hs1d, ← t5]
      refine ⟨hr7.wf, ?_, ?_, ?_, fun _ => rfl⟩
      · simp only [Buf.abs, Prod.mk.injEq, true_and]
        have e1 : b7.src = b.src := by
          rw [hr7.frame.src, k6.src, q5]; show b4.src = _; rw [t3.src, m5, k2.src, hs1]
        have e2 : b7.base + b7.pos = b.base + b.pos + (k + nc + runLen (isSep sep) (s1.drop nc)) := by
          have f1 := hr7.frame.off
          have f2 : b5.base + b5.pos = b4.base + (b4.pos + nc) := by rw [q3, q2]
          have f3 := t3.off
          have f4 : b3.base + b3.pos = b2.base + b2.pos := by rw [m3, m2]
          omega
        rw [e1, e2]
      · show nc = (s1.take nc).length
        rw [List.length_take]
        have := suffix_length_ge t2
        rw [hsuf4] at this
        omega
      · show PG b7
        rcases hr7.guarantee (Nat.zero_le _) with g | g
        · left; clear e; omega
        · right; exact g
    · -- a newline
      have hst2 : st2 = .eol := by rw [st2e]; simp [hn]
      subst hst2
      have e : fetchToken b sep asStr = ({ st := .eol }, b2) := by unfold fetchToken; simp only [hsk, hnl]
      rw [e, specToken_eol _ _ (by rw [hk, hs1d]; exact cs) (by rw [hk, hs1d]; exact hn), hk, hs1d]
      refine ⟨w2, ?_, rfl, pg2, fun hh => by cases hh⟩
      simp only [Buf.abs, Prod.mk.injEq, true_and]
      have e1 : b2.src = b.src := by rw [k2.src, hs1]
      have e2 : b2.base + b2.pos = b.base + b.pos + (k + nlLen s1) := by omega
      rw [e1, e2]

theorem setAnchor_prot (b : Buf) (h : WF b) : Prot (setAnchor b (b.base + b.pos)).2 (b.base + b.pos) := by
  have hp := h.hpos
  unfold setAnchor
  split
  · rename_i hf
    refine ⟨Nat.le_add_right _ _, fun hh => ?_⟩
    simp only [Bool.not_eq_true'] at hf
    rw [hf] at hh; cases hh
  · have : ¬ (b.base + b.pos < b.base ∨ b.base + b.pos > b.base + b.n) := by omega
    rw [if_neg this]
    have e : b.base + b.pos - b.base = b.pos := by omega
    rw [e]
    cases ha : b.anchor with
    | none =>
      exact ⟨Nat.le_add_right _ _, fun _ => ⟨b.base + b.pos, by simp [Buf.absAnchor], Nat.le_refl _⟩⟩
    | some a0 =>
      have ha0 := h.hanch a0 ha
      simp only []
      split
      · exact ⟨Nat.le_add_right _ _, fun _ => ⟨b.base + b.pos, by simp [Buf.absAnchor], Nat.le_refl _⟩⟩
      · split
        · exact ⟨Nat.le_add_right _ _, fun _ => ⟨b.base + a0, by simp [Buf.absAnchor, ha], by omega⟩⟩
        · exact ⟨Nat.le_add_right _ _, fun _ => ⟨b.base + a0, by simp [Buf.absAnchor, ha], by omega⟩⟩

/-- reading `nc` bytes at input offset `o` through a pointer into the window -/
theorem slice_at {b : Buf} (h : WF b) (o nc : Nat) (ho : b.base ≤ o) (hfit : o + nc ≤ b.base + b.n) :
    slice b (o - b.base) nc = some ((b.src.drop o).take nc) := by
  unfold slice
  have : o - b.base + nc ≤ b.n := by omega
  rw [if_pos this]
  have e := h.suffix_at (o - b.base) (by omega)
  have e2 : b.base + (o - b.base) = o := by omega
  rw [e2] at e
  rw [e, List.take_append_of_le_length]
  simp only [List.length_drop, Buf.n] at *; omega

theorem getToken_refines (b : Buf) (sep : Bytes) (h : WF b) :
    WF (getToken b sep).2 ∧
    ((getToken b sep).1.st, (getToken b sep).1.bytes, (getToken b sep).2.abs) = specToken b.abs sep ∧
    (getToken b sep).1.n = (getToken b sep).1.bytes.length ∧ PG (getToken b sep).2 := by
  obtain ⟨w1, k1, hs1, o1, hsuf1, c1⟩ := token_prefix b sep h
  generalize hk : runLen (isSep sep) b.abs.suffix = k at *
  generalize hs1d : b.abs.suffix.drop k = s1 at *
  generalize hsk : skipsep b sep = r1 at *
  obtain ⟨st1, b1⟩ := r1
  simp only [] at w1 k1 hs1 o1 hsuf1 c1
  rcases c1 with ⟨cs, cst, cpg⟩ | ⟨cs, cst, clt⟩
  · -- end of input
    subst cst
    have e : getToken b sep = ({ st := .eof }, b1) := by unfold getToken; simp only [hsk]
    rw [e, specToken_eof _ _ (by rw [hk, hs1d]; exact cs), hk]
    refine ⟨w1, ?_, rfl, cpg⟩
    simp only [Buf.abs, hs1, o1]
  · subst cst
    obtain ⟨w2, k2, pg2, st2e, o2, lt2⟩ := newline_spec b1 w1 clt
    rw [hsuf1] at st2e o2 lt2
    generalize hnl : newline b1 = r2 at *
    obtain ⟨st2, b2⟩ := r2
    simp only [] at w2 k2 pg2 st2e o2 lt2
    by_cases hn : nlLen s1 = 0
    · -- a token
      have hst2 : st2 = .ok := by rw [st2e]; simp [hn]
      subst hst2
      have lt2' := lt2 hn
      rw [hn, Nat.add_zero] at o2
      have hsuf2 : b2.abs.suffix = s1 := by
        rw [suffix_of_off (k2.src) 0 (by rw [o2]; rfl), hsuf1]; rfl
      obtain ⟨a1, a2, a3⟩ := setAnchor_spec b2 (b2.base + b2.pos) w2 (by omega) (Nat.le_refl _)
      generalize hsa : setAnchor b2 (b2.base + b2.pos) = r3 at *
      obtain ⟨st3, b3⟩ := r3
      simp only [] at a1 a2 a3
      subst a1
      obtain ⟨m1, m2, m3, m4, m5⟩ := a2.same
      have lt3 : b3.pos < b3.n := by simp only [Buf.n, m1, m2] at *; exact lt2'
      have hsuf3 : b3.abs.suffix = s1 := by rw [abs_of_frame a2.frame]; exact hsuf2
      obtain ⟨t1, t2, t3, t4, t5, t6⟩ := counttok_spec b3 sep a3 lt3
      rw [hsuf3] at t5
      generalize hct : counttok b3 sep = r4 at *
      obtain ⟨st4, b4, nc⟩ := r4
      simp only [] at t1 t2 t3 t4 t5 t6
      subst t1
      have hsuf4 : b4.abs.suffix = s1 := by rw [abs_of_frame t3]; exact hsuf3
      have hp4 := t2.hpos
      have hwl4 := win_length b4
      have w5 := advance_wf' t2 nc (by omega)
      generalize hb5 : ({ b4 with pos := b4.pos + nc } : Buf) = b5 at *
      have q5 : b5.src = b4.src := by rw [← hb5]
      have q32 : b5.base + b5.pos = b4.base + b4.pos + nc := by rw [← hb5]; show b4.base + (b4.pos + nc) = _; omega
      have k45 : Keep b4 b5 := by rw [← hb5]; exact setpos_keep b4 _
      obtain ⟨w6, k6, o6, c6⟩ := skipsep_spec b5 sep w5
      have hsuf5 : b5.abs.suffix = s1.drop nc := by
        rw [← hsuf4]; exact suffix_of_off q5 nc q32
      rw [hsuf5] at o6
      generalize hsk6 : skipsep b5 sep = r6 at *
      obtain ⟨st6, b6⟩ := r6
      simp only [] at w6 k6 o6 c6
      have hst6 : okOrEof st6 = true := okOrEof_of (by rcases c6 with c | c; exact Or.inl c.1; exact Or.inr c.1)
      have hr7 := refill_post b6 0 w6
      have k67 := refill_keep b6 0 w6
      generalize hrf : refill b6 0 = r7 at *
      obtain ⟨st7, b7⟩ := r7
      simp only [] at hr7 k67
      have hst7 : okOrEof st7 = true := okOrEof_of hr7.status
      -- the anchor set at the token start has kept the token in the window
      have hprot3 : Prot b3 (b2.base + b2.pos) := by
        have := setAnchor_prot b2 w2
        rw [hsa] at this; exact this
      have hprot7 : Prot b7 (b2.base + b2.pos) := hprot3.keep (((t4.trans k45).trans k6).trans k67)
      have hbase7 : ¬ (b2.base + b2.pos < b7.base) := by have := hprot7.1; omega
      have hoff7 : b7.base + b7.pos = b2.base + b2.pos + nc + runLen (isSep sep) (s1.drop nc) := by
        have f1 := hr7.frame.off
        have f3 := t3.off
        have f4 : b3.base + b3.pos = b2.base + b2.pos := by rw [m3, m2]
        omega
      have hsrc7 : b7.src = b2.src := by
        rw [hr7.frame.src, k6.src, q5, t3.src, m5]
      have hsl' : slice b7 (b2.base + b2.pos - b7.base) nc = some (s1.take nc) := by
        have hp7 := hr7.wf.hpos
        rw [slice_at hr7.wf (b2.base + b2.pos) nc hprot7.1 (by omega), hsrc7]
        have : b2.src.drop (b2.base + b2.pos) = s1 := hsuf2
        rw [this]
      obtain ⟨r8a, w8⟩ := raiseAnchor_spec b7 (b2.base + b2.pos) hr7.wf
      have e : getToken b sep = (({ st := .ok, bytes := s1.take nc, n := nc, p := some (b2.base + b2.pos - b7.base) } : Out),
          raiseAnchor b7 (b2.base + b2.pos)) := by
        unfold getToken
        simp only [hsk, hnl, hsa, hct, hb5, hsk6, hst6, hrf, hst7, Bool.not_true, Bool.false_eq_true, if_false, hbase7, hsl']
      rw [e, specToken_ok _ _ (by rw [hk, hs1d]; exact cs) (by rw [hk, hs1d]; exact hn), hk, hs1d, ← t5]
      refine ⟨w8, ?_, ?_, ?_⟩
      · simp only [Buf.abs, Prod.mk.injEq, true_and]
        obtain ⟨z1, z2, z3, z4, z5⟩ := r8a.same
        have e1 : (raiseAnchor b7 (b2.base + b2.pos)).src = b.src := by
          rw [z5, hsrc7, k2.src, hs1]
        have e2 : (raiseAnchor b7 (b2.base + b2.pos)).base + (raiseAnchor b7 (b2.base + b2.pos)).pos =
            b.base + b.pos + (k + nc + runLen (isSep sep) (s1.drop nc)) := by
          rw [z3, z2]; omega
        rw [e1, e2]
      · show nc = (s1.take nc).length
        rw [List.length_take]
        have := suffix_length_ge t2
        rw [hsuf4] at this
        omega
      · obtain ⟨z1, z2, z3, z4, z5⟩ := r8a.same
        have zn : (raiseAnchor b7 (b2.base + b2.pos)).n = b7.n := by simp [Buf.n, z1]
        have zp : (raiseAnchor b7 (b2.base + b2.pos)).pagesize = b7.pagesize := r8a.frame.ps
        rcases hr7.guarantee (Nat.zero_le _) with g | g
        · left; rw [zn, zp, z2]; clear e; omega
        · right; rw [z4]; exact g
    · -- a newline
      have hst2 : st2 = .eol := by rw [st2e]; simp [hn]
      subst hst2
      have e : getToken b sep = ({ st := .eol }, b2) := by unfold getToken; simp only [hsk, hnl]
      rw [e, specToken_eol _ _ (by rw [hk, hs1d]; exact cs) (by rw [hk, hs1d]; exact hn), hk, hs1d]
      refine ⟨w2, ?_, rfl, pg2⟩
      simp only [Buf.abs, Prod.mk.injEq, true_and]
      have e1 : b2.src = b.src := by rw [k2.src, hs1]
      have e2 : b2.base + b2.pos = b.base + b.pos + (k + nlLen s1) := by omega
      rw [e1, e2]

end EaselModel.Buffer
