import EaselModel.Buffer.SimAnchors
import EaselModel.Buffer.TokenSim
/-! Simulation of `Set` and `SetOffset`. -/
namespace EaselModel.Buffer

/-- `R.of_keepA` for operations that may move the cursor backwards (but not before the anchor) -/
theorem R.of_keepA' {P : Nat} {a a' : AState} {s s' : Sess} (r : R P a s)
    (wf : WF s'.b) (pg : PG s'.b) (k : KeepA s.b s'.b) (aok : AnchOK s'.b)
    (hsrc : a'.src = a.src) (hanch : a'.anchor = a.anchor) (hnanch : a'.nanchor = a.nanchor)
    (hcur : s'.b.base + s'.b.pos = a'.cur)
    (hlp : s'.lastp = none) (hlp' : a'.lastp = none) : R P a' s' := by
  refine ⟨wf, pg, aok, r.nfa.keepA k, by rw [k.src, r.src, hsrc], hcur, by rw [k.ps]; exact r.ps, ?_, ?_, ?_, ?_, by rw [hlp, hlp']; rfl, ?_⟩
  · rw [k.hasfp, k.mode]; exact r.modefp
  · intro hf
    rw [k.hasfp] at hf
    rw [(k.nofp hf).1]; exact r.base0 hf
  · intro hf
    rw [k.hasfp] at hf
    obtain ⟨r1, r2⟩ := r.anch hf
    refine ⟨by rw [k.anch, r1, hanch], fun hne => ?_⟩
    rw [hanch] at hne
    rw [hnanch, ← r2 hne]
    apply k.nanch
    intro hnone
    apply hne
    rw [← r1]; exact (absAnchor_eq_none s.b).mpr hnone
  · intro A hA'
    rw [hanch] at hA'
    rw [hnanch]
    exact r.aanch A hA'
  · intro p hp; rw [hlp'] at hp; cases hp

/-- the concrete anchor is at or before any window position whose input offset is at or after the abstract anchor -/
theorem R.anchor_le {P : Nat} {a : AState} {s : Sess} (r : R P a s) (i : Nat)
    (h : ∀ A, a.anchor = some A → A ≤ s.b.base + i) : ∀ x, s.b.anchor = some x → x ≤ i := by
  intro x hx
  cases hf : s.b.hasfp with
  | false => rw [r.nfa hf] at hx; cases hx
  | true =>
    obtain ⟨r1, _⟩ := r.anch hf
    have : s.b.absAnchor = some (s.b.base + x) := by simp [Buf.absAnchor, hx]
    rw [r1] at this
    have := h _ this
    omega

/-- what is loaded behind the cursor covers one guaranteed page, or everything that is left -/
theorem R.loaded_ge {P : Nat} {a : AState} {s : Sess} (r : R P a s) :
    min P (a.src.length - a.cur) ≤ s.b.n - s.b.pos := by
  have hs : s.b.abs.suffix.length = (s.b.n - s.b.pos) + s.b.rest.length := suffix_length r.wf
  rw [r.abs_eq] at hs
  have hl : a.abs.suffix.length = a.src.length - a.cur := abs_suffix_length a.abs
  have := r.ps
  rcases r.pg with g | g
  · omega
  · rw [g] at hs; simp only [List.length_nil] at hs; omega

theorem set_tail {P : Nat} {a : AState} {s : Sess} (r : R P a s) (k : Nat) (b1 : Buf) (c : Nat)
    (w1 : WF b1) (k1 : Keep s.b b1) (hcur1 : b1.base + b1.pos = c)
    (e : set s.b s.lastp k = (({ st := if okOrEof (refill b1 0).1 then .ok else (refill b1 0).1 } : Out), (refill b1 0).2))
    (es : specStep a (.set k) = (⟨.ok, [], c⟩, { a with cur := c, lastp := none })) :
    obsOf (.set k) (s.step (.set k)).1 (s.step (.set k)).2 = (specStep a (.set k)).1 ∧
    R P (specStep a (.set k)).2 (s.step (.set k)).2 := by
  have hr := refill_post b1 0 w1
  have hk := refill_keep b1 0 w1
  have hst : okOrEof (refill b1 0).1 = true := okOrEof_of hr.status
  rw [hst] at e
  rw [es]
  have hb : (s.step (.set k)).2.b = (refill b1 0).2 := by rw [step_b]; show (set s.b s.lastp k).2 = _; rw [e]
  have ho : (s.step (.set k)).1 = ({ st := .ok } : Out) := by rw [step_out]; show (set s.b s.lastp k).1 = _; rw [e]; rfl
  have hoff : (refill b1 0).2.base + (refill b1 0).2.pos = c := by rw [hr.frame.off]; exact hcur1
  refine ⟨?_, ?_⟩
  · show (⟨(s.step (.set k)).1.st, [], (s.step (.set k)).2.b.base + (s.step (.set k)).2.b.pos⟩ : Obs) = _
    rw [ho, hb, hoff]
  · refine r.of_keepA' (s' := (s.step (.set k)).2) (a' := { a with cur := c, lastp := none })
      (by rw [hb]; exact hr.wf) ?_ (by rw [hb]; exact (k1.trans hk).toKeepA) (by rw [hb]; exact r.aok.keep (k1.trans hk))
      rfl rfl rfl (by rw [hb]; exact hoff) ?_ rfl
    · rw [hb]
      rcases hr.guarantee (Nat.zero_le _) with g | g
      · left; omega
      · right; exact g
    · rw [step_lastp]; show (set s.b s.lastp k).1.p = none; exact set_p _ _ _

theorem sim_set (P : Nat) (k : Nat) : SimStep P (.set k) := by
  intro a s r hv
  have hp := r.wf.hpos
  have hld := r.loaded_ge
  cases hl : s.lastp with
  | none =>
    have hal : a.lastp = none := by rw [← r.lastp, hl]; rfl
    refine set_tail r k s.b a.cur r.wf (Keep.refl _) r.cur (by rw [hl]; rfl) ?_
    unfold specStep; simp only [hal]
  | some i =>
    have hal : a.lastp = some (s.b.base + i) := by rw [← r.lastp, hl]; rfl
    have hv' : s.b.base + i + k ≤ a.cur + min P (a.src.length - a.cur) := hv _ hal
    have l1 := r.lastp_le _ hal
    have hik : i + k ≤ s.b.n := by have := r.cur; omega
    refine set_tail r k { s.b with pos := i + k } (s.b.base + i + k) ?_ (setpos_keep s.b _) ?_ (by rw [hl]; rfl) ?_
    · exact ⟨r.wf.hwin, hik, r.wf.hanch, r.wf.hps, r.wf.heof, r.wf.hnofp⟩
    · show s.b.base + (i + k) = _; omega
    · unfold specStep; simp only [hal]

end EaselModel.Buffer
