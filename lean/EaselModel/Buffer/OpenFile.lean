import EaselModel.Buffer.Model
import EaselModel.Buffer.OpenConsts
/-! # C05 — the opening / closing logic of `esl_buffer.c` (hand-written model, kind H; core Lean only)

Mirrors `esl_buffer_Open`, `esl_buffer_OpenFile`, `esl_buffer_OpenPipe`, `esl_buffer_OpenStream`, `esl_buffer_OpenMem`,
`esl_buffer_Close`, `buffer_create`, `buffer_init_file_{mmap,slurped,basic}` and, from `easel.c`, `esl_FileExists` and
`esl_FileEnvOpen`. The operating system is a parameter:

* `FS`  : finite map path → contents (readable regular files only; `stat`/`fopen` succeed iff the path is a key);
* `Env` : finite map variable → value (`getenv`; an unset variable is not an empty one);
* `run : Bytes → Bytes × Bool` : what the pipe command writes to its stdout for a given file content, and whether it exits 0;
* `Cfg` : `st_blksize` reported by `fstat`, whether `_POSIX_VERSION` is defined, and the two verification hooks (H1).

Every opener returns its status, the `ESL_BUFFER` it hands back seen as a resource record (`CBuf`: which pointers are
non-NULL, `mode_is`), the initial window (`Buf` of `Model.lean`, built by the existing `openBuf`) together with the bytes
it delivers, and the list of acquire/release actions it performed. The constants come from `OpenConsts.lean`, which
every check regenerates from the working tree. -/
namespace EaselModel.Buffer.OpenFile
open EaselModel.Buffer EaselModel.Buffer.OpenConsts

/-- a C string without its terminator -/
abbrev CStr := Bytes
abbrev FS := List (CStr × Bytes)
abbrev Env := List (CStr × CStr)

def fsRead (fs : FS) (p : CStr) : Option Bytes := List.lookup p fs
/-- `esl_FileExists(path)`; also `fopen(path, "r") != NULL` -/
def fileExists (fs : FS) (p : CStr) : Bool := (fsRead fs p).isSome
def getenv (env : Env) (name : CStr) : Option CStr := List.lookup name env

def SLASH : UInt8 := 47
def COLON : UInt8 := 58
def dash : CStr := [45]
def dotGz : CStr := [46, 103, 122]

inductive OSt where
  | ok | enotfound | fail | esys | fault
  deriving DecidableEq, Repr, Inhabited

/-! ## resources -/

/-- what the openers acquire: the `ESL_BUFFER` itself, `bf->mem` from `malloc`, `bf->mem` from `mmap`, a `FILE*` from
    `fopen`, a `FILE*` from `popen`, `bf->filename`, `bf->cmdline`, the local `cmd` of OpenPipe, the local `path` of
    Open, and the `dirlist` copy / the probing `FILE*` inside `esl_FileEnvOpen` -/
inductive Rsrc where
  | bf | mem | map | file | pipe | filename | cmdline | cmd | path | dirlist | envfp
  deriving DecidableEq, Repr

/-- `acq`: malloc / mmap / fopen / popen / strdup; `rel`: the matching free / munmap / fclose / pclose -/
inductive Act where
  | acq (r : Rsrc) | rel (r : Rsrc)
  deriving DecidableEq, Repr

inductive ModeIs where
  | unset | stream | cmdpipe | file | allfile | mmap | string
  deriving DecidableEq, Repr, Inhabited

/-- the fields of `ESL_BUFFER` that `esl_buffer_Close` looks at -/
structure CBuf where
  mode_is : ModeIs := .unset
  mem : Bool := false              -- bf->mem != NULL
  fp : Bool := false               -- bf->fp != NULL
  filename : Option CStr := none
  cmdline : Bool := false
  pagesize : Nat
  errmsg : Bool := false           -- bf->errmsg[0] != 0
  deriving DecidableEq, Repr

/-- `esl_buffer_Close(bf)`, `bf != NULL` -/
def closeActs (c : CBuf) : List Act :=
  (if c.mem then
     match c.mode_is with
     | .mmap => [.rel .map]                  -- munmap(bf->mem, bf->n)
     | .string => []                         -- caller's memory
     | _ => [.rel .mem]                      -- free(bf->mem)
   else [])
  ++ (if c.fp then
     match c.mode_is with
     | .cmdpipe => [.rel .pipe]              -- pclose
     | .stream => []                         -- caller's stream
     | _ => [.rel .file]                     -- fclose
   else [])
  ++ (if c.filename.isSome then [.rel .filename] else [])
  ++ (if c.cmdline then [.rel .cmdline] else [])
  ++ [.rel .bf]

/-- `esl_buffer_Close(bf)` including `bf == NULL` -/
def closeOpt : Option CBuf → List Act
  | none => []
  | some c => closeActs c

/-- run a trace over the set of live resources: acquiring a live one or releasing a dead one is an error (`none`) -/
def runActs : List Rsrc → List Act → Option (List Rsrc)
  | live, [] => some live
  | live, .acq r :: t => if r ∈ live then none else runActs (r :: live) t
  | live, .rel r :: t => if r ∈ live then runActs (live.erase r) t else none

/-- every acquired resource is released exactly once, nothing else is released, nothing is left -/
def balanced (t : List Act) : Bool := runActs [] t == some []

/-! ## results -/

structure OpenOut where
  st : OSt
  /-- `*ret_bf` (`none` = NULL) -/
  c : Option CBuf := none
  /-- on success: the initial window and the bytes it delivers -/
  b : Option (Buf × Bytes) := none
  trace : List Act := []
  deriving DecidableEq, Repr

structure Cfg where
  /-- hook `esl_verif_buffer_pagesize` (0 = off) -/
  hookPs : Nat := 0
  /-- hook `esl_verif_buffer_forcemode` -/
  force : Option Mode := none
  /-- `st_blksize` of `fstat` -/
  blksize : Nat := 4096
  /-- `_POSIX_VERSION` defined: `fstat`, `mmap` available -/
  posix : Bool := true
  deriving Repr

/-- `bf->pagesize` after `buffer_create` -/
def createPs (cfg : Cfg) : Nat := if cfg.hookPs > 0 then cfg.hookPs else pageSize

/-- `if (pagesize < 512) pagesize = 512; if (pagesize > 4194304) pagesize = 4194304;` -/
def clampPs (blk : Nat) : Nat :=
  let p := if blk < clampLo then clampLo else blk
  if p > clampHi then clampHi else p

/-- `bf->pagesize` in `esl_buffer_OpenFile` after the `fstat` block and the hook -/
def filePs (cfg : Cfg) : Nat :=
  if cfg.hookPs > 0 then cfg.hookPs else if cfg.posix then clampPs cfg.blksize else pageSize

/-- the `if / else if / else` on `filesize` at the end of `esl_buffer_OpenFile` (`filesize = -1`: no `fstat`) -/
def chooseMode (posix : Bool) (filesize : Int) : Mode :=
  if filesize ≠ -1 ∧ filesize ≤ (slurpSize : Int) then .allfile
  else if posix ∧ filesize > (slurpSize : Int) then .mmap
  else .file

/-- the buffer handed back on a normal error: UNSET state, error message -/
def unsetErr (ps : Nat) : CBuf := { pagesize := ps, errmsg := true }

/-! ## esl_buffer_OpenFile -/

def openFile (cfg : Cfg) (fs : FS) (filename : CStr) : OpenOut :=
  match fsRead fs filename with
  | none =>
    -- fopen failed: ESL_XFAIL(eslENOTFOUND); ERROR: status == eslENOTFOUND, nothing to release, pagesize reset
    { st := .enotfound, c := some (unsetErr pageSize), trace := [.acq .bf] }
  | some src =>
    let filesize : Int := if cfg.posix then (src.length : Int) else -1
    let ps := filePs cfg
    let pre : List Act := [.acq .bf, .acq .file, .acq .filename]
    let mode : Mode :=
      match (if filesize ≠ -1 then cfg.force else none) with
      | some .allfile => .allfile
      | some .mmap => .mmap
      | some _ => .file
      | none => chooseMode cfg.posix filesize
    match mode with
    | .allfile =>
      -- buffer_init_file_slurped: filesize > 0 ? malloc + fread : mem = NULL; fclose(fp); fp = NULL
      { st := .ok,
        c := some { mode_is := .allfile, mem := decide (0 < src.length), filename := some filename, pagesize := ps },
        b := some (openBuf .allfile ps src, src),
        trace := pre ++ (if 0 < src.length then [.acq .mem] else []) ++ [.rel .file] }
    | .mmap =>
      if src.length = 0 then
        -- mmap(0, 0, ...) fails (EINVAL): ESL_XEXCEPTION(eslESYS); OpenFile's ERROR block: esl_buffer_Close(bf); *ret_bf = NULL
        { st := .esys, c := none,
          trace := pre ++ closeActs { mode_is := .unset, fp := true, filename := some filename, pagesize := ps } }
      else
        { st := .ok,
          c := some { mode_is := .mmap, mem := true, filename := some filename, pagesize := ps },
          b := some (openBuf .mmap ps src, src),
          trace := pre ++ [.acq .map, .rel .file] }
    | _ =>
      -- buffer_init_file_basic: malloc a page, first fread, fp stays open
      { st := .ok,
        c := some { mode_is := .file, mem := true, fp := true, filename := some filename, pagesize := ps },
        b := some (openBuf .file ps src, src),
        trace := pre ++ [.acq .mem] }

/-! ## esl_buffer_OpenPipe -/

/-- `filename = none` is the NULL filename (the command is complete; it then reads no file of the model: input `[]`) -/
def openPipe (cfg : Cfg) (fs : FS) (run : Bytes → Bytes × Bool) (filename : Option CStr) : OpenOut :=
  let ps := createPs cfg
  let go (input : Bytes) : OpenOut :=
    let out := (run input).1
    let exitOk := (run input).2
    let fnA : List Act := if filename.isSome then [.acq .filename] else []
    let fnR : List Act := if filename.isSome then [.rel .filename] else []
    let acqs : List Act := [.acq .bf, .acq .cmd, .acq .pipe, .acq .cmdline] ++ fnA ++ [.acq .mem]
    if min ps out.length < ps then            -- bf->n < bf->pagesize: short first read, pclose() now
      if !exitOk then
        -- pclose != 0: fp = NULL; ESL_XFAIL(eslFAIL); ERROR: free mem, filename, cmdline; free(cmd); UNSET buffer returned
        { st := .fail, c := some (unsetErr ps),
          trace := acqs ++ [.rel .pipe, .rel .mem] ++ fnR ++ [.rel .cmdline, .rel .cmd] }
      else
        { st := .ok,
          c := some { mode_is := .allfile, mem := true, fp := false, filename := filename, cmdline := true, pagesize := ps },
          b := some (openBuf .cmdpipe ps out, out),
          trace := acqs ++ [.rel .pipe, .rel .cmd] }
    else
      { st := .ok,
        c := some { mode_is := .cmdpipe, mem := true, fp := true, filename := filename, cmdline := true, pagesize := ps },
        b := some (openBuf .cmdpipe ps out, out),
        trace := acqs ++ [.rel .cmd] }
  match filename with
  | some f =>
    match fsRead fs f with
    | none => { st := .enotfound, c := some (unsetErr ps), trace := [.acq .bf] }     -- !esl_FileExists(filename)
    | some input => go input
  | none => go []

/-! ## esl_buffer_OpenStream, esl_buffer_OpenMem -/

def openStream (cfg : Cfg) (stream : Bytes) : OpenOut :=
  let ps := createPs cfg
  { st := .ok, c := some { mode_is := .stream, mem := true, fp := true, pagesize := ps },
    b := some (openBuf .stream ps stream, stream), trace := [.acq .bf, .acq .mem] }

def openMem (cfg : Cfg) (p : Bytes) : OpenOut :=
  let ps := createPs cfg
  { st := .ok, c := some { mode_is := .string, mem := true, pagesize := ps },
    b := some (openBuf .string ps p, p), trace := [.acq .bf] }

/-! ## esl_FileEnvOpen -/

/-- the `strchr(s, ':')` tokenisation: `"a::b"` ↦ `["a", "", "b"]`, `""` ↦ `[""]` -/
def splitColon : CStr → List CStr
  | [] => [[]]
  | c :: cs =>
    if c = COLON then [] :: splitColon cs
    else match splitColon cs with
      | [] => [[c]]
      | d :: ds => (c :: d) :: ds

/-- `snprintf(path, np, "%s%c%s", dir, '/', fname)` (`np` is an upper bound: never truncated) -/
def envPath (dir fname : CStr) : CStr := dir ++ [SLASH] ++ fname

/-- the `while (s != NULL)` loop: the first directory whose path can be opened -/
def envLoop (fs : FS) (fname : CStr) : List CStr → Option CStr
  | [] => none
  | d :: ds => if fileExists fs (envPath d fname) then some (envPath d fname) else envLoop fs fname ds

/-- `esl_FileEnvOpen(fname, env, NULL, &path)`: `none` = eslENOTFOUND -/
def fileEnvOpen (fs : FS) (env : Env) (fname : CStr) (envvar : Option CStr) : Option CStr × List Act :=
  match envvar with
  | none => (none, [])                               -- env == NULL
  | some v =>
    match getenv env v with
    | none => (none, [])                             -- getenv(env) == NULL
    | some s =>
      match envLoop fs fname (splitColon s) with
      | some p => (some p, [.acq .dirlist, .acq .path, .acq .envfp, .rel .envfp, .rel .dirlist])
      | none => (none, [.acq .dirlist, .acq .path, .rel .path, .rel .dirlist])

/-! ## esl_buffer_Open -/

/-- the loop of `strcmp(mem + i, t ++ "\0")` reading `mem` through a bounds-checked accessor: `none` = out of bounds -/
def strcmpLoop (mem : Bytes) : Nat → Bytes → Option Bool
  | _, [] => some true
  | i, c :: cs =>
    match mem[i]? with
    | none => none
    | some a => if a ≠ c then some false else if c = 0 then some true else strcmpLoop mem (i + 1) cs

/-- `strcmp(s + i, t) == 0` for C strings `s`, `t`; the object behind `s` is exactly `s ++ [0]` -/
def strcmpEqAt (s : CStr) (i : Nat) (t : CStr) : Option Bool := strcmpLoop (s ++ [0]) i (t ++ [0])

/-- `n = strlen(path); if (n > 3 && strcmp(filename+n-3, ".gz") == 0)`; with `usesPath` the repaired test
    `strcmp(path+n-3, ".gz")`. `none` = the read is outside the string `filename` -/
def gzTest (usesPath : Bool) (filename path : CStr) : Option Bool :=
  let n := path.length
  if n > 3 then strcmpEqAt (if usesPath then path else filename) (n - 3) dotGz else some false

/-- the path `esl_buffer_Open` settles on (current directory first, then the directory list) and the actions so far -/
def findPath (fs : FS) (env : Env) (filename : CStr) (envvar : Option CStr) : Option CStr × List Act :=
  if fileExists fs filename then (some filename, [.acq .path])          -- esl_strdup(filename, -1, &path)
  else fileEnvOpen fs env filename envvar

/-- `esl_buffer_Open(filename, envvar, &bf)`; `gunzip` is what `gzip -dc <file> 2>/dev/null` does to a file content -/
def openAny (usesPath : Bool) (cfg : Cfg) (fs : FS) (env : Env) (gunzip : Bytes → Bytes × Bool) (stdin : Bytes)
    (filename : CStr) (envvar : Option CStr) : OpenOut :=
  if filename = dash then openStream cfg stdin
  else
    match findPath fs env filename envvar with
    | (none, t) =>
      -- esl_buffer_OpenFile(filename, ret_bf); goto ERROR  (path is NULL)
      let r := openFile cfg fs filename
      { r with trace := t ++ r.trace }
    | (some path, t) =>
      match gzTest usesPath filename path with
      | none => { st := .fault, trace := t }
      | some true =>
        let r := openPipe cfg fs gunzip (some path)
        { r with trace := t ++ r.trace ++ [.rel .path] }
      | some false =>
        let r := openFile cfg fs path
        { r with trace := t ++ r.trace ++ [.rel .path] }

/-- the working tree's `esl_buffer_Open` -/
def openTree := openAny gzTestUsesPath

/-! ## the strings returned by FetchLineAsStr / FetchTokenAsStr -/

/-- the block `ESL_ALLOC(s, nc + 1); memcpy(s, p, nc); s[nc] = '\0'` -/
def asStrAlloc (bytes : Bytes) : Bytes := bytes ++ [0]

/-- `strlen` over an allocated block (`none`: no NUL inside the block) -/
def strlenIn : Bytes → Option Nat
  | [] => none
  | c :: cs => if c = 0 then some 0 else (strlenIn cs).map (· + 1)

/-- `esl_buffer_FetchLineAsStr`: the allocated string (when the status is eslOK), `*opt_n`, the new buffer -/
def fetchLineAsStr (b : Buf) : St × Option Bytes × Nat × Buf :=
  let r := fetchLine b true
  if r.1.st = .ok then (.ok, some (asStrAlloc r.1.bytes), r.1.n, r.2) else (r.1.st, none, 0, r.2)

/-- `esl_buffer_FetchTokenAsStr` -/
def fetchTokenAsStr (b : Buf) (sep : Bytes) : St × Option Bytes × Nat × Buf :=
  let r := fetchToken b sep true
  if r.1.st = .ok then (.ok, some (asStrAlloc r.1.bytes), r.1.n, r.2) else (r.1.st, none, 0, r.2)

end EaselModel.Buffer.OpenFile
