import EaselModel.Buffer.Open
/-! # Stable anchors: exactly when a refill keeps the pointers valid; plain anchors do not promise it

`memgen` counts the events that invalidate pointers into the window (a `memmove` by a non-zero distance, a `realloc`). -/
namespace EaselModel.Buffer

/-- under a stable anchor (anchor at window position 0) the "shift left" block of `buffer_refill` never moves a byte -/
theorem shiftLeft_stable (b : Buf) (ha : b.anchor = some 0) :
    ∃ b1, shiftLeft b = some b1 ∧ b1.memgen = b.memgen ∧ b1.n = b.n ∧ b1.pagesize = b.pagesize ∧ b1.balloc = b.balloc ∧
      b1.stab = b.stab := by
  unfold shiftLeft
  by_cases hpin : pinned b = true
  · rw [if_pos hpin]; exact ⟨b, rfl, rfl, rfl, rfl, rfl, rfl⟩
  rw [if_neg hpin]
  unfold shiftLeft0
  split
  · rw [ha]
    simp only [Nat.zero_le, if_true]
    refine ⟨_, rfl, ?_, ?_, rfl, rfl, rfl⟩
    · show (if 0 < 0 ∧ 0 < b.n then b.memgen + 1 else b.memgen) = b.memgen
      rw [if_neg (by omega)]
    · show (b.mem.drop 0).length = b.mem.length
      rw [List.drop_zero]
  · exact ⟨b, rfl, rfl, rfl, rfl, rfl, rfl⟩

/-- **Pointer validity under a stable anchor — the repaired code (fix C05-stable-anchor-keep-oldmem).** While `bf->stable` is set
    (`pinned`: the working tree has the repair and a stable anchor holds) NO `buffer_refill`, whatever it has to read and
    however little room is left, moves or frees a byte that was handed out: the shift is skipped and the window grows into a
    new block while the old one is kept. No hypothesis on the window, the anchor position, `nmin` or the room. -/
theorem refill_pinned (b : Buf) (nmin : Nat) (hpin : pinned b = true) :
    (refill b nmin).2.memgen = b.memgen ∧ (refill b nmin).2.stab = b.stab ∧ (refill b nmin).2.base = b.base ∧
      b.mem <+: (refill b nmin).2.mem := by
  unfold refill
  split
  · exact ⟨rfl, rfl, rfl, List.prefix_refl _⟩
  · split
    · exact ⟨rfl, rfl, rfl, List.prefix_refl _⟩
    · split
      · exact ⟨rfl, rfl, rfl, List.prefix_refl _⟩
      · have hs : shiftLeft b = some b := by unfold shiftLeft; rw [if_pos hpin]
        rw [hs]
        have hg : (grow b).memgen = b.memgen ∧ (grow b).stab = b.stab ∧ (grow b).base = b.base ∧ (grow b).mem = b.mem := by
          unfold grow; rw [if_pos hpin]; unfold growR; split <;> exact ⟨rfl, rfl, rfl, rfl⟩
        refine ⟨?_, ?_, ?_, ?_⟩
        · show (grow b).memgen = _; exact hg.1
        · show (grow b).stab = _; exact hg.2.1
        · show (grow b).base = _; exact hg.2.2.1
        · show b.mem <+: (grow b).mem ++ _
          rw [hg.2.2.2]; exact List.prefix_append _ _

/-- … and the window never outgrows twice what it has to hold: after a pinned refill `balloc ≤ max (old balloc) (2·(n+pagesize))`
    — the retired blocks (each at most half the next) sum to less than the live one -/
theorem grow_pinned_bound (b : Buf) (hpin : pinned b = true) :
    (grow b).balloc ≤ max b.balloc (2 * (b.n + b.pagesize)) ∧ b.n + b.pagesize ≤ max b.balloc (grow b).balloc ∧
      (b.balloc < (grow b).balloc → 2 * b.balloc ≤ (grow b).balloc) := by
  unfold grow; rw [if_pos hpin]; unfold growR
  split
  · show max (b.n + b.pagesize) (2 * b.balloc) ≤ _ ∧ _ ≤ max b.balloc (max (b.n + b.pagesize) (2 * b.balloc)) ∧
      (b.balloc < max (b.n + b.pagesize) (2 * b.balloc) → 2 * b.balloc ≤ max (b.n + b.pagesize) (2 * b.balloc))
    omega
  · omega

/-- **Pointer validity under a stable anchor, exactly — the code WITHOUT the repair** (`pinned b = false`). A `buffer_refill` under a stable anchor leaves every pointer
    handed out valid (no `memmove`, no `realloc`) if and only if it does not read at all (no stream / stream at EOF / enough
    bytes already loaded) or the next page still fits: `n + pagesize ≤ balloc`. This is the strongest true statement;
    the property's "stay valid until it is raised" is false of the code whenever a refill has to grow the allocation. -/
theorem refill_stable_iff (b : Buf) (nmin : Nat) (hnp : pinned b = false) (hp : b.pos ≤ b.n) (ha : b.anchor = some 0) :
    (refill b nmin).2.memgen = b.memgen ↔
      (b.hasfp = false ∨ b.eof = true ∨ nmin + b.pagesize ≤ b.n - b.pos ∨ b.n + b.pagesize ≤ b.balloc) := by
  obtain ⟨b1, hs, hg1, hn1, hps1, hba1, hst1⟩ := shiftLeft_stable b ha
  have hnp1 : pinned b1 = false := by unfold pinned at hnp ⊢; rw [hst1]; exact hnp
  unfold refill
  by_cases h1 : (!b.hasfp || b.eof) = true
  · rw [if_pos h1]
    refine ⟨fun _ => ?_, fun _ => rfl⟩
    cases hf : b.hasfp with
    | false => exact Or.inl rfl
    | true => rw [hf] at h1; simp at h1; exact Or.inr (Or.inl h1)
  · rw [if_neg h1]
    have hf : b.hasfp = true ∧ b.eof = false := by
      cases hf : b.hasfp <;> cases he : b.eof <;> simp [hf, he] at h1 ⊢
    by_cases h2 : b.n - b.pos ≥ nmin + b.pagesize ∧ b.pos ≤ b.n
    · rw [if_pos h2]
      exact ⟨fun _ => Or.inr (Or.inr (Or.inl h2.1)), fun _ => rfl⟩
    · rw [if_neg h2, if_neg (by omega : ¬ b.pos > b.n), hs]
      show (load (grow b1)).2.memgen = b.memgen ↔ _
      have hl : (load (grow b1)).2.memgen = (grow b1).memgen := rfl
      rw [hl]
      unfold grow
      rw [if_neg (by rw [hnp1]; decide)]
      unfold grow0
      rw [hn1, hps1, hba1]
      by_cases h3 : b.n + b.pagesize > b.balloc
      · rw [if_pos h3]
        show b1.memgen + 1 = b.memgen ↔ _
        rw [hg1]
        constructor
        · intro h; omega
        · rintro (h | h | h | h)
          · rw [hf.1] at h; cases h
          · rw [hf.2] at h; cases h
          · omega
          · omega
      · rw [if_neg h3, hg1]
        exact ⟨fun _ => Or.inr (Or.inr (Or.inr (by omega))), fun _ => rfl⟩

/-- without `bf->stable` the repaired `buffer_refill` is the old one -/
theorem refill_eq_refill0 (b : Buf) (nmin : Nat) (hnp : b.stab = false) : refill b nmin = refill0 b nmin := by
  have hp : pinned b = false := by unfold pinned; rw [hnp]; exact Bool.and_false _
  unfold refill refill0
  have hs : shiftLeft b = shiftLeft0 b := by unfold shiftLeft; rw [if_neg (by rw [hp]; decide)]
  have hst : ∀ b1, shiftLeft0 b = some b1 → b1.stab = false := by
    intro b1 h1
    unfold shiftLeft0 at h1
    split at h1
    · cases ha : b.anchor with
      | none => rw [ha] at h1; cases h1; exact hnp
      | some a =>
        rw [ha] at h1; dsimp only at h1
        split at h1 <;> (cases h1; exact hnp)
    · cases h1; exact hnp
  rw [hs]
  cases hsl : shiftLeft0 b with
  | none => rfl
  | some b1 =>
    have hg : grow b1 = grow0 b1 := by
      unfold grow pinned; rw [hst b1 hsl, Bool.and_false]; rfl
    simp only [hg]

/-- **A plain anchor does not promise pointer validity**: when a refill has to shift (no room for a page behind the loaded
    bytes, cursor not at the window start), everything from the anchor on is kept but *moved* to the window start — every
    pointer handed out since the anchor was set dangles. (That is the documented difference between `SetAnchor` and
    `SetStableAnchor`: only the latter rebases the window at once so that later refills need not move it.) -/
theorem plain_anchor_moves (b : Buf) (nmin a : Nat) (hnp : pinned b = false) (hf : b.hasfp = true) (he : b.eof = false) (ha : b.anchor = some a)
    (ha0 : 0 < a) (hap : a ≤ b.pos) (hpn : b.pos < b.n) (hneed : b.n - b.pos < nmin + b.pagesize)
    (hfull : b.balloc - b.n < b.pagesize) : (refill b nmin).2.memgen ≠ b.memgen := by
  unfold refill
  rw [if_neg (by simp [hf, he]), if_neg (by omega), if_neg (by omega : ¬ b.pos > b.n)]
  have hs : shiftLeft b = some (dropFront { b with anchor := some 0 } a) := by
    unfold shiftLeft
    rw [if_neg (by rw [hnp]; decide)]
    unfold shiftLeft0
    rw [if_pos ⟨hfull, by omega⟩, ha]
    simp only [hap, if_true]
  rw [hs]
  show (load (grow (dropFront { b with anchor := some 0 } a))).2.memgen ≠ b.memgen
  have hl : ∀ x : Buf, (load (grow x)).2.memgen = (grow x).memgen := fun _ => rfl
  rw [hl]
  have hd : (dropFront { b with anchor := some 0 } a).memgen = b.memgen + 1 := by
    show (if 0 < a ∧ a < b.n then b.memgen + 1 else b.memgen) = b.memgen + 1
    rw [if_pos ⟨ha0, by omega⟩]
  have hnp1 : pinned (dropFront { b with anchor := some 0 } a) = false := hnp
  unfold grow
  rw [if_neg (by rw [hnp1]; decide)]
  unfold grow0
  split
  · show (dropFront { b with anchor := some 0 } a).memgen + 1 ≠ b.memgen
    rw [hd]; omega
  · rw [hd]; omega

/-- the stream "abcdefgh" with page size 2 after `Read 1, Read 1, SetAnchor 2`, the cursor one byte past the anchor
    (as inside the next `Read 1`, just before its refill) -/
def plainWitness : Buf :=
  let b := (setAnchor (read (read (openBuf .stream 2 [97, 98, 99, 100, 101, 102, 103, 104]) 1).2 1).2 2).2
  { b with pos := b.pos + 1 }

end EaselModel.Buffer
