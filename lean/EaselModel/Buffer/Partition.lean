import EaselModel.Buffer.ListLemmas
/-! # C05 — `specLines` partitions the input into LF-free bodies and LF / CRLF terminators -/
namespace EaselModel.Buffer

theorem LF_not_mem_of_runLen_full (l : Bytes) (h : runLen notLF l = l.length) : LF ∉ l := by
  intro hm
  have := (runLen_eq_length_iff notLF l).1 h LF hm
  simp [notLF] at this

theorem LF_not_mem_take (s : Bytes) (k : Nat) (hk : k ≤ runLen notLF s) : LF ∉ s.take k := by
  apply LF_not_mem_of_runLen_full
  have := runLen_le notLF s
  rw [runLen_take _ _ _ hk, List.length_take]
  omega

theorem getElem?_runLen_notLF (s : Bytes) (h : runLen notLF s < s.length) :
    s[runLen notLF s]? = some LF := by
  obtain ⟨c, hc, hp⟩ := runLen_spec_at notLF s h
  have : c = LF := by simpa [notLF] using hp
  rw [hc, this]

/-- one-element slice -/
theorem take_drop_one (s : Bytes) (i : Nat) (c : UInt8) (h : s[i]? = some c) :
    (s.take (i + 1)).drop i = [c] := by
  have hi : i < s.length := by
    rcases Nat.lt_or_ge i s.length with h1 | h1
    · exact h1
    · rw [List.getElem?_eq_none h1] at h; cases h
  have hc : s[i] = c := by
    rw [List.getElem?_eq_getElem hi] at h; exact Option.some.inj h
  rw [List.drop_take, List.drop_eq_getElem_cons hi, hc]
  have : i + 1 - i = 1 := by omega
  rw [this]; rfl

/-- two-element slice -/
theorem take_drop_two (s : Bytes) (i : Nat) (c d : UInt8) (h : s[i]? = some c) (h' : s[i+1]? = some d) :
    (s.take (i + 2)).drop i = [c, d] := by
  have hi : i + 1 < s.length := by
    rcases Nat.lt_or_ge (i + 1) s.length with h1 | h1
    · exact h1
    · rw [List.getElem?_eq_none h1] at h'; cases h'
  have hi0 : i < s.length := by omega
  have hc : s[i] = c := by
    rw [List.getElem?_eq_getElem hi0] at h; exact Option.some.inj h
  have hd : s[i+1] = d := by
    rw [List.getElem?_eq_getElem hi] at h'; exact Option.some.inj h'
  rw [List.drop_take, List.drop_eq_getElem_cons hi0, List.drop_eq_getElem_cons hi, hc, hd]
  have : i + 2 - i = 2 := by omega
  rw [this]; rfl

/-- Everything we need to know about one step of `specLine`. -/
structure LineOK (s line : Bytes) (nskip : Nat) : Prop where
  pos : 0 < nskip
  le : nskip ≤ s.length
  len_le : line.length ≤ nskip
  pre : line = s.take line.length
  nolf : LF ∉ line
  term : (s.take nskip).drop line.length = [LF] ∨ (s.take nskip).drop line.length = [CR, LF] ∨
    ((s.take nskip).drop line.length = [] ∧ nskip = s.length)
  nocr : (s.take nskip).drop line.length = [LF] → line.getLast? ≠ some CR
  nonempty : 0 < (line ++ (s.take nskip).drop line.length).length

theorem specLine_ok (s line : Bytes) (nskip : Nat) (h : specLine s = some (line, nskip)) :
    LineOK s line nskip := by
  have hl := runLen_le notLF s
  unfold specLine at h
  split at h
  · cases h
  · rename_i hne
    have hpos : 0 < s.length := by
      cases s with
      | nil => exact absurd rfl hne
      | cons c cs => simp
    simp only [] at h
    split at h
    · -- last line, no terminator
      rename_i hfull
      cases h
      have ht : (s.take s.length).drop s.length = [] := by simp
      refine ⟨hpos, Nat.le_refl _, Nat.le_refl _, by simp, LF_not_mem_of_runLen_full s hfull,
        Or.inr (Or.inr ⟨ht, rfl⟩), (fun h => by rw [ht] at h; cases h), ?_⟩
      rw [List.length_append]; omega
    · rename_i hnf
      have hlt : runLen notLF s < s.length := by omega
      have hLF := getElem?_runLen_notLF s hlt
      split at h
      · -- CRLF
        rename_i hcr
        cases h
        obtain ⟨hi, hcr⟩ := hcr
        have hlen : (s.take (runLen notLF s - 1)).length = runLen notLF s - 1 := by
          rw [List.length_take]; omega
        have ht : (s.take (runLen notLF s + 1)).drop (s.take (runLen notLF s - 1)).length = [CR, LF] := by
          rw [hlen]
          have e : runLen notLF s + 1 = (runLen notLF s - 1) + 2 := by omega
          rw [e]
          apply take_drop_two _ _ _ _ hcr
          have e2 : runLen notLF s - 1 + 1 = runLen notLF s := by omega
          rw [e2]; exact hLF
        refine ⟨by omega, by omega, by rw [hlen]; omega, by rw [hlen], LF_not_mem_take s _ (by omega),
          Or.inr (Or.inl ht), (fun h => by rw [ht] at h; cases h), ?_⟩
        rw [ht, List.length_append]; simp
      · -- bare LF
        rename_i hncr
        cases h
        have hlen : (s.take (runLen notLF s)).length = runLen notLF s := by
          rw [List.length_take]; omega
        have ht : (s.take (runLen notLF s + 1)).drop (s.take (runLen notLF s)).length = [LF] := by
          rw [hlen]; exact take_drop_one _ _ _ hLF
        refine ⟨by omega, by omega, by rw [hlen]; omega, by rw [hlen], LF_not_mem_take s _ (Nat.le_refl _),
          Or.inl ht, (fun _ hlast => hncr ?_), ?_⟩
        · rw [List.getLast?_eq_getElem?, hlen, List.getElem?_take] at hlast
          rcases Nat.eq_zero_or_pos (runLen notLF s) with h0 | h0
          · rw [h0] at hlast; simp at hlast
          · have : runLen notLF s - 1 < runLen notLF s := by omega
            simp only [this, if_true] at hlast
            exact ⟨h0, hlast⟩
        · rw [ht, List.length_append]; simp

theorem LineOK.body_term (h : LineOK s line nskip) :
    line ++ (s.take nskip).drop line.length = s.take nskip := by
  have e : line = (s.take nskip).take line.length := by
    rw [List.take_take, Nat.min_eq_left h.len_le]; exact h.pre
  have := List.take_append_drop line.length (s.take nskip)
  rw [← e] at this
  exact this

/-- The invariant, generalised over the fuel. -/
theorem specLinesAux_ok (fuel : Nat) (s : Bytes) (hf : s.length < fuel) :
    (specLinesAux fuel s).flatMap (fun l => l.body ++ l.term) = s ∧
    (∀ l ∈ specLinesAux fuel s, LF ∉ l.body ∧ (l.term = [LF] ∨ l.term = [CR, LF] ∨ l.term = [])) ∧
    (∀ l ∈ specLinesAux fuel s, l.term = [LF] → l.body.getLast? ≠ some CR) ∧
    (∀ i, i + 1 < (specLinesAux fuel s).length → ∀ l, (specLinesAux fuel s)[i]? = some l → l.term ≠ []) ∧
    (∀ l ∈ specLinesAux fuel s, 0 < (l.body ++ l.term).length) := by
  induction fuel generalizing s with
  | zero => omega
  | succ fuel ih =>
    unfold specLinesAux
    split
    · rename_i hnone
      have : s = [] := by
        unfold specLine at hnone
        split at hnone
        · assumption
        · simp only [] at hnone
          split at hnone
          · cases hnone
          · split at hnone <;> cases hnone
      subst this
      simp
    · rename_i line nskip hsome
      have ok := specLine_ok s line nskip hsome
      have hdl : (s.drop nskip).length < fuel := by
        rw [List.length_drop]
        have := ok.pos; have := ok.le
        omega
      obtain ⟨ih1, ih2, ih3, ih4, ih5⟩ := ih (s.drop nskip) hdl
      refine ⟨?_, ?_, ?_, ?_, ?_⟩
      · rw [List.flatMap_cons, ih1]
        show (line ++ (s.take nskip).drop line.length) ++ s.drop nskip = s
        rw [ok.body_term, List.take_append_drop]
      · intro l hl
        rcases List.mem_cons.1 hl with rfl | hl
        · refine ⟨ok.nolf, ?_⟩
          rcases ok.term with h | h | ⟨h, _⟩
          · exact Or.inl h
          · exact Or.inr (Or.inl h)
          · exact Or.inr (Or.inr h)
        · exact ih2 l hl
      · intro l hl
        rcases List.mem_cons.1 hl with rfl | hl
        · exact ok.nocr
        · exact ih3 l hl
      · intro i hi l hget
        cases i with
        | zero =>
          simp only [List.getElem?_cons_zero] at hget
          cases hget
          show (s.take nskip).drop line.length ≠ []
          intro hnil
          rcases ok.term with h | h | ⟨_, h⟩
          · rw [hnil] at h; cases h
          · rw [hnil] at h; cases h
          · -- nothing is left, so there is no further line
            have hd : s.drop nskip = [] := by rw [h]; simp
            rw [hd] at hi
            have : specLinesAux fuel [] = [] := by
              cases fuel with
              | zero => rfl
              | succ f => simp [specLinesAux, specLine]
            rw [this] at hi
            simp at hi
        | succ j =>
          simp only [List.getElem?_cons_succ] at hget
          simp only [List.length_cons] at hi
          exact ih4 j (by omega) l hget
      · intro l hl
        rcases List.mem_cons.1 hl with rfl | hl
        · exact ok.nonempty
        · exact ih5 l hl

/-- Lines and their terminators partition the input exactly; bodies are LF-free; terminators are LF, CRLF, or
    (only for the last line) nothing; a body never ends in CR when the terminator is a bare LF (the CR belongs to the
    terminator), so lines are the maximal runs between LF/CRLF terminators. -/
theorem lines_partition (src : Bytes) :
    (specLines src).flatMap (fun l => l.body ++ l.term) = src ∧
    (∀ l ∈ specLines src, LF ∉ l.body ∧ (l.term = [LF] ∨ l.term = [CR, LF] ∨ l.term = [])) ∧
    (∀ l ∈ specLines src, l.term = [LF] → l.body.getLast? ≠ some CR) ∧
    (∀ i, i + 1 < (specLines src).length → ∀ l, (specLines src)[i]? = some l → l.term ≠ []) := by
  obtain ⟨h1, h2, h3, h4, _⟩ := specLinesAux_ok (src.length + 1) src (Nat.lt_succ_self _)
  exact ⟨h1, h2, h3, h4⟩

/-- no line is empty-with-empty-terminator: every element of specLines consumes at least one byte -/
theorem lines_nonempty (src : Bytes) : ∀ l ∈ specLines src, 0 < (l.body ++ l.term).length :=
  (specLinesAux_ok (src.length + 1) src (Nat.lt_succ_self _)).2.2.2.2

end EaselModel.Buffer
