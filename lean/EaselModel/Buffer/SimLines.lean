import EaselModel.Buffer.SimBasic
/-! Simulation of the line operations and the binary read. -/
namespace EaselModel.Buffer

theorem fetchLine_p (b : Buf) (asStr : Bool) : (fetchLine b asStr).1.p = none := by
  unfold fetchLine
  repeat' (first | rfl | split | dsimp only)

theorem read_p (b : Buf) (k : Nat) : (read b k).1.p = none := by
  unfold read
  repeat' (first | rfl | split | dsimp only)

theorem setOffset_p (b : Buf) (o : Nat) : (setOffset b o).1.p = none := by
  unfold setOffset
  repeat' (first | rfl | split | dsimp only)

theorem set_p (b : Buf) (p : Option Nat) (k : Nat) : (set b p k).1.p = none := by
  unfold set
  rfl

theorem fetchToken_p (b : Buf) (sep : Bytes) (asStr : Bool) : (fetchToken b sep asStr).1.p = none := by
  unfold fetchToken
  repeat' (first | rfl | split | dsimp only)

theorem getLine_p (b : Buf) (h : WF b) (hl : Loaded b) :
    ((getLine b).1.st = .ok → ∃ i, (getLine b).1.p = some i ∧ (getLine b).2.base + i = b.base + b.pos) ∧
    ((getLine b).1.st ≠ .ok → (getLine b).1.p = none) := by
  have hp := h.hpos
  obtain ⟨s1, s2, s3⟩ := setAnchor_spec b (b.base + b.pos) h (by omega) (Nat.le_refl _)
  generalize hsa : setAnchor b (b.base + b.pos) = sa at *
  obtain ⟨st1, b1⟩ := sa
  simp only [] at s1 s2 s3
  subst s1
  obtain ⟨m1, m2, m3, m4, m5⟩ := s2.same
  obtain ⟨c1, c2, c3, c4⟩ := countline_spec b1 s3
  have habs1 : b1.abs = b.abs := abs_of_frame s2.frame
  have hsuf : b.abs.suffix = b1.src.drop (b1.base + b1.pos) := by
    simp [Abs.suffix, Buf.abs, m5, m3, m2]
  by_cases he : b.pos = b.n
  · -- end of input
    have he1 : b1.pos = b1.n := by simp [Buf.n, m1, m2]; exact he
    have hcl := c3 he1
    have hr := raiseAnchor_spec b1 (b.base + b.pos) s3
    have e : getLine b = ({ st := .eof }, raiseAnchor b1 (b.base + b.pos)) := by
      unfold getLine; simp only [hsa, hcl]
    rw [e]
    have hs : b.abs.suffix = [] := by
      rw [hsuf, s3.suffix_win]
      have : b1.win = [] := by
        apply List.eq_nil_of_length_eq_zero; rw [win_length]; omega
      rw [this, m4, hl he]; rfl
    exact ⟨(fun hh => by cases hh), (fun _ => rfl)⟩
  · have hlt1 : b1.pos < b1.n := by simp only [Buf.n, m1, m2] at *; omega
    obtain ⟨d1, d2, d3, d4⟩ := c4 hlt1
    generalize hcl : countline b1 = cl at *
    obtain ⟨st2, b2, nc, nskip⟩ := cl
    simp only [] at c1 c2 d1 d2 d3 d4
    subst d1
    clear c3 c4
    rw [← hsuf] at d2 d3
    have hsuf2 : b.abs.suffix = b2.win ++ b2.rest := by rw [hsuf, ← c2.src, ← c2.off, c1.suffix_win]
    have hr3 := refill_post b2 nskip c1
    generalize hrf : refill b2 nskip = rf at *
    obtain ⟨st3, b3⟩ := rf
    simp only [] at hr3
    have hst3 : ¬ (st3 ≠ .eof ∧ st3 ≠ .ok) := by rcases hr3.status with h3 | h3 <;> simp [h3]
    have hr4 := raiseAnchor_spec b3 (b.base + b.pos) hr3.wf
    generalize hb4 : raiseAnchor b3 (b.base + b.pos) = b4 at *
    have hfr14 : Frame b1 b4 := (c2.trans hr3.frame).trans hr4.1.frame
    have hw4 : nskip ≤ b4.win.length := by
      have a1 := hr3.frame.avail
      have a2 := hr4.1.frame.avail
      rw [win_length] at d4 ⊢; omega
    have hncle : nc ≤ nskip := by omega
    have hsl := slice_eq hr4.2 nc (by omega)
    have hfit : b4.pos + nskip ≤ b4.n := by
      have := hr4.2.hpos
      rw [win_length] at hw4; omega
    have e : getLine b = (({ st := .ok, bytes := (b4.src.drop (b4.base + b4.pos)).take nc, n := nc, p := some b4.pos } : Out),
        { b4 with pos := b4.pos + nskip }) := by
      unfold getLine; simp only [hsa, hcl, hrf, hst3, if_false, hb4, hsl, hfit, if_true]
    rw [e]
    have hsne : b.abs.suffix ≠ [] := by
      rw [hsuf, s3.suffix_win]
      intro hh
      have := congrArg List.length hh
      simp only [List.length_append, win_length, List.length_nil] at this
      omega
    have hsrc4 : b4.src.drop (b4.base + b4.pos) = b.abs.suffix := by
      rw [hsuf, hfr14.src, hfr14.off]
    refine ⟨fun _ => ⟨b4.pos, rfl, ?_⟩, fun hh => absurd rfl hh⟩
    show b4.base + b4.pos = b.base + b.pos
    have := hfr14.off
    rw [m3, m2] at this
    exact this

theorem specGetLine_cur (a : Abs) :
    a.cur ≤ (specGetLine a).2.2.cur ∧ (specGetLine a).2.2.src = a.src := by
  by_cases hs : a.suffix = []
  · rw [specGetLine_eof a hs]; exact ⟨Nat.le_refl _, rfl⟩
  · rw [specGetLine_ok a hs]
    exact ⟨Nat.le_add_right _ _, rfl⟩

theorem specRead_cur (a : Abs) (k : Nat) :
    a.cur ≤ (specRead a k).2.2.cur ∧ (specRead a k).2.2.src = a.src := by
  unfold specRead
  split
  · exact ⟨Nat.le_refl _, rfl⟩
  · exact ⟨Nat.le_add_right _ _, rfl⟩

/-- common part of the simulation of an operation that refines a specification function `f` on `Abs` and whose effect on
    the anchor record is `X` / `a0` -/
theorem sim_of_refinesX {P : Nat} {a a0 : AState} {s s' : Sess} {o : Out} {spec : St × Bytes × Abs} {lp : Option Nat}
    {X : Option Nat} (r : R P a s) (wf : WF s'.b) (pg : PG s'.b) (k : KeepX X s.b s'.b) (aok : AnchOK s'.b)
    (hX : s.b.hasfp = true → X = a0.anchor) (hXn : s.b.hasfp = false → X = none)
    (h0src : a0.src = a.src) (hsub : ∀ A, a0.anchor = some A → a.anchor = some A)
    (hnan : a0.anchor ≠ none → a0.nanchor = a.nanchor)
    (e : (o.st, o.bytes, s'.b.abs) = spec)
    (hc : a.cur ≤ spec.2.2.cur ∧ spec.2.2.src = a.src)
    (hlp : s'.lastp.map (s'.b.base + ·) = lp) (hlple : ∀ p, lp = some p → a.cur ≤ p ∧ p ≤ spec.2.2.cur) :
    (⟨o.st, o.bytes, s'.b.base + s'.b.pos⟩ : Obs) = ⟨spec.1, spec.2.1, spec.2.2.cur⟩ ∧
    R P { a0 with cur := spec.2.2.cur, lastp := lp } s' := by
  have e1 : o.st = spec.1 := congrArg Prod.fst e
  have e2 : o.bytes = spec.2.1 := congrArg (fun x => x.2.1) e
  have e3 : s'.b.abs = spec.2.2 := congrArg (fun x => x.2.2) e
  have e4 : s'.b.base + s'.b.pos = spec.2.2.cur := by rw [← e3]; rfl
  refine ⟨by rw [e1, e2, e4], ?_⟩
  exact r.of_keepX (a' := { a0 with cur := spec.2.2.cur, lastp := lp }) wf pg k aok hX hXn h0src hsub hnan e4 hlp
    (fun p hp => (hlple p hp).2)

/-- common part of the simulation of an operation that refines a specification function `f` on `Abs` and keeps the
    anchor record -/
theorem sim_of_refines {P : Nat} {a : AState} {s s' : Sess} {o : Out} {spec : St × Bytes × Abs} {lp : Option Nat}
    (r : R P a s) (wf : WF s'.b) (pg : PG s'.b) (k : KeepA s.b s'.b) (aok : AnchOK s'.b)
    (e : (o.st, o.bytes, s'.b.abs) = spec)
    (hc : a.cur ≤ spec.2.2.cur ∧ spec.2.2.src = a.src)
    (hlp : s'.lastp.map (s'.b.base + ·) = lp) (hlple : ∀ p, lp = some p → a.cur ≤ p ∧ p ≤ spec.2.2.cur) :
    (⟨o.st, o.bytes, s'.b.base + s'.b.pos⟩ : Obs) = ⟨spec.1, spec.2.1, spec.2.2.cur⟩ ∧
    R P { a with cur := spec.2.2.cur, lastp := lp } s' :=
  sim_of_refinesX (a0 := a) r wf pg k.toKeepX aok (fun hf => (r.anch hf).1)
    (fun hf => (absAnchor_eq_none s.b).mpr (r.nfa hf)) rfl (fun _ h => h) (fun _ => rfl) e hc hlp hlple

/-- the anchor record that the bracket at offset `base + p` leaves, model and specification side -/
theorem R.brk_at {P : Nat} {a : AState} {s : Sess} (r : R P a s) (b : Buf) (hb : b.absAnchor = s.b.absAnchor)
    (hf : s.b.hasfp = true) : b.brkAnchor = (aBrk a (b.base + b.pos)).anchor := by
  have h1 := (r.anch hf).1
  rw [← hb] at h1
  cases hba : b.anchor with
  | none =>
    have ha : a.anchor = none := by rw [← h1]; simp [Buf.absAnchor, hba]
    simp only [Buf.brkAnchor, aBrk, hba, ha]
  | some x =>
    have ha : a.anchor = some (b.base + x) := by rw [← h1]; simp [Buf.absAnchor, hba]
    simp only [Buf.brkAnchor, aBrk, hba, ha]
    by_cases hle : x ≤ b.pos
    · rw [if_pos hle, if_pos (by omega)]; exact ha.symm
    · rw [if_neg hle, if_neg (by omega)]

theorem brkAnchor_nofp {b : Buf} (h : b.anchor = none) : b.brkAnchor = none := by
  unfold Buf.brkAnchor; rw [h]

theorem aBrk_nanchor (a : AState) (t : Nat) (h : (aBrk a t).anchor ≠ none) : (aBrk a t).nanchor = a.nanchor := by
  cases hA : (aBrk a t).anchor with
  | none => exact absurd hA h
  | some A => exact (aBrk_sub a t A hA).2.2

theorem sim_getLine (P : Nat) : SimStep P .getLine := by
  intro a s r _
  obtain ⟨w, e, _, pg⟩ := getLine_refines s.b r.wf (r.pg.loaded r.wf)
  rw [r.abs_eq] at e
  obtain ⟨k, ok⟩ := getLine_keepX s.b r.wf r.aok r.nfa
  obtain ⟨p1, p2⟩ := getLine_p s.b r.wf (r.pg.loaded r.wf)
  have hc := specGetLine_cur a.abs
  have e1 : (getLine s.b).1.st = (specGetLine a.abs).1 := congrArg Prod.fst e
  refine sim_of_refinesX (a0 := aBrk a a.cur) (s' := (s.step .getLine).2) (o := (getLine s.b).1) (spec := specGetLine a.abs)
    (lp := if (specGetLine a.abs).1 = .ok then some a.cur else none) r w pg k ok
    (fun hf => by rw [← r.cur]; exact r.brk_at s.b rfl hf) (fun hf => brkAnchor_nofp (r.nfa hf)) (aBrk_src a _)
    (fun A hA => (aBrk_sub a _ A hA).1) (aBrk_nanchor a _) e hc ?_ ?_
  · show ((getLine s.b).1.p).map ((getLine s.b).2.base + ·) = _
    by_cases hok : (specGetLine a.abs).1 = .ok
    · rw [if_pos hok]
      obtain ⟨i, hi1, hi2⟩ := p1 (by rw [e1]; exact hok)
      rw [hi1]; show some ((getLine s.b).2.base + i) = _
      rw [hi2, r.cur]
    · rw [if_neg hok, p2 (by rw [e1]; exact hok)]; rfl
  · intro p hp
    split at hp
    · cases hp; exact ⟨Nat.le_refl _, hc.1⟩
    · cases hp

theorem sim_fetchLine_gen (P : Nat) (asStr : Bool) (op : Op) (hop : op = .fetchLine ∨ op = .fetchLineStr)
    (hrun : ∀ b lp, opRun b lp op = fetchLine b asStr) : SimStep P op := by
  intro a s r _
  obtain ⟨w, e, _, pg, _⟩ := fetchLine_refines s.b asStr r.wf (r.pg.loaded r.wf)
  rw [r.abs_eq] at e
  obtain ⟨k, ok⟩ := fetchLine_keepX s.b asStr r.wf r.aok r.nfa
  have hc := specGetLine_cur a.abs
  have hb : (s.step op).2.b = (fetchLine s.b asStr).2 := by rw [step_b, hrun]
  have hl : (s.step op).2.lastp = none := by rw [step_lastp, hrun]; exact fetchLine_p s.b asStr
  have ho : (s.step op).1 = (fetchLine s.b asStr).1 := by rw [step_out, hrun]
  have hne : op ≠ .get := by rcases hop with h | h <;> rw [h] <;> intro hh <;> cases hh
  have := sim_of_refinesX (a0 := aBrk a a.cur) (s' := (s.step op).2) (o := (fetchLine s.b asStr).1) (spec := specGetLine a.abs) (lp := none)
    r (by rw [hb]; exact w) (by rw [hb]; exact pg) (by rw [hb]; exact k) (by rw [hb]; exact ok)
    (fun hf => by rw [← r.cur]; exact r.brk_at s.b rfl hf) (fun hf => brkAnchor_nofp (r.nfa hf)) (aBrk_src a _)
    (fun A hA => (aBrk_sub a _ A hA).1) (aBrk_nanchor a _) (by rw [hb]; exact e) hc
    (by rw [hl]; rfl) (fun p hp => by cases hp)
  have hspec : specStep a op = (⟨(specGetLine a.abs).1, (specGetLine a.abs).2.1, (specGetLine a.abs).2.2.cur⟩,
      { aBrk a a.cur with cur := (specGetLine a.abs).2.2.cur, lastp := none }) := by
    rcases hop with h | h <;> rw [h] <;> rfl
  rw [hspec]
  refine ⟨?_, this.2⟩
  show (⟨(s.step op).1.st, if op = .get then [] else (s.step op).1.bytes, _⟩ : Obs) = _
  rw [if_neg hne, ho]; exact this.1

theorem sim_fetchLine (P : Nat) : SimStep P .fetchLine :=
  sim_fetchLine_gen P false .fetchLine (Or.inl rfl) (fun _ _ => rfl)

theorem sim_fetchLineStr (P : Nat) : SimStep P .fetchLineStr :=
  sim_fetchLine_gen P true .fetchLineStr (Or.inr rfl) (fun _ _ => rfl)

theorem sim_read (P : Nat) (n : Nat) : SimStep P (.read n) := by
  intro a s r _
  obtain ⟨w, e, _, pg⟩ := read_refines s.b n r.wf
  rw [r.abs_eq] at e
  obtain ⟨k, ok⟩ := read_keep s.b n r.wf r.aok
  have hc := specRead_cur a.abs n
  exact sim_of_refines (s' := (s.step (.read n)).2) (o := (read s.b n).1) (spec := specRead a.abs n) (lp := none)
    r w pg k.toKeepA ok e hc (by show ((read s.b n).1.p).map _ = none; rw [read_p]; rfl) (fun p hp => by cases hp)

end EaselModel.Buffer
