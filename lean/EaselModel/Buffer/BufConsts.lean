/-! Which `buffer_refill` the model is (hand-written since fix 188d0b6 landed; it was regenerated from the working tree while the repair
was pending, and every proof about `refill` is independent of the value). -/
namespace EaselModel.Buffer.BufConsts

/-- `buffer_refill` under a stable anchor never shifts the window and retires the old block instead of `ESL_REALLOC`ing it
    (fix 188d0b6, C05-stable-anchor-keep-oldmem: fields `stable`, `retired`, `nretired` of ESL_BUFFER). `false` selects the
    code before the repair (`Model.refill0` is that variant, unconditionally). -/
def stableRetire : Bool := true

end EaselModel.Buffer.BufConsts
