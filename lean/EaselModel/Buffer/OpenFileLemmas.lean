import EaselModel.Buffer.OpenFile
import EaselModel.Buffer.History
import EaselModel.Buffer.ReadFetch
import EaselModel.Buffer.TokenOps
/-! Lemmas on the opening / closing logic (`OpenFile.lean`): the search, the mode choice, the semantics of the buffer
    opened, the resource discipline of `esl_buffer_Close`, the strings of the `AsStr` fetchers, the `.gz` test. -/
namespace EaselModel.Buffer.OpenFile
open EaselModel.Buffer EaselModel.Buffer.OpenConsts

/-! ## the search -/

/-- the directories listed in the variable (`[]` when `envvar` is NULL or the variable is not set) -/
def listedDirs (env : Env) (envvar : Option CStr) : List CStr :=
  match envvar with
  | none => []
  | some v =>
    match getenv env v with
    | none => []
    | some s => splitColon s

/-- the candidate paths in the order of the documentation: `filename` itself (current directory), then `d/filename`
    for each listed directory `d` -/
def candidates (env : Env) (filename : CStr) (envvar : Option CStr) : List CStr :=
  filename :: (listedDirs env envvar).map (fun d => envPath d filename)

theorem envLoop_eq_find (fs : FS) (fname : CStr) (ds : List CStr) :
    envLoop fs fname ds = (ds.map (fun d => envPath d fname)).find? (fun p => fileExists fs p) := by
  induction ds with
  | nil => rfl
  | cons d ds ih =>
    simp only [envLoop, List.map_cons, List.find?_cons]
    cases h : fileExists fs (envPath d fname) <;> simp [ih]

theorem fileEnvOpen_eq_find (fs : FS) (env : Env) (fname : CStr) (envvar : Option CStr) :
    (fileEnvOpen fs env fname envvar).1 =
      ((listedDirs env envvar).map (fun d => envPath d fname)).find? (fun p => fileExists fs p) := by
  unfold fileEnvOpen listedDirs
  cases envvar with
  | none => rfl
  | some v =>
    simp only []
    cases hg : getenv env v with
    | none => rfl
    | some s =>
      simp only []
      rw [← envLoop_eq_find]
      cases envLoop fs fname (splitColon s) <;> rfl

theorem findPath_eq_find (fs : FS) (env : Env) (filename : CStr) (envvar : Option CStr) :
    (findPath fs env filename envvar).1 = (candidates env filename envvar).find? (fun p => fileExists fs p) := by
  unfold findPath candidates
  rw [List.find?_cons]
  cases h : fileExists fs filename
  · simp only [Bool.false_eq_true, if_false]; exact fileEnvOpen_eq_find fs env filename envvar
  · simp

theorem findPath_isSome_iff (fs : FS) (env : Env) (filename : CStr) (envvar : Option CStr) :
    (findPath fs env filename envvar).1.isSome = true ↔ ∃ p ∈ candidates env filename envvar, fileExists fs p = true := by
  rw [findPath_eq_find, List.find?_isSome]

theorem findPath_exists (fs : FS) (env : Env) (filename : CStr) (envvar : Option CStr) (p : CStr)
    (h : (findPath fs env filename envvar).1 = some p) : fileExists fs p = true ∧ p ∈ candidates env filename envvar := by
  rw [findPath_eq_find] at h
  exact ⟨by simpa using List.find?_some h, List.mem_of_find?_eq_some h⟩

theorem findPath_cwd (fs : FS) (env : Env) (filename : CStr) (envvar : Option CStr) (h : fileExists fs filename = true) :
    (findPath fs env filename envvar).1 = some filename := by
  unfold findPath; simp [h]

/-! ### the tokenisation of the directory list -/

theorem splitColon_ne_nil (s : CStr) : splitColon s ≠ [] := by
  induction s with
  | nil => simp [splitColon]
  | cons c cs ih =>
    unfold splitColon
    split
    · simp
    · split <;> simp

theorem splitColon_cons_ne (c : UInt8) (cs : CStr) (h : c ≠ COLON) :
    ∃ d ds, splitColon cs = d :: ds ∧ splitColon (c :: cs) = (c :: d) :: ds := by
  cases hs : splitColon cs with
  | nil => exact absurd hs (splitColon_ne_nil cs)
  | cons d ds =>
    refine ⟨d, ds, rfl, ?_⟩
    rw [splitColon.eq_2]
    simp [h, hs]

theorem intercalate_cons_cons (sep a : List UInt8) (c : UInt8) (l : List (List UInt8)) :
    List.intercalate sep ((c :: a) :: l) = c :: List.intercalate sep (a :: l) := by
  cases l with
  | nil => simp [List.intercalate, List.intersperse]
  | cons b t => simp [List.intercalate, List.intersperse]

/-- the listed directories are exactly the maximal colon-free pieces of the value: joined by `:` they give the value back -/
theorem splitColon_spec (s : CStr) :
    (∀ d ∈ splitColon s, COLON ∉ d) ∧ List.intercalate [COLON] (splitColon s) = s := by
  induction s with
  | nil => simp [splitColon, List.intercalate]
  | cons c cs ih =>
    by_cases hc : c = COLON
    · have e : splitColon (c :: cs) = [] :: splitColon cs := by rw [splitColon.eq_2]; simp [hc]
      rw [e]
      refine ⟨?_, ?_⟩
      · intro d hd
        rcases List.mem_cons.mp hd with h | h
        · subst h; simp
        · exact ih.1 d h
      · obtain ⟨d, ds, hs⟩ := List.exists_cons_of_ne_nil (splitColon_ne_nil cs)
        have := ih.2
        rw [hs] at this ⊢
        simp [List.intercalate, List.intersperse] at this ⊢
        exact ⟨hc.symm, this⟩
    · obtain ⟨d, ds, hs, e⟩ := splitColon_cons_ne c cs hc
      rw [e]
      refine ⟨?_, ?_⟩
      · intro x hx
        rcases List.mem_cons.mp hx with h | h
        · subst h
          have := ih.1 d (by rw [hs]; simp)
          intro hm
          rcases List.mem_cons.mp hm with h1 | h1
          · exact hc h1.symm
          · exact this h1
        · exact ih.1 x (by rw [hs]; exact List.mem_cons_of_mem _ h)
      · rw [intercalate_cons_cons, ← hs, ih.2]

/-! ## esl_buffer_OpenFile -/

theorem slurpSize_val : slurpSize = 4194304 := by decide
theorem pageSize_val : pageSize = 4096 := by decide
theorem clampLo_val : clampLo = 512 := by decide
theorem clampHi_val : clampHi = 4194304 := by decide

theorem clampPs_eq (blk : Nat) : clampPs blk = max 512 (min blk 4194304) := by
  unfold clampPs
  rw [clampLo_val, clampHi_val]
  simp only []
  split <;> split <;> omega

theorem filePs_pos (cfg : Cfg) : 0 < filePs cfg := by
  unfold filePs
  split
  · assumption
  · split
    · rw [clampPs_eq]; omega
    · rw [pageSize_val]; omega

theorem createPs_pos (cfg : Cfg) : 0 < createPs cfg := by
  unfold createPs
  split
  · assumption
  · rw [pageSize_val]; omega

theorem chooseMode_posix (n : Nat) :
    chooseMode true (n : Int) = if n ≤ 4194304 then Mode.allfile else Mode.mmap := by
  unfold chooseMode
  rw [slurpSize_val]
  by_cases h : n ≤ 4194304
  · have h1 : (n : Int) ≠ -1 ∧ (n : Int) ≤ ((4194304 : Nat) : Int) := ⟨by omega, by omega⟩
    rw [if_pos h1, if_pos h]
  · have h1 : ¬ ((n : Int) ≠ -1 ∧ (n : Int) ≤ ((4194304 : Nat) : Int)) := by omega
    have h2 : (true = true) ∧ (n : Int) > ((4194304 : Nat) : Int) := ⟨rfl, by omega⟩
    rw [if_neg h1, if_pos h2, if_neg h]

theorem chooseMode_noposix : chooseMode false (-1) = Mode.file := by
  unfold chooseMode; simp

theorem openFile_not_found (cfg : Cfg) (fs : FS) (f : CStr) (h : fsRead fs f = none) :
    openFile cfg fs f = { st := .enotfound, c := some (unsetErr pageSize), trace := [.acq .bf] } := by
  unfold openFile; rw [h]

/-- natural path on a POSIX system: slurped up to `eslBUFFER_SLURPSIZE` bytes, memory mapped above -/
theorem openFile_posix (cfg : Cfg) (fs : FS) (f : CStr) (src : Bytes) (h : fsRead fs f = some src)
    (hf : cfg.force = none) (hp : cfg.posix = true) :
    (openFile cfg fs f).st = .ok ∧
    (openFile cfg fs f).b = some (openBuf (if src.length ≤ 4194304 then Mode.allfile else Mode.mmap) (filePs cfg) src, src) ∧
    (openFile cfg fs f).c = some { mode_is := if src.length ≤ 4194304 then ModeIs.allfile else ModeIs.mmap,
                                   mem := decide (0 < src.length), filename := some f, pagesize := filePs cfg } := by
  unfold openFile
  rw [h]
  simp only [hf, hp, if_true, ite_self, chooseMode_posix]
  by_cases hle : src.length ≤ 4194304
  · simp only [if_pos hle]; refine ⟨?_, ?_, ?_⟩ <;> first | rfl | trivial
  · simp only [if_neg hle]
    have hne : ¬ src.length = 0 := by omega
    rw [if_neg hne]
    refine ⟨rfl, rfl, ?_⟩
    have : decide (0 < src.length) = true := by simp; omega
    rw [this]

/-- without `fstat` (no `_POSIX_VERSION`): a paged stream on the file, default page size -/
theorem openFile_noposix (cfg : Cfg) (fs : FS) (f : CStr) (src : Bytes) (h : fsRead fs f = some src)
    (hp : cfg.posix = false) :
    (openFile cfg fs f).st = .ok ∧ (openFile cfg fs f).b = some (openBuf .file (filePs cfg) src, src) := by
  unfold openFile
  rw [h]
  simp [hp, chooseMode_noposix]

/-- whatever the configuration (hooks included): a successful OpenFile delivers the file's bytes through one of the
    existing openers with a page size ≥ 1 -/
theorem openFile_shape (cfg : Cfg) (fs : FS) (f : CStr) (b : Buf) (src : Bytes)
    (h : (openFile cfg fs f).b = some (b, src)) :
    fsRead fs f = some src ∧ ∃ m, b = openBuf m (filePs cfg) src := by
  unfold openFile at h
  cases hr : fsRead fs f with
  | none => rw [hr] at h; simp at h
  | some s =>
    rw [hr] at h
    simp only [] at h
    split at h
    · simp only [Option.some.injEq, Prod.mk.injEq] at h; exact ⟨by rw [h.2], .allfile, by rw [← h.1, h.2]⟩
    · split at h
      · simp at h
      · simp only [Option.some.injEq, Prod.mk.injEq] at h; exact ⟨by rw [h.2], .mmap, by rw [← h.1, h.2]⟩
    · simp only [Option.some.injEq, Prod.mk.injEq] at h; exact ⟨by rw [h.2], .file, by rw [← h.1, h.2]⟩

/-! ## esl_buffer_OpenPipe -/

theorem openPipe_not_found (cfg : Cfg) (fs : FS) (run : Bytes → Bytes × Bool) (f : CStr) (h : fsRead fs f = none) :
    openPipe cfg fs run (some f) = { st := .enotfound, c := some (unsetErr (createPs cfg)), trace := [.acq .bf] } := by
  unfold openPipe; simp only [h]

theorem openPipe_found (cfg : Cfg) (fs : FS) (run : Bytes → Bytes × Bool) (f : CStr) (input : Bytes)
    (h : fsRead fs f = some input) :
    let out := (run input).1
    let ps := createPs cfg
    (out.length < ps ∧ (run input).2 = false →
        (openPipe cfg fs run (some f)).st = .fail ∧ (openPipe cfg fs run (some f)).c = some (unsetErr ps) ∧
        (openPipe cfg fs run (some f)).b = none) ∧
    (¬ (out.length < ps ∧ (run input).2 = false) →
        (openPipe cfg fs run (some f)).st = .ok ∧ (openPipe cfg fs run (some f)).b = some (openBuf .cmdpipe ps out, out) ∧
        (openPipe cfg fs run (some f)).c =
          some { mode_is := (if out.length < ps then ModeIs.allfile else ModeIs.cmdpipe),
                 mem := true, fp := decide (¬ out.length < ps), filename := some f, cmdline := true, pagesize := ps }) := by
  intro out ps
  unfold openPipe
  simp only [h]
  have hmin : (min (createPs cfg) (run input).1.length < createPs cfg) ↔ (run input).1.length < createPs cfg := by omega
  by_cases hs : (run input).1.length < createPs cfg
  · by_cases he : (run input).2 = false
    · refine ⟨fun _ => ?_, fun hn => absurd ⟨hs, he⟩ hn⟩
      simp [hmin, hs, he, ps]
    · have he' : (run input).2 = true := by simpa using he
      refine ⟨fun hh => absurd hh.2 he, fun _ => ?_⟩
      simp [hmin, hs, he', out, ps]
  · refine ⟨fun hh => absurd hh.1 hs, fun _ => ?_⟩
    simp [hmin, hs, out, ps]

theorem openPipe_shape (cfg : Cfg) (fs : FS) (run : Bytes → Bytes × Bool) (f : CStr) (b : Buf) (src : Bytes)
    (h : (openPipe cfg fs run (some f)).b = some (b, src)) :
    ∃ input, fsRead fs f = some input ∧ src = (run input).1 ∧ b = openBuf .cmdpipe (createPs cfg) src := by
  cases hr : fsRead fs f with
  | none => rw [openPipe_not_found cfg fs run f hr] at h; simp at h
  | some input =>
    refine ⟨input, rfl, ?_⟩
    obtain ⟨h1, h2⟩ := openPipe_found cfg fs run f input hr
    by_cases hc : (run input).1.length < createPs cfg ∧ (run input).2 = false
    · rw [(h1 hc).2.2] at h; simp at h
    · rw [(h2 hc).2.1] at h
      simp only [Option.some.injEq, Prod.mk.injEq] at h
      exact ⟨h.2.symm, by rw [← h.1, h.2]⟩

/-! ## esl_buffer_Open -/

/-- what `esl_buffer_Open` does once it has settled on `path` -/
def dispatch (usesPath : Bool) (cfg : Cfg) (fs : FS) (gunzip : Bytes → Bytes × Bool) (filename path : CStr) : OpenOut :=
  match gzTest usesPath filename path with
  | none => { st := .fault }
  | some true => openPipe cfg fs gunzip (some path)
  | some false => openFile cfg fs path

theorem fileExists_false (fs : FS) (p : CStr) (h : fileExists fs p = false) : fsRead fs p = none := by
  unfold fileExists at h
  cases hr : fsRead fs p with
  | none => rfl
  | some x => rw [hr] at h; simp at h

theorem openAny_stdin (usesPath : Bool) (cfg : Cfg) (fs : FS) (env : Env) (gunzip : Bytes → Bytes × Bool) (stdin : Bytes)
    (envvar : Option CStr) : openAny usesPath cfg fs env gunzip stdin dash envvar = openStream cfg stdin := by
  unfold openAny; simp

theorem openAny_found (usesPath : Bool) (cfg : Cfg) (fs : FS) (env : Env) (gunzip : Bytes → Bytes × Bool) (stdin : Bytes)
    (filename : CStr) (envvar : Option CStr) (hd : filename ≠ dash) (p : CStr)
    (h : (findPath fs env filename envvar).1 = some p) :
    (openAny usesPath cfg fs env gunzip stdin filename envvar).st = (dispatch usesPath cfg fs gunzip filename p).st ∧
    (openAny usesPath cfg fs env gunzip stdin filename envvar).c = (dispatch usesPath cfg fs gunzip filename p).c ∧
    (openAny usesPath cfg fs env gunzip stdin filename envvar).b = (dispatch usesPath cfg fs gunzip filename p).b := by
  unfold openAny dispatch
  rw [if_neg hd]
  rcases hfp : findPath fs env filename envvar with ⟨o, t⟩
  rw [hfp] at h
  simp only [] at h
  subst h
  simp only []
  cases gzTest usesPath filename p with
  | none => exact ⟨rfl, rfl, rfl⟩
  | some g => cases g <;> exact ⟨rfl, rfl, rfl⟩

theorem openAny_not_found (usesPath : Bool) (cfg : Cfg) (fs : FS) (env : Env) (gunzip : Bytes → Bytes × Bool) (stdin : Bytes)
    (filename : CStr) (envvar : Option CStr) (hd : filename ≠ dash)
    (h : (findPath fs env filename envvar).1 = none) :
    (openAny usesPath cfg fs env gunzip stdin filename envvar).st = .enotfound ∧
    (openAny usesPath cfg fs env gunzip stdin filename envvar).c = some (unsetErr pageSize) ∧
    (openAny usesPath cfg fs env gunzip stdin filename envvar).b = none := by
  have hx : fileExists fs filename = false := by
    cases hf : fileExists fs filename with
    | false => rfl
    | true => rw [findPath_cwd fs env filename envvar hf] at h; simp at h
  have hr := openFile_not_found cfg fs filename (fileExists_false fs filename hx)
  unfold openAny
  rw [if_neg hd]
  rcases hfp : findPath fs env filename envvar with ⟨o, t⟩
  rw [hfp] at h
  simp only [] at h
  subst h
  simp only [hr]
  refine ⟨?_, ?_, ?_⟩ <;> first | rfl | trivial

theorem openBuf_pagesize (m : Mode) (ps : Nat) (src : Bytes) : (openBuf m ps src).pagesize = ps := by
  cases m <;> try rfl
  show (if (openPaged src ps .cmdpipe).n < ps then _ else _ : Buf).pagesize = ps
  split <;> rfl

/-- a successful Open hands back one of the six initial windows of `Model.lean` on the bytes `src`, page size ≥ 1 -/
theorem openAny_shape (usesPath : Bool) (cfg : Cfg) (fs : FS) (env : Env) (gunzip : Bytes → Bytes × Bool) (stdin : Bytes)
    (filename : CStr) (envvar : Option CStr) (b : Buf) (src : Bytes)
    (h : (openAny usesPath cfg fs env gunzip stdin filename envvar).b = some (b, src)) :
    ∃ m ps, 0 < ps ∧ b = openBuf m ps src := by
  by_cases hd : filename = dash
  · subst hd
    rw [openAny_stdin] at h
    simp only [openStream, Option.some.injEq, Prod.mk.injEq] at h
    exact ⟨.stream, createPs cfg, createPs_pos cfg, by rw [← h.1, h.2]⟩
  · cases hf : (findPath fs env filename envvar).1 with
    | none => rw [(openAny_not_found usesPath cfg fs env gunzip stdin filename envvar hd hf).2.2] at h; simp at h
    | some p =>
      rw [(openAny_found usesPath cfg fs env gunzip stdin filename envvar hd p hf).2.2] at h
      unfold dispatch at h
      cases hg : gzTest usesPath filename p with
      | none => rw [hg] at h; simp at h
      | some g =>
        rw [hg] at h
        cases g with
        | true =>
          obtain ⟨_, _, _, hb⟩ := openPipe_shape cfg fs gunzip p b src h
          exact ⟨.cmdpipe, createPs cfg, createPs_pos cfg, hb⟩
        | false =>
          obtain ⟨_, m, hb⟩ := openFile_shape cfg fs p b src h
          exact ⟨m, filePs cfg, filePs_pos cfg, hb⟩

/-- which bytes: the content of the file at the path found — or, when the `.gz` test holds, what `gzip -dc` makes of it -/
theorem openAny_src (usesPath : Bool) (cfg : Cfg) (fs : FS) (env : Env) (gunzip : Bytes → Bytes × Bool) (stdin : Bytes)
    (filename : CStr) (envvar : Option CStr) (hd : filename ≠ dash) (b : Buf) (src : Bytes)
    (h : (openAny usesPath cfg fs env gunzip stdin filename envvar).b = some (b, src)) :
    ∃ p raw, (findPath fs env filename envvar).1 = some p ∧ fsRead fs p = some raw ∧
      ((gzTest usesPath filename p = some true ∧ src = (gunzip raw).1) ∨
       (gzTest usesPath filename p = some false ∧ src = raw)) := by
  cases hf : (findPath fs env filename envvar).1 with
  | none => rw [(openAny_not_found usesPath cfg fs env gunzip stdin filename envvar hd hf).2.2] at h; simp at h
  | some p =>
    rw [(openAny_found usesPath cfg fs env gunzip stdin filename envvar hd p hf).2.2] at h
    unfold dispatch at h
    cases hg : gzTest usesPath filename p with
    | none => rw [hg] at h; simp at h
    | some g =>
      rw [hg] at h
      cases g with
      | true =>
        obtain ⟨raw, hr, hs, _⟩ := openPipe_shape cfg fs gunzip p b src h
        exact ⟨p, raw, rfl, hr, Or.inl ⟨hg, hs⟩⟩
      | false =>
        obtain ⟨hr, _⟩ := openFile_shape cfg fs p b src h
        exact ⟨p, src, rfl, hr, Or.inr ⟨hg, rfl⟩⟩

/-- every valid history on the buffer Open hands back observes exactly what the specification "bytes + cursor"
    prescribes on `src` — hence the same as any other opener on the same bytes -/
theorem openAny_semantics (usesPath : Bool) (cfg : Cfg) (fs : FS) (env : Env) (gunzip : Bytes → Bytes × Bool) (stdin : Bytes)
    (filename : CStr) (envvar : Option CStr) (b : Buf) (src : Bytes)
    (h : (openAny usesPath cfg fs env gunzip stdin filename envvar).b = some (b, src))
    (P : Nat) (hP : P ≤ b.pagesize) (ops : List Op) (hv : ValidHist P (AState.init src) ops) :
    obsRun { b := b } ops = specRun (AState.init src) ops := by
  obtain ⟨m, ps, hps, hb⟩ := openAny_shape usesPath cfg fs env gunzip stdin filename envvar b src h
  subst hb
  rw [openBuf_pagesize] at hP
  exact history_spec m ps src hps P hP ops hv

/-! ## the `.gz` test -/

theorem mem_get_len (s : CStr) : (s ++ [(0 : UInt8)])[s.length]? = some 0 := by simp

theorem mem_get_none (s : CStr) (i : Nat) (h : s.length < i) : (s ++ [(0 : UInt8)])[i]? = none := by
  apply List.getElem?_eq_none
  simp; omega

theorem mem_get_some (s : CStr) (i : Nat) (a : UInt8) (h : (s ++ [(0 : UInt8)])[i]? = some a) (ha : a ≠ 0) : i < s.length := by
  rcases Nat.lt_trichotomy i s.length with h1 | h1 | h1
  · exact h1
  · subst h1; rw [mem_get_len] at h; simp at h; exact absurd h.symm ha
  · rw [mem_get_none s i h1] at h; simp at h

theorem strcmpLoop_oob (s : CStr) (i : Nat) (c : UInt8) (cs : Bytes) (h : s.length < i) :
    strcmpLoop (s ++ [0]) i (c :: cs) = none := by
  rw [strcmpLoop, mem_get_none s i h]

/-- starting inside the object `s ++ [0]`, `strcmp` never leaves it (it stops at the terminator at the latest) -/
theorem strcmpLoop_inb (s : CStr) : ∀ (t : Bytes) (i : Nat), i ≤ s.length → strcmpLoop (s ++ [0]) i t ≠ none := by
  intro t
  induction t with
  | nil => intro i _; simp [strcmpLoop]
  | cons c cs ih =>
    intro i hi
    rw [strcmpLoop]
    cases hget : (s ++ [(0 : UInt8)])[i]? with
    | none =>
      exfalso
      have := List.getElem?_eq_none_iff.mp hget
      simp at this; omega
    | some a =>
      simp only []
      by_cases hac : a ≠ c
      · rw [if_pos hac]; simp
      · rw [if_neg hac]
        by_cases hc0 : c = 0
        · rw [if_pos hc0]; simp
        · rw [if_neg hc0]
          have hac' : a = c := Decidable.not_not.mp hac
          have := mem_get_some s i a hget (by rw [hac']; exact hc0)
          exact ih (i + 1) (by omega)

theorem strcmpEqAt_none_iff (s : CStr) (i : Nat) (t : CStr) : strcmpEqAt s i t = none ↔ s.length < i := by
  unfold strcmpEqAt
  constructor
  · intro h
    rcases Nat.lt_or_ge s.length i with h1 | h1
    · exact h1
    · exact absurd h (strcmpLoop_inb s (t ++ [0]) i h1)
  · intro h
    cases t with
    | nil => exact strcmpLoop_oob s i 0 [] h
    | cons c cs => exact strcmpLoop_oob s i c (cs ++ [0]) h

theorem strcmpLoop_true_cons (mem : Bytes) (i : Nat) (c : UInt8) (cs : Bytes)
    (h : strcmpLoop mem i (c :: cs) = some true) :
    mem[i]? = some c ∧ (c = 0 ∨ strcmpLoop mem (i + 1) cs = some true) := by
  rw [strcmpLoop] at h
  cases hget : mem[i]? with
  | none => rw [hget] at h; simp at h
  | some a =>
    rw [hget] at h
    simp only [] at h
    by_cases hac : a ≠ c
    · rw [if_pos hac] at h; simp at h
    · rw [if_neg hac] at h
      have hac' : a = c := Decidable.not_not.mp hac
      refine ⟨by rw [hac'], ?_⟩
      by_cases hc0 : c = 0
      · exact Or.inl hc0
      · rw [if_neg hc0] at h; exact Or.inr h

/-- `strcmp(s + i, ".gz") == 0` needs three more bytes of `s` behind `i` -/
theorem strcmpEqAt_dotGz_true (s : CStr) (i : Nat) (h : strcmpEqAt s i dotGz = some true) :
    i + 3 ≤ s.length ∧ s[i]? = some 46 ∧ s[i + 1]? = some 103 ∧ s[i + 2]? = some 122 ∧
    (s ++ [(0 : UInt8)])[i + 3]? = some 0 := by
  unfold strcmpEqAt at h
  have e : dotGz ++ [(0 : UInt8)] = [46, 103, 122, 0] := rfl
  rw [e] at h
  obtain ⟨g0, r0⟩ := strcmpLoop_true_cons _ _ _ _ h
  rcases r0 with r0 | r0
  · exact absurd r0 (by decide)
  obtain ⟨g1, r1⟩ := strcmpLoop_true_cons _ _ _ _ r0
  rcases r1 with r1 | r1
  · exact absurd r1 (by decide)
  obtain ⟨g2, r2⟩ := strcmpLoop_true_cons _ _ _ _ r1
  rcases r2 with r2 | r2
  · exact absurd r2 (by decide)
  obtain ⟨g3, _⟩ := strcmpLoop_true_cons _ _ _ _ r2
  have l0 := mem_get_some s i 46 g0 (by decide)
  have l1 := mem_get_some s (i + 1) 103 g1 (by decide)
  have l2 := mem_get_some s (i + 1 + 1) 122 g2 (by decide)
  rw [List.getElem?_append_left l0] at g0
  rw [List.getElem?_append_left l1] at g1
  rw [List.getElem?_append_left l2] at g2
  exact ⟨by omega, g0, g1, g2, g3⟩

theorem gzTest_none_iff (filename path : CStr) :
    gzTest false filename path = none ↔ 3 < path.length ∧ filename.length < path.length - 3 := by
  unfold gzTest
  simp only [Bool.false_eq_true, if_false]
  by_cases h : path.length > 3
  · rw [if_pos h, strcmpEqAt_none_iff]
    exact ⟨fun x => ⟨h, x⟩, fun x => x.2⟩
  · rw [if_neg h]
    exact ⟨fun x => by simp at x, fun x => absurd x.1 h⟩

theorem gzTest_fixed_ne_none (filename path : CStr) : gzTest true filename path ≠ none := by
  unfold gzTest
  simp only [if_true]
  split
  · intro h
    have := (strcmpEqAt_none_iff path (path.length - 3) dotGz).mp h
    omega
  · simp

theorem envPath_length (d f : CStr) : (envPath d f).length = d.length + 1 + f.length := by
  simp [envPath]; omega

/-- the test of the working tree on a file found through the directory list: out of bounds for a directory name of
    3 bytes or more, and `false` otherwise — it never says "gzip" -/
theorem gzTest_env (d filename : CStr) :
    gzTest false filename (envPath d filename) = if 3 ≤ d.length then none else some false := by
  by_cases hd : 3 ≤ d.length
  · rw [if_pos hd, gzTest_none_iff, envPath_length]; omega
  · rw [if_neg hd]
    have hn : gzTest false filename (envPath d filename) ≠ none := by
      rw [Ne, gzTest_none_iff, envPath_length]; omega
    cases hg : gzTest false filename (envPath d filename) with
    | none => exact absurd hg hn
    | some g =>
      cases g with
      | false => rfl
      | true =>
        exfalso
        unfold gzTest at hg
        simp only [Bool.false_eq_true, if_false] at hg
        split at hg
        · have := (strcmpEqAt_dotGz_true filename _ hg).1
          rw [envPath_length] at this
          rename_i h3
          rw [envPath_length] at h3
          omega
        · simp at hg

/-- in the current directory (`path = filename`) the test is what the documentation says: the name ends in `.gz` -/
theorem gzTest_cwd_ne_none (usesPath : Bool) (filename : CStr) : gzTest usesPath filename filename ≠ none := by
  cases usesPath with
  | true => exact gzTest_fixed_ne_none filename filename
  | false => rw [Ne, gzTest_none_iff]; omega

theorem openFile_st (cfg : Cfg) (fs : FS) (f : CStr) : (openFile cfg fs f).st ≠ .fault := by
  unfold openFile
  cases fsRead fs f with
  | none => simp
  | some src =>
    simp only []
    split
    · simp
    · split <;> simp
    · simp

theorem openPipe_st (cfg : Cfg) (fs : FS) (run : Bytes → Bytes × Bool) (f : Option CStr) :
    (openPipe cfg fs run f).st ≠ .fault := by
  unfold openPipe
  cases f with
  | none =>
    simp only []
    split
    · split <;> simp
    · simp
  | some f =>
    simp only []
    cases fsRead fs f with
    | none => simp
    | some input =>
      simp only []
      split
      · split <;> simp
      · simp

theorem dispatch_fault_iff (usesPath : Bool) (cfg : Cfg) (fs : FS) (gunzip : Bytes → Bytes × Bool) (filename p : CStr) :
    (dispatch usesPath cfg fs gunzip filename p).st = .fault ↔ gzTest usesPath filename p = none := by
  unfold dispatch
  cases hg : gzTest usesPath filename p with
  | none => simp
  | some g =>
    cases g with
    | true => simp only []; exact ⟨fun h => absurd h (openPipe_st _ _ _ _), fun h => by simp at h⟩
    | false => simp only []; exact ⟨fun h => absurd h (openFile_st _ _ _), fun h => by simp at h⟩

theorem openAny_fault_iff (usesPath : Bool) (cfg : Cfg) (fs : FS) (env : Env) (gunzip : Bytes → Bytes × Bool) (stdin : Bytes)
    (filename : CStr) (envvar : Option CStr) :
    (openAny usesPath cfg fs env gunzip stdin filename envvar).st = .fault ↔
      filename ≠ dash ∧ ∃ p, (findPath fs env filename envvar).1 = some p ∧ gzTest usesPath filename p = none := by
  by_cases hd : filename = dash
  · subst hd
    rw [openAny_stdin]
    simp [openStream]
  · cases hf : (findPath fs env filename envvar).1 with
    | none =>
      rw [(openAny_not_found usesPath cfg fs env gunzip stdin filename envvar hd hf).1]
      simp
    | some p =>
      rw [(openAny_found usesPath cfg fs env gunzip stdin filename envvar hd p hf).1, dispatch_fault_iff]
      simp [hd]

/-! ## esl_buffer_Close: every resource exactly once -/

theorem runActs_append (live : List Rsrc) (t1 t2 : List Act) :
    runActs live (t1 ++ t2) = (runActs live t1).bind (fun l => runActs l t2) := by
  induction t1 generalizing live with
  | nil => rfl
  | cons a t ih =>
    cases a with
    | acq r =>
      simp only [List.cons_append, runActs]
      split
      · rfl
      · exact ih _
    | rel r =>
      simp only [List.cons_append, runActs]
      split
      · exact ih _
      · rfl

theorem balanced_iff (t : List Act) : balanced t = true ↔ runActs [] t = some [] := by
  unfold balanced; exact beq_iff_eq

/-- OpenFile then Close, started with `live` = nothing or the caller's `path` (released by Open between the two) -/
theorem openFile_close (cfg : Cfg) (fs : FS) (f : CStr) :
    runActs [] ((openFile cfg fs f).trace ++ closeOpt (openFile cfg fs f).c) = some [] ∧
    runActs [.path] ((openFile cfg fs f).trace ++ ([.rel .path] ++ closeOpt (openFile cfg fs f).c)) = some [] := by
  unfold openFile
  cases fsRead fs f with
  | none => exact ⟨rfl, rfl⟩
  | some src =>
    simp only []
    split
    · by_cases h0 : 0 < src.length
      · simp only [h0, if_true, decide_true]; exact ⟨rfl, rfl⟩
      · simp only [h0, if_false, decide_false]; exact ⟨rfl, rfl⟩
    · split
      · exact ⟨rfl, rfl⟩
      · exact ⟨rfl, rfl⟩
    · exact ⟨rfl, rfl⟩

theorem openPipe_close (cfg : Cfg) (fs : FS) (run : Bytes → Bytes × Bool) (f : Option CStr) :
    runActs [] ((openPipe cfg fs run f).trace ++ closeOpt (openPipe cfg fs run f).c) = some [] ∧
    runActs [.path] ((openPipe cfg fs run f).trace ++ ([.rel .path] ++ closeOpt (openPipe cfg fs run f).c)) = some [] := by
  unfold openPipe
  cases f with
  | none =>
    simp only []
    split
    · split <;> exact ⟨rfl, rfl⟩
    · exact ⟨rfl, rfl⟩
  | some f =>
    simp only []
    cases fsRead fs f with
    | none => exact ⟨rfl, rfl⟩
    | some input =>
      simp only []
      split
      · split <;> exact ⟨rfl, rfl⟩
      · exact ⟨rfl, rfl⟩

theorem openStream_close (cfg : Cfg) (stream : Bytes) :
    runActs [] ((openStream cfg stream).trace ++ closeOpt (openStream cfg stream).c) = some [] := rfl

theorem openMem_close (cfg : Cfg) (p : Bytes) :
    runActs [] ((openMem cfg p).trace ++ closeOpt (openMem cfg p).c) = some [] := rfl

theorem fileEnvOpen_trace (fs : FS) (env : Env) (fname : CStr) (envvar : Option CStr) (o : Option CStr) (t : List Act)
    (h : fileEnvOpen fs env fname envvar = (o, t)) :
    runActs [] t = some (if o.isSome then [.path] else []) := by
  unfold fileEnvOpen at h
  split at h
  · cases h; rfl
  · split at h
    · cases h; rfl
    · split at h <;> (cases h; rfl)

/-- the search leaves exactly `path` live when it finds the file, and nothing otherwise -/
theorem findPath_trace (fs : FS) (env : Env) (filename : CStr) (envvar : Option CStr) :
    runActs [] (findPath fs env filename envvar).2 =
      some (if (findPath fs env filename envvar).1.isSome then [.path] else []) := by
  unfold findPath
  split
  · rfl
  · exact fileEnvOpen_trace fs env filename envvar _ _ rfl

/-- `esl_buffer_Open` followed by `esl_buffer_Close` of what it handed back -/
theorem openAny_close (usesPath : Bool) (cfg : Cfg) (fs : FS) (env : Env) (gunzip : Bytes → Bytes × Bool) (stdin : Bytes)
    (filename : CStr) (envvar : Option CStr)
    (hst : (openAny usesPath cfg fs env gunzip stdin filename envvar).st ≠ .fault) :
    runActs [] ((openAny usesPath cfg fs env gunzip stdin filename envvar).trace ++
                closeOpt (openAny usesPath cfg fs env gunzip stdin filename envvar).c) = some [] := by
  by_cases hd : filename = dash
  · subst hd; rw [openAny_stdin]; rfl
  · have ht := findPath_trace fs env filename envvar
    unfold openAny at hst ⊢
    rw [if_neg hd] at hst ⊢
    rcases hfp : findPath fs env filename envvar with ⟨o, t⟩
    rw [hfp] at ht hst
    simp only [] at ht hst
    cases o with
    | none =>
      simp only [Option.isSome_none, Bool.false_eq_true, if_false] at ht
      simp only [List.append_assoc]
      rw [runActs_append, ht]
      exact (openFile_close cfg fs filename).1
    | some p =>
      simp only [Option.isSome_some, if_true] at ht
      simp only [] at hst ⊢
      cases hg : gzTest usesPath filename p with
      | none => rw [hg] at hst; exact absurd rfl hst
      | some g =>
        cases g with
        | true =>
          simp only [List.append_assoc]
          rw [runActs_append, ht]
          exact (openPipe_close cfg fs gunzip (some p)).2
        | false =>
          simp only [List.append_assoc]
          rw [runActs_append, ht]
          exact (openFile_close cfg fs p).2

/-! ## the strings of FetchLineAsStr / FetchTokenAsStr -/

theorem asStrAlloc_spec (l : Bytes) :
    (asStrAlloc l).length = l.length + 1 ∧ (asStrAlloc l)[l.length]? = some 0 ∧ (asStrAlloc l).take l.length = l ∧
    (asStrAlloc l).getLast? = some 0 := by
  unfold asStrAlloc
  refine ⟨by simp, by simp, by simp, by simp⟩

theorem strlenIn_cons (c : UInt8) (cs : Bytes) :
    strlenIn (c :: cs) = if c = 0 then some 0 else (strlenIn cs).map (· + 1) := rfl

/-- `strlen` of the result is the returned length exactly when the line/token has no embedded NUL -/
theorem strlen_asStr_iff (l : Bytes) : strlenIn (asStrAlloc l) = some l.length ↔ (0 : UInt8) ∉ l := by
  unfold asStrAlloc
  induction l with
  | nil => simp [strlenIn]
  | cons c cs ih =>
    rw [List.cons_append, strlenIn_cons]
    by_cases hc : c = 0
    · rw [if_pos hc]; subst hc; simp
    · rw [if_neg hc]
      have : (0 : UInt8) ∉ c :: cs ↔ (0 : UInt8) ∉ cs := by
        simp only [List.mem_cons, not_or]
        exact ⟨fun h => h.2, fun h => ⟨fun e => hc e.symm, h⟩⟩
      rw [this, ← ih]
      cases strlenIn (cs ++ [0]) with
      | none => simp
      | some k => simp

/-- in every case `strlen` stops inside the allocation: at the first NUL of the line/token, or at the terminator -/
theorem strlen_asStr_le (l : Bytes) : ∃ k, strlenIn (asStrAlloc l) = some k ∧ k ≤ l.length ∧ (asStrAlloc l)[k]? = some 0 := by
  unfold asStrAlloc
  induction l with
  | nil => exact ⟨0, rfl, Nat.le_refl _, rfl⟩
  | cons c cs ih =>
    rw [List.cons_append, strlenIn_cons]
    by_cases hc : c = 0
    · rw [if_pos hc]; subst hc; exact ⟨0, rfl, Nat.zero_le _, rfl⟩
    · rw [if_neg hc]
      obtain ⟨k, h1, h2, h3⟩ := ih
      refine ⟨k + 1, by rw [h1]; rfl, by simp; omega, ?_⟩
      simpa using h3

theorem fetchLineAsStr_spec (b : Buf) (h : WF b) (hl : Loaded b) :
    ((fetchLineAsStr b).1, (fetchLineAsStr b).2.2.2.abs) = ((specGetLine b.abs).1, (specGetLine b.abs).2.2) ∧
    ((fetchLineAsStr b).1 = .ok →
        (fetchLineAsStr b).2.1 = some ((specGetLine b.abs).2.1 ++ [0]) ∧
        (fetchLineAsStr b).2.2.1 = (specGetLine b.abs).2.1.length) ∧
    ((fetchLineAsStr b).1 ≠ .ok → (fetchLineAsStr b).2.1 = none ∧ (fetchLineAsStr b).2.2.1 = 0) := by
  obtain ⟨_, hs, hn, _, _⟩ := fetchLine_refines b true h hl
  have h1 : (fetchLine b true).1.st = (specGetLine b.abs).1 := by rw [← hs]
  have h2 : (fetchLine b true).1.bytes = (specGetLine b.abs).2.1 := by rw [← hs]
  have h3 : (fetchLine b true).2.abs = (specGetLine b.abs).2.2 := by rw [← hs]
  unfold fetchLineAsStr
  by_cases hok : (fetchLine b true).1.st = .ok
  · simp only [hok, if_true]
    refine ⟨by rw [← h1, hok, h3], fun _ => ⟨by rw [← h2]; rfl, by rw [hn, h2]⟩, fun hne => absurd rfl hne⟩
  · simp only [hok, if_false]
    exact ⟨by rw [h1, h3], fun e => e.elim, by simp⟩

theorem fetchTokenAsStr_spec (b : Buf) (sep : Bytes) (h : WF b) :
    ((fetchTokenAsStr b sep).1, (fetchTokenAsStr b sep).2.2.2.abs) = ((specToken b.abs sep).1, (specToken b.abs sep).2.2) ∧
    ((fetchTokenAsStr b sep).1 = .ok →
        (fetchTokenAsStr b sep).2.1 = some ((specToken b.abs sep).2.1 ++ [0]) ∧
        (fetchTokenAsStr b sep).2.2.1 = (specToken b.abs sep).2.1.length) ∧
    ((fetchTokenAsStr b sep).1 ≠ .ok → (fetchTokenAsStr b sep).2.1 = none ∧ (fetchTokenAsStr b sep).2.2.1 = 0) := by
  obtain ⟨_, hs, hn, _, _⟩ := fetchToken_refines b sep true h
  have h1 : (fetchToken b sep true).1.st = (specToken b.abs sep).1 := by rw [← hs]
  have h2 : (fetchToken b sep true).1.bytes = (specToken b.abs sep).2.1 := by rw [← hs]
  have h3 : (fetchToken b sep true).2.abs = (specToken b.abs sep).2.2 := by rw [← hs]
  unfold fetchTokenAsStr
  by_cases hok : (fetchToken b sep true).1.st = .ok
  · simp only [hok, if_true]
    refine ⟨by rw [← h1, hok, h3], fun _ => ⟨by rw [← h2]; rfl, by rw [hn, h2]⟩, fun hne => absurd rfl hne⟩
  · simp only [hok, if_false]
    exact ⟨by rw [h1, h3], fun e => e.elim, by simp⟩

/-! ### where the test is sound: it says whether the path ends in `.gz` -/

theorem strcmpEqAt_dotGz_iff (s : CStr) (i : Nat) (hi : i + 3 = s.length) :
    strcmpEqAt s i dotGz = some true ↔ s.drop i = dotGz := by
  constructor
  · intro h
    obtain ⟨_, g0, g1, g2, _⟩ := strcmpEqAt_dotGz_true s i h
    apply List.ext_getElem?
    intro j
    rw [List.getElem?_drop]
    match j with
    | 0 => rw [Nat.add_zero, g0]; rfl
    | 1 => rw [g1]; rfl
    | 2 => rw [g2]; rfl
    | j + 3 =>
      have e1 : s[i + (j + 3)]? = none := List.getElem?_eq_none (by omega)
      have e2 : dotGz[j + 3]? = none := List.getElem?_eq_none (by simp [dotGz])
      rw [e1, e2]
  · intro h
    have hj : ∀ j, s[i + j]? = dotGz[j]? := by intro j; rw [← h, List.getElem?_drop]
    have l0 : i < s.length := by omega
    have l1 : i + 1 < s.length := by omega
    have l2 : i + 1 + 1 < s.length := by omega
    have g0 : (s ++ [(0 : UInt8)])[i]? = some 46 := by rw [List.getElem?_append_left l0]; exact hj 0
    have g1 : (s ++ [(0 : UInt8)])[i + 1]? = some 103 := by rw [List.getElem?_append_left l1]; exact hj 1
    have g2 : (s ++ [(0 : UInt8)])[i + 1 + 1]? = some 122 := by rw [List.getElem?_append_left l2]; exact hj 2
    have g3 : (s ++ [(0 : UInt8)])[i + 1 + 1 + 1]? = some 0 := by
      have : i + 1 + 1 + 1 = s.length := by omega
      rw [this]; exact mem_get_len s
    unfold strcmpEqAt
    have e : dotGz ++ [(0 : UInt8)] = [46, 103, 122, 0] := rfl
    rw [e, strcmpLoop, g0]
    simp only []
    rw [if_neg (by decide), if_neg (by decide), strcmpLoop, g1]
    simp only []
    rw [if_neg (by decide), if_neg (by decide), strcmpLoop, g2]
    simp only []
    rw [if_neg (by decide), if_neg (by decide), strcmpLoop, g3]
    simp only []
    rw [if_neg (by decide)]
    simp

/-- whenever the string indexed is the path itself, the test is the documented one -/
theorem gzTest_self (usesPath : Bool) (s : CStr) :
    gzTest usesPath s s = some (decide (3 < s.length ∧ s.drop (s.length - 3) = dotGz)) := by
  have hn := gzTest_cwd_ne_none usesPath s
  have hs : gzTest usesPath s s = if s.length > 3 then strcmpEqAt s (s.length - 3) dotGz else some false := by
    unfold gzTest; cases usesPath <;> rfl
  rw [hs] at hn ⊢
  by_cases h3 : s.length > 3
  · rw [if_pos h3] at hn ⊢
    have hiff := strcmpEqAt_dotGz_iff s (s.length - 3) (by omega)
    cases hg : strcmpEqAt s (s.length - 3) dotGz with
    | none => exact absurd hg hn
    | some g =>
      cases g with
      | true =>
        have := hiff.mp hg
        simp [h3, this]
      | false =>
        have : ¬ s.drop (s.length - 3) = dotGz := fun e => by rw [hiff.mpr e] at hg; simp at hg
        simp [this]
  · rw [if_neg h3]
    have : ¬ 3 < s.length := h3
    simp [this]

theorem gzTest_fixed (filename path : CStr) :
    gzTest true filename path = some (decide (3 < path.length ∧ path.drop (path.length - 3) = dotGz)) := by
  rw [← gzTest_self true path]
  unfold gzTest; rfl

end EaselModel.Buffer.OpenFile
