import EaselModel.Buffer.MemTokLemmas
/-! `esl_memstrcmp`, `esl_memstrpfx`, `esl_memstrcontains` (+ `_case`), `esl_memstrdup`, `esl_memstrcpy`: the loops of
`Mem.lean` against list equality / prefix / infix. Core Lean only. -/
namespace EaselModel.Buffer.Mem
open EaselModel.Buffer

/-- list form of the comparison loop: `none` = `return FALSE`, `some k` = left normally after `k` steps -/
def cmpList (f : UInt8 → UInt8) : Bytes → Bytes → Option Nat
  | [], _ => some 0
  | _ :: _, [] => some 0
  | pc :: lp, sc :: ls => if sc = 0 then some 0 else if f pc ≠ f sc then none else (cmpList f lp ls).map (· + 1)

theorem cmpLoop_eq (f : UInt8 → UInt8) (p sz : Bytes) (off : Nat) : ∀ (lp ls : Bytes) (pos : Nat),
    p.drop (off + pos) = lp → sz.drop pos = ls → (0 : UInt8) ∈ ls →
    cmpLoop f p sz off pos = some ((cmpList f lp ls).map (pos + ·)) := by
  intro lp
  induction lp with
  | nil =>
    intro ls pos hp _ _
    have : ¬ off + pos < p.length := by
      intro hlt; rw [List.drop_eq_getElem_cons hlt] at hp; cases hp
    rw [cmpLoop]; simp [this, cmpList]
  | cons pc lp ih =>
    intro ls pos hp hs h0
    obtain ⟨hg, hd, hlt⟩ := get_of_drop hp
    cases ls with
    | nil => simp at h0
    | cons sc ls =>
      obtain ⟨hgs, hds, _⟩ := get_of_drop hs
      rw [cmpLoop]
      simp only [hlt, if_true, hgs, hg, cmpList]
      by_cases hz : sc = 0
      · simp [hz]
      · have h0' : (0 : UInt8) ∈ ls := by
          rcases List.mem_cons.mp h0 with h | h
          · exact absurd h.symm hz
          · exact h
        simp only [ne_eq, hz, not_false_eq_true, if_true, if_false]
        by_cases hne : f pc = f sc
        · simp only [hne, not_true, if_false]
          rw [ih ls (pos + 1) (by rw [← Nat.add_assoc]; exact hd) hds h0']
          cases cmpList f lp ls with
          | none => rfl
          | some k => simp only [Option.map_some]; congr 2; omega
        · simp [hne]

/-- prefix test on lists: the loop result followed by `s[pos] == '\0'` -/
theorem cmpList_pfx (f : UInt8 → UInt8) : ∀ (lp ls : Bytes), (0 : UInt8) ∈ ls →
    (match cmpList f lp ls with | none => false | some k => ls[k]? == some 0) =
      decide ((ls.takeWhile (· != 0)).map f <+: lp.map f) := by
  intro lp
  induction lp with
  | nil =>
    intro ls h0
    cases ls with
    | nil => simp at h0
    | cons sc ls =>
      by_cases hz : sc = 0 <;> simp [cmpList, hz]
  | cons pc lp ih =>
    intro ls h0
    cases ls with
    | nil => simp at h0
    | cons sc ls =>
      by_cases hz : sc = 0
      · simp [cmpList, hz]
      · have h0' : (0 : UInt8) ∈ ls := by
          rcases List.mem_cons.mp h0 with h | h
          · exact absurd h.symm hz
          · exact h
        by_cases hne : f pc = f sc
        · have := ih ls h0'
          simp only [cmpList, hz, if_false, ne_eq, hne, not_true, List.takeWhile_cons, bne_iff_ne, not_false_eq_true,
            if_true, List.map_cons, List.cons_prefix_cons, true_and]
          rw [← this]
          cases cmpList f lp ls with
          | none => rfl
          | some k => simp
        · have hne' : ¬ f sc = f pc := fun e => hne e.symm
          simp [cmpList, hz, hne, hne', List.cons_prefix_cons]

/-- equality test on lists: the loop result followed by `pos == n` and `s[pos] == '\0'` -/
theorem cmpList_eq (f : UInt8 → UInt8) : ∀ (lp ls : Bytes), (0 : UInt8) ∈ ls →
    (match cmpList f lp ls with | none => false | some k => (k == lp.length) && (ls[k]? == some 0)) =
      decide (lp.map f = (ls.takeWhile (· != 0)).map f) := by
  intro lp
  induction lp with
  | nil =>
    intro ls h0
    cases ls with
    | nil => simp at h0
    | cons sc ls =>
      by_cases hz : sc = 0 <;> simp [cmpList, hz]
  | cons pc lp ih =>
    intro ls h0
    cases ls with
    | nil => simp at h0
    | cons sc ls =>
      by_cases hz : sc = 0
      · simp [cmpList, hz]
      · have h0' : (0 : UInt8) ∈ ls := by
          rcases List.mem_cons.mp h0 with h | h
          · exact absurd h.symm hz
          · exact h
        by_cases hne : f pc = f sc
        · have := ih ls h0'
          simp only [cmpList, hz, if_false, ne_eq, hne, not_true, List.takeWhile_cons, bne_iff_ne, not_false_eq_true,
            if_true, List.map_cons, List.cons.injEq, true_and]
          rw [← this]
          cases cmpList f lp ls with
          | none => rfl
          | some k => simp
        · simp [cmpList, hz, hne]


theorem cmpList_bound (f : UInt8 → UInt8) : ∀ (lp ls : Bytes) (k : Nat), (0 : UInt8) ∈ ls → cmpList f lp ls = some k →
    ∃ c, ls[k]? = some c := by
  intro lp
  induction lp with
  | nil =>
    intro ls k h0 h
    cases ls with
    | nil => simp at h0
    | cons sc ls => simp only [cmpList] at h; injection h with h; subst h; exact ⟨sc, rfl⟩
  | cons pc lp ih =>
    intro ls k h0 h
    cases ls with
    | nil => simp at h0
    | cons sc ls =>
      simp only [cmpList] at h
      split at h
      · injection h with h; subst h; exact ⟨sc, rfl⟩
      · rename_i hz
        have h0' : (0 : UInt8) ∈ ls := by
          rcases List.mem_cons.mp h0 with h | h
          · exact absurd h.symm hz
          · exact h
        split at h
        · cases h
        · obtain ⟨k', hk', rfl⟩ := Option.map_eq_some_iff.mp h
          obtain ⟨c, hc⟩ := ih ls k' h0' hk'
          exact ⟨c, by simpa using hc⟩

/-- **`esl_memstrcmp` / `esl_memstrcmp_case`** on two non-NULL arguments: equality with the C string (modulo `f`) -/
theorem memstrcmpF_some (f : UInt8 → UInt8) (p s : Bytes) :
    memstrcmpF f (some p) (some s) = some (decide (p.map f = (cstr s).map f)) := by
  unfold memstrcmpF
  simp only []
  rw [cmpLoop_eq f p (cz s) 0 p (cz s) 0 (by simp) (by simp) (zero_mem_cz s)]
  have h := cmpList_eq f p (cz s) (zero_mem_cz s)
  rw [takeWhile_cz] at h
  rw [← h]
  cases hc : cmpList f p (cz s) with
  | none => rfl
  | some k =>
    obtain ⟨c, hcs⟩ := cmpList_bound f p (cz s) k (zero_mem_cz s) hc
    simp only [Option.map_some, Nat.zero_add, hcs]
    by_cases hk : k = p.length <;> simp [hk]

/-- **`esl_memstrpfx` / `esl_memstrpfx_case`** on two non-NULL arguments: the C string is a prefix (modulo `f`) -/
theorem memstrpfxF_some (f : UInt8 → UInt8) (p s : Bytes) :
    memstrpfxF f (some p) (some s) = some (decide ((cstr s).map f <+: p.map f)) := by
  unfold memstrpfxF
  simp only []
  rw [cmpLoop_eq f p (cz s) 0 p (cz s) 0 (by simp) (by simp) (zero_mem_cz s)]
  have h := cmpList_pfx f p (cz s) (zero_mem_cz s)
  rw [takeWhile_cz] at h
  rw [← h]
  cases hc : cmpList f p (cz s) with
  | none => rfl
  | some k =>
    obtain ⟨c, hcs⟩ := cmpList_bound f p (cz s) k (zero_mem_cz s) hc
    simp [hcs]

/-- the NULL conventions of `esl_memstrcmp`: a NULL line (of length 0) equals the NULL string and the empty string only -/
theorem memstrcmpF_null (f : UInt8 → UInt8) (p s : Bytes) :
    memstrcmpF f none none = some true ∧ memstrcmpF f none (some s) = some (decide (cstr s = [])) ∧
    memstrcmpF f (some p) none = some false := by
  refine ⟨rfl, ?_, rfl⟩
  unfold memstrcmpF cz cstr
  cases s with
  | nil => simp
  | cons c cs => by_cases hc : c = 0 <;> simp [hc]

theorem memstrpfxF_null (f : UInt8 → UInt8) (p s : Option Bytes) (h : p = none ∨ s = none) : memstrpfxF f p s = some false := by
  rcases h with h | h <;> subst h
  · rfl
  · cases p <;> rfl

/-! ## esl_memstrcontains -/

/-- list form of the inner loop: number of steps -/
def inList : Bytes → Bytes → Nat
  | [], _ => 0
  | _ :: _, [] => 0
  | pc :: lp, sc :: ls => if sc = 0 then 0 else if pc ≠ sc then 0 else inList lp ls + 1

theorem inLoop_eq (p sz : Bytes) (s0 : Nat) : ∀ (lp ls : Bytes) (pos : Nat),
    p.drop (s0 + pos) = lp → sz.drop pos = ls → (0 : UInt8) ∈ ls → inLoop p sz s0 pos = some (pos + inList lp ls) := by
  intro lp
  induction lp with
  | nil =>
    intro ls pos hp _ _
    have : ¬ s0 + pos < p.length := by
      intro hlt; rw [List.drop_eq_getElem_cons hlt] at hp; cases hp
    rw [inLoop]; simp [this, inList]
  | cons pc lp ih =>
    intro ls pos hp hs h0
    obtain ⟨hg, hd, hlt⟩ := get_of_drop hp
    cases ls with
    | nil => simp at h0
    | cons sc ls =>
      obtain ⟨hgs, hds, _⟩ := get_of_drop hs
      rw [inLoop]
      simp only [hlt, if_true, hgs, hg, inList]
      by_cases hz : sc = 0
      · simp [hz]
      · have h0' : (0 : UInt8) ∈ ls := by
          rcases List.mem_cons.mp h0 with h | h
          · exact absurd h.symm hz
          · exact h
        simp only [ne_eq, hz, not_false_eq_true, if_true, if_false]
        by_cases hne : pc = sc
        · simp only [hne, not_true, if_false]
          rw [ih ls (pos + 1) (by rw [← Nat.add_assoc]; exact hd) hds h0']
          congr 1; omega
        · simp [hne]

theorem inList_pfx : ∀ (lp ls : Bytes), (0 : UInt8) ∈ ls →
    (∃ c, ls[inList lp ls]? = some c) ∧ (ls[inList lp ls]? == some 0) = decide (ls.takeWhile (· != 0) <+: lp) := by
  intro lp
  induction lp with
  | nil =>
    intro ls h0
    cases ls with
    | nil => simp at h0
    | cons sc ls => by_cases hz : sc = 0 <;> simp [inList, hz]
  | cons pc lp ih =>
    intro ls h0
    cases ls with
    | nil => simp at h0
    | cons sc ls =>
      by_cases hz : sc = 0
      · simp [inList, hz]
      · have h0' : (0 : UInt8) ∈ ls := by
          rcases List.mem_cons.mp h0 with h | h
          · exact absurd h.symm hz
          · exact h
        by_cases hne : pc = sc
        · obtain ⟨h1, h2⟩ := ih ls h0'
          simp only [inList, hz, if_false, ne_eq, hne, not_true, List.getElem?_cons_succ, List.takeWhile_cons, bne_iff_ne,
            not_false_eq_true, if_true, List.cons_prefix_cons, true_and]
          exact ⟨h1, h2⟩
        · have hne' : ¬ sc = pc := fun e => hne e.symm
          simp [inList, hz, hne, hne', List.cons_prefix_cons]

theorem containsLoop_eq (p sz : Bytes) (h0 : (0 : UInt8) ∈ sz) : ∀ (lp : Bytes) (s0 : Nat), p.drop s0 = lp →
    containsLoop p sz s0 = some (decide (lp ≠ [] ∧ sz.takeWhile (· != 0) <:+: lp)) := by
  intro lp
  induction lp with
  | nil =>
    intro s0 hp
    have : ¬ s0 < p.length := by
      intro hlt; rw [List.drop_eq_getElem_cons hlt] at hp; cases hp
    rw [containsLoop]; simp [this]
  | cons pc lp ih =>
    intro s0 hp
    obtain ⟨_, hd, hlt⟩ := get_of_drop hp
    rw [containsLoop]
    simp only [hlt, if_true]
    rw [inLoop_eq p sz s0 (pc :: lp) sz 0 (by simpa using hp) (by simp) h0, Nat.zero_add]
    obtain ⟨⟨c, hc⟩, h2⟩ := inList_pfx (pc :: lp) sz h0
    simp only [hc]
    rw [hc] at h2
    by_cases hz : c = 0
    · subst hz
      have : sz.takeWhile (· != 0) <+: pc :: lp := by simpa using h2
      simp [List.infix_cons_iff, this]
    · have hn : ¬ sz.takeWhile (· != 0) <+: pc :: lp := by
        intro hh
        have : (some c == some (0 : UInt8)) = true := by rw [h2]; simpa using hh
        simp at this; exact hz this
      rw [if_neg hz, ih (s0 + 1) hd]
      simp only [List.infix_cons_iff, hn, false_or, ne_eq, reduceCtorEq, not_false_eq_true, true_and]
      congr 1
      cases lp with
      | nil =>
        have : ¬ sz.takeWhile (· != 0) = [] := fun e => hn (by rw [e]; exact List.nil_prefix)
        simp [this]
      | cons x xs => simp

/-- **`esl_memstrcontains`** on two non-NULL arguments: the line is not empty and the C string occurs in it
    (on an empty line the code answers FALSE even for the empty string) -/
theorem memstrcontains_some (p s : Bytes) : memstrcontains (some p) (some s) = some (decide (p ≠ [] ∧ cstr s <:+: p)) := by
  unfold memstrcontains
  simp only []
  rw [containsLoop_eq p (cz s) (zero_mem_cz s) p 0 (by simp), takeWhile_cz]

theorem memstrcontains_null (p s : Option Bytes) (h : p = none ∨ s = none) : memstrcontains p s = some false := by
  rcases h with h | h <;> subst h
  · rfl
  · cases p <;> rfl

/-! ## esl_memstrdup / esl_memstrcpy -/

/-- **`esl_memstrdup`**: the new block holds the bytes and a terminating NUL, nothing is written outside it -/
theorem memstrdup_some (p : Bytes) : memstrdup (some p) = some (some (p ++ [0])) := by
  simp [memstrdup, copyZ]

theorem memstrdup_null : memstrdup none = some none := rfl

/-- **`esl_memstrcpy`** into a destination of the documented minimum size `n+1` -/
theorem memstrcpy_eq (p : Bytes) : memstrcpy p = some (p ++ [0]) := by
  simp [memstrcpy, copyZ]

/-! ## esl_mem_IsReal -/

theorem realLoop_ne_none (p : Bytes) : ∀ (l : Bytes) (i : Nat) (gd ge gr : Bool), p.drop i = l → realLoop p i gd ge gr ≠ none := by
  intro l
  induction l with
  | nil =>
    intro i gd ge gr h
    have : ¬ i < p.length := by
      intro hlt; rw [List.drop_eq_getElem_cons hlt] at h; cases h
    rw [realLoop]; simp [this]
  | cons c cs ih =>
    intro i gd ge gr h
    obtain ⟨hg, hd, hlt⟩ := get_of_drop h
    rw [realLoop]
    simp only [hlt, if_true, hg]
    split
    · exact ih _ _ _ _ hd
    · split
      · split
        · simp
        · split
          · simp
          · exact ih _ _ _ _ hd
      · split
        · split
          · simp
          · exact ih _ _ _ _ hd
        · split
          · simp
          · exact ih _ _ _ _ hd

/-- `esl_mem_IsReal` never reads outside the line -/
theorem memIsReal_ne_none (p : Option Bytes) : memIsReal p ≠ none := by
  cases p with
  | none => simp [memIsReal]
  | some p =>
    unfold memIsReal
    simp only []
    split
    · simp
    · rw [wsLoop_eq p p 0 (by simp)]
      simp only []
      have hsome : ∀ i, (if i < p.length then (p[i]?).map (fun c => if c = 45 ∨ c = 43 then i + 1 else i) else some i) ≠ none := by
        intro i
        by_cases hlt : i < p.length
        · simp [hlt]
        · simp [hlt]
      cases h1 : (if 0 + runLen isspaceB p < p.length then (p[0 + runLen isspaceB p]?).map (fun c => if c = 45 ∨ c = 43 then 0 + runLen isspaceB p + 1 else 0 + runLen isspaceB p) else some (0 + runLen isspaceB p)) with
      | none => exact absurd h1 (hsome _)
      | some i =>
        simp only []
        cases h2 : realLoop p i false false false with
        | none => exact absurd h2 (realLoop_ne_none p _ i _ _ _ rfl)
        | some r =>
          cases r with
          | none => simp
          | some r =>
            obtain ⟨j, gr⟩ := r
            simp only []
            rw [wsLoop_eq p _ j rfl]
            simp

end EaselModel.Buffer.Mem
