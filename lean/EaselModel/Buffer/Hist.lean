import EaselModel.Buffer.SpecHist
import EaselModel.Buffer.TokenOps
import EaselModel.Buffer.KeepLines
import EaselModel.Buffer.ReadFetch
import EaselModel.Buffer.Open
/-! # Whole operation histories: the specification with anchors, the API contract, the simulation relation

`AState` is the abstract state "bytes + cursor" extended with what the positioning calls need: the anchor (offset and
reference count, exactly the bookkeeping of `esl_buffer_SetAnchor`/`RaiseAnchor`, in input coordinates) and the offset
of the pointer handed out by the last `Get*` call. `specStep` is the specification of the 14 operations;
`Valid P` is the API contract under which it is meaningful (`P` = smallest page size in play);
`R P a s` relates an abstract state to a concrete session. -/
namespace EaselModel.Buffer

/-- observable part of a concrete step (the bytes `Get` exposes depend on how much is loaded, so only its status and
    the offset are compared; `get_prefix` says what the bytes are) -/
def obsOf (op : Op) (o : Out) (s' : Sess) : Obs :=
  ⟨o.st, if op = .get then [] else o.bytes, s'.b.base + s'.b.pos⟩

def memMode (m : Mode) : Prop := m = .allfile ∨ m = .mmap ∨ m = .string

/-- simulation relation between the specification state and a session on the model of `ESL_BUFFER`. Since round 4 it does
    NOT say that the anchor is at or before the cursor (`esl_buffer_SetAnchor` accepts any offset of the window, an in-window
    rewind may go before the anchor; the code copes since b86a62d): it holds along every history inside `CallerOk`. -/
structure R (P : Nat) (a : AState) (s : Sess) : Prop where
  wf : WF s.b
  pg : PG s.b
  aok : AnchOK s.b
  nfa : NoFpNoAnchor s.b
  src : s.b.src = a.src
  cur : s.b.base + s.b.pos = a.cur
  ps : P ≤ s.b.pagesize
  modefp : s.b.hasfp = false ↔ memMode s.b.mode
  base0 : s.b.hasfp = false → s.b.base = 0
  anch : s.b.hasfp = true → s.b.absAnchor = a.anchor ∧ (a.anchor ≠ none → s.b.nanchor = a.nanchor)
  aanch : ∀ A, a.anchor = some A → 1 ≤ a.nanchor
  lastp : s.lastp.map (s.b.base + ·) = a.lastp
  lastp_le : ∀ p, a.lastp = some p → p ≤ a.cur

/-- one operation of the model simulates one operation of the specification -/
def SimStep (P : Nat) (op : Op) : Prop :=
  ∀ (a : AState) (s : Sess), R P a s → Valid P a op →
    obsOf op (s.step op).1 (s.step op).2 = (specStep a op).1 ∧ R P (specStep a op).2 (s.step op).2

theorem step_out (s : Sess) (op : Op) : (s.step op).1 = (opRun s.b s.lastp op).1 := rfl
theorem step_b (s : Sess) (op : Op) : (s.step op).2.b = (opRun s.b s.lastp op).2 := rfl
theorem step_lastp (s : Sess) (op : Op) : (s.step op).2.lastp = (opRun s.b s.lastp op).1.p := rfl

/-- specification run of a history: the observations -/
def specRun : AState → List Op → List Obs
  | _, [] => []
  | a, op :: ops => (specStep a op).1 :: specRun (specStep a op).2 ops

/-- a history within the API contract -/
def ValidHist (P : Nat) : AState → List Op → Prop
  | _, [] => True
  | a, op :: ops => Valid P a op ∧ ValidHist P (specStep a op).2 ops

/-- model run of a history: the observations -/
def obsRun : Sess → List Op → List Obs
  | _, [] => []
  | s, op :: ops => obsOf op (s.step op).1 (s.step op).2 :: obsRun (s.step op).2 ops

end EaselModel.Buffer
