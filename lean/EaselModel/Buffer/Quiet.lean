import EaselModel.Buffer.Model
/-! # Pointer stability where it does hold

`memgen` (bumped by every `memmove` over a non-zero distance, every `realloc`, and the window reset after `fseeko`)
never changes once nothing can be read any more: in the modes that hold the whole input (string, slurped file, mmap,
short pipe: `hasfp = false`) and on a stream that has reported end-of-file. So in those states every pointer handed
out by a `Get*` call stays valid — with or without a stable anchor — until `SetStableAnchor` rebases the window or
`SetOffset` repositions an unanchored FILE. (On a stream that can still deliver data this is false: known finding
`C05:stable-anchor:realloc-in-refill`.) -/
namespace EaselModel.Buffer

/-- nothing can be read any more -/
def Quiet (b : Buf) : Prop := b.hasfp = false ∨ b.eof = true

/-- `b'` has the same window memory generation and the same stream state as `b` -/
structure Q (b b' : Buf) : Prop where
  gen : b'.memgen = b.memgen
  fp : b'.hasfp = b.hasfp
  eof : b'.eof = b.eof
  mode : b'.mode = b.mode

theorem Q.refl (b : Buf) : Q b b := ⟨rfl, rfl, rfl, rfl⟩
theorem Q.trans {a b c : Buf} (h1 : Q a b) (h2 : Q b c) : Q a c :=
  ⟨h2.gen.trans h1.gen, h2.fp.trans h1.fp, h2.eof.trans h1.eof, h2.mode.trans h1.mode⟩
theorem Quiet.of_q {b b' : Buf} (q : Quiet b) (h : Q b b') : Quiet b' := by
  unfold Quiet at *; rw [h.fp, h.eof]; exact q

theorem refill_quiet (b : Buf) (k : Nat) (q : Quiet b) : (refill b k).2 = b := by
  unfold refill
  have : (!b.hasfp || b.eof) = true := by
    rcases q with h | h <;> simp [h]
  rw [if_pos this]

theorem setAnchor_q (b : Buf) (o : Nat) : Q b (setAnchor b o).2 := by
  unfold setAnchor
  repeat' (first | exact ⟨rfl, rfl, rfl, rfl⟩ | split | dsimp only)

theorem raiseAnchor_q (b : Buf) (o : Nat) : Q b (raiseAnchor b o) := by
  unfold raiseAnchor
  repeat' (first | exact ⟨rfl, rfl, rfl, rfl⟩ | split | dsimp only)

theorem setpos_q (b : Buf) (p : Nat) : Q b { b with pos := p } := ⟨rfl, rfl, rfl, rfl⟩

theorem countlineLoop_q (fuel : Nat) : ∀ (b : Buf) (nc : Nat), Quiet b → Q b (countlineLoop fuel b nc).2.1 := by
  induction fuel with
  | zero => intro b nc _; exact Q.refl b
  | succ fuel ih =>
    intro b nc q
    rw [countlineLoop]
    have hr : ∀ k, (refill b k).2 = b := fun k => refill_quiet b k q
    repeat' (first | exact Q.refl b | (rw [hr]; exact ih b _ q) | (rw [hr]; exact Q.refl b) | split | dsimp only)

theorem countline_q (b : Buf) (q : Quiet b) : Q b (countline b).2.1 := by
  unfold countline
  split
  · exact Q.refl b
  · split
    · exact Q.refl b
    · have := countlineLoop_q (b.rest.length + 2) b 0 q
      generalize countlineLoop (b.rest.length + 2) b 0 = r at *
      obtain ⟨st, b', nc, nterm⟩ := r
      dsimp only at this ⊢
      repeat' (first | exact this | split | dsimp only)

theorem refill_q (b : Buf) (k : Nat) (q : Quiet b) : Q b (refill b k).2 := by rw [refill_quiet b k q]; exact Q.refl b

theorem getLine_q (b : Buf) (q : Quiet b) : Q b (getLine b).2 := by
  unfold getLine
  dsimp only
  have q1 := setAnchor_q b (b.base + b.pos)
  generalize setAnchor b (b.base + b.pos) = sa at *
  obtain ⟨st1, b1⟩ := sa
  dsimp only at q1
  cases st1 <;> (try dsimp only) <;> (try exact q1)
  have qq1 := q.of_q q1
  have q2 := countline_q b1 qq1
  generalize countline b1 = cl at *
  obtain ⟨st2, b2, nc, nskip⟩ := cl
  dsimp only at q2
  have q4' := raiseAnchor_q b2 (b.base + b.pos)
  cases st2 <;> (try dsimp only) <;> (try exact (q1.trans q2).trans q4')
  have qq2 := qq1.of_q q2
  have q3 := refill_q b2 nskip qq2
  generalize refill b2 nskip = rf at *
  obtain ⟨st3, b3⟩ := rf
  dsimp only at q3
  have q4 := raiseAnchor_q b3 (b.base + b.pos)
  have t3 := (q1.trans q2).trans q3
  repeat' (first | exact t3.trans q4 | exact (t3.trans q4).trans (setpos_q _ _) | split | dsimp only)

theorem fetchLine_q (b : Buf) (asStr : Bool) (q : Quiet b) : Q b (fetchLine b asStr).2 := by
  unfold fetchLine
  dsimp only
  have q1 := setAnchor_q b (b.base + b.pos)
  generalize setAnchor b (b.base + b.pos) = sa at *
  obtain ⟨st1, b1⟩ := sa
  dsimp only at q1
  cases st1 <;> (try dsimp only) <;> (try exact q1)
  have qq1 := q.of_q q1
  have q2 := countline_q b1 qq1
  generalize countline b1 = cl at *
  obtain ⟨st2, b2, nc, nskip⟩ := cl
  dsimp only at q2
  have q4' := raiseAnchor_q b2 (b.base + b.pos)
  cases st2 <;> (try dsimp only) <;> (try exact (q1.trans q2).trans q4')
  have qq2 := qq1.of_q q2
  have q3 : Q b2 (raiseAnchor { b2 with pos := b2.pos + nskip } (b.base + b.pos)) := (setpos_q b2 _).trans (raiseAnchor_q _ _)
  have qq3 := qq2.of_q q3
  have q5 := refill_q _ 0 qq3
  repeat' (first | exact q1.trans q2 | exact ((q1.trans q2).trans q3).trans q5 | split | dsimp only)

theorem skipsepLoop_q (sep : Bytes) (fuel : Nat) : ∀ (b : Buf), Quiet b → Q b (skipsepLoop sep fuel b).2 := by
  induction fuel with
  | zero => intro b _; exact Q.refl b
  | succ fuel ih =>
    intro b q
    rw [skipsepLoop]
    dsimp only
    have q1 : Q b { b with pos := b.pos + runLen (isSep sep) (b.mem.drop b.pos) } := setpos_q b _
    have qq1 := q.of_q q1
    have hr := refill_quiet _ 0 qq1
    have ih1 := ih _ qq1
    repeat' (first | exact Q.refl b | exact q1 | (rw [hr]; exact q1) | (rw [hr]; exact q1.trans ih1) | split | dsimp only)

theorem skipsep_q (b : Buf) (sep : Bytes) (q : Quiet b) : Q b (skipsep b sep).2 := skipsepLoop_q sep _ b q

theorem newline_q (b : Buf) (q : Quiet b) : Q b (newline b).2 := by
  unfold newline
  have hr : ∀ k, (refill b k).2 = b := fun k => refill_quiet b k q
  split
  · exact Q.refl b
  · split
    · exact Q.refl b
    · dsimp only
      have e0 : (if b.n - b.pos = 1 ∧ b.mem[b.pos]? = some CR then refill b 1 else (St.ok, b)).2 = b := by
        split
        · exact hr 1
        · rfl
      generalize (if b.n - b.pos = 1 ∧ b.mem[b.pos]? = some CR then refill b 1 else (St.ok, b)) = r0 at *
      obtain ⟨st0, b0⟩ := r0
      dsimp only at e0 ⊢
      subst e0
      split
      · exact Q.refl _
      · generalize (if b0.n - b0.pos ≥ 1 ∧ b0.mem[b0.pos]? = some LF then 1
          else if b0.n - b0.pos ≥ 2 ∧ b0.mem[b0.pos]? = some CR ∧ b0.mem[b0.pos + 1]? = some LF then 2 else 0) = nl
        have q1 : Q b0 { b0 with pos := b0.pos + nl } := setpos_q b0 _
        have q2 := refill_q _ 0 (q.of_q q1)
        split <;> exact q1.trans q2

theorem counttokLoop_q (sep : Bytes) (fuel : Nat) : ∀ (b : Buf) (nc : Nat), Quiet b → Q b (counttokLoop sep fuel b nc).2.1 := by
  induction fuel with
  | zero => intro b nc _; exact Q.refl b
  | succ fuel ih =>
    intro b nc q
    rw [counttokLoop]
    have hr : ∀ k, (refill b k).2 = b := fun k => refill_quiet b k q
    repeat' (first | exact Q.refl b | (rw [hr]; exact ih b _ q) | (rw [hr]; exact Q.refl b) | split | dsimp only)

theorem counttok_q (b : Buf) (sep : Bytes) (q : Quiet b) : Q b (counttok b sep).2.1 := by
  unfold counttok
  split
  · exact Q.refl b
  · have := counttokLoop_q sep (b.rest.length + 2) b 1 q
    generalize counttokLoop sep (b.rest.length + 2) b 1 = r at *
    obtain ⟨st, b', nc⟩ := r
    dsimp only at this ⊢
    cases st <;> (try dsimp only) <;> (try exact this)
    split <;> exact this

theorem getToken_q (b : Buf) (sep : Bytes) (q : Quiet b) : Q b (getToken b sep).2 := by
  unfold getToken
  have q1 := skipsep_q b sep q
  generalize skipsep b sep = r1 at *
  obtain ⟨st1, b1⟩ := r1
  dsimp only at q1
  cases st1 <;> (try dsimp only) <;> (try exact q1)
  have qq1 := q.of_q q1
  have q2 := newline_q b1 qq1
  generalize newline b1 = r2 at *
  obtain ⟨st2, b2⟩ := r2
  dsimp only at q2
  cases st2 <;> (try dsimp only) <;> (try exact q1.trans q2)
  have qq2 := qq1.of_q q2
  have q3 := setAnchor_q b2 (b2.base + b2.pos)
  generalize setAnchor b2 (b2.base + b2.pos) = r3 at *
  obtain ⟨st3, b3⟩ := r3
  dsimp only at q3
  cases st3 <;> (try dsimp only) <;> (try exact (q1.trans q2).trans q3)
  have qq3 := qq2.of_q q3
  have q4 := counttok_q b3 sep qq3
  generalize counttok b3 sep = r4 at *
  obtain ⟨st4, b4, nc⟩ := r4
  dsimp only at q4
  have t4 := ((q1.trans q2).trans q3).trans q4
  cases st4 <;> (try dsimp only) <;> (try exact t4.trans (raiseAnchor_q b4 _))
  have qq4 := qq3.of_q q4
  have q5 : Q b4 { b4 with pos := b4.pos + nc } := setpos_q b4 _
  have qq5 := qq4.of_q q5
  have q6 := skipsep_q _ sep qq5
  generalize skipsep { b4 with pos := b4.pos + nc } sep = r6 at *
  obtain ⟨st6, b6⟩ := r6
  dsimp only at q6
  have qq6 := qq5.of_q q6
  have q7 := refill_q b6 0 qq6
  generalize refill b6 0 = r7 at *
  obtain ⟨st7, b7⟩ := r7
  dsimp only at q7
  have t6 := (t4.trans q5).trans q6
  have t7 := t6.trans q7
  repeat' (first | exact t6.trans (raiseAnchor_q b6 _) | exact t7.trans (raiseAnchor_q b7 _) | exact t7 | split | dsimp only)

theorem fetchToken_q (b : Buf) (sep : Bytes) (asStr : Bool) (q : Quiet b) : Q b (fetchToken b sep asStr).2 := by
  unfold fetchToken
  have q1 := skipsep_q b sep q
  generalize skipsep b sep = r1 at *
  obtain ⟨st1, b1⟩ := r1
  dsimp only at q1
  cases st1 <;> (try dsimp only) <;> (try exact q1)
  have qq1 := q.of_q q1
  have q2 := newline_q b1 qq1
  generalize newline b1 = r2 at *
  obtain ⟨st2, b2⟩ := r2
  dsimp only at q2
  cases st2 <;> (try dsimp only) <;> (try exact q1.trans q2)
  have qq2 := qq1.of_q q2
  have q3 := setAnchor_q b2 (b2.base + b2.pos)
  generalize setAnchor b2 (b2.base + b2.pos) = r3 at *
  obtain ⟨st3, b3⟩ := r3
  dsimp only at q3
  cases st3 <;> (try dsimp only) <;> (try exact (q1.trans q2).trans q3)
  have qq3 := qq2.of_q q3
  have q4 := counttok_q b3 sep qq3
  generalize counttok b3 sep = r4 at *
  obtain ⟨st4, b4, nc⟩ := r4
  dsimp only at q4
  have t4 := ((q1.trans q2).trans q3).trans q4
  cases st4 <;> (try dsimp only) <;> (try exact t4.trans (raiseAnchor_q b4 _))
  have qq4 := qq3.of_q q4
  have q5 : Q b4 (raiseAnchor { b4 with pos := b4.pos + nc } (b2.base + b2.pos)) := (setpos_q b4 _).trans (raiseAnchor_q _ _)
  have qq5 := qq4.of_q q5
  have q6 := skipsep_q _ sep qq5
  generalize skipsep (raiseAnchor { b4 with pos := b4.pos + nc } (b2.base + b2.pos)) sep = r6 at *
  obtain ⟨st6, b6⟩ := r6
  dsimp only at q6
  have qq6 := qq5.of_q q6
  have q7 := refill_q b6 0 qq6
  generalize refill b6 0 = r7 at *
  obtain ⟨st7, b7⟩ := r7
  dsimp only at q7
  have t6 := (t4.trans q5).trans q6
  have t7 := t6.trans q7
  repeat' (first | exact t4 | exact t6 | exact t7 | split | dsimp only)

theorem readLoop_q (k : Nat) (fuel : Nat) : ∀ (b : Buf), Quiet b → Q b (readLoop k fuel b).2 := by
  induction fuel with
  | zero => intro b _; exact Q.refl b
  | succ fuel ih =>
    intro b q
    rw [readLoop]
    split
    · have e := refill_quiet b k q
      generalize refill b k = r at *
      obtain ⟨st, b'⟩ := r
      dsimp only at e ⊢
      subst e
      repeat' (first | exact Q.refl _ | exact ih _ q | split | dsimp only)
    · exact Q.refl b

theorem read_q (b : Buf) (k : Nat) (q : Quiet b) : Q b (read b k).2 := by
  unfold read
  split
  · exact Q.refl b
  · have q1 := readLoop_q k (b.rest.length + 2) b q
    generalize readLoop k (b.rest.length + 2) b = r at *
    obtain ⟨st, b1⟩ := r
    dsimp only at q1 ⊢
    cases st <;> (try dsimp only) <;> (try exact q1)
    have q2 : Q b1 { b1 with pos := b1.pos + k } := setpos_q b1 _
    have q3 := refill_q _ 0 ((q.of_q q1).of_q q2)
    repeat' (first | exact q1 | exact (q1.trans q2).trans q3 | split | dsimp only)

theorem set_q (b : Buf) (p : Option Nat) (k : Nat) (q : Quiet b) : Q b (set b p k).2 := by
  unfold set
  cases p with
  | none => dsimp only; exact refill_q b 0 q
  | some i =>
    dsimp only
    have q1 : Q b { b with pos := i + k } := setpos_q b _
    exact q1.trans (refill_q _ 0 (q.of_q q1))

theorem ffwdLoop_q (o : Nat) (fuel : Nat) : ∀ (b : Buf), Quiet b → Q b (ffwdLoop o fuel b).2 := by
  induction fuel with
  | zero => intro b _; exact Q.refl b
  | succ fuel ih =>
    intro b q
    rw [ffwdLoop]
    have q1 : Q b { b with pos := b.n } := setpos_q b _
    have qq1 := q.of_q q1
    have hr := refill_quiet _ 0 qq1
    have ih1 := ih _ qq1
    repeat' (first | exact Q.refl b | (rw [hr]; exact q1) | (rw [hr]; exact q1.trans ih1) | split | dsimp only)

/-- `SetOffset` keeps the window where it is unless it repositions an unanchored FILE with `fseeko` -/
theorem setOffset_q (b : Buf) (o : Nat) (q : Quiet b) (hno : ¬ (b.mode = .file ∧ b.anchor = none)) :
    Q b (setOffset b o).2 := by
  unfold setOffset
  split
  · split <;> exact ⟨rfl, rfl, rfl, rfl⟩
  · split <;> exact ⟨rfl, rfl, rfl, rfl⟩
  · split <;> exact ⟨rfl, rfl, rfl, rfl⟩
  · by_cases hw : b.base ≤ o ∧ o < b.base + b.pos
    · rw [if_pos hw]; exact setpos_q b _
    · rw [if_neg hw, if_neg hno]
      split
      · exact Q.refl b
      · have q1 := ffwdLoop_q o (b.rest.length + 2) b q
        generalize ffwdLoop o (b.rest.length + 2) b = r at *
        obtain ⟨st, b1⟩ := r
        dsimp only at q1 ⊢
        cases st <;> (try dsimp only) <;> (try exact q1)
        have q2 : Q b1 { b1 with pos := o - b1.base } := setpos_q b1 _
        have q3 := refill_q _ 0 ((q.of_q q1).of_q q2)
        repeat' (first | exact (q1.trans q2).trans q3 | split | dsimp only)

/-- **Pointer stability where it holds.** Once nothing can be read any more (whole input in memory, or the stream has
    reported end-of-file), no operation other than `SetStableAnchor` (which rebases the window once, by design) and a
    `SetOffset` that repositions an unanchored FILE moves or reallocates the window: every pointer handed out stays
    valid, and the state stays quiet. -/
theorem quiet_step_q (b : Buf) (lp : Option Nat) (op : Op) (q : Quiet b)
    (h1 : ∀ o, op ≠ .setStableAnchor o) (h2 : ∀ o, op = .setOffset o → ¬ (b.mode = .file ∧ b.anchor = none)) :
    Q b (opRun b lp op).2 := by
  cases op with
  | getLine => exact getLine_q b q
  | fetchLine => exact fetchLine_q b false q
  | fetchLineStr => exact fetchLine_q b true q
  | getToken sep => exact getToken_q b sep q
  | fetchToken sep => exact fetchToken_q b sep false q
  | fetchTokenStr sep => exact fetchToken_q b sep true q
  | read k => exact read_q b k q
  | get => show Q b (get b).2; unfold get; split <;> exact Q.refl b
  | set k => exact set_q b lp k q
  | getOffset => exact Q.refl b
  | setOffset o => exact setOffset_q b o q (h2 o rfl)
  | setAnchor o => exact setAnchor_q b o
  | setStableAnchor o => exact absurd rfl (h1 o)
  | raiseAnchor o => exact raiseAnchor_q b o

theorem quiet_step (b : Buf) (lp : Option Nat) (op : Op) (q : Quiet b)
    (h1 : ∀ o, op ≠ .setStableAnchor o) (h2 : ∀ o, op = .setOffset o → ¬ (b.mode = .file ∧ b.anchor = none)) :
    (opRun b lp op).2.memgen = b.memgen ∧ Quiet (opRun b lp op).2 :=
  have key := quiet_step_q b lp op q h1 h2
  ⟨key.gen, q.of_q key⟩

/-- the openers whose result is quiet from the start: the three whole-input modes, and any paged mode when the input
    is shorter than a page (the first `fread` is short, so the stream is at end-of-file) -/
theorem open_quiet (mode : Mode) (ps : Nat) (src : Bytes)
    (h : mode = .string ∨ mode = .mmap ∨ mode = .allfile ∨ src.length < ps) : Quiet (openBuf mode ps src) := by
  have paged : ∀ m, src.length < ps → (openPaged src ps m).eof = true := by
    intro m hl
    show (false || decide ((src.take ps).length < ps)) = true
    simp only [List.length_take, Bool.false_or, decide_eq_true_eq]
    omega
  cases mode with
  | string => exact Or.inl rfl
  | mmap => exact Or.inl rfl
  | allfile => exact Or.inl rfl
  | stream =>
    rcases h with h | h | h | h
    · cases h
    · cases h
    · cases h
    · exact Or.inr (paged .stream h)
  | file =>
    rcases h with h | h | h | h
    · cases h
    · cases h
    · cases h
    · exact Or.inr (paged .file h)
  | cmdpipe =>
    rcases h with h | h | h | h
    · cases h
    · cases h
    · cases h
    · unfold openBuf
      dsimp only
      split
      · exact Or.inl rfl
      · exact Or.inr (paged .cmdpipe h)

end EaselModel.Buffer
