import EaselModel.Buffer.Lines
/-! `esl_buffer_GetLine`, `FetchLine`, `FetchLineAsStr` refine `specGetLine`. -/
namespace EaselModel.Buffer

/-- the data invariant the line functions rely on: an exhausted window means an exhausted stream
    (a consequence of the page guarantee `n - pos ≥ pagesize ∨ nothing left`) -/
def Loaded (b : Buf) : Prop := b.pos = b.n → b.rest = []

/-- the page guarantee of esl_buffer.h: "n - pos ≥ pagesize", unless the stream is exhausted -/
def PG (b : Buf) : Prop := b.pagesize ≤ b.n - b.pos ∨ b.rest = []

theorem PG.loaded {b : Buf} (h : PG b) (hw : WF b) : Loaded b := by
  intro he
  rcases h with h | h
  · have := hw.hps; omega
  · exact h

theorem slice_eq {b : Buf} (h : WF b) (nc : Nat) (hnc : nc ≤ b.win.length) :
    slice b b.pos nc = some ((b.src.drop (b.base + b.pos)).take nc) := by
  have hp := h.hpos
  have hwl := win_length b
  unfold slice
  have : b.pos + nc ≤ b.n := by omega
  simp only [this, if_true]
  rw [h.suffix_win, List.take_append_of_le_length hnc]

theorem abs_of_frame {b b' : Buf} (fr : Frame b b') : b'.abs = b.abs := by
  simp only [Buf.abs, fr.src, fr.off]

theorem specGetLine_eof (a : Abs) (h : a.suffix = []) : specGetLine a = (.eof, [], a) := by
  simp [specGetLine, specLine, h]

theorem specGetLine_ok (a : Abs) (h : a.suffix ≠ []) :
    specGetLine a = (.ok, a.suffix.take (memnewline a.suffix).1,
      { a with cur := a.cur + ((memnewline a.suffix).1 + (memnewline a.suffix).2) }) := by
  simp [specGetLine, specLine_eq _ h]

theorem getLine_refines (b : Buf) (h : WF b) (hl : Loaded b) :
    WF (getLine b).2 ∧
    ((getLine b).1.st, (getLine b).1.bytes, (getLine b).2.abs) = specGetLine b.abs ∧
    (getLine b).1.n = (getLine b).1.bytes.length ∧ PG (getLine b).2 := by
  have hp := h.hpos
  obtain ⟨s1, s2, s3⟩ := setAnchor_spec b (b.base + b.pos) h (by omega) (Nat.le_refl _)
  generalize hsa : setAnchor b (b.base + b.pos) = sa at *
  obtain ⟨st1, b1⟩ := sa
  simp only [] at s1 s2 s3
  subst s1
  obtain ⟨m1, m2, m3, m4, m5⟩ := s2.same
  obtain ⟨c1, c2, c3, c4⟩ := countline_spec b1 s3
  have habs1 : b1.abs = b.abs := abs_of_frame s2.frame
  have hsuf : b.abs.suffix = b1.src.drop (b1.base + b1.pos) := by
    simp [Abs.suffix, Buf.abs, m5, m3, m2]
  by_cases he : b.pos = b.n
  · -- end of input
    have he1 : b1.pos = b1.n := by simp [Buf.n, m1, m2]; exact he
    have hcl := c3 he1
    have hr := raiseAnchor_spec b1 (b.base + b.pos) s3
    have e : getLine b = ({ st := .eof }, raiseAnchor b1 (b.base + b.pos)) := by
      unfold getLine; simp only [hsa, hcl]
    rw [e]
    have hs : b.abs.suffix = [] := by
      rw [hsuf, s3.suffix_win]
      have : b1.win = [] := by
        apply List.eq_nil_of_length_eq_zero; rw [win_length]; omega
      rw [this, m4, hl he]; rfl
    refine ⟨hr.2, ?_, rfl, Or.inr ?_⟩
    · rw [specGetLine_eof _ hs, abs_of_frame hr.1.frame, habs1]
    · rw [hr.1.same.2.2.2.1, m4]; exact hl he
  · have hlt1 : b1.pos < b1.n := by simp only [Buf.n, m1, m2] at *; omega
    obtain ⟨d1, d2, d3, d4⟩ := c4 hlt1
    generalize hcl : countline b1 = cl at *
    obtain ⟨st2, b2, nc, nskip⟩ := cl
    simp only [] at c1 c2 d1 d2 d3 d4
    subst d1
    clear c3 c4
    rw [← hsuf] at d2 d3
    have hsuf2 : b.abs.suffix = b2.win ++ b2.rest := by rw [hsuf, ← c2.src, ← c2.off, c1.suffix_win]
    have hr3 := refill_post b2 nskip c1
    generalize hrf : refill b2 nskip = rf at *
    obtain ⟨st3, b3⟩ := rf
    simp only [] at hr3
    have hst3 : ¬ (st3 ≠ .eof ∧ st3 ≠ .ok) := by rcases hr3.status with h3 | h3 <;> simp [h3]
    have hr4 := raiseAnchor_spec b3 (b.base + b.pos) hr3.wf
    generalize hb4 : raiseAnchor b3 (b.base + b.pos) = b4 at *
    have hfr14 : Frame b1 b4 := (c2.trans hr3.frame).trans hr4.1.frame
    have hw4 : nskip ≤ b4.win.length := by
      have a1 := hr3.frame.avail
      have a2 := hr4.1.frame.avail
      rw [win_length] at d4 ⊢; omega
    have hncle : nc ≤ nskip := by omega
    have hsl := slice_eq hr4.2 nc (by omega)
    have hfit : b4.pos + nskip ≤ b4.n := by
      have := hr4.2.hpos
      rw [win_length] at hw4; omega
    have e : getLine b = (({ st := .ok, bytes := (b4.src.drop (b4.base + b4.pos)).take nc, n := nc, p := some b4.pos } : Out),
        { b4 with pos := b4.pos + nskip }) := by
      unfold getLine; simp only [hsa, hcl, hrf, hst3, if_false, hb4, hsl, hfit, if_true]
    rw [e]
    have hsne : b.abs.suffix ≠ [] := by
      rw [hsuf, s3.suffix_win]
      intro hh
      have := congrArg List.length hh
      simp only [List.length_append, win_length, List.length_nil] at this
      omega
    have hsrc4 : b4.src.drop (b4.base + b4.pos) = b.abs.suffix := by
      rw [hsuf, hfr14.src, hfr14.off]
    refine ⟨?_, ?_, ?_, ?_⟩
    · exact ⟨hr4.2.hwin, hfit,
        hr4.2.hanch, hr4.2.hps, hr4.2.heof, hr4.2.hnofp⟩
    · rw [specGetLine_ok _ hsne, hsrc4, ← d3, ← d2]
      simp only [Buf.abs, Prod.mk.injEq, true_and]
      have := hfr14.off
      have hs := hfr14.src
      simp only [m5, m3, m2] at this hs
      rw [hs]
      congr 1
      omega
    · simp only [List.length_take]
      rw [hsrc4, hsuf2]
      simp only [List.length_append]
      omega
    · obtain ⟨q1, q2, q3, q4, q5⟩ := hr4.1.same
      have hps4 : b4.pagesize = b3.pagesize := hr4.1.frame.ps
      have hn4 : b4.n = b3.n := by simp [Buf.n, q1]
      rcases hr3.guarantee (by rw [win_length] at d4; exact d4) with g | g
      · left
        show b4.pagesize ≤ b4.n - (b4.pos + nskip)
        rw [hps4, hn4, q2]; omega
      · right
        show b4.rest = []
        rw [q4]; exact g

end EaselModel.Buffer
