import EaselModel.Buffer.TotalSetOffset
/-! Outside the API contract but deterministic (round 6): `SetOffset` to an offset beyond the end of the input, ahead of the
cursor, on a paged buffer (stream, pipe, or a FILE that cannot `fseeko` because an anchor is set). Whatever the page size and
however much is loaded, the answer is `eslEINVAL`, the stream has been read to its end, the cursor stands at the end of what
was loaded (`pos = n`, nothing left to read), the anchor record is kept. (In the whole-input modes the same call answers
`eslEINVAL` and changes nothing: `Total.beyond_end_whole`; on an unanchored FILE the cursor is left at the requested offset:
`Total.beyond_end_seek`.) -/
namespace EaselModel.Buffer

theorem setOffset_beyond_end_paged (b : Buf) (o : Nat) (h : WF b) (hm : ¬ memMode b.mode)
    (hnf : ¬ (b.mode = .file ∧ b.anchor = none)) (hlen : b.src.length < o) (hcur : b.base + b.pos < o) :
    (setOffset b o).1.st = .einval ∧ (setOffset b o).1.bytes = [] ∧ WF (setOffset b o).2 ∧ Keep b (setOffset b o).2 ∧
    (setOffset b o).2.pos = (setOffset b o).2.n ∧ (setOffset b o).2.rest = [] ∧
    b.base + b.pos ≤ (setOffset b o).2.base + (setOffset b o).2.pos ∧
    (setOffset b o).2.base + (setOffset b o).2.pos ≤ max (b.base + b.pos) b.src.length := by
  obtain ⟨f1, f2, f3, f4, f5, f6, f7⟩ := ffwdLoop_beyond o (b.rest.length + 2) b (b.base + b.pos) h (by omega) (Nat.le_refl _) hcur hlen
  have hw : ¬ (b.base ≤ o ∧ o < b.base + b.pos) := by omega
  have hbase : ¬ o < b.base := by omega
  have key : setOffset b o = (({ st := (ffwdLoop o (b.rest.length + 2) b).1 } : Out), (ffwdLoop o (b.rest.length + 2) b).2) := by
    unfold setOffset
    cases hmode : b.mode with
    | allfile => exact absurd (Or.inl hmode) hm
    | mmap => exact absurd (Or.inr (Or.inl hmode)) hm
    | string => exact absurd (Or.inr (Or.inr hmode)) hm
    | stream =>
      dsimp only
      rw [if_neg hw, if_neg (by rw [hmode] at hnf; exact hnf), if_neg hbase]
      generalize ffwdLoop o (b.rest.length + 2) b = r at *
      obtain ⟨st, b1⟩ := r
      dsimp only at f1; subst f1; rfl
    | cmdpipe =>
      dsimp only
      rw [if_neg hw, if_neg (by rw [hmode] at hnf; exact hnf), if_neg hbase]
      generalize ffwdLoop o (b.rest.length + 2) b = r at *
      obtain ⟨st, b1⟩ := r
      dsimp only at f1; subst f1; rfl
    | file =>
      dsimp only
      rw [if_neg hw, if_neg (by rw [hmode] at hnf; exact hnf), if_neg hbase]
      generalize ffwdLoop o (b.rest.length + 2) b = r at *
      obtain ⟨st, b1⟩ := r
      dsimp only at f1; subst f1; rfl
  rw [key]
  exact ⟨f1, rfl, f2, f3, f4, f5, f6, f7⟩

/-- **Outside the contract, yet deterministic**: from any state reached so far (`R`), on a paged buffer that cannot `fseeko`,
    `SetOffset` to an offset beyond the end of the input and ahead of the cursor has exactly ONE outcome, whatever the page
    size and the window: `eslEINVAL`, no bytes, the cursor at `max cur |src|` (the stream read to its end), anchors kept —
    and the simulation relation continues from the specification state with the cursor moved there. -/
theorem step_beyond_end_deterministic (P o : Nat) (a : AState) (s : Sess) (r : R P a s) (hm : ¬ memMode s.b.mode)
    (hnf : ¬ (s.b.mode = .file ∧ s.b.anchor = none)) (hlen : a.src.length < o) (hcur : a.cur < o) :
    obsOf (.setOffset o) (s.step (.setOffset o)).1 (s.step (.setOffset o)).2 = ⟨.einval, [], max a.cur a.src.length⟩ ∧
    R P { a with cur := max a.cur a.src.length, lastp := none } (s.step (.setOffset o)).2 := by
  have hsrc := r.src
  have hc := r.cur
  obtain ⟨g1, g2, g3, g4, g5, g6, g7, g8⟩ :=
    setOffset_beyond_end_paged s.b o r.wf hm hnf (by rw [hsrc]; exact hlen) (by rw [hc]; exact hcur)
  -- the cursor afterwards is exactly max cur |src|
  have hoff : (setOffset s.b o).2.base + (setOffset s.b o).2.pos = max a.cur a.src.length := by
    have hwin := g3.hwin
    rw [g6, List.append_nil] at hwin
    have hl := congrArg List.length hwin
    rw [List.length_drop, g4.src, hsrc] at hl
    rw [hc] at g7 g8
    rw [hsrc] at g8
    rw [g5]
    simp only [Buf.n] at *
    omega
  have hobs : obsOf (.setOffset o) (s.step (.setOffset o)).1 (s.step (.setOffset o)).2 = ⟨.einval, [], max a.cur a.src.length⟩ := by
    unfold obsOf
    rw [if_neg (by intro hh; cases hh), step_out, step_b]
    show (⟨(setOffset s.b o).1.st, (setOffset s.b o).1.bytes, (setOffset s.b o).2.base + (setOffset s.b o).2.pos⟩ : Obs) = _
    rw [g1, g2, hoff]
  refine ⟨hobs, ?_⟩
  obtain ⟨a', ht, r'⟩ := total_setOffset P o a s r trivial
  rw [hobs] at ht
  generalize hop : Op.setOffset o = op at ht
  generalize hob : (⟨St.einval, [], max a.cur a.src.length⟩ : Obs) = ob at ht
  cases ht with
  | sim =>
    have := specStep_st a op
    have e : (specStep a op).1.st = .einval := by rw [← hob]
    rcases this with h | h | h <;> rw [h] at e <;> cases e
  | whole_input =>
    have := specStep_st a op
    have e : (specStep a op).1.st = .einval := by rw [← hob]
    rcases this with h | h | h <;> rw [h] at e <;> cases e
  | rewind_refused o' h1 h2 => cases hop; omega
  | beyond_end o' h1 h2 => cases hop; exact r'
  | beyond_end_seek o' h1 h2 =>
    cases hop
    have : max a.cur a.src.length = o := by
      have := congrArg Obs.off hob; exact this
    omega
  | beyond_end_whole o' h1 =>
    cases hop
    have e : max a.cur a.src.length = a.cur := by
      have := congrArg Obs.off hob; exact this
    rw [e]
    exact r'
  | anchor_outside o' h => cases hop
  | stable_anchor_outside o' h => cases hop

end EaselModel.Buffer
