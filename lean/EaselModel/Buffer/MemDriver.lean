import EaselModel.Core.Proto
import EaselModel.Buffer.Mem
import EaselModel.Buffer.MemConsts
import EaselModel.Buffer.MemRealStart
/-! Line protocol of the stateless `esl_mem.c` ops of C05 (round 4). `memLine ws` = the answer line, `none` if `ws` is not a mem op.

  strtoi32|strtoi64|strtoi hex=<bytes> base=<int>      -> `<status> nc=<n|untouched> val=<decimal|untouched>`
  memspn|memcspn hex= set=<hex>                         -> `n=<k>`
  memtok hex= delim=<hex>                               -> `<status> tok=<hex|-|null> at=<so> off=<*p - s> n=<*n>`
  memnewline hex=                                       -> `ok nline=<k> nterm=<k>`
  memstrcmp|memstrpfx|memstrcontains|memstrcmp_case|memstrpfx_case hex=<hex|null> s=<hex|null>  -> `r=<0|1>`
  memstrdup hex=<hex|null> | memstrcpy hex=             -> `ok <hex of the n+1 bytes|null>`
  memisreal hex=<hex|null>                              -> `r=<0|1>`
  a fault of the model (out-of-bounds access / signed overflow) is answered `fault`. -/
namespace EaselModel.Buffer.Mem
open EaselModel.Proto EaselModel.Buffer

def mstName : MSt → String
  | .ok => "ok" | .eol => "eol" | .eformat => "eformat" | .erange => "erange" | .einval => "einval" | .fault => "fault"

/-- `hex=null` is the NULL pointer -/
def argHexN? (ws : List String) (key : String) : Option (Option Bytes) :=
  match arg? ws key with
  | some "null" => some none
  | some h => (bytesOfHex h).map some
  | none => none

def fmtI (r : IRes) : String :=
  if r.st == .fault then "fault" else
  mstName r.st ++ " nc=" ++ (match r.nc with | some k => toString k | none => "untouched")
    ++ " val=" ++ (match r.val with | some v => toString v | none => "untouched")

def fmtB : Option Bool → String
  | none => "fault" | some true => "r=1" | some false => "r=0"

def fmtN : Option Nat → String
  | none => "fault" | some k => "n=" ++ toString k

def memLine (ws : List String) : Option String :=
  match ws.head? with
  | some "strtoi32" | some "strtoi" =>
    match argHex? ws "hex", argInt? ws "base" with
    | some p, some b => some (fmtI (strtoi32 p b))
    | _, _ => some "bad-op"
  | some "strtoi64" =>
    match argHex? ws "hex", argInt? ws "base" with
    | some p, some b => some (fmtI (strtoi64 p b))
    | _, _ => some "bad-op"
  | some "memspn" =>
    match argHex? ws "hex", argHex? ws "set" with
    | some p, some s => some (fmtN (memspn p s))
    | _, _ => some "bad-op"
  | some "memcspn" =>
    match argHex? ws "hex", argHex? ws "set" with
    | some p, some s => some (fmtN (memcspn p s))
    | _, _ => some "bad-op"
  | some "memtok" =>
    match argHex? ws "hex", argHex? ws "delim" with
    | some p, some d =>
      match memtok p d with
      | none => some "fault"
      | some r =>
        let tok := match r.tok with
          | none => "null"
          | some (so, len) => hexOrDash ((p.drop so).take len)
        let at_ := match r.tok with | none => 0 | some (so, _) => so
        some (mstName r.st ++ " tok=" ++ tok ++ " at=" ++ toString at_ ++ " off=" ++ toString r.adv ++ " n=" ++ toString r.n)
    | _, _ => some "bad-op"
  | some "memnewline" =>
    match argHex? ws "hex" with
    | some p => let r := memnewline p; some ("ok nline=" ++ toString r.1 ++ " nterm=" ++ toString r.2)
    | none => some "bad-op"
  | some "memstrcmp" | some "memstrpfx" | some "memstrcontains" | some "memstrcmp_case" | some "memstrpfx_case" =>
    match argHexN? ws "hex", argHexN? ws "s" with
    | some p, some s =>
      some (fmtB (match ws.head? with
        | some "memstrcmp" => memstrcmp p s
        | some "memstrpfx" => memstrpfx p s
        | some "memstrcontains" => memstrcontains p s
        | some "memstrcmp_case" => memstrcmp_case p s
        | _ => memstrpfx_case p s))
    | _, _ => some "bad-op"
  | some "memstrdup" =>
    match argHexN? ws "hex" with
    | some p =>
      match memstrdup p with
      | none => some "fault"
      | some none => some "ok null"
      | some (some b) => some ("ok " ++ hexOrDash b)
    | none => some "bad-op"
  | some "memstrcpy" =>
    match argHex? ws "hex" with
    | some p =>
      match memstrcpy p with
      | none => some "fault"
      | some b => some ("ok " ++ hexOrDash b)
    | none => some "bad-op"
  | some "memisreal" =>
    match argHexN? ws "hex" with
    | some p => some (fmtB (if MemConsts.isRealStart then memIsRealL p else if MemConsts.isRealStrict then memIsRealS p else memIsReal p))
    | none => some "bad-op"
  | _ => none

end EaselModel.Buffer.Mem
