import EaselModel.Buffer.MemStrLemmas
/-! `esl_mem_IsReal`: the loops of `Mem.lean` against `isRealSpec` (MemSpec.lean). Core Lean only. -/
namespace EaselModel.Buffer.Mem
open EaselModel.Buffer

theorem digit_class {c : UInt8} (h : isdigitB c = true) : isspaceB c = false ∧ c ≠ 46 ∧ c ≠ 101 ∧ c ≠ 69 := by
  unfold isdigitB at h; unfold isspaceB
  simp at h
  refine ⟨?_, ?_, ?_, ?_⟩
  · simp; omega
  · intro e; subst e; simp at h
  · intro e; subst e; simp at h
  · intro e; subst e; simp at h

theorem dot_e_nospace {c : UInt8} (h : c = 46 ∨ c = 101 ∨ c = 69) : isspaceB c = false := by
  rcases h with h | h | h <;> subst h <;> decide

theorem realLoop_eq (p : Bytes) : ∀ (l : Bytes) (i : Nat) (gd ge gr : Bool), p.drop i = l →
    realLoop p i gd ge gr =
      some (if realBodyOK gd ge (l.takeWhile (fun c => !isspaceB c)) then
              some (i + (l.takeWhile (fun c => !isspaceB c)).length, gr || (l.takeWhile (fun c => !isspaceB c)).any isdigitB)
            else none) := by
  intro l
  induction l with
  | nil =>
    intro i gd ge gr h
    have : ¬ i < p.length := by
      intro hlt; rw [List.drop_eq_getElem_cons hlt] at h; cases h
    rw [realLoop]; simp [this, realBodyOK]
  | cons c cs ih =>
    intro i gd ge gr h
    obtain ⟨hg, hd, hlt⟩ := get_of_drop h
    rw [realLoop]
    simp only [hlt, if_true, hg]
    by_cases h1 : isdigitB c = true
    · obtain ⟨hs, h46, h101, h69⟩ := digit_class h1
      have hE : isE c = false := by simp [isE, h101, h69]
      simp only [h1, if_true, List.takeWhile_cons, hs, Bool.not_false, realBodyOK, h46, if_false, hE, Bool.false_eq_true,
        List.length_cons, List.any_cons, Bool.true_or, Bool.or_true]
      rw [ih (i + 1) gd ge true hd]
      simp only [Bool.true_or, Nat.add_assoc, Nat.add_comm 1]
    · simp only [h1, Bool.false_eq_true, if_false]
      by_cases h2 : c = 46
      · have hs := dot_e_nospace (Or.inl h2)
        simp only [h2, if_true, List.takeWhile_cons] at hs ⊢
        simp only [hs, Bool.not_false, if_true, realBodyOK]
        cases gd <;> cases ge <;> simp only [Bool.false_eq_true, if_false, if_true, Bool.not_true, Bool.not_false, Bool.false_and, Bool.true_and, Bool.and_false]
        · rw [ih (i + 1) true false gr hd]
          subst h2
          simp [Nat.add_assoc, Nat.add_comm 1, isdigitB]
      · simp only [h2, if_false]
        by_cases h3 : c = 101 ∨ c = 69
        · have hs := dot_e_nospace (Or.inr h3)
          have hE : isE c = true := by rcases h3 with h | h <;> subst h <;> decide
          simp only [h3, if_true, List.takeWhile_cons, hs, Bool.not_false, realBodyOK, h2, if_false, hE]
          cases ge <;> simp only [Bool.false_eq_true, if_false, if_true, Bool.not_true, Bool.not_false, Bool.false_and, Bool.true_and]
          · rw [ih (i + 1) gd true gr hd]
            simp [Nat.add_assoc, Nat.add_comm 1, h1]
        · have hE : isE c = false := by
            simp only [isE]; simp only [not_or] at h3; simp [h3.1, h3.2]
          simp only [h3, if_false]
          by_cases h4 : isspaceB c = true
          · simp [h4, realBodyOK]
          · simp only [List.takeWhile_cons, Bool.not_eq_true] at *
            simp only [h4, Bool.not_false, if_true, realBodyOK, h2, if_false, hE, Bool.false_eq_true]
            rw [ih (i + 1) gd ge gr hd]
            simp [Nat.add_assoc, Nat.add_comm 1, h1]

theorem sign_step_real (p : Bytes) (i0 : Nat) (h0 : i0 ≤ p.length) :
    ∃ i1, (if i0 < p.length then (p[i0]?).map (fun c => if c = 45 ∨ c = 43 then i0 + 1 else i0) else some i0) = some i1 ∧
      i1 ≤ p.length ∧
      p.drop i1 = stripSign (p.drop i0) := by
  by_cases hlt : i0 < p.length
  · have hg : p[i0]? = some p[i0] := List.getElem?_eq_getElem hlt
    have hd := drop_of_get hg
    rw [if_pos hlt, hg, hd]
    by_cases hc : p[i0] = 45 ∨ p[i0] = 43
    · refine ⟨i0 + 1, by simp only [Option.map_some, if_pos hc], by omega, ?_⟩
      show _ = (if p[i0] = 45 ∨ p[i0] = 43 then _ else _); rw [if_pos hc]
    · refine ⟨i0, by simp only [Option.map_some, if_neg hc], by omega, ?_⟩
      show _ = (if p[i0] = 45 ∨ p[i0] = 43 then _ else _); rw [if_neg hc]; exact hd
  · exact ⟨i0, by simp [hlt], h0, by simp [drop_nil_of_ge hlt, stripSign]⟩

/-- **`esl_mem_IsReal`** computes `isRealSpec` (and never faults) -/
theorem memIsReal_eq (p : Bytes) : memIsReal (some p) = some (isRealSpec p) := by
  unfold memIsReal isRealSpec
  simp only []
  by_cases hp : p.length = 0
  · have : p = [] := List.eq_nil_of_length_eq_zero hp
    subst this; simp
  · have hne : p.isEmpty = false := by cases p <;> simp at hp ⊢
    rw [if_neg hp, wsLoop_eq p p 0 (by simp), Nat.zero_add]
    simp only []
    obtain ⟨i1, h1, hle, hdrop⟩ := sign_step_real p (runLen isspaceB p) (runLen_le _ _)
    rw [h1]
    simp only []
    rw [drop_runLen] at hdrop
    rw [← hdrop, realLoop_eq p _ i1 false false false rfl]
    by_cases hb : realBodyOK false false ((p.drop i1).takeWhile (fun c => !isspaceB c)) = true
    · simp only [hb, if_true, Bool.false_or]
      rw [wsLoop_eq p _ _ rfl]
      simp only []
      have e1 : p.drop (i1 + ((p.drop i1).takeWhile (fun c => !isspaceB c)).length) = (p.drop i1).dropWhile (fun c => !isspaceB c) := by
        rw [← List.drop_drop, ← runLen_eq_takeWhile, drop_runLen]
      rw [e1]
      have hl1 := len_split (fun c => !isspaceB c) (p.drop i1)
      have hl2 : (p.drop i1).length = p.length - i1 := List.length_drop
      have hiff := runLen_eq_length_iff isspaceB ((p.drop i1).dropWhile (fun c => !isspaceB c))
      have hall : (i1 + ((p.drop i1).takeWhile (fun c => !isspaceB c)).length + runLen isspaceB ((p.drop i1).dropWhile (fun c => !isspaceB c)) == p.length)
          = ((p.drop i1).dropWhile (fun c => !isspaceB c)).all isspaceB := by
        rw [Bool.eq_iff_iff]
        simp only [beq_iff_eq, List.all_eq_true]
        rw [← hiff]; omega
      rw [hall, hne]
      simp [Bool.and_comm]
    · simp only [Bool.not_eq_true] at hb
      simp [hb, hne]

end EaselModel.Buffer.Mem
