import EaselModel.Buffer.GetLine
/-! `esl_buffer_FetchLine`/`FetchLineAsStr` refine `specGetLine`; `esl_buffer_Read` refines `specRead`. -/
namespace EaselModel.Buffer

/-- stepping the cursor forward inside the window keeps the invariant -/
theorem advance_wf {b : Buf} (h : WF b) (k : Nat) (hk : b.pos + k ≤ b.n) : WF { b with pos := b.pos + k } :=
  ⟨h.hwin, hk, h.hanch, h.hps, h.heof, h.hnofp⟩

theorem suffix_length {b : Buf} (h : WF b) : b.abs.suffix.length = (b.n - b.pos) + b.rest.length := by
  show (b.src.drop (b.base + b.pos)).length = _
  rw [h.suffix_win, List.length_append, win_length]

theorem fetchLine_refines (b : Buf) (asStr : Bool) (h : WF b) (hl : Loaded b) :
    WF (fetchLine b asStr).2 ∧
    ((fetchLine b asStr).1.st, (fetchLine b asStr).1.bytes, (fetchLine b asStr).2.abs) = specGetLine b.abs ∧
    (fetchLine b asStr).1.n = (fetchLine b asStr).1.bytes.length ∧ PG (fetchLine b asStr).2 ∧
    ((fetchLine b asStr).1.st = .ok → (fetchLine b asStr).1.z = asStr) := by
  have hp := h.hpos
  obtain ⟨s1, s2, s3⟩ := setAnchor_spec b (b.base + b.pos) h (by omega) (Nat.le_refl _)
  generalize hsa : setAnchor b (b.base + b.pos) = sa at *
  obtain ⟨st1, b1⟩ := sa
  simp only [] at s1 s2 s3
  subst s1
  obtain ⟨m1, m2, m3, m4, m5⟩ := s2.same
  obtain ⟨c1, c2, c3, c4⟩ := countline_spec b1 s3
  have habs1 : b1.abs = b.abs := abs_of_frame s2.frame
  have hsuf : b.abs.suffix = b1.src.drop (b1.base + b1.pos) := by
    simp [Abs.suffix, Buf.abs, m5, m3, m2]
  by_cases he : b.pos = b.n
  · -- end of input
    have he1 : b1.pos = b1.n := by simp [Buf.n, m1, m2]; exact he
    have hcl := c3 he1
    have hr := raiseAnchor_spec b1 (b.base + b.pos) s3
    have e : fetchLine b asStr = ({ st := .eof }, raiseAnchor b1 (b.base + b.pos)) := by
      unfold fetchLine; simp only [hsa, hcl]
    rw [e]
    have hs : b.abs.suffix = [] := by
      rw [hsuf, s3.suffix_win]
      have : b1.win = [] := by
        apply List.eq_nil_of_length_eq_zero; rw [win_length]; omega
      rw [this, m4, hl he]; rfl
    refine ⟨hr.2, ?_, rfl, Or.inr ?_, (fun hh => by simp at hh)⟩
    · rw [specGetLine_eof _ hs, abs_of_frame hr.1.frame, habs1]
    · rw [hr.1.same.2.2.2.1, m4]; exact hl he
  · have hlt1 : b1.pos < b1.n := by simp only [Buf.n, m1, m2] at *; omega
    obtain ⟨d1, d2, d3, d4⟩ := c4 hlt1
    generalize hcl : countline b1 = cl at *
    obtain ⟨st2, b2, nc, nskip⟩ := cl
    simp only [] at c1 c2 d1 d2 d3 d4
    subst d1
    clear c3 c4
    rw [← hsuf] at d2 d3
    have hsuf2 : b.abs.suffix = b2.win ++ b2.rest := by rw [hsuf, ← c2.src, ← c2.off, c1.suffix_win]
    have hncle : nc ≤ nskip := by omega
    have hsl := slice_eq c1 nc (by omega)
    have hfit : b2.pos + nskip ≤ b2.n := by
      have := c1.hpos
      rw [win_length] at d4; omega
    have hw3 := advance_wf c1 nskip hfit
    have habs3 : Buf.abs { b2 with pos := b2.pos + nskip } = { src := b.src, cur := b.base + b.pos + nskip } := by
      have hs := c2.src
      have ho := c2.off
      simp only [m5, m3, m2] at hs ho
      simp only [Buf.abs, hs]
      congr 1
      omega
    generalize hb3 : ({ b2 with pos := b2.pos + nskip } : Buf) = b3 at *
    have hr4 := raiseAnchor_spec b3 (b.base + b.pos) hw3
    generalize hb4 : raiseAnchor b3 (b.base + b.pos) = b4 at *
    have hr5 := refill_post b4 0 hr4.2
    generalize hrf : refill b4 0 = rf at *
    obtain ⟨st5, b5⟩ := rf
    simp only [] at hr5
    have hst5 : ¬ (st5 ≠ .eof ∧ st5 ≠ .ok) := by rcases hr5.status with h3 | h3 <;> simp [h3]
    have e : fetchLine b asStr =
        (({ st := .ok, bytes := (b2.src.drop (b2.base + b2.pos)).take nc, n := nc, z := asStr } : Out), b5) := by
      unfold fetchLine; simp only [hsa, hcl, hsl, hb3, hb4, hrf, hst5, if_false]
    rw [e]
    have hsne : b.abs.suffix ≠ [] := by
      rw [hsuf, s3.suffix_win]
      intro hh
      have := congrArg List.length hh
      simp only [List.length_append, win_length, List.length_nil] at this
      omega
    have hsrc2 : b2.src.drop (b2.base + b2.pos) = b.abs.suffix := by
      rw [hsuf, c2.src, c2.off]
    refine ⟨hr5.wf, ?_, ?_, ?_, (fun _ => rfl)⟩
    · rw [specGetLine_ok _ hsne, hsrc2, ← d3, ← d2]
      simp only [Prod.mk.injEq, true_and]
      rw [abs_of_frame hr5.frame, abs_of_frame hr4.1.frame, habs3]
      rfl
    · simp only [List.length_take]
      rw [hsrc2, hsuf2]
      simp only [List.length_append]
      omega
    · rcases hr5.guarantee (Nat.zero_le _) with g | g
      · left; show b5.pagesize ≤ b5.n - b5.pos; omega
      · right; exact g

/-! ### esl_buffer_Read -/

/-- the `while (n - pos < nbytes)` loop: it stops with `nbytes` bytes loaded exactly when the input has that
    many left; otherwise it answers `eslEOF` with the stream exhausted. -/
theorem readLoop_spec (k : Nat) (fuel : Nat) : ∀ (b : Buf), WF b → b.rest.length + 1 ≤ fuel →
    WF (readLoop k fuel b).2 ∧ Frame b (readLoop k fuel b).2 ∧
    (k ≤ b.abs.suffix.length → (readLoop k fuel b).1 = .ok ∧ k ≤ (readLoop k fuel b).2.n - (readLoop k fuel b).2.pos) ∧
    (b.abs.suffix.length < k → (readLoop k fuel b).1 = .eof ∧ (readLoop k fuel b).2.rest = []) := by
  induction fuel with
  | zero => intro b _ hf; omega
  | succ fuel ih =>
    intro b h hfuel
    have hsl := suffix_length h
    by_cases hlt : b.n - b.pos < k
    · have hr := refill_post b k h
      have hsl1 := suffix_length hr.wf
      rw [abs_of_frame hr.frame] at hsl1
      generalize hrf : refill b k = rf at *
      obtain ⟨st, b1⟩ := rf
      simp only [] at hr hsl1
      by_cases hst : st = .eof
      · have e : readLoop k (fuel + 1) b = (.eof, b1) := by
          rw [readLoop]; simp only [hlt, if_true, hrf, hst]
        rw [e]
        obtain ⟨q1, q2⟩ := hr.eof_imp hst
        refine ⟨hr.wf, hr.frame, (fun hk => ?_), (fun _ => ⟨rfl, q2⟩)⟩
        rw [q2] at hsl1
        simp only [List.length_nil] at hsl1
        omega
      · have hok : st = .ok := by rcases hr.status with h1 | h1 <;> simp_all
        subst hok
        by_cases hnp : b1.n - b1.pos = b.n - b.pos
        · have e : readLoop k (fuel + 1) b = (.eof, b1) := by
            rw [readLoop]; simp only [hlt, if_true, hrf, hnp]; simp
          rw [e]
          have q2 := hr.noprog hnp (by omega)
          refine ⟨hr.wf, hr.frame, (fun hk => ?_), (fun _ => ⟨rfl, q2⟩)⟩
          rw [q2] at hsl1
          simp only [List.length_nil] at hsl1
          omega
        · have e : readLoop k (fuel + 1) b = readLoop k fuel b1 := by
            rw [readLoop]; simp only [hlt, if_true, hrf, hnp]; simp
          rw [e]
          have hprog := hr.prog (by have := hr.frame.avail; omega)
          obtain ⟨i1, i2, i3, i4⟩ := ih b1 hr.wf (by omega)
          rw [abs_of_frame hr.frame] at i3 i4
          exact ⟨i1, hr.frame.trans i2, i3, i4⟩
    · have e : readLoop k (fuel + 1) b = (.ok, b) := by
        rw [readLoop]; simp only [hlt, if_false]
      rw [e]
      exact ⟨h, Frame.refl b, (fun _ => ⟨rfl, by show k ≤ b.n - b.pos; omega⟩), (fun hk => by omega)⟩

theorem read_refines (b : Buf) (k : Nat) (h : WF b) :
    WF (read b k).2 ∧
    ((read b k).1.st, (read b k).1.bytes, (read b k).2.abs) = specRead b.abs k ∧
    (read b k).1.n = (read b k).1.bytes.length ∧ PG (read b k).2 := by
  have hp := h.hpos
  have hng : ¬ b.pos > b.n := by omega
  have hsl := suffix_length h
  obtain ⟨l1, l2, l3, l4⟩ := readLoop_spec k (b.rest.length + 2) b h (by omega)
  generalize hrl : readLoop k (b.rest.length + 2) b = r at *
  obtain ⟨st1, b1⟩ := r
  simp only [] at l1 l2 l3 l4
  by_cases hk : k ≤ b.abs.suffix.length
  · obtain ⟨o1, o2⟩ := l3 hk
    subst o1
    clear l3 l4
    have hslice := slice_eq l1 k (by rw [win_length]; exact o2)
    have hfit : b1.pos + k ≤ b1.n := by have := l1.hpos; omega
    have hw2 := advance_wf l1 k hfit
    have habs2 : Buf.abs { b1 with pos := b1.pos + k } = { src := b.src, cur := b.base + b.pos + k } := by
      have hs := l2.src
      have ho := l2.off
      simp only [Buf.abs, hs]
      congr 1
      omega
    have hsrc1 : b1.src.drop (b1.base + b1.pos) = b.abs.suffix := by
      rw [l2.src, l2.off]; rfl
    generalize hb2 : ({ b1 with pos := b1.pos + k } : Buf) = b2 at *
    have hr3 := refill_post b2 0 hw2
    generalize hrf : refill b2 0 = rf at *
    obtain ⟨st3, b3⟩ := rf
    simp only [] at hr3
    have hst3 : ¬ (st3 ≠ .ok ∧ st3 ≠ .eof) := by rcases hr3.status with h3 | h3 <;> simp [h3]
    have e : read b k =
        (({ st := .ok, bytes := (b1.src.drop (b1.base + b1.pos)).take k, n := k } : Out), b3) := by
      unfold read; simp only [hng, if_false, hrl, hslice, hb2, hrf, hst3]
    rw [e]
    refine ⟨hr3.wf, ?_, ?_, ?_⟩
    · have hnlt : ¬ b.abs.suffix.length < k := by omega
      simp only [specRead, hnlt, if_false, hsrc1, Prod.mk.injEq, true_and]
      rw [abs_of_frame hr3.frame, habs2]
      rfl
    · simp only [List.length_take]
      rw [hsrc1]
      omega
    · rcases hr3.guarantee (Nat.zero_le _) with g | g
      · left; show b3.pagesize ≤ b3.n - b3.pos; omega
      · right; exact g
  · have hlt : b.abs.suffix.length < k := by omega
    obtain ⟨o1, o2⟩ := l4 hlt
    subst o1
    have e : read b k = ({ st := .eof }, b1) := by
      unfold read; simp only [hng, if_false, hrl]
    rw [e]
    refine ⟨l1, ?_, rfl, Or.inr o2⟩
    simp only [specRead, hlt, if_true, Prod.mk.injEq, true_and]
    exact abs_of_frame l2

end EaselModel.Buffer
