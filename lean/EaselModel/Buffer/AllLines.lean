import EaselModel.Buffer.History
import EaselModel.Buffer.Partition
/-! Reading a whole input line by line (`while (esl_buffer_GetLine(...) == eslOK)`) yields exactly `specLines src`,
    on every opener and page size. This is the line reader the alignment/sequence-file models (C01, C02, …) assume. -/
namespace EaselModel.Buffer

/-- the three line operations -/
def isLineOp (op : Op) : Prop := op = .getLine ∨ op = .fetchLine ∨ op = .fetchLineStr

/-- `while (op(bf, &p, &n) == eslOK) collect p[0..n)` with any mix of the three line operations chosen by `pick` -/
def readLines (pick : Nat → Op) : Nat → Sess → List Bytes
  | 0, _ => []
  | fuel + 1, s =>
    let r := s.step (pick fuel)
    if r.1.st = .ok then r.1.bytes :: readLines pick fuel r.2 else []

theorem specStep_line (a : AState) (op : Op) (h : isLineOp op) :
    (specStep a op).1 = ⟨(specGetLine a.abs).1, (specGetLine a.abs).2.1, (specGetLine a.abs).2.2.cur⟩ ∧
    (specStep a op).2.src = a.src ∧ (specStep a op).2.cur = (specGetLine a.abs).2.2.cur := by
  rcases h with h | h | h <;> rw [h] <;> exact ⟨rfl, aBrk_src a a.cur, rfl⟩

theorem valid_line (P : Nat) (a : AState) (op : Op) (h : isLineOp op) : Valid P a op := by
  rcases h with h | h | h <;> rw [h] <;> trivial

theorem lineOp_ne_get (op : Op) (h : isLineOp op) : op ≠ .get := by
  rcases h with h | h | h <;> rw [h] <;> intro hh <;> cases hh

theorem readLines_spec (P : Nat) (pick : Nat → Op) (hpick : ∀ i, isLineOp (pick i)) (fuel : Nat) :
    ∀ (a : AState) (s : Sess), R P a s →
    readLines pick fuel s = (specLinesAux fuel a.abs.suffix).map (·.body) := by
  induction fuel with
  | zero => intro a s _; rfl
  | succ fuel ih =>
    intro a s r
    have hop := hpick fuel
    obtain ⟨h1, h2⟩ := sim_all P (pick fuel) a s r (valid_line P a _ hop)
    obtain ⟨e1, e2, e3⟩ := specStep_line a (pick fuel) hop
    have hst : (s.step (pick fuel)).1.st = (specGetLine a.abs).1 := by
      have := congrArg Obs.st h1
      rw [e1] at this; exact this
    have hby : (s.step (pick fuel)).1.bytes = (specGetLine a.abs).2.1 := by
      have := congrArg Obs.bytes h1
      rw [e1] at this
      have hb : (obsOf (pick fuel) (s.step (pick fuel)).1 (s.step (pick fuel)).2).bytes = (s.step (pick fuel)).1.bytes := by
        show (if pick fuel = .get then [] else (s.step (pick fuel)).1.bytes) = _
        rw [if_neg (lineOp_ne_get _ hop)]
      rw [hb] at this; exact this
    show (if (s.step (pick fuel)).1.st = .ok then (s.step (pick fuel)).1.bytes :: readLines pick fuel (s.step (pick fuel)).2 else []) = _
    rw [hst, hby, ih _ _ h2]
    -- unfold one step of the specification's line list
    rw [specLinesAux]
    unfold specGetLine
    cases hl : specLine a.abs.suffix with
    | none => simp
    | some x =>
      obtain ⟨line, nskip⟩ := x
      simp only [if_true, List.map_cons]
      congr 2
      -- the new specification state's suffix is the old one with the line stepped over
      have : (specStep a (pick fuel)).2.abs.suffix = a.abs.suffix.drop nskip := by
        show (specStep a (pick fuel)).2.src.drop (specStep a (pick fuel)).2.cur = (a.src.drop a.cur).drop nskip
        rw [e2, e3]
        unfold specGetLine
        rw [hl]
        show a.src.drop (a.cur + nskip) = _
        rw [List.drop_drop]
      rw [this]

/-- **Reading a whole input line by line.** For every input, opener, page size ≥ 1 and any mix of `GetLine`, `FetchLine`,
    `FetchLineAsStr`: the lines returned until the first non-OK status are exactly the bodies of `specLines src` — the
    maximal LF/CRLF-free runs that `lines_partition` characterises. -/
theorem readLines_eq_specLines (mode : Mode) (ps : Nat) (src : Bytes) (hps : 0 < ps) (pick : Nat → Op)
    (hpick : ∀ i, isLineOp (pick i)) :
    readLines pick (src.length + 1) { b := openBuf mode ps src } = (specLines src).map (·.body) := by
  have r := open_R mode ps src hps ps (Nat.le_refl _)
  rw [readLines_spec ps pick hpick (src.length + 1) _ _ r]
  rfl

/-- In the modes that hold the whole input (string, slurped file, mmap, short pipe) `Get` exposes all the rest of it. -/
theorem get_all_in_memory {P : Nat} {a : AState} {s : Sess} (r : R P a s) (hf : s.b.hasfp = false)
    (hlt : a.cur < a.src.length) :
    (get s.b).1.st = .ok ∧ (get s.b).1.bytes = a.abs.suffix ∧ (get s.b).1.n = a.src.length - a.cur := by
  obtain ⟨g1, g2, _, _⟩ := get_prefix r hlt
  have hpos := r.at_end_iff.mpr hlt
  have e : (get s.b).1.n = s.b.n - s.b.pos := by unfold get; rw [if_pos hpos]
  have hs : s.b.abs.suffix.length = (s.b.n - s.b.pos) + s.b.rest.length := suffix_length r.wf
  rw [r.abs_eq, r.wf.hnofp hf] at hs
  have hl : a.abs.suffix.length = a.src.length - a.cur := abs_suffix_length a.abs
  simp only [List.length_nil, Nat.add_zero] at hs
  refine ⟨g1, ?_, by rw [e]; omega⟩
  rw [g2, e, ← hs, List.take_length]

end EaselModel.Buffer
