import EaselModel.Buffer.Hist
/-! Packaging: every operation that leaves the anchor record alone re-establishes `R` from a handful of facts. -/
namespace EaselModel.Buffer

theorem abs_suffix_length (a : Abs) : a.suffix.length = a.src.length - a.cur := by
  simp [Abs.suffix]

/-- Rebuild the simulation relation after an operation whose effect on the anchor record is `X` (in input coordinates). -/
theorem R.of_keepX {P : Nat} {a a' : AState} {s s' : Sess} {X : Option Nat} (r : R P a s)
    (wf : WF s'.b) (pg : PG s'.b) (k : KeepX X s.b s'.b) (aok : AnchOK s'.b)
    (hX : s.b.hasfp = true → X = a'.anchor) (hXn : s.b.hasfp = false → X = none)
    (hsrc : a'.src = a.src) (hsub : ∀ A, a'.anchor = some A → a.anchor = some A)
    (hnanch : a'.anchor ≠ none → a'.nanchor = a.nanchor)
    (hcur : s'.b.base + s'.b.pos = a'.cur)
    (hlp : s'.lastp.map (s'.b.base + ·) = a'.lastp)
    (hlple : ∀ p, a'.lastp = some p → p ≤ a'.cur) : R P a' s' := by
  refine ⟨wf, pg, aok, ?_, by rw [k.src, r.src, hsrc], hcur, by rw [k.ps]; exact r.ps, ?_, ?_, ?_, ?_, hlp, hlple⟩
  · intro hf
    rw [k.hasfp] at hf
    exact (absAnchor_eq_none s'.b).mp (by rw [k.anch]; exact hXn hf)
  · rw [k.hasfp, k.mode]; exact r.modefp
  · intro hf
    rw [k.hasfp] at hf
    rw [(k.nofp hf).1]; exact r.base0 hf
  · intro hf
    rw [k.hasfp] at hf
    obtain ⟨r1, r2⟩ := r.anch hf
    refine ⟨by rw [k.anch, hX hf], fun hne => ?_⟩
    have hXne : X ≠ none := by rw [hX hf]; exact hne
    rw [k.nanch hXne, hnanch hne]
    apply r2
    cases ha' : a'.anchor with
    | none => exact absurd ha' hne
    | some A => rw [hsub A ha']; simp
  · intro A hA
    have hne : a'.anchor ≠ none := by rw [hA]; simp
    rw [hnanch hne]
    exact r.aanch A (hsub A hA)

/-- Rebuild the simulation relation after an operation that keeps the anchor (in input coordinates) and its count. -/
theorem R.of_keepA {P : Nat} {a a' : AState} {s s' : Sess} (r : R P a s)
    (wf : WF s'.b) (pg : PG s'.b) (k : KeepA s.b s'.b) (aok : AnchOK s'.b)
    (hsrc : a'.src = a.src) (hanch : a'.anchor = a.anchor) (hnanch : a'.nanchor = a.nanchor)
    (hcur : s'.b.base + s'.b.pos = a'.cur) (hge : a.cur ≤ a'.cur)
    (hlp : s'.lastp.map (s'.b.base + ·) = a'.lastp)
    (hlple : ∀ p, a'.lastp = some p → a.cur ≤ p ∧ p ≤ a'.cur) : R P a' s' :=
  r.of_keepX wf pg k.toKeepX aok (fun hf => by rw [(r.anch hf).1, hanch])
    (fun hf => (absAnchor_eq_none s.b).mpr (r.nfa hf)) hsrc (fun A hA => by rw [← hanch]; exact hA) (fun _ => hnanch) hcur hlp
    (fun p hp => (hlple p hp).2)

theorem R.abs_eq {P : Nat} {a : AState} {s : Sess} (r : R P a s) : s.b.abs = a.abs := by
  simp only [Buf.abs, AState.abs, r.src, r.cur]

theorem sim_getOffset (P : Nat) : SimStep P .getOffset := by
  intro a s r _
  refine ⟨?_, ?_⟩
  · show (⟨St.ok, [], s.b.base + s.b.pos⟩ : Obs) = ⟨.ok, [], a.cur⟩
    rw [r.cur]
  · exact r.of_keepA (s' := (s.step .getOffset).2) (a' := { a with lastp := none }) r.wf r.pg (KeepA.refl _) r.aok rfl rfl rfl r.cur
      (Nat.le_refl _) rfl (fun p hp => by cases hp)

/-- end of the loaded bytes with the page guarantee in force = end of the input -/
theorem R.at_end_iff {P : Nat} {a : AState} {s : Sess} (r : R P a s) : s.b.pos < s.b.n ↔ a.cur < a.src.length := by
  have hs : s.b.abs.suffix.length = (s.b.n - s.b.pos) + s.b.rest.length := suffix_length r.wf
  rw [r.abs_eq] at hs
  have hl : a.abs.suffix.length = a.src.length - a.cur := abs_suffix_length a.abs
  have hp := r.wf.hpos
  have hps := r.wf.hps
  constructor
  · intro h; omega
  · intro h
    rcases r.pg with g | g
    · omega
    · rw [g] at hs; simp only [List.length_nil] at hs; omega

theorem sim_get (P : Nat) : SimStep P .get := by
  intro a s r _
  have hiff := r.at_end_iff
  by_cases hlt : s.b.pos < s.b.n
  · have hlt' := hiff.mp hlt
    have e : get s.b = (({ st := .ok, bytes := s.b.mem.drop s.b.pos, n := s.b.n - s.b.pos, p := some s.b.pos } : Out), s.b) := by
      unfold get; rw [if_pos hlt]
    have es : specStep a .get = (⟨.ok, [], a.cur⟩, { a with lastp := some a.cur }) := by
      show (if a.cur < a.src.length then _ else _) = _
      rw [if_pos hlt']
    rw [es]
    refine ⟨?_, ?_⟩
    · show (⟨(get s.b).1.st, [], (get s.b).2.base + (get s.b).2.pos⟩ : Obs) = _
      rw [e, r.cur]
    · have hb : (s.step .get).2.b = s.b := by rw [step_b]; show (get s.b).2 = _; rw [e]
      have hp : (s.step .get).2.lastp = some s.b.pos := by rw [step_lastp]; show (get s.b).1.p = _; rw [e]
      refine r.of_keepA (s' := (s.step .get).2) (by rw [hb]; exact r.wf) (by rw [hb]; exact r.pg) (by rw [hb]; exact KeepA.refl _)
        (by rw [hb]; exact r.aok) rfl rfl rfl (by rw [hb]; exact r.cur) (Nat.le_refl _) ?_ ?_
      · rw [hp, hb]; show some (s.b.base + s.b.pos) = some a.cur; rw [r.cur]
      · intro p hp'
        show a.cur ≤ p ∧ p ≤ a.cur
        have hpe : p = a.cur := by cases hp'; rfl
        rw [hpe]; exact ⟨Nat.le_refl _, Nat.le_refl _⟩
  · have hlt' : ¬ a.cur < a.src.length := fun h => hlt (hiff.mpr h)
    have e : get s.b = (({ st := .eof } : Out), s.b) := by unfold get; rw [if_neg hlt]
    have es : specStep a .get = (⟨.eof, [], a.cur⟩, { a with lastp := none }) := by
      show (if a.cur < a.src.length then _ else _) = _
      rw [if_neg hlt']
    rw [es]
    refine ⟨?_, ?_⟩
    · show (⟨(get s.b).1.st, [], (get s.b).2.base + (get s.b).2.pos⟩ : Obs) = _
      rw [e, r.cur]
    · have hb : (s.step .get).2.b = s.b := by rw [step_b]; show (get s.b).2 = _; rw [e]
      have hp : (s.step .get).2.lastp = none := by rw [step_lastp]; show (get s.b).1.p = _; rw [e]
      refine r.of_keepA (s' := (s.step .get).2) (by rw [hb]; exact r.wf) (by rw [hb]; exact r.pg) (by rw [hb]; exact KeepA.refl _)
        (by rw [hb]; exact r.aok) rfl rfl rfl (by rw [hb]; exact r.cur) (Nat.le_refl _) (by rw [hp]; rfl)
        (fun p hp' => by cases hp')

end EaselModel.Buffer
