import EaselModel.Buffer.Refill
/-! `buffer_countline` computes `esl_memnewline` of the whole rest of the input, whatever the page size. -/
namespace EaselModel.Buffer

/-- the loaded bytes after the cursor -/
@[reducible] def Buf.win (b : Buf) : Bytes := b.mem.drop b.pos

theorem win_length (b : Buf) : b.win.length = b.n - b.pos := by simp [Buf.win, Buf.n]

theorem WF.suffix_win {b : Buf} (h : WF b) : b.src.drop (b.base + b.pos) = b.win ++ b.rest := h.suffix

/-- steps that keep the frame only append to the loaded bytes after the cursor, taking them from the stream -/
theorem window_extend {b b' : Buf} (h : WF b) (h' : WF b') (fr : Frame b b') :
    ∃ x, b'.win = b.win ++ x ∧ b.rest = x ++ b'.rest := by
  have e : b'.win ++ b'.rest = b.win ++ b.rest := by
    rw [← h'.suffix_win, ← h.suffix_win, fr.src, fr.off]
  have hl : b.win.length ≤ b'.win.length := by rw [win_length, win_length]; exact fr.avail
  rcases List.append_eq_append_iff.mp e with ⟨a, h1, h2⟩ | ⟨c, h1, h2⟩
  · -- b.win = b'.win ++ a : then a = []
    have : a = [] := by
      have := congrArg List.length h1
      simp only [List.length_append] at this
      apply List.eq_nil_of_length_eq_zero; omega
    subst this
    exact ⟨[], by simpa using h1.symm, by simpa using h2.symm⟩
  · exact ⟨c, h1, h2⟩

theorem countlineLoop_spec (fuel : Nat) : ∀ (b : Buf) (nc : Nat), WF b → b.rest.length + 1 ≤ fuel →
    nc ≤ b.win.length → nc ≤ runLen notLF b.win →
    WF (countlineLoop fuel b nc).2.1 ∧ Frame b (countlineLoop fuel b nc).2.1 ∧
    ((countlineLoop fuel b nc).1 = .ok ∨ (countlineLoop fuel b nc).1 = .eof) ∧
    ((countlineLoop fuel b nc).2.2.1, (countlineLoop fuel b nc).2.2.2) = memnewline (b.src.drop (b.base + b.pos)) ∧
    (countlineLoop fuel b nc).2.2.1 + (countlineLoop fuel b nc).2.2.2 ≤ (countlineLoop fuel b nc).2.1.win.length := by
  induction fuel with
  | zero => intro b nc _ hf; omega
  | succ fuel ih =>
    intro b nc h hfuel hnc hfree
    have hp := h.hpos
    have hwl := win_length b
    have hrl := runLen_le notLF b.win
    -- the back-up step
    obtain ⟨nc1, hback, hnc1, hcr⟩ : ∃ nc1, backUp b nc = some nc1 ∧ nc1 ≤ nc ∧
        (runLen notLF (b.win.drop nc1) = 0 → nc1 = 0 ∨ b.win[nc1 - 1]? ≠ some CR) := by
      unfold backUp
      by_cases h0 : nc = 0
      · exact ⟨nc, by simp [h0], Nat.le_refl _, fun _ => Or.inl h0⟩
      · have hlt : b.pos + nc - 1 < b.mem.length := by simp only [Buf.n] at *; omega
        have hget : b.mem[b.pos + nc - 1]? = some (b.mem[b.pos + nc - 1]) := List.getElem?_eq_getElem hlt
        have hwget : b.win[nc - 1]? = some (b.mem[b.pos + nc - 1]) := by
          rw [Buf.win, List.getElem?_drop, ← hget]; congr 1; omega
        simp only [h0, if_false, hget]
        by_cases hc : b.mem[b.pos + nc - 1] = CR
        · refine ⟨nc - 1, by simp [hc], by omega, ?_⟩
          intro hz
          exfalso
          -- the byte at nc-1 is CR, which is not LF, so the run from nc-1 is at least 1
          have hlt2 : nc - 1 < b.win.length := by omega
          have : b.win.drop (nc - 1) = b.mem[b.pos + nc - 1] :: b.win.drop (nc - 1 + 1) := by
            rw [List.drop_eq_getElem_cons hlt2]
            congr 1
            have := List.getElem?_eq_getElem hlt2
            rw [hwget] at this
            exact (Option.some.inj this).symm
          rw [this, hc] at hz
          simp [runLen, notLF, CR, LF] at hz
        · refine ⟨nc, by simp [hc], Nat.le_refl _, ?_⟩
          intro _; right
          rw [hwget]; simpa using hc
    have e1 : countlineLoop (fuel + 1) b nc =
        (if b.pos + nc1 > b.n then (.fault, b, nc1, 0) else
          let (nc2, nterm) := memnewline (b.mem.drop (b.pos + nc1))
          let nc' := nc1 + nc2
          if nterm ≠ 0 then (.ok, b, nc', nterm)
          else
            let (st, b') := refill b nc'
            if st ≠ .ok ∧ st ≠ .eof then (st, b', nc', 0)
            else if b'.n - b'.pos > nc' then countlineLoop fuel b' nc'
            else (st, b', nc', 0)) := by
      rw [countlineLoop, hback]
    rw [e1]
    have hnot : ¬ b.pos + nc1 > b.n := by omega
    simp only [hnot, if_false]
    have hm : b.mem.drop (b.pos + nc1) = b.win.drop nc1 := by rw [Buf.win, List.drop_drop]
    rw [hm]
    have hk : nc1 ≤ runLen notLF b.win := by omega
    have hd := runLen_drop notLF b.win nc1 hk
    have hmb := memnewline_bound (b.win.drop nc1)
    have hml : (b.win.drop nc1).length = b.win.length - nc1 := List.length_drop
    generalize hmn : memnewline (b.win.drop nc1) = mn at *
    obtain ⟨nc2, nterm⟩ := mn
    simp only []
    by_cases hnt : nterm = 0
    · -- no LF in the loaded bytes: refill, then loop or stop
      simp only [hnt, ne_eq, not_true_eq_false, if_false]
      have hall : runLen notLF (b.win.drop nc1) = (b.win.drop nc1).length := by
        have := (memnewline_snd_eq_zero_iff (b.win.drop nc1)).mp (by rw [hmn]; exact hnt)
        exact this
      have hnc2 : nc2 = (b.win.drop nc1).length := by
        have := memnewline_nolf _ hall
        rw [hmn] at this; exact (Prod.mk.inj this).1
      have hnc' : nc1 + nc2 = b.win.length := by rw [hnc2, hml]; omega
      have hwfree : runLen notLF b.win = b.win.length := by omega
      rw [hnc']
      have hr := refill_post b b.win.length h
      generalize hrf : refill b b.win.length = rf at *
      obtain ⟨st, b'⟩ := rf
      simp only [] at hr ⊢
      have hst : ¬ (st ≠ .ok ∧ st ≠ .eof) := by
        rcases hr.status with h1 | h1 <;> simp [h1]
      simp only [hst, if_false]
      obtain ⟨x, hx1, hx2⟩ := window_extend h hr.wf hr.frame
      have hw'l := win_length b'
      by_cases hmore : b'.n - b'.pos > b.win.length
      · simp only [hmore, if_true]
        have hprog := hr.prog (by omega)
        have hfree' : b.win.length ≤ runLen notLF b'.win := by
          rw [hx1, runLen_append]; simp only [hwfree, if_true]; omega
        have := ih b' b.win.length hr.wf (by omega) (by omega) hfree'
        obtain ⟨i1, i2, i3, i4, i5⟩ := this
        refine ⟨i1, hr.frame.trans i2, i3, ?_, i5⟩
        rw [i4, hr.frame.src, hr.frame.off]
      · simp only [hmore, if_false]
        have heq : b'.n - b'.pos = b.n - b.pos := by have := hr.frame.avail; omega
        have hrest' := hr.noprog heq (by have := h.hps; omega)
        have hx : x = [] := by
          have := congrArg List.length hx1
          simp only [List.length_append] at this
          apply List.eq_nil_of_length_eq_zero; omega
        refine ⟨hr.wf, hr.frame, hr.status, ?_, ?_⟩
        · rw [h.suffix_win, hx2, hx, hrest']
          simp only [List.append_nil]
          exact (memnewline_nolf _ hwfree).symm
        · omega
    · -- LF found in the loaded bytes
      simp only [hnt, ne_eq, not_false_eq_true, if_true]
      have hlf : runLen notLF (b.win.drop nc1) < (b.win.drop nc1).length := by
        have := mt (memnewline_snd_eq_zero_iff (b.win.drop nc1)).mpr (by rw [hmn]; exact hnt)
        have := runLen_le notLF (b.win.drop nc1)
        omega
      have hlfw : runLen notLF b.win < b.win.length := by omega
      have hcr' : runLen notLF b.win = nc1 → nc1 = 0 ∨ b.win[nc1 - 1]? ≠ some CR := by
        intro hh; apply hcr; omega
      have hmd := memnewline_drop b.win nc1 hk hlfw hcr'
      rw [hmn] at hmd
      refine ⟨h, Frame.refl b, by simp, ?_, ?_⟩
      · rw [h.suffix_win, memnewline_append_found _ _ hlfw, hmd]
      · omega

/-! ### anchors only touch `anchor`/`nanchor` -/

/-- `b'` is `b` with a different anchor record -/
def AnchorOnly (b b' : Buf) : Prop := ∃ a n t, b' = { b with anchor := a, nanchor := n, stab := t }

theorem AnchorOnly.frame {b b' : Buf} (h : AnchorOnly b b') : Frame b b' := by
  obtain ⟨a, n, t, rfl⟩ := h; exact ⟨rfl, rfl, rfl, rfl, rfl, Nat.le_refl _⟩

theorem AnchorOnly.wf {b b' : Buf} (h : AnchorOnly b b') (hw : WF b) (ha : ∀ a, b'.anchor = some a → a ≤ b.pos) : WF b' := by
  obtain ⟨a, n, t, rfl⟩ := h
  exact ⟨hw.hwin, hw.hpos, fun x hx => Nat.le_trans (ha x hx) hw.hpos, hw.hps, hw.heof, hw.hnofp⟩

theorem AnchorOnly.wf' {b b' : Buf} (h : AnchorOnly b b') (hw : WF b) (ha : ∀ a, b'.anchor = some a → a ≤ b.n) : WF b' := by
  obtain ⟨a, n, t, rfl⟩ := h
  exact ⟨hw.hwin, hw.hpos, ha, hw.hps, hw.heof, hw.hnofp⟩

theorem AnchorOnly.same {b b' : Buf} (h : AnchorOnly b b') :
    b'.mem = b.mem ∧ b'.pos = b.pos ∧ b'.base = b.base ∧ b'.rest = b.rest ∧ b'.src = b.src := by
  obtain ⟨a, n, t, rfl⟩ := h; exact ⟨rfl, rfl, rfl, rfl, rfl⟩

theorem setAnchor_spec (b : Buf) (o : Nat) (h : WF b) (h1 : b.base ≤ o) (h2 : o ≤ b.base + b.pos) :
    (setAnchor b o).1 = .ok ∧ AnchorOnly b (setAnchor b o).2 ∧ WF (setAnchor b o).2 := by
  have hp := h.hpos
  unfold setAnchor
  split
  · exact ⟨rfl, ⟨b.anchor, b.nanchor, b.stab, rfl⟩, h⟩
  · have : ¬ (o < b.base ∨ o > b.base + b.n) := by omega
    simp only [this, if_false]
    cases ha : b.anchor with
    | none =>
      refine ⟨rfl, ⟨_, _, _, rfl⟩, AnchorOnly.wf ⟨_, _, _, rfl⟩ h ?_⟩
      intro a haa; simp at haa; omega
    | some a0 =>
      have ha0 := h.hanch a0 ha
      simp only []
      split
      · refine ⟨rfl, ⟨_, _, _, rfl⟩, AnchorOnly.wf ⟨_, _, _, rfl⟩ h ?_⟩
        intro a haa; simp at haa; omega
      · split
        · refine ⟨rfl, ⟨_, _, _, rfl⟩, AnchorOnly.wf ⟨_, _, _, rfl⟩ h ?_⟩
          intro a haa; simp at haa; omega
        · exact ⟨rfl, ⟨b.anchor, b.nanchor, b.stab, rfl⟩, h⟩

theorem raiseAnchor_spec (b : Buf) (o : Nat) (h : WF b) :
    AnchorOnly b (raiseAnchor b o) ∧ WF (raiseAnchor b o) := by
  unfold raiseAnchor
  cases ha : b.anchor with
  | none => exact ⟨⟨b.anchor, b.nanchor, b.stab, rfl⟩, h⟩
  | some a0 =>
    simp only []
    split
    · split
      · refine ⟨⟨_, _, _, rfl⟩, AnchorOnly.wf ⟨_, _, _, rfl⟩ h ?_⟩
        intro a haa; simp at haa
      · refine ⟨⟨_, _, _, rfl⟩, AnchorOnly.wf' ⟨_, _, _, rfl⟩ h ?_⟩
        intro a haa; simp at haa; have := h.hanch a0 ha; omega
    · exact ⟨⟨b.anchor, b.nanchor, b.stab, rfl⟩, h⟩

/-! ### buffer_countline -/

theorem memnewline_zero (m : Bytes) (h : memnewline m = (0, 0)) : m = [] := by
  have h2 : (memnewline m).2 = 0 := by rw [h]
  have := memnewline_nolf m ((memnewline_snd_eq_zero_iff m).mp h2)
  rw [h] at this
  exact List.eq_nil_of_length_eq_zero (Prod.mk.inj this).1.symm

theorem specLine_eq (s : Bytes) (hs : s ≠ []) :
    specLine s = some (s.take (memnewline s).1, (memnewline s).1 + (memnewline s).2) := by
  unfold specLine memnewline
  simp only [hs, if_false]
  split
  · simp
  · split
    · rename_i h1 h2; simp only []; congr 2; omega
    · rfl

/-- `buffer_countline` on a well-formed buffer: end of window ⇒ `eslEOF`; otherwise `(nc, nskip)` is
    `esl_memnewline` of the whole rest of the input and the line with its terminator is loaded. -/
theorem countline_spec (b : Buf) (h : WF b) :
    WF (countline b).2.1 ∧ Frame b (countline b).2.1 ∧
    (b.pos = b.n → countline b = (.eof, b, 0, 0)) ∧
    (b.pos < b.n → (countline b).1 = .ok ∧
      (countline b).2.2.1 = (memnewline (b.src.drop (b.base + b.pos))).1 ∧
      (countline b).2.2.2 = (memnewline (b.src.drop (b.base + b.pos))).1 + (memnewline (b.src.drop (b.base + b.pos))).2 ∧
      (countline b).2.2.2 ≤ (countline b).2.1.win.length) := by
  have hp := h.hpos
  by_cases he : b.pos = b.n
  · have e : countline b = (.eof, b, 0, 0) := by unfold countline; simp [he]
    rw [e]
    exact ⟨h, Frame.refl b, fun _ => rfl, fun hh => by omega⟩
  · have hlt : b.pos < b.n := by omega
    have hng : ¬ b.pos > b.n := by omega
    obtain ⟨l1, l2, l3, l4, l5⟩ := countlineLoop_spec (b.rest.length + 2) b 0 h (by omega) (Nat.zero_le _) (Nat.zero_le _)
    generalize hcl : countlineLoop (b.rest.length + 2) b 0 = r at *
    obtain ⟨st, b', nc, nterm⟩ := r
    simp only [] at l1 l2 l3 l4 l5
    have hs : b.src.drop (b.base + b.pos) ≠ [] := by
      rw [h.suffix_win]
      intro hh
      have := congrArg List.length hh
      simp only [List.length_append, win_length, List.length_nil] at this
      omega
    have hnz : ¬ (nc = 0 ∧ nterm = 0) := by
      rintro ⟨h1, h2⟩
      subst h1; subst h2
      exact hs (memnewline_zero _ l4.symm)
    have e : countline b = (.ok, b', nc, nc + nterm) := by
      unfold countline
      simp only [he, hng, if_false, hcl]
      have h1 : ¬ (st ≠ .ok ∧ st ≠ .eof) := by rcases l3 with h3 | h3 <;> simp [h3]
      have h2 : ¬ (st = .eof ∧ nc = 0 ∧ nterm = 0) := fun hh => hnz hh.2
      simp only [h1, h2, if_false]
    rw [e]
    refine ⟨l1, l2, fun hh => by omega, fun _ => ⟨rfl, ?_, ?_, l5⟩⟩
    · simp only []; rw [← l4]
    · simp only []; rw [← l4]

end EaselModel.Buffer
