import EaselModel.Buffer.Stable
/-! # Invariants closed under the primitive steps hold along every operation (round 6)

A predicate on `ESL_BUFFER` states that is preserved by `buffer_refill`, by moving the cursor, by `SetAnchor`/`RaiseAnchor`,
by the two window resets of `SetOffset` and by `SetStableAnchor` is preserved by every one of the 14 operations, with any
arguments, from any state (no well-formedness hypothesis). Used for: the opening mode and the stream handle never change. -/
namespace EaselModel.Buffer

structure Closed (Φ : Buf → Prop) : Prop where
  refill : ∀ b k, Φ b → Φ (refill b k).2
  pos : ∀ b p, Φ b → Φ { b with pos := p }
  setA : ∀ b o, Φ b → Φ (setAnchor b o).2
  raise : ∀ b o, Φ b → Φ (raiseAnchor b o)
  rebase : ∀ b o, Φ b → Φ { b with base := 0, pos := o }
  seek : ∀ b o, Φ b → Φ { b with rest := b.src.drop o, fed := o, eof := false, base := o, mem := [], pos := 0, memgen := b.memgen + 1 }
  stable : ∀ b o, Φ b → Φ (setStableAnchor b o).2

/-! ### the loops -/

theorem countlineLoop_C {Φ : Buf → Prop} (hΦ : Closed Φ) (fuel : Nat) :
    ∀ (b : Buf) (nc : Nat), Φ b → Φ (countlineLoop fuel b nc).2.1 := by
  induction fuel with
  | zero => intro b nc h; exact h
  | succ fuel ih =>
    intro b nc h
    rw [countlineLoop]
    have hr : ∀ k, Φ (refill b k).2 := fun k => hΦ.refill b k h
    repeat' (first | exact h | exact hr _ | exact ih _ _ (hr _) | split | dsimp only)

theorem countline_C {Φ : Buf → Prop} (hΦ : Closed Φ) (b : Buf) (h : Φ b) : Φ (countline b).2.1 := by
  unfold countline
  split
  · exact h
  · split
    · exact h
    · have := countlineLoop_C hΦ (b.rest.length + 2) b 0 h
      generalize countlineLoop (b.rest.length + 2) b 0 = r at *
      obtain ⟨st, b', nc, nterm⟩ := r
      dsimp only at this ⊢
      repeat' (first | exact this | split | dsimp only)

theorem skipsepLoop_C {Φ : Buf → Prop} (hΦ : Closed Φ) (sep : Bytes) (fuel : Nat) :
    ∀ (b : Buf), Φ b → Φ (skipsepLoop sep fuel b).2 := by
  induction fuel with
  | zero => intro b h; exact h
  | succ fuel ih =>
    intro b h
    rw [skipsepLoop]
    dsimp only
    have h1 : Φ { b with pos := b.pos + runLen (isSep sep) (b.mem.drop b.pos) } := hΦ.pos b _ h
    have h2 := hΦ.refill _ 0 h1
    have ih1 := ih _ h2
    repeat' (first | exact h | exact h1 | exact h2 | exact ih1 | split | dsimp only)

theorem skipsep_C {Φ : Buf → Prop} (hΦ : Closed Φ) (b : Buf) (sep : Bytes) (h : Φ b) : Φ (skipsep b sep).2 :=
  skipsepLoop_C hΦ sep _ b h

theorem newline_C {Φ : Buf → Prop} (hΦ : Closed Φ) (b : Buf) (h : Φ b) : Φ (newline b).2 := by
  unfold newline
  split
  · exact h
  · split
    · exact h
    · dsimp only
      have h0 : Φ (if b.n - b.pos = 1 ∧ b.mem[b.pos]? = some CR then refill b 1 else (St.ok, b)).2 := by
        split
        · exact hΦ.refill b 1 h
        · exact h
      generalize (if b.n - b.pos = 1 ∧ b.mem[b.pos]? = some CR then refill b 1 else (St.ok, b)) = r0 at *
      have h2 : ∀ nl, Φ (refill { r0.2 with pos := r0.2.pos + nl } 0).2 := fun nl => hΦ.refill _ 0 (hΦ.pos _ _ h0)
      repeat' (first | exact h0 | exact h2 _ | split | dsimp only)

theorem counttokLoop_C {Φ : Buf → Prop} (hΦ : Closed Φ) (sep : Bytes) (fuel : Nat) :
    ∀ (b : Buf) (nc : Nat), Φ b → Φ (counttokLoop sep fuel b nc).2.1 := by
  induction fuel with
  | zero => intro b nc h; exact h
  | succ fuel ih =>
    intro b nc h
    rw [counttokLoop]
    have hr : ∀ k, Φ (refill b k).2 := fun k => hΦ.refill b k h
    repeat' (first | exact h | exact hr _ | exact ih _ _ (hr _) | split | dsimp only)

theorem counttok_C {Φ : Buf → Prop} (hΦ : Closed Φ) (b : Buf) (sep : Bytes) (h : Φ b) : Φ (counttok b sep).2.1 := by
  unfold counttok
  split
  · exact h
  · have := counttokLoop_C hΦ sep (b.rest.length + 2) b 1 h
    generalize counttokLoop sep (b.rest.length + 2) b 1 = r at *
    obtain ⟨st, b1, nc⟩ := r
    dsimp only at this
    cases st <;> (try dsimp only) <;> (try exact this)
    split <;> exact this

theorem readLoop_C {Φ : Buf → Prop} (hΦ : Closed Φ) (k : Nat) (fuel : Nat) : ∀ (b : Buf), Φ b → Φ (readLoop k fuel b).2 := by
  induction fuel with
  | zero => intro b h; exact h
  | succ fuel ih =>
    intro b h
    rw [readLoop]
    split
    · have hr := hΦ.refill b k h
      generalize refill b k = r at *
      obtain ⟨st, b'⟩ := r
      dsimp only at hr ⊢
      repeat' (first | exact hr | exact ih _ hr | split | dsimp only)
    · exact h

theorem ffwdLoop_C {Φ : Buf → Prop} (hΦ : Closed Φ) (o : Nat) (fuel : Nat) : ∀ (b : Buf), Φ b → Φ (ffwdLoop o fuel b).2 := by
  induction fuel with
  | zero => intro b h; exact h
  | succ fuel ih =>
    intro b h
    rw [ffwdLoop]
    have h1 : Φ { b with pos := b.n } := hΦ.pos b _ h
    have h2 := hΦ.refill _ 0 h1
    have ih1 := ih _ h2
    repeat' (first | exact h | exact h2 | exact ih1 | split | dsimp only)

/-! ### the operations -/

theorem getLine_C {Φ : Buf → Prop} (hΦ : Closed Φ) (b : Buf) (h : Φ b) : Φ (getLine b).2 := by
  unfold getLine
  dsimp only
  have q1 := hΦ.setA b (b.base + b.pos) h
  generalize setAnchor b (b.base + b.pos) = sa at *
  obtain ⟨st1, b1⟩ := sa
  dsimp only at q1
  cases st1 <;> (try dsimp only) <;> (try exact q1)
  have q2 := countline_C hΦ b1 q1
  generalize countline b1 = cl at *
  obtain ⟨st2, b2, nc, nskip⟩ := cl
  dsimp only at q2
  have q4' := hΦ.raise b2 (b.base + b.pos) q2
  cases st2 <;> (try dsimp only) <;> (try exact q4')
  have q3 := hΦ.refill b2 nskip q2
  generalize refill b2 nskip = rf at *
  obtain ⟨st3, b3⟩ := rf
  dsimp only at q3
  have q4 := hΦ.raise b3 (b.base + b.pos) q3
  repeat' (first | exact q4 | exact hΦ.pos _ _ q4 | split | dsimp only)

theorem fetchLine_C {Φ : Buf → Prop} (hΦ : Closed Φ) (b : Buf) (asStr : Bool) (h : Φ b) : Φ (fetchLine b asStr).2 := by
  unfold fetchLine
  dsimp only
  have q1 := hΦ.setA b (b.base + b.pos) h
  generalize setAnchor b (b.base + b.pos) = sa at *
  obtain ⟨st1, b1⟩ := sa
  dsimp only at q1
  cases st1 <;> (try dsimp only) <;> (try exact q1)
  have q2 := countline_C hΦ b1 q1
  generalize countline b1 = cl at *
  obtain ⟨st2, b2, nc, nskip⟩ := cl
  dsimp only at q2
  have q4' := hΦ.raise b2 (b.base + b.pos) q2
  cases st2 <;> (try dsimp only) <;> (try exact q4')
  have q3 : Φ (raiseAnchor { b2 with pos := b2.pos + nskip } (b.base + b.pos)) := hΦ.raise _ _ (hΦ.pos b2 _ q2)
  have q5 := hΦ.refill _ 0 q3
  repeat' (first | exact q2 | exact q5 | split | dsimp only)

theorem getToken_C {Φ : Buf → Prop} (hΦ : Closed Φ) (b : Buf) (sep : Bytes) (h : Φ b) : Φ (getToken b sep).2 := by
  unfold getToken
  have q1 := skipsep_C hΦ b sep h
  generalize skipsep b sep = r1 at *
  obtain ⟨st1, b1⟩ := r1
  dsimp only at q1 ⊢
  cases st1 <;> (try dsimp only) <;> (try exact q1)
  have q2 := newline_C hΦ b1 q1
  generalize newline b1 = r2 at *
  obtain ⟨st2, b2⟩ := r2
  dsimp only at q2 ⊢
  cases st2 <;> (try dsimp only) <;> (try exact q2)
  have q3 := hΦ.setA b2 (b2.base + b2.pos) q2
  generalize setAnchor b2 (b2.base + b2.pos) = r3 at *
  obtain ⟨st3, b3⟩ := r3
  dsimp only at q3 ⊢
  cases st3 <;> (try dsimp only) <;> (try exact q3)
  have q4 := counttok_C hΦ b3 sep q3
  generalize counttok b3 sep = r4 at *
  obtain ⟨st4, b4, nc⟩ := r4
  dsimp only at q4 ⊢
  have q4' := hΦ.raise b4 (b2.base + b2.pos) q4
  cases st4 <;> (try dsimp only) <;> (try exact q4')
  have q5 : Φ { b4 with pos := b4.pos + nc } := hΦ.pos b4 _ q4
  have q6 := skipsep_C hΦ _ sep q5
  generalize skipsep { b4 with pos := b4.pos + nc } sep = r6 at *
  obtain ⟨st6, b6⟩ := r6
  dsimp only at q6 ⊢
  have q7 := hΦ.refill b6 0 q6
  generalize refill b6 0 = r7 at *
  obtain ⟨st7, b7⟩ := r7
  dsimp only at q7 ⊢
  repeat' (first | exact hΦ.raise _ _ q6 | exact hΦ.raise _ _ q7 | exact q7 | split | dsimp only)

theorem fetchToken_C {Φ : Buf → Prop} (hΦ : Closed Φ) (b : Buf) (sep : Bytes) (asStr : Bool) (h : Φ b) : Φ (fetchToken b sep asStr).2 := by
  unfold fetchToken
  have q1 := skipsep_C hΦ b sep h
  generalize skipsep b sep = r1 at *
  obtain ⟨st1, b1⟩ := r1
  dsimp only at q1 ⊢
  cases st1 <;> (try dsimp only) <;> (try exact q1)
  have q2 := newline_C hΦ b1 q1
  generalize newline b1 = r2 at *
  obtain ⟨st2, b2⟩ := r2
  dsimp only at q2 ⊢
  cases st2 <;> (try dsimp only) <;> (try exact q2)
  have q3 := hΦ.setA b2 (b2.base + b2.pos) q2
  generalize setAnchor b2 (b2.base + b2.pos) = r3 at *
  obtain ⟨st3, b3⟩ := r3
  dsimp only at q3 ⊢
  cases st3 <;> (try dsimp only) <;> (try exact q3)
  have q4 := counttok_C hΦ b3 sep q3
  generalize counttok b3 sep = r4 at *
  obtain ⟨st4, b4, nc⟩ := r4
  dsimp only at q4 ⊢
  have q4' := hΦ.raise b4 (b2.base + b2.pos) q4
  cases st4 <;> (try dsimp only) <;> (try exact q4')
  have q5 : Φ (raiseAnchor { b4 with pos := b4.pos + nc } (b2.base + b2.pos)) := hΦ.raise _ _ (hΦ.pos b4 _ q4)
  have q6 := skipsep_C hΦ _ sep q5
  generalize skipsep (raiseAnchor { b4 with pos := b4.pos + nc } (b2.base + b2.pos)) sep = r6 at *
  obtain ⟨st6, b6⟩ := r6
  dsimp only at q6 ⊢
  have q7 := hΦ.refill b6 0 q6
  generalize refill b6 0 = r7 at *
  obtain ⟨st7, b7⟩ := r7
  dsimp only at q7 ⊢
  repeat' (first | exact q4 | exact q6 | exact q7 | split | dsimp only)

theorem read_C {Φ : Buf → Prop} (hΦ : Closed Φ) (b : Buf) (k : Nat) (h : Φ b) : Φ (read b k).2 := by
  unfold read
  split
  · exact h
  · have q1 := readLoop_C hΦ k (b.rest.length + 2) b h
    generalize readLoop k (b.rest.length + 2) b = r at *
    obtain ⟨st, b1⟩ := r
    dsimp only at q1 ⊢
    cases st <;> (try dsimp only) <;> (try exact q1)
    have q2 : Φ (refill { b1 with pos := b1.pos + k } 0).2 := hΦ.refill _ 0 (hΦ.pos b1 _ q1)
    repeat' (first | exact q1 | exact q2 | split | dsimp only)

theorem set_C {Φ : Buf → Prop} (hΦ : Closed Φ) (b : Buf) (p : Option Nat) (k : Nat) (h : Φ b) : Φ (set b p k).2 := by
  unfold set
  cases p with
  | none => dsimp only; exact hΦ.refill b 0 h
  | some i => dsimp only; exact hΦ.refill _ 0 (hΦ.pos b _ h)

theorem setOffset_C {Φ : Buf → Prop} (hΦ : Closed Φ) (b : Buf) (o : Nat) (h : Φ b) : Φ (setOffset b o).2 := by
  unfold setOffset
  split
  · split
    · exact h
    · exact hΦ.rebase b o h
  · split
    · exact h
    · exact hΦ.rebase b o h
  · split
    · exact h
    · exact hΦ.rebase b o h
  · split
    · exact hΦ.pos b _ h
    · split
      · have q : Φ (refill { b with rest := b.src.drop o, fed := o, eof := false, base := o, mem := [], pos := 0, memgen := b.memgen + 1 } 0).2 :=
          hΦ.refill _ 0 (hΦ.seek b o h)
        repeat' (first | exact q | split | dsimp only)
      · split
        · exact h
        · have q1 := ffwdLoop_C hΦ o (b.rest.length + 2) b h
          generalize ffwdLoop o (b.rest.length + 2) b = r at *
          obtain ⟨st, b1⟩ := r
          dsimp only at q1 ⊢
          cases st <;> (try dsimp only) <;> (try exact q1)
          have q3 : Φ (refill { b1 with pos := o - b1.base } 0).2 := hΦ.refill _ 0 (hΦ.pos b1 _ q1)
          repeat' (first | exact q3 | split | dsimp only)

/-- every operation preserves every closed invariant -/
theorem closed_step {Φ : Buf → Prop} (hΦ : Closed Φ) (b : Buf) (lp : Option Nat) (op : Op) (h : Φ b) : Φ (opRun b lp op).2 := by
  cases op with
  | getLine => exact getLine_C hΦ b h
  | fetchLine => exact fetchLine_C hΦ b false h
  | fetchLineStr => exact fetchLine_C hΦ b true h
  | getToken sep => exact getToken_C hΦ b sep h
  | fetchToken sep => exact fetchToken_C hΦ b sep false h
  | fetchTokenStr sep => exact fetchToken_C hΦ b sep true h
  | read k => exact read_C hΦ b k h
  | get => show Φ (get b).2; unfold get; split <;> exact h
  | set k => exact set_C hΦ b lp k h
  | getOffset => exact h
  | setOffset o => exact setOffset_C hΦ b o h
  | setAnchor o => exact hΦ.setA b o h
  | setStableAnchor o => exact hΦ.stable b o h
  | raiseAnchor o => exact hΦ.raise b o h

end EaselModel.Buffer
