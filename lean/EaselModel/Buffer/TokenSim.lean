import EaselModel.Buffer.SimLines
/-! Anchor preservation and returned pointer of the token functions; their simulation. -/
namespace EaselModel.Buffer

/-- what the token calls do to the anchor record: with status `eslOK` the bracket at the token start (an anchor ahead
    of it is dropped), otherwise nothing -/
theorem fetchToken_keepX (b : Buf) (sep : Bytes) (asStr : Bool) (h : WF b) (ha : AnchOK b) (hnf : NoFpNoAnchor b) :
    ((fetchToken b sep asStr).1.st = .ok →
      KeepX (brkAt b.absAnchor (b.base + b.pos + runLen (isSep sep) b.abs.suffix)) b (fetchToken b sep asStr).2) ∧
    ((fetchToken b sep asStr).1.st ≠ .ok → KeepA b (fetchToken b sep asStr).2) ∧ AnchOK (fetchToken b sep asStr).2 := by
  obtain ⟨w1, k1, hs1, o1, hsuf1, c1⟩ := token_prefix b sep h
  generalize hk : runLen (isSep sep) b.abs.suffix = k at *
  generalize hs1d : b.abs.suffix.drop k = s1 at *
  generalize hsk : skipsep b sep = r1 at *
  obtain ⟨st1, b1⟩ := r1
  simp only [] at w1 k1 hs1 o1 hsuf1 c1
  rcases c1 with ⟨cs, cst, cpg⟩ | ⟨cs, cst, clt⟩
  · -- end of input
    subst cst
    have e : fetchToken b sep asStr = ({ st := .eof }, b1) := by unfold fetchToken; simp only [hsk]
    rw [e]
    exact ⟨(fun hh => by cases hh), (fun _ => k1.toKeepA), ha.keep k1⟩
  · subst cst
    obtain ⟨w2, k2, pg2, st2e, o2, lt2⟩ := newline_spec b1 w1 clt
    rw [hsuf1] at st2e o2 lt2
    generalize hnl : newline b1 = r2 at *
    obtain ⟨st2, b2⟩ := r2
    simp only [] at w2 k2 pg2 st2e o2 lt2
    by_cases hn : nlLen s1 = 0
    · -- a token
      have hst2 : st2 = .ok := by rw [st2e]; simp [hn]
      subst hst2
      have lt2' := lt2 hn
      rw [hn, Nat.add_zero] at o2
      have hsuf2 : b2.abs.suffix = s1 := by
        rw [suffix_of_off (k2.src) 0 (by rw [o2]; rfl), hsuf1]; rfl
      obtain ⟨a1, a2, a3⟩ := setAnchor_spec b2 (b2.base + b2.pos) w2 (by omega) (Nat.le_refl _)
      generalize hsa : setAnchor b2 (b2.base + b2.pos) = r3 at *
      obtain ⟨st3, b3⟩ := r3
      simp only [] at a1 a2 a3
      subst a1
      obtain ⟨m1, m2, m3, m4, m5⟩ := a2.same
      have lt3 : b3.pos < b3.n := by simp only [Buf.n, m1, m2] at *; exact lt2'
      have hsuf3 : b3.abs.suffix = s1 := by rw [abs_of_frame a2.frame]; exact hsuf2
      obtain ⟨t1, t2, t3, t4, t5, t6⟩ := counttok_spec b3 sep a3 lt3
      rw [hsuf3] at t5
      generalize hct : counttok b3 sep = r4 at *
      obtain ⟨st4, b4, nc⟩ := r4
      simp only [] at t1 t2 t3 t4 t5 t6
      subst t1
      have hsuf4 : b4.abs.suffix = s1 := by rw [abs_of_frame t3]; exact hsuf3
      have hsl := slice_eq t2 nc t6
      have hsl' : slice b4 b4.pos nc = some (s1.take nc) := by rw [hsl]; exact congrArg (fun l => some (List.take nc l)) hsuf4
      have hp4 := t2.hpos
      have hwl4 := win_length b4
      have w5a := advance_wf' t2 nc (by omega)
      obtain ⟨r5a, w5⟩ := raiseAnchor_spec { b4 with pos := b4.pos + nc } (b2.base + b2.pos) w5a
      have hbr := bracketX b2 { b4 with pos := b4.pos + nc } w2 (ha.keep (k1.trans k2)) (hnf.keep (k1.trans k2))
        (by rw [hsa]; exact t4.trans (setpos_keep b4 _))
      have hbk : b2.brkAnchor = brkAt b.absAnchor (b.base + b.pos + k) := by
        rw [brkAnchor_eq_brkAt, (k1.trans k2).anch, o2, o1]
      rw [hbk] at hbr
      generalize hb5 : raiseAnchor { b4 with pos := b4.pos + nc } (b2.base + b2.pos) = b5 at *
      obtain ⟨q1, q2, q3, q4, q5⟩ := r5a.same
      obtain ⟨w6, k6, o6, c6⟩ := skipsep_spec b5 sep w5
      have hsuf5 : b5.abs.suffix = s1.drop nc := by
        rw [← hsuf4]
        have q5' : b5.src = b4.src := q5
        have q32 : b5.base + b5.pos = b4.base + b4.pos + nc := by
          rw [q3, q2]; show b4.base + (b4.pos + nc) = _; omega
        exact suffix_of_off q5' nc q32
      rw [hsuf5] at o6
      generalize hsk6 : skipsep b5 sep = r6 at *
      obtain ⟨st6, b6⟩ := r6
      simp only [] at w6 k6 o6 c6
      have hst6 : okOrEof st6 = true := okOrEof_of (by rcases c6 with c | c; exact Or.inl c.1; exact Or.inr c.1)
      have hr7 := refill_post b6 0 w6
      generalize hrf : refill b6 0 = r7 at *
      obtain ⟨st7, b7⟩ := r7
      simp only [] at hr7
      have hst7 : okOrEof st7 = true := okOrEof_of hr7.status
      have e : fetchToken b sep asStr = (({ st := .ok, bytes := s1.take nc, n := nc, z := asStr } : Out), b7) := by
        unfold fetchToken
        simp only [hsk, hnl, hsa, hct, hsl', hb5, hsk6, hst6, hrf, hst7, Bool.not_true, Bool.false_eq_true, if_false]
      rw [e]
      have k67 := refill_keep b6 0 w6
      rw [hrf] at k67
      exact ⟨(fun _ => ((k1.trans k2).toKeepA.transX hbr.1
          (fun hne => fun hb => brkAt_ne_none hne ((absAnchor_eq_none b).mpr hb))).transA (k6.trans k67).toKeepA),
        (fun hh => absurd rfl hh), hbr.2.keep (k6.trans k67)⟩
    · -- a newline
      have hst2 : st2 = .eol := by rw [st2e]; simp [hn]
      subst hst2
      have e : fetchToken b sep asStr = ({ st := .eol }, b2) := by unfold fetchToken; simp only [hsk, hnl]
      rw [e]
      exact ⟨(fun hh => by cases hh), (fun _ => (k1.trans k2).toKeepA), ha.keep (k1.trans k2)⟩

theorem getToken_keep_pX (b : Buf) (sep : Bytes) (h : WF b) (ha : AnchOK b) (hnf : NoFpNoAnchor b) :
    ((getToken b sep).1.st = .ok →
      KeepX (brkAt b.absAnchor (b.base + b.pos + runLen (isSep sep) b.abs.suffix)) b (getToken b sep).2) ∧
    ((getToken b sep).1.st ≠ .ok → KeepA b (getToken b sep).2) ∧ AnchOK (getToken b sep).2 ∧
    ((getToken b sep).1.st = .ok → ∃ i, (getToken b sep).1.p = some i ∧
        (getToken b sep).2.base + i = b.base + b.pos + runLen (isSep sep) b.abs.suffix) ∧
    ((getToken b sep).1.st ≠ .ok → (getToken b sep).1.p = none) := by
  obtain ⟨w1, k1, hs1, o1, hsuf1, c1⟩ := token_prefix b sep h
  generalize hk : runLen (isSep sep) b.abs.suffix = k at *
  generalize hs1d : b.abs.suffix.drop k = s1 at *
  generalize hsk : skipsep b sep = r1 at *
  obtain ⟨st1, b1⟩ := r1
  simp only [] at w1 k1 hs1 o1 hsuf1 c1
  rcases c1 with ⟨cs, cst, cpg⟩ | ⟨cs, cst, clt⟩
  · -- end of input
    subst cst
    have e : getToken b sep = ({ st := .eof }, b1) := by unfold getToken; simp only [hsk]
    rw [e]
    exact ⟨(fun hh => by cases hh), (fun _ => k1.toKeepA), ha.keep k1, (fun hh => by cases hh), (fun _ => rfl)⟩
  · subst cst
    obtain ⟨w2, k2, pg2, st2e, o2, lt2⟩ := newline_spec b1 w1 clt
    rw [hsuf1] at st2e o2 lt2
    generalize hnl : newline b1 = r2 at *
    obtain ⟨st2, b2⟩ := r2
    simp only [] at w2 k2 pg2 st2e o2 lt2
    by_cases hn : nlLen s1 = 0
    · -- a token
      have hst2 : st2 = .ok := by rw [st2e]; simp [hn]
      subst hst2
      have lt2' := lt2 hn
      rw [hn, Nat.add_zero] at o2
      have hsuf2 : b2.abs.suffix = s1 := by
        rw [suffix_of_off (k2.src) 0 (by rw [o2]; rfl), hsuf1]; rfl
      obtain ⟨a1, a2, a3⟩ := setAnchor_spec b2 (b2.base + b2.pos) w2 (by omega) (Nat.le_refl _)
      generalize hsa : setAnchor b2 (b2.base + b2.pos) = r3 at *
      obtain ⟨st3, b3⟩ := r3
      simp only [] at a1 a2 a3
      subst a1
      obtain ⟨m1, m2, m3, m4, m5⟩ := a2.same
      have lt3 : b3.pos < b3.n := by simp only [Buf.n, m1, m2] at *; exact lt2'
      have hsuf3 : b3.abs.suffix = s1 := by rw [abs_of_frame a2.frame]; exact hsuf2
      obtain ⟨t1, t2, t3, t4, t5, t6⟩ := counttok_spec b3 sep a3 lt3
      rw [hsuf3] at t5
      generalize hct : counttok b3 sep = r4 at *
      obtain ⟨st4, b4, nc⟩ := r4
      simp only [] at t1 t2 t3 t4 t5 t6
      subst t1
      have hsuf4 : b4.abs.suffix = s1 := by rw [abs_of_frame t3]; exact hsuf3
      have hp4 := t2.hpos
      have hwl4 := win_length b4
      have w5 := advance_wf' t2 nc (by omega)
      generalize hb5 : ({ b4 with pos := b4.pos + nc } : Buf) = b5 at *
      have q5 : b5.src = b4.src := by rw [← hb5]
      have q32 : b5.base + b5.pos = b4.base + b4.pos + nc := by rw [← hb5]; show b4.base + (b4.pos + nc) = _; omega
      have k45 : Keep b4 b5 := by rw [← hb5]; exact setpos_keep b4 _
      obtain ⟨w6, k6, o6, c6⟩ := skipsep_spec b5 sep w5
      have hsuf5 : b5.abs.suffix = s1.drop nc := by
        rw [← hsuf4]; exact suffix_of_off q5 nc q32
      rw [hsuf5] at o6
      generalize hsk6 : skipsep b5 sep = r6 at *
      obtain ⟨st6, b6⟩ := r6
      simp only [] at w6 k6 o6 c6
      have hst6 : okOrEof st6 = true := okOrEof_of (by rcases c6 with c | c; exact Or.inl c.1; exact Or.inr c.1)
      have hr7 := refill_post b6 0 w6
      have k67 := refill_keep b6 0 w6
      generalize hrf : refill b6 0 = r7 at *
      obtain ⟨st7, b7⟩ := r7
      simp only [] at hr7 k67
      have hst7 : okOrEof st7 = true := okOrEof_of hr7.status
      -- the anchor set at the token start has kept the token in the window
      have hprot3 : Prot b3 (b2.base + b2.pos) := by
        have := setAnchor_prot b2 w2
        rw [hsa] at this; exact this
      have hprot7 : Prot b7 (b2.base + b2.pos) := hprot3.keep (((t4.trans k45).trans k6).trans k67)
      have hbase7 : ¬ (b2.base + b2.pos < b7.base) := by have := hprot7.1; omega
      have hoff7 : b7.base + b7.pos = b2.base + b2.pos + nc + runLen (isSep sep) (s1.drop nc) := by
        have f1 := hr7.frame.off
        have f3 := t3.off
        have f4 : b3.base + b3.pos = b2.base + b2.pos := by rw [m3, m2]
        omega
      have hsrc7 : b7.src = b2.src := by
        rw [hr7.frame.src, k6.src, q5, t3.src, m5]
      have hsl' : slice b7 (b2.base + b2.pos - b7.base) nc = some (s1.take nc) := by
        have hp7 := hr7.wf.hpos
        rw [slice_at hr7.wf (b2.base + b2.pos) nc hprot7.1 (by omega), hsrc7]
        have : b2.src.drop (b2.base + b2.pos) = s1 := hsuf2
        rw [this]
      obtain ⟨r8a, w8⟩ := raiseAnchor_spec b7 (b2.base + b2.pos) hr7.wf
      have e : getToken b sep = (({ st := .ok, bytes := s1.take nc, n := nc, p := some (b2.base + b2.pos - b7.base) } : Out),
          raiseAnchor b7 (b2.base + b2.pos)) := by
        unfold getToken
        simp only [hsk, hnl, hsa, hct, hb5, hsk6, hst6, hrf, hst7, Bool.not_true, Bool.false_eq_true, if_false, hbase7, hsl']
      rw [e]
      have hbr := bracketX b2 b7 w2 (ha.keep (k1.trans k2)) (hnf.keep (k1.trans k2))
        (by rw [hsa]; exact ((t4.trans k45).trans k6).trans k67)
      have hbk : b2.brkAnchor = brkAt b.absAnchor (b.base + b.pos + k) := by
        rw [brkAnchor_eq_brkAt, (k1.trans k2).anch, o2, o1]
      rw [hbk] at hbr
      obtain ⟨z1, z2, z3, z4, z5⟩ := r8a.same
      refine ⟨(fun _ => (k1.trans k2).toKeepA.transX hbr.1
          (fun hne => fun hb => brkAt_ne_none hne ((absAnchor_eq_none b).mpr hb))), (fun hh => absurd rfl hh), hbr.2,
        (fun _ => ⟨b2.base + b2.pos - b7.base, rfl, ?_⟩), (fun hh => absurd rfl hh)⟩
      show (raiseAnchor b7 (b2.base + b2.pos)).base + (b2.base + b2.pos - b7.base) = _
      have := hprot7.1
      rw [z3]; omega
    · -- a newline
      have hst2 : st2 = .eol := by rw [st2e]; simp [hn]
      subst hst2
      have e : getToken b sep = ({ st := .eol }, b2) := by unfold getToken; simp only [hsk, hnl]
      rw [e]
      exact ⟨(fun hh => by cases hh), (fun _ => (k1.trans k2).toKeepA), ha.keep (k1.trans k2), (fun hh => by cases hh), (fun _ => rfl)⟩

theorem getElem?_some_lt {l : Bytes} {i : Nat} {c : UInt8} (h : l[i]? = some c) : i < l.length := by
  rcases Nat.lt_or_ge i l.length with h1 | h1
  · exact h1
  · rw [List.getElem?_eq_none h1] at h; cases h

theorem nlLen_le (s : Bytes) : nlLen s ≤ s.length := by
  unfold nlLen
  split
  · rename_i h; have := getElem?_some_lt h; omega
  · split
    · rename_i h; have := getElem?_some_lt h.2; omega
    · omega

theorem tokLen_le (sep : Bytes) (s : Bytes) (hs : s ≠ []) : tokLen sep s ≤ s.length := by
  unfold tokLen
  have h1 := runLen_le (isTok sep) (s.drop 1)
  have h2 : (s.drop 1).length = s.length - 1 := List.length_drop
  have h3 : 0 < s.length := List.length_pos_iff.mpr hs
  simp only []
  split <;> omega

theorem specTok_used (sep : Bytes) (s : Bytes) :
    (specTok sep s).2.2 ≤ s.length ∧ ((specTok sep s).1 = .ok → runLen (isSep sep) s ≤ (specTok sep s).2.2) := by
  unfold specTok
  have hk := runLen_le (isSep sep) s
  have hl : (s.drop (runLen (isSep sep) s)).length = s.length - runLen (isSep sep) s := List.length_drop
  simp only []
  split
  · exact ⟨hk, fun hh => by cases hh⟩
  · rename_i hne
    split
    · have := nlLen_le (s.drop (runLen (isSep sep) s))
      exact ⟨by show _ + _ ≤ _; omega, fun hh => by cases hh⟩
    · have h1 := tokLen_le sep _ hne
      have h2 := runLen_le (isSep sep) ((s.drop (runLen (isSep sep) s)).drop (tokLen sep (s.drop (runLen (isSep sep) s))))
      have h3 : ((s.drop (runLen (isSep sep) s)).drop (tokLen sep (s.drop (runLen (isSep sep) s)))).length =
          (s.drop (runLen (isSep sep) s)).length - tokLen sep (s.drop (runLen (isSep sep) s)) := List.length_drop
      exact ⟨by show _ + _ + _ ≤ _; omega, fun _ => by show _ ≤ _ + _ + _; omega⟩

theorem specToken_cur (a : Abs) (sep : Bytes) :
    a.cur ≤ (specToken a sep).2.2.cur ∧ (specToken a sep).2.2.src = a.src ∧
    ((specToken a sep).1 = .ok → a.cur + runLen (isSep sep) a.suffix ≤ (specToken a sep).2.2.cur) := by
  have hu := specTok_used sep a.suffix
  have hl := abs_suffix_length a
  have e1 : (specToken a sep).1 = (specTok sep a.suffix).1 := rfl
  have e2 : (specToken a sep).2.2.cur = a.cur + (specTok sep a.suffix).2.2 := rfl
  have e3 : (specToken a sep).2.2.src = a.src := rfl
  rw [e1, e2, e3]
  exact ⟨Nat.le_add_right _ _, rfl, fun hh => by have := hu.2 hh; omega⟩

theorem aBrk_anchor (a : AState) (t : Nat) : (aBrk a t).anchor = brkAt a.anchor t := by
  unfold aBrk brkAt
  cases ha : a.anchor with
  | none => simp only []; exact ha
  | some A => simp only []; split
              · exact ha
              · rfl

/-- the anchor effect of a token call (`ok` = the call returned a token starting at offset `t`), packaged for `sim_of_refinesX` -/
theorem R.tok_anchor {P : Nat} {a : AState} {s : Sess} (r : R P a s) (ok : Prop) [Decidable ok] (t : Nat) {b' : Buf}
    (k1 : ok → KeepX (brkAt s.b.absAnchor t) s.b b') (k2 : ¬ ok → KeepA s.b b') :
    KeepX (if ok then brkAt s.b.absAnchor t else s.b.absAnchor) s.b b' ∧
    (s.b.hasfp = true → (if ok then brkAt s.b.absAnchor t else s.b.absAnchor) = (if ok then aBrk a t else a).anchor) ∧
    (s.b.hasfp = false → (if ok then brkAt s.b.absAnchor t else s.b.absAnchor) = none) ∧
    (if ok then aBrk a t else a).src = a.src ∧
    (∀ A, (if ok then aBrk a t else a).anchor = some A → a.anchor = some A) ∧
    ((if ok then aBrk a t else a).anchor ≠ none → (if ok then aBrk a t else a).nanchor = a.nanchor) := by
  have hn : s.b.hasfp = false → s.b.absAnchor = none := fun hf => (absAnchor_eq_none s.b).mpr (r.nfa hf)
  by_cases h : ok
  · have e1 : (if ok then brkAt s.b.absAnchor t else s.b.absAnchor) = brkAt s.b.absAnchor t := if_pos h
    have e2 : (if ok then aBrk a t else a) = aBrk a t := if_pos h
    rw [e1, e2]
    refine ⟨k1 h, (fun hf => by rw [(r.anch hf).1, aBrk_anchor]), (fun hf => by rw [hn hf]; rfl), aBrk_src a t,
      (fun A hA => (aBrk_sub a t A hA).1), aBrk_nanchor a t⟩
  · have e1 : (if ok then brkAt s.b.absAnchor t else s.b.absAnchor) = s.b.absAnchor := if_neg h
    have e2 : (if ok then aBrk a t else a) = a := if_neg h
    rw [e1, e2]
    exact ⟨(k2 h).toKeepX, (fun hf => (r.anch hf).1), hn, rfl, (fun _ hA => hA), (fun _ => rfl)⟩

theorem sim_getToken (P : Nat) (sep : Bytes) : SimStep P (.getToken sep) := by
  intro a s r _
  obtain ⟨w, e, _, pg⟩ := getToken_refines s.b sep r.wf
  rw [r.abs_eq] at e
  obtain ⟨kx, ka, ok, p1, p2⟩ := getToken_keep_pX s.b sep r.wf r.aok r.nfa
  rw [r.abs_eq] at p1 kx
  rw [r.cur] at kx
  have hc := specToken_cur a.abs sep
  have e1 : (getToken s.b sep).1.st = (specToken a.abs sep).1 := congrArg Prod.fst e
  rw [e1] at kx ka
  obtain ⟨t1, t2, t3, t4, t5, t6⟩ := r.tok_anchor ((specToken a.abs sep).1 = .ok) (a.cur + runLen (isSep sep) a.abs.suffix) kx ka
  refine sim_of_refinesX (s' := (s.step (.getToken sep)).2) (o := (getToken s.b sep).1) (spec := specToken a.abs sep)
    (lp := if (specToken a.abs sep).1 = .ok then some (a.cur + runLen (isSep sep) a.abs.suffix) else none)
    r w pg t1 ok t2 t3 t4 t5 t6 e ⟨hc.1, hc.2.1⟩ ?_ ?_
  · show ((getToken s.b sep).1.p).map ((getToken s.b sep).2.base + ·) = _
    by_cases hok : (specToken a.abs sep).1 = .ok
    · rw [if_pos hok]
      obtain ⟨i, hi1, hi2⟩ := p1 (by rw [e1]; exact hok)
      rw [hi1]; show some ((getToken s.b sep).2.base + i) = _
      rw [hi2, r.cur]
    · rw [if_neg hok, p2 (by rw [e1]; exact hok)]; rfl
  · intro p hp
    split at hp
    · rename_i hok
      cases hp
      exact ⟨Nat.le_add_right _ _, hc.2.2 hok⟩
    · cases hp

theorem sim_fetchToken_gen (P : Nat) (sep : Bytes) (asStr : Bool) (op : Op)
    (hop : op = .fetchToken sep ∨ op = .fetchTokenStr sep)
    (hrun : ∀ b lp, opRun b lp op = fetchToken b sep asStr) : SimStep P op := by
  intro a s r _
  obtain ⟨w, e, _, pg, _⟩ := fetchToken_refines s.b sep asStr r.wf
  rw [r.abs_eq] at e
  obtain ⟨kx, ka, ok⟩ := fetchToken_keepX s.b sep asStr r.wf r.aok r.nfa
  rw [r.abs_eq, r.cur] at kx
  have e1 : (fetchToken s.b sep asStr).1.st = (specToken a.abs sep).1 := congrArg Prod.fst e
  rw [e1] at kx ka
  obtain ⟨t1, t2, t3, t4, t5, t6⟩ := r.tok_anchor ((specToken a.abs sep).1 = .ok) (a.cur + runLen (isSep sep) a.abs.suffix) kx ka
  have hc := specToken_cur a.abs sep
  have hb : (s.step op).2.b = (fetchToken s.b sep asStr).2 := by rw [step_b, hrun]
  have hl : (s.step op).2.lastp = none := by rw [step_lastp, hrun]; exact fetchToken_p s.b sep asStr
  have ho : (s.step op).1 = (fetchToken s.b sep asStr).1 := by rw [step_out, hrun]
  have hne : op ≠ .get := by rcases hop with h | h <;> rw [h] <;> intro hh <;> cases hh
  have := sim_of_refinesX (s' := (s.step op).2) (o := (fetchToken s.b sep asStr).1) (spec := specToken a.abs sep) (lp := none)
    r (by rw [hb]; exact w) (by rw [hb]; exact pg) (by rw [hb]; exact t1) (by rw [hb]; exact ok) t2 t3 t4 t5 t6 (by rw [hb]; exact e)
    ⟨hc.1, hc.2.1⟩ (by rw [hl]; rfl) (fun p hp => by cases hp)
  have hspec : specStep a op = (⟨(specToken a.abs sep).1, (specToken a.abs sep).2.1, (specToken a.abs sep).2.2.cur⟩,
      { (if (specToken a.abs sep).1 = .ok then aBrk a (a.cur + runLen (isSep sep) a.abs.suffix) else a) with
        cur := (specToken a.abs sep).2.2.cur, lastp := none }) := by
    rcases hop with h | h <;> rw [h] <;> rfl
  rw [hspec]
  refine ⟨?_, this.2⟩
  show (⟨(s.step op).1.st, if op = .get then [] else (s.step op).1.bytes, _⟩ : Obs) = _
  rw [if_neg hne, ho]; exact this.1

theorem sim_fetchToken (P : Nat) (sep : Bytes) : SimStep P (.fetchToken sep) :=
  sim_fetchToken_gen P sep false (.fetchToken sep) (Or.inl rfl) (fun _ _ => rfl)

theorem sim_fetchTokenStr (P : Nat) (sep : Bytes) : SimStep P (.fetchTokenStr sep) :=
  sim_fetchToken_gen P sep true (.fetchTokenStr sep) (Or.inr rfl) (fun _ _ => rfl)

end EaselModel.Buffer
