import EaselModel.Buffer.Spec
/-! List-level facts about the scanning primitives (`runLen`, `memnewline`). -/
namespace EaselModel.Buffer

theorem runLen_le (p : UInt8 → Bool) (l : Bytes) : runLen p l ≤ l.length := by
  induction l with
  | nil => simp [runLen]
  | cons c cs ih => simp only [runLen]; split <;> simp <;> omega

/-- all bytes before the run end satisfy `p` -/
theorem runLen_spec_lt (p : UInt8 → Bool) (l : Bytes) (i : Nat) (h : i < runLen p l) :
    ∃ c, l[i]? = some c ∧ p c = true := by
  induction l generalizing i with
  | nil => simp [runLen] at h
  | cons c cs ih =>
    simp only [runLen] at h
    split at h
    · cases i with
      | zero => exact ⟨c, by simp, by assumption⟩
      | succ j => simpa using ih j (by omega)
    · omega

/-- the byte at the run end (if any) fails `p` -/
theorem runLen_spec_at (p : UInt8 → Bool) (l : Bytes) (h : runLen p l < l.length) :
    ∃ c, l[runLen p l]? = some c ∧ p c = false := by
  induction l with
  | nil => simp at h
  | cons c cs ih =>
    simp only [runLen] at h ⊢
    split
    · rename_i hc
      simp only [hc, if_true] at h
      simpa using ih (by simpa using h)
    · rename_i hc
      exact ⟨c, by simp, by simpa using hc⟩

theorem runLen_append (p : UInt8 → Bool) (l r : Bytes) :
    runLen p (l ++ r) = if runLen p l = l.length then l.length + runLen p r else runLen p l := by
  induction l with
  | nil => simp [runLen]
  | cons c cs ih =>
    simp only [List.cons_append, runLen]
    by_cases hc : p c = true
    · simp only [hc, if_true, List.length_cons, ih]
      split <;> split <;> omega
    · simp [hc]

theorem runLen_eq_length_iff (p : UInt8 → Bool) (l : Bytes) :
    runLen p l = l.length ↔ ∀ c ∈ l, p c = true := by
  induction l with
  | nil => simp [runLen]
  | cons c cs ih =>
    simp only [runLen, List.length_cons, List.mem_cons, forall_eq_or_imp]
    by_cases hc : p c = true
    · simp [hc, ih]
    · simp [hc]

theorem runLen_take_self (p : UInt8 → Bool) (l : Bytes) :
    runLen p (l.take (runLen p l)) = runLen p l := by
  induction l with
  | nil => simp [runLen]
  | cons c cs ih =>
    simp only [runLen]
    by_cases hc : p c = true
    · simp [hc, runLen, ih]
    · simp [hc, runLen]

/-- `memnewline` only looks at the part of its argument up to and including the first LF -/
theorem memnewline_append_found (m r : Bytes) (h : runLen notLF m < m.length) :
    memnewline (m ++ r) = memnewline m := by
  have hl := runLen_le notLF m
  have e : runLen notLF (m ++ r) = runLen notLF m := by
    rw [runLen_append]; split <;> omega
  simp only [memnewline, e, List.length_append]
  have h1 : ¬ runLen notLF m = m.length + r.length := by omega
  have h2 : ¬ runLen notLF m = m.length := by omega
  simp only [h1, h2, if_false]
  have e2 : (m ++ r)[runLen notLF m - 1]? = m[runLen notLF m - 1]? := by
    rw [List.getElem?_append]; split
    · rfl
    · omega
  rw [e2]

theorem memnewline_nolf (m : Bytes) (h : runLen notLF m = m.length) : memnewline m = (m.length, 0) := by
  simp [memnewline, h]

theorem memnewline_snd_eq_zero_iff (m : Bytes) : (memnewline m).2 = 0 ↔ runLen notLF m = m.length := by
  simp only [memnewline]
  split
  · simp [*]
  · split <;> simp [*]

theorem memnewline_bound (m : Bytes) : (memnewline m).1 + (memnewline m).2 ≤ m.length := by
  have hl := runLen_le notLF m
  simp only [memnewline]
  split
  · simp
  · split
    · rename_i h1 h2; simp only []; omega
    · simp only []; omega

/-- splitting off an LF-free prefix `p` (the part already scanned by `buffer_countline`) -/
theorem memnewline_split (p m : Bytes) (hp : runLen notLF p = p.length) (hlf : runLen notLF m < m.length)
    (hcr : runLen notLF m = 0 → p.getLast? ≠ some CR) :
    memnewline (p ++ m) = (p.length + (memnewline m).1, (memnewline m).2) := by
  have hl := runLen_le notLF m
  have e : runLen notLF (p ++ m) = p.length + runLen notLF m := by
    rw [runLen_append]; simp [hp]
  simp only [memnewline, e, List.length_append]
  have h1 : ¬ p.length + runLen notLF m = p.length + m.length := by omega
  have h2 : ¬ runLen notLF m = m.length := by omega
  simp only [h1, h2, if_false]
  by_cases hi : runLen notLF m = 0
  · -- LF is the first byte of `m`
    have hcr' := hcr hi
    simp only [hi, Nat.add_zero, Nat.lt_irrefl, false_and, if_false]
    have : ¬ (0 < p.length ∧ (p ++ m)[p.length - 1]? = some CR) := by
      rintro ⟨hpos, hget⟩
      apply hcr'
      rw [List.getElem?_append] at hget
      have : p.length - 1 < p.length := by omega
      simp only [this, if_true] at hget
      rw [List.getLast?_eq_getElem?]; exact hget
    simp [this]
  · have e2 : (p ++ m)[p.length + runLen notLF m - 1]? = m[runLen notLF m - 1]? := by
      rw [List.getElem?_append]
      have : ¬ p.length + runLen notLF m - 1 < p.length := by omega
      simp only [this, if_false]
      congr 1; omega
    rw [e2]
    have hpos : 0 < p.length + runLen notLF m := by omega
    have hpos' : 0 < runLen notLF m := by omega
    simp only [hpos, hpos', true_and]
    split
    · simp only []; congr 1; omega
    · rfl

theorem runLen_take (p : UInt8 → Bool) (l : Bytes) (k : Nat) (hk : k ≤ runLen p l) : runLen p (l.take k) = k := by
  induction l generalizing k with
  | nil => simp [runLen] at hk; simp [hk, runLen]
  | cons c cs ih =>
    cases k with
    | zero => simp [runLen]
    | succ j =>
      simp only [runLen] at hk
      by_cases hc : p c = true
      · simp only [hc, if_true] at hk
        simp [List.take_succ_cons, runLen, hc, ih j (by omega)]
      · simp [hc] at hk

theorem runLen_drop (p : UInt8 → Bool) (l : Bytes) (k : Nat) (hk : k ≤ runLen p l) :
    runLen p (l.drop k) = runLen p l - k := by
  induction l generalizing k with
  | nil => simp [runLen]
  | cons c cs ih =>
    cases k with
    | zero => simp
    | succ j =>
      simp only [runLen] at hk ⊢
      by_cases hc : p c = true
      · simp only [hc, if_true] at hk ⊢
        simp only [List.drop_succ_cons]
        rw [ih j (by omega)]; omega
      · simp [hc] at hk

/-- `memnewline` of a string whose first `k` bytes are known to be LF-free, from the scan of the rest -/
theorem memnewline_drop (w : Bytes) (k : Nat) (hk : k ≤ runLen notLF w) (hlf : runLen notLF w < w.length)
    (hcr : runLen notLF w = k → k = 0 ∨ w[k-1]? ≠ some CR) :
    memnewline w = (k + (memnewline (w.drop k)).1, (memnewline (w.drop k)).2) := by
  have hl := runLen_le notLF w
  have hkl : k ≤ w.length := by omega
  have hw : w = w.take k ++ w.drop k := (List.take_append_drop k w).symm
  have hlen : (w.take k).length = k := by simp [List.length_take]; omega
  have hd := runLen_drop notLF w k hk
  have := memnewline_split (w.take k) (w.drop k) (by rw [runLen_take _ _ _ hk, hlen])
    (by rw [hd, List.length_drop]; omega)
    (by
      intro h0
      have hk' : runLen notLF w = k := by omega
      rcases Nat.eq_zero_or_pos k with h2 | h2
      · subst h2; simp
      · rcases hcr hk' with h1 | h1
        · omega
        · rw [List.getLast?_eq_getElem?, hlen, List.getElem?_take]
          have : k - 1 < k := by omega
          simp only [this, if_true]; exact h1)
  rw [← hw, hlen] at this
  exact this

end EaselModel.Buffer
