/-! Which `esl_mem_IsReal` the driver runs (hand-written since fix 8112354 landed; regenerated from the working tree while the repair was pending). -/
namespace EaselModel.Buffer.Mem.MemConsts

/-- an earlier, stricter proposal (`else return FALSE` in the scan loop): never landed (it refuses Pfam's "#=GF GA 25.00 25.00;") -/
def isRealStrict : Bool := false

/-- `esl_mem_IsReal` tests that the number starts right after the blanks and the sign (fix 8112354; model `Mem.memIsRealL`, MemRealStart.lean) -/
def isRealStart : Bool := true

end EaselModel.Buffer.Mem.MemConsts
