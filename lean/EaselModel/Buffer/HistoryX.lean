import EaselModel.Buffer.Inv
import EaselModel.Buffer.Beyond
import EaselModel.Buffer.History
/-! # `history_spec` beyond the API contract, where the outcome is deterministic (round 6)

The contract `Valid` excludes `SetOffset` to an offset beyond the end of the input. On a stream or a pipe that is read in pages
the outcome of such a call (ahead of the cursor) is nevertheless the same for every page size and window
(`step_beyond_end_deterministic`), so the specification can say it: `specStepX`. `history_spec_x` is `history_spec` for the
larger class `ValidHistX` of histories. -/
namespace EaselModel.Buffer

theorem refill_mode (b : Buf) (k : Nat) : (refill b k).2.mode = b.mode ∧ (refill b k).2.hasfp = b.hasfp := by
  unfold refill
  split
  · exact ⟨rfl, rfl⟩
  · split
    · exact ⟨rfl, rfl⟩
    · split
      · exact ⟨rfl, rfl⟩
      · have hs : ∃ b1, shiftLeft b = some b1 ∧ b1.mode = b.mode ∧ b1.hasfp = b.hasfp := by
          unfold shiftLeft
          split
          · exact ⟨b, rfl, rfl, rfl⟩
          · unfold shiftLeft0
            split
            · cases b.anchor with
              | none => exact ⟨_, rfl, rfl, rfl⟩
              | some a => dsimp only; split <;> exact ⟨_, rfl, rfl, rfl⟩
            · exact ⟨b, rfl, rfl, rfl⟩
        obtain ⟨b1, hs1, hs2, hs3⟩ := hs
        rw [hs1]
        have hg : (grow b1).mode = b1.mode ∧ (grow b1).hasfp = b1.hasfp := by
          unfold grow growR grow0; split <;> split <;> exact ⟨rfl, rfl⟩
        exact ⟨(show (grow b1).mode = _ from hg.1.trans hs2), (show (grow b1).hasfp = _ from hg.2.trans hs3)⟩

/-- the opening mode and the stream handle are fixed when the buffer is opened -/
theorem closed_mode (m : Mode) (f : Bool) : Closed (fun b => b.mode = m ∧ b.hasfp = f) := by
  refine ⟨?_, ?_, ?_, ?_, ?_, ?_, ?_⟩
  · intro b k h
    obtain ⟨h1, h2⟩ := refill_mode b k
    exact ⟨h1.trans h.1, h2.trans h.2⟩
  · intro b p h; exact h
  · intro b o h
    obtain ⟨_, _, h3, h4, _, _⟩ := setAnchor_fields b o
    exact ⟨h3.trans h.1, h4.trans h.2⟩
  · intro b o h
    unfold raiseAnchor
    repeat' (first | exact h | split | dsimp only)
  · intro b o h; exact h
  · intro b o h; exact h
  · intro b o h
    obtain ⟨_, _, h3, h4, _, _⟩ := setAnchor_fields b o
    unfold setStableAnchor
    split
    · exact h
    · generalize setAnchor b o = sa at *
      obtain ⟨st, b1⟩ := sa
      dsimp only at h3 h4
      have h1 : b1.mode = m ∧ b1.hasfp = f := ⟨h3.trans h.1, h4.trans h.2⟩
      cases st <;> (try dsimp only) <;> (try exact h1)
      cases b1.anchor with
      | none => exact h1
      | some a => dsimp only; split <;> exact h1

theorem step_mode (s : Sess) (op : Op) (m : Mode) (f : Bool) (h : s.b.mode = m ∧ s.b.hasfp = f) :
    (s.step op).2.b.mode = m ∧ (s.step op).2.b.hasfp = f :=
  closed_step (closed_mode m f) s.b s.lastp op h

/-- the calls the extended contract adds: `SetOffset` beyond the end of the input, ahead of the cursor -/
def XOp (a : AState) : Op → Prop
  | .setOffset o => a.src.length < o ∧ a.cur < o
  | _ => False

instance (a : AState) (op : Op) : Decidable (XOp a op) := by
  cases op <;> unfold XOp <;> infer_instance

/-- the specification, extended: such a call answers `eslEINVAL` and leaves the cursor at the end of the input -/
def specStepX (a : AState) (op : Op) : Obs × AState :=
  if XOp a op then (⟨.einval, [], max a.cur a.src.length⟩, { a with cur := max a.cur a.src.length, lastp := none })
  else specStep a op

def ValidHistX (P : Nat) : AState → List Op → Prop
  | _, [] => True
  | a, op :: ops => (XOp a op ∨ Valid P a op) ∧ ValidHistX P (specStepX a op).2 ops

def specRunX : AState → List Op → List Obs
  | _, [] => []
  | a, op :: ops => (specStepX a op).1 :: specRunX (specStepX a op).2 ops

theorem history_refines_x (P : Nat) (m : Mode) (hm : m = .stream ∨ m = .cmdpipe) (ops : List Op) :
    ∀ (a : AState) (s : Sess), R P a s → s.b.mode = m ∧ s.b.hasfp = true → ValidHistX P a ops →
    obsRun s ops = specRunX a ops := by
  induction ops with
  | nil => intro a s _ _ _; rfl
  | cons op ops ih =>
    intro a s r hmode hv
    have hmode' := step_mode s op m true hmode
    show _ :: _ = _ :: _
    by_cases hx : XOp a op
    · have e : specStepX a op = (⟨.einval, [], max a.cur a.src.length⟩, { a with cur := max a.cur a.src.length, lastp := none }) := by
        unfold specStepX; rw [if_pos hx]
      cases op with
      | setOffset o =>
        have hnm : ¬ memMode s.b.mode := by
          rw [hmode.1]; rintro (h | h | h) <;> rcases hm with e | e <;> rw [e] at h <;> cases h
        have hnf : ¬ (s.b.mode = .file ∧ s.b.anchor = none) := by
          rw [hmode.1]; rintro ⟨h, _⟩; rcases hm with e | e <;> rw [e] at h <;> cases h
        obtain ⟨h1, h2⟩ := step_beyond_end_deterministic P o a s r hnm hnf hx.1 hx.2
        have hv2 := hv.2
        rw [e] at hv2 ⊢
        rw [h1, ih _ _ h2 hmode' hv2]
      | _ => exact absurd hx (by unfold XOp; exact fun h => h)
    · have e : specStepX a op = specStep a op := by unfold specStepX; rw [if_neg hx]
      have hval : Valid P a op := hv.1.resolve_left hx
      obtain ⟨h1, h2⟩ := sim_all P op a s r hval
      have hv2 := hv.2
      rw [e] at hv2 ⊢
      rw [h1, ih _ _ h2 hmode' hv2]

end EaselModel.Buffer
