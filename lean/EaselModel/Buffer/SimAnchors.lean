import EaselModel.Buffer.SimBasic
/-! Simulation of `SetAnchor`, `SetStableAnchor`, `RaiseAnchor`. -/
namespace EaselModel.Buffer

theorem AnchorOnly.pg {b b' : Buf} (h : AnchorOnly b b') (p : PG b) : PG b' := by
  obtain ⟨a, n, t, rfl⟩ := h; exact p

/-- Rebuild `R` after an operation that only rewrites the anchor record. -/
theorem R.of_anchorOnly {P : Nat} {a a' : AState} {s s' : Sess} (r : R P a s) (ao : AnchorOnly s.b s'.b)
    (hsrc : a'.src = a.src) (hcur : a'.cur = a.cur) (hlp : a'.lastp = none) (hslp : s'.lastp = none)
    (wf : WF s'.b) (aok : AnchOK s'.b) (nfa : NoFpNoAnchor s'.b)
    (anch : s'.b.hasfp = true → s'.b.absAnchor = a'.anchor ∧ (a'.anchor ≠ none → s'.b.nanchor = a'.nanchor))
    (aanch : ∀ A, a'.anchor = some A → 1 ≤ a'.nanchor) : R P a' s' := by
  obtain ⟨m1, m2, m3, m4, m5⟩ := ao.same
  have fr := ao.frame
  refine ⟨wf, ao.pg r.pg, aok, nfa, by rw [m5, r.src, hsrc], by rw [m3, m2, r.cur, hcur],
    by rw [fr.ps]; exact r.ps, by rw [fr.hasfp, fr.mode]; exact r.modefp, ?_, anch, aanch, by rw [hslp, hlp]; rfl, ?_⟩
  · intro hf; rw [fr.hasfp] at hf; rw [m3]; exact r.base0 hf
  · intro p hp; rw [hlp] at hp; cases hp

/-- the flag `bf->stable` is invisible to the simulation relation -/
theorem R.set_stab {P : Nat} {a : AState} {b : Buf} {st : Option Nat} (r : R P a { b := b, lastp := none, stable := st })
    (hlp : a.lastp = none) (v : Bool) : R P a { b := { b with stab := v }, lastp := none, stable := st } :=
  r.of_anchorOnly (s' := { b := { b with stab := v }, lastp := none, stable := st }) (a' := a)
    ⟨b.anchor, b.nanchor, v, rfl⟩ rfl rfl hlp rfl
    ⟨r.wf.hwin, r.wf.hpos, r.wf.hanch, r.wf.hps, r.wf.heof, r.wf.hnofp⟩ r.aok r.nfa r.anch r.aanch

theorem aRaise_none (a : AState) (o : Nat) (h : a.anchor = none) : aRaise a o = a := by
  unfold aRaise; rw [h]
theorem aRaise_miss (a : AState) (o A : Nat) (h : a.anchor = some A) (hne : A ≠ o) : aRaise a o = a := by
  unfold aRaise; rw [h]; simp only []; rw [if_neg hne]
theorem aRaise_last (a : AState) (o A : Nat) (h : a.anchor = some A) (he : A = o) (hl : a.nanchor - 1 = 0) :
    aRaise a o = { a with anchor := none, nanchor := 0 } := by
  unfold aRaise; rw [h]; simp only []; rw [if_pos he, if_pos hl]
theorem aRaise_more (a : AState) (o A : Nat) (h : a.anchor = some A) (he : A = o) (hl : a.nanchor - 1 ≠ 0) :
    aRaise a o = { a with nanchor := a.nanchor - 1 } := by
  unfold aRaise; rw [h]; simp only []; rw [if_pos he, if_neg hl]

/-- `RaiseAnchor` never leaves an anchor with a zero count -/
theorem bracket_free_aok (b : Buf) (o : Nat) (ha : AnchOK b) : AnchOK (raiseAnchor b o) := by
  cases hca : b.anchor with
  | none => rw [raiseAnchor_none b o hca]; exact ha
  | some a0 =>
    by_cases he : b.base + a0 = o
    · by_cases hl : b.nanchor - 1 = 0
      · rw [raiseAnchor_last b o a0 hca he hl]; intro x hx; cases hx
      · rw [raiseAnchor_more b o a0 hca he hl]; intro x _; show 1 ≤ b.nanchor - 1; omega
    · rw [raiseAnchor_miss b o a0 hca he]; exact ha

theorem sim_raiseAnchor (P : Nat) (o : Nat) : SimStep P (.raiseAnchor o) := by
  intro a s r _
  obtain ⟨ao, wf⟩ := raiseAnchor_spec s.b o r.wf
  have hobs : obsOf (.raiseAnchor o) (s.step (.raiseAnchor o)).1 (s.step (.raiseAnchor o)).2 = ⟨.ok, [], a.cur⟩ := by
    show (⟨St.ok, [], (raiseAnchor s.b o).base + (raiseAnchor s.b o).pos⟩ : Obs) = _
    rw [ao.same.2.2.1, ao.same.2.1, r.cur]
  refine ⟨hobs, ?_⟩
  show R P { aRaise a o with lastp := none } (s.step (.raiseAnchor o)).2
  have hb : (s.step (.raiseAnchor o)).2.b = raiseAnchor s.b o := rfl
  have hfp : (raiseAnchor s.b o).hasfp = s.b.hasfp := ao.frame.hasfp
  -- the abstract side
  have hA : ∀ A, (aRaise a o).anchor = some A → 1 ≤ (aRaise a o).nanchor := by
    intro A hA
    cases han : a.anchor with
    | none => rw [aRaise_none a o han] at hA ⊢; exact r.aanch A hA
    | some A0 =>
      have x2 := r.aanch A0 han
      by_cases hAo : A0 = o
      · by_cases hlast : a.nanchor - 1 = 0
        · rw [aRaise_last a o A0 han hAo hlast] at hA; cases hA
        · rw [aRaise_more a o A0 han hAo hlast]
          show 1 ≤ a.nanchor - 1; omega
      · rw [aRaise_miss a o A0 han hAo] at hA ⊢; exact r.aanch A hA
  have hsrc : (aRaise a o).src = a.src ∧ (aRaise a o).cur = a.cur := by
    cases han : a.anchor with
    | none => rw [aRaise_none a o han]; exact ⟨rfl, rfl⟩
    | some A0 =>
      by_cases hAo : A0 = o
      · by_cases hlast : a.nanchor - 1 = 0
        · rw [aRaise_last a o A0 han hAo hlast]; exact ⟨rfl, rfl⟩
        · rw [aRaise_more a o A0 han hAo hlast]; exact ⟨rfl, rfl⟩
      · rw [aRaise_miss a o A0 han hAo]; exact ⟨rfl, rfl⟩
  refine r.of_anchorOnly (s' := (s.step (.raiseAnchor o)).2) (a' := { aRaise a o with lastp := none }) ao hsrc.1 hsrc.2 rfl rfl wf
    ?_ ?_ ?_ (by intro A h'; exact hA A h')
  · -- AnchOK
    rw [hb]
    exact (bracket_free_aok s.b o r.aok)
  · rw [hb]; intro hf
    rw [hfp] at hf
    rw [raiseAnchor_none s.b o (r.nfa hf)]; exact r.nfa hf
  · rw [hb]; intro hf
    rw [hfp] at hf
    obtain ⟨r1, r2⟩ := r.anch hf
    show (raiseAnchor s.b o).absAnchor = (aRaise a o).anchor ∧ ((aRaise a o).anchor ≠ none → (raiseAnchor s.b o).nanchor = (aRaise a o).nanchor)
    cases han : a.anchor with
    | none =>
      have hcn : s.b.anchor = none := (absAnchor_eq_none s.b).mp (by rw [r1, han])
      rw [raiseAnchor_none s.b o hcn]
      rw [aRaise_none a o han]; exact ⟨r1, r2⟩
    | some A0 =>
      obtain ⟨a0, hca, hcb⟩ := absAnchor_some (by rw [r1, han] : s.b.absAnchor = some A0)
      have hn := r2 (by rw [han]; intro hh; cases hh)
      by_cases hAo : A0 = o
      · by_cases hlast : a.nanchor - 1 = 0
        · rw [raiseAnchor_last s.b o a0 hca (by omega) (by rw [hn]; exact hlast)]
          rw [aRaise_last a o A0 han hAo hlast]
          exact ⟨rfl, fun hh => absurd rfl hh⟩
        · rw [raiseAnchor_more s.b o a0 hca (by omega) (by rw [hn]; exact hlast)]
          rw [aRaise_more a o A0 han hAo hlast]
          refine ⟨?_, fun _ => by show s.b.nanchor - 1 = a.nanchor - 1; rw [hn]⟩
          show s.b.absAnchor = a.anchor
          exact r1
      · rw [raiseAnchor_miss s.b o a0 hca (by omega)]
        rw [aRaise_miss a o A0 han hAo]; exact ⟨r1, r2⟩

/-! ### SetAnchor -/

theorem setAnchor_nofp (b : Buf) (o : Nat) (h : b.hasfp = false) : setAnchor b o = (.ok, b) := by
  unfold setAnchor; simp [h]

theorem setAnchor_new (b : Buf) (o : Nat) (hf : b.hasfp = true) (h1 : b.base ≤ o) (h2 : o ≤ b.base + b.n)
    (hc : b.anchor = none ∨ ∃ a0, b.anchor = some a0 ∧ o - b.base < a0) :
    setAnchor b o = (.ok, { b with anchor := some (o - b.base), nanchor := 1 }) := by
  unfold setAnchor
  have g : ¬ (o < b.base ∨ o > b.base + b.n) := by omega
  simp only [hf, Bool.not_true, Bool.false_eq_true, if_false, g]
  rcases hc with hc | ⟨a0, hc, hlt⟩
  · rw [hc]
  · rw [hc]; simp only []; rw [if_pos hlt]

theorem setAnchor_same (b : Buf) (o a0 : Nat) (hf : b.hasfp = true) (h1 : b.base ≤ o) (h2 : o ≤ b.base + b.n)
    (hc : b.anchor = some a0) (he : o - b.base = a0) :
    setAnchor b o = (.ok, { b with nanchor := b.nanchor + 1 }) := by
  unfold setAnchor
  have g : ¬ (o < b.base ∨ o > b.base + b.n) := by omega
  simp only [hf, Bool.not_true, Bool.false_eq_true, if_false, g]
  rw [hc]; simp only []
  rw [if_neg (by omega), if_pos he]

theorem setAnchor_right (b : Buf) (o a0 : Nat) (hf : b.hasfp = true) (h1 : b.base ≤ o) (h2 : o ≤ b.base + b.n)
    (hc : b.anchor = some a0) (hgt : a0 < o - b.base) : setAnchor b o = (.ok, b) := by
  unfold setAnchor
  have g : ¬ (o < b.base ∨ o > b.base + b.n) := by omega
  simp only [hf, Bool.not_true, Bool.false_eq_true, if_false, g]
  rw [hc]; simp only []
  rw [if_neg (by omega), if_neg (by omega)]

theorem aSetAnchor_none (a : AState) (o : Nat) (h : a.anchor = none) :
    aSetAnchor a o = { a with anchor := some o, nanchor := 1 } := by
  unfold aSetAnchor; rw [h]
theorem aSetAnchor_left (a : AState) (o A : Nat) (h : a.anchor = some A) (hlt : o < A) :
    aSetAnchor a o = { a with anchor := some o, nanchor := 1 } := by
  unfold aSetAnchor; rw [h]; simp only []; rw [if_pos hlt]
theorem aSetAnchor_same (a : AState) (o A : Nat) (h : a.anchor = some A) (he : o = A) :
    aSetAnchor a o = { a with nanchor := a.nanchor + 1 } := by
  unfold aSetAnchor; rw [h]; simp only []; rw [if_neg (by omega), if_pos he]
theorem aSetAnchor_right (a : AState) (o A : Nat) (h : a.anchor = some A) (hgt : A < o) : aSetAnchor a o = a := by
  unfold aSetAnchor; rw [h]; simp only []; rw [if_neg (by omega), if_neg (by omega)]

/-- the buffer-level content of `sim_setAnchor`, shared with `SetStableAnchor` -/
theorem setAnchor_sim' {P : Nat} {a : AState} {s : Sess} (r : R P a s) (o : Nat) (st : Option Nat)
    (hwin : s.b.hasfp = true → o ≤ s.b.base + s.b.n) (hbs : s.b.hasfp = true → s.b.base ≤ o) :
    (setAnchor s.b o).1 = .ok ∧
    R P { aSetAnchor a o with lastp := none } { b := (setAnchor s.b o).2, lastp := none, stable := st } ∧
    (∃ A', (aSetAnchor a o).anchor = some A') := by
  have hp := r.wf.hpos
  -- abstract side: the new anchor record is fine
  have habs : (aSetAnchor a o).src = a.src ∧ (aSetAnchor a o).cur = a.cur ∧
      (∀ A, (aSetAnchor a o).anchor = some A → 1 ≤ (aSetAnchor a o).nanchor) ∧
      (∃ A', (aSetAnchor a o).anchor = some A') := by
    cases han : a.anchor with
    | none =>
      rw [aSetAnchor_none a o han]
      exact ⟨rfl, rfl, (fun A _ => Nat.le_refl _), ⟨o, rfl⟩⟩
    | some A0 =>
      have x2 := r.aanch A0 han
      rcases Nat.lt_trichotomy o A0 with h | h | h
      · rw [aSetAnchor_left a o A0 han h]
        exact ⟨rfl, rfl, (fun A _ => Nat.le_refl _), ⟨o, rfl⟩⟩
      · rw [aSetAnchor_same a o A0 han h]
        refine ⟨rfl, rfl, (fun A _ => ?_), ⟨A0, han⟩⟩
        show 1 ≤ a.nanchor + 1; omega
      · rw [aSetAnchor_right a o A0 han h]
        exact ⟨rfl, rfl, (fun A hA => r.aanch A hA), ⟨A0, han⟩⟩
  obtain ⟨hs1, hs2, hs3, hs4⟩ := habs
  cases hf : s.b.hasfp with
  | false =>
    rw [setAnchor_nofp s.b o hf]
    refine ⟨rfl, ?_, hs4⟩
    exact r.of_anchorOnly (s' := { b := s.b, lastp := none, stable := st }) (a' := { aSetAnchor a o with lastp := none })
      ⟨s.b.anchor, s.b.nanchor, s.b.stab, rfl⟩ hs1 hs2 rfl rfl r.wf r.aok r.nfa (fun hh => by rw [hf] at hh; cases hh)
      (by intro A hA; exact hs3 A hA)
  | true =>
    obtain ⟨r1, r2⟩ := r.anch hf
    -- the requested offset is inside the window
    have hbase : s.b.base ≤ o := hbs hf
    have hin : o ≤ s.b.base + s.b.n := hwin hf
    cases han : a.anchor with
    | none =>
      have hcn : s.b.anchor = none := (absAnchor_eq_none s.b).mp (by rw [r1, han])
      rw [setAnchor_new s.b o hf hbase hin (Or.inl hcn)]
      refine ⟨rfl, ?_, hs4⟩
      refine r.of_anchorOnly (s' := { b := { s.b with anchor := some (o - s.b.base), nanchor := 1 }, lastp := none, stable := st })
        (a' := { aSetAnchor a o with lastp := none }) ⟨_, _, _, rfl⟩ hs1 hs2 rfl rfl ?_ ?_ ?_ ?_ (by intro A hA; exact hs3 A hA)
      · exact AnchorOnly.wf' ⟨_, _, _, rfl⟩ r.wf (by intro x hx; simp at hx; omega)
      · intro x _; exact Nat.le_refl _
      · intro hh; rw [hf] at hh; cases hh
      · intro _
        rw [aSetAnchor_none a o han]
        refine ⟨?_, fun _ => rfl⟩
        show some (s.b.base + (o - s.b.base)) = some o
        congr 1; omega
    | some A0 =>
      obtain ⟨a0, hca, hcb⟩ := absAnchor_some (by rw [r1, han] : s.b.absAnchor = some A0)
      have hn := r2 (by rw [han]; intro hh; cases hh)
      have ha0 := r.wf.hanch a0 hca
      rcases Nat.lt_trichotomy o A0 with h | h | h
      · rw [setAnchor_new s.b o hf hbase hin (Or.inr ⟨a0, hca, by omega⟩)]
        refine ⟨rfl, ?_, hs4⟩
        refine r.of_anchorOnly (s' := { b := { s.b with anchor := some (o - s.b.base), nanchor := 1 }, lastp := none, stable := st })
          (a' := { aSetAnchor a o with lastp := none }) ⟨_, _, _, rfl⟩ hs1 hs2 rfl rfl ?_ ?_ ?_ ?_ (by intro A hA; exact hs3 A hA)
        · exact AnchorOnly.wf' ⟨_, _, _, rfl⟩ r.wf (by intro x hx; simp at hx; omega)
        · intro x _; exact Nat.le_refl _
        · intro hh; rw [hf] at hh; cases hh
        · intro _
          rw [aSetAnchor_left a o A0 han h]
          refine ⟨?_, fun _ => rfl⟩
          show some (s.b.base + (o - s.b.base)) = some o
          congr 1; omega
      · rw [setAnchor_same s.b o a0 hf hbase hin hca (by omega)]
        refine ⟨rfl, ?_, hs4⟩
        refine r.of_anchorOnly (s' := { b := { s.b with nanchor := s.b.nanchor + 1 }, lastp := none, stable := st })
          (a' := { aSetAnchor a o with lastp := none }) ⟨s.b.anchor, _, _, rfl⟩ hs1 hs2 rfl rfl ?_ ?_ ?_ ?_ (by intro A hA; exact hs3 A hA)
        · exact AnchorOnly.wf' ⟨s.b.anchor, _, _, rfl⟩ r.wf (by intro x hx; exact r.wf.hanch x hx)
        · intro x _; show 1 ≤ s.b.nanchor + 1; omega
        · intro hh; rw [hf] at hh; cases hh
        · intro _
          rw [aSetAnchor_same a o A0 han h]
          refine ⟨?_, fun _ => by show s.b.nanchor + 1 = a.nanchor + 1; rw [hn]⟩
          show s.b.absAnchor = a.anchor
          exact r1
      · rw [setAnchor_right s.b o a0 hf hbase hin hca (by omega)]
        refine ⟨rfl, ?_, hs4⟩
        refine r.of_anchorOnly (s' := { b := s.b, lastp := none, stable := st })
          (a' := { aSetAnchor a o with lastp := none }) ⟨s.b.anchor, s.b.nanchor, s.b.stab, rfl⟩ hs1 hs2 rfl rfl r.wf r.aok r.nfa ?_
          (by intro A hA; exact hs3 A hA)
        intro _
        rw [aSetAnchor_right a o A0 han h]
        exact ⟨r1, r2⟩

/-- inside the contract -/
theorem setAnchor_sim {P : Nat} {a : AState} {s : Sess} (r : R P a s) (o : Nat) (st : Option Nat)
    (hv : o ≤ a.cur ∧ (o = a.cur ∨ ∃ A, a.anchor = some A ∧ A ≤ o)) :
    (setAnchor s.b o).1 = .ok ∧
    R P { aSetAnchor a o with lastp := none } { b := (setAnchor s.b o).2, lastp := none, stable := st } ∧
    (∃ A', (aSetAnchor a o).anchor = some A') := by
  refine setAnchor_sim' r o st (fun _ => by have := hv.1; have := r.cur; have := r.wf.hpos; omega) (fun hf => ?_)
  obtain ⟨r1, _⟩ := r.anch hf
  rcases hv.2 with h | ⟨A, hA, hle⟩
  · rw [h, ← r.cur]; omega
  · obtain ⟨a0, _, hb⟩ := absAnchor_some (by rw [r1]; exact hA : s.b.absAnchor = some A)
    omega

theorem R.stable_irrel {P : Nat} {a : AState} {s s' : Sess} (r : R P a s) (hb : s'.b = s.b) (hl : s'.lastp = s.lastp) :
    R P a s' := by
  refine ⟨by rw [hb]; exact r.wf, by rw [hb]; exact r.pg, by rw [hb]; exact r.aok, by rw [hb]; exact r.nfa,
    by rw [hb]; exact r.src, by rw [hb]; exact r.cur, by rw [hb]; exact r.ps, by rw [hb]; exact r.modefp,
    by rw [hb]; exact r.base0, by rw [hb]; exact r.anch, r.aanch, by rw [hb, hl]; exact r.lastp, r.lastp_le⟩

/-- inside the contract the requested anchor offset is not left of the window -/
theorem valid_anchor_base {P : Nat} {a : AState} {s : Sess} (r : R P a s) (o : Nat)
    (hv : o ≤ a.cur ∧ (o = a.cur ∨ ∃ A, a.anchor = some A ∧ A ≤ o)) (hf : s.b.hasfp = true) : s.b.base ≤ o := by
  obtain ⟨r1, _⟩ := r.anch hf
  rcases hv.2 with h | ⟨A, hA, hle⟩
  · rw [h, ← r.cur]; omega
  · obtain ⟨a0, _, hb⟩ := absAnchor_some (by rw [r1]; exact hA : s.b.absAnchor = some A)
    omega

/-- `SetAnchor` at an offset of the window at or before the cursor simulates the specification step
    (this is more than the contract `Valid` grants: also offsets left of the active anchor) -/
theorem sim_setAnchor' (P : Nat) (o : Nat) (a : AState) (s : Sess) (r : R P a s)
    (hwin : s.b.hasfp = true → o ≤ s.b.base + s.b.n) (hbs : s.b.hasfp = true → s.b.base ≤ o) :
    obsOf (.setAnchor o) (s.step (.setAnchor o)).1 (s.step (.setAnchor o)).2 = (specStep a (.setAnchor o)).1 ∧
    R P (specStep a (.setAnchor o)).2 (s.step (.setAnchor o)).2 := by
  obtain ⟨h1, h2, _⟩ := setAnchor_sim' r o none hwin hbs
  have hcur := h2.cur
  refine ⟨?_, h2.stable_irrel rfl rfl⟩
  show (⟨(setAnchor s.b o).1, [], (setAnchor s.b o).2.base + (setAnchor s.b o).2.pos⟩ : Obs) = ⟨.ok, [], a.cur⟩
  rw [h1]
  have : (setAnchor s.b o).2.base + (setAnchor s.b o).2.pos = (aSetAnchor a o).cur := hcur
  rw [this]
  have hc : (aSetAnchor a o).cur = a.cur := by
    cases han : a.anchor with
    | none => rw [aSetAnchor_none a o han]
    | some A0 =>
      rcases Nat.lt_trichotomy o A0 with h | h | h
      · rw [aSetAnchor_left a o A0 han h]
      · rw [aSetAnchor_same a o A0 han h]
      · rw [aSetAnchor_right a o A0 han h]
  rw [hc]

theorem sim_setAnchor (P : Nat) (o : Nat) : SimStep P (.setAnchor o) := fun a s r hv =>
  sim_setAnchor' P o a s r (fun _ => by have := hv.1; have := r.cur; have := r.wf.hpos; omega) (valid_anchor_base r o hv)

/-! ### SetStableAnchor -/

/-- rebasing the window on the anchor (the `memmove` of `esl_buffer_SetStableAnchor`) keeps the simulation -/
theorem R.rebase {P : Nat} {a : AState} {b1 : Buf} {st st' : Option Nat} (r1 : R P a { b := b1, lastp := none, stable := st })
    (hf : b1.hasfp = true) (a1 : Nat) (ha1 : b1.anchor = some a1) (hle : a1 ≤ b1.pos) :
    R P a { b := dropFront { b1 with anchor := some 0 } a1, lastp := none, stable := st' } := by
  have w1 : WF b1 := r1.wf
  have hp : b1.pos ≤ b1.n := w1.hpos
  have hwf0 : WF { b1 with anchor := some 0 } :=
    ⟨w1.hwin, w1.hpos, by intro x hx; simp at hx; omega, w1.hps, w1.heof, w1.hnofp⟩
  have fr := dropFront_frame { b1 with anchor := some 0 } a1 hle hp
  have av := dropFront_avail { b1 with anchor := some 0 } a1 hle hp
  have hpg : PG b1 := r1.pg
  have hsrc : b1.src = a.src := r1.src
  have hcur : b1.base + b1.pos = a.cur := r1.cur
  have hps : P ≤ b1.pagesize := r1.ps
  have hmode : b1.hasfp = false ↔ memMode b1.mode := r1.modefp
  have hanch := r1.anch hf
  have haok : AnchOK b1 := r1.aok
  have hlast : (none : Option Nat).map (b1.base + ·) = a.lastp := r1.lastp
  refine ⟨dropFront_wf hwf0 a1 hle (by intro x hx; simp at hx; show x + a1 ≤ b1.n; omega), ?_, ?_, ?_, hsrc, ?_, hps, hmode, ?_, ?_, r1.aanch,
    ?_, r1.lastp_le⟩
  · -- page guarantee
    show (dropFront { b1 with anchor := some 0 } a1).pagesize ≤ (dropFront { b1 with anchor := some 0 } a1).n -
      (dropFront { b1 with anchor := some 0 } a1).pos ∨ (dropFront { b1 with anchor := some 0 } a1).rest = []
    rw [av]
    exact hpg
  · intro x _
    show 1 ≤ b1.nanchor
    exact haok a1 ha1
  · intro hh
    have : (dropFront { b1 with anchor := some 0 } a1).hasfp = b1.hasfp := rfl
    rw [this, hf] at hh; cases hh
  · have := fr.off
    show (dropFront { b1 with anchor := some 0 } a1).base + (dropFront { b1 with anchor := some 0 } a1).pos = a.cur
    rw [this]; exact hcur
  · intro hh
    have : (dropFront { b1 with anchor := some 0 } a1).hasfp = b1.hasfp := rfl
    rw [this, hf] at hh; cases hh
  · intro _
    show (dropFront { b1 with anchor := some 0 } a1).absAnchor = a.anchor ∧ (a.anchor ≠ none → b1.nanchor = a.nanchor)
    rw [dropFront_absAnchor0]
    refine ⟨?_, hanch.2⟩
    rw [← hanch.1]
    simp [Buf.absAnchor, ha1]
  · show (none : Option Nat).map _ = a.lastp
    rw [← hlast]; rfl

/-- … and when the anchor is ahead of the cursor (b86a62d: `ndel = ESL_MIN(anchor, pos)`): the window is rebased on the cursor -/
theorem R.rebase_ahead {P : Nat} {a : AState} {b1 : Buf} {st st' : Option Nat} (r1 : R P a { b := b1, lastp := none, stable := st })
    (hf : b1.hasfp = true) (a1 : Nat) (ha1 : b1.anchor = some a1) (hgt : b1.pos < a1) :
    R P a { b := dropFront { b1 with anchor := some (a1 - b1.pos) } b1.pos, lastp := none, stable := st' } := by
  have w1 : WF b1 := r1.wf
  have han : a1 ≤ b1.n := w1.hanch a1 ha1
  have hp : b1.pos ≤ b1.n := w1.hpos
  have hwf0 : WF { b1 with anchor := some (a1 - b1.pos) } :=
    ⟨w1.hwin, w1.hpos, by intro x hx; simp at hx; show x ≤ b1.n; omega, w1.hps, w1.heof, w1.hnofp⟩
  have fr := dropFront_frame { b1 with anchor := some (a1 - b1.pos) } b1.pos (Nat.le_refl _) hp
  have av := dropFront_avail { b1 with anchor := some (a1 - b1.pos) } b1.pos (Nat.le_refl _) hp
  have hpg : PG b1 := r1.pg
  have hsrc : b1.src = a.src := r1.src
  have hcur : b1.base + b1.pos = a.cur := r1.cur
  have hps : P ≤ b1.pagesize := r1.ps
  have hmode : b1.hasfp = false ↔ memMode b1.mode := r1.modefp
  have hanch := r1.anch hf
  have haok : AnchOK b1 := r1.aok
  have hlast : (none : Option Nat).map (b1.base + ·) = a.lastp := r1.lastp
  refine ⟨dropFront_wf hwf0 b1.pos (Nat.le_refl _) (by intro x hx; simp at hx; show x + b1.pos ≤ b1.n; omega), ?_, ?_, ?_, hsrc, ?_, hps,
    hmode, ?_, ?_, r1.aanch, ?_, r1.lastp_le⟩
  · show (dropFront { b1 with anchor := some (a1 - b1.pos) } b1.pos).pagesize ≤ (dropFront { b1 with anchor := some (a1 - b1.pos) } b1.pos).n -
      (dropFront { b1 with anchor := some (a1 - b1.pos) } b1.pos).pos ∨ (dropFront { b1 with anchor := some (a1 - b1.pos) } b1.pos).rest = []
    rw [av]
    exact hpg
  · intro x _
    show 1 ≤ b1.nanchor
    exact haok a1 ha1
  · intro hh
    have : (dropFront { b1 with anchor := some (a1 - b1.pos) } b1.pos).hasfp = b1.hasfp := rfl
    rw [this, hf] at hh; cases hh
  · have := fr.off
    show (dropFront { b1 with anchor := some (a1 - b1.pos) } b1.pos).base + (dropFront { b1 with anchor := some (a1 - b1.pos) } b1.pos).pos = a.cur
    rw [this]; exact hcur
  · intro hh
    have : (dropFront { b1 with anchor := some (a1 - b1.pos) } b1.pos).hasfp = b1.hasfp := rfl
    rw [this, hf] at hh; cases hh
  · intro _
    show (dropFront { b1 with anchor := some (a1 - b1.pos) } b1.pos).absAnchor = a.anchor ∧ (a.anchor ≠ none → b1.nanchor = a.nanchor)
    refine ⟨?_, hanch.2⟩
    rw [← hanch.1]
    simp only [Buf.absAnchor, dropFront, ha1, Option.map_some]
    congr 1; omega
  · show (none : Option Nat).map _ = a.lastp
    rw [← hlast]; rfl

theorem sim_setStableAnchor' (P : Nat) (o : Nat) (a : AState) (s : Sess) (r : R P a s)
    (hwin : s.b.hasfp = true → o ≤ s.b.base + s.b.n) (hbs : s.b.hasfp = true → s.b.base ≤ o) :
    obsOf (.setStableAnchor o) (s.step (.setStableAnchor o)).1 (s.step (.setStableAnchor o)).2 = (specStep a (.setStableAnchor o)).1 ∧
    R P (specStep a (.setStableAnchor o)).2 (s.step (.setStableAnchor o)).2 := by
  obtain ⟨h1, h2, A', hA'⟩ := setAnchor_sim' r o (s.step (.setStableAnchor o)).2.stable hwin hbs
  have hc : (aSetAnchor a o).cur = a.cur := by
    cases han : a.anchor with
    | none => rw [aSetAnchor_none a o han]
    | some A0 =>
      rcases Nat.lt_trichotomy o A0 with h | h | h
      · rw [aSetAnchor_left a o A0 han h]
      · rw [aSetAnchor_same a o A0 han h]
      · rw [aSetAnchor_right a o A0 han h]
  cases hf : s.b.hasfp with
  | false =>
    have e : setStableAnchor s.b o = (.ok, s.b) := by unfold setStableAnchor; simp [hf]
    have e2 : (setAnchor s.b o).2 = s.b := by rw [setAnchor_nofp s.b o hf]
    rw [e2] at h2
    refine ⟨?_, ?_⟩
    · show (⟨(setStableAnchor s.b o).1, [], (setStableAnchor s.b o).2.base + (setStableAnchor s.b o).2.pos⟩ : Obs) = ⟨.ok, [], a.cur⟩
      rw [e, r.cur]
    · refine h2.stable_irrel ?_ ?_
      · show (setStableAnchor s.b o).2 = s.b
        rw [e]
      · rfl
  | true =>
    generalize hsa : setAnchor s.b o = sa at *
    obtain ⟨st1, b1⟩ := sa
    simp only [] at h1 h2
    subst h1
    have hf1 : b1.hasfp = true := by
      have := (setAnchor_fields s.b o).2.2.2.1
      rw [hsa] at this; rw [this]; exact hf
    obtain ⟨q1, _⟩ := h2.anch hf1
    obtain ⟨a1, ha1, _⟩ := absAnchor_some (by rw [q1]; exact hA' : b1.absAnchor = some A')
    by_cases hle : a1 ≤ b1.pos
    · have e : setStableAnchor s.b o = (.ok, { dropFront { b1 with anchor := some 0 } a1 with stab := true }) := by
        unfold setStableAnchor
        simp only [hf, Bool.not_true, Bool.false_eq_true, if_false, hsa, ha1, hle, if_true]
      have r2 := (h2.rebase (st' := (s.step (.setStableAnchor o)).2.stable) hf1 a1 ha1 hle).set_stab rfl true
      refine ⟨?_, ?_⟩
      · show (⟨(setStableAnchor s.b o).1, [], (setStableAnchor s.b o).2.base + (setStableAnchor s.b o).2.pos⟩ : Obs) = ⟨.ok, [], a.cur⟩
        rw [e]
        have := r2.cur
        simp only [] at this ⊢
        rw [this, hc]
      · refine r2.stable_irrel ?_ rfl
        show (setStableAnchor s.b o).2 = _
        rw [e]
    · have e : setStableAnchor s.b o = (.ok, { dropFront { b1 with anchor := some (a1 - b1.pos) } b1.pos with stab := true }) := by
        unfold setStableAnchor
        simp only [hf, Bool.not_true, Bool.false_eq_true, if_false, hsa, ha1, hle]
      have r2 := (h2.rebase_ahead (st' := (s.step (.setStableAnchor o)).2.stable) hf1 a1 ha1 (by omega)).set_stab rfl true
      refine ⟨?_, ?_⟩
      · show (⟨(setStableAnchor s.b o).1, [], (setStableAnchor s.b o).2.base + (setStableAnchor s.b o).2.pos⟩ : Obs) = ⟨.ok, [], a.cur⟩
        rw [e]
        have := r2.cur
        simp only [] at this ⊢
        rw [this, hc]
      · refine r2.stable_irrel ?_ rfl
        show (setStableAnchor s.b o).2 = _
        rw [e]

theorem sim_setStableAnchor (P : Nat) (o : Nat) : SimStep P (.setStableAnchor o) := fun a s r hv =>
  sim_setStableAnchor' P o a s r (fun _ => by have := hv.1; have := r.cur; have := r.wf.hpos; omega) (valid_anchor_base r o hv)

end EaselModel.Buffer
