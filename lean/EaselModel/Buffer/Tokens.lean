import EaselModel.Buffer.Anchors
/-! `buffer_skipsep`, `buffer_newline`, `buffer_counttok` against the byte string behind the cursor. -/
namespace EaselModel.Buffer

/-- What no internal step changes: input, page size, mode, stream presence, the anchor (in input coordinates) and its
    count; and in the modes without a stream, the window itself. -/
structure Keep (b b' : Buf) : Prop where
  src : b'.src = b.src
  ps : b'.pagesize = b.pagesize
  mode : b'.mode = b.mode
  hasfp : b'.hasfp = b.hasfp
  anch : b'.absAnchor = b.absAnchor
  nanch : b'.nanchor = b.nanchor
  nofp : b.hasfp = false → b'.base = b.base ∧ b'.mem = b.mem

theorem Keep.refl (b : Buf) : Keep b b := ⟨rfl, rfl, rfl, rfl, rfl, rfl, fun _ => ⟨rfl, rfl⟩⟩

theorem Keep.trans {a b c : Buf} (h1 : Keep a b) (h2 : Keep b c) : Keep a c :=
  ⟨h2.src.trans h1.src, h2.ps.trans h1.ps, h2.mode.trans h1.mode, h2.hasfp.trans h1.hasfp,
   h2.anch.trans h1.anch, h2.nanch.trans h1.nanch,
   fun hf => by
     obtain ⟨x1, x2⟩ := h1.nofp hf
     obtain ⟨y1, y2⟩ := h2.nofp (by rw [h1.hasfp]; exact hf)
     exact ⟨y1.trans x1, y2.trans x2⟩⟩

theorem refill_keep (b : Buf) (nmin : Nat) (h : WF b) : Keep b (refill b nmin).2 := by
  obtain ⟨a1, a2, _, a4, _⟩ := refill_anchor b nmin h
  have fr := (refill_post b nmin h).frame
  exact ⟨fr.src, fr.ps, fr.mode, fr.hasfp, a1, a2, fun hf => by rw [a4 hf]; exact ⟨rfl, rfl⟩⟩

/-- moving the cursor inside the window keeps everything `Keep` talks about -/
theorem setpos_keep (b : Buf) (p : Nat) : Keep b { b with pos := p } :=
  ⟨rfl, rfl, rfl, rfl, rfl, rfl, fun _ => ⟨rfl, rfl⟩⟩

theorem Prot.keep {b b' : Buf} {o : Nat} (hp : Prot b o) (k : Keep b b') : Prot b' o := by
  cases hfp : b.hasfp with
  | false =>
    refine ⟨by rw [(k.nofp hfp).1]; exact hp.1, fun hh => ?_⟩
    rw [k.hasfp, hfp] at hh; cases hh
  | true =>
    obtain ⟨A, hA, hle⟩ := hp.2 hfp
    have hA' : b'.absAnchor = some A := by rw [k.anch]; exact hA
    refine ⟨?_, fun _ => ⟨A, hA', hle⟩⟩
    simp only [Buf.absAnchor, Option.map_eq_some_iff] at hA'
    obtain ⟨a, _, hh⟩ := hA'
    omega

theorem suffix_nil_of {b : Buf} (h : WF b) (h1 : b.pos = b.n) (h2 : b.rest = []) : b.abs.suffix = [] := by
  show b.src.drop (b.base + b.pos) = []
  rw [h.suffix_win, h2]
  have : b.win = [] := by apply List.eq_nil_of_length_eq_zero; rw [win_length]; omega
  rw [this]; rfl

/-! ### buffer_skipsep -/

theorem skipsepLoop_succ (sep : Bytes) (fuel : Nat) (b : Buf) (hng : ¬ b.pos > b.n) :
    skipsepLoop sep (fuel + 1) b =
      if b.pos + runLen (isSep sep) b.win < b.n then (.ok, { b with pos := b.pos + runLen (isSep sep) b.win })
      else
        if (refill { b with pos := b.pos + runLen (isSep sep) b.win } 0).1 ≠ .ok ∧
           (refill { b with pos := b.pos + runLen (isSep sep) b.win } 0).1 ≠ .eof
        then refill { b with pos := b.pos + runLen (isSep sep) b.win } 0
        else if (refill { b with pos := b.pos + runLen (isSep sep) b.win } 0).2.n >
                (refill { b with pos := b.pos + runLen (isSep sep) b.win } 0).2.pos
        then skipsepLoop sep fuel (refill { b with pos := b.pos + runLen (isSep sep) b.win } 0).2
        else (if (refill { b with pos := b.pos + runLen (isSep sep) b.win } 0).2.pos =
                 (refill { b with pos := b.pos + runLen (isSep sep) b.win } 0).2.n then .eof else .ok,
              (refill { b with pos := b.pos + runLen (isSep sep) b.win } 0).2) := by
  rw [skipsepLoop]; simp only [hng, if_false]

theorem skipsepLoop_spec (sep : Bytes) (fuel : Nat) : ∀ (b : Buf), WF b → b.rest.length + 1 ≤ fuel →
    WF (skipsepLoop sep fuel b).2 ∧ Keep b (skipsepLoop sep fuel b).2 ∧
    (skipsepLoop sep fuel b).2.base + (skipsepLoop sep fuel b).2.pos =
      b.base + b.pos + runLen (isSep sep) (b.src.drop (b.base + b.pos)) ∧
    (((skipsepLoop sep fuel b).1 = .ok ∧ (skipsepLoop sep fuel b).2.pos < (skipsepLoop sep fuel b).2.n) ∨
     ((skipsepLoop sep fuel b).1 = .eof ∧ (skipsepLoop sep fuel b).2.pos = (skipsepLoop sep fuel b).2.n ∧
        (skipsepLoop sep fuel b).2.rest = [])) := by
  induction fuel with
  | zero => intro b _ hf; omega
  | succ fuel ih =>
    intro b h hfuel
    have hp := h.hpos
    have hwl := win_length b
    have hrl := runLen_le (isSep sep) b.win
    have hng : ¬ b.pos > b.n := by omega
    rw [skipsepLoop_succ sep fuel b hng]
    by_cases hfound : b.pos + runLen (isSep sep) b.win < b.n
    · -- a non-separator is loaded
      rw [if_pos hfound]
      have hrun : runLen (isSep sep) (b.src.drop (b.base + b.pos)) = runLen (isSep sep) b.win := by
        have : ¬ runLen (isSep sep) b.win = b.win.length := by omega
        rw [h.suffix_win, runLen_append, if_neg this]
      refine ⟨⟨h.hwin, Nat.le_of_lt hfound,
          h.hanch, h.hps, h.heof, h.hnofp⟩,
        setpos_keep b _, ?_, Or.inl ⟨rfl, hfound⟩⟩
      show b.base + (b.pos + runLen (isSep sep) b.win) = _
      rw [hrun]; omega
    · rw [if_neg hfound]
      have hall : runLen (isSep sep) b.win = b.win.length := by omega
      have hposn : b.pos + runLen (isSep sep) b.win = b.n := by omega
      rw [hposn]
      have hwf1 : WF { b with pos := b.n } :=
        ⟨h.hwin, Nat.le_refl _, h.hanch, h.hps, h.heof, h.hnofp⟩
      have hr := refill_post { b with pos := b.n } 0 hwf1
      have hk := refill_keep { b with pos := b.n } 0 hwf1
      generalize hrf : refill { b with pos := b.n } 0 = rf at *
      obtain ⟨st, b2⟩ := rf
      simp only [] at hr hk ⊢
      have hst : ¬ (st ≠ .ok ∧ st ≠ .eof) := by rcases hr.status with h1 | h1 <;> simp [h1]
      rw [if_neg hst]
      have hsuf : b.src.drop (b.base + b.pos) = b.win ++ b.rest := h.suffix_win
      have hrunall : runLen (isSep sep) (b.win ++ b.rest) = b.win.length + runLen (isSep sep) b.rest := by
        rw [runLen_append, if_pos hall]
      have hoff2 : b2.base + b2.pos = b.base + b.n := hr.frame.off
      have hsrc2 : b2.src = b.src := hr.frame.src
      have hsuf2 : b2.src.drop (b2.base + b2.pos) = b.rest := by
        rw [hsrc2, hoff2]
        have := h.suffix_at b.n (Nat.le_refl _)
        rw [this]; simp [Buf.n]
      have hkeep : Keep b b2 := (setpos_keep b b.n).trans hk
      have hrest1 : ({ b with pos := b.n } : Buf).rest = b.rest := rfl
      have hav1 : ({ b with pos := b.n } : Buf).n - ({ b with pos := b.n } : Buf).pos = 0 := by
        show b.n - b.n = 0; omega
      by_cases hmore : b2.n > b2.pos
      · rw [if_pos hmore]
        have hprog := hr.prog (by omega)
        have hrl2 : b2.rest.length + 1 ≤ fuel := by rw [hrest1] at hprog; omega
        obtain ⟨i1, i2, i3, i4⟩ := ih b2 hr.wf hrl2
        refine ⟨i1, hkeep.trans i2, ?_, i4⟩
        rw [i3, hsuf2, hsuf, hrunall, hoff2, hwl]
        clear hav1 hprog hrl2 ih
        omega
      · rw [if_neg hmore]
        have hp2 := hr.wf.hpos
        have heq2 : b2.pos = b2.n := by omega
        have hps1 : ({ b with pos := b.n } : Buf).pagesize = b.pagesize := rfl
        have hrest2 : b2.rest = [] := hr.noprog (by rw [hav1]; omega) (by rw [hav1, hps1]; have := h.hps; omega)
        -- nothing was read, so the stream was already empty
        obtain ⟨x, hx1, hx2⟩ := window_extend hwf1 hr.wf hr.frame
        have hx : x = [] := by
          have := congrArg List.length hx1
          simp only [List.length_append, win_length] at this
          apply List.eq_nil_of_length_eq_zero
          omega
        have hrest : b.rest = [] := by
          rw [hrest1, hx, hrest2] at hx2; exact hx2
        refine ⟨hr.wf, hkeep, ?_, Or.inr ⟨by rw [if_pos heq2], heq2, hrest2⟩⟩
        rw [hsuf, hrunall, hrest, hoff2, hwl]
        simp only [runLen]
        clear hav1 hx1 hx2 ih
        omega

/-- `buffer_skipsep` steps over exactly the leading separators of the rest of the input; `eslEOF` iff nothing follows. -/
theorem skipsep_spec (b : Buf) (sep : Bytes) (h : WF b) :
    WF (skipsep b sep).2 ∧ Keep b (skipsep b sep).2 ∧
    (skipsep b sep).2.base + (skipsep b sep).2.pos = b.base + b.pos + runLen (isSep sep) b.abs.suffix ∧
    (((skipsep b sep).1 = .ok ∧ (skipsep b sep).2.pos < (skipsep b sep).2.n) ∨
     ((skipsep b sep).1 = .eof ∧ (skipsep b sep).2.pos = (skipsep b sep).2.n ∧ (skipsep b sep).2.rest = [])) :=
  skipsepLoop_spec sep (b.rest.length + 2) b h (by omega)

/-! ### buffer_counttok -/

theorem counttokLoop_succ (sep : Bytes) (fuel : Nat) (b : Buf) (nc : Nat) (hng : ¬ b.pos + nc > b.n) :
    counttokLoop sep (fuel + 1) b nc =
      if nc + runLen (isTok sep) (b.win.drop nc) < b.n - b.pos then (.ok, b, nc + runLen (isTok sep) (b.win.drop nc))
      else
        if (refill b (nc + runLen (isTok sep) (b.win.drop nc))).1 ≠ .ok ∧
           (refill b (nc + runLen (isTok sep) (b.win.drop nc))).1 ≠ .eof
        then ((refill b (nc + runLen (isTok sep) (b.win.drop nc))).1, (refill b (nc + runLen (isTok sep) (b.win.drop nc))).2, 0)
        else if (refill b (nc + runLen (isTok sep) (b.win.drop nc))).2.n - (refill b (nc + runLen (isTok sep) (b.win.drop nc))).2.pos >
                nc + runLen (isTok sep) (b.win.drop nc)
        then counttokLoop sep fuel (refill b (nc + runLen (isTok sep) (b.win.drop nc))).2 (nc + runLen (isTok sep) (b.win.drop nc))
        else (.ok, (refill b (nc + runLen (isTok sep) (b.win.drop nc))).2, nc + runLen (isTok sep) (b.win.drop nc)) := by
  rw [counttokLoop]
  have : b.mem.drop (b.pos + nc) = b.win.drop nc := by rw [Buf.win, List.drop_drop]
  simp only [hng, if_false, this]

/-- the loop of `buffer_counttok`, started at `nc ≥ 1` with `win[1..nc)` known to be token bytes, returns
    1 + (number of token bytes after the first byte of the rest of the input) -/
theorem counttokLoop_spec (sep : Bytes) (fuel : Nat) : ∀ (b : Buf) (nc : Nat), WF b → b.rest.length + 1 ≤ fuel →
    1 ≤ nc → nc ≤ b.win.length → nc - 1 ≤ runLen (isTok sep) (b.win.drop 1) →
    (counttokLoop sep fuel b nc).1 = .ok ∧ WF (counttokLoop sep fuel b nc).2.1 ∧
    Frame b (counttokLoop sep fuel b nc).2.1 ∧ Keep b (counttokLoop sep fuel b nc).2.1 ∧
    (counttokLoop sep fuel b nc).2.2 = 1 + runLen (isTok sep) ((b.src.drop (b.base + b.pos)).drop 1) ∧
    ((counttokLoop sep fuel b nc).2.2 < (counttokLoop sep fuel b nc).2.1.win.length ∨
      ((counttokLoop sep fuel b nc).2.2 = (counttokLoop sep fuel b nc).2.1.win.length ∧
       (counttokLoop sep fuel b nc).2.1.rest = [])) := by
  induction fuel with
  | zero => intro b nc _ hf; omega
  | succ fuel ih =>
    intro b nc h hfuel h1 hnc htok
    have hp := h.hpos
    have hwl := win_length b
    have hng : ¬ b.pos + nc > b.n := by omega
    rw [counttokLoop_succ sep fuel b nc hng]
    -- T = number of token bytes after the first loaded byte
    have hdd : (b.win.drop 1).drop (nc - 1) = b.win.drop nc := by
      rw [List.drop_drop]; congr 1; omega
    have hT := runLen_drop (isTok sep) (b.win.drop 1) (nc - 1) htok
    rw [hdd] at hT
    have hTle := runLen_le (isTok sep) (b.win.drop 1)
    have hl1 : (b.win.drop 1).length = b.win.length - 1 := List.length_drop
    generalize hTdef : runLen (isTok sep) (b.win.drop 1) = T at *
    have hnc' : nc + runLen (isTok sep) (b.win.drop nc) = 1 + T := by omega
    rw [hnc']
    have hsuf : b.src.drop (b.base + b.pos) = b.win ++ b.rest := h.suffix_win
    have hsd : (b.win ++ b.rest).drop 1 = b.win.drop 1 ++ b.rest := by
      rw [List.drop_append]
      have : 1 - b.win.length = 0 := by omega
      rw [this]; rfl
    by_cases hin : 1 + T < b.n - b.pos
    · rw [if_pos hin]
      refine ⟨rfl, h, Frame.refl b, Keep.refl b, ?_, Or.inl (by show 1 + T < b.win.length; omega)⟩
      show 1 + T = _
      rw [hsuf, hsd, runLen_append, hTdef]
      have : ¬ T = (b.win.drop 1).length := by omega
      rw [if_neg this]
    · rw [if_neg hin]
      have hTall : T = (b.win.drop 1).length := by omega
      have h1T : 1 + T = b.win.length := by omega
      have hr := refill_post b (1 + T) h
      have hk := refill_keep b (1 + T) h
      generalize hrf : refill b (1 + T) = rf at *
      obtain ⟨st, b2⟩ := rf
      simp only [] at hr hk ⊢
      have hst : ¬ (st ≠ .ok ∧ st ≠ .eof) := by rcases hr.status with h3 | h3 <;> simp [h3]
      rw [if_neg hst]
      obtain ⟨x, hx1, hx2⟩ := window_extend h hr.wf hr.frame
      have hwl2 := win_length b2
      by_cases hmore : b2.n - b2.pos > 1 + T
      · rw [if_pos hmore]
        have hprog := hr.prog (by omega)
        have hd2 : b2.win.drop 1 = b.win.drop 1 ++ x := by
          rw [hx1, List.drop_append]
          have : 1 - b.win.length = 0 := by omega
          rw [this]; rfl
        have htok2 : 1 + T - 1 ≤ runLen (isTok sep) (b2.win.drop 1) := by
          rw [hd2, runLen_append, hTdef, if_pos hTall]; omega
        obtain ⟨i1, i2, i3, i4, i5, i6⟩ := ih b2 (1 + T) hr.wf (by omega) (by omega) (by omega) htok2
        refine ⟨i1, i2, hr.frame.trans i3, hk.trans i4, ?_, i6⟩
        rw [i5, hr.frame.src, hr.frame.off]
      · rw [if_neg hmore]
        have heq : b2.n - b2.pos = b.n - b.pos := by have := hr.frame.avail; omega
        have hrest2 := hr.noprog heq (by have := h.hps; omega)
        have hx : x = [] := by
          have := congrArg List.length hx1
          simp only [List.length_append] at this
          apply List.eq_nil_of_length_eq_zero; omega
        have hrest : b.rest = [] := by rw [hx, hrest2] at hx2; exact hx2
        refine ⟨rfl, hr.wf, hr.frame, hk, ?_, Or.inr ⟨by show 1 + T = b2.win.length; omega, hrest2⟩⟩
        show 1 + T = _
        rw [hsuf, hsd, hrest, List.append_nil, hTdef]

end EaselModel.Buffer
