import EaselModel.Buffer.HistoryX
/-! # `history_spec` beyond the contract on EVERY paged opener, FILE included (round 6b)

`history_spec_x` (HistoryX.lean) covers streams and pipes. A FILE that is read in pages repositions with `fseeko` when no anchor
is set, and then a `SetOffset` beyond the end leaves the cursor at the requested offset (`Total.beyond_end_seek`) — a different,
mode-specific outcome. While an anchor IS set the FILE fast-forwards like a stream, so the extended specification `specStepX`
applies to all three paged openers for the class `ValidHistXA`: the contract, or `SetOffset` beyond the end of the input, ahead
of the cursor, WHILE AN ANCHOR IS SET (what a parser that keeps a record anchored does). Hence mode independence across the
paged openers for that class. -/
namespace EaselModel.Buffer

def ValidHistXA (P : Nat) : AState → List Op → Prop
  | _, [] => True
  | a, op :: ops => ((XOp a op ∧ a.anchor ≠ none) ∨ Valid P a op) ∧ ValidHistXA P (specStepX a op).2 ops

/-- the smaller class is inside the larger one -/
theorem ValidHistXA.toX (P : Nat) : ∀ (ops : List Op) (a : AState), ValidHistXA P a ops → ValidHistX P a ops := by
  intro ops
  induction ops with
  | nil => intro a _; trivial
  | cons op ops ih =>
    intro a h
    exact ⟨h.1.elim (fun hx => Or.inl hx.1) Or.inr, ih _ h.2⟩

theorem history_refines_xa (P : Nat) (ops : List Op) :
    ∀ (a : AState) (s : Sess), R P a s → s.b.hasfp = true → ValidHistXA P a ops →
    obsRun s ops = specRunX a ops := by
  induction ops with
  | nil => intro a s _ _ _; rfl
  | cons op ops ih =>
    intro a s r hfp hv
    have hfp' : (s.step op).2.b.hasfp = true := (step_mode s op s.b.mode true ⟨rfl, hfp⟩).2
    show _ :: _ = _ :: _
    by_cases hx : XOp a op
    · have e : specStepX a op = (⟨.einval, [], max a.cur a.src.length⟩, { a with cur := max a.cur a.src.length, lastp := none }) := by
        unfold specStepX; rw [if_pos hx]
      cases op with
      | setOffset o =>
        have hnm : ¬ memMode s.b.mode := by
          intro hmm
          have := r.modefp.mpr hmm
          rw [hfp] at this; cases this
        have hanch : a.anchor ≠ none := by
          rcases hv.1 with h | h
          · exact h.2
          · -- inside the contract a SetOffset target is a byte of the input (or its end): not beyond it
            exfalso
            rcases h.1 with h1 | ⟨h1, _⟩ <;> have := hx.1 <;> omega
        have hnf : ¬ (s.b.mode = .file ∧ s.b.anchor = none) := by
          rintro ⟨_, hn⟩
          have h1 := (r.anch hfp).1
          unfold Buf.absAnchor at h1
          rw [hn] at h1
          exact hanch h1.symm
        obtain ⟨h1, h2⟩ := step_beyond_end_deterministic P o a s r hnm hnf hx.1 hx.2
        have hv2 := hv.2
        rw [e] at hv2 ⊢
        rw [h1, ih _ _ h2 hfp' hv2]
      | _ => exact absurd hx (by unfold XOp; exact fun h => h)
    · have e : specStepX a op = specStep a op := by unfold specStepX; rw [if_neg hx]
      have hval : Valid P a op := hv.1.elim (fun h => absurd h.1 hx) id
      obtain ⟨h1, h2⟩ := sim_all P op a s r hval
      have hv2 := hv.2
      rw [e] at hv2 ⊢
      rw [h1, ih _ _ h2 hfp' hv2]

end EaselModel.Buffer
