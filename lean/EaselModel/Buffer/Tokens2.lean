import EaselModel.Buffer.Tokens
/-! `buffer_newline` and `buffer_counttok` against `nlLen` / `tokLen` of the rest of the input. -/
namespace EaselModel.Buffer

theorem win_getElem? (b : Buf) (i : Nat) : b.mem[b.pos + i]? = b.win[i]? := by
  rw [Buf.win, List.getElem?_drop]

theorem suffix_getElem? {b : Buf} (h : WF b) (i : Nat) (hi : i < b.win.length) :
    b.abs.suffix[i]? = b.win[i]? := by
  show (b.src.drop (b.base + b.pos))[i]? = _
  rw [h.suffix_win, List.getElem?_append, if_pos hi]

theorem suffix_getElem?_none {b : Buf} (h : WF b) (i : Nat) (hi : b.win.length ≤ i) (hr : b.rest = []) :
    b.abs.suffix[i]? = none := by
  show (b.src.drop (b.base + b.pos))[i]? = _
  rw [h.suffix_win, hr, List.append_nil]
  exact List.getElem?_eq_none hi

theorem advance_wf' {b : Buf} (h : WF b) (k : Nat) (hk : b.pos + k ≤ b.n) : WF { b with pos := b.pos + k } :=
  ⟨h.hwin, hk, h.hanch, h.hps, h.heof, h.hnofp⟩

/-! ### buffer_newline -/

/-- `buffer_newline` (after `buffer_skipsep` found a byte): steps over the LF/CRLF at the cursor if there is one —
    also when the CR is the last loaded byte — and restores the page guarantee. -/
theorem newline_spec (b : Buf) (h : WF b) (hlt : b.pos < b.n) :
    WF (newline b).2 ∧ Keep b (newline b).2 ∧ PG (newline b).2 ∧
    (newline b).1 = (if nlLen b.abs.suffix ≠ 0 then .eol else .ok) ∧
    (newline b).2.base + (newline b).2.pos = b.base + b.pos + nlLen b.abs.suffix ∧
    (nlLen b.abs.suffix = 0 → (newline b).2.pos < (newline b).2.n) := by
  have hp := h.hpos
  have hwl := win_length b
  -- stage 1: make sure the byte after a CR is loaded
  obtain ⟨st0, b0, hr0, hwf0, hfr0, hk0, hst0, hsee⟩ : ∃ st0 b0,
      (if b.n - b.pos = 1 ∧ b.mem[b.pos]? = some CR then refill b 1 else (.ok, b)) = (st0, b0) ∧
      WF b0 ∧ Frame b b0 ∧ Keep b b0 ∧ (st0 = .ok ∨ st0 = .eof) ∧
      (2 ≤ b0.win.length ∨ b0.win[0]? ≠ some CR ∨ b0.rest = []) := by
    by_cases hc : b.n - b.pos = 1 ∧ b.mem[b.pos]? = some CR
    · have hr := refill_post b 1 h
      have hk := refill_keep b 1 h
      refine ⟨(refill b 1).1, (refill b 1).2, by rw [if_pos hc], hr.wf, hr.frame, hk, hr.status, ?_⟩
      rcases hr.guarantee (by omega) with g | g
      · left
        have := hr.wf.hps
        rw [win_length]; omega
      · right; right; exact g
    · refine ⟨.ok, b, by rw [if_neg hc], h, Frame.refl b, Keep.refl b, Or.inl rfl, ?_⟩
      by_cases h2 : 2 ≤ b.win.length
      · exact Or.inl h2
      · right; left
        intro hcr
        apply hc
        refine ⟨by omega, ?_⟩
        have := win_getElem? b 0
        rw [Nat.add_zero] at this
        rw [this]; exact hcr
  have hwl0 := win_length b0
  have hav0 := hfr0.avail
  have hp0 := hwf0.hpos
  have hlt0 : 1 ≤ b0.win.length := by omega
  have hsuf : b0.abs.suffix = b.abs.suffix := by rw [abs_of_frame hfr0]
  -- the model's test = nlLen of the suffix
  have hnl : (if b0.n - b0.pos ≥ 1 ∧ b0.mem[b0.pos]? = some LF then 1
      else if b0.n - b0.pos ≥ 2 ∧ b0.mem[b0.pos]? = some CR ∧ b0.mem[b0.pos + 1]? = some LF then 2
      else 0) = nlLen b.abs.suffix := by
    rw [← hsuf]
    unfold nlLen
    have e0 : b0.mem[b0.pos]? = b0.abs.suffix[0]? := by
      rw [suffix_getElem? hwf0 0 (by omega), ← win_getElem? b0 0, Nat.add_zero]
    rw [e0]
    by_cases c1 : b0.abs.suffix[0]? = some LF
    · have : b0.n - b0.pos ≥ 1 ∧ b0.abs.suffix[0]? = some LF := ⟨by omega, c1⟩
      rw [if_pos this, if_pos c1]
    · have : ¬ (b0.n - b0.pos ≥ 1 ∧ b0.abs.suffix[0]? = some LF) := fun hh => c1 hh.2
      rw [if_neg this, if_neg c1]
      by_cases h2 : 2 ≤ b0.win.length
      · have e1 : b0.mem[b0.pos + 1]? = b0.abs.suffix[1]? := by
          rw [suffix_getElem? hwf0 1 (by omega), win_getElem? b0 1]
        rw [e1]
        by_cases c2 : b0.abs.suffix[0]? = some CR ∧ b0.abs.suffix[1]? = some LF
        · rw [if_pos c2, if_pos ⟨by omega, c2⟩]
        · rw [if_neg c2, if_neg (fun hh => c2 hh.2)]
      · have m : ¬ (b0.n - b0.pos ≥ 2 ∧ b0.abs.suffix[0]? = some CR ∧ b0.mem[b0.pos + 1]? = some LF) := by
          intro hh; omega
        rw [if_neg m]
        have s : ¬ (b0.abs.suffix[0]? = some CR ∧ b0.abs.suffix[1]? = some LF) := by
          rintro ⟨s0, s1⟩
          rcases hsee with g | g | g
          · omega
          · apply g; rw [← suffix_getElem? hwf0 0 (by omega)]; exact s0
          · rw [suffix_getElem?_none hwf0 1 (by omega) g] at s1; cases s1
        rw [if_neg s]
  have hnlle : nlLen b.abs.suffix ≤ b0.win.length := by
    rw [← hnl]
    split
    · omega
    · split
      · omega
      · omega
  -- stage 2
  have hwf1 := advance_wf' hwf0 (nlLen b.abs.suffix) (by omega)
  have hr2 := refill_post { b0 with pos := b0.pos + nlLen b.abs.suffix } 0 hwf1
  have hk2 := refill_keep { b0 with pos := b0.pos + nlLen b.abs.suffix } 0 hwf1
  have hst0' : ¬ (st0 ≠ .eof ∧ st0 ≠ .ok) := by rcases hst0 with h3 | h3 <;> simp [h3]
  have hst2 : ¬ ((refill { b0 with pos := b0.pos + nlLen b.abs.suffix } 0).1 ≠ .eof ∧
      (refill { b0 with pos := b0.pos + nlLen b.abs.suffix } 0).1 ≠ .ok) := by
    rcases hr2.status with h3 | h3 <;> simp [h3]
  have e : newline b = (if nlLen b.abs.suffix ≠ 0 then .eol else .ok,
      (refill { b0 with pos := b0.pos + nlLen b.abs.suffix } 0).2) := by
    unfold newline
    have g1 : ¬ b.pos > b.n := by omega
    have g2 : ¬ b.n - b.pos = 0 := by omega
    rw [if_neg g1, if_neg g2]
    simp only [hr0, hst0', if_false, hnl, hst2]
  rw [e]
  refine ⟨hr2.wf, (hk0.trans (setpos_keep b0 _)).trans hk2, ?_, rfl, ?_, ?_⟩
  · show PG (refill { b0 with pos := b0.pos + nlLen b.abs.suffix } 0).2
    rcases hr2.guarantee (Nat.zero_le _) with g | g
    · left; omega
    · right; exact g
  · show (refill { b0 with pos := b0.pos + nlLen b.abs.suffix } 0).2.base + (refill { b0 with pos := b0.pos + nlLen b.abs.suffix } 0).2.pos = _
    rw [hr2.frame.off]
    show b0.base + (b0.pos + nlLen b.abs.suffix) = _
    have := hfr0.off
    omega
  · intro hz
    show (refill { b0 with pos := b0.pos + nlLen b.abs.suffix } 0).2.pos < (refill { b0 with pos := b0.pos + nlLen b.abs.suffix } 0).2.n
    have hav := hr2.frame.avail
    have hp2 := hr2.wf.hpos
    have : ({ b0 with pos := b0.pos + nlLen b.abs.suffix } : Buf).n - ({ b0 with pos := b0.pos + nlLen b.abs.suffix } : Buf).pos
        = b0.n - b0.pos := by
      show b0.n - (b0.pos + nlLen b.abs.suffix) = _
      rw [hz]; rfl
    rw [this] at hav
    omega

/-! ### buffer_counttok -/

/-- `buffer_counttok` returns `tokLen` of the rest of the input, with the whole token loaded -/
theorem counttok_spec (b : Buf) (sep : Bytes) (h : WF b) (hlt : b.pos < b.n) :
    (counttok b sep).1 = .ok ∧ WF (counttok b sep).2.1 ∧ Frame b (counttok b sep).2.1 ∧
    Keep b (counttok b sep).2.1 ∧
    (counttok b sep).2.2 = tokLen sep b.abs.suffix ∧ (counttok b sep).2.2 ≤ (counttok b sep).2.1.win.length := by
  have hwl := win_length b
  obtain ⟨l1, l2, l3, l4, l5, l6⟩ := counttokLoop_spec sep (b.rest.length + 2) b 1 h (by omega) (Nat.le_refl _)
    (by omega) (Nat.zero_le _)
  generalize hcl : counttokLoop sep (b.rest.length + 2) b 1 = r at *
  obtain ⟨st, b1, nc⟩ := r
  simp only [] at l1 l2 l3 l4 l5 l6
  subst l1
  have hsuf1 : b1.abs.suffix = b.abs.suffix := by rw [abs_of_frame l3]
  have hnc1 : 1 ≤ nc := by omega
  have hncw : nc ≤ b1.win.length := by rcases l6 with g | g <;> omega
  -- the model's CR test = the specification's
  have hcond : (b1.pos + nc < b1.n ∧ b1.mem[b1.pos + nc]? = some LF ∧ b1.mem[b1.pos + nc - 1]? = some CR) ↔
      (b.abs.suffix[nc]? = some LF ∧ b.abs.suffix[nc - 1]? = some CR) := by
    rw [← hsuf1]
    have hwl1 := win_length b1
    have hp1 := l2.hpos
    have em1 : b1.mem[b1.pos + nc - 1]? = b1.abs.suffix[nc - 1]? := by
      rw [suffix_getElem? l2 (nc - 1) (by omega), ← win_getElem? b1 (nc - 1)]
      congr 1; omega
    rw [em1]
    rcases l6 with g | ⟨g1, g2⟩
    · have e0 : b1.mem[b1.pos + nc]? = b1.abs.suffix[nc]? := by
        rw [suffix_getElem? l2 nc g, win_getElem? b1 nc]
      rw [e0]
      constructor
      · intro hh; exact hh.2
      · intro hh; exact ⟨by omega, hh⟩
    · have : b1.abs.suffix[nc]? = none := suffix_getElem?_none l2 nc (by omega) g2
      rw [this]
      constructor
      · intro hh; omega
      · intro hh; cases hh.1
  have htl : tokLen sep b.abs.suffix =
      if b.abs.suffix[nc]? = some LF ∧ b.abs.suffix[nc - 1]? = some CR then nc - 1 else nc := by
    unfold tokLen
    have : 1 + runLen (isTok sep) (b.abs.suffix.drop 1) = nc := l5.symm
    simp only [this]
  have hng : ¬ b.pos ≥ b.n := by omega
  by_cases hc : b.abs.suffix[nc]? = some LF ∧ b.abs.suffix[nc - 1]? = some CR
  · have e : counttok b sep = (.ok, b1, nc - 1) := by
      unfold counttok
      rw [if_neg hng, hcl]
      simp only [hcond.mpr hc, and_self, if_true]
    rw [e, htl, if_pos hc]
    exact ⟨rfl, l2, l3, l4, rfl, by show nc - 1 ≤ b1.win.length; omega⟩
  · have e : counttok b sep = (.ok, b1, nc) := by
      unfold counttok
      rw [if_neg hng, hcl]
      have := mt hcond.mp hc
      simp only [this, if_false]
    rw [e, htl, if_neg hc]
    exact ⟨rfl, l2, l3, l4, rfl, hncw⟩

end EaselModel.Buffer
