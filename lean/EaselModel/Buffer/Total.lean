import EaselModel.Buffer.History
import EaselModel.Buffer.Safe
/-! # Histories OUTSIDE the API contract: what `esl_buffer.c` does with them, totally

`history_spec` needs `ValidHist` (the API contract). Here the contract is discharged: for every operation from every
state reached so far, the model of the code either simulates the specification step, or answers the documented
`eslEINVAL` and leaves a state that is described exactly (`Total`). What is still asked of the caller is `CallerOk`:
one clause (`Set(p, nused)` stays within the bytes the preceding `Get*` exposed — undefined by the documentation, unchecked
by the code; violating it leaves the cursor outside the window and later calls read out of bounds: `unsafe_set_beyond_window`
in `Props/C05.lean`; the real code dies under ASan on the same history). Anchors ahead of the cursor and in-window rewinds
to before the anchor are inside the theorem since round 4 (the code copes with them since b86a62d). -/
namespace EaselModel.Buffer

/-- **What one operation may do, contract or not** (`a` = specification state before, then the observation and the
    specification state after):
* `sim`: the specification step;
* `whole_input`: the specification step, the anchor record forgotten (whole-input modes: anchors are documented no-ops);
* `rewind_refused`: `SetOffset` to an offset behind the cursor that no anchor protects and that has left the window:
  `eslEINVAL`, nothing changes;
* `beyond_end`: `SetOffset` beyond the end of a stream: `eslEINVAL`, the stream has been read to its end and the cursor
  stands there;
* `beyond_end_seek`: `SetOffset` at/after the end of an unanchored FILE (`fseeko` branch): `eslEINVAL`, the cursor stands
  at the requested offset, nothing is loaded (every read answers `eslEOF`);
* `beyond_end_whole`: `SetOffset` beyond the end of a whole-input buffer: `eslEINVAL`, nothing changes (since 4515997);
* `anchor_outside` / `stable_anchor_outside`: anchor requested outside the window: `eslEINVAL`, nothing changes.
Every error alternative carries a guard that contradicts the contract `Valid`: inside the contract only `sim` happens
(`step_simulates`). -/
inductive Total (a : AState) : Op → Obs → AState → Prop
  | sim (op : Op) : Total a op (specStep a op).1 (specStep a op).2
  | whole_input (op : Op) : Total a op (specStep a op).1 { (specStep a op).2 with anchor := none, nanchor := 0 }
  | rewind_refused (o : Nat) (h1 : o < a.cur) (h2 : ∀ A, a.anchor = some A → o < A) :
      Total a (.setOffset o) ⟨.einval, [], a.cur⟩ { a with lastp := none }
  | beyond_end (o : Nat) (h1 : a.src.length < o) (h2 : a.cur ≤ o) :
      Total a (.setOffset o) ⟨.einval, [], max a.cur a.src.length⟩ { a with cur := max a.cur a.src.length, lastp := none }
  | beyond_end_seek (o : Nat) (h1 : a.src.length ≤ o) (h2 : a.anchor = none) :
      Total a (.setOffset o) ⟨.einval, [], o⟩ { a with cur := o, lastp := none }
  | beyond_end_whole (o : Nat) (h1 : a.src.length < o) :
      Total a (.setOffset o) ⟨.einval, [], a.cur⟩ { a with lastp := none }
  | anchor_outside (o : Nat) (h : a.cur < o ∨ (o < a.cur ∧ ∀ A, a.anchor = some A → o < A)) :
      Total a (.setAnchor o) ⟨.einval, [], a.cur⟩ { a with lastp := none }
  | stable_anchor_outside (o : Nat) (h : a.cur < o ∨ (o < a.cur ∧ ∀ A, a.anchor = some A → o < A)) :
      Total a (.setStableAnchor o) ⟨.einval, [], a.cur⟩ { a with lastp := none }

/-- the statuses of `Total`: never `fault`, never an internal error -/
theorem Total.st {a a' : AState} {op : Op} {o : Obs} (h : Total a op o a') :
    o.st = .ok ∨ o.st = .eof ∨ o.st = .eol ∨ o.st = .einval := by
  cases h with
  | sim => rcases specStep_st a op with h | h | h
           · exact Or.inl h
           · exact Or.inr (Or.inl h)
           · exact Or.inr (Or.inr (Or.inl h))
  | whole_input => rcases specStep_st a op with h | h | h
                   · exact Or.inl h
                   · exact Or.inr (Or.inl h)
                   · exact Or.inr (Or.inr (Or.inl h))
  | rewind_refused => exact Or.inr (Or.inr (Or.inr rfl))
  | beyond_end => exact Or.inr (Or.inr (Or.inr rfl))
  | beyond_end_seek => exact Or.inr (Or.inr (Or.inr rfl))
  | beyond_end_whole => exact Or.inr (Or.inr (Or.inr rfl))
  | anchor_outside => exact Or.inr (Or.inr (Or.inr rfl))
  | stable_anchor_outside => exact Or.inr (Or.inr (Or.inr rfl))

/-- an error alternative never happens inside the contract -/
theorem Total.error_outside {P : Nat} {a a' : AState} {op : Op} {o : Obs} (h : Total a op o a') (he : o.st = .einval) :
    ¬ Valid P a op := by
  cases h with
  | sim => rcases specStep_st a op with h | h | h <;> rw [h] at he <;> cases he
  | whole_input => rcases specStep_st a op with h | h | h <;> rw [h] at he <;> cases he
  | rewind_refused o h1 h2 =>
    rintro ⟨_, h | ⟨A, hA, hle⟩⟩
    · omega
    · have := h2 A hA; omega
  | beyond_end o h1 h2 =>
    rintro ⟨h | ⟨h, _⟩, _⟩ <;> omega
  | beyond_end_seek o h1 h2 =>
    rintro ⟨h | ⟨_, h⟩, _⟩
    · omega
    · exact h h2
  | beyond_end_whole o h1 =>
    rintro ⟨h | ⟨h, _⟩, _⟩ <;> omega
  | anchor_outside o h =>
    rintro ⟨h1, h2⟩
    rcases h with h | ⟨h, h3⟩
    · omega
    · rcases h2 with h2 | ⟨A, hA, hle⟩
      · omega
      · have := h3 A hA; omega
  | stable_anchor_outside o h =>
    rintro ⟨h1, h2⟩
    rcases h with h | ⟨h, h3⟩
    · omega
    · rcases h2 with h2 | ⟨A, hA, hle⟩
      · omega
      · have := h3 A hA; omega

/-- the target of one totalised step -/
def TStep (P : Nat) (a : AState) (s : Sess) (op : Op) : Prop :=
  ∃ a', Total a op (obsOf op (s.step op).1 (s.step op).2) a' ∧ R P a' (s.step op).2

theorem TStep.of_sim {P : Nat} {a : AState} {s : Sess} {op : Op}
    (h : obsOf op (s.step op).1 (s.step op).2 = (specStep a op).1 ∧ R P (specStep a op).2 (s.step op).2) : TStep P a s op :=
  ⟨_, by rw [h.1]; exact Total.sim op, h.2⟩

/-- an operation that answers `eslEINVAL` and leaves the buffer as it was -/
theorem R.unchanged {P : Nat} {a : AState} {s s' : Sess} (r : R P a s) (hb : s'.b = s.b) (hl : s'.lastp = none) :
    R P { a with lastp := none } s' :=
  r.of_keepA (s' := s') (a' := { a with lastp := none }) (by rw [hb]; exact r.wf) (by rw [hb]; exact r.pg)
    (by rw [hb]; exact KeepA.refl _) (by rw [hb]; exact r.aok) rfl rfl rfl (by rw [hb]; exact r.cur) (Nat.le_refl _)
    (by rw [hl]; rfl) (fun p hp => by cases hp)

/-! ## Set -/

/-- `Set` inside `CallerOk` simulates the specification step (more than the contract `Valid` grants: any `nused` that stays
    within the loaded bytes) -/
theorem sim_set_callerOk (P k : Nat) (a : AState) (s : Sess) (r : R P a s) (hs : CallerOk s (.set k)) :
    obsOf (.set k) (s.step (.set k)).1 (s.step (.set k)).2 = (specStep a (.set k)).1 ∧
    R P (specStep a (.set k)).2 (s.step (.set k)).2 := by
  have hp := r.wf.hpos
  cases hl : s.lastp with
  | none =>
    have hal : a.lastp = none := by rw [← r.lastp, hl]; rfl
    refine set_tail r k s.b a.cur r.wf (Keep.refl _) r.cur (by rw [hl]; rfl) ?_
    unfold specStep; simp only [hal]
  | some i =>
    have hal : a.lastp = some (s.b.base + i) := by rw [← r.lastp, hl]; rfl
    have hik : i + k ≤ s.b.n := hs i hl
    refine set_tail r k { s.b with pos := i + k } (s.b.base + i + k) ?_ (setpos_keep s.b _) ?_ (by rw [hl]; rfl) ?_
    · exact ⟨r.wf.hwin, hik, r.wf.hanch, r.wf.hps, r.wf.heof, r.wf.hnofp⟩
    · show s.b.base + (i + k) = _; omega
    · unfold specStep; simp only [hal]

theorem total_set (P k : Nat) (a : AState) (s : Sess) (r : R P a s) (hs : CallerOk s (.set k)) : TStep P a s (.set k) :=
  TStep.of_sim (sim_set_callerOk P k a s r hs)

/-! ## SetAnchor / SetStableAnchor -/

theorem setAnchor_outside (b : Buf) (o : Nat) (hf : b.hasfp = true) (h : o < b.base ∨ b.base + b.n < o) :
    setAnchor b o = (.einval, b) := by
  unfold setAnchor
  have g : (o < b.base ∨ o > b.base + b.n) := by omega
  simp only [hf, Bool.not_true, Bool.false_eq_true, if_false, g, if_true]

/-- the whole-input modes: `R` does not look at the anchor record of the specification state -/
theorem R.forget_anchor {P : Nat} {a : AState} {s : Sess} (r : R P a s) (hf : s.b.hasfp = false) :
    R P { a with anchor := none, nanchor := 0 } s :=
  ⟨r.wf, r.pg, r.aok, r.nfa, r.src, r.cur, r.ps, r.modefp, r.base0, (fun h => by rw [hf] at h; cases h),
   (fun A hA => by cases hA), r.lastp, r.lastp_le⟩

theorem total_setAnchor (P o : Nat) (a : AState) (s : Sess) (r : R P a s) (hs : CallerOk s (.setAnchor o)) :
    TStep P a s (.setAnchor o) := by
  cases hf : s.b.hasfp with
  | false =>
    -- documented no-op
    have e : setAnchor s.b o = (.ok, s.b) := setAnchor_nofp s.b o hf
    refine ⟨{ (specStep a (.setAnchor o)).2 with anchor := none, nanchor := 0 }, ?_, ?_⟩
    · have : obsOf (.setAnchor o) (s.step (.setAnchor o)).1 (s.step (.setAnchor o)).2 = (specStep a (.setAnchor o)).1 := by
        show (⟨(setAnchor s.b o).1, [], (setAnchor s.b o).2.base + (setAnchor s.b o).2.pos⟩ : Obs) = ⟨.ok, [], a.cur⟩
        rw [e, r.cur]
      rw [this]; exact Total.whole_input _
    · have r1 : R P { a with lastp := none } (s.step (.setAnchor o)).2 :=
        r.unchanged (by show (setAnchor s.b o).2 = s.b; rw [e]) rfl
      have hf' : (s.step (.setAnchor o)).2.b.hasfp = false := by
        show (setAnchor s.b o).2.hasfp = false; rw [e]; exact hf
      have r2 := r1.forget_anchor hf'
      have hsp : ({ (specStep a (.setAnchor o)).2 with anchor := none, nanchor := 0 } : AState) =
          { ({ a with lastp := none } : AState) with anchor := none, nanchor := 0 } := by
        show ({ ({ aSetAnchor a o with lastp := none } : AState) with anchor := none, nanchor := 0 } : AState) = _
        unfold aSetAnchor
        cases a.anchor with
        | none => rfl
        | some A => simp only []; split <;> first | rfl | (split <;> rfl)
      rw [hsp]; exact r2
  | true =>
    have hp := r.wf.hpos
    by_cases hout : o < s.b.base ∨ s.b.base + s.b.n < o
    · have e := setAnchor_outside s.b o hf hout
      obtain ⟨r1, _⟩ := r.anch hf
      refine ⟨{ a with lastp := none }, ?_, r.unchanged (by show (setAnchor s.b o).2 = s.b; rw [e]) rfl⟩
      have : obsOf (.setAnchor o) (s.step (.setAnchor o)).1 (s.step (.setAnchor o)).2 = ⟨.einval, [], a.cur⟩ := by
        show (⟨(setAnchor s.b o).1, [], (setAnchor s.b o).2.base + (setAnchor s.b o).2.pos⟩ : Obs) = ⟨.einval, [], a.cur⟩
        rw [e, r.cur]
      rw [this]
      refine Total.anchor_outside o ?_
      rcases hout with h | h
      · right
        refine ⟨by rw [← r.cur]; omega, fun A hA => ?_⟩
        obtain ⟨a0, _, hb⟩ := absAnchor_some (by rw [r1]; exact hA : s.b.absAnchor = some A)
        omega
      · left; rw [← r.cur]; omega
    · exact TStep.of_sim (sim_setAnchor' P o a s r (fun _ => by omega) (fun _ => by omega))

theorem setStableAnchor_outside (b : Buf) (o : Nat) (hf : b.hasfp = true) (h : o < b.base ∨ b.base + b.n < o) :
    setStableAnchor b o = (.einval, b) := by
  unfold setStableAnchor
  simp only [hf, Bool.not_true, Bool.false_eq_true, if_false, setAnchor_outside b o hf h]

theorem total_setStableAnchor (P o : Nat) (a : AState) (s : Sess) (r : R P a s) (hs : CallerOk s (.setStableAnchor o)) :
    TStep P a s (.setStableAnchor o) := by
  cases hf : s.b.hasfp with
  | false =>
    have e : setStableAnchor s.b o = (.ok, s.b) := by unfold setStableAnchor; simp [hf]
    refine ⟨{ (specStep a (.setStableAnchor o)).2 with anchor := none, nanchor := 0 }, ?_, ?_⟩
    · have : obsOf (.setStableAnchor o) (s.step (.setStableAnchor o)).1 (s.step (.setStableAnchor o)).2 =
          (specStep a (.setStableAnchor o)).1 := by
        show (⟨(setStableAnchor s.b o).1, [], (setStableAnchor s.b o).2.base + (setStableAnchor s.b o).2.pos⟩ : Obs) = ⟨.ok, [], a.cur⟩
        rw [e, r.cur]
      rw [this]; exact Total.whole_input _
    · have r1 : R P { a with lastp := none } (s.step (.setStableAnchor o)).2 :=
        r.unchanged (by show (setStableAnchor s.b o).2 = s.b; rw [e]) rfl
      have hf' : (s.step (.setStableAnchor o)).2.b.hasfp = false := by
        show (setStableAnchor s.b o).2.hasfp = false; rw [e]; exact hf
      have r2 := r1.forget_anchor hf'
      have hsp : ({ (specStep a (.setStableAnchor o)).2 with anchor := none, nanchor := 0 } : AState) =
          { ({ a with lastp := none } : AState) with anchor := none, nanchor := 0 } := by
        show ({ ({ aSetAnchor a o with lastp := none } : AState) with anchor := none, nanchor := 0 } : AState) = _
        unfold aSetAnchor
        cases a.anchor with
        | none => rfl
        | some A => simp only []; split <;> first | rfl | (split <;> rfl)
      rw [hsp]; exact r2
  | true =>
    have hp := r.wf.hpos
    by_cases hout : o < s.b.base ∨ s.b.base + s.b.n < o
    · have e := setStableAnchor_outside s.b o hf hout
      obtain ⟨r1, _⟩ := r.anch hf
      refine ⟨{ a with lastp := none }, ?_, r.unchanged (by show (setStableAnchor s.b o).2 = s.b; rw [e]) rfl⟩
      have : obsOf (.setStableAnchor o) (s.step (.setStableAnchor o)).1 (s.step (.setStableAnchor o)).2 = ⟨.einval, [], a.cur⟩ := by
        show (⟨(setStableAnchor s.b o).1, [], (setStableAnchor s.b o).2.base + (setStableAnchor s.b o).2.pos⟩ : Obs) = ⟨.einval, [], a.cur⟩
        rw [e, r.cur]
      rw [this]
      refine Total.stable_anchor_outside o ?_
      rcases hout with h | h
      · right
        refine ⟨by rw [← r.cur]; omega, fun A hA => ?_⟩
        obtain ⟨a0, _, hb⟩ := absAnchor_some (by rw [r1]; exact hA : s.b.absAnchor = some A)
        omega
      · left; rw [← r.cur]; omega
    · exact TStep.of_sim (sim_setStableAnchor' P o a s r (fun _ => by omega) (fun _ => by omega))

end EaselModel.Buffer
