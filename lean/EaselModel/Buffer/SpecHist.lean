import EaselModel.Buffer.Spec
/-! # The specification of whole histories: abstract state with anchors, the 14 operations, the API contract.
Depends on `Spec.lean` only (the driver links it). -/
namespace EaselModel.Buffer

structure AState where
  src : Bytes
  cur : Nat
  anchor : Option Nat := none
  nanchor : Nat := 0
  lastp : Option Nat := none
  deriving DecidableEq, Repr

def AState.abs (a : AState) : Abs := ⟨a.src, a.cur⟩
def AState.init (src : Bytes) : AState := { src := src, cur := 0 }

/-- what a caller observes of one operation: status, bytes, offset afterwards -/
structure Obs where
  st : St
  bytes : Bytes
  off : Nat
  deriving DecidableEq, Repr

def aSetAnchor (a : AState) (o : Nat) : AState :=
  match a.anchor with
  | none => { a with anchor := some o, nanchor := 1 }
  | some A =>
    if o < A then { a with anchor := some o, nanchor := 1 }
    else if o = A then { a with nanchor := a.nanchor + 1 }
    else a

def aRaise (a : AState) (o : Nat) : AState :=
  match a.anchor with
  | none => a
  | some A =>
    if A = o then
      if a.nanchor - 1 = 0 then { a with anchor := none, nanchor := 0 } else { a with nanchor := a.nanchor - 1 }
    else a

/-- The bracket `SetAnchor(t) … RaiseAnchor(t)` that the line and token calls put around their work (`t` = start of the
    line/token): an anchor at or before `t` is untouched; an anchor AHEAD of `t` — `esl_buffer_SetAnchor` accepts any
    offset of the current window, and an in-window rewind may go before the anchor — is replaced by the bracket's own
    anchor and is gone when the call returns. Inside the API contract (`Valid`) the anchor is never ahead of the cursor. -/
def aBrk (a : AState) (t : Nat) : AState :=
  match a.anchor with
  | some A => if A ≤ t then a else { a with anchor := none, nanchor := 0 }
  | none => a

/-- specification of the 14 operations -/
def specStep (a : AState) (op : Op) : Obs × AState :=
  match op with
  | .getLine =>
    let r := specGetLine a.abs
    (⟨r.1, r.2.1, r.2.2.cur⟩, { aBrk a a.cur with cur := r.2.2.cur, lastp := if r.1 = .ok then some a.cur else none })
  | .fetchLine | .fetchLineStr =>
    let r := specGetLine a.abs
    (⟨r.1, r.2.1, r.2.2.cur⟩, { aBrk a a.cur with cur := r.2.2.cur, lastp := none })
  | .getToken sep =>
    let r := specToken a.abs sep
    let t := a.cur + runLen (isSep sep) a.abs.suffix
    (⟨r.1, r.2.1, r.2.2.cur⟩,
     { (if r.1 = .ok then aBrk a t else a) with cur := r.2.2.cur, lastp := if r.1 = .ok then some t else none })
  | .fetchToken sep | .fetchTokenStr sep =>
    let r := specToken a.abs sep
    let t := a.cur + runLen (isSep sep) a.abs.suffix
    (⟨r.1, r.2.1, r.2.2.cur⟩, { (if r.1 = .ok then aBrk a t else a) with cur := r.2.2.cur, lastp := none })
  | .read k =>
    let r := specRead a.abs k
    (⟨r.1, r.2.1, r.2.2.cur⟩, { a with cur := r.2.2.cur, lastp := none })
  | .get =>
    if a.cur < a.src.length then (⟨.ok, [], a.cur⟩, { a with lastp := some a.cur })
    else (⟨.eof, [], a.cur⟩, { a with lastp := none })
  | .set k =>
    let c := match a.lastp with
      | some p => p + k
      | none => a.cur
    (⟨.ok, [], c⟩, { a with cur := c, lastp := none })
  | .getOffset => (⟨.ok, [], a.cur⟩, { a with lastp := none })
  | .setOffset o => (⟨.ok, [], o⟩, { a with cur := o, lastp := none })
  | .setAnchor o | .setStableAnchor o => (⟨.ok, [], a.cur⟩, { aSetAnchor a o with lastp := none })
  | .raiseAnchor o => (⟨.ok, [], a.cur⟩, { aRaise a o with lastp := none })

/-- The API contract. `P` bounds the page size from below; it only limits how far `Set` may advance past what the
    last `Get*` call is guaranteed to have left in the window.
    * `Set(p, k)`: `p + k` is at most one guaranteed page past the cursor;
    * `SetOffset o`: a byte position of the input — or, while an anchor is set, also the position just after the last
      byte (rewinding/forwarding to the very end of the input, legal since 70e58ff) — ahead of the cursor or at/after
      the active anchor;
    * `SetAnchor o` / `SetStableAnchor o`: at the cursor, or between the active anchor and the cursor. -/
def Valid (P : Nat) (a : AState) : Op → Prop
  | .set k => ∀ p, a.lastp = some p → p + k ≤ a.cur + min P (a.src.length - a.cur)
  | .setOffset o => (o < a.src.length ∨ (o = a.src.length ∧ a.anchor ≠ none)) ∧
      (a.cur ≤ o ∨ ∃ A, a.anchor = some A ∧ A ≤ o)
  | .setAnchor o => o ≤ a.cur ∧ (o = a.cur ∨ ∃ A, a.anchor = some A ∧ A ≤ o)
  | .setStableAnchor o => o ≤ a.cur ∧ (o = a.cur ∨ ∃ A, a.anchor = some A ∧ A ≤ o)
  | _ => True

/-- executable form of the contract (used by the driver to certify that generated histories are inside it) -/
def validB (P : Nat) (a : AState) : Op → Bool
  | .set k => match a.lastp with
    | some p => decide (p + k ≤ a.cur + min P (a.src.length - a.cur))
    | none => true
  | .setOffset o => (decide (o < a.src.length) || (decide (o = a.src.length) && a.anchor.isSome)) && (decide (a.cur ≤ o) || match a.anchor with
    | some A => decide (A ≤ o)
    | none => false)
  | .setAnchor o => decide (o ≤ a.cur) && (decide (o = a.cur) || match a.anchor with
    | some A => decide (A ≤ o)
    | none => false)
  | .setStableAnchor o => decide (o ≤ a.cur) && (decide (o = a.cur) || match a.anchor with
    | some A => decide (A ≤ o)
    | none => false)
  | _ => true

theorem aBrk_src (a : AState) (t : Nat) : (aBrk a t).src = a.src := by
  unfold aBrk; cases a.anchor with
  | none => rfl
  | some A => simp only []; split <;> rfl

theorem aBrk_cur (a : AState) (t : Nat) : (aBrk a t).cur = a.cur := by
  unfold aBrk; cases a.anchor with
  | none => rfl
  | some A => simp only []; split <;> rfl

theorem aBrk_lastp (a : AState) (t : Nat) : (aBrk a t).lastp = a.lastp := by
  unfold aBrk; cases a.anchor with
  | none => rfl
  | some A => simp only []; split <;> rfl

/-- the bracket changes nothing when the anchor is at or before its offset -/
theorem aBrk_of_le (a : AState) (t : Nat) (h : ∀ A, a.anchor = some A → A ≤ t) : aBrk a t = a := by
  unfold aBrk; cases ha : a.anchor with
  | none => rfl
  | some A => simp only []; rw [if_pos (h A ha)]

/-- what is left of the anchor record: the same anchor and count, or nothing -/
theorem aBrk_sub (a : AState) (t : Nat) (A : Nat) (h : (aBrk a t).anchor = some A) :
    a.anchor = some A ∧ A ≤ t ∧ (aBrk a t).nanchor = a.nanchor := by
  unfold aBrk at h ⊢; cases ha : a.anchor with
  | none => rw [ha] at h; simp only [] at h; rw [ha] at h; cases h
  | some A0 =>
    rw [ha] at h; simp only [] at h ⊢
    split at h
    · rename_i hle; rw [ha] at h; cases h; rw [if_pos hle]; exact ⟨rfl, hle, rfl⟩
    · cases h

theorem anchor_ex_iff (a : AState) (o : Nat) :
    (match a.anchor with
      | some A => decide (A ≤ o)
      | none => false) = true ↔ ∃ A, a.anchor = some A ∧ A ≤ o := by
  cases a.anchor with
  | none => simp
  | some A => simp

theorem validB_iff (P : Nat) (a : AState) (op : Op) : validB P a op = true ↔ Valid P a op := by
  cases op with
  | set k =>
    simp only [validB, Valid]
    cases a.lastp with
    | none => simp
    | some p => simp
  | setOffset o =>
    have hs : a.anchor.isSome = true ↔ a.anchor ≠ none := by cases a.anchor <;> simp
    simp only [validB, Valid, Bool.and_eq_true, Bool.or_eq_true, decide_eq_true_eq, anchor_ex_iff, hs]
  | setAnchor o => simp only [validB, Valid, Bool.and_eq_true, Bool.or_eq_true, decide_eq_true_eq, anchor_ex_iff]
  | setStableAnchor o => simp only [validB, Valid, Bool.and_eq_true, Bool.or_eq_true, decide_eq_true_eq, anchor_ex_iff]
  | getLine => simp [validB, Valid]
  | fetchLine => simp [validB, Valid]
  | fetchLineStr => simp [validB, Valid]
  | getToken sep => simp [validB, Valid]
  | fetchToken sep => simp [validB, Valid]
  | fetchTokenStr sep => simp [validB, Valid]
  | read k => simp [validB, Valid]
  | get => simp [validB, Valid]
  | getOffset => simp [validB, Valid]
  | raiseAnchor o => simp [validB, Valid]

end EaselModel.Buffer
