import EaselModel.Buffer.Model
/-! The residual duties of a caller of `esl_buffer.c` once the API contract is dropped (`SafeOp`), as a proposition and
as the executable test that the driver (and, on the real `ESL_BUFFER`, the harness) applies before a `try…` operation.
Core Lean only (the driver links this file). -/
namespace EaselModel.Buffer

/-- The residual duties of the caller, in terms of the current window `[base, base+n)`, cursor `base+pos`, anchor:
* `Set(p, nused)`: `p + nused` stays within the bytes that `Get*` exposed (documented: "we parsed nused bytes of p[0..n-1]");
* the anchor is never put ahead of the cursor: `SetOffset o` rewinding inside the window does not go before the active
  anchor, `SetAnchor o`/`SetStableAnchor o` inside the window is at or before the cursor. Since b86a62d the code handles
  these too (`buffer_refill` keeps everything from `min(anchor, pos)` on; before, `pos` went negative: former finding
  `C05:anchor:ahead-of-cursor`); the model mirrors the repaired code and is compared with it exactly on such histories,
  but the simulation relation `R` (anchor ≤ cursor) does not cover them yet.
`SetOffset` beyond the end of a whole-input buffer is no longer a duty: since 4515997 it is answered `eslEINVAL`. -/
def SafeOp (s : Sess) : Op → Prop
  | .set k => ∀ i, s.lastp = some i → i + k ≤ s.b.n
  | .setOffset o => ∀ x, s.b.anchor = some x → s.b.base ≤ o → s.b.base + x ≤ o
  | .setAnchor o => s.b.hasfp = true → o ≤ s.b.base + s.b.pos ∨ s.b.base + s.b.n < o
  | .setStableAnchor o => s.b.hasfp = true → o ≤ s.b.base + s.b.pos ∨ s.b.base + s.b.n < o
  | _ => True

/-- executable form (the driver and the harness evaluate the same predicate on their own state before a `try…` op) -/
def safeB (s : Sess) : Op → Bool
  | .set k => match s.lastp with
    | some i => decide (i + k ≤ s.b.n)
    | none => true
  | .setOffset o =>
      (match s.b.anchor with
       | some x => !decide (s.b.base ≤ o) || decide (s.b.base + x ≤ o)
       | none => true)
  | .setAnchor o => !s.b.hasfp || decide (o ≤ s.b.base + s.b.pos) || decide (s.b.base + s.b.n < o)
  | .setStableAnchor o => !s.b.hasfp || decide (o ≤ s.b.base + s.b.pos) || decide (s.b.base + s.b.n < o)
  | _ => true

theorem safeB_iff (s : Sess) (op : Op) : safeB s op = true ↔ SafeOp s op := by
  cases op with
  | set k =>
    simp only [safeB, SafeOp]
    cases s.lastp with
    | none => simp
    | some i => simp
  | setOffset o =>
    simp only [safeB, SafeOp]
    constructor
    · intro h2 x hx hb
      rw [hx] at h2
      simp only [Bool.or_eq_true, Bool.not_eq_true', decide_eq_false_iff_not, decide_eq_true_eq] at h2
      rcases h2 with h | h
      · exact absurd hb h
      · exact h
    · intro h2
      cases hx : s.b.anchor with
      | none => rfl
      | some x =>
        simp only [Bool.or_eq_true, Bool.not_eq_true', decide_eq_false_iff_not, decide_eq_true_eq]
        by_cases hb : s.b.base ≤ o
        · exact Or.inr (h2 x hx hb)
        · exact Or.inl hb
  | setAnchor o =>
    simp only [safeB, SafeOp, Bool.or_eq_true, Bool.not_eq_true', decide_eq_true_eq]
    constructor
    · rintro ((h | h) | h) hf
      · rw [hf] at h; cases h
      · exact Or.inl h
      · exact Or.inr h
    · intro h
      cases hf : s.b.hasfp with
      | false => exact Or.inl (Or.inl rfl)
      | true => rcases h hf with h | h
                · exact Or.inl (Or.inr h)
                · exact Or.inr h
  | setStableAnchor o =>
    simp only [safeB, SafeOp, Bool.or_eq_true, Bool.not_eq_true', decide_eq_true_eq]
    constructor
    · rintro ((h | h) | h) hf
      · rw [hf] at h; cases h
      · exact Or.inl h
      · exact Or.inr h
    · intro h
      cases hf : s.b.hasfp with
      | false => exact Or.inl (Or.inl rfl)
      | true => rcases h hf with h | h
                · exact Or.inl (Or.inr h)
                · exact Or.inr h
  | getLine => simp [safeB, SafeOp]
  | fetchLine => simp [safeB, SafeOp]
  | fetchLineStr => simp [safeB, SafeOp]
  | getToken sep => simp [safeB, SafeOp]
  | fetchToken sep => simp [safeB, SafeOp]
  | fetchTokenStr sep => simp [safeB, SafeOp]
  | read k => simp [safeB, SafeOp]
  | get => simp [safeB, SafeOp]
  | getOffset => simp [safeB, SafeOp]
  | raiseAnchor o => simp [safeB, SafeOp]

end EaselModel.Buffer
