import EaselModel.Buffer.Model
/-! What is still asked of a caller of `esl_buffer.c` once the API contract is dropped: `CallerOk`, one clause, as a
proposition and as the executable test that the driver (and, on the real `ESL_BUFFER`, the harness) applies before a
`tryset` operation. Core Lean only (the driver links this file). -/
namespace EaselModel.Buffer

/-- **The only call whose outcome the documentation leaves undefined**: `esl_buffer_Set(bf, p, nused)` with `p + nused`
    beyond the bytes that the preceding `Get*` call exposed (documented: "the caller has parsed `nused` bytes of
    `p[0..n-1]`"; the code does not check it: in a stream it answers `eslEINCONCEIVABLE` from `buffer_refill` and leaves
    the cursor outside the window, in a whole-input buffer it answers `eslOK` with the cursor beyond the end; the next
    read copies from outside the buffer). Every other call of the 14 operations has an outcome defined by the code for
    every argument: anchors anywhere (`eslEINVAL` outside the window; ahead of the cursor the code copes since b86a62d),
    `SetOffset` anywhere (`eslEINVAL` beyond the end since 4515997, or for a rewind that has left the window),
    `RaiseAnchor` of any offset, `Read` of any count, tokens with any separator set. -/
def CallerOk (s : Sess) : Op → Prop
  | .set k => ∀ i, s.lastp = some i → i + k ≤ s.b.n
  | _ => True

/-- executable form (the driver and the harness evaluate the same predicate on their own state before a `tryset`) -/
def callerOkB (s : Sess) : Op → Bool
  | .set k => match s.lastp with
    | some i => decide (i + k ≤ s.b.n)
    | none => true
  | _ => true

theorem callerOkB_iff (s : Sess) (op : Op) : callerOkB s op = true ↔ CallerOk s op := by
  cases op with
  | set k =>
    simp only [callerOkB, CallerOk]
    cases s.lastp with
    | none => simp
    | some i => simp
  | setOffset o => simp [callerOkB, CallerOk]
  | setAnchor o => simp [callerOkB, CallerOk]
  | setStableAnchor o => simp [callerOkB, CallerOk]
  | getLine => simp [callerOkB, CallerOk]
  | fetchLine => simp [callerOkB, CallerOk]
  | fetchLineStr => simp [callerOkB, CallerOk]
  | getToken sep => simp [callerOkB, CallerOk]
  | fetchToken sep => simp [callerOkB, CallerOk]
  | fetchTokenStr sep => simp [callerOkB, CallerOk]
  | read k => simp [callerOkB, CallerOk]
  | get => simp [callerOkB, CallerOk]
  | getOffset => simp [callerOkB, CallerOk]
  | raiseAnchor o => simp [callerOkB, CallerOk]

instance (s : Sess) (op : Op) : Decidable (CallerOk s op) := decidable_of_iff _ (callerOkB_iff s op)

end EaselModel.Buffer
