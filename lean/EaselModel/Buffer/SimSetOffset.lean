import EaselModel.Buffer.SimSet
/-! Simulation of `esl_buffer_SetOffset`. -/
namespace EaselModel.Buffer

theorem setOffset_mem (b : Buf) (o : Nat) (h : memMode b.mode) (hle : o ≤ b.n) :
    setOffset b o = (({ st := .ok } : Out), { b with base := 0, pos := o }) := by
  unfold setOffset
  rcases h with h | h | h <;> rw [h] <;> simp only [] <;> rw [if_neg (by omega)]

/-- since 4515997: beyond the end of a whole-input buffer `SetOffset` answers `eslEINVAL` and changes nothing -/
theorem setOffset_mem_beyond (b : Buf) (o : Nat) (h : memMode b.mode) (hgt : b.n < o) :
    setOffset b o = (({ st := .einval } : Out), b) := by
  unfold setOffset
  rcases h with h | h | h <;> rw [h] <;> simp only [] <;> rw [if_pos (by omega)]

/-- the streaming branch of `SetOffset` -/
def setOffsetStream (b : Buf) (offset : Nat) : Out × Buf :=
  if b.base ≤ offset ∧ offset < b.base + b.pos then ({ st := .ok }, { b with pos := offset - b.base })
  else if b.mode = .file ∧ b.anchor = none then
    let b1 := { b with rest := b.src.drop offset, fed := offset, eof := false,
                       base := offset, mem := [], pos := 0, memgen := b.memgen + 1 }
    let (st, b2) := refill b1 0
    if st = .eof then ({ st := .einval }, b2)
    else if st ≠ .ok then ({ st := st }, b2)
    else ({ st := .ok }, b2)
  else if offset < b.base then ({ st := .einval }, b)
  else
    match ffwdLoop offset (b.rest.length + 2) b with
    | (.ok, b1) =>
      let b2 := { b1 with pos := offset - b1.base }
      let (st, b3) := refill b2 0
      if st ≠ .eof ∧ st ≠ .ok then ({ st := st }, b3) else ({ st := .ok }, b3)
    | (st, b1) => ({ st := st }, b1)

theorem setOffset_stream (b : Buf) (o : Nat) (h : ¬ memMode b.mode) : setOffset b o = setOffsetStream b o := by
  unfold setOffset setOffsetStream
  cases hm : b.mode with
  | stream => rfl
  | cmdpipe => rfl
  | file => rfl
  | allfile => exact absurd (Or.inl hm) h
  | mmap => exact absurd (Or.inr (Or.inl hm)) h
  | string => exact absurd (Or.inr (Or.inr hm)) h

/-- `eslOK` from `buffer_refill` means there is a byte at the cursor -/
theorem refill_ok_lt (b : Buf) (nmin : Nat) (h : WF b) (hok : (refill b nmin).1 = .ok) :
    (refill b nmin).2.pos < (refill b nmin).2.n := by
  have hp := h.hpos
  have hps := h.hps
  unfold refill at hok ⊢
  split at hok
  · rename_i hc
    rw [if_pos hc]
    dsimp only at hok ⊢
    split at hok
    · assumption
    · cases hok
  · rename_i hc
    rw [if_neg hc]
    split at hok
    · rename_i hc2
      rw [if_pos hc2]; dsimp only; omega
    · rename_i hc2
      rw [if_neg hc2]
      split at hok
      · cases hok
      · rename_i hc3
        rw [if_neg hc3]
        obtain ⟨b1, hb1, hwf1, hfr1, hrest1, hav1⟩ := shiftLeft_spec h
        rw [hb1] at hok ⊢
        dsimp only at hok ⊢
        obtain ⟨hwf2, hfr2, hr2, hm2, hpos2, hps2⟩ := grow_spec hwf1
        have hn3 := fread_n (grow b1) (grow b1).pagesize
        have e1 : (load (grow b1)).1 = if min (grow b1).pagesize (grow b1).rest.length = 0 ∧
            (fread (grow b1) (grow b1).pagesize).pos = (fread (grow b1) (grow b1).pagesize).n then St.eof else St.ok := rfl
        have e2 : (load (grow b1)).2 = fread (grow b1) (grow b1).pagesize := rfl
        rw [e1] at hok
        rw [e2]
        have hpos3 : (fread (grow b1) (grow b1).pagesize).pos = (grow b1).pos := rfl
        have hp2 := hwf2.hpos
        split at hok
        · cases hok
        · rename_i hc4
          rw [hn3, hpos3] at hc4 ⊢
          by_cases hz : min (grow b1).pagesize (grow b1).rest.length = 0
          · have : ¬ (grow b1).pos = (grow b1).n + min (grow b1).pagesize (grow b1).rest.length := fun hh => hc4 ⟨hz, hh⟩
            omega
          · omega

/-- if everything loaded ends at or before `o` and the stream is exhausted, `o` is not a byte of the input -/
theorem exhausted_le {b : Buf} (h : WF b) (hr : b.rest = []) : b.src.length ≤ b.base + b.n := by
  have := congrArg List.length h.hwin
  rw [hr, List.append_nil, List.length_drop] at this
  simp only [Buf.n]; omega

theorem anchor_le_of_abs {b : Buf} (i : Nat) (h : ∀ A, b.absAnchor = some A → A ≤ b.base + i) :
    ∀ x, b.anchor = some x → x ≤ i := by
  intro x hx
  have : b.absAnchor = some (b.base + x) := by simp [Buf.absAnchor, hx]
  have := h _ this
  omega

theorem ffwdLoop_succ (o : Nat) (fuel : Nat) (b : Buf) :
    ffwdLoop o (fuel + 1) b =
      if o ≥ b.base + b.n then
        if (refill { b with pos := b.n } 0).1 = .eof ∧ o = (refill { b with pos := b.n } 0).2.base + (refill { b with pos := b.n } 0).2.n
        then (.ok, (refill { b with pos := b.n } 0).2)
        else if (refill { b with pos := b.n } 0).1 = .eof then (.einval, (refill { b with pos := b.n } 0).2)
        else if (refill { b with pos := b.n } 0).1 ≠ .ok then ((refill { b with pos := b.n } 0).1, (refill { b with pos := b.n } 0).2)
        else ffwdLoop o fuel (refill { b with pos := b.n } 0).2
      else (.ok, b) := by
  rw [ffwdLoop]

theorem ffwdLoop_spec (o : Nat) (fuel : Nat) : ∀ (b : Buf), WF b → b.rest.length + 1 ≤ fuel →
    b.base + b.pos ≤ o → o ≤ max (b.base + b.pos) b.src.length →
    (ffwdLoop o fuel b).1 = .ok ∧ WF (ffwdLoop o fuel b).2 ∧ Keep b (ffwdLoop o fuel b).2 ∧
    (ffwdLoop o fuel b).2.base + (ffwdLoop o fuel b).2.pos ≤ o ∧
    o ≤ (ffwdLoop o fuel b).2.base + (ffwdLoop o fuel b).2.n := by
  induction fuel with
  | zero => intro b _ hf; omega
  | succ fuel ih =>
    intro b h hfuel hlo hhi
    have hp := h.hpos
    rw [ffwdLoop_succ]
    by_cases hout : o ≥ b.base + b.n
    · rw [if_pos hout]
      have hwf1 : WF { b with pos := b.n } :=
        ⟨h.hwin, Nat.le_refl _, h.hanch, h.hps, h.heof, h.hnofp⟩
      have hr := refill_post { b with pos := b.n } 0 hwf1
      have hk := refill_keep { b with pos := b.n } 0 hwf1
      have hlt := refill_ok_lt { b with pos := b.n } 0 hwf1
      generalize hrf : refill { b with pos := b.n } 0 = rf at *
      obtain ⟨st, b2⟩ := rf
      simp only [] at hr hk hlt ⊢
      have hoff2 : b2.base + b2.pos = b.base + b.n := hr.frame.off
      have hsrc2 : b2.src = b.src := hr.frame.src
      have hkeep : Keep b b2 := (setpos_keep b b.n).trans hk
      rcases hr.status with hok | heof
      · subst hok
        have c1 : ¬ (St.ok = St.eof ∧ o = b2.base + b2.n) := by intro hh; cases hh.1
        have c2 : ¬ (St.ok = St.eof) := by intro hh; cases hh
        have c3 : ¬ (St.ok ≠ St.ok) := by intro hh; exact hh rfl
        rw [if_neg c1, if_neg c2, if_neg c3]
        have hlt2 := hlt rfl
        have hav1 : ({ b with pos := b.n } : Buf).n - ({ b with pos := b.n } : Buf).pos = 0 := by show b.n - b.n = 0; omega
        have hprog := hr.prog (by rw [hav1]; omega)
        have hrest1 : ({ b with pos := b.n } : Buf).rest = b.rest := rfl
        rw [hrest1] at hprog
        obtain ⟨i1, i2, i3, i4, i5⟩ := ih b2 hr.wf (by omega) (by omega) (by rw [hsrc2]; omega)
        exact ⟨i1, i2, hkeep.trans i3, i4, i5⟩
      · subst heof
        -- end of the stream: then `o` is exactly the end of the input
        obtain ⟨e1, e2⟩ := hr.eof_imp rfl
        have hex := exhausted_le hr.wf e2
        rw [hsrc2] at hex
        have heq : o = b2.base + b2.n := by omega
        rw [if_pos ⟨rfl, heq⟩]
        exact ⟨rfl, hr.wf, hkeep, by show b2.base + b2.pos ≤ o; omega, by show o ≤ b2.base + b2.n; omega⟩
    · rw [if_neg hout]
      exact ⟨rfl, h, Keep.refl b, hlo, by show o ≤ b.base + b.n; omega⟩

theorem sim_setOffset (P : Nat) (o : Nat) : SimStep P (.setOffset o) := by
  intro a s r hv
  obtain ⟨hvend, hvalt⟩ : (o < a.src.length ∨ (o = a.src.length ∧ a.anchor ≠ none)) ∧
      (a.cur ≤ o ∨ ∃ A, a.anchor = some A ∧ A ≤ o) := hv
  have hvle : o ≤ a.src.length := by rcases hvend with h | h <;> omega
  have hp := r.wf.hpos
  have es : specStep a (.setOffset o) = (⟨.ok, [], o⟩, { a with cur := o, lastp := none }) := rfl
  rw [es]
  -- generic conclusion from an explicit result
  have fin : ∀ b', setOffset s.b o = (({ st := .ok } : Out), b') → WF b' → PG b' → Keep s.b b' → b'.base + b'.pos = o →
      obsOf (.setOffset o) (s.step (.setOffset o)).1 (s.step (.setOffset o)).2 = (⟨.ok, [], o⟩ : Obs) ∧
      R P { a with cur := o, lastp := none } (s.step (.setOffset o)).2 := by
    intro b' e w pg k hc
    have hb : (s.step (.setOffset o)).2.b = b' := by rw [step_b]; show (setOffset s.b o).2 = _; rw [e]
    have ho : (s.step (.setOffset o)).1 = ({ st := .ok } : Out) := by rw [step_out]; show (setOffset s.b o).1 = _; rw [e]
    refine ⟨?_, ?_⟩
    · unfold obsOf
      rw [if_neg (by intro hh; cases hh), ho, hb, hc]
    · exact r.of_keepA' (s' := (s.step (.setOffset o)).2) (a' := { a with cur := o, lastp := none })
        (by rw [hb]; exact w) (by rw [hb]; exact pg) (by rw [hb]; exact k.toKeepA) (by rw [hb]; exact r.aok.keep k)
        rfl rfl rfl (by rw [hb]; exact hc)
        (by rw [step_lastp]; show (setOffset s.b o).1.p = none; exact setOffset_p _ _) rfl
  by_cases hm : memMode s.b.mode
  · -- whole input in memory
    have hf : s.b.hasfp = false := r.modefp.mpr hm
    have hb0 := r.base0 hf
    have hrest := r.wf.hnofp hf
    have hn : s.b.n = a.src.length := by
      have := congrArg List.length r.wf.hwin
      rw [hrest, hb0, List.append_nil, List.drop_zero, r.src] at this
      simp only [Buf.n]; omega
    have hnone := r.nfa hf
    refine fin { s.b with base := 0, pos := o } (setOffset_mem s.b o hm (by omega)) ?_ (Or.inr hrest) ?_ (by show 0 + o = o; omega)
    · refine ⟨?_, by show o ≤ s.b.n; omega, ?_, r.wf.hps, r.wf.heof, r.wf.hnofp⟩
      · show s.b.src.drop 0 = s.b.mem ++ s.b.rest
        rw [← hb0]; exact r.wf.hwin
      · intro x hx
        have : s.b.anchor = some x := hx
        rw [hnone] at this; cases this
    · refine ⟨rfl, rfl, rfl, rfl, ?_, rfl, fun _ => ⟨hb0.symm, rfl⟩⟩
      show ({ s.b with base := 0, pos := o } : Buf).absAnchor = s.b.absAnchor
      simp [Buf.absAnchor, hnone]
  · have hf : s.b.hasfp = true := by
      cases hh : s.b.hasfp with
      | true => rfl
      | false => exact absurd (r.modefp.mp hh) hm
    obtain ⟨r1, r2⟩ := r.anch hf
    rw [show (s.step (.setOffset o)) = (s.step (.setOffset o)) from rfl]
    have est := setOffset_stream s.b o hm
    by_cases hwin : s.b.base ≤ o ∧ o < s.b.base + s.b.pos
    · -- rewind inside the window
      have e : setOffset s.b o = (({ st := .ok } : Out), { s.b with pos := o - s.b.base }) := by
        rw [est]; unfold setOffsetStream; rw [if_pos hwin]
      refine fin _ e ?_ ?_ (setpos_keep s.b _) (by show s.b.base + (o - s.b.base) = o; omega)
      · exact ⟨r.wf.hwin, by show o - s.b.base ≤ s.b.n; omega, r.wf.hanch, r.wf.hps, r.wf.heof, r.wf.hnofp⟩
      · rcases r.pg with g | g
        · left; show s.b.pagesize ≤ s.b.n - (o - s.b.base); omega
        · right; exact g
    · by_cases hseek : s.b.mode = .file ∧ s.b.anchor = none
      · -- fseeko
        generalize hb1 : ({ s.b with rest := s.b.src.drop o, fed := o, eof := false, base := o, mem := [], pos := 0, memgen := s.b.memgen + 1 } : Buf) = b1
        have w1 : WF b1 := by
          rw [← hb1]
          refine ⟨by show s.b.src.drop o = [] ++ s.b.src.drop o; rfl, Nat.le_refl _, ?_, r.wf.hps, ?_, ?_⟩
          · intro x hx; have : s.b.anchor = some x := hx; rw [hseek.2] at this; cases this
          · intro hh; cases hh
          · intro hh; have : s.b.hasfp = false := hh; rw [hf] at this; cases this
        have k1 : Keep s.b b1 := by
          rw [← hb1]
          refine ⟨rfl, rfl, rfl, rfl, ?_, rfl, fun hh => by rw [hf] at hh; cases hh⟩
          simp [Buf.absAnchor, hseek.2]
        have hr := refill_post b1 0 w1
        have hk := refill_keep b1 0 w1
        have hrest1 : b1.rest = s.b.src.drop o := by rw [← hb1]
        have hn1 : b1.n - b1.pos = 0 := by rw [← hb1]; rfl
        -- without an anchor only byte positions are in the contract
        have hvlt : o < a.src.length := by
          rcases hvend with h | ⟨_, h⟩
          · exact h
          · exfalso; apply h
            rw [← r1]; simp [Buf.absAnchor, hseek.2]
        have hne : (refill b1 0).1 ≠ .eof := by
          intro he
          obtain ⟨e1, e2⟩ := hr.eof_imp he
          obtain ⟨x, hx1, hx2⟩ := window_extend w1 hr.wf hr.frame
          have hxl := congrArg List.length hx1
          simp only [List.length_append, win_length] at hxl
          have : x = [] := by apply List.eq_nil_of_length_eq_zero; omega
          rw [this, e2, hrest1] at hx2
          have := congrArg List.length hx2
          simp only [List.length_drop, List.append_nil, List.length_nil, r.src] at this
          omega
        have hok : (refill b1 0).1 = .ok := by rcases hr.status with h1 | h1; exact h1; exact absurd h1 hne
        have e : setOffset s.b o = (({ st := .ok } : Out), (refill b1 0).2) := by
          rw [est]; unfold setOffsetStream; rw [if_neg hwin, if_pos hseek]
          simp only [hb1, hok]
          rfl
        refine fin _ e hr.wf ?_ (k1.trans hk) ?_
        · rcases hr.guarantee (Nat.zero_le _) with g | g
          · left; omega
          · right; exact g
        · rw [hr.frame.off, ← hb1]; show o + 0 = o; omega
      · -- not before the window start
        have hbase : ¬ o < s.b.base := by
          intro hlt
          rcases hvalt with h | ⟨A, hA', hle⟩
          · rw [← r.cur] at h; omega
          · obtain ⟨a0, _, hb⟩ := absAnchor_some (by rw [r1]; exact hA' : s.b.absAnchor = some A)
            omega
        have hahead : s.b.base + s.b.pos ≤ o := by omega
        obtain ⟨f1, f2, f3, f4, f5⟩ := ffwdLoop_spec o (s.b.rest.length + 2) s.b r.wf (by omega) hahead (by rw [r.src]; omega)
        generalize hff : ffwdLoop o (s.b.rest.length + 2) s.b = ff at *
        obtain ⟨stf, bf⟩ := ff
        simp only [] at f1 f2 f3 f4 f5
        subst f1
        have hp' := f2.hpos
        have w2 : WF { bf with pos := o - bf.base } :=
          ⟨f2.hwin, by show o - bf.base ≤ bf.n; omega, f2.hanch, f2.hps, f2.heof, f2.hnofp⟩
        have hr := refill_post { bf with pos := o - bf.base } 0 w2
        have hk := refill_keep { bf with pos := o - bf.base } 0 w2
        have hst : ¬ ((refill { bf with pos := o - bf.base } 0).1 ≠ .eof ∧ (refill { bf with pos := o - bf.base } 0).1 ≠ .ok) := by
          rcases hr.status with h3 | h3 <;> simp [h3]
        have e : setOffset s.b o = (({ st := .ok } : Out), (refill { bf with pos := o - bf.base } 0).2) := by
          rw [est]; unfold setOffsetStream; rw [if_neg hwin, if_neg hseek, if_neg hbase, hff]
          simp only [hst, if_false]
        refine fin _ e hr.wf ?_ ((f3.trans (setpos_keep bf _)).trans hk) ?_
        · rcases hr.guarantee (Nat.zero_le _) with g | g
          · left; omega
          · right; exact g
        · rw [hr.frame.off]; show bf.base + (o - bf.base) = o; omega

end EaselModel.Buffer
