import EaselModel.Buffer.GetLine
/-! Initial states of the six openers; stable anchors. -/
namespace EaselModel.Buffer

theorem openWhole_wf (src : Bytes) (ps : Nat) (m : Mode) (ba : Nat) (hps : 0 < ps) :
    WF (openWhole src ps m ba) ∧ PG (openWhole src ps m ba) ∧ (openWhole src ps m ba).abs = ⟨src, 0⟩ := by
  refine ⟨⟨?_, Nat.zero_le _, ?_, hps, fun _ => rfl, fun _ => rfl⟩, Or.inr rfl, rfl⟩
  · show src.drop 0 = src ++ []
    simp
  · intro a ha; simp [openWhole, mkBuf] at ha

theorem mkBuf_wf (src : Bytes) (ps : Nat) (m : Mode) (ba : Nat) (hps : 0 < ps) :
    WF { mkBuf src ps m with balloc := ba } := by
  refine ⟨?_, Nat.zero_le _, ?_, hps, ?_, ?_⟩
  · show src.drop 0 = [] ++ src
    simp
  · intro a ha; simp [mkBuf] at ha
  · intro he; simp [mkBuf] at he
  · intro he; simp [mkBuf] at he

theorem openPaged_wf (src : Bytes) (ps : Nat) (m : Mode) (hps : 0 < ps) :
    WF (openPaged src ps m) ∧ PG (openPaged src ps m) ∧ (openPaged src ps m).abs = ⟨src, 0⟩ := by
  have hw := fread_wf (mkBuf_wf src ps m ps hps) ps
  refine ⟨hw, ?_, rfl⟩
  have hn := fread_n { mkBuf src ps m with balloc := ps } ps
  show ps ≤ (openPaged src ps m).n - 0 ∨ src.drop ps = []
  by_cases hfull : ps ≤ src.length
  · left
    have : (openPaged src ps m).n = 0 + min ps src.length := hn
    rw [this, Nat.min_eq_left hfull]; omega
  · right; apply List.drop_eq_nil_of_le; omega

/-- Every opener yields a well-formed window at cursor 0 that satisfies the page guarantee. -/
theorem openBuf_wf (mode : Mode) (ps : Nat) (src : Bytes) (hps : 0 < ps) :
    WF (openBuf mode ps src) ∧ PG (openBuf mode ps src) ∧ (openBuf mode ps src).abs = ⟨src, 0⟩ := by
  cases mode with
  | string => exact openWhole_wf src ps .string 0 hps
  | mmap => exact openWhole_wf src ps .mmap 0 hps
  | allfile => exact openWhole_wf src ps .allfile src.length hps
  | stream => exact openPaged_wf src ps .stream hps
  | file => exact openPaged_wf src ps .file hps
  | cmdpipe =>
    obtain ⟨w, g, a⟩ := openPaged_wf src ps .cmdpipe hps
    show WF (if (openPaged src ps .cmdpipe).n < ps then _ else _) ∧ PG (if (openPaged src ps .cmdpipe).n < ps then _ else _) ∧
      Buf.abs (if (openPaged src ps .cmdpipe).n < ps then _ else _) = _
    split
    · rename_i hshort
      -- a short first read means the pipe is exhausted
      have hrest : (openPaged src ps .cmdpipe).rest = [] := by
        have hps' : (openPaged src ps .cmdpipe).pagesize = ps := rfl
        have hpos' : (openPaged src ps .cmdpipe).pos = 0 := rfl
        rcases g with g | g
        · omega
        · exact g
      exact ⟨⟨w.hwin, w.hpos, w.hanch, w.hps, fun _ => hrest, fun _ => hrest⟩, Or.inr hrest, a⟩
    · exact ⟨w, g, a⟩

/-! ### stable anchors -/

/-- While the next page still fits behind the loaded bytes, a refill under a stable anchor (anchor at window
    position 0) neither moves nor reallocates the window. -/
theorem refill_stable_room (b : Buf) (nmin : Nat) (ha : b.anchor = some 0) (hroom : b.n + b.pagesize ≤ b.balloc) :
    (refill b nmin).2.memgen = b.memgen := by
  unfold refill
  split
  · rfl
  · split
    · rfl
    · split
      · rfl
      · have hs : shiftLeft b = some b := by
          unfold shiftLeft shiftLeft0
          have : ¬ (b.balloc - b.n < b.pagesize ∧ 0 < b.pos) := by omega
          simp [this]
        rw [hs]
        show (load (grow b)).2.memgen = b.memgen
        have hg : grow b = b := by
          unfold grow growR grow0
          have : ¬ (b.n + b.pagesize > b.balloc) := by omega
          simp [this]
        rw [hg]; rfl

/-- a stable anchor on the 2-byte window of a 4-byte stream, page size 2 -/
def stableWitness : Buf :=
  (setStableAnchor (openBuf .stream 2 [97, 98, 99, 100]) 0).2

end EaselModel.Buffer
