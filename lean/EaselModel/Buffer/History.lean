import EaselModel.Buffer.SimSetOffset
/-! Whole histories: the model follows the specification; mode and page-size independence. -/
namespace EaselModel.Buffer

theorem sim_all (P : Nat) (op : Op) : SimStep P op := by
  cases op with
  | getLine => exact sim_getLine P
  | fetchLine => exact sim_fetchLine P
  | fetchLineStr => exact sim_fetchLineStr P
  | getToken sep => exact sim_getToken P sep
  | fetchToken sep => exact sim_fetchToken P sep
  | fetchTokenStr sep => exact sim_fetchTokenStr P sep
  | read k => exact sim_read P k
  | get => exact sim_get P
  | set k => exact sim_set P k
  | getOffset => exact sim_getOffset P
  | setOffset o => exact sim_setOffset P o
  | setAnchor o => exact sim_setAnchor P o
  | setStableAnchor o => exact sim_setStableAnchor P o
  | raiseAnchor o => exact sim_raiseAnchor P o

theorem history_refines (P : Nat) (ops : List Op) : ∀ (a : AState) (s : Sess), R P a s → ValidHist P a ops →
    obsRun s ops = specRun a ops := by
  induction ops with
  | nil => intro a s _ _; rfl
  | cons op ops ih =>
    intro a s r hv
    obtain ⟨h1, h2⟩ := sim_all P op a s r hv.1
    show _ :: _ = _ :: _
    rw [h1, ih _ _ h2 hv.2]

/-- every opener starts in the simulation relation with the initial specification state -/
theorem open_R (mode : Mode) (ps : Nat) (src : Bytes) (hps : 0 < ps) (P : Nat) (hP : P ≤ ps) :
    R P (AState.init src) { b := openBuf mode ps src } := by
  obtain ⟨w, g, ab⟩ := openBuf_wf mode ps src hps
  have hsrc : (openBuf mode ps src).src = src := congrArg Abs.src ab
  have hcur : (openBuf mode ps src).base + (openBuf mode ps src).pos = 0 := congrArg Abs.cur ab
  have hfacts : (openBuf mode ps src).anchor = none ∧ (openBuf mode ps src).pagesize = ps ∧ (openBuf mode ps src).base = 0 ∧
      ((openBuf mode ps src).hasfp = false ↔ memMode (openBuf mode ps src).mode) := by
    cases mode with
    | string => exact ⟨rfl, rfl, rfl, ⟨fun _ => Or.inr (Or.inr rfl), fun _ => rfl⟩⟩
    | mmap => exact ⟨rfl, rfl, rfl, ⟨fun _ => Or.inr (Or.inl rfl), fun _ => rfl⟩⟩
    | allfile => exact ⟨rfl, rfl, rfl, ⟨fun _ => Or.inl rfl, fun _ => rfl⟩⟩
    | stream =>
      refine ⟨rfl, rfl, rfl, ⟨(fun h => by cases h), (fun h => ?_)⟩⟩
      rcases h with h | h | h <;> cases h
    | file =>
      refine ⟨rfl, rfl, rfl, ⟨(fun h => by cases h), (fun h => ?_)⟩⟩
      rcases h with h | h | h <;> cases h
    | cmdpipe =>
      unfold openBuf
      dsimp only
      split
      · exact ⟨rfl, rfl, rfl, ⟨fun _ => Or.inl rfl, fun _ => rfl⟩⟩
      · refine ⟨rfl, rfl, rfl, ⟨(fun h => by cases h), (fun h => ?_)⟩⟩
        rcases h with h | h | h <;> cases h
  obtain ⟨f1, f2, f3, f4⟩ := hfacts
  refine ⟨w, g, ?_, fun _ => f1, hsrc, hcur, by rw [f2]; exact hP, f4, fun _ => f3, ?_, ?_, rfl, ?_⟩
  · intro x hx; rw [f1] at hx; cases hx
  · intro _
    refine ⟨?_, fun hh => absurd rfl hh⟩
    show (openBuf mode ps src).absAnchor = none
    simp [Buf.absAnchor, f1]
  · intro A hA; cases hA
  · intro p hp; cases hp

/-- **Refinement of whole histories.** For every input, every opening mode, every page size `ps ≥ 1`, and every
    operation history within the API contract (for the smallest page size `P ≤ ps` in play): the statuses, returned
    bytes and offsets observed on the model of `esl_buffer.c` are exactly those of the specification
    "bytes + cursor" — no bound on the input, the page size or the length of the history. -/
theorem history_spec (mode : Mode) (ps : Nat) (src : Bytes) (hps : 0 < ps) (P : Nat) (hP : P ≤ ps)
    (ops : List Op) (hv : ValidHist P (AState.init src) ops) :
    obsRun { b := openBuf mode ps src } ops = specRun (AState.init src) ops :=
  history_refines P ops _ _ (open_R mode ps src hps P hP) hv

/-- **Mode and page-size independence** of whole histories. -/
theorem history_mode_independent (src : Bytes) (m₁ m₂ : Mode) (ps₁ ps₂ P : Nat) (h₁ : 0 < ps₁) (h₂ : 0 < ps₂)
    (hP₁ : P ≤ ps₁) (hP₂ : P ≤ ps₂) (ops : List Op) (hv : ValidHist P (AState.init src) ops) :
    obsRun { b := openBuf m₁ ps₁ src } ops = obsRun { b := openBuf m₂ ps₂ src } ops := by
  rw [history_spec m₁ ps₁ src h₁ P hP₁ ops hv, history_spec m₂ ps₂ src h₂ P hP₂ ops hv]

theorem specGetLine_st (a : Abs) : (specGetLine a).1 = .ok ∨ (specGetLine a).1 = .eof := by
  unfold specGetLine
  cases specLine a.suffix with
  | none => exact Or.inr rfl
  | some x => exact Or.inl rfl

theorem specRead_st (a : Abs) (k : Nat) : (specRead a k).1 = .ok ∨ (specRead a k).1 = .eof := by
  unfold specRead
  split
  · exact Or.inr rfl
  · exact Or.inl rfl

theorem specToken_st (a : Abs) (sep : Bytes) :
    (specToken a sep).1 = .ok ∨ (specToken a sep).1 = .eof ∨ (specToken a sep).1 = .eol := by
  have e : (specToken a sep).1 = (specTok sep a.suffix).1 := rfl
  rw [e]
  unfold specTok
  simp only []
  split
  · exact Or.inr (Or.inl rfl)
  · split
    · exact Or.inr (Or.inr rfl)
    · exact Or.inl rfl

/-- the specification only ever answers `eslOK`, `eslEOF` or `eslEOL` -/
theorem specStep_st (a : AState) (op : Op) :
    (specStep a op).1.st = .ok ∨ (specStep a op).1.st = .eof ∨ (specStep a op).1.st = .eol := by
  cases op with
  | getLine => rcases specGetLine_st a.abs with h | h; exact Or.inl h; exact Or.inr (Or.inl h)
  | fetchLine => rcases specGetLine_st a.abs with h | h; exact Or.inl h; exact Or.inr (Or.inl h)
  | fetchLineStr => rcases specGetLine_st a.abs with h | h; exact Or.inl h; exact Or.inr (Or.inl h)
  | getToken sep => exact specToken_st a.abs sep
  | fetchToken sep => exact specToken_st a.abs sep
  | fetchTokenStr sep => exact specToken_st a.abs sep
  | read k => rcases specRead_st a.abs k with h | h; exact Or.inl h; exact Or.inr (Or.inl h)
  | get =>
    by_cases hc : a.cur < a.src.length
    · left; show (if a.cur < a.src.length then _ else _ : Obs × AState).1.st = .ok
      rw [if_pos hc]
    · right; left; show (if a.cur < a.src.length then _ else _ : Obs × AState).1.st = .eof
      rw [if_neg hc]
  | set k => exact Or.inl rfl
  | getOffset => exact Or.inl rfl
  | setOffset o => exact Or.inl rfl
  | setAnchor o => exact Or.inl rfl
  | setStableAnchor o => exact Or.inl rfl
  | raiseAnchor o => exact Or.inl rfl

theorem specRun_st (ops : List Op) : ∀ (a : AState), ∀ o ∈ specRun a ops, o.st = .ok ∨ o.st = .eof ∨ o.st = .eol := by
  induction ops with
  | nil => intro a o ho; cases ho
  | cons op ops ih =>
    intro a o ho
    rcases List.mem_cons.mp ho with h | h
    · rw [h]; exact specStep_st a op
    · exact ih _ o h

/-- Along every valid history no operation of the model ends in `fault` (an out-of-bounds access, a cursor outside the
    window, a loop out of fuel) or in an internal error status: the statuses are `eslOK`, `eslEOF`, `eslEOL` only. -/
theorem history_no_fault (mode : Mode) (ps : Nat) (src : Bytes) (hps : 0 < ps) (P : Nat) (hP : P ≤ ps)
    (ops : List Op) (hv : ValidHist P (AState.init src) ops) :
    ∀ o ∈ obsRun { b := openBuf mode ps src } ops, o.st = .ok ∨ o.st = .eof ∨ o.st = .eol := by
  rw [history_spec mode ps src hps P hP ops hv]
  exact specRun_st ops _

/-- **Re-reading under an anchor.** While an anchor is set at offset `A`, every `SetOffset o` with `A ≤ o` inside the
    input is within the contract, succeeds, and the bytes then read at `o` are the bytes of the input at `o`. -/
theorem reread_under_anchor (P : Nat) (a : AState) (s : Sess) (r : R P a s) (A o k : Nat)
    (hA : a.anchor = some A) (hle : A ≤ o) (hlt : o ≤ a.src.length) :
    Valid P a (.setOffset o) ∧
    obsOf (.setOffset o) (s.step (.setOffset o)).1 (s.step (.setOffset o)).2 = ⟨.ok, [], o⟩ ∧
    (let s' := (s.step (.setOffset o)).2
     ((s'.step (.read k)).1.st, (s'.step (.read k)).1.bytes) =
       ((specRead ⟨a.src, o⟩ k).1, (specRead ⟨a.src, o⟩ k).2.1)) := by
  have hv : Valid P a (.setOffset o) := by
    refine ⟨?_, Or.inr ⟨A, hA, hle⟩⟩
    rcases Nat.lt_or_ge o a.src.length with h | h
    · exact Or.inl h
    · exact Or.inr ⟨by omega, by rw [hA]; intro hh; cases hh⟩
  obtain ⟨h1, h2⟩ := sim_setOffset P o a s r hv
  refine ⟨hv, h1, ?_⟩
  obtain ⟨g1, _⟩ := sim_read P k _ _ h2 trivial
  have e1 := congrArg Obs.st g1
  have e2 := congrArg Obs.bytes g1
  show (_, _) = (_, _)
  have hb : (if (Op.read k) = .get then ([] : Bytes) else (((s.step (.setOffset o)).2).step (.read k)).1.bytes) =
      (((s.step (.setOffset o)).2).step (.read k)).1.bytes := by
    rw [if_neg (by intro hh; cases hh)]
  have e2' : (((s.step (.setOffset o)).2).step (.read k)).1.bytes = (specRead ⟨a.src, o⟩ k).2.1 := by
    rw [← hb]; exact e2
  have e1' : (((s.step (.setOffset o)).2).step (.read k)).1.st = (specRead ⟨a.src, o⟩ k).1 := e1
  rw [e1', e2']

/-- What `esl_buffer_Get` exposes in a state reached by a valid history: a non-empty prefix of the rest of the input,
    at least one guaranteed page of it unless the input ends first (the page guarantee of esl_buffer.h). -/
theorem get_prefix {P : Nat} {a : AState} {s : Sess} (r : R P a s) (hlt : a.cur < a.src.length) :
    (get s.b).1.st = .ok ∧ (get s.b).1.bytes = a.abs.suffix.take (get s.b).1.n ∧ 0 < (get s.b).1.n ∧
    min P (a.src.length - a.cur) ≤ (get s.b).1.n := by
  have hpos := r.at_end_iff.mpr hlt
  have e : get s.b = (({ st := .ok, bytes := s.b.mem.drop s.b.pos, n := s.b.n - s.b.pos, p := some s.b.pos } : Out), s.b) := by
    unfold get; rw [if_pos hpos]
  rw [e]
  refine ⟨rfl, ?_, by show 0 < s.b.n - s.b.pos; omega, r.loaded_ge⟩
  show s.b.win = a.abs.suffix.take (s.b.n - s.b.pos)
  rw [← r.abs_eq]
  show s.b.win = (s.b.src.drop (s.b.base + s.b.pos)).take (s.b.n - s.b.pos)
  rw [r.wf.suffix_win, ← win_length, List.take_left']
  rfl

end EaselModel.Buffer
