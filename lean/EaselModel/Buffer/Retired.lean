import EaselModel.Buffer.Stable
/-! # The blocks of `bf->mem` and `bf->retired`: every block is freed exactly once, none while a stable anchor needs it (round 6b)

What `buffer_refill` (after fix 188d0b6) does to the allocator, as a function of the `ESL_BUFFER` state it is called in — the
same conditions, in the same order, as the model `refill` (Model.lean) — and what `esl_buffer_Close` frees. Blocks are numbered
in allocation order. The theorems quantify over EVERY sequence of `buffer_refill` calls in ANY states (a superset of what the 14
operations can issue, so they hold along every history): no double free, no leak, and nothing is freed by a refill that runs
under `bf->stable`. (`realloc` is modelled as free + malloc, which is what ASan's allocator does; `SetStableAnchor` and
`RaiseAnchor` only flip the flag.) Tie of this file: ASan (double free, use after free) and LeakSanitizer on every case. -/
namespace EaselModel.Buffer

structure Heap where
  /-- the block `bf->mem` points to -/
  live : Nat
  /-- `bf->retired[0..nretired)` -/
  retired : List Nat
  /-- blocks handed back to the allocator, in order -/
  freed : List Nat
  /-- number of blocks allocated so far (the next block gets this number) -/
  next : Nat
  deriving Repr, DecidableEq

/-- after `esl_buffer_OpenStream/OpenPipe/buffer_init_file_basic`: one page allocated -/
def Heap.init : Heap := ⟨0, [], [], 1⟩

def Heap.all (h : Heap) : List Nat := h.live :: (h.retired ++ h.freed)

/-- no block is in two places, and the blocks in play are exactly the ones allocated so far -/
def Heap.OK (h : Heap) : Prop := h.all.Nodup ∧ ∀ x, x ∈ h.all ↔ x < h.next

/-- `while (bf->nretired) free(bf->retired[--bf->nretired]);` (the order within one sweep is not recorded) -/
def freeRetired (h : Heap) : Heap := { h with freed := h.freed ++ h.retired, retired := [] }

/-- `ESL_ALLOC(newmem, …); memcpy; bf->retired[bf->nretired++] = bf->mem; bf->mem = newmem;` -/
def retire (h : Heap) : Heap := { h with retired := h.retired ++ [h.live], live := h.next, next := h.next + 1 }

/-- `ESL_REALLOC(bf->mem, …)` (moving: free + malloc) -/
def reallocH (h : Heap) : Heap := { h with freed := h.freed ++ [h.live], live := h.next, next := h.next + 1 }

/-- the allocator side of `buffer_refill(bf, nmin)` called in state `b` -/
def refillH (b : Buf) (nmin : Nat) (h : Heap) : Heap :=
  if !b.hasfp || b.eof then h
  else if b.n - b.pos ≥ nmin + b.pagesize ∧ b.pos ≤ b.n then h
  else if b.pos > b.n then h
  else
    let h1 := if pinned b then h else freeRetired h
    match shiftLeft b with
    | none => h1
    | some b1 => if b1.n + b1.pagesize > b1.balloc then (if pinned b1 then retire h1 else reallocH h1) else h1

/-- what has been freed once `esl_buffer_Close` has run: the retired blocks, then `bf->mem` -/
def closeH (h : Heap) : List Nat := h.freed ++ h.retired ++ [h.live]

/-- any sequence of refills, each in any state -/
def runH : List (Buf × Nat) → Heap → Heap
  | [], h => h
  | (b, nmin) :: cs, h => runH cs (refillH b nmin h)

theorem init_ok : Heap.init.OK := by
  refine ⟨by simp [Heap.all, Heap.init], ?_⟩
  intro x; simp [Heap.all, Heap.init]

theorem freeRetired_ok {h : Heap} (ok : h.OK) : (freeRetired h).OK := by
  obtain ⟨nd, mem⟩ := ok
  simp only [Heap.all, freeRetired, Heap.OK] at *
  constructor
  · grind
  · intro x; have := mem x; grind

theorem retire_ok {h : Heap} (ok : h.OK) : (retire h).OK := by
  obtain ⟨nd, mem⟩ := ok
  have hnext : h.next ∉ h.all := fun hh => Nat.lt_irrefl _ ((mem _).mp hh)
  simp only [Heap.all, retire, Heap.OK] at *
  constructor
  · grind
  · intro x; have := mem x; grind

theorem reallocH_ok {h : Heap} (ok : h.OK) : (reallocH h).OK := by
  obtain ⟨nd, mem⟩ := ok
  have hnext : h.next ∉ h.all := fun hh => Nat.lt_irrefl _ ((mem _).mp hh)
  simp only [Heap.all, reallocH, Heap.OK] at *
  constructor
  · grind
  · intro x; have := mem x; grind

theorem refillH_ok (b : Buf) (nmin : Nat) {h : Heap} (ok : h.OK) : (refillH b nmin h).OK := by
  unfold refillH
  have ok1 : (if pinned b then h else freeRetired h).OK := by split; exact ok; exact freeRetired_ok ok
  repeat' (first | exact ok | exact ok1 | exact freeRetired_ok ok | exact retire_ok ok | exact reallocH_ok ok |
    exact retire_ok (freeRetired_ok ok) | exact reallocH_ok (freeRetired_ok ok) | split | dsimp only)

theorem runH_ok : ∀ (cs : List (Buf × Nat)) {h : Heap}, h.OK → (runH cs h).OK
  | [], _, ok => ok
  | (b, nmin) :: cs, _, ok => runH_ok cs (refillH_ok b nmin ok)

/-- **While `bf->stable` is set a refill frees nothing**: every block that was live or retired before is live or retired after
    (so every pointer handed out since the stable anchor was set still points into an allocated block). -/
theorem refillH_pinned (b : Buf) (nmin : Nat) (h : Heap) (hp : pinned b = true) :
    (refillH b nmin h).freed = h.freed ∧ ∀ x, x ∈ h.live :: h.retired → x ∈ (refillH b nmin h).live :: (refillH b nmin h).retired := by
  have hs : shiftLeft b = some b := by unfold shiftLeft; rw [if_pos hp]
  unfold refillH
  rw [hs]
  simp only [hp, if_true]
  repeat' (first | exact ⟨rfl, fun x hx => hx⟩ | split)
  all_goals (simp only [retire]; grind)

/-- **Every block is freed exactly once**: after ANY sequence of `buffer_refill` calls in ANY states, followed by
    `esl_buffer_Close`, the list of freed blocks has no repetition (no double free) and contains exactly the blocks that were ever
    allocated (no leak) — in particular every block that went through `bf->retired`. -/
theorem close_frees_exactly_once (cs : List (Buf × Nat)) :
    (closeH (runH cs Heap.init)).Nodup ∧ ∀ x, x ∈ closeH (runH cs Heap.init) ↔ x < (runH cs Heap.init).next := by
  obtain ⟨nd, mem⟩ := runH_ok cs init_ok
  generalize runH cs Heap.init = h at *
  simp only [Heap.all, closeH] at *
  constructor
  · grind
  · intro x; have := mem x; grind

end EaselModel.Buffer
