import EaselModel.Buffer.MemLemmas
/-! `esl_memspn`, `esl_memcspn`, `esl_memtok`: the loops of `Mem.lean` against `takeWhile`/`dropWhile`. Core Lean only. -/
namespace EaselModel.Buffer.Mem
open EaselModel.Buffer

theorem runLen_eq_takeWhile (q : UInt8 → Bool) (l : Bytes) : runLen q l = (l.takeWhile q).length := by
  induction l with
  | nil => rfl
  | cons c cs ih => simp only [runLen, List.takeWhile_cons]; split <;> simp [ih]

theorem drop_runLen (q : UInt8 → Bool) (l : Bytes) : l.drop (runLen q l) = l.dropWhile q := by
  induction l with
  | nil => rfl
  | cons c cs ih => simp only [runLen, List.dropWhile_cons]; split <;> simp [ih]

theorem take_runLen (q : UInt8 → Bool) (l : Bytes) : l.take (runLen q l) = l.takeWhile q := by
  induction l with
  | nil => rfl
  | cons c cs ih => simp only [runLen, List.takeWhile_cons]; split <;> simp [ih]

theorem takeWhile_cz (s : Bytes) : (cz s).takeWhile (· != 0) = cstr s := by
  unfold cz cstr
  induction s with
  | nil => simp
  | cons c cs ih => simp only [List.cons_append, List.takeWhile_cons]; split <;> simp [ih]

theorem zero_mem_cz (s : Bytes) : (0 : UInt8) ∈ cz s := by simp [cz]

/-- `strchr` on the terminated memory scans exactly the C string -/
theorem strchrLoop_eq (m : Bytes) (c : UInt8) : ∀ (l : Bytes) (j : Nat), m.drop j = l → (0 : UInt8) ∈ l →
    strchrLoop m c j = some (c == 0 || (l.takeWhile (· != 0)).contains c) := by
  intro l
  induction l with
  | nil => intro j _ h; simp at h
  | cons d l ih =>
    intro j hj h0
    obtain ⟨hg, hd, hlt⟩ := get_of_drop hj
    rw [strchrLoop]
    simp only [hg]
    by_cases h1 : d = c
    · subst h1
      by_cases h2 : d = 0 <;> simp [h2]
    · by_cases h2 : d = 0
      · subst h2
        have : ¬ c = 0 := fun e => h1 e.symm
        simp [h1, this]
      · have h0' : (0 : UInt8) ∈ l := by
          rcases List.mem_cons.mp h0 with h | h
          · exact absurd h.symm h2
          · exact h
        simp only [h1, h2, if_false, hlt, if_true]
        rw [ih (j + 1) hd h0']
        have h1' : ¬ c = d := fun e => h1 e.symm
        simp [h2, h1']

theorem strchr_eq (set : Bytes) (c : UInt8) : strchr set c = some (inSet set c) := by
  unfold strchr
  rw [strchrLoop_eq (cz set) c (cz set) 0 (by simp) (zero_mem_cz set), takeWhile_cz]
  rfl

theorem spanLoop_eq (set : Bytes) (want : Bool) (p : Bytes) : ∀ (l : Bytes) (so : Nat), p.drop so = l →
    spanLoop set want p so = some (so + runLen (fun c => inSet set c == want) l) := by
  intro l
  induction l with
  | nil =>
    intro so h
    have : ¬ so < p.length := by
      intro hlt; rw [List.drop_eq_getElem_cons hlt] at h; cases h
    rw [spanLoop]; simp [this, runLen]
  | cons c cs ih =>
    intro so h
    obtain ⟨hg, hd, hlt⟩ := get_of_drop h
    rw [spanLoop]; simp only [hlt, if_true, hg, strchr_eq, runLen]
    by_cases hw : inSet set c = want
    · simp only [hw, if_true, beq_self_eq_true]; rw [ih (so + 1) hd]; congr 1; omega
    · simp [hw]

theorem beq_true_fun (set : Bytes) : (fun c => inSet set c == true) = inSet set := by funext c; simp
theorem beq_false_fun (set : Bytes) : (fun c => inSet set c == false) = (fun c => !inSet set c) := by funext c; simp

theorem tok_nil_iff (q : UInt8 → Bool) (l : Bytes) :
    (l.dropWhile q).takeWhile (fun c => !q c) = [] ↔ runLen q l = l.length := by
  induction l with
  | nil => simp [runLen]
  | cons c cs ih =>
    by_cases hq : q c = true
    · simp only [List.dropWhile_cons, hq, if_true, runLen, List.length_cons]; rw [ih]; omega
    · simp [hq, runLen]

theorem len_split (q : UInt8 → Bool) (l : Bytes) : l.length = (l.takeWhile q).length + (l.dropWhile q).length := by
  rw [← List.length_append, List.takeWhile_append_dropWhile]

/-- **`esl_memspn`** returns the length of the longest prefix of bytes in the set (never faults) -/
theorem memspn_eq (p set : Bytes) : memspn p set = some (p.takeWhile (inSet set)).length := by
  unfold memspn; rw [spanLoop_eq set true p p 0 (by simp), beq_true_fun, runLen_eq_takeWhile]; simp

/-- **`esl_memcspn`** returns the length of the longest prefix of bytes not in the set (never faults) -/
theorem memcspn_eq (p set : Bytes) : memcspn p set = some (p.takeWhile (fun c => !inSet set c)).length := by
  unfold memcspn; rw [spanLoop_eq set false p p 0 (by simp), beq_false_fun, runLen_eq_takeWhile]; simp

/-- **`esl_memtok`** computes the specification `tokSpec` (never faults) -/
theorem memtok_eq (p delim : Bytes) : memtok p delim = some (tokSpec delim p) := by
  unfold memtok
  rw [spanLoop_eq delim true p p 0 (by simp), beq_true_fun, Nat.zero_add]
  simp only []
  rw [spanLoop_eq delim false p _ _ rfl, beq_false_fun]
  simp only []
  rw [spanLoop_eq delim true p _ _ rfl, beq_true_fun]
  simp only []
  unfold tokSpec tokSplit
  simp only []
  rw [← List.drop_drop, drop_runLen (inSet delim) p, drop_runLen (fun c => !inSet delim c)]
  have hnil := tok_nil_iff (inSet delim) p
  have L1 := len_split (inSet delim) p
  have L2 := len_split (fun c => !inSet delim c) (p.dropWhile (inSet delim))
  have L3 := len_split (inSet delim) ((p.dropWhile (inSet delim)).dropWhile (fun c => !inSet delim c))
  simp only [runLen_eq_takeWhile] at hnil ⊢
  by_cases h : (p.takeWhile (inSet delim)).length = p.length
  · rw [if_pos h, if_pos (hnil.mpr h)]
  · rw [if_neg h, if_neg (fun e => h (hnil.mp e))]
    congr 2
    · congr 2; omega
    · omega


/-! ## what the cut means -/

theorem mem_takeWhile_true (q : UInt8 → Bool) (l : Bytes) : ∀ c ∈ l.takeWhile q, q c = true := by
  induction l with
  | nil => intro c h; simp at h
  | cons d ds ih =>
    intro c h
    rw [List.takeWhile_cons] at h
    split at h
    · rcases List.mem_cons.mp h with h | h
      · subst h; assumption
      · exact ih c h
    · simp at h

theorem head_dropWhile_false (q : UInt8 → Bool) (l : Bytes) (c : UInt8) (h : (l.dropWhile q).head? = some c) : q c = false := by
  have := List.head?_dropWhile_not q l
  rw [h] at this; exact this

/-- the four pieces are the input, in order -/
theorem tokSplit_concat (delim p : Bytes) :
    (tokSplit delim p).skipped ++ (tokSplit delim p).tok ++ (tokSplit delim p).trail ++ (tokSplit delim p).rest = p := by
  unfold tokSplit
  simp only [List.append_assoc, List.takeWhile_append_dropWhile]

/-- leading and trailing pieces consist of delimiters, the token of non-delimiters; the token is maximal (what follows it
    starts with a delimiter) and the remainder starts with a non-delimiter -/
theorem tokSplit_classes (delim p : Bytes) :
    (∀ c ∈ (tokSplit delim p).skipped, inSet delim c = true) ∧
    (∀ c ∈ (tokSplit delim p).tok, inSet delim c = false) ∧
    (∀ c ∈ (tokSplit delim p).trail, inSet delim c = true) ∧
    (∀ c, ((tokSplit delim p).trail ++ (tokSplit delim p).rest).head? = some c → inSet delim c = true) ∧
    (∀ c, (tokSplit delim p).rest.head? = some c → inSet delim c = false) := by
  unfold tokSplit
  refine ⟨mem_takeWhile_true _ _, ?_, mem_takeWhile_true _ _, ?_, fun c h => head_dropWhile_false _ _ c h⟩
  · intro c h; simpa using mem_takeWhile_true _ _ c h
  · intro c h
    simp only [List.takeWhile_append_dropWhile] at h
    simpa using head_dropWhile_false _ _ c h

/-- no token (`eslEOL`) iff the whole line consists of delimiters -/
theorem tokSplit_tok_nil_iff (delim p : Bytes) : (tokSplit delim p).tok = [] ↔ ∀ c ∈ p, inSet delim c = true := by
  unfold tokSplit
  simp only []
  rw [tok_nil_iff, runLen_eq_length_iff]

/-- the bytes the token pointer/length and the advanced line pointer denote -/
theorem tokSplit_slices (delim p : Bytes) :
    (p.drop (tokSplit delim p).skipped.length).take (tokSplit delim p).tok.length = (tokSplit delim p).tok ∧
    p.drop ((tokSplit delim p).skipped.length + (tokSplit delim p).tok.length + (tokSplit delim p).trail.length) = (tokSplit delim p).rest := by
  have h := tokSplit_concat delim p
  generalize tokSplit delim p = S at *
  subst h
  constructor
  · simp [List.append_assoc]
  · have : S.skipped.length + S.tok.length + S.trail.length = (S.skipped ++ S.tok ++ S.trail).length := by simp; omega
    rw [this, List.drop_left]

end EaselModel.Buffer.Mem
