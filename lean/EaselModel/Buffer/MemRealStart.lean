import EaselModel.Buffer.MemRealLemmas
/-! `esl_mem_IsReal` after the repair `C05-mem-isreal-garbage.patch` (round 6): after the blanks and one sign the number must START
(`if (! n || ! (isdigit(*p) || (*p == '.' && n > 1 && isdigit(p[1])))) return FALSE;`), the scan loop is unchanged. Selected by the
regenerated constant `MemConsts.isRealStart`, so that the tie follows the working tree. Core Lean only (the driver links this file).

Specification of the repaired function: `isRealSpecL p = isRealSpec p && startsNum (stripSign (p.dropWhile isspaceB))`, and
`startsNum` is exactly "strtod()/atof() converts a non-empty prefix here" for decimal numbers (a digit, or `.` and a digit). -/
namespace EaselModel.Buffer.Mem
open EaselModel.Buffer

/-- the added statement: `some false` = `return FALSE`; `p[1]` is bounds-checked (guarded by `n > 1` in the code) -/
def realStart (p : Bytes) (i : Nat) : Option Bool :=
  if i < p.length then
    match p[i]? with
    | none => none
    | some c =>
      if isdigitB c then some true
      else if c = 46 ∧ i + 1 < p.length then (p[i + 1]?).map isdigitB
      else some false
  else some false

/-- everything after the sign in the code as it was: scan loop, trailing blanks, verdict -/
def realTail (p : Bytes) (i : Nat) : Option Bool :=
  match realLoop p i false false false with
  | none => none
  | some none => some false
  | some (some (i, gr)) =>
    match wsLoop p i with
    | none => none
    | some i => some (i == p.length && gr)

/-- `esl_mem_IsReal` with the start test -/
def memIsRealL (p : Option Bytes) : Option Bool :=
  match p with
  | none => some false
  | some p =>
    if p.length = 0 then some false else
    match wsLoop p 0 with
    | none => none
    | some i =>
      match (if i < p.length then (p[i]?).map (fun c => if c = 45 ∨ c = 43 then i + 1 else i) else some i) with
      | none => none
      | some i =>
        match realStart p i with
        | none => none
        | some false => some false
        | some true => realTail p i

/-- "a decimal number starts here" = `strtod` converts a non-empty prefix: a digit, or `.` followed by a digit -/
def startsNum : Bytes → Bool
  | c :: cs => isdigitB c || (c == 46 && (match cs with | d :: _ => isdigitB d | [] => false))
  | [] => false

/-- what the repaired `esl_mem_IsReal` accepts -/
def isRealSpecL (p : Bytes) : Bool := isRealSpec p && startsNum (stripSign (p.dropWhile isspaceB))

theorem memIsReal_tail (p : Bytes) :
    memIsReal (some p) =
      (if p.length = 0 then some false else
       match wsLoop p 0 with
       | none => none
       | some i =>
         match (if i < p.length then (p[i]?).map (fun c => if c = 45 ∨ c = 43 then i + 1 else i) else some i) with
         | none => none
         | some i => realTail p i) := rfl

theorem realStart_eq (p : Bytes) (i : Nat) : realStart p i = some (startsNum (p.drop i)) := by
  unfold realStart
  by_cases hlt : i < p.length
  · have hg : p[i]? = some p[i] := List.getElem?_eq_getElem hlt
    have hd := drop_of_get hg
    rw [if_pos hlt, hg, hd]
    simp only [startsNum]
    by_cases h1 : isdigitB p[i] = true
    · simp [h1]
    · simp only [h1, Bool.false_eq_true, if_false, Bool.false_or]
      by_cases h2 : p[i] = 46
      · by_cases hlt2 : i + 1 < p.length
        · have hg2 : p[i + 1]? = some p[i + 1] := List.getElem?_eq_getElem hlt2
          rw [if_pos ⟨h2, hlt2⟩, hg2, drop_of_get hg2]
          simp [h2]
        · have hnil : p.drop (i + 1) = [] := drop_nil_of_ge hlt2
          rw [if_neg (by intro h; exact hlt2 h.2), hnil]
          simp
      · rw [if_neg (by intro h; exact h2 h.1)]
        simp [h2]
  · rw [if_neg hlt, drop_nil_of_ge hlt]; rfl

/-- **the repaired `esl_mem_IsReal`** computes `isRealSpecL` (in particular it never faults) -/
theorem memIsRealL_eq (p : Bytes) : memIsRealL (some p) = some (isRealSpecL p) := by
  have hold := memIsReal_eq p
  rw [memIsReal_tail] at hold
  unfold memIsRealL isRealSpecL
  simp only []
  by_cases hp : p.length = 0
  · have : p = [] := List.eq_nil_of_length_eq_zero hp
    subst this; simp [isRealSpec]
  · rw [if_neg hp] at hold ⊢
    rw [wsLoop_eq p p 0 (by simp), Nat.zero_add] at hold ⊢
    simp only [] at hold ⊢
    obtain ⟨i1, h1, _, hdrop⟩ := sign_step_real p (runLen isspaceB p) (runLen_le _ _)
    rw [h1] at hold ⊢
    simp only [] at hold ⊢
    rw [drop_runLen] at hdrop
    rw [realStart_eq, hdrop]
    cases hs : startsNum (stripSign (p.dropWhile isspaceB))
    · simp
    · simp only [hold, Bool.and_true]

theorem memIsRealL_ne_none (p : Option Bytes) : memIsRealL p ≠ none := by
  cases p with
  | none => simp [memIsRealL]
  | some p => rw [memIsRealL_eq]; simp

/-- soundness against the header ("convertible by the rules of atof()"): whatever is accepted has a number right after the
    blanks and the sign -/
theorem memIsRealL_true_starts (p : Bytes) (h : memIsRealL (some p) = some true) :
    startsNum (stripSign (p.dropWhile isspaceB)) = true := by
  rw [memIsRealL_eq] at h
  simp only [Option.some.injEq, isRealSpecL, Bool.and_eq_true] at h
  exact h.2

/-- the repair only removes answers: accepted after ⇒ accepted before -/
theorem memIsRealL_le (p : Bytes) (h : memIsRealL (some p) = some true) : memIsReal (some p) = some true := by
  rw [memIsRealL_eq] at h; rw [memIsReal_eq]
  simp only [Option.some.injEq, isRealSpecL, Bool.and_eq_true] at h
  simp [h.1]

end EaselModel.Buffer.Mem
