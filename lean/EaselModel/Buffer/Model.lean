import EaselModel.Buffer.BufConsts
/-! # C05 — executable model of `esl_buffer.c` (hand-written, kind H)

Mirrors, statement by statement, `buffer_refill`, `buffer_countline`, `buffer_skipsep`, `buffer_newline`,
`buffer_counttok`, `esl_memnewline` (esl_mem.c) and the public operations of `esl_buffer.c`, plus the initial
states produced by the openers. Core Lean only (the driver links this file).

Conventions
* `mem` is the valid part `mem[0..n)` of the C buffer (`n = mem.length`); `balloc` is the allocated size.
* the stream behind `fp` is `src`; `fed` bytes have been consumed by `fread`, `rest = src.drop fed` is what is
  left (kept as a field so that a read costs O(page)); `eof` is the stream's end-of-file flag;
  `fread(k)` returns `min k rest.length` bytes and sets `eof` on a short count.
* `memgen` is bumped whenever bytes that were handed out may have moved: a `memmove` by a non-zero distance, a
  `realloc`, or an overwrite of the window after `fseeko`. Pointer validity = `memgen` unchanged.
* every data-dependent memory access is bounds-checked; a failed check is the outcome `St.fault`.
* loops that call `buffer_refill` take fuel `rest.length + 2` (each further iteration consumes ≥ 1 byte of
  `rest`); running out of fuel is `St.fault` and is proved unreachable.
-/
namespace EaselModel.Buffer

abbrev Bytes := List UInt8

inductive Mode where
  | stream | cmdpipe | file | allfile | mmap | string
  deriving DecidableEq, Repr, Inhabited

/-- Easel status codes that the buffer API can return, plus `fault` (memory-safety precondition violated). -/
inductive St where
  | ok | eof | eol | einval | einconceivable | fault
  deriving DecidableEq, Repr, Inhabited

structure Buf where
  src : Bytes
  rest : Bytes
  fed : Nat
  hasfp : Bool
  eof : Bool
  mem : Bytes
  balloc : Nat
  pos : Nat
  base : Nat
  anchor : Option Nat
  nanchor : Nat
  pagesize : Nat
  mode : Mode
  memgen : Nat
  /-- `bf->stable` (fix C05-stable-anchor-keep-oldmem, round 6): TRUE from a successful `SetStableAnchor` on a stream until the
      last anchor is raised. Ghost state (never read) when `BufConsts.stableRetire = false`, i.e. on a tree without the fix. -/
  stab : Bool
  deriving DecidableEq, Repr, Inhabited

namespace Buf
@[reducible] def n (b : Buf) : Nat := b.mem.length
/-- `esl_buffer_GetOffset` -/
@[reducible] def offset (b : Buf) : Nat := b.base + b.pos
end Buf

def LF : UInt8 := 10
def CR : UInt8 := 13

/-! ## scanning primitives (the inner `for`/`memchr` loops) -/

/-- length of the longest prefix all of whose bytes satisfy `p` -/
def runLen (p : UInt8 → Bool) : Bytes → Nat
  | [] => 0
  | c :: cs => if p c then runLen p cs + 1 else 0

/-- `strchr(sep, c) != NULL` for a C string `sep`: the terminating NUL matches `c = 0`. -/
def isSep (sep : Bytes) (c : UInt8) : Bool := c == 0 || sep.contains c

def notLF (c : UInt8) : Bool := c != LF
/-- byte that continues a token: not in `sep`, not LF -/
def isTok (sep : Bytes) (c : UInt8) : Bool := !isSep sep c && c != LF

/-- `esl_memnewline(m, n, &nline, &nterm)`: `(nline, nterm)` -/
def memnewline (m : Bytes) : Nat × Nat :=
  let i := runLen notLF m                 -- memchr(m, '\n', n)
  if i = m.length then (m.length, 0)
  else if 0 < i ∧ m[i-1]? = some CR then (i - 1, 2)
  else (i, 1)

/-! ## fread and buffer_refill -/

/-- `fread(mem+n, 1, k, fp)` appended to the window -/
def fread (b : Buf) (k : Nat) : Buf :=
  let chunk := b.rest.take k
  { b with mem := b.mem ++ chunk, rest := b.rest.drop k, fed := b.fed + chunk.length,
           eof := b.eof || decide (chunk.length < k) }

/-- the "relocation, shift left" block of `buffer_refill` (also used by `SetStableAnchor`):
    drop `ndel` bytes from the front of the window -/
def dropFront (b : Buf) (ndel : Nat) : Buf :=
  { b with mem := b.mem.drop ndel, pos := b.pos - ndel, base := b.base + ndel,
           memgen := if 0 < ndel ∧ ndel < b.n then b.memgen + 1 else b.memgen }

/-- "Relocation, shift left to conserve memory". Since b86a62d an anchor ahead of the cursor keeps everything from the
    cursor on (`ndel = pos; anchor -= ndel`); before that fix `pos` went negative. The result is always `some` (the
    `Option` is kept for the callers' `match`). -/
def shiftLeft0 (b : Buf) : Option Buf :=
  if b.balloc - b.n < b.pagesize ∧ 0 < b.pos then
    match b.anchor with
    | none => some (dropFront b b.pos)
    | some a => if a ≤ b.pos then some (dropFront { b with anchor := some 0 } a)
                else some (dropFront { b with anchor := some (a - b.pos) } b.pos)
  else some b

/-- the repaired `buffer_refill` is in force and a stable anchor holds: `bf->stable` (the field exists only in the repaired tree;
    `BufConsts.stableRetire` is regenerated from esl_buffer.c/.h of the working tree) -/
def pinned (b : Buf) : Bool := BufConsts.stableRetire && b.stab

/-- `if (bf->balloc - bf->n < bf->pagesize && bf->pos > 0 && ! bf->stable) { … }`: never shift under a stable anchor -/
def shiftLeft (b : Buf) : Option Buf := if pinned b then some b else shiftLeft0 b

/-- `ESL_REALLOC(bf->mem, n + pagesize)` when the next page does not fit -/
def grow0 (b : Buf) : Buf :=
  if b.n + b.pagesize > b.balloc then { b with balloc := b.n + b.pagesize, memgen := b.memgen + 1 } else b

/-- under a stable anchor (repaired code): `newalloc = ESL_MAX(n + pagesize, 2*balloc)`, a NEW block is allocated, the window copied,
    and the old block kept on `bf->retired` until the anchor is gone — no pointer handed out is invalidated, so `memgen` stays.
    (The C condition also asks `bf->mem != NULL`, which holds whenever a stream is open: every paged opener allocates a page.) -/
def growR (b : Buf) : Buf :=
  if b.n + b.pagesize > b.balloc then { b with balloc := max (b.n + b.pagesize) (2 * b.balloc) } else b

def grow (b : Buf) : Buf := if pinned b then growR b else grow0 b

/-- `nread = fread(mem+n, 1, pagesize, fp); n += nread; return (nread == 0 && pos == n) ? eslEOF : eslOK` -/
def load (b : Buf) : St × Buf :=
  let b3 := fread b b.pagesize
  (if min b.pagesize b.rest.length = 0 ∧ b3.pos = b3.n then .eof else .ok, b3)

def refill (b : Buf) (nmin : Nat) : St × Buf :=
  if !b.hasfp || b.eof then (if b.pos < b.n then .ok else .eof, b)
  else if b.n - b.pos ≥ nmin + b.pagesize ∧ b.pos ≤ b.n then (.ok, b)
  else if b.pos > b.n then (.einconceivable, b)
  else
    match shiftLeft b with
    | none => (.fault, b)
    | some b1 => load (grow b1)

/-- `buffer_refill` as it was BEFORE fix 188d0b6 (no `bf->stable`: shift and `ESL_REALLOC` whatever anchor is set); kept for
    the regression theorems `stable_ptr_valid_fails_at` / `refill0_stable_iff` about that variant -/
def refill0 (b : Buf) (nmin : Nat) : St × Buf :=
  if !b.hasfp || b.eof then (if b.pos < b.n then .ok else .eof, b)
  else if b.n - b.pos ≥ nmin + b.pagesize ∧ b.pos ≤ b.n then (.ok, b)
  else if b.pos > b.n then (.einconceivable, b)
  else
    match shiftLeft0 b with
    | none => (.fault, b)
    | some b1 => load (grow0 b1)

/-! ## anchors -/

def setAnchor (b : Buf) (offset : Nat) : St × Buf :=
  if !b.hasfp then (.ok, b)
  else if offset < b.base ∨ offset > b.base + b.n then (.einval, b)
  else
    let r := offset - b.base
    match b.anchor with
    | none => (.ok, { b with anchor := some r, nanchor := 1 })
    | some a =>
      if r < a then (.ok, { b with anchor := some r, nanchor := 1 })
      else if r = a then (.ok, { b with nanchor := b.nanchor + 1 })
      else (.ok, b)

def raiseAnchor (b : Buf) (offset : Nat) : Buf :=
  match b.anchor with
  | none => b
  | some a =>
    if b.base ≤ offset ∧ a = offset - b.base then
      if b.nanchor - 1 = 0 then { b with nanchor := 0, anchor := none, stab := false }
      else { b with nanchor := b.nanchor - 1 }
    else b

def setStableAnchor (b : Buf) (offset : Nat) : St × Buf :=
  if !b.hasfp then (.ok, b)
  else
    match setAnchor b offset with
    | (.ok, b1) =>
      match b1.anchor with
      | none => (.fault, b1)            -- cannot happen: SetAnchor leaves an anchor
      | some a =>
        -- ndel = ESL_MIN(anchor, pos); anchor -= ndel   (b86a62d; before, an anchor ahead of the cursor made pos negative)
        -- `bf->stable = TRUE`
        if a ≤ b1.pos then (.ok, { dropFront { b1 with anchor := some 0 } a with stab := true })
        else (.ok, { dropFront { b1 with anchor := some (a - b1.pos) } b1.pos with stab := true })
    | (st, b1) => (st, b1)

/-! ## lines -/

/-- `if (nc && mem[pos+nc-1] == '\r') nc--;` (bounds-checked) -/
def backUp (b : Buf) (nc : Nat) : Option Nat :=
  if nc = 0 then some nc
  else match b.mem[b.pos + nc - 1]? with
       | none => none
       | some c => some (if c = CR then nc - 1 else nc)

/-- the `do … while` loop of `buffer_countline`; result `(status, b, nc, nterm)` -/
def countlineLoop : Nat → Buf → Nat → St × Buf × Nat × Nat
  | 0, b, nc => (.fault, b, nc, 0)
  | fuel + 1, b, nc =>
    match backUp b nc with
    | none => (.fault, b, nc, 0)
    | some nc1 =>
      if b.pos + nc1 > b.n then (.fault, b, nc1, 0) else
      let (nc2, nterm) := memnewline (b.mem.drop (b.pos + nc1))
      let nc' := nc1 + nc2
      if nterm ≠ 0 then (.ok, b, nc', nterm)
      else
        let (st, b') := refill b nc'
        if st ≠ .ok ∧ st ≠ .eof then (st, b', nc', 0)
        else if b'.n - b'.pos > nc' then countlineLoop fuel b' nc'
        else (st, b', nc', 0)

/-- `buffer_countline`: `(status, b, nc, nskip)` -/
def countline (b : Buf) : St × Buf × Nat × Nat :=
  if b.pos = b.n then (.eof, b, 0, 0)
  else if b.pos > b.n then (.fault, b, 0, 0)
  else
    match countlineLoop (b.rest.length + 2) b 0 with
    | (st, b', nc, nterm) =>
      if st ≠ .ok ∧ st ≠ .eof then (st, b', 0, 0)
      else if st = .eof ∧ nc = 0 ∧ nterm = 0 then (.eof, b', 0, 0)
      else (.ok, b', nc, nc + nterm)

/-- result of an operation: status, bytes returned (through a pointer or a copy), their count,
    index in `mem` of a pointer handed out (for a following `Set`), NUL-terminated flag -/
structure Out where
  st : St
  bytes : Bytes := []
  n : Nat := 0
  p : Option Nat := none
  z : Bool := false
  deriving DecidableEq, Repr, Inhabited

/-- read `k` bytes at `mem+i` (bounds-checked) -/
def slice (b : Buf) (i k : Nat) : Option Bytes :=
  if i + k ≤ b.n then some ((b.mem.drop i).take k) else none

def anchStatus (st : St) : St := if st = .einval then .einconceivable else st

def getLine (b : Buf) : Out × Buf :=
  let anch := b.base + b.pos
  match setAnchor b anch with
  | (.ok, b1) =>
    match countline b1 with
    | (.ok, b2, nc, nskip) =>
      let (st, b3) := refill b2 nskip
      if st ≠ .eof ∧ st ≠ .ok then ({ st := st }, raiseAnchor b3 anch)
      else
        let b4 := raiseAnchor b3 anch
        match slice b4 b4.pos nc with
        | none => ({ st := .fault }, b4)
        | some line =>
          if b4.pos + nskip ≤ b4.n then
            ({ st := .ok, bytes := line, n := nc, p := some b4.pos }, { b4 with pos := b4.pos + nskip })
          else ({ st := .fault }, b4)
    | (st, b2, _, _) => ({ st := st }, raiseAnchor b2 anch)
  | (st, b1) => ({ st := anchStatus st }, b1)

/-- `esl_buffer_FetchLine` / `esl_buffer_FetchLineAsStr` (`asStr` only changes the NUL terminator) -/
def fetchLine (b : Buf) (asStr : Bool) : Out × Buf :=
  let anch := b.base + b.pos
  match setAnchor b anch with
  | (.ok, b1) =>
    match countline b1 with
    | (.ok, b2, nc, nskip) =>
      match slice b2 b2.pos nc with
      | none => ({ st := .fault }, b2)
      | some line =>
        let b3 := { b2 with pos := b2.pos + nskip }
        let b4 := raiseAnchor b3 anch
        let (st, b5) := refill b4 0
        if st ≠ .eof ∧ st ≠ .ok then ({ st := st }, b5)
        else ({ st := .ok, bytes := line, n := nc, z := asStr }, b5)
    | (st, b2, _, _) => ({ st := st }, raiseAnchor b2 anch)
  | (st, b1) => ({ st := anchStatus st }, b1)

/-! ## tokens -/

/-- `buffer_skipsep`: `(status, b)` -/
def skipsepLoop (sep : Bytes) : Nat → Buf → St × Buf
  | 0, b => (.fault, b)
  | fuel + 1, b =>
    if b.pos > b.n then (.fault, b) else
    let k := runLen (isSep sep) (b.mem.drop b.pos)
    let b1 := { b with pos := b.pos + k }
    if b1.pos < b1.n then (.ok, b1)                       -- goto DONE on a non-separator
    else
      let (st, b2) := refill b1 0
      if st ≠ .ok ∧ st ≠ .eof then (st, b2)
      else if b2.n > b2.pos then skipsepLoop sep fuel b2
      else (if b2.pos = b2.n then .eof else .ok, b2)

def skipsep (b : Buf) (sep : Bytes) : St × Buf := skipsepLoop sep (b.rest.length + 2) b

/-- `buffer_newline`: on LF or CRLF step over it and answer `eslEOL`, else `eslOK`; a CR that is the last loaded
    byte first gets one more page loaded behind it; the page guarantee is restored before returning. -/
def newline (b : Buf) : St × Buf :=
  if b.pos > b.n then (.fault, b) else
  if b.n - b.pos = 0 then (.eol, b)
  else
    -- if (nc == 1 && mem[pos] == '\r') { refill(bf, 1); nc = n - pos; }
    let r0 : St × Buf := if b.n - b.pos = 1 ∧ b.mem[b.pos]? = some CR then refill b 1 else (.ok, b)
    if r0.1 ≠ .eof ∧ r0.1 ≠ .ok then r0 else
    let b0 := r0.2
    -- length of the newline at the cursor (0 = none): is_newline = (nl != 0); pos += nl
    let nl : Nat :=
      if b0.n - b0.pos ≥ 1 ∧ b0.mem[b0.pos]? = some LF then 1
      else if b0.n - b0.pos ≥ 2 ∧ b0.mem[b0.pos]? = some CR ∧ b0.mem[b0.pos + 1]? = some LF then 2
      else 0
    let r2 := refill { b0 with pos := b0.pos + nl } 0
    if r2.1 ≠ .eof ∧ r2.1 ≠ .ok then r2 else (if nl ≠ 0 then .eol else .ok, r2.2)

/-- the `do … while` loop of `buffer_counttok`: `(status, b, nc)` -/
def counttokLoop (sep : Bytes) : Nat → Buf → Nat → St × Buf × Nat
  | 0, b, nc => (.fault, b, nc)
  | fuel + 1, b, nc =>
    if b.pos + nc > b.n then (.fault, b, nc) else
    let nc' := nc + runLen (isTok sep) (b.mem.drop (b.pos + nc))
    if nc' < b.n - b.pos then (.ok, b, nc')
    else
      let (st, b1) := refill b nc'
      if st ≠ .ok ∧ st ≠ .eof then (st, b1, 0)
      else if b1.n - b1.pos > nc' then counttokLoop sep fuel b1 nc'
      else (.ok, b1, nc')

def counttok (b : Buf) (sep : Bytes) : St × Buf × Nat :=
  if b.pos ≥ b.n then (.fault, b, 0) else      -- the caller guarantees mem[pos] exists
  match counttokLoop sep (b.rest.length + 2) b 1 with
  | (.ok, b1, nc) =>
    if b1.pos + nc < b1.n ∧ b1.mem[b1.pos + nc]? = some LF ∧ b1.mem[b1.pos + nc - 1]? = some CR
    then (.ok, b1, nc - 1) else (.ok, b1, nc)
  | r => r

def okOrEof (st : St) : Bool := st = .ok || st = .eof

def getToken (b : Buf) (sep : Bytes) : Out × Buf :=
  match skipsep b sep with
  | (.ok, b1) =>
    match newline b1 with
    | (.ok, b2) =>
      let anch := b2.base + b2.pos
      match setAnchor b2 anch with
      | (.ok, b3) =>
        match counttok b3 sep with
        | (.ok, b4, nc) =>
          let b5 := { b4 with pos := b4.pos + nc }
          let (st6, b6) := skipsep b5 sep
          if !okOrEof st6 then ({ st := st6 }, raiseAnchor b6 anch) else
          let (st7, b7) := refill b6 0
          if !okOrEof st7 then ({ st := st7 }, raiseAnchor b7 anch) else
          if anch < b7.base then ({ st := .fault }, b7) else
          match slice b7 (anch - b7.base) nc with
          | none => ({ st := .fault }, b7)
          | some tok => ({ st := .ok, bytes := tok, n := nc, p := some (anch - b7.base) }, raiseAnchor b7 anch)
        | (st, b4, _) => ({ st := st }, raiseAnchor b4 anch)
      | (st, b3) => ({ st := anchStatus st }, b3)
    | (st, b2) => ({ st := st }, b2)
  | (st, b1) => ({ st := st }, b1)

/-- `esl_buffer_FetchToken` / `esl_buffer_FetchTokenAsStr` -/
def fetchToken (b : Buf) (sep : Bytes) (asStr : Bool) : Out × Buf :=
  match skipsep b sep with
  | (.ok, b1) =>
    match newline b1 with
    | (.ok, b2) =>
      let anch := b2.base + b2.pos
      match setAnchor b2 anch with
      | (.ok, b3) =>
        match counttok b3 sep with
        | (.ok, b4, nc) =>
          match slice b4 b4.pos nc with
          | none => ({ st := .fault }, b4)
          | some tok =>
            let b5 := raiseAnchor { b4 with pos := b4.pos + nc } anch
            let (st6, b6) := skipsep b5 sep
            if !okOrEof st6 then ({ st := st6 }, b6) else
            let (st7, b7) := refill b6 0
            if !okOrEof st7 then ({ st := st7 }, b7) else
            ({ st := .ok, bytes := tok, n := nc, z := asStr }, b7)
        | (st, b4, _) => ({ st := st }, raiseAnchor b4 anch)
      | (st, b3) => ({ st := anchStatus st }, b3)
    | (st, b2) => ({ st := st }, b2)
  | (st, b1) => ({ st := st }, b1)

/-! ## binary read, raw access -/

/-- the `while (n - pos < nbytes)` loop of `esl_buffer_Read` -/
def readLoop (nbytes : Nat) : Nat → Buf → St × Buf
  | 0, b => (.fault, b)
  | fuel + 1, b =>
    if b.n - b.pos < nbytes then
      let navail := b.n - b.pos
      let (st, b1) := refill b nbytes
      if st = .eof then (.eof, b1)
      else if st ≠ .ok then (st, b1)
      else if b1.n - b1.pos = navail then (.eof, b1)
      else readLoop nbytes fuel b1
    else (.ok, b)

def read (b : Buf) (nbytes : Nat) : Out × Buf :=
  if b.pos > b.n then ({ st := .fault }, b) else
  match readLoop nbytes (b.rest.length + 2) b with
  | (.ok, b1) =>
    match slice b1 b1.pos nbytes with
    | none => ({ st := .fault }, b1)
    | some bytes =>
      let (st, b2) := refill { b1 with pos := b1.pos + nbytes } 0
      if st ≠ .ok ∧ st ≠ .eof then ({ st := st }, b2)
      else ({ st := .ok, bytes := bytes, n := nbytes }, b2)
  | (st, b1) => ({ st := st }, b1)

def get (b : Buf) : Out × Buf :=
  if b.pos < b.n then ({ st := .ok, bytes := b.mem.drop b.pos, n := b.n - b.pos, p := some b.pos }, b)
  else ({ st := .eof }, b)

/-- `esl_buffer_Set(bf, p, nused)`; `p = none` is the NULL pointer -/
def set (b : Buf) (p : Option Nat) (nused : Nat) : Out × Buf :=
  let b1 := match p with
    | some i => { b with pos := i + nused }
    | none => b
  let (st, b2) := refill b1 0
  ({ st := if okOrEof st then .ok else st }, b2)

/-! ## repositioning -/

/-- fast-forward loop of `esl_buffer_SetOffset` -/
def ffwdLoop (offset : Nat) : Nat → Buf → St × Buf
  | 0, b => (.fault, b)
  | fuel + 1, b =>
    if offset ≥ b.base + b.n then
      let b1 := { b with pos := b.n }
      let (st, b2) := refill b1 0
      if st = .eof ∧ offset = b2.base + b2.n then (.ok, b2)      -- exactly the end of the stream: legal
      else if st = .eof then (.einval, b2)
      else if st ≠ .ok then (st, b2)
      else ffwdLoop offset fuel b2
    else (.ok, b)

def setOffset (b : Buf) (offset : Nat) : Out × Buf :=
  match b.mode with
  | .allfile | .mmap | .string =>
    -- since 4515997: if (offset < 0 || offset > bf->n) ESL_EXCEPTION(eslEINVAL, ...)
    if offset > b.n then ({ st := .einval }, b) else ({ st := .ok }, { b with base := 0, pos := offset })
  | _ =>
    if b.base ≤ offset ∧ offset < b.base + b.pos then ({ st := .ok }, { b with pos := offset - b.base })
    else if b.mode = .file ∧ b.anchor = none then
      -- fseeko(fp, offset, SEEK_SET); baseoffset = offset; n = 0; pos = 0
      let b1 := { b with rest := b.src.drop offset, fed := offset, eof := false,
                         base := offset, mem := [], pos := 0, memgen := b.memgen + 1 }
      let (st, b2) := refill b1 0
      if st = .eof then ({ st := .einval }, b2)
      else if st ≠ .ok then ({ st := st }, b2)
      else ({ st := .ok }, b2)
    else if offset < b.base then ({ st := .einval }, b)
    else
      match ffwdLoop offset (b.rest.length + 2) b with
      | (.ok, b1) =>
        let b2 := { b1 with pos := offset - b1.base }
        let (st, b3) := refill b2 0
        if st ≠ .eof ∧ st ≠ .ok then ({ st := st }, b3) else ({ st := .ok }, b3)
      | (st, b1) => ({ st := st }, b1)

/-! ## openers -/

def mkBuf (src : Bytes) (ps : Nat) (mode : Mode) : Buf :=
  { src := src, rest := src, fed := 0, hasfp := true, eof := false, mem := [], balloc := 0, pos := 0, base := 0,
    anchor := none, nanchor := 0, pagesize := ps, mode := mode, memgen := 0, stab := false }

/-- whole input in memory (`OpenMem`, slurped file, mmap) -/
def openWhole (src : Bytes) (ps : Nat) (mode : Mode) (balloc : Nat) : Buf :=
  { mkBuf src ps mode with rest := [], fed := src.length, hasfp := false, mem := src, balloc := balloc }

/-- first page read (`OpenStream`, `buffer_init_file_basic`, `OpenPipe`) -/
def openPaged (src : Bytes) (ps : Nat) (mode : Mode) : Buf :=
  fread { mkBuf src ps mode with balloc := ps } ps

def openBuf (mode : Mode) (ps : Nat) (src : Bytes) : Buf :=
  match mode with
  | .string => openWhole src ps .string 0
  | .mmap => openWhole src ps .mmap 0
  | .allfile => openWhole src ps .allfile src.length
  | .stream => openPaged src ps .stream
  | .file => openPaged src ps .file
  | .cmdpipe =>
    let b := openPaged src ps .cmdpipe
    -- short first read: pclose, fp = NULL, balloc = 0, mode ALLFILE
    if b.n < ps then { b with hasfp := false, balloc := 0, mode := .allfile } else b

/-! ## sessions and operation histories -/

inductive Op where
  | getLine | fetchLine | fetchLineStr
  | getToken (sep : Bytes) | fetchToken (sep : Bytes) | fetchTokenStr (sep : Bytes)
  | read (k : Nat) | get | set (nused : Nat) | getOffset
  | setOffset (o : Nat) | setAnchor (o : Nat) | setStableAnchor (o : Nat) | raiseAnchor (o : Nat)
  deriving DecidableEq, Repr

/-- buffer plus what the caller holds: the pointer returned by the last `Get*` call (usable by the next `Set`),
    and the value of `memgen` when the active stable anchor was set -/
structure Sess where
  b : Buf
  lastp : Option Nat := none
  stable : Option Nat := none
  deriving Repr

/-- the buffer-level effect of one operation -/
def opRun (b : Buf) (lastp : Option Nat) (op : Op) : Out × Buf :=
  match op with
  | .getLine => getLine b
  | .fetchLine => fetchLine b false
  | .fetchLineStr => fetchLine b true
  | .getToken sep => getToken b sep
  | .fetchToken sep => fetchToken b sep false
  | .fetchTokenStr sep => fetchToken b sep true
  | .read k => read b k
  | .get => get b
  | .set k => set b lastp k
  | .getOffset => ({ st := .ok }, b)
  | .setOffset o => setOffset b o
  | .setAnchor o => ({ st := (setAnchor b o).1 }, (setAnchor b o).2)
  | .setStableAnchor o => ({ st := (setStableAnchor b o).1 }, (setStableAnchor b o).2)
  | .raiseAnchor o => ({ st := .ok }, raiseAnchor b o)

def Sess.step (s : Sess) (op : Op) : Out × Sess :=
  let r := opRun s.b s.lastp op
  let o := r.1
  let b' := r.2
  let stable' : Option Nat :=
    match op with
    | .setStableAnchor _ => if o.st = .ok ∧ b'.hasfp then (match s.stable with | none => some b'.memgen | some g => some g) else s.stable
    | _ => s.stable
  let stable'' := if b'.anchor = none then none else stable'
  (o, { b := b', lastp := o.p, stable := stable'' })

/-- has the window moved since the active stable anchor was set? -/
def Sess.moved (s : Sess) : Bool :=
  match s.stable with
  | some g => g != s.b.memgen
  | none => false

def run : Sess → List Op → List (Out × Nat)
  | _, [] => []
  | s, op :: ops => let (o, s') := s.step op; (o, s'.b.offset) :: run s' ops

end EaselModel.Buffer
