import EaselModel.Buffer.TotalHist
import EaselModel.Buffer.MemSpecStep
import EaselModel.Buffer.Quiet
/-! # The whole-input modes, exactly, for EVERY history

In the modes that hold the whole input (`OpenMem` string, slurped file, mmap, short pipe: `fp == NULL`) nothing depends on
what happens to be loaded, so the outcome of every call with every argument is a function of "bytes + cursor" alone:
`memStep`. Anchors are documented no-ops, `SetOffset` goes anywhere up to the end of the input and answers `eslEINVAL`
beyond it (4515997). Here the relation `Total` of `history_total` collapses to an equation, without any API contract. -/
namespace EaselModel.Buffer

/-- simulation relation of the whole-input modes: `R`, no stream, no anchor record -/
structure RM (P : Nat) (a : AState) (s : Sess) : Prop where
  r : R P a s
  nofp : s.b.hasfp = false
  noanch : a.anchor = none

theorem nofp_step (s : Sess) (op : Op) (hf : s.b.hasfp = false) (hm : s.b.mode ≠ .file) : (s.step op).2.b.hasfp = false := by
  rw [step_b]
  by_cases hst : ∃ o, op = .setStableAnchor o
  · obtain ⟨o, rfl⟩ := hst
    show (setStableAnchor s.b o).2.hasfp = false
    unfold setStableAnchor; simp [hf]
  · have key := quiet_step_q s.b s.lastp op (Or.inl hf) (fun o ho => hst ⟨o, ho⟩) (fun o _ hh => hm hh.1)
    rw [key.fp]; exact hf

theorem specStep_anchor_none (a : AState) (op : Op) (h : a.anchor = none)
    (hop : ∀ o, op ≠ .setAnchor o ∧ op ≠ .setStableAnchor o) : (specStep a op).2.anchor = none := by
  have hb : ∀ t, aBrk a t = a := fun t => aBrk_of_le a t (fun A hA => by rw [h] at hA; cases hA)
  cases op with
  | getLine => show (aBrk a a.cur).anchor = none; rw [hb]; exact h
  | fetchLine => show (aBrk a a.cur).anchor = none; rw [hb]; exact h
  | fetchLineStr => show (aBrk a a.cur).anchor = none; rw [hb]; exact h
  | getToken sep =>
    show (if (specToken a.abs sep).1 = .ok then aBrk a _ else a).anchor = none
    split
    · rw [hb]; exact h
    · exact h
  | fetchToken sep =>
    show (if (specToken a.abs sep).1 = .ok then aBrk a _ else a).anchor = none
    split
    · rw [hb]; exact h
    · exact h
  | fetchTokenStr sep =>
    show (if (specToken a.abs sep).1 = .ok then aBrk a _ else a).anchor = none
    split
    · rw [hb]; exact h
    · exact h
  | read k => exact h
  | get => show (if a.cur < a.src.length then _ else _ : Obs × AState).2.anchor = none; split <;> exact h
  | set k => exact h
  | getOffset => exact h
  | setOffset o => exact h
  | setAnchor o => exact absurd rfl (hop o).1
  | setStableAnchor o => exact absurd rfl (hop o).2
  | raiseAnchor o => show (aRaise a o).anchor = none; rw [aRaise_none a o h]; exact h

theorem R.mem_len {P : Nat} {a : AState} {s : Sess} (r : R P a s) (hf : s.b.hasfp = false) : s.b.n = a.src.length := by
  have hb0 := r.base0 hf
  have hrest := r.wf.hnofp hf
  have := congrArg List.length r.wf.hwin
  rw [hrest, hb0, List.append_nil, List.drop_zero, r.src] at this
  simp only [Buf.n]; omega

/-- **One step in a whole-input mode, any argument**: the observation and the next state are `memStep`'s. -/
theorem mem_step (P : Nat) (op : Op) (a : AState) (s : Sess) (m : RM P a s) (hs : CallerOk s op) :
    obsOf op (s.step op).1 (s.step op).2 = (memStep a op).1 ∧ RM P (memStep a op).2 (s.step op).2 := by
  have r := m.r
  have hf := m.nofp
  have hmm : memMode s.b.mode := r.modefp.mp hf
  have hmode : s.b.mode ≠ .file := by rcases hmm with h | h | h <;> rw [h] <;> intro hh <;> cases hh
  have hfp' := nofp_step s op hf hmode
  -- the operations whose specification is `specStep` and whose contract is empty (or `CallerOk`)
  have viaSim : memStep a op = specStep a op → (∀ o, op ≠ .setAnchor o ∧ op ≠ .setStableAnchor o) →
      (obsOf op (s.step op).1 (s.step op).2 = (specStep a op).1 ∧ R P (specStep a op).2 (s.step op).2) →
      obsOf op (s.step op).1 (s.step op).2 = (memStep a op).1 ∧ RM P (memStep a op).2 (s.step op).2 := by
    intro e hop h
    rw [e]
    exact ⟨h.1, h.2, hfp', specStep_anchor_none a op m.noanch hop⟩
  cases op with
  | getLine => exact viaSim rfl (fun _ => ⟨(fun h => by cases h), (fun h => by cases h)⟩) (sim_getLine P a s r trivial)
  | fetchLine => exact viaSim rfl (fun _ => ⟨(fun h => by cases h), (fun h => by cases h)⟩) (sim_fetchLine P a s r trivial)
  | fetchLineStr => exact viaSim rfl (fun _ => ⟨(fun h => by cases h), (fun h => by cases h)⟩) (sim_fetchLineStr P a s r trivial)
  | getToken sep => exact viaSim rfl (fun _ => ⟨(fun h => by cases h), (fun h => by cases h)⟩) (sim_getToken P sep a s r trivial)
  | fetchToken sep => exact viaSim rfl (fun _ => ⟨(fun h => by cases h), (fun h => by cases h)⟩) (sim_fetchToken P sep a s r trivial)
  | fetchTokenStr sep => exact viaSim rfl (fun _ => ⟨(fun h => by cases h), (fun h => by cases h)⟩) (sim_fetchTokenStr P sep a s r trivial)
  | read k => exact viaSim rfl (fun _ => ⟨(fun h => by cases h), (fun h => by cases h)⟩) (sim_read P k a s r trivial)
  | get => exact viaSim rfl (fun _ => ⟨(fun h => by cases h), (fun h => by cases h)⟩) (sim_get P a s r trivial)
  | getOffset => exact viaSim rfl (fun _ => ⟨(fun h => by cases h), (fun h => by cases h)⟩) (sim_getOffset P a s r trivial)
  | set k => exact viaSim rfl (fun _ => ⟨(fun h => by cases h), (fun h => by cases h)⟩) (sim_set_callerOk P k a s r hs)
  | raiseAnchor o =>
    have h := sim_raiseAnchor P o a s r trivial
    have e : specStep a (.raiseAnchor o) = (⟨.ok, [], a.cur⟩, { a with lastp := none }) := by
      show ((⟨.ok, [], a.cur⟩ : Obs), ({ aRaise a o with lastp := none } : AState)) = _
      rw [aRaise_none a o m.noanch]
    rw [e] at h
    exact ⟨h.1, h.2, hfp', m.noanch⟩
  | setAnchor o =>
    have e : setAnchor s.b o = (.ok, s.b) := setAnchor_nofp s.b o hf
    refine ⟨?_, r.unchanged (by show (setAnchor s.b o).2 = s.b; rw [e]) rfl, hfp', m.noanch⟩
    show (⟨(setAnchor s.b o).1, [], (setAnchor s.b o).2.base + (setAnchor s.b o).2.pos⟩ : Obs) = ⟨.ok, [], a.cur⟩
    rw [e, r.cur]
  | setStableAnchor o =>
    have e : setStableAnchor s.b o = (.ok, s.b) := by unfold setStableAnchor; simp [hf]
    refine ⟨?_, r.unchanged (by show (setStableAnchor s.b o).2 = s.b; rw [e]) rfl, hfp', m.noanch⟩
    show (⟨(setStableAnchor s.b o).1, [], (setStableAnchor s.b o).2.base + (setStableAnchor s.b o).2.pos⟩ : Obs) = ⟨.ok, [], a.cur⟩
    rw [e, r.cur]
  | setOffset o =>
    have hn := r.mem_len hf
    have hb0 := r.base0 hf
    have hrest := r.wf.hnofp hf
    have hnone := r.nfa hf
    have hlp : (s.step (.setOffset o)).2.lastp = none := by
      rw [step_lastp]; show (setOffset s.b o).1.p = none; exact setOffset_p _ _
    have hobs : ∀ st b', setOffset s.b o = (({ st := st } : Out), b') →
        obsOf (.setOffset o) (s.step (.setOffset o)).1 (s.step (.setOffset o)).2 = ⟨st, [], b'.base + b'.pos⟩ := by
      intro st b' e
      have hb : (s.step (.setOffset o)).2.b = b' := by rw [step_b]; show (setOffset s.b o).2 = _; rw [e]
      have ho : (s.step (.setOffset o)).1 = ({ st := st } : Out) := by rw [step_out]; show (setOffset s.b o).1 = _; rw [e]
      unfold obsOf
      rw [if_neg (by intro hh; cases hh), ho, hb]
    by_cases hgt : a.src.length < o
    · have e := setOffset_mem_beyond s.b o hmm (by omega)
      have hb : (s.step (.setOffset o)).2.b = s.b := by rw [step_b]; show (setOffset s.b o).2 = _; rw [e]
      have em : memStep a (.setOffset o) = (⟨.einval, [], a.cur⟩, { a with lastp := none }) := by
        show (if a.src.length < o then _ else _) = _; rw [if_pos hgt]
      rw [em]
      refine ⟨?_, r.unchanged hb hlp, hfp', m.noanch⟩
      rw [hobs _ _ e, r.cur]
    · have e := setOffset_mem s.b o hmm (by omega)
      have hb : (s.step (.setOffset o)).2.b = { s.b with base := 0, pos := o } := by
        rw [step_b]; show (setOffset s.b o).2 = _; rw [e]
      have em : memStep a (.setOffset o) = (⟨.ok, [], o⟩, { a with cur := o, lastp := none }) := by
        show (if a.src.length < o then _ else _) = _; rw [if_neg hgt]
      rw [em]
      have hw : WF { s.b with base := 0, pos := o } := by
        refine ⟨?_, by show o ≤ s.b.n; omega, ?_, r.wf.hps, r.wf.heof, r.wf.hnofp⟩
        · show s.b.src.drop 0 = s.b.mem ++ s.b.rest
          rw [← hb0]; exact r.wf.hwin
        · intro x hx
          have : s.b.anchor = some x := hx
          rw [hnone] at this; cases this
      refine ⟨?_, ?_, hfp', m.noanch⟩
      · rw [hobs _ _ e]; show (⟨St.ok, [], 0 + o⟩ : Obs) = _; rw [Nat.zero_add]
      · refine ⟨by rw [hb]; exact hw, by rw [hb]; exact Or.inr hrest, ?_, ?_, by rw [hb]; exact r.src, by rw [hb]; show 0 + o = o; omega,
          by rw [hb]; exact r.ps, by rw [hb]; exact r.modefp, by rw [hb]; intro _; rfl, ?_,
          (fun A hA => by have h2 : a.anchor = some A := hA; rw [m.noanch] at h2; cases h2), by rw [hlp]; rfl,
          (fun p hp' => by cases hp')⟩
        · rw [hb]; intro x hx
          have : s.b.anchor = some x := hx
          rw [hnone] at this; cases this
        · rw [hb]; intro _; exact hnone
        · rw [hb]; intro hh
          have : s.b.hasfp = true := hh
          rw [hf] at this; cases this

theorem mem_run (P : Nat) (ops : List Op) : ∀ (a : AState) (s : Sess), RM P a s → CallerOkRun s ops → obsRun s ops = memRun a ops := by
  induction ops with
  | nil => intro _ _ _ _; rfl
  | cons op ops ih =>
    intro a s m hs
    obtain ⟨h1, h2⟩ := mem_step P op a s m hs.1
    show _ :: _ = _ :: _
    rw [h1, ih _ _ h2 hs.2]

/-- the openers that hold the whole input -/
def wholeInput (mode : Mode) (ps : Nat) (src : Bytes) : Prop :=
  mode = .string ∨ mode = .mmap ∨ mode = .allfile ∨ (mode = .cmdpipe ∧ src.length < ps)

theorem open_nofp (mode : Mode) (ps : Nat) (src : Bytes) (h : wholeInput mode ps src) : (openBuf mode ps src).hasfp = false := by
  rcases h with h | h | h | ⟨h, hl⟩
  · rw [h]; rfl
  · rw [h]; rfl
  · rw [h]; rfl
  · rw [h]
    unfold openBuf
    dsimp only
    have : (openPaged src ps .cmdpipe).n < ps := by
      show (([] : Bytes) ++ src.take ps).length < ps
      simp only [List.nil_append, List.length_take]; omega
    rw [if_pos this]

/-- **Whole-input modes, every history, no API contract**: the observations are `memRun`'s — a function of the input bytes
    and the history alone. -/
theorem history_memory_exact (mode : Mode) (ps : Nat) (src : Bytes) (hps : 0 < ps) (hm : wholeInput mode ps src) (ops : List Op)
    (hs : CallerOkRun { b := openBuf mode ps src } ops) :
    obsRun { b := openBuf mode ps src } ops = memRun (AState.init src) ops :=
  mem_run ps ops _ _ ⟨open_R mode ps src hps ps (Nat.le_refl _), open_nofp mode ps src hm, rfl⟩ hs

end EaselModel.Buffer
