import EaselModel.Buffer.MemSpec
import EaselModel.Buffer.ListLemmas
/-! Lemmas tying the loops of `Mem.lean` (integer parsers) to the specification `MemSpec.lean`. Core Lean only. -/
namespace EaselModel.Buffer.Mem
open EaselModel.Buffer

/-! ## index ↔ list -/

theorem drop_of_get {p : Bytes} {i : Nat} {c : UInt8} (h : p[i]? = some c) : p.drop i = c :: p.drop (i + 1) := by
  obtain ⟨hlt, rfl⟩ := List.getElem?_eq_some_iff.mp h
  exact List.drop_eq_getElem_cons hlt

theorem get_of_drop {p : Bytes} {i : Nat} {c : UInt8} {cs : Bytes} (h : p.drop i = c :: cs) :
    p[i]? = some c ∧ p.drop (i + 1) = cs ∧ i < p.length := by
  have hlt : i < p.length := by
    apply Classical.byContradiction; intro hn
    rw [List.drop_of_length_le (by omega)] at h; cases h
  rw [List.drop_eq_getElem_cons hlt] at h
  injection h with h1 h2
  exact ⟨by rw [List.getElem?_eq_getElem hlt, h1], h2, hlt⟩

theorem drop_nil_of_ge {p : Bytes} {i : Nat} (h : ¬ i < p.length) : p.drop i = [] :=
  List.drop_of_length_le (by omega)

/-! ## arithmetic of the overflow guards -/

theorem pos_guard (hi d base cv : Int) (hb : 2 ≤ base) (hd : d ≤ hi) :
    cv > (hi - d).tdiv base ↔ cv * base + d > hi := by
  have hx : 0 ≤ hi - d := by omega
  rw [Int.tdiv_eq_ediv_of_nonneg hx]
  have h := Int.le_ediv_iff_mul_le (a := cv) (b := hi - d) (c := base) (by omega)
  constructor
  · intro h1
    have : ¬ cv * base ≤ hi - d := fun h2 => by have := h.mpr h2; omega
    omega
  · intro h1
    have : ¬ cv ≤ (hi - d) / base := fun h2 => by have := h.mp h2; omega
    omega

theorem neg_guard (lo d base cv : Int) (hb : 2 ≤ base) (hd : lo + d ≤ 0) :
    cv < (lo + d).tdiv base ↔ cv * base - d < lo := by
  have e : lo + d = -(-(lo + d)) := by omega
  rw [e, Int.neg_tdiv, Int.tdiv_eq_ediv_of_nonneg (by omega)]
  have h := Int.ediv_lt_iff_lt_mul (a := -(lo + d)) (b := -cv) (c := base) (by omega)
  have hm : -cv * base = -(cv * base) := Int.neg_mul cv base
  constructor
  · intro h1
    have := h.mp (by omega)
    omega
  · intro h1
    have := h.mpr (by omega)
    omega

theorem digitOf_range {c : UInt8} {d : Int} (h : digitOf c = some d) : 0 ≤ d ∧ d ≤ 35 := by
  unfold digitOf isdigitB isupperB islowerB at h
  split at h
  · rename_i h1; simp at h1; injection h with h; omega
  · split at h
    · rename_i h1; simp at h1; injection h with h; omega
    · split at h
      · rename_i h1; simp at h1; injection h with h; omega
      · cases h

/-! ## the loops in list form -/

theorem wsLoop_eq (p : Bytes) : ∀ (l : Bytes) (i : Nat), p.drop i = l → wsLoop p i = some (i + runLen isspaceB l) := by
  intro l
  induction l with
  | nil =>
    intro i h
    have : ¬ i < p.length := by
      intro hlt; rw [List.drop_eq_getElem_cons hlt] at h; cases h
    rw [wsLoop]; simp [this, runLen]
  | cons c cs ih =>
    intro i h
    obtain ⟨hg, hd, hlt⟩ := get_of_drop h
    rw [wsLoop]; simp only [hlt, if_true, hg, runLen]
    split
    · rw [ih (i + 1) hd]; congr 1; omega
    · rfl

theorem signStep_eq (p : Bytes) (i : Nat) :
    signStep p i = some (if (p.drop i).head? == some 45 then (-1, i + 1) else (1, i)) := by
  unfold signStep
  by_cases hlt : i < p.length
  · have hg : p[i]? = some p[i] := List.getElem?_eq_getElem hlt
    simp only [hlt, if_true, hg, drop_of_get hg, List.head?_cons]
    by_cases hc : p[i] = 45 <;> simp [hc]
  · simp [hlt, drop_nil_of_ge hlt]

theorem getElem?_of_drop (p : Bytes) (i j : Nat) : p[i + j]? = (p.drop i)[j]? := by
  rw [List.getElem?_drop]

theorem hexPfx_eq (p : Bytes) (base : Int) (i : Nat) (hi : i ≤ p.length) :
    hexPfx p base i = some (decide ((base = 0 ∨ base = 16) ∧ (p.drop i).take 2 = [48, 120])) := by
  unfold hexPfx
  have h0 : p[i]? = (p.drop i)[0]? := getElem?_of_drop p i 0
  have h1 : p[i + 1]? = (p.drop i)[1]? := getElem?_of_drop p i 1
  have hl : (p.length : Int) = i + ((p.drop i).length : Int) := by
    have := List.length_drop (i := i) (l := p); omega
  rw [h0, h1, hl]
  generalize p.drop i = l
  by_cases hb : base = 0 ∨ base = 16
  · match l with
    | [] => simp [hb]; omega
    | [x] => simp [hb]
    | x :: y :: r =>
      have : (i : Int) < ↑i + ↑(x :: y :: r).length - 1 := by simp; omega
      simp only [hb, this, and_self, if_true, true_and]
      by_cases hx : x = 48 <;> by_cases hy : y = 120 <;> simp [hx, hy]
  · simp [hb]

theorem octPfx_eq (p : Bytes) (base : Int) (i : Nat) :
    octPfx p base i = some (decide (base = 0 ∧ (p.drop i).head? = some 48)) := by
  unfold octPfx
  by_cases hlt : i < p.length
  · have hg : p[i]? = some p[i] := List.getElem?_eq_getElem hlt
    by_cases hb : base = 0
    · simp only [hb, hlt, and_self, if_true, hg, drop_of_get hg, List.head?_cons, true_and]
      by_cases hc : p[i] = 48 <;> simp [hc]
    · simp [hb]
  · simp [hlt, drop_nil_of_ge hlt]

/-! ## the digit loop -/

theorem digLoop_nil {lo hi : Int} {p : Bytes} {base sign : Int} {i nd : Nat} {cv : Int} (h : ¬ i < p.length) :
    digLoop lo hi p base sign i nd cv = some (fin i nd cv) := by
  rw [digLoop]; simp [h]

theorem ck_of_fits {lo hi v : Int} (h1 : lo ≤ v) (h2 : v ≤ hi) : ck lo hi v = some v := by
  unfold ck; simp [h1, h2]

theorem digLoop_break1 {lo hi : Int} {p : Bytes} {base sign : Int} {i nd : Nat} {cv : Int} {c : UInt8}
    (hg : p[i]? = some c) (hd : digitOf c = none) : digLoop lo hi p base sign i nd cv = some (fin i nd cv) := by
  obtain ⟨hlt, hc⟩ := List.getElem?_eq_some_iff.mp hg
  subst hc
  rw [digLoop]; simp [hlt, hd]

theorem digLoop_break2 {lo hi : Int} {p : Bytes} {base sign : Int} {i nd : Nat} {cv : Int} {c : UInt8} {d : Int}
    (hg : p[i]? = some c) (hd : digitOf c = some d) (hdb : ¬ d < base) :
    digLoop lo hi p base sign i nd cv = some (fin i nd cv) := by
  obtain ⟨hlt, hc⟩ := List.getElem?_eq_some_iff.mp hg
  subst hc
  have : d ≥ base := by omega
  rw [digLoop]; simp [hlt, hd, this]

theorem digLoop_pos {lo hi : Int} (hlo : lo ≤ 0) (hhi : 35 ≤ hi) {p : Bytes} {base : Int} (hb : 2 ≤ base) {i nd : Nat} {a : Int}
    {c : UInt8} {d : Int} (hg : p[i]? = some c) (hd : digitOf c = some d) (hdb : d < base) (ha : 0 ≤ a) (hah : a ≤ hi) :
    digLoop lo hi p base 1 i nd a =
      if a * base + d > hi then some ⟨.erange, some (i + 1), some hi⟩
      else digLoop lo hi p base 1 (i + 1) (nd + 1) (a * base + d) := by
  obtain ⟨hlt, hc⟩ := List.getElem?_eq_some_iff.mp hg
  subst hc
  have hg' : p[i]? = some p[i] := hg
  have hr := digitOf_range hd
  have h1 : ¬ d ≥ base := by omega
  have hc1 : ck lo hi (hi - d) = some (hi - d) := ck_of_fits (by omega) (by omega)
  have hab : 0 ≤ a * base := Int.mul_nonneg ha (by omega)
  rw [digLoop]
  simp only [hlt, if_true, hg', hd, h1, if_false, hc1, pos_guard hi d base a hb (by omega)]
  by_cases hgd : a * base + d > hi
  · simp [hgd]
  · have hc2 : ck lo hi (a * base) = some (a * base) := ck_of_fits (by omega) (by omega)
    have hc3 : ck lo hi (a * base + d) = some (a * base + d) := ck_of_fits (by omega) (by omega)
    simp [hgd, hc2, hc3]

theorem digLoop_neg {lo hi : Int} (hlo : lo ≤ -36) (hhi : 0 ≤ hi) {p : Bytes} {base : Int} (hb : 2 ≤ base) {i nd : Nat} {a : Int}
    {c : UInt8} {d : Int} (hg : p[i]? = some c) (hd : digitOf c = some d) (hdb : d < base) (ha : 0 ≤ a) (hal : lo ≤ -a) :
    digLoop lo hi p base (-1) i nd (-a) =
      if -(a * base + d) < lo then some ⟨.erange, some (i + 1), some lo⟩
      else digLoop lo hi p base (-1) (i + 1) (nd + 1) (-(a * base + d)) := by
  obtain ⟨hlt, hc⟩ := List.getElem?_eq_some_iff.mp hg
  subst hc
  have hg' : p[i]? = some p[i] := hg
  have hr := digitOf_range hd
  have h1 : ¬ d ≥ base := by omega
  have h2 : ¬ ((-1 : Int) = 1) := by omega
  have hc1 : ck lo hi (lo + d) = some (lo + d) := ck_of_fits (by omega) (by omega)
  have hab : 0 ≤ a * base := Int.mul_nonneg ha (by omega)
  have hm : -a * base = -(a * base) := Int.neg_mul a base
  rw [digLoop]
  simp only [hlt, if_true, hg', hd, h1, h2, if_false, hc1, neg_guard lo d base (-a) hb (by omega), hm]
  have e : -(a * base) - d = -(a * base + d) := by omega
  rw [e]
  by_cases hgd : -(a * base + d) < lo
  · simp [hgd]
  · have hc2 : ck lo hi (-(a * base)) = some (-(a * base)) := ck_of_fits (by omega) (by omega)
    have hc3 : ck lo hi (-(a * base + d)) = some (-(a * base + d)) := ck_of_fits (by omega) (by omega)
    simp only [hgd, if_false, hc2, e, hc3]

/-- the digit loop computes the specification: the value of the digit run, or the first digit at which it leaves the range -/
theorem digLoop_spec {lo hi : Int} (hlo : lo ≤ -36) (hhi : 35 ≤ hi) (p : Bytes) {base : Int} (hb : 2 ≤ base) (neg : Bool) :
    ∀ (l : Bytes) (i nd : Nat) (a : Int), p.drop i = l → 0 ≤ a → Fits lo hi (sval neg a) →
      digLoop lo hi p base (if neg then -1 else 1) i nd (sval neg a) =
        some (match firstBad lo hi neg base a (digitsOf base l) with
          | none => fin (i + (digitsOf base l).length) (nd + (digitsOf base l).length) (sval neg (valFrom base a (digitsOf base l)))
          | some k => ⟨.erange, some (i + k), some (if neg then lo else hi)⟩) := by
  intro l
  induction l with
  | nil =>
    intro i nd a h _ _
    have : ¬ i < p.length := by
      intro hlt; rw [List.drop_eq_getElem_cons hlt] at h; cases h
    rw [digLoop_nil this]; simp [digitsOf, firstBad, valFrom]
  | cons c cs ih =>
    intro i nd a h ha hf
    obtain ⟨hg, hdrop, hlt⟩ := get_of_drop h
    cases hd : digitOf c with
    | none => rw [digLoop_break1 hg hd]; simp [digitsOf, hd, firstBad, valFrom]
    | some d =>
      by_cases hdb : d < base
      · have hr := digitOf_range hd
        have hab : 0 ≤ a * base := Int.mul_nonneg ha (by omega)
        have hds : digitsOf base (c :: cs) = d :: digitsOf base cs := by simp [digitsOf, hd, hdb]
        rw [hds]
        cases neg with
        | false =>
          simp only [sval, Bool.false_eq_true, if_false] at hf ⊢
          rw [digLoop_pos (by omega) hhi hb hg hd hdb ha hf.2]
          by_cases hgd : a * base + d > hi
          · have : ¬ Fits lo hi (a * base + d) := fun h => by have := h.2; omega
            simp [hgd, firstBad, sval, this]
          · have hfit : Fits lo hi (a * base + d) := ⟨by omega, by omega⟩
            have := ih (i + 1) (nd + 1) (a * base + d) hdrop (by omega) (by simpa [sval] using hfit)
            simp only [sval, Bool.false_eq_true, if_false] at this
            rw [if_neg hgd, this]
            simp only [firstBad, sval, Bool.false_eq_true, if_false, hfit, if_true, valFrom, List.foldl_cons, List.length_cons]
            cases firstBad lo hi false base (a * base + d) (digitsOf base cs) with
            | none => simp only [Option.map_none]; congr 2 <;> omega
            | some k => simp only [Option.map_some]; congr 3; omega
        | true =>
          simp only [sval, if_true] at hf ⊢
          rw [digLoop_neg hlo (by omega) hb hg hd hdb ha hf.1]
          by_cases hgd : -(a * base + d) < lo
          · have : ¬ Fits lo hi (-(a * base + d)) := fun h => by have := h.1; omega
            simp [hgd, firstBad, sval, this]
          · have hfit : Fits lo hi (-(a * base + d)) := ⟨by omega, by omega⟩
            have := ih (i + 1) (nd + 1) (a * base + d) hdrop (by omega) (by simpa [sval] using hfit)
            simp only [sval, if_true] at this
            rw [if_neg hgd, this]
            simp only [firstBad, sval, if_true, hfit, valFrom, List.foldl_cons, List.length_cons]
            cases firstBad lo hi true base (a * base + d) (digitsOf base cs) with
            | none => simp only [Option.map_none]; congr 2 <;> omega
            | some k => simp only [Option.map_some]; congr 3; omega
      · rw [digLoop_break2 hg hd hdb]; simp [digitsOf, hd, hdb, firstBad, valFrom]

/-! ## the whole function -/

theorem sval_zero (neg : Bool) : sval neg 0 = 0 := by cases neg <;> rfl

theorem firstBad_some_ne_nil {lo hi : Int} {neg : Bool} {base a : Int} {ds : List Int} {k : Nat}
    (h : firstBad lo hi neg base a ds = some k) : ds ≠ [] := by
  intro e; subst e; simp [firstBad] at h

/-- normal exit / range exit of the loop, restated as the documented case distinction -/
theorem finish_eq (lo hi : Int) (neg : Bool) (b : Int) (start z : Nat) (digs : List Int) (bound : Int) :
    (match firstBad lo hi neg b 0 digs with
      | none => fin (start + digs.length) (z + digs.length) (sval neg (valFrom b 0 digs))
      | some k => (⟨.erange, some (start + k), some bound⟩ : IRes)) =
    (if z + digs.length = 0 then ⟨.eformat, some 0, some 0⟩
     else match firstBad lo hi neg b 0 digs with
      | some k => ⟨.erange, some (start + k), some bound⟩
      | none => ⟨.ok, some (start + digs.length), some (sval neg (valFrom b 0 digs))⟩) := by
  cases digs with
  | nil =>
    simp only [firstBad, List.length_nil, Nat.add_zero, valFrom, List.foldl_nil, sval_zero, fin]
    by_cases hz : z = 0 <;> simp [hz]
  | cons d ds =>
    have hne : ¬ (z + (d :: ds).length = 0) := by simp
    rw [if_neg hne]
    cases firstBad lo hi neg b 0 (d :: ds) with
    | none =>
      have : z + (d :: ds).length ≠ 0 := hne
      simp only [fin, this, ne_eq, not_false_eq_true, if_true]
    | some k => rfl

theorem tail_spec {lo hi : Int} (hlo : lo ≤ -36) (hhi : 35 ≤ hi) (p : Bytes) (base : Int) (hvb : ValidBase base)
    (ws : Nat) (neg : Bool) (i : Nat) (hi' : i = ws + (if neg then 1 else 0)) (hile : i ≤ p.length) :
    (match hexPfx p base i with
      | none => none
      | some true => digLoop lo hi p 16 (if neg then -1 else 1) (i + 2) 0 0
      | some false =>
        match octPfx p base i with
        | none => none
        | some true => digLoop lo hi p 8 (if neg then -1 else 1) (i + 1) 1 0
        | some false =>
          if base = 0 then digLoop lo hi p 10 (if neg then -1 else 1) i 0 0
          else digLoop lo hi p base (if neg then -1 else 1) i 0 0) =
    some (let P := parseTail ws neg base (p.drop i)
          if P.ndigits = 0 then ⟨.eformat, some 0, some 0⟩
          else match firstBad lo hi P.neg P.base 0 P.digs with
            | some k => ⟨.erange, some (P.start + k), some (if P.neg then lo else hi)⟩
            | none => ⟨.ok, some (P.start + P.digs.length), some P.value⟩) := by
  have hf0 : Fits lo hi (sval neg 0) := by rw [sval_zero]; exact ⟨by omega, by omega⟩
  have key : ∀ (b : Int) (hb : 2 ≤ b) (j z : Nat),
      digLoop lo hi p b (if neg then -1 else 1) j z 0 =
        some (match firstBad lo hi neg b 0 (digitsOf b (p.drop j)) with
          | none => fin (j + (digitsOf b (p.drop j)).length) (z + (digitsOf b (p.drop j)).length) (sval neg (valFrom b 0 (digitsOf b (p.drop j))))
          | some k => ⟨.erange, some (j + k), some (if neg then lo else hi)⟩) := by
    intro b hb j z
    have := digLoop_spec hlo hhi p hb neg (p.drop j) j z 0 rfl (by omega) hf0
    rw [sval_zero] at this
    exact this
  subst hi'
  rw [hexPfx_eq p base _ hile, octPfx_eq]
  by_cases h1 : (base = 0 ∨ base = 16) ∧ (p.drop (ws + if neg then 1 else 0)).take 2 = [48, 120]
  · have e : parseTail ws neg base (p.drop (ws + if neg then 1 else 0)) =
        ⟨ws, neg, 16, 2, false, digitsOf 16 ((p.drop (ws + if neg then 1 else 0)).drop 2)⟩ := by
      unfold parseTail; rw [if_pos h1]
    rw [e, decide_eq_true h1]
    dsimp only
    rw [key 16 (by omega), List.drop_drop, finish_eq lo hi neg 16 _ 0]
    simp [Parsed.ndigits, Parsed.start, Parsed.value]
  · by_cases h2 : base = 0 ∧ (p.drop (ws + if neg then 1 else 0)).head? = some 48
    · have e : parseTail ws neg base (p.drop (ws + if neg then 1 else 0)) =
          ⟨ws, neg, 8, 1, true, digitsOf 8 ((p.drop (ws + if neg then 1 else 0)).drop 1)⟩ := by
        unfold parseTail; rw [if_neg h1, if_pos h2]
      rw [e, decide_eq_false h1, decide_eq_true h2]
      dsimp only
      rw [key 8 (by omega), List.drop_drop, finish_eq lo hi neg 8 _ 1]
      simp [Parsed.ndigits, Parsed.start, Parsed.value]
    · by_cases h3 : base = 0
      · have e : parseTail ws neg base (p.drop (ws + if neg then 1 else 0)) =
            ⟨ws, neg, 10, 0, false, digitsOf 10 (p.drop (ws + if neg then 1 else 0))⟩ := by
          unfold parseTail; rw [if_neg h1, if_neg h2, if_pos h3]
        rw [e, decide_eq_false h1, decide_eq_false h2, if_pos h3]
        dsimp only
        rw [key 10 (by omega), finish_eq lo hi neg 10 _ 0]
        simp [Parsed.ndigits, Parsed.start, Parsed.value]
      · have hb : 2 ≤ base := by unfold ValidBase at hvb; omega
        have e : parseTail ws neg base (p.drop (ws + if neg then 1 else 0)) =
            ⟨ws, neg, base, 0, false, digitsOf base (p.drop (ws + if neg then 1 else 0))⟩ := by
          unfold parseTail; rw [if_neg h1, if_neg h2, if_neg h3]
        rw [e, decide_eq_false h1, decide_eq_false h2, if_neg h3]
        dsimp only
        rw [key base hb, finish_eq lo hi neg base _ 0]
        simp [Parsed.ndigits, Parsed.start, Parsed.value]

theorem sign_split (neg : Bool) (w : Nat) :
    (if neg = true then ((-1 : Int), w + 1) else (1, w)) = ((if neg then -1 else 1), w + (if neg then 1 else 0)) := by
  cases neg <;> rfl

theorem drop_split (neg : Bool) (w : Nat) (p : Bytes) :
    (if neg = true then (p.drop w).drop 1 else p.drop w) = p.drop (w + if neg then 1 else 0) := by
  cases neg <;> simp [List.drop_drop]

/-- **`esl_mem_strtoi*` computes the specification** (for every byte string, every base; in particular it never faults) -/
theorem strtoiO_eq_spec {lo hi : Int} (hlo : lo ≤ -36) (hhi : 35 ≤ hi) (p : Bytes) (base : Int) :
    strtoiO lo hi p base = some (specRes lo hi p base) := by
  unfold strtoiO specRes
  by_cases hv : base < 0 ∨ base = 1 ∨ base > 36
  · have : ¬ ValidBase base := by unfold ValidBase; omega
    simp [hv, this]
  · have hvb : ValidBase base := by unfold ValidBase; omega
    rw [if_neg hv, if_neg (by simpa using hvb), wsLoop_eq p p 0 (by simp), Nat.zero_add]
    simp only []
    rw [signStep_eq]
    unfold parse
    simp only []
    have hws := runLen_le isspaceB p
    have hile : runLen isspaceB p + (if ((p.drop (runLen isspaceB p)).head? == some 45) = true then 1 else 0) ≤ p.length := by
      cases hneg : ((p.drop (runLen isspaceB p)).head? == some 45)
      · simpa using hws
      · have : runLen isspaceB p < p.length := by
          apply Classical.byContradiction; intro hn
          rw [List.drop_of_length_le (by omega)] at hneg; simp at hneg
        simp; omega
    simp only [sign_split, drop_split]
    exact tail_spec hlo hhi p base hvb (runLen isspaceB p) _ _ rfl hile

theorem strtoi_eq_spec {lo hi : Int} (hlo : lo ≤ -36) (hhi : 35 ≤ hi) (p : Bytes) (base : Int) :
    strtoi lo hi p base = specRes lo hi p base := by
  unfold strtoi; rw [strtoiO_eq_spec hlo hhi]; rfl

/-! ## what `firstBad` means: the running value is monotone, so it is about the value itself -/

theorem valFrom_cons (base a d : Int) (ds : List Int) : valFrom base a (d :: ds) = valFrom base (a * base + d) ds := rfl

theorem valFrom_ge {base : Int} (hb : 1 ≤ base) : ∀ (ds : List Int) (a : Int), 0 ≤ a → (∀ d ∈ ds, 0 ≤ d) → a ≤ valFrom base a ds := by
  intro ds
  induction ds with
  | nil => intro a _ _; simp [valFrom]
  | cons d ds ih =>
    intro a ha hd
    have h1 : a * 1 ≤ a * base := Int.mul_le_mul_of_nonneg_left hb ha
    have hd0 : 0 ≤ d := hd d (by simp)
    have := ih (a * base + d) (by omega) (fun x hx => hd x (by simp [hx]))
    rw [valFrom_cons]; omega

theorem digitsOf_nonneg (base : Int) : ∀ (l : Bytes), ∀ d ∈ digitsOf base l, 0 ≤ d := by
  intro l
  induction l with
  | nil => intro d hd; simp [digitsOf] at hd
  | cons c cs ih =>
    intro d hd
    unfold digitsOf at hd
    split at hd
    · rename_i d' hd'
      split at hd
      · rcases List.mem_cons.mp hd with h | h
        · subst h; exact (digitOf_range hd').1
        · exact ih d h
      · simp at hd
    · simp at hd

/-- the running value never leaves the range iff the whole value is in range -/
theorem firstBad_none_iff {lo hi : Int} (hlo : lo ≤ 0) (hhi : 0 ≤ hi) (neg : Bool) {base : Int} (hb : 1 ≤ base) :
    ∀ (ds : List Int) (a : Int), 0 ≤ a → (∀ d ∈ ds, 0 ≤ d) → Fits lo hi (sval neg a) →
      (firstBad lo hi neg base a ds = none ↔ Fits lo hi (sval neg (valFrom base a ds))) := by
  intro ds
  induction ds with
  | nil => intro a _ _ hf; simp [firstBad, valFrom, hf]
  | cons d ds ih =>
    intro a ha hd hf
    have hd0 : 0 ≤ d := hd d (by simp)
    have hab : 0 ≤ a * base := Int.mul_nonneg ha (by omega)
    have hds : ∀ x ∈ ds, 0 ≤ x := fun x hx => hd x (by simp [hx])
    rw [valFrom_cons]
    unfold firstBad
    by_cases hf' : Fits lo hi (sval neg (a * base + d))
    · rw [if_pos hf', Option.map_eq_none_iff]
      exact ih (a * base + d) (by omega) hds hf'
    · rw [if_neg hf']
      have hge := valFrom_ge hb ds (a * base + d) (by omega) hds
      constructor
      · intro h; cases h
      · intro h; exfalso; apply hf'
        cases neg
        · simp only [sval, Bool.false_eq_true, if_false, Fits] at h ⊢; omega
        · simp only [sval, if_true, Fits] at h ⊢; omega

/-- `firstBad = some k`: `k` is the number of digits after which the running value is out of range for the first time -/
theorem firstBad_some {lo hi : Int} (neg : Bool) (base : Int) :
    ∀ (ds : List Int) (a : Int) (k : Nat), Fits lo hi (sval neg a) → firstBad lo hi neg base a ds = some k →
      1 ≤ k ∧ k ≤ ds.length ∧ ¬ Fits lo hi (sval neg (valFrom base a (ds.take k))) ∧
      ∀ j, j < k → Fits lo hi (sval neg (valFrom base a (ds.take j))) := by
  intro ds
  induction ds with
  | nil => intro a k _ h; simp [firstBad] at h
  | cons d ds ih =>
    intro a k hf h
    unfold firstBad at h
    by_cases hf' : Fits lo hi (sval neg (a * base + d))
    · rw [if_pos hf'] at h
      obtain ⟨k', hk', rfl⟩ := Option.map_eq_some_iff.mp h
      obtain ⟨h1, h2, h3, h4⟩ := ih (a * base + d) k' hf' hk'
      refine ⟨by omega, by simp; omega, ?_, ?_⟩
      · simpa [List.take_succ_cons, valFrom_cons] using h3
      · intro j hj
        cases j with
        | zero => simpa [valFrom] using hf
        | succ j => simpa [List.take_succ_cons, valFrom_cons] using h4 j (by omega)
    · rw [if_neg hf'] at h
      injection h with h; subst h
      refine ⟨by omega, by simp, ?_, ?_⟩
      · simpa [valFrom] using hf'
      · intro j hj
        have : j = 0 := by omega
        subst this; simpa [valFrom] using hf

theorem parseTail_facts (ws : Nat) (neg : Bool) (base : Int) (r2 : Bytes) (hvb : ValidBase base) :
    2 ≤ (parseTail ws neg base r2).base ∧ (parseTail ws neg base r2).base ≤ 36 ∧ (parseTail ws neg base r2).neg = neg ∧
    (parseTail ws neg base r2).ws = ws ∧ ∀ d ∈ (parseTail ws neg base r2).digs, 0 ≤ d := by
  unfold parseTail
  unfold ValidBase at hvb
  split
  · exact ⟨by dsimp only; omega, by dsimp only; omega, rfl, rfl, digitsOf_nonneg _ _⟩
  · split
    · exact ⟨by dsimp only; omega, by dsimp only; omega, rfl, rfl, digitsOf_nonneg _ _⟩
    · split
      · exact ⟨by dsimp only; omega, by dsimp only; omega, rfl, rfl, digitsOf_nonneg _ _⟩
      · exact ⟨by dsimp only; omega, by dsimp only; omega, rfl, rfl, digitsOf_nonneg _ _⟩

/-- **Specification theorem of `esl_mem_strtoi32/64/strtoi`**, for every byte string and every base. -/
theorem strtoi_spec {lo hi : Int} (hlo : lo ≤ -36) (hhi : 35 ≤ hi) (p : Bytes) (base : Int) :
    StrtoiSpec lo hi p base (strtoi lo hi p base) := by
  unfold StrtoiSpec
  rw [strtoi_eq_spec hlo hhi]
  unfold specRes
  by_cases hvb : ValidBase base
  · have hP := parseTail_facts (runLen isspaceB p) ((p.drop (runLen isspaceB p)).head? == some 45) base
      (if ((p.drop (runLen isspaceB p)).head? == some 45) = true then (p.drop (runLen isspaceB p)).drop 1 else p.drop (runLen isspaceB p)) hvb
    change 2 ≤ (parse p base).base ∧ (parse p base).base ≤ 36 ∧ _ ∧ _ ∧ ∀ d ∈ (parse p base).digs, 0 ≤ d at hP
    obtain ⟨hb2, _, _, _, hdn⟩ := hP
    generalize parse p base = P at *
    have hf0 : Fits lo hi (sval P.neg 0) := by rw [sval_zero]; exact ⟨by omega, by omega⟩
    have hiff := firstBad_none_iff (lo := lo) (hi := hi) (by omega) (by omega) P.neg (base := P.base) (by omega) P.digs 0 (by omega) hdn hf0
    simp only [hvb, not_true, if_false, forall_const, false_implies, true_and]
    by_cases hnd : P.ndigits = 0
    · simp [hnd]
    · simp only [hnd, if_false, false_implies, not_false_eq_true, forall_const, ne_eq]
      cases hfb : firstBad lo hi P.neg P.base 0 P.digs with
      | none =>
        have hfit : Fits lo hi P.value := hiff.mp hfb
        simp [hfit]
      | some k =>
        have hnf : ¬ Fits lo hi P.value := fun h => by have := hiff.mpr h; rw [hfb] at this; cases this
        obtain ⟨h1, h2, h3, h4⟩ := firstBad_some P.neg P.base P.digs 0 k hf0 hfb
        simp only [hnf, not_false_eq_true, false_implies, forall_const, true_and, reduceCtorEq]
        exact ⟨k, h1, h2, h3, h4, rfl⟩
  · simp [hvb]

end EaselModel.Buffer.Mem
