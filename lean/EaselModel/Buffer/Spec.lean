import EaselModel.Buffer.Model
/-! # C05 — the abstract specification: a byte string and a cursor

`specLine`, `specToken sep`, `specRead k` are small functions of the suffix `src.drop cursor`; nothing here knows
about windows, pages, modes or anchors. -/
namespace EaselModel.Buffer

/-- Abstract state: the whole input and the cursor. -/
structure Abs where
  src : Bytes
  cur : Nat
  deriving DecidableEq, Repr

/-- What a buffer denotes. -/
def Buf.abs (b : Buf) : Abs := { src := b.src, cur := b.base + b.pos }

/-- rest of the input at the cursor -/
def Abs.suffix (a : Abs) : Bytes := a.src.drop a.cur

/-- Next line of `s`: `none` at end of input, else `(line, nskip)`: the line without its terminator, and the
    number of bytes to step over (line + LF or CRLF terminator; no terminator when the input ends first). -/
def specLine (s : Bytes) : Option (Bytes × Nat) :=
  if s = [] then none
  else
    let i := runLen notLF s
    if i = s.length then some (s, s.length)                               -- last line, no terminator
    else if 0 < i ∧ s[i-1]? = some CR then some (s.take (i - 1), i + 1)    -- CRLF
    else some (s.take i, i + 1)                                           -- LF

/-- `GetLine`/`FetchLine` on the abstract state: status, bytes, new state -/
def specGetLine (a : Abs) : St × Bytes × Abs :=
  match specLine a.suffix with
  | none => (.eof, [], a)
  | some (line, nskip) => (.ok, line, { a with cur := a.cur + nskip })

/-- `Read k` -/
def specRead (a : Abs) (k : Nat) : St × Bytes × Abs :=
  if a.suffix.length < k then (.eof, [], a)
  else (.ok, a.suffix.take k, { a with cur := a.cur + k })

/-- length of a newline at the head of `s`: 1 for LF, 2 for CRLF, 0 if `s` does not start with a newline -/
def nlLen (s : Bytes) : Nat :=
  if s[0]? = some LF then 1 else if s[0]? = some CR ∧ s[1]? = some LF then 2 else 0

/-- length of the token at the head of `s` (which starts with a byte that is neither separator nor newline):
    that byte plus the maximal run of bytes that are neither separators nor LF, minus a final CR if an LF follows -/
def tokLen (sep : Bytes) (s : Bytes) : Nat :=
  let e0 := 1 + runLen (isTok sep) (s.drop 1)
  if s[e0]? = some LF ∧ s[e0 - 1]? = some CR then e0 - 1 else e0

/-- Next token of `s` for separator set `sep`: `(status, token, bytes consumed)`.
    Skip separators; end of input ⇒ `eof`; on LF or CRLF ⇒ `eol` (terminator consumed); otherwise the token
    (see `tokLen`), and the separators that follow it are consumed too. -/
def specTok (sep : Bytes) (s : Bytes) : St × Bytes × Nat :=
  let k := runLen (isSep sep) s
  let s1 := s.drop k
  if s1 = [] then (.eof, [], k)
  else if nlLen s1 ≠ 0 then (.eol, [], k + nlLen s1)
  else (.ok, s1.take (tokLen sep s1), k + tokLen sep s1 + runLen (isSep sep) (s1.drop (tokLen sep s1)))

def specToken (a : Abs) (sep : Bytes) : St × Bytes × Abs :=
  match specTok sep a.suffix with
  | (st, tok, used) => (st, tok, { a with cur := a.cur + used })

/-- All lines of an input, each with its terminator (`[LF]`, `[CR, LF]`, or `[]` for an unterminated last line). -/
structure Line where
  body : Bytes
  term : Bytes
  deriving DecidableEq, Repr

def specLinesAux : Nat → Bytes → List Line
  | 0, _ => []
  | fuel + 1, s =>
    match specLine s with
    | none => []
    | some (line, nskip) => { body := line, term := (s.take nskip).drop line.length } :: specLinesAux fuel (s.drop nskip)

def specLines (src : Bytes) : List Line := specLinesAux (src.length + 1) src

end EaselModel.Buffer
