import EaselModel.Buffer.ListLemmas
/-! Well-formedness of the window and the contract of `buffer_refill`. -/
namespace EaselModel.Buffer

/-- The window invariant: `mem` is the slice of the input that starts at `base`, `rest` is what follows it;
    the cursor is inside the window; the anchor is inside the window (at or before the cursor in every history inside
    the API contract, but `esl_buffer_SetAnchor` accepts any offset of the window and an in-window rewind may go before
    the anchor: since b86a62d the code copes with an anchor ahead of the cursor, and so does this invariant); the
    end-of-file flag and a missing stream both mean that nothing is left to read. -/
structure WF (b : Buf) : Prop where
  hwin : b.src.drop b.base = b.mem ++ b.rest
  hpos : b.pos ≤ b.n
  hanch : ∀ a, b.anchor = some a → a ≤ b.n
  hps : 0 < b.pagesize
  heof : b.eof = true → b.rest = []
  hnofp : b.hasfp = false → b.rest = []

/-- What the steps inside an operation never change (or only grow). -/
structure Frame (b b' : Buf) : Prop where
  src : b'.src = b.src
  ps : b'.pagesize = b.pagesize
  mode : b'.mode = b.mode
  hasfp : b'.hasfp = b.hasfp
  off : b'.base + b'.pos = b.base + b.pos
  avail : b.n - b.pos ≤ b'.n - b'.pos

theorem Frame.refl (b : Buf) : Frame b b := ⟨rfl, rfl, rfl, rfl, rfl, Nat.le_refl _⟩

theorem Frame.trans {a b c : Buf} (h1 : Frame a b) (h2 : Frame b c) : Frame a c :=
  ⟨h2.src.trans h1.src, h2.ps.trans h1.ps, h2.mode.trans h1.mode, h2.hasfp.trans h1.hasfp,
   h2.off.trans h1.off, Nat.le_trans h1.avail h2.avail⟩

/-- the input from the cursor on = the loaded bytes from `pos` on, followed by what is still in the stream -/
theorem WF.suffix {b : Buf} (h : WF b) : b.src.drop (b.base + b.pos) = b.mem.drop b.pos ++ b.rest := by
  have := h.hpos
  rw [← List.drop_drop, h.hwin, List.drop_append]
  have : b.pos - b.mem.length = 0 := by simp only [Buf.n] at *; omega
  simp [this]

theorem WF.suffix_at {b : Buf} (h : WF b) (k : Nat) (hk : k ≤ b.n) :
    b.src.drop (b.base + k) = b.mem.drop k ++ b.rest := by
  rw [← List.drop_drop, h.hwin, List.drop_append]
  have : k - b.mem.length = 0 := by simp only [Buf.n] at *; omega
  simp [this]

/-! ### dropFront -/

theorem dropFront_wf {b : Buf} (h : WF b) (ndel : Nat) (hd : ndel ≤ b.pos)
    (ha : ∀ a, b.anchor = some a → a + ndel ≤ b.n) : WF (dropFront b ndel) := by
  have hp := h.hpos
  refine ⟨?_, ?_, ?_, h.hps, h.heof, h.hnofp⟩
  · show b.src.drop (b.base + ndel) = b.mem.drop ndel ++ b.rest
    exact h.suffix_at ndel (by omega)
  · show b.pos - ndel ≤ (b.mem.drop ndel).length
    simp only [List.length_drop, Buf.n] at *; omega
  · intro a haa
    show a ≤ (b.mem.drop ndel).length
    have := ha a haa
    simp only [List.length_drop, Buf.n] at *; omega

theorem dropFront_frame (b : Buf) (ndel : Nat) (hd : ndel ≤ b.pos) (hp : b.pos ≤ b.n) : Frame b (dropFront b ndel) := by
  refine ⟨rfl, rfl, rfl, rfl, ?_, ?_⟩
  · show b.base + ndel + (b.pos - ndel) = b.base + b.pos
    omega
  · show b.n - b.pos ≤ (b.mem.drop ndel).length - (b.pos - ndel)
    simp only [List.length_drop, Buf.n] at *; omega

theorem dropFront_avail (b : Buf) (ndel : Nat) (hd : ndel ≤ b.pos) (hp : b.pos ≤ b.n) :
    (dropFront b ndel).n - (dropFront b ndel).pos = b.n - b.pos := by
  show (b.mem.drop ndel).length - (b.pos - ndel) = b.n - b.pos
  simp only [List.length_drop, Buf.n] at *; omega

/-! ### fread -/

theorem fread_wf {b : Buf} (h : WF b) (k : Nat) : WF (fread b k) := by
  refine ⟨?_, ?_, ?_, h.hps, ?_, ?_⟩
  · show b.src.drop b.base = (b.mem ++ b.rest.take k) ++ b.rest.drop k
    rw [List.append_assoc, List.take_append_drop]; exact h.hwin
  · show b.pos ≤ (b.mem ++ b.rest.take k).length
    have := h.hpos; simp only [List.length_append, Buf.n] at *; omega
  · intro a ha
    show a ≤ (b.mem ++ b.rest.take k).length
    have := h.hanch a ha; simp only [List.length_append, Buf.n] at *; omega
  · intro he
    show b.rest.drop k = []
    simp only [fread, Bool.or_eq_true, decide_eq_true_eq, List.length_take] at he
    rcases he with he | he
    · simp [h.heof he]
    · apply List.drop_eq_nil_of_le; omega
  · intro hf
    show b.rest.drop k = []
    simp [h.hnofp hf]

theorem fread_frame (b : Buf) (k : Nat) : Frame b (fread b k) := by
  refine ⟨rfl, rfl, rfl, rfl, rfl, ?_⟩
  show b.n - b.pos ≤ (b.mem ++ b.rest.take k).length - b.pos
  simp only [List.length_append, Buf.n]; omega

theorem fread_n (b : Buf) (k : Nat) : (fread b k).n = b.n + min k b.rest.length := by
  show (b.mem ++ b.rest.take k).length = _
  simp [List.length_append, List.length_take, Buf.n]

/-! ### the three steps of buffer_refill -/

theorem shiftLeft_spec {b : Buf} (h : WF b) :
    ∃ b1, shiftLeft b = some b1 ∧ WF b1 ∧ Frame b b1 ∧ b1.rest = b.rest ∧ b1.n - b1.pos = b.n - b.pos := by
  have hp := h.hpos
  unfold shiftLeft
  by_cases hpin : pinned b = true
  · rw [if_pos hpin]; exact ⟨b, rfl, h, Frame.refl b, rfl, rfl⟩
  rw [if_neg hpin]
  unfold shiftLeft0
  split
  · cases ha : b.anchor with
    | none =>
      exact ⟨_, rfl, dropFront_wf h b.pos (Nat.le_refl _) (by simp [ha]), dropFront_frame b b.pos (Nat.le_refl _) hp, rfl,
        dropFront_avail b b.pos (Nat.le_refl _) hp⟩
    | some a =>
      have han := h.hanch a ha
      by_cases hap : a ≤ b.pos
      · simp only [hap, if_true]
        have hwf0 : WF { b with anchor := some 0 } :=
          ⟨h.hwin, h.hpos, by intro x hx; simp at hx; omega, h.hps, h.heof, h.hnofp⟩
        have hfr0 : Frame b { b with anchor := some 0 } := ⟨rfl, rfl, rfl, rfl, rfl, Nat.le_refl _⟩
        exact ⟨_, rfl, dropFront_wf hwf0 a hap (by intro x hx; simp at hx; show x + a ≤ b.n; omega),
          hfr0.trans (dropFront_frame { b with anchor := some 0 } a hap hp), rfl,
          dropFront_avail { b with anchor := some 0 } a hap hp⟩
      · -- an anchor ahead of the cursor (b86a62d): everything from the cursor on is kept, the anchor moves with it
        simp only [hap, if_false]
        have hwf0 : WF { b with anchor := some (a - b.pos) } :=
          ⟨h.hwin, h.hpos, by intro x hx; simp at hx; show x ≤ b.n; omega, h.hps, h.heof, h.hnofp⟩
        have hfr0 : Frame b { b with anchor := some (a - b.pos) } := ⟨rfl, rfl, rfl, rfl, rfl, Nat.le_refl _⟩
        exact ⟨_, rfl, dropFront_wf hwf0 b.pos (Nat.le_refl _) (by intro x hx; simp at hx; show x + b.pos ≤ b.n; omega),
          hfr0.trans (dropFront_frame { b with anchor := some (a - b.pos) } b.pos (Nat.le_refl _) hp), rfl,
          dropFront_avail { b with anchor := some (a - b.pos) } b.pos (Nat.le_refl _) hp⟩
  · exact ⟨b, rfl, h, Frame.refl b, rfl, rfl⟩

theorem grow_spec {b : Buf} (h : WF b) :
    WF (grow b) ∧ Frame b (grow b) ∧ (grow b).rest = b.rest ∧ (grow b).mem = b.mem ∧ (grow b).pos = b.pos
      ∧ (grow b).pagesize = b.pagesize := by
  unfold grow
  by_cases hpin : pinned b = true
  · rw [if_pos hpin]
    unfold growR
    split
    · exact ⟨⟨h.hwin, h.hpos, h.hanch, h.hps, h.heof, h.hnofp⟩, ⟨rfl, rfl, rfl, rfl, rfl, Nat.le_refl _⟩, rfl, rfl, rfl, rfl⟩
    · exact ⟨h, Frame.refl b, rfl, rfl, rfl, rfl⟩
  rw [if_neg hpin]
  unfold grow0
  split
  · exact ⟨⟨h.hwin, h.hpos, h.hanch, h.hps, h.heof, h.hnofp⟩, ⟨rfl, rfl, rfl, rfl, rfl, Nat.le_refl _⟩, rfl, rfl, rfl, rfl⟩
  · exact ⟨h, Frame.refl b, rfl, rfl, rfl, rfl⟩

/-- Contract of `buffer_refill` on a well-formed buffer. -/
structure RefillPost (b : Buf) (nmin : Nat) (st : St) (b' : Buf) : Prop where
  wf : WF b'
  frame : Frame b b'
  status : st = .ok ∨ st = .eof
  /-- `eslEOF` means: nothing loaded after the cursor and nothing left in the stream -/
  eof_imp : st = .eof → b'.pos = b'.n ∧ b'.rest = []
  /-- one call is enough to restore the page guarantee when `nmin` bytes were already there -/
  guarantee : nmin ≤ b.n - b.pos → nmin + b'.pagesize ≤ b'.n - b'.pos ∨ b'.rest = []
  /-- no progress, although more was wanted, only if the stream is exhausted -/
  noprog : b'.n - b'.pos = b.n - b.pos → b.n - b.pos < nmin + b.pagesize → b'.rest = []
  /-- the stream only shrinks -/
  restle : b'.rest.length ≤ b.rest.length
  /-- progress consumes the stream -/
  prog : b.n - b.pos < b'.n - b'.pos → b'.rest.length < b.rest.length

theorem load_post {b : Buf} (h : WF b) : RefillPost b 0 (load b).1 (load b).2
    ∧ (load b).2.n - (load b).2.pos = b.n - b.pos + min b.pagesize b.rest.length
    ∧ (load b).2.rest = b.rest.drop b.pagesize := by
  have hp := h.hpos
  have hps := h.hps
  have hn3 := fread_n b b.pagesize
  have hpos3 : (fread b b.pagesize).pos = b.pos := rfl
  have hrest3 : (fread b b.pagesize).rest = b.rest.drop b.pagesize := rfl
  have hps3 : (fread b b.pagesize).pagesize = b.pagesize := rfl
  have e1 : (load b).1 = if min b.pagesize b.rest.length = 0 ∧ (fread b b.pagesize).pos = (fread b b.pagesize).n then St.eof else St.ok := rfl
  have e2 : (load b).2 = fread b b.pagesize := rfl
  rw [e1, e2]
  refine ⟨⟨fread_wf h _, fread_frame b _, ?_, ?_, ?_, ?_, ?_, ?_⟩, ?_, hrest3⟩
  · split <;> simp
  · split
    · rename_i hc
      intro _
      refine ⟨hc.2, ?_⟩
      rw [hrest3]
      have : b.rest.length = 0 := by have := hc.1; omega
      simp [List.eq_nil_of_length_eq_zero this]
    · intro hh; cases hh
  · intro _
    rw [hn3, hpos3, hrest3, hps3]
    by_cases hfull : b.pagesize ≤ b.rest.length
    · left
      rw [Nat.min_eq_left hfull]; omega
    · right; apply List.drop_eq_nil_of_le; omega
  · intro heq _
    rw [hn3, hpos3] at heq
    rw [hrest3]
    have : b.rest.length = 0 := by omega
    simp [List.eq_nil_of_length_eq_zero this]
  · rw [hrest3]; simp
  · intro hlt
    rw [hn3, hpos3] at hlt
    rw [hrest3]
    simp only [List.length_drop]; omega
  · rw [hn3, hpos3]; omega

theorem refill_post (b : Buf) (nmin : Nat) (h : WF b) : RefillPost b nmin (refill b nmin).1 (refill b nmin).2 := by
  have hp := h.hpos
  have hps := h.hps
  unfold refill
  split
  · -- no stream, or stream at EOF
    rename_i hc
    have hrest : b.rest = [] := by
      simp only [Bool.or_eq_true, Bool.not_eq_true'] at hc
      rcases hc with hc | hc
      · exact h.hnofp hc
      · exact h.heof hc
    dsimp only
    refine ⟨h, Frame.refl b, ?_, ?_, (fun _ => Or.inr hrest), (fun _ _ => hrest), Nat.le_refl _, (fun hh => by omega)⟩
    · split <;> simp
    · split
      · intro hh; cases hh
      · intro _; exact ⟨by omega, hrest⟩
  · split
    · -- enough data already
      rename_i hc
      dsimp only
      exact ⟨h, Frame.refl b, Or.inl rfl, (fun hh => by cases hh), (fun _ => Or.inl hc.1), (fun _ hlt => by omega), Nat.le_refl _,
        (fun hh => by omega)⟩
    · split
      · omega
      · -- the reading path
        obtain ⟨b1, hb1, hwf1, hfr1, hrest1, hav1⟩ := shiftLeft_spec h
        rw [hb1]
        dsimp only
        obtain ⟨hwf2, hfr2, hr2, hm2, hpos2, hps2⟩ := grow_spec hwf1
        obtain ⟨hl, hln, hlr⟩ := load_post hwf2
        have hav2 : (grow b1).n - (grow b1).pos = b.n - b.pos := by
          have : (grow b1).n = b1.n := by simp [Buf.n, hm2]
          rw [this, hpos2]; exact hav1
        have hpsb : (grow b1).pagesize = b.pagesize := by rw [hps2]; exact hfr1.ps
        have hrb : (grow b1).rest = b.rest := by rw [hr2, hrest1]
        have hps2' := hwf2.hps
        refine ⟨hl.wf, (hfr1.trans hfr2).trans hl.frame, hl.status, hl.eof_imp, ?_, ?_, ?_, ?_⟩
        · intro hmin
          rw [hln, hlr, hl.frame.ps, hav2]
          by_cases hfull : (grow b1).pagesize ≤ (grow b1).rest.length
          · left; rw [Nat.min_eq_left hfull]; omega
          · right; apply List.drop_eq_nil_of_le; omega
        · intro heq _
          rw [hln, hav2] at heq
          rw [hlr]
          have : (grow b1).rest.length = 0 := by omega
          simp [List.eq_nil_of_length_eq_zero this]
        · have := hl.restle; rw [hrb] at this; exact this
        · intro hlt
          have := hl.prog (by rw [hav2]; exact hlt)
          rw [hrb] at this; exact this

theorem refill_wf (b : Buf) (nmin : Nat) (h : WF b) : WF (refill b nmin).2 := (refill_post b nmin h).wf

end EaselModel.Buffer
