import EaselModel.Buffer.Stable
/-! # Pointers handed out under a stable anchor stay valid until it is raised — whole histories (round 6)

For the repaired `buffer_refill` (fix C05-stable-anchor-keep-oldmem; `pinned b` = the working tree has the repair and
`bf->stable` is set). `memgen` counts the events that invalidate a pointer into the window (memmove over a non-zero
distance, realloc/free of the block, window reset after `fseeko`).

`I true g b`  : an anchor is set, the flag is set, and `memgen = g`;
`I false g b` : the same, unless the anchor is gone (the last anchor was raised: the promise has ended).
Every primitive step of every operation other than `SetStableAnchor` maps `I c g` to `I c g`; `RaiseAnchor` maps it to
`I false g`. No well-formedness hypothesis is needed. -/
namespace EaselModel.Buffer

def I (c : Bool) (g : Nat) (b : Buf) : Prop :=
  (c = true ∨ b.anchor ≠ none) → (b.anchor ≠ none ∧ b.memgen = g ∧ pinned b = true)

theorem I.weaken {c : Bool} {g : Nat} {b : Buf} (h : I true g b) : I c g b := fun _ => h (Or.inl rfl)
theorem I.str {c : Bool} {g : Nat} {b : Buf} (h : I c g b) (ha : b.anchor ≠ none) : I true g b := fun _ => h (Or.inr ha)

/-- a step that, under `pinned`, keeps anchor / memgen / flag, and never creates an anchor -/
theorem I.step {c : Bool} {g : Nat} {b b' : Buf} (h : I c g b)
    (hp : pinned b = true → b'.anchor = b.anchor ∧ b'.memgen = b.memgen ∧ b'.stab = b.stab)
    (hn : b.anchor = none → b'.anchor = none) : I c g b' := by
  intro hc
  have hb : b.anchor ≠ none := by
    rcases hc with hc | hc
    · exact (h (Or.inl hc)).1
    · intro e; exact hc (hn e)
  obtain ⟨h1, h2, h3⟩ := h (Or.inr hb)
  obtain ⟨e1, e2, e3⟩ := hp h3
  refine ⟨by rw [e1]; exact h1, by rw [e2]; exact h2, ?_⟩
  unfold pinned at h3 ⊢; rw [e3]; exact h3

theorem refill_keep_pinned (b : Buf) (k : Nat) (hpin : pinned b = true) :
    (refill b k).2.anchor = b.anchor ∧ (refill b k).2.memgen = b.memgen ∧ (refill b k).2.stab = b.stab := by
  obtain ⟨h1, h2, _, _⟩ := refill_pinned b k hpin
  refine ⟨?_, h1, h2⟩
  unfold refill
  split
  · rfl
  · split
    · rfl
    · split
      · rfl
      · have hs : shiftLeft b = some b := by unfold shiftLeft; rw [if_pos hpin]
        rw [hs]
        show (grow b).anchor = b.anchor
        unfold grow growR grow0; split <;> split <;> rfl

theorem refill_anchor_none (b : Buf) (k : Nat) (h : b.anchor = none) : (refill b k).2.anchor = none := by
  unfold refill
  split
  · exact h
  · split
    · exact h
    · split
      · exact h
      · have key : ∀ x : Buf, x.anchor = none → (load (grow x)).2.anchor = none := by
          intro x hx
          show (grow x).anchor = none
          unfold grow growR grow0; split <;> split <;> exact hx
        have hs : ∃ b1, shiftLeft b = some b1 ∧ b1.anchor = none := by
          unfold shiftLeft
          split
          · exact ⟨b, rfl, h⟩
          · unfold shiftLeft0
            split
            · rw [h]; exact ⟨_, rfl, h⟩
            · exact ⟨b, rfl, h⟩
        obtain ⟨b1, hs1, hs2⟩ := hs
        rw [hs1]
        exact key b1 hs2

theorem refill_I {c : Bool} {g : Nat} (b : Buf) (k : Nat) (h : I c g b) : I c g (refill b k).2 :=
  h.step (refill_keep_pinned b k) (refill_anchor_none b k)

theorem setpos_I {c : Bool} {g : Nat} (b : Buf) (p : Nat) (h : I c g b) : I c g { b with pos := p } :=
  h.step (fun _ => ⟨rfl, rfl, rfl⟩) (fun e => e)

theorem setAnchor_I {g : Nat} (b : Buf) (o : Nat) (h : I true g b) : I true g (setAnchor b o).2 := by
  obtain ⟨h1, h2, h3⟩ := h (Or.inl rfl)
  intro _
  unfold setAnchor
  split
  · exact ⟨h1, h2, h3⟩
  · split
    · exact ⟨h1, h2, h3⟩
    · cases ha : b.anchor with
      | none => exact absurd ha h1
      | some a =>
        dsimp only
        split
        · exact ⟨by simp, h2, h3⟩
        · split
          · exact ⟨by simp [ha], h2, h3⟩
          · exact ⟨by simp [ha], h2, h3⟩

theorem raiseAnchor_I {c : Bool} {g : Nat} (b : Buf) (o : Nat) (h : I c g b) : I false g (raiseAnchor b o) := by
  intro hc
  have hr : (raiseAnchor b o).anchor ≠ none := by
    rcases hc with hc | hc
    · cases hc
    · exact hc
  have hb : b.anchor ≠ none := by
    intro e; apply hr; unfold raiseAnchor; rw [e]; exact e
  obtain ⟨_, h2, h3⟩ := h (Or.inr hb)
  refine ⟨hr, ?_, ?_⟩
  · unfold raiseAnchor
    cases b.anchor with
    | none => exact h2
    | some a => dsimp only; split <;> (try split) <;> exact h2
  · revert hr
    unfold raiseAnchor
    cases b.anchor with
    | none => intro _; exact h3
    | some a =>
      dsimp only
      split
      · split
        · intro hr; exact absurd rfl hr
        · intro _; exact h3
      · intro _; exact h3

/-! ### the loops -/

theorem countlineLoop_I {c : Bool} {g : Nat} (fuel : Nat) :
    ∀ (b : Buf) (nc : Nat), I c g b → I c g (countlineLoop fuel b nc).2.1 := by
  induction fuel with
  | zero => intro b nc h; exact h
  | succ fuel ih =>
    intro b nc h
    rw [countlineLoop]
    have hr : ∀ k, I c g (refill b k).2 := fun k => refill_I b k h
    repeat' (first | exact h | exact hr _ | exact ih _ _ (hr _) | split | dsimp only)

theorem countline_I {c : Bool} {g : Nat} (b : Buf) (h : I c g b) : I c g (countline b).2.1 := by
  unfold countline
  split
  · exact h
  · split
    · exact h
    · have := countlineLoop_I (c := c) (g := g) (b.rest.length + 2) b 0 h
      generalize countlineLoop (b.rest.length + 2) b 0 = r at *
      obtain ⟨st, b', nc, nterm⟩ := r
      dsimp only at this ⊢
      repeat' (first | exact this | split | dsimp only)

theorem skipsepLoop_I {c : Bool} {g : Nat} (sep : Bytes) (fuel : Nat) :
    ∀ (b : Buf), I c g b → I c g (skipsepLoop sep fuel b).2 := by
  induction fuel with
  | zero => intro b h; exact h
  | succ fuel ih =>
    intro b h
    rw [skipsepLoop]
    dsimp only
    have h1 : I c g { b with pos := b.pos + runLen (isSep sep) (b.mem.drop b.pos) } := setpos_I b _ h
    have h2 := refill_I _ 0 h1
    have ih1 := ih _ h2
    repeat' (first | exact h | exact h1 | exact h2 | exact ih1 | split | dsimp only)

theorem skipsep_I {c : Bool} {g : Nat} (b : Buf) (sep : Bytes) (h : I c g b) : I c g (skipsep b sep).2 :=
  skipsepLoop_I sep _ b h

theorem newline_I {c : Bool} {g : Nat} (b : Buf) (h : I c g b) : I c g (newline b).2 := by
  unfold newline
  split
  · exact h
  · split
    · exact h
    · dsimp only
      have h0 : I c g (if b.n - b.pos = 1 ∧ b.mem[b.pos]? = some CR then refill b 1 else (St.ok, b)).2 := by
        split
        · exact refill_I b 1 h
        · exact h
      generalize (if b.n - b.pos = 1 ∧ b.mem[b.pos]? = some CR then refill b 1 else (St.ok, b)) = r0 at *
      have h2 : ∀ nl, I c g (refill { r0.2 with pos := r0.2.pos + nl } 0).2 := fun nl => refill_I _ 0 (setpos_I _ _ h0)
      repeat' (first | exact h0 | exact h2 _ | split | dsimp only)

theorem counttokLoop_I {c : Bool} {g : Nat} (sep : Bytes) (fuel : Nat) :
    ∀ (b : Buf) (nc : Nat), I c g b → I c g (counttokLoop sep fuel b nc).2.1 := by
  induction fuel with
  | zero => intro b nc h; exact h
  | succ fuel ih =>
    intro b nc h
    rw [counttokLoop]
    have hr : ∀ k, I c g (refill b k).2 := fun k => refill_I b k h
    repeat' (first | exact h | exact hr _ | exact ih _ _ (hr _) | split | dsimp only)

theorem counttok_I {c : Bool} {g : Nat} (b : Buf) (sep : Bytes) (h : I c g b) : I c g (counttok b sep).2.1 := by
  unfold counttok
  split
  · exact h
  · have := counttokLoop_I (c := c) (g := g) sep (b.rest.length + 2) b 1 h
    generalize counttokLoop sep (b.rest.length + 2) b 1 = r at *
    obtain ⟨st, b1, nc⟩ := r
    dsimp only at this
    cases st <;> (try dsimp only) <;> (try exact this)
    split <;> exact this

theorem readLoop_I {c : Bool} {g : Nat} (k : Nat) (fuel : Nat) : ∀ (b : Buf), I c g b → I c g (readLoop k fuel b).2 := by
  induction fuel with
  | zero => intro b h; exact h
  | succ fuel ih =>
    intro b h
    rw [readLoop]
    split
    · have hr := refill_I b k h
      generalize refill b k = r at *
      obtain ⟨st, b'⟩ := r
      dsimp only at hr ⊢
      repeat' (first | exact hr | exact ih _ hr | split | dsimp only)
    · exact h

theorem ffwdLoop_I {c : Bool} {g : Nat} (o : Nat) (fuel : Nat) : ∀ (b : Buf), I c g b → I c g (ffwdLoop o fuel b).2 := by
  induction fuel with
  | zero => intro b h; exact h
  | succ fuel ih =>
    intro b h
    rw [ffwdLoop]
    have h1 : I c g { b with pos := b.n } := setpos_I b _ h
    have h2 := refill_I _ 0 h1
    have ih1 := ih _ h2
    repeat' (first | exact h | exact h2 | exact ih1 | split | dsimp only)

/-! ### the operations -/

theorem getLine_I {g : Nat} (b : Buf) (h : I true g b) : I false g (getLine b).2 := by
  unfold getLine
  dsimp only
  have q1 := setAnchor_I b (b.base + b.pos) h
  generalize setAnchor b (b.base + b.pos) = sa at *
  obtain ⟨st1, b1⟩ := sa
  dsimp only at q1
  cases st1 <;> (try dsimp only) <;> (try exact q1.weaken)
  have q2 := countline_I b1 q1
  generalize countline b1 = cl at *
  obtain ⟨st2, b2, nc, nskip⟩ := cl
  dsimp only at q2
  have q4' := raiseAnchor_I b2 (b.base + b.pos) q2
  cases st2 <;> (try dsimp only) <;> (try exact q4')
  have q3 := refill_I b2 nskip q2
  generalize refill b2 nskip = rf at *
  obtain ⟨st3, b3⟩ := rf
  dsimp only at q3
  have q4 := raiseAnchor_I b3 (b.base + b.pos) q3
  repeat' (first | exact q4 | exact setpos_I _ _ q4 | split | dsimp only)

theorem fetchLine_I {g : Nat} (b : Buf) (asStr : Bool) (h : I true g b) : I false g (fetchLine b asStr).2 := by
  unfold fetchLine
  dsimp only
  have q1 := setAnchor_I b (b.base + b.pos) h
  generalize setAnchor b (b.base + b.pos) = sa at *
  obtain ⟨st1, b1⟩ := sa
  dsimp only at q1
  cases st1 <;> (try dsimp only) <;> (try exact q1.weaken)
  have q2 := countline_I b1 q1
  generalize countline b1 = cl at *
  obtain ⟨st2, b2, nc, nskip⟩ := cl
  dsimp only at q2
  have q4' := raiseAnchor_I b2 (b.base + b.pos) q2
  cases st2 <;> (try dsimp only) <;> (try exact q4')
  have q3 : I false g (raiseAnchor { b2 with pos := b2.pos + nskip } (b.base + b.pos)) := raiseAnchor_I _ _ (setpos_I b2 _ q2)
  have q5 := refill_I _ 0 q3
  repeat' (first | exact q2.weaken | exact q5 | split | dsimp only)

theorem getToken_I {g : Nat} (b : Buf) (sep : Bytes) (h : I true g b) : I false g (getToken b sep).2 := by
  unfold getToken
  have q1 := skipsep_I b sep h
  generalize skipsep b sep = r1 at *
  obtain ⟨st1, b1⟩ := r1
  dsimp only at q1 ⊢
  cases st1 <;> (try dsimp only) <;> (try exact q1.weaken)
  have q2 := newline_I b1 q1
  generalize newline b1 = r2 at *
  obtain ⟨st2, b2⟩ := r2
  dsimp only at q2 ⊢
  cases st2 <;> (try dsimp only) <;> (try exact q2.weaken)
  have q3 := setAnchor_I b2 (b2.base + b2.pos) q2
  generalize setAnchor b2 (b2.base + b2.pos) = r3 at *
  obtain ⟨st3, b3⟩ := r3
  dsimp only at q3 ⊢
  cases st3 <;> (try dsimp only) <;> (try exact q3.weaken)
  have q4 := counttok_I b3 sep q3
  generalize counttok b3 sep = r4 at *
  obtain ⟨st4, b4, nc⟩ := r4
  dsimp only at q4 ⊢
  have q4' := raiseAnchor_I b4 (b2.base + b2.pos) q4
  cases st4 <;> (try dsimp only) <;> (try exact q4')
  have q5 : I true g { b4 with pos := b4.pos + nc } := setpos_I b4 _ q4
  have q6 := skipsep_I _ sep q5
  generalize skipsep { b4 with pos := b4.pos + nc } sep = r6 at *
  obtain ⟨st6, b6⟩ := r6
  dsimp only at q6 ⊢
  have q7 := refill_I b6 0 q6
  generalize refill b6 0 = r7 at *
  obtain ⟨st7, b7⟩ := r7
  dsimp only at q7 ⊢
  repeat' (first | exact raiseAnchor_I _ _ q6 | exact raiseAnchor_I _ _ q7 | exact q7.weaken | split | dsimp only)

theorem fetchToken_I {g : Nat} (b : Buf) (sep : Bytes) (asStr : Bool) (h : I true g b) : I false g (fetchToken b sep asStr).2 := by
  unfold fetchToken
  have q1 := skipsep_I b sep h
  generalize skipsep b sep = r1 at *
  obtain ⟨st1, b1⟩ := r1
  dsimp only at q1 ⊢
  cases st1 <;> (try dsimp only) <;> (try exact q1.weaken)
  have q2 := newline_I b1 q1
  generalize newline b1 = r2 at *
  obtain ⟨st2, b2⟩ := r2
  dsimp only at q2 ⊢
  cases st2 <;> (try dsimp only) <;> (try exact q2.weaken)
  have q3 := setAnchor_I b2 (b2.base + b2.pos) q2
  generalize setAnchor b2 (b2.base + b2.pos) = r3 at *
  obtain ⟨st3, b3⟩ := r3
  dsimp only at q3 ⊢
  cases st3 <;> (try dsimp only) <;> (try exact q3.weaken)
  have q4 := counttok_I b3 sep q3
  generalize counttok b3 sep = r4 at *
  obtain ⟨st4, b4, nc⟩ := r4
  dsimp only at q4 ⊢
  have q4' := raiseAnchor_I b4 (b2.base + b2.pos) q4
  cases st4 <;> (try dsimp only) <;> (try exact q4')
  have q5 : I false g (raiseAnchor { b4 with pos := b4.pos + nc } (b2.base + b2.pos)) := raiseAnchor_I _ _ (setpos_I b4 _ q4)
  have q6 := skipsep_I _ sep q5
  generalize skipsep (raiseAnchor { b4 with pos := b4.pos + nc } (b2.base + b2.pos)) sep = r6 at *
  obtain ⟨st6, b6⟩ := r6
  dsimp only at q6 ⊢
  have q7 := refill_I b6 0 q6
  generalize refill b6 0 = r7 at *
  obtain ⟨st7, b7⟩ := r7
  dsimp only at q7 ⊢
  repeat' (first | exact q4.weaken | exact q6 | exact q7 | split | dsimp only)

theorem read_I {c : Bool} {g : Nat} (b : Buf) (k : Nat) (h : I c g b) : I c g (read b k).2 := by
  unfold read
  split
  · exact h
  · have q1 := readLoop_I (c := c) (g := g) k (b.rest.length + 2) b h
    generalize readLoop k (b.rest.length + 2) b = r at *
    obtain ⟨st, b1⟩ := r
    dsimp only at q1 ⊢
    cases st <;> (try dsimp only) <;> (try exact q1)
    have q2 : I c g (refill { b1 with pos := b1.pos + k } 0).2 := refill_I _ 0 (setpos_I b1 _ q1)
    repeat' (first | exact q1 | exact q2 | split | dsimp only)

theorem set_I {c : Bool} {g : Nat} (b : Buf) (p : Option Nat) (k : Nat) (h : I c g b) : I c g (set b p k).2 := by
  unfold set
  cases p with
  | none => dsimp only; exact refill_I b 0 h
  | some i => dsimp only; exact refill_I _ 0 (setpos_I b _ h)

theorem setOffset_I {g : Nat} (b : Buf) (o : Nat) (h : I true g b) : I true g (setOffset b o).2 := by
  have ha : b.anchor ≠ none := (h (Or.inl rfl)).1
  have hbase : I true g { b with base := 0, pos := o } := h.step (fun _ => ⟨rfl, rfl, rfl⟩) (fun e => e)
  unfold setOffset
  split
  · split
    · exact h
    · exact hbase
  · split
    · exact h
    · exact hbase
  · split
    · exact h
    · exact hbase
  · by_cases hw : b.base ≤ o ∧ o < b.base + b.pos
    · rw [if_pos hw]; exact setpos_I b _ h
    · rw [if_neg hw, if_neg (fun hh => ha hh.2)]
      split
      · exact h
      · have q1 := ffwdLoop_I (c := true) (g := g) o (b.rest.length + 2) b h
        generalize ffwdLoop o (b.rest.length + 2) b = r at *
        obtain ⟨st, b1⟩ := r
        dsimp only at q1 ⊢
        cases st <;> (try dsimp only) <;> (try exact q1)
        have q3 : I true g (refill { b1 with pos := o - b1.base } 0).2 := refill_I _ 0 (setpos_I b1 _ q1)
        repeat' (first | exact q3 | split | dsimp only)

/-- **One operation under a stable anchor** (repaired code): from a state in which an anchor is set, `bf->stable` is set and
    the memory generation is `g`, every operation other than `SetStableAnchor` itself — whatever its arguments, whatever it has
    to read — ends in a state whose memory generation is still `g` with the flag still set, unless it raised the last anchor. -/
theorem pinned_step {g : Nat} (b : Buf) (lp : Option Nat) (op : Op) (h : I true g b) (h1 : ∀ o, op ≠ .setStableAnchor o) :
    I false g (opRun b lp op).2 := by
  cases op with
  | getLine => exact getLine_I b h
  | fetchLine => exact fetchLine_I b false h
  | fetchLineStr => exact fetchLine_I b true h
  | getToken sep => exact getToken_I b sep h
  | fetchToken sep => exact fetchToken_I b sep false h
  | fetchTokenStr sep => exact fetchToken_I b sep true h
  | read k => exact read_I b k h.weaken
  | get => show I false g (get b).2; unfold get; split <;> exact h.weaken
  | set k => exact set_I b lp k h.weaken
  | getOffset => exact h.weaken
  | setOffset o => exact (setOffset_I b o h).weaken
  | setAnchor o => exact (setAnchor_I b o h).weaken
  | setStableAnchor o => exact absurd rfl (h1 o)
  | raiseAnchor o => exact raiseAnchor_I b o h

/-! ### whole histories -/

/-- the session after a history -/
def runS : Sess → List Op → Sess
  | s, [] => s
  | s, op :: ops => runS (s.step op).2 ops

/-- "the anchor has not been raised yet": after every operation of the history an anchor is still set -/
def Anchored : Sess → List Op → Prop
  | _, [] => True
  | s, op :: ops => (s.step op).2.b.anchor ≠ none ∧ Anchored (s.step op).2 ops

theorem pinned_history {g : Nat} : ∀ (ops : List Op) (s : Sess), I true g s.b →
    (∀ op ∈ ops, ∀ o, op ≠ .setStableAnchor o) → Anchored s ops → I true g (runS s ops).b := by
  intro ops
  induction ops with
  | nil => intro s h _ _; exact h
  | cons op ops ih =>
    intro s h hno ha
    have h1 : I false g (s.step op).2.b := pinned_step s.b s.lastp op h (hno op (List.mem_cons_self ..))
    exact ih (s.step op).2 (h1.str ha.1) (fun op' hm => hno op' (List.mem_cons_of_mem _ hm)) ha.2

/-- the state right after a successful `SetStableAnchor` on a stream satisfies the hypothesis (on a tree with the repair) -/
theorem setStableAnchor_I (b : Buf) (o : Nat) (hr : BufConsts.stableRetire = true) (hf : b.hasfp = true)
    (hok : (setStableAnchor b o).1 = .ok) : I true (setStableAnchor b o).2.memgen (setStableAnchor b o).2 := by
  have hnf : ¬ ((!b.hasfp) = true) := by rw [hf]; decide
  intro _
  unfold setStableAnchor at hok ⊢
  rw [if_neg hnf] at hok ⊢
  generalize setAnchor b o = sa at hok ⊢
  obtain ⟨st, b1⟩ := sa
  cases st with
  | ok =>
    dsimp only at hok ⊢
    cases ha : b1.anchor with
    | none => rw [ha] at hok; dsimp only at hok; cases hok
    | some a =>
      dsimp only
      split
      · exact ⟨by simp [dropFront], rfl, by simp [pinned, hr]⟩
      · exact ⟨by simp [dropFront], rfl, by simp [pinned, hr]⟩
  | _ => dsimp only at hok; cases hok

end EaselModel.Buffer
