import EaselModel.Buffer.Mem
/-! # Specification of the integer parsers of `esl_mem.c` (independent of the loops of the model)

`parse` splits a byte string into leading whitespace, an optional `-`, the prefix the base rule takes, and `digs`, the
longest run of digits valid in the resolved base; `value = ± (digs read in that base)` is an unbounded `Int`.
`specRes` is the documented answer of `esl_mem_strtoi{32,64,}` stated on that parse. -/
namespace EaselModel.Buffer.Mem
open EaselModel.Buffer

/-- digit values of the longest prefix of `l` made of digits valid in `base` -/
def digitsOf (base : Int) : Bytes → List Int
  | [] => []
  | c :: cs =>
    match digitOf c with
    | some d => if d < base then d :: digitsOf base cs else []
    | none => []

/-- `ds` read in base `base`, continuing from the value `a` (`valFrom base 0 ds` is the value of the digit string) -/
def valFrom (base : Int) (a : Int) (ds : List Int) : Int := ds.foldl (fun a d => a * base + d) a

/-- apply the sign -/
def sval (neg : Bool) (a : Int) : Int := if neg then -a else a

/-- `v` is representable in the integer type `[lo, hi]` -/
def Fits (lo hi v : Int) : Prop := lo ≤ v ∧ v ≤ hi
instance (lo hi v : Int) : Decidable (Fits lo hi v) := by unfold Fits; infer_instance

/-- number of digits after which the running value `± (a · base^k + …)` first leaves `[lo, hi]` (`none`: never) -/
def firstBad (lo hi : Int) (neg : Bool) (base : Int) : Int → List Int → Option Nat
  | _, [] => none
  | a, d :: ds =>
    if Fits lo hi (sval neg (a * base + d)) then (firstBad lo hi neg base (a * base + d) ds).map (· + 1) else some 1

structure Parsed where
  /-- number of leading whitespace bytes -/
  ws : Nat
  /-- a `-` follows the whitespace -/
  neg : Bool
  /-- the base in force after the prefix rule -/
  base : Int
  /-- length of the prefix taken: 2 for `0x`, 1 for the `0` of an octal literal, else 0 -/
  plen : Nat
  /-- the `0` of the octal prefix counts as a digit (so that "0" alone is the number 0) -/
  zero : Bool
  /-- values of the digits that follow -/
  digs : List Int
  deriving Repr, DecidableEq

/-- the prefix rule and the digit run, on the bytes `r2` that follow whitespace and sign -/
def parseTail (ws : Nat) (neg : Bool) (base : Int) (r2 : Bytes) : Parsed :=
  if (base = 0 ∨ base = 16) ∧ r2.take 2 = [48, 120] then ⟨ws, neg, 16, 2, false, digitsOf 16 (r2.drop 2)⟩
  else if base = 0 ∧ r2.head? = some 48 then ⟨ws, neg, 8, 1, true, digitsOf 8 (r2.drop 1)⟩
  else if base = 0 then ⟨ws, neg, 10, 0, false, digitsOf 10 r2⟩
  else ⟨ws, neg, base, 0, false, digitsOf base r2⟩

def parse (p : Bytes) (base : Int) : Parsed :=
  let ws := runLen isspaceB p
  let r1 := p.drop ws
  let neg := r1.head? == some 45
  parseTail ws neg base (if neg then r1.drop 1 else r1)

namespace Parsed
/-- bytes in front of the digits -/
def start (P : Parsed) : Nat := P.ws + (if P.neg then 1 else 0) + P.plen
/-- the code's `ndigits` -/
def ndigits (P : Parsed) : Nat := (if P.zero then 1 else 0) + P.digs.length
/-- the number denoted -/
def value (P : Parsed) : Int := sval P.neg (valFrom P.base 0 P.digs)
/-- the number denoted by the first `k` digits -/
def prefixValue (P : Parsed) (k : Nat) : Int := sval P.neg (valFrom P.base 0 (P.digs.take k))
end Parsed

def ValidBase (base : Int) : Prop := base = 0 ∨ (2 ≤ base ∧ base ≤ 36)
instance (b : Int) : Decidable (ValidBase b) := by unfold ValidBase; infer_instance

/-- the answer of `esl_mem_strtoi*` for the integer type `[lo, hi]`, stated on the parse -/
def specRes (lo hi : Int) (p : Bytes) (base : Int) : IRes :=
  if ¬ ValidBase base then ⟨.einval, none, none⟩ else
  let P := parse p base
  if P.ndigits = 0 then ⟨.eformat, some 0, some 0⟩
  else match firstBad lo hi P.neg P.base 0 P.digs with
    | some k => ⟨.erange, some (P.start + k), some (if P.neg then lo else hi)⟩
    | none => ⟨.ok, some (P.start + P.digs.length), some P.value⟩

/-- **The specification of `esl_mem_strtoi32/64/strtoi`** as a relation between the input and the answer `r`, for the
    integer type `[lo, hi]`:
    * never a fault;
    * `eslEINVAL` iff the base is not 0 or 2..36 — and then neither `*opt_nc` nor `*opt_val` is written
      (the header comment promises 0 for both; the code returns before touching them);
    * otherwise `eslEFORMAT` with `nc = 0`, `val = 0` iff there is no digit (the `0` of an octal prefix counts as one;
      a `0x` that no hex digit follows does not);
    * otherwise `eslERANGE` iff the value does not fit, and then `val` is `hi`/`lo` by sign and `nc` is the position just
      after the first digit at which the running value leaves the range;
    * otherwise `eslOK`, `val` = the value, `nc` = whitespace + sign + prefix + digits. -/
def StrtoiSpec (lo hi : Int) (p : Bytes) (base : Int) (r : IRes) : Prop :=
  r.st ≠ .fault ∧
  (r.st = .einval ↔ ¬ ValidBase base) ∧
  (¬ ValidBase base → r = ⟨.einval, none, none⟩) ∧
  (ValidBase base →
    (r.st = .eformat ↔ (parse p base).ndigits = 0) ∧
    ((parse p base).ndigits = 0 → r = ⟨.eformat, some 0, some 0⟩) ∧
    ((parse p base).ndigits ≠ 0 →
      (r.st = .erange ↔ ¬ Fits lo hi (parse p base).value) ∧
      (Fits lo hi (parse p base).value →
        r = ⟨.ok, some ((parse p base).start + (parse p base).digs.length), some (parse p base).value⟩) ∧
      (¬ Fits lo hi (parse p base).value →
        ∃ k, 1 ≤ k ∧ k ≤ (parse p base).digs.length ∧ ¬ Fits lo hi ((parse p base).prefixValue k) ∧
          (∀ j, j < k → Fits lo hi ((parse p base).prefixValue j)) ∧
          r = ⟨.erange, some ((parse p base).start + k), some (if (parse p base).neg then lo else hi)⟩)))

/-! ## esl_memspn / esl_memcspn / esl_memtok -/

/-- `c` is in the C-string set `set`, the way `strchr(set, c) != NULL` sees it: the terminating NUL is a member -/
def inSet (set : Bytes) (c : UInt8) : Bool := isSep (cstr set) c

structure TokSplit where
  /-- leading delimiters -/
  skipped : Bytes
  /-- the token: the maximal delimiter-free run after them -/
  tok : Bytes
  /-- the delimiters right after the token (the call skips them too) -/
  trail : Bytes
  /-- what is left for the next call -/
  rest : Bytes
  deriving Repr, DecidableEq

/-- the line cut with standard list functions -/
def tokSplit (delim p : Bytes) : TokSplit :=
  let r1 := p.dropWhile (inSet delim)
  let r2 := r1.dropWhile (fun c => !inSet delim c)
  ⟨p.takeWhile (inSet delim), r1.takeWhile (fun c => !inSet delim c), r2.takeWhile (inSet delim), r2.dropWhile (inSet delim)⟩

/-- the answer of `esl_memtok` stated on the cut -/
def tokSpec (delim p : Bytes) : TokRes :=
  let S := tokSplit delim p
  if S.tok = [] then ⟨.eol, none, 0, p.length⟩
  else ⟨.ok, some (S.skipped.length, S.tok.length), S.skipped.length + S.tok.length + S.trail.length, S.rest.length⟩

/-! ## esl_mem_IsReal (what the code accepts, not what its header promises) -/

def isE (c : UInt8) : Bool := c == 101 || c == 69

/-- the scan of `esl_mem_IsReal` over the blank-free body: at most one `.`, at most one `e`/`E`, no `.` after the `e`/`E`;
    every other byte (digit or not) is passed over -/
def realBodyOK : Bool → Bool → Bytes → Bool
  | _, _, [] => true
  | gd, ge, c :: cs =>
    if c = 46 then !gd && !ge && realBodyOK true ge cs
    else if isE c then !ge && realBodyOK gd true cs
    else realBodyOK gd ge cs

/-- drop one leading `-` or `+` -/
def stripSign : Bytes → Bytes
  | c :: cs => if c = 45 ∨ c = 43 then cs else c :: cs
  | [] => []

/-- what `esl_mem_IsReal` accepts: blanks, an optional sign, a blank-free body that passes `realBodyOK` and contains a digit, blanks -/
def isRealSpec (p : Bytes) : Bool :=
  let r1 := p.dropWhile isspaceB
  let r2 := stripSign r1
  let body := r2.takeWhile (fun c => !isspaceB c)
  let tail := r2.dropWhile (fun c => !isspaceB c)
  !p.isEmpty && realBodyOK false false body && body.any isdigitB && tail.all isspaceB

end EaselModel.Buffer.Mem
