import EaselModel.Buffer.Tokens
import EaselModel.Buffer.ReadFetch
/-! The line and read operations leave the anchor record (in absolute input coordinates) and its reference
    count as they found it. -/
namespace EaselModel.Buffer

/-- an anchor that is set has a positive reference count -/
def AnchOK (b : Buf) : Prop := ∀ a, b.anchor = some a → 1 ≤ b.nanchor

/-- without a stream `setAnchor` is a no-op, so no anchor is ever set -/
def NoFpNoAnchor (b : Buf) : Prop := b.hasfp = false → b.anchor = none

/-- like `Keep`, but the count only matters while an anchor is set -/
structure KeepA (b b' : Buf) : Prop where
  src : b'.src = b.src
  ps : b'.pagesize = b.pagesize
  mode : b'.mode = b.mode
  hasfp : b'.hasfp = b.hasfp
  anch : b'.absAnchor = b.absAnchor
  nanch : b.anchor ≠ none → b'.nanchor = b.nanchor
  nofp : b.hasfp = false → b'.base = b.base ∧ b'.mem = b.mem

theorem absAnchor_eq_none (b : Buf) : b.absAnchor = none ↔ b.anchor = none := by
  simp [Buf.absAnchor]

theorem anchor_none_of_abs {b b' : Buf} (h : b'.absAnchor = b.absAnchor) : b'.anchor = none ↔ b.anchor = none := by
  rw [← absAnchor_eq_none b', ← absAnchor_eq_none b, h]

theorem absAnchor_some {b : Buf} {A : Nat} (h : b.absAnchor = some A) : ∃ a, b.anchor = some a ∧ b.base + a = A := by
  simp only [Buf.absAnchor, Option.map_eq_some_iff] at h
  exact h

theorem KeepA.refl (b : Buf) : KeepA b b := ⟨rfl, rfl, rfl, rfl, rfl, fun _ => rfl, fun _ => ⟨rfl, rfl⟩⟩

theorem Keep.toKeepA {b b' : Buf} (h : Keep b b') : KeepA b b' :=
  ⟨h.src, h.ps, h.mode, h.hasfp, h.anch, fun _ => h.nanch, h.nofp⟩

theorem KeepA.trans {a b c : Buf} (h1 : KeepA a b) (h2 : KeepA b c) : KeepA a c :=
  ⟨h2.src.trans h1.src, h2.ps.trans h1.ps, h2.mode.trans h1.mode, h2.hasfp.trans h1.hasfp,
   h2.anch.trans h1.anch,
   fun hne => (h2.nanch (fun hb => hne ((anchor_none_of_abs h1.anch).mp hb))).trans (h1.nanch hne),
   fun hf => by
     obtain ⟨x1, x2⟩ := h1.nofp hf
     obtain ⟨y1, y2⟩ := h2.nofp (by rw [h1.hasfp]; exact hf)
     exact ⟨y1.trans x1, y2.trans x2⟩⟩

theorem AnchOK.keep {b b' : Buf} (ha : AnchOK b) (k : Keep b b') : AnchOK b' := by
  intro a' ha'
  have : b.anchor ≠ none := by
    intro hb
    have := (anchor_none_of_abs k.anch).mpr hb
    rw [ha'] at this; cases this
  cases hb : b.anchor with
  | none => exact absurd hb this
  | some a => rw [k.nanch]; exact ha a hb

theorem NoFpNoAnchor.keepA {b b' : Buf} (hn : NoFpNoAnchor b) (k : KeepA b b') : NoFpNoAnchor b' := by
  intro hf
  rw [k.hasfp] at hf
  exact (anchor_none_of_abs k.anch).mpr (hn hf)

theorem NoFpNoAnchor.keep {b b' : Buf} (hn : NoFpNoAnchor b) (k : Keep b b') : NoFpNoAnchor b' :=
  hn.keepA k.toKeepA

/-- the anchor record that survives the bracket `SetAnchor(cursor) … RaiseAnchor(cursor)` of the line and token calls:
    an anchor at or before the cursor is untouched; an anchor AHEAD of the cursor (legal for `esl_buffer_SetAnchor`,
    which accepts any offset of the window, and reachable by an in-window rewind) is replaced by the bracket's own
    anchor and disappears with it -/
def Buf.brkAnchor (b : Buf) : Option Nat :=
  match b.anchor with
  | some a => if a ≤ b.pos then some (b.base + a) else none
  | none => none

/-- like `KeepA`, relative to a prescribed anchor record `A` -/
structure KeepX (A : Option Nat) (b b' : Buf) : Prop where
  src : b'.src = b.src
  ps : b'.pagesize = b.pagesize
  mode : b'.mode = b.mode
  hasfp : b'.hasfp = b.hasfp
  anch : b'.absAnchor = A
  nanch : A ≠ none → b'.nanchor = b.nanchor
  nofp : b.hasfp = false → b'.base = b.base ∧ b'.mem = b.mem

theorem KeepX.toKeepA {b b' : Buf} (k : KeepX b.absAnchor b b') : KeepA b b' :=
  ⟨k.src, k.ps, k.mode, k.hasfp, k.anch, fun hne => k.nanch (fun h => hne ((absAnchor_eq_none b).mp h)), k.nofp⟩

theorem KeepA.toKeepX {b b' : Buf} (k : KeepA b b') : KeepX b.absAnchor b b' :=
  ⟨k.src, k.ps, k.mode, k.hasfp, k.anch, fun hne => k.nanch (fun h => hne ((absAnchor_eq_none b).mpr h)), k.nofp⟩

theorem KeepX.transA {A : Option Nat} {a b c : Buf} (h1 : KeepX A a b) (h2 : KeepA b c) : KeepX A a c :=
  ⟨h2.src.trans h1.src, h2.ps.trans h1.ps, h2.mode.trans h1.mode, h2.hasfp.trans h1.hasfp,
   h2.anch.trans h1.anch,
   fun hne => (h2.nanch (fun hb => hne (by rw [← h1.anch]; exact (absAnchor_eq_none b).mpr hb))).trans (h1.nanch hne),
   fun hf => by
     obtain ⟨x1, x2⟩ := h1.nofp hf
     obtain ⟨y1, y2⟩ := h2.nofp (by rw [h1.hasfp]; exact hf)
     exact ⟨y1.trans x1, y2.trans x2⟩⟩

/-- a step that keeps the anchor record, before a `KeepX` step -/
theorem KeepA.transX {A : Option Nat} {a b c : Buf} (h1 : KeepA a b) (h2 : KeepX A b c) (hA : A ≠ none → a.anchor ≠ none) :
    KeepX A a c :=
  ⟨h2.src.trans h1.src, h2.ps.trans h1.ps, h2.mode.trans h1.mode, h2.hasfp.trans h1.hasfp, h2.anch,
   fun hne => (h2.nanch hne).trans (h1.nanch (hA hne)),
   fun hf => by
     obtain ⟨x1, x2⟩ := h1.nofp hf
     obtain ⟨y1, y2⟩ := h2.nofp (by rw [h1.hasfp]; exact hf)
     exact ⟨y1.trans x1, y2.trans x2⟩⟩

/-- `brkAnchor` in input coordinates -/
def brkAt (A : Option Nat) (t : Nat) : Option Nat :=
  match A with
  | some x => if x ≤ t then some x else none
  | none => none

theorem brkAnchor_eq_brkAt (b : Buf) : b.brkAnchor = brkAt b.absAnchor (b.base + b.pos) := by
  unfold Buf.brkAnchor brkAt Buf.absAnchor
  cases b.anchor with
  | none => rfl
  | some a =>
    simp only [Option.map_some]
    by_cases h : a ≤ b.pos
    · rw [if_pos h, if_pos (by omega)]
    · rw [if_neg h, if_neg (by omega)]

theorem brkAt_ne_none {A : Option Nat} {t : Nat} (h : brkAt A t ≠ none) : A ≠ none := by
  intro hA; rw [hA] at h; exact h rfl

theorem brkAnchor_of_le {b : Buf} (hle : ∀ a, b.anchor = some a → a ≤ b.pos) : b.brkAnchor = b.absAnchor := by
  unfold Buf.brkAnchor Buf.absAnchor
  cases ha : b.anchor with
  | none => rfl
  | some a => simp [hle a ha]

theorem brkAnchor_of_ahead {b : Buf} {a : Nat} (ha : b.anchor = some a) (hlt : b.pos < a) : b.brkAnchor = none := by
  unfold Buf.brkAnchor; simp only [ha]; rw [if_neg (by omega)]

/-! ### the loops only change the state through `buffer_refill` -/

theorem countlineLoop_keep (fuel : Nat) : ∀ (b : Buf) (nc : Nat), WF b → Keep b (countlineLoop fuel b nc).2.1 := by
  induction fuel with
  | zero => intro b nc _; exact Keep.refl b
  | succ fuel ih =>
    intro b nc h
    rw [countlineLoop]
    cases hb : backUp b nc with
    | none => exact Keep.refl b
    | some nc1 =>
      simp only []
      split
      · exact Keep.refl b
      · generalize memnewline (b.mem.drop (b.pos + nc1)) = mn
        obtain ⟨nc2, nterm⟩ := mn
        simp only []
        split
        · exact Keep.refl b
        · have hk := refill_keep b (nc1 + nc2) h
          have hw := refill_wf b (nc1 + nc2) h
          generalize refill b (nc1 + nc2) = rf at *
          obtain ⟨st, b'⟩ := rf
          simp only [] at hk hw ⊢
          split
          · exact hk
          · split
            · exact hk.trans (ih b' _ hw)
            · exact hk

theorem countline_keep (b : Buf) (h : WF b) : Keep b (countline b).2.1 := by
  unfold countline
  split
  · exact Keep.refl b
  · split
    · exact Keep.refl b
    · have hk := countlineLoop_keep (b.rest.length + 2) b 0 h
      generalize countlineLoop (b.rest.length + 2) b 0 = r at *
      obtain ⟨st, b', nc, nterm⟩ := r
      simp only [] at hk ⊢
      split
      · exact hk
      · split
        · exact hk
        · exact hk

theorem readLoop_keep (k : Nat) (fuel : Nat) : ∀ (b : Buf), WF b → Keep b (readLoop k fuel b).2 := by
  induction fuel with
  | zero => intro b _; exact Keep.refl b
  | succ fuel ih =>
    intro b h
    rw [readLoop]
    split
    · have hk := refill_keep b k h
      have hw := refill_wf b k h
      generalize refill b k = rf at *
      obtain ⟨st, b1⟩ := rf
      simp only [] at hk hw ⊢
      split
      · exact hk
      · split
        · exact hk
        · split
          · exact hk
          · exact hk.trans (ih b1 hw)
    · exact Keep.refl b

/-! ### anchors -/

theorem raiseAnchor_fields (b : Buf) (o : Nat) :
    (raiseAnchor b o).src = b.src ∧ (raiseAnchor b o).pagesize = b.pagesize ∧ (raiseAnchor b o).mode = b.mode ∧
    (raiseAnchor b o).hasfp = b.hasfp ∧ (raiseAnchor b o).base = b.base ∧ (raiseAnchor b o).mem = b.mem := by
  unfold raiseAnchor
  cases b.anchor with
  | none => exact ⟨rfl, rfl, rfl, rfl, rfl, rfl⟩
  | some a =>
    simp only []
    split
    · split <;> exact ⟨rfl, rfl, rfl, rfl, rfl, rfl⟩
    · exact ⟨rfl, rfl, rfl, rfl, rfl, rfl⟩

theorem setAnchor_fields (b : Buf) (o : Nat) :
    (setAnchor b o).2.src = b.src ∧ (setAnchor b o).2.pagesize = b.pagesize ∧ (setAnchor b o).2.mode = b.mode ∧
    (setAnchor b o).2.hasfp = b.hasfp ∧ (setAnchor b o).2.base = b.base ∧ (setAnchor b o).2.mem = b.mem := by
  unfold setAnchor
  split
  · exact ⟨rfl, rfl, rfl, rfl, rfl, rfl⟩
  · split
    · exact ⟨rfl, rfl, rfl, rfl, rfl, rfl⟩
    · cases b.anchor with
      | none => exact ⟨rfl, rfl, rfl, rfl, rfl, rfl⟩
      | some a =>
        simp only []
        split
        · exact ⟨rfl, rfl, rfl, rfl, rfl, rfl⟩
        · split <;> exact ⟨rfl, rfl, rfl, rfl, rfl, rfl⟩

theorem raiseAnchor_none (b : Buf) (o : Nat) (h : b.anchor = none) : raiseAnchor b o = b := by
  unfold raiseAnchor; simp only [h]

theorem raiseAnchor_miss (b : Buf) (o a : Nat) (h : b.anchor = some a) (hne : b.base + a ≠ o) :
    raiseAnchor b o = b := by
  unfold raiseAnchor; simp only [h]
  rw [if_neg]; omega

theorem raiseAnchor_last (b : Buf) (o a : Nat) (h : b.anchor = some a) (he : b.base + a = o)
    (hn : b.nanchor - 1 = 0) : raiseAnchor b o = { b with nanchor := 0, anchor := none, stab := false } := by
  unfold raiseAnchor; simp only [h]
  rw [if_pos (by omega), if_pos hn]

theorem raiseAnchor_more (b : Buf) (o a : Nat) (h : b.anchor = some a) (he : b.base + a = o)
    (hn : b.nanchor - 1 ≠ 0) : raiseAnchor b o = { b with nanchor := b.nanchor - 1 } := by
  unfold raiseAnchor; simp only [h]
  rw [if_pos (by omega), if_neg hn]

/-- The bracket `SetAnchor(offset) … RaiseAnchor(offset)` around steps that keep the anchor record: afterwards
    the anchor record is what it was before. -/
theorem bracketX (b b3 : Buf) (h : WF b) (ha : AnchOK b) (hn : NoFpNoAnchor b)
    (hk : Keep (setAnchor b (b.base + b.pos)).2 b3) :
    KeepX b.brkAnchor b (raiseAnchor b3 (b.base + b.pos)) ∧ AnchOK (raiseAnchor b3 (b.base + b.pos)) := by
  have hp := h.hpos
  obtain ⟨f1, f2, f3, f4, f5, f6⟩ := setAnchor_fields b (b.base + b.pos)
  obtain ⟨g1, g2, g3, g4, g5, g6⟩ := raiseAnchor_fields b3 (b.base + b.pos)
  have core : (raiseAnchor b3 (b.base + b.pos)).absAnchor = b.brkAnchor ∧
      (b.brkAnchor ≠ none → (raiseAnchor b3 (b.base + b.pos)).nanchor = b.nanchor) ∧
      AnchOK (raiseAnchor b3 (b.base + b.pos)) := by
    cases hfp : b.hasfp with
    | false =>
      have e : (setAnchor b (b.base + b.pos)).2 = b := by unfold setAnchor; simp [hfp]
      rw [e] at hk
      have h3 : b3.anchor = none := (anchor_none_of_abs hk.anch).mpr (hn hfp)
      rw [raiseAnchor_none b3 _ h3]
      have hbk : b.brkAnchor = b.absAnchor := brkAnchor_of_le (fun a haa => by rw [hn hfp] at haa; cases haa)
      rw [hbk]
      exact ⟨hk.anch, fun _ => hk.nanch, ha.keep hk⟩
    | true =>
      have hr : ¬ (b.base + b.pos < b.base ∨ b.base + b.pos > b.base + b.n) := by omega
      have hsub : b.base + b.pos - b.base = b.pos := by omega
      cases han : b.anchor with
      | none =>
        have e : (setAnchor b (b.base + b.pos)).2 = { b with anchor := some b.pos, nanchor := 1 } := by
          unfold setAnchor; simp only [hfp, hr, han, hsub]; rfl
        rw [e] at hk
        have hA : b3.absAnchor = some (b.base + b.pos) := hk.anch
        have hN : b3.nanchor = 1 := hk.nanch
        obtain ⟨a3, h3, h3e⟩ := absAnchor_some hA
        rw [raiseAnchor_last b3 _ a3 h3 h3e (by omega)]
        refine ⟨?_, fun hne => absurd ?_ hne, ?_⟩
        · simp [Buf.absAnchor, Buf.brkAnchor, han]
        · simp [Buf.brkAnchor, han]
        · intro a haa; simp at haa
      | some a =>
        by_cases hap : a ≤ b.pos
        case neg =>
          -- an anchor ahead of the cursor: `SetAnchor(cursor)` replaces it (`r < anchor`), `RaiseAnchor(cursor)` removes that
          have hbk : b.brkAnchor = none := brkAnchor_of_ahead han (by omega)
          have e : (setAnchor b (b.base + b.pos)).2 = { b with anchor := some b.pos, nanchor := 1 } := by
            unfold setAnchor; simp only [hfp, hr, han, hsub]
            have x1 : b.pos < a := by omega
            simp [x1]
          rw [e] at hk
          have hA : b3.absAnchor = some (b.base + b.pos) := hk.anch
          have hN : b3.nanchor = 1 := hk.nanch
          obtain ⟨a3, h3, h3e⟩ := absAnchor_some hA
          rw [raiseAnchor_last b3 _ a3 h3 h3e (by omega), hbk]
          refine ⟨?_, fun hne => absurd rfl hne, ?_⟩
          · simp [Buf.absAnchor]
          · intro a haa; simp at haa
        have hbk : b.brkAnchor = b.absAnchor := brkAnchor_of_le (fun x hx => by rw [han] at hx; cases hx; exact hap)
        rw [hbk]
        have hbA : b.absAnchor = some (b.base + a) := by simp [Buf.absAnchor, han]
        by_cases hae : a = b.pos
        · have e : (setAnchor b (b.base + b.pos)).2 = { b with nanchor := b.nanchor + 1 } := by
            unfold setAnchor; simp only [hfp, hr, han, hsub, hae]; simp
          rw [e] at hk
          have hA : b3.absAnchor = b.absAnchor := hk.anch
          have hN : b3.nanchor = b.nanchor + 1 := hk.nanch
          obtain ⟨a3, h3, h3e⟩ := absAnchor_some (hA.trans hbA)
          have h1 := ha a han
          rw [raiseAnchor_more b3 _ a3 h3 (by omega) (by omega)]
          refine ⟨hA, fun _ => ?_, fun _ _ => ?_⟩
          · show b3.nanchor - 1 = b.nanchor; omega
          · show 1 ≤ b3.nanchor - 1; omega
        · have e : (setAnchor b (b.base + b.pos)).2 = b := by
            unfold setAnchor; simp only [hfp, hr, han, hsub]
            have x1 : ¬ b.pos < a := by omega
            have x2 : ¬ b.pos = a := by omega
            simp [x1, x2]
          rw [e] at hk
          obtain ⟨a3, h3, h3e⟩ := absAnchor_some (hk.anch.trans hbA)
          rw [raiseAnchor_miss b3 _ a3 h3 (by omega)]
          exact ⟨hk.anch, fun _ => hk.nanch, ha.keep hk⟩
  refine ⟨⟨g1.trans (hk.src.trans f1), g2.trans (hk.ps.trans f2), g3.trans (hk.mode.trans f3),
    g4.trans (hk.hasfp.trans f4), core.1, core.2.1, fun hf => ?_⟩, core.2.2⟩
  obtain ⟨y1, y2⟩ := hk.nofp (by rw [f4]; exact hf)
  exact ⟨g5.trans (y1.trans f5), g6.trans (y2.trans f6)⟩

/-- the bracket when the anchor is at or before the cursor (every history inside the API contract) -/
theorem bracket (b b3 : Buf) (h : WF b) (ha : AnchOK b) (hn : NoFpNoAnchor b) (hle : ∀ a, b.anchor = some a → a ≤ b.pos)
    (hk : Keep (setAnchor b (b.base + b.pos)).2 b3) :
    KeepA b (raiseAnchor b3 (b.base + b.pos)) ∧ AnchOK (raiseAnchor b3 (b.base + b.pos)) := by
  obtain ⟨k, a⟩ := bracketX b b3 h ha hn hk
  rw [brkAnchor_of_le hle] at k
  exact ⟨k.toKeepA, a⟩

theorem KeepX.setpos {A : Option Nat} {b b4 : Buf} (k : KeepX A b b4) (p : Nat) : KeepX A b { b4 with pos := p } :=
  k.transA (setpos_keep b4 p).toKeepA

/-- moving the cursor does not touch what `KeepA`/`AnchOK` talk about -/
theorem KeepA.setpos {b b4 : Buf} (k : KeepA b b4) (p : Nat) : KeepA b { b4 with pos := p } :=
  k.trans (setpos_keep b4 p).toKeepA

/-! ### the operations -/

theorem getLine_keepX (b : Buf) (h : WF b) (ha : AnchOK b) (hn : NoFpNoAnchor b) :
    KeepX b.brkAnchor b (getLine b).2 ∧ AnchOK (getLine b).2 := by
  have hp := h.hpos
  obtain ⟨s1, s2, s3⟩ := setAnchor_spec b (b.base + b.pos) h (by omega) (Nat.le_refl _)
  have hbr := fun b3 => bracketX b b3 h ha hn
  generalize hsa : setAnchor b (b.base + b.pos) = sa at *
  obtain ⟨st1, b1⟩ := sa
  simp only [] at s1 s2 s3 hbr
  subst s1
  obtain ⟨m1, m2, m3, m4, m5⟩ := s2.same
  obtain ⟨c1, c2, c3, c4⟩ := countline_spec b1 s3
  have ck := countline_keep b1 s3
  by_cases he : b.pos = b.n
  · have he1 : b1.pos = b1.n := by simp [Buf.n, m1, m2]; exact he
    have hcl := c3 he1
    have e : getLine b = ({ st := .eof }, raiseAnchor b1 (b.base + b.pos)) := by
      unfold getLine; simp only [hsa, hcl]
    rw [e]
    exact hbr b1 (Keep.refl b1)
  · have hlt1 : b1.pos < b1.n := by simp only [Buf.n, m1, m2] at *; omega
    obtain ⟨d1, d2, d3, d4⟩ := c4 hlt1
    generalize hcl : countline b1 = cl at *
    obtain ⟨st2, b2, nc, nskip⟩ := cl
    simp only [] at c1 c2 d1 d2 d3 d4 ck
    subst d1
    clear c3 c4
    have hr3 := refill_post b2 nskip c1
    have hk3 := refill_keep b2 nskip c1
    generalize hrf : refill b2 nskip = rf at *
    obtain ⟨st3, b3⟩ := rf
    simp only [] at hr3 hk3
    have hst3 : ¬ (st3 ≠ .eof ∧ st3 ≠ .ok) := by rcases hr3.status with h3 | h3 <;> simp [h3]
    have hr4 := raiseAnchor_spec b3 (b.base + b.pos) hr3.wf
    obtain ⟨k4, a4⟩ := hbr b3 (ck.trans hk3)
    generalize hb4 : raiseAnchor b3 (b.base + b.pos) = b4 at *
    have hw4 : nskip ≤ b4.win.length := by
      have a1 := hr3.frame.avail
      have a2 := hr4.1.frame.avail
      rw [win_length] at d4 ⊢; omega
    have hncle : nc ≤ nskip := by omega
    have hsl := slice_eq hr4.2 nc (by omega)
    have hfit : b4.pos + nskip ≤ b4.n := by
      have := hr4.2.hpos
      rw [win_length] at hw4; omega
    have e : getLine b = (({ st := .ok, bytes := (b4.src.drop (b4.base + b4.pos)).take nc, n := nc, p := some b4.pos } : Out),
        { b4 with pos := b4.pos + nskip }) := by
      unfold getLine; simp only [hsa, hcl, hrf, hst3, if_false, hb4, hsl, hfit, if_true]
    rw [e]
    exact ⟨k4.setpos _, a4⟩

theorem getLine_keep (b : Buf) (h : WF b) (ha : AnchOK b) (hn : NoFpNoAnchor b) (hle : ∀ a, b.anchor = some a → a ≤ b.pos) :
    KeepA b (getLine b).2 ∧ AnchOK (getLine b).2 := by
  obtain ⟨k, a⟩ := getLine_keepX b h ha hn
  rw [brkAnchor_of_le hle] at k
  exact ⟨k.toKeepA, a⟩

theorem fetchLine_keepX (b : Buf) (asStr : Bool) (h : WF b) (ha : AnchOK b) (hn : NoFpNoAnchor b) :
    KeepX b.brkAnchor b (fetchLine b asStr).2 ∧ AnchOK (fetchLine b asStr).2 := by
  have hp := h.hpos
  obtain ⟨s1, s2, s3⟩ := setAnchor_spec b (b.base + b.pos) h (by omega) (Nat.le_refl _)
  have hbr := fun b3 => bracketX b b3 h ha hn
  generalize hsa : setAnchor b (b.base + b.pos) = sa at *
  obtain ⟨st1, b1⟩ := sa
  simp only [] at s1 s2 s3 hbr
  subst s1
  obtain ⟨m1, m2, m3, m4, m5⟩ := s2.same
  obtain ⟨c1, c2, c3, c4⟩ := countline_spec b1 s3
  have ck := countline_keep b1 s3
  by_cases he : b.pos = b.n
  · have he1 : b1.pos = b1.n := by simp [Buf.n, m1, m2]; exact he
    have hcl := c3 he1
    have e : fetchLine b asStr = ({ st := .eof }, raiseAnchor b1 (b.base + b.pos)) := by
      unfold fetchLine; simp only [hsa, hcl]
    rw [e]
    exact hbr b1 (Keep.refl b1)
  · have hlt1 : b1.pos < b1.n := by simp only [Buf.n, m1, m2] at *; omega
    obtain ⟨d1, d2, d3, d4⟩ := c4 hlt1
    generalize hcl : countline b1 = cl at *
    obtain ⟨st2, b2, nc, nskip⟩ := cl
    simp only [] at c1 c2 d1 d2 d3 d4 ck
    subst d1
    clear c3 c4
    have hncle : nc ≤ nskip := by omega
    have hsl := slice_eq c1 nc (by omega)
    have hfit : b2.pos + nskip ≤ b2.n := by
      have := c1.hpos
      rw [win_length] at d4; omega
    have hw3 := advance_wf c1 nskip hfit
    have hk3 : Keep b1 { b2 with pos := b2.pos + nskip } := ck.trans (setpos_keep b2 _)
    generalize hb3 : ({ b2 with pos := b2.pos + nskip } : Buf) = b3 at *
    have hr4 := raiseAnchor_spec b3 (b.base + b.pos) hw3
    obtain ⟨k4, a4⟩ := hbr b3 hk3
    generalize hb4 : raiseAnchor b3 (b.base + b.pos) = b4 at *
    have hr5 := refill_post b4 0 hr4.2
    have hk5 := refill_keep b4 0 hr4.2
    generalize hrf : refill b4 0 = rf at *
    obtain ⟨st5, b5⟩ := rf
    simp only [] at hr5 hk5
    have hst5 : ¬ (st5 ≠ .eof ∧ st5 ≠ .ok) := by rcases hr5.status with h3 | h3 <;> simp [h3]
    have e : fetchLine b asStr =
        (({ st := .ok, bytes := (b2.src.drop (b2.base + b2.pos)).take nc, n := nc, z := asStr } : Out), b5) := by
      unfold fetchLine; simp only [hsa, hcl, hsl, hb3, hb4, hrf, hst5, if_false]
    rw [e]
    exact ⟨k4.transA hk5.toKeepA, a4.keep hk5⟩

theorem fetchLine_keep (b : Buf) (asStr : Bool) (h : WF b) (ha : AnchOK b) (hn : NoFpNoAnchor b)
    (hle : ∀ a, b.anchor = some a → a ≤ b.pos) : KeepA b (fetchLine b asStr).2 ∧ AnchOK (fetchLine b asStr).2 := by
  obtain ⟨k, a⟩ := fetchLine_keepX b asStr h ha hn
  rw [brkAnchor_of_le hle] at k
  exact ⟨k.toKeepA, a⟩

theorem read_keep (b : Buf) (k : Nat) (h : WF b) (ha : AnchOK b) : Keep b (read b k).2 ∧ AnchOK (read b k).2 := by
  have hk : Keep b (read b k).2 := by
    have hp := h.hpos
    have hng : ¬ b.pos > b.n := by omega
    obtain ⟨l1, _, _, _⟩ := readLoop_spec k (b.rest.length + 2) b h (by omega)
    have lk := readLoop_keep k (b.rest.length + 2) b h
    generalize hrl : readLoop k (b.rest.length + 2) b = r at *
    obtain ⟨st1, b1⟩ := r
    simp only [] at l1 lk
    unfold read
    simp only [hng, if_false, hrl]
    cases st1 <;> try exact lk
    simp only []
    cases hs : slice b1 b1.pos k with
    | none => exact lk
    | some bytes =>
      simp only []
      have hfit : b1.pos + k ≤ b1.n := by
        unfold slice at hs
        split at hs
        · assumption
        · cases hs
      have hw2 := advance_wf l1 k hfit
      have hk2 := refill_keep _ 0 hw2
      generalize refill { b1 with pos := b1.pos + k } 0 = rf at *
      obtain ⟨st3, b3⟩ := rf
      simp only [] at hk2 ⊢
      have hk3 : Keep b b3 := (lk.trans (setpos_keep b1 _)).trans hk2
      split <;> exact hk3
  exact ⟨hk, ha.keep hk⟩

end EaselModel.Buffer
