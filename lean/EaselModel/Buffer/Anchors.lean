import EaselModel.Buffer.GetLine
/-! The anchor record in absolute input coordinates, and what `buffer_refill` does to it. -/
namespace EaselModel.Buffer

/-- the anchor as an offset in the input -/
def Buf.absAnchor (b : Buf) : Option Nat := b.anchor.map (b.base + ·)

theorem dropFront_absAnchor0 (b : Buf) (a : Nat) :
    (dropFront { b with anchor := some 0 } a).absAnchor = some (b.base + a) := by
  simp [Buf.absAnchor, dropFront]

/-- `buffer_refill` keeps the anchor where it is in the input (it may renumber it to window position 0),
    keeps its reference count, and never lets the window start move past it. -/
theorem refill_anchor (b : Buf) (nmin : Nat) (h : WF b) :
    (refill b nmin).2.absAnchor = b.absAnchor ∧ (refill b nmin).2.nanchor = b.nanchor ∧
    (b.anchor = none → (refill b nmin).2.anchor = none) ∧
    (b.hasfp = false → (refill b nmin).2 = b) ∧
    b.base ≤ (refill b nmin).2.base := by
  unfold refill
  split
  · rename_i hc
    exact ⟨rfl, rfl, (fun x => x), (fun _ => rfl), Nat.le_refl _⟩
  · rename_i hc
    have hfp : b.hasfp = true := by
      cases hh : b.hasfp with
      | true => rfl
      | false => simp [hh] at hc
    split
    · exact ⟨rfl, rfl, (fun x => x), (fun _ => rfl), Nat.le_refl _⟩
    · split
      · exact ⟨rfl, rfl, (fun x => x), (fun _ => rfl), Nat.le_refl _⟩
      · -- shift, grow, load
        have key : ∀ b1, shiftLeft b = some b1 → b1.absAnchor = b.absAnchor ∧ b1.nanchor = b.nanchor ∧
            (b.anchor = none → b1.anchor = none) ∧ b.base ≤ b1.base := by
          intro b1 hb1
          unfold shiftLeft at hb1
          by_cases hpin : pinned b = true
          · rw [if_pos hpin] at hb1; cases hb1
            exact ⟨rfl, rfl, (fun x => x), Nat.le_refl _⟩
          rw [if_neg hpin] at hb1
          unfold shiftLeft0 at hb1
          split at hb1
          · cases ha : b.anchor with
            | none =>
              simp only [ha] at hb1
              cases hb1
              exact ⟨by simp [Buf.absAnchor, dropFront, ha], rfl, (fun _ => by simp [dropFront, ha]), by simp [dropFront]⟩
            | some a =>
              simp only [ha] at hb1
              split at hb1
              · cases hb1
                refine ⟨?_, rfl, (fun hh => by cases hh), by simp [dropFront]⟩
                rw [dropFront_absAnchor0]; simp [Buf.absAnchor, ha]
              · rename_i hgt
                cases hb1
                refine ⟨?_, rfl, (fun hh => by cases hh), by simp [dropFront]⟩
                simp only [Buf.absAnchor, dropFront, ha, Option.map_some]
                congr 1; omega
          · cases hb1
            exact ⟨rfl, rfl, (fun x => x), Nat.le_refl _⟩
        obtain ⟨b1, hb1, _⟩ := shiftLeft_spec h
        obtain ⟨k1, k2, k3, k4⟩ := key b1 hb1
        rw [hb1]
        have g : (grow b1).anchor = b1.anchor ∧ (grow b1).base = b1.base ∧ (grow b1).nanchor = b1.nanchor := by
          unfold grow growR grow0; split <;> split <;> exact ⟨rfl, rfl, rfl⟩
        have l : (load (grow b1)).2.anchor = (grow b1).anchor ∧ (load (grow b1)).2.base = (grow b1).base ∧
            (load (grow b1)).2.nanchor = (grow b1).nanchor := ⟨rfl, rfl, rfl⟩
        refine ⟨?_, ?_, ?_, ?_, ?_⟩
        · show (load (grow b1)).2.absAnchor = _
          rw [← k1]
          simp only [Buf.absAnchor, l.1, l.2.1, g.1, g.2.1]
        · show (load (grow b1)).2.nanchor = _
          rw [l.2.2, g.2.2, k2]
        · intro hn
          show (load (grow b1)).2.anchor = none
          rw [l.1, g.1]; exact k3 hn
        · intro hh; rw [hfp] at hh; cases hh
        · show b.base ≤ (load (grow b1)).2.base
          rw [l.2.1, g.2.1]; exact k4

/-- The bytes from input offset `o` on stay loaded: the window starts at or before `o`, and if there is a stream
    (so that refills can discard bytes) an anchor at or before `o` protects them. -/
def Prot (b : Buf) (o : Nat) : Prop :=
  b.base ≤ o ∧ (b.hasfp = true → ∃ A, b.absAnchor = some A ∧ A ≤ o)

theorem refill_prot (b : Buf) (nmin : Nat) (h : WF b) (o : Nat) (hp : Prot b o) : Prot (refill b nmin).2 o := by
  obtain ⟨a1, a2, a3, a4, a5⟩ := refill_anchor b nmin h
  have fr := (refill_post b nmin h).frame
  cases hfp : b.hasfp with
  | false =>
    rw [a4 hfp]; exact hp
  | true =>
    obtain ⟨A, hA, hle⟩ := hp.2 hfp
    refine ⟨?_, fun _ => ⟨A, by rw [a1]; exact hA, hle⟩⟩
    -- the new base is at or before the anchor
    have : (refill b nmin).2.absAnchor = some A := by rw [a1]; exact hA
    simp only [Buf.absAnchor, Option.map_eq_some_iff] at this
    obtain ⟨a, _, hh⟩ := this
    omega

end EaselModel.Buffer
