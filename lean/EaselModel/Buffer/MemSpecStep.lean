import EaselModel.Buffer.SpecHist
/-! The total specification of the 14 operations on a buffer that holds the whole input (`memStep`; theorem
`history_memory_exact` in `MemExact.lean`). Definitions only, core Lean (the driver links this file). -/
namespace EaselModel.Buffer

/-- specification of the 14 operations on a buffer that holds the whole input (total: every argument) -/
def memStep (a : AState) (op : Op) : Obs × AState :=
  match op with
  | .setAnchor _ | .setStableAnchor _ | .raiseAnchor _ => (⟨.ok, [], a.cur⟩, { a with lastp := none })
  | .setOffset o =>
    if a.src.length < o then (⟨.einval, [], a.cur⟩, { a with lastp := none })
    else (⟨.ok, [], o⟩, { a with cur := o, lastp := none })
  | op => specStep a op

def memRun : AState → List Op → List Obs
  | _, [] => []
  | a, op :: ops => (memStep a op).1 :: memRun (memStep a op).2 ops

end EaselModel.Buffer
