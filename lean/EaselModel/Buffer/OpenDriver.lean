import EaselModel.Core.Proto
import EaselModel.Buffer.OpenFile
/-! Driver side of the `fsopen` op of the C05 line protocol (core Lean only).

  fsopen name=<hex filename> env=<0|1|2> dirs=<hex value of the variable> ps=<hook page size, 0 = none> files=<entry>,<entry>,… | files=-
     env=0: `envvar` is NULL; env=1: `envvar` names a variable that is not set; env=2: the variable is set to `dirs`
     entry = <hex path>:<hex unit>[*<rep>][:<hex plain>]   the file `path` (relative to the working directory of the call)
             contains `unit` repeated `rep` times; with `:<plain>` the content is a gzip stream of `plain`
             (`gzip -dc` writes `plain` and exits 0); on any other content `gzip -dc` writes nothing and fails.
  answer: `ok - n=0 off=0 a=- mode=<mode_is> file=<hex bf->filename> ps=<bf->pagesize>`
        | `<status> bf=1 msg=1 unset=1`   (normal error: UNSET buffer carrying a message)
        | `<status> bf=0`                 (exception: NULL)
        | `fault`                         (out-of-bounds read in the model) -/
namespace EaselModel.Buffer.OpenDriver
open EaselModel.Proto EaselModel.Buffer EaselModel.Buffer.OpenFile

/-- the environment variable the harness uses: "H_BUFFER_PATH" -/
def envName : CStr := [72, 95, 66, 85, 70, 70, 69, 82, 95, 80, 65, 84, 72]

def parseContent (s : String) : Option Bytes :=
  match s.splitOn "*" with
  | [u] => bytesOfHex u
  | [u, k] =>
    match bytesOfHex u, k.toNat? with
    | some u, some k => some (List.replicate k u).flatten
    | _, _ => none
  | _ => none

def parseEntry (w : String) : Option (CStr × Bytes × Option Bytes) :=
  match w.splitOn ":" with
  | [p, c] =>
    match bytesOfHex p, parseContent c with
    | some p, some c => some (p, c, none)
    | _, _ => none
  | [p, c, z] =>
    match bytesOfHex p, parseContent c, bytesOfHex z with
    | some p, some c, some z => some (p, c, some z)
    | _, _, _ => none
  | _ => none

def parseFiles (s : String) : Option (List (CStr × Bytes × Option Bytes)) :=
  if s == "-" then some [] else (s.splitOn ",").mapM parseEntry

def modeName : Mode → String
  | .stream => "stream" | .cmdpipe => "pipe" | .file => "file" | .allfile => "allfile" | .mmap => "mmap" | .string => "string"

def ostName : OSt → String
  | .ok => "ok" | .enotfound => "enotfound" | .fail => "fail" | .esys => "esys" | .fault => "fault"

/-- answer line and, when a buffer was opened: its initial model state, the bytes it delivers, the page size the
    history may rely on -/
def openLine (ws : List String) : Option (String × Option (Buf × Bytes × Nat)) :=
  match argHex? ws "name", argNat? ws "env", argHex? ws "dirs", argNat? ws "ps", (arg? ws "files").bind parseFiles with
  | some name, some envk, some dirs, some ps0, some files =>
    let fs : FS := files.map fun e => (e.1, e.2.1)
    let table : List (Bytes × Bytes) := files.filterMap fun e => e.2.2.map fun z => (e.2.1, z)
    let gunzip : Bytes → Bytes × Bool := fun raw =>
      match List.lookup raw table with
      | some z => (z, true)
      | none => ([], false)
    let env : Env := if envk = 2 then [(envName, dirs)] else []
    let envvar : Option CStr := if envk = 0 then none else some envName
    let cfg : Cfg := { hookPs := ps0 }
    let r := openTree cfg fs env gunzip [] name envvar
    match r.st, r.c, r.b with
    | .fault, _, _ => some ("fault", none)
    | .ok, some c, some (b, src) =>
      some ("ok - n=0 off=0 a=- mode=" ++ modeName b.mode ++ " file=" ++ hexOrDash (c.filename.getD [])
              ++ " ps=" ++ toString c.pagesize,
            some (b, src, if ps0 = 0 then 512 else ps0))
    | st, some c, _ =>
      some (ostName st ++ " bf=1 msg=" ++ (if c.errmsg then "1" else "0") ++ " unset=" ++ (if c.mode_is = .unset && !c.mem && !c.fp then "1" else "0"), none)
    | st, none, _ => some (ostName st ++ " bf=0", none)
  | _, _, _, _, _ => none

end EaselModel.Buffer.OpenDriver
