import EaselModel.Alphabet.ScoreLemmas
/-! # C08 — `esl_abc_Match(abc, x, y, NULL)`: with the uniform background the match probability of two residue codes is
|S(x) ∩ S(y)| / (|S(x)| · |S(y)|) -/
set_option linter.dupNamespace false
namespace EaselModel.Alphabet
namespace Alphabet

/-- the canonical residues common to the sets of `x` and `y` -/
def commonSet (a : Alphabet) (x y : Nat) : List Nat :=
  (List.range a.K).filter fun j => (a.degen.getD x []).getD j 0 ≠ 0 ∧ (a.degen.getD y []).getD j 0 ≠ 0

theorem sum_map_const (l : List Nat) (c : ℚ) : (l.map fun _ => c).sum = (l.length : ℚ) * c := by
  induction l with
  | nil => simp
  | cons x xs ih => rw [List.map_cons, List.sum_cons, ih, List.length_cons]; push_cast; ring

theorem flagSum2_common (a : Alphabet) (x y : Nat) (fv : Nat → ℚ) :
    flagSum2 (a.degen.getD x []) (a.degen.getD y []) fv 0 a.K = ((a.commonSet x y).map fv).sum := by
  unfold flagSum2 commonSet
  rw [List.range_eq_range']

/-- `esl_abc_Match(abc, x, y, NULL)` for two residue codes, at least one degenerate -/
theorem matchProb_uniform (a : Alphabet) (h : a.WFDegen) (hK : 1 ≤ a.K) (x y : Nat) (hx : x < a.Kp) (hy : y < a.Kp)
    (hrx : a.xIsResidue x = true) (hry : a.xIsResidue y = true) (hnc : (a.xIsCanonical x && a.xIsCanonical y) = false) :
    a.matchProb x y (none : Option (List ℚ)) =
      some (((a.commonSet x y).length : ℚ) / (((a.degenSet x).length : ℚ) * ((a.degenSet y).length : ℚ))) := by
  obtain ⟨hd, hn, hrow⟩ := h
  have e1 : a.degen[x]? = some (a.degen.getD x []) := by
    rw [List.getD_eq_getElem?_getD, List.getElem?_eq_getElem (by omega)]; simp
  have e2 : a.degen[y]? = some (a.degen.getD y []) := by
    rw [List.getD_eq_getElem?_getD, List.getElem?_eq_getElem (by omega)]; simp
  unfold matchProb
  simp only [hnc, Bool.false_eq_true, if_false, hrx, hry, Bool.not_true, Bool.or_self, e1, e2, Option.bind_eq_bind,
    Option.bind_some]
  rw [matchLoop_sum _ _ _ (fun _ => (1 : ℚ) / (a.K : ℚ)) a.K 0 _ _ _ (by rw [(hrow x hx).1]; omega) (by rw [(hrow y hy).1]; omega)
    (fun j _ hj => by simp only [sn_div, sn_ofNat, Nat.cast_one])]
  simp only [Option.bind_some, sn_zero, zero_add, sn_div, sn_mul]
  rw [flagSum2_common, flagSum_degenSet, flagSum_degenSet, sum_map_const, sum_map_const, sum_map_const]
  congr 1
  have hKq : (a.K : ℚ) ≠ 0 := by exact_mod_cast (by omega : a.K ≠ 0)
  by_cases hx0 : ((a.degenSet x).length : ℚ) = 0
  · rw [hx0]; simp
  · by_cases hy0 : ((a.degenSet y).length : ℚ) = 0
    · rw [hy0]; simp
    · field_simp

end Alphabet
end EaselModel.Alphabet
