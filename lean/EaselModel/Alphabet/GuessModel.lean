/-! # C08 — model of `esl_abc_GuessAlphabet` and of the counting loop of `esl_sq_GuessAlphabet` (core Lean).

Two versions of the classifier: `guessAlphabet` mirrors the C `double` comparisons `d <= 0.02*n` with `Float`;
`guessZ` writes them `50*d ≤ n` over the integers (what the theorems are about). The driver runs both on every
input and reports a split, so the run ties `guessZ` to the code as well (the two tests agree for |n|, |d| < 2^40:
0.02 as a binary64 is 0.02(1 + 2·10⁻¹⁷), `n/50` is representable whenever it is an integer, and rounding is monotone). -/
namespace EaselModel.Alphabet.Guess

/-- `x = ct[…]` with `int x` and `int64_t ct[]`: conversion to a 32-bit `int` -/
def wrap32 (v : Int) : Int := (v + 2147483648) % 4294967296 - 2147483648

/-- sum and number of distinct letters with a positive count among `letters` (given as indices 0..25) -/
def tally (ct : List Int) (letters : List Nat) : Int × Nat :=
  letters.foldl (fun (acc : Int × Nat) l => let x := wrap32 (ct.getD l 0); if x > 0 then (acc.1 + x, acc.2 + 1) else acc) (0, 0)

def idx (s : String) : List Nat := s.toList.map fun c => c.toNat - 65

def aaonly : List Nat := [4, 5, 8, 9, 11, 14, 15, 16, 25]        -- "EFIJLOPQZ"
def allcanon : List Nat := [0, 2, 6]                             -- "ACG"
def aacanon : List Nat := [3, 7, 10, 12, 17, 18, 21, 22, 24]     -- "DHKMRSVWY"

def total (ct : List Int) : Int := (List.range 26).foldl (fun acc i => acc + ct.getD i 0) 0

/-- `esl_abc_GuessAlphabet(ct, &type)`: returns (eslOK?, type) with type 0 = unknown, 1 = RNA, 2 = DNA, 3 = amino -/
def guessAlphabet (ct : List Int) : Bool × Nat :=
  let n : Int := (List.range 26).foldl (fun acc i => acc + ct.getD i 0) 0
  let (n1, x1) := tally ct (idx "EFIJLOPQZ")
  let (n2, x2) := tally ct (idx "ACG")
  let (n3, x3) := tally ct (idx "DHKMRSVWY")
  let nt := ct.getD 19 0; let xt := if nt ≠ 0 then 1 else 0
  let nu := ct.getD 20 0; let xu := if nu ≠ 0 then 1 else 0
  let nx := ct.getD 23 0
  let nn := ct.getD 13 0; let xn := if nn ≠ 0 then 1 else 0
  let thr : Float := 0.02 * Float.ofInt n
  let type : Nat :=
    if n ≤ 10 then 0
    else if n > 2000 ∧ nn = n then 2
    else if n1 > 0 then 3
    else if Float.ofInt (n - (n2 + nt + nn)) ≤ thr ∧ x2 + xt = 4 then 2
    else if Float.ofInt (n - (n2 + nu + nn)) ≤ thr ∧ x2 + xu = 4 then 1
    else if Float.ofInt (n - (n1 + n2 + n3 + nn + nt + nx)) ≤ thr ∧ n3 > n2 ∧ x1 + x2 + x3 + xn + xt ≥ 15 then 3
    else 0
  (type ≠ 0, type)

/-- the classifier with the 2 % tests over the integers -/
def guessZ (ct : List Int) : Nat :=
  let n : Int := total ct
  let t1 := tally ct aaonly
  let t2 := tally ct allcanon
  let t3 := tally ct aacanon
  let nt := ct.getD 19 0; let xt : Nat := if nt ≠ 0 then 1 else 0
  let nu := ct.getD 20 0; let xu : Nat := if nu ≠ 0 then 1 else 0
  let nx := ct.getD 23 0
  let nn := ct.getD 13 0; let xn : Nat := if nn ≠ 0 then 1 else 0
  if n ≤ 10 then 0
  else if n > 2000 ∧ nn = n then 2
  else if t1.1 > 0 then 3
  else if 50 * (n - (t2.1 + nt + nn)) ≤ n ∧ t2.2 + xt = 4 then 2
  else if 50 * (n - (t2.1 + nu + nn)) ≤ n ∧ t2.2 + xu = 4 then 1
  else if 50 * (n - (t1.1 + t2.1 + t3.1 + nn + nt + nx)) ≤ n ∧ t3.1 > t2.1 ∧ t1.2 + t2.2 + t3.2 + xn + xt ≥ 15 then 3
  else 0

/-- `toupper(sq->seq[i]) - 'A'` for a (signed) `char`: a byte ≥ 0x80 is negative and stays so; result as an integer -/
def letterIdx (c : Nat) : Int :=
  if c ≥ 128 then (c : Int) - 256 - 65
  else if 97 ≤ c ∧ c ≤ 122 then (c : Int) - 32 - 65 else (c : Int) - 65

/-- the counting loop of `esl_sq_GuessAlphabet`: `ct[x]++; n++; if (n > 10000) break;` -/
def sqCount : List Nat → List Int → Nat → List Int
  | [], ct, _ => ct
  | c :: cs, ct, n =>
    let x := letterIdx c
    if x < 0 ∨ x ≥ 26 then sqCount cs ct n
    else
      let ct' := ct.set x.toNat (ct.getD x.toNat 0 + 1)
      if n + 1 > 10000 then ct' else sqCount cs ct' (n + 1)

/-- `esl_sq_GuessAlphabet(sq, &type)` on a text-mode sequence -/
def sqGuess (seq : List Nat) : Bool × Nat := guessAlphabet (sqCount seq (List.replicate 26 0) 0)
def sqGuessZ (seq : List Nat) : Nat := guessZ (sqCount seq (List.replicate 26 0) 0)

end EaselModel.Alphabet.Guess
