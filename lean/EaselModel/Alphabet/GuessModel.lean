/-! # C08 — model of `esl_abc_GuessAlphabet` (core Lean; `Float` mirrors the C `double` comparisons) -/
namespace EaselModel.Alphabet.Guess

/-- sum and number of distinct letters with a positive count among `letters` (given as indices 0..25) -/
def tally (ct : List Int) (letters : List Nat) : Int × Nat :=
  letters.foldl (fun (acc : Int × Nat) l => let x := ct.getD l 0; if x > 0 then (acc.1 + x, acc.2 + 1) else acc) (0, 0)

def idx (s : String) : List Nat := s.toList.map fun c => c.toNat - 65

/-- `esl_abc_GuessAlphabet(ct, &type)`: returns (eslOK?, type) with type 0 = unknown, 1 = RNA, 2 = DNA, 3 = amino -/
def guessAlphabet (ct : List Int) : Bool × Nat :=
  let n : Int := (List.range 26).foldl (fun acc i => acc + ct.getD i 0) 0
  let (n1, x1) := tally ct (idx "EFIJLOPQZ")
  let (n2, x2) := tally ct (idx "ACG")
  let (n3, x3) := tally ct (idx "DHKMRSVWY")
  let nt := ct.getD 19 0; let xt := if nt ≠ 0 then 1 else 0
  let nu := ct.getD 20 0; let xu := if nu ≠ 0 then 1 else 0
  let nx := ct.getD 23 0
  let nn := ct.getD 13 0; let xn := if nn ≠ 0 then 1 else 0
  let thr : Float := 0.02 * Float.ofInt n
  let type : Nat :=
    if n ≤ 10 then 0
    else if n > 2000 ∧ nn = n then 2
    else if n1 > 0 then 3
    else if Float.ofInt (n - (n2 + nt + nn)) ≤ thr ∧ x2 + xt = 4 then 2
    else if Float.ofInt (n - (n2 + nu + nn)) ≤ thr ∧ x2 + xu = 4 then 1
    else if Float.ofInt (n - (n1 + n2 + n3 + nn + nt + nx)) ≤ thr ∧ n3 > n2 ∧ x1 + x2 + x3 + xn + xt ≥ 15 then 3
    else 0
  (type ≠ 0, type)

end EaselModel.Alphabet.Guess
