import EaselModel.Alphabet.TypeModel
import EaselModel.Generated.AlphabetsAux
/-! # C08 — alphabet type codes: Encode/Decode round trip, unknown strings, agreement with the dumped tables -/
namespace EaselModel.Alphabet.AbcType
open EaselModel.Alphabet EaselModel.Alphabet.Alphabet

theorem upper_eq_iff_lower_eq (a b : Nat) : upperB a = upperB b ↔ lowerB a = lowerB b := by
  unfold upperB lowerB
  split <;> split <;> split <;> split <;> omega

/-- the `toupper` loop of `esl_memstrcmp_case` decides the same relation as `strcasecmp(...) == 0` -/
theorem memstrcmpCase_eq (p s : List Nat) : memstrcmpCase p s = strcaseEq p s := by
  unfold strcaseEq
  induction p generalizing s with
  | nil => cases s <;> simp [memstrcmpCase]
  | cons a p ih =>
    cases s with
    | nil => simp [memstrcmpCase]
    | cons b s =>
      unfold memstrcmpCase
      by_cases h : upperB a = upperB b
      · have h' := (upper_eq_iff_lower_eq a b).mp h
        rw [if_neg (by simp [h]), ih s]
        simp [h']
      · have h' : ¬ lowerB a = lowerB b := fun e => h ((upper_eq_iff_lower_eq a b).mpr e)
        rw [if_pos h]
        simp [h']

/-- `esl_abc_EncodeTypeMem(p, n)` = `esl_abc_EncodeType` of the same bytes -/
theorem encodeTypeMem_eq (s : List Nat) : encodeTypeMem s = encodeType s := by
  unfold encodeTypeMem encodeType
  have : (fun p : List Nat × Nat => memstrcmpCase s p.1) = (fun p => strcaseEq s p.1) :=
    funext fun p => memstrcmpCase_eq s p.1
  rw [this]

theorem strcaseEq_trans (a b c : List Nat) (h1 : strcaseEq a b = true) (h2 : strcaseEq b c = true) : strcaseEq a c = true := by
  unfold strcaseEq at *
  simp only [beq_iff_eq] at *
  rw [h1, h2]

/-- every code `esl_abc_DecodeType` has a name for is recovered by `esl_abc_EncodeType` from that name -/
theorem decode_encode : ∀ t ∈ [(0 : Int), 1, 2, 3, 4, 5, 6], (decodeType t).map encodeType = some t.toNat := by decide

theorem decode_none (t : Int) (h : t < 0 ∨ t > 6) : decodeType t = none := by
  unfold decodeType
  repeat' split
  all_goals first | omega | rfl

theorem names_nonzero : ∀ p ∈ names, p.2 ≠ eslUNKNOWN ∧ (decodeType p.2).map (strcaseEq p.1) = some true := by decide

/-- `esl_abc_EncodeType` answers eslUNKNOWN exactly for the strings that match none of the six names -/
theorem encodeType_unknown_iff (s : List Nat) :
    encodeType s = eslUNKNOWN ↔ ∀ p ∈ names, strcaseEq s p.1 = false := by
  unfold encodeType
  cases h : names.find? (fun p => strcaseEq s p.1) with
  | none =>
    simp only [true_iff]
    intro p hp
    have := List.find?_eq_none.mp h p hp
    simpa using this
  | some p =>
    have hm := List.mem_of_find?_eq_some h
    have hs := List.find?_some h
    simp only []
    constructor
    · intro e; exact absurd e (names_nonzero p hm).1
    · intro hall; rw [hall p hm] at hs; cases hs

/-- a code other than eslUNKNOWN is the code of a name the string equals up to case -/
theorem encodeType_sound (s : List Nat) (h : encodeType s ≠ eslUNKNOWN) :
    ∃ name, decodeType (encodeType s) = some name ∧ strcaseEq s name = true := by
  unfold encodeType at h ⊢
  cases hf : names.find? (fun p => strcaseEq s p.1) with
  | none => rw [hf] at h; exact absurd rfl h
  | some p =>
    have hm := List.mem_of_find?_eq_some hf
    have hs := List.find?_some hf
    simp only [] at hs ⊢
    obtain ⟨_, h2⟩ := names_nonzero p hm
    cases hd : decodeType p.2 with
    | none => rw [hd] at h2; cases h2
    | some name =>
      rw [hd] at h2
      simp only [Option.map_some, Option.some.injEq] at h2
      exact ⟨name, rfl, strcaseEq_trans s p.1 name hs h2⟩

theorem validateType_iff (t : Int) : validateType t = true ↔ 1 ≤ t ∧ t ≤ 6 := by
  unfold validateType eslNONSTANDARD
  simp only [Bool.not_eq_true', Bool.or_eq_false_iff, decide_eq_false_iff_not]
  omega

theorem validateType_iff_named (t : Int) : validateType t = true ↔ t ≠ 0 ∧ (decodeType t).isSome = true := by
  rw [validateType_iff]
  constructor
  · intro h
    refine ⟨by omega, ?_⟩
    unfold decodeType
    repeat' split
    all_goals first | rfl | omega
  · intro ⟨h0, hs⟩
    by_cases hr : t < 0 ∨ t > 6
    · rw [decode_none t hr] at hs; cases hs
    · omega

/-- the model agrees with what the code under check answers for the type codes 0..8 (tables dumped on this run) -/
theorem tables_agree :
    (List.range 9).map (fun t : Nat => decodeType (Int.ofNat t)) = Generated.AlphabetsAux.decodeType ∧
    (List.range 9).map (fun t : Nat => match decodeType (Int.ofNat t) with | some s => encodeType s | none => 999)
      = Generated.AlphabetsAux.encodeOfDecode ∧
    (List.range 9).map (fun t : Nat => validateType (Int.ofNat t)) = Generated.AlphabetsAux.validType ∧
    Generated.AlphabetsAux.c_eslUNKNOWN = eslUNKNOWN := by decide

end EaselModel.Alphabet.AbcType
