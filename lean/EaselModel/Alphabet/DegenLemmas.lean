import EaselModel.Alphabet.CustomDegen
/-! # C08 — `esl_alphabet_SetDegeneracy` keeps `ndegen[x]` = size of the set of row `x`, provided the listed residues are
distinct and not yet members (the C code increments `ndegen` once per listed character, whatever it finds in the row) -/
namespace EaselModel.Alphabet
namespace Alphabet

/-- adding one new member to a 0/1 row adds exactly one to the number of flagged positions -/
theorem filter_set_length (K : Nat) (row : List Nat) (y : Nat) (hy : y < K) (hl : row.length = K)
    (h0 : row.getD y 0 = 0) :
    ((List.range K).filter fun i => (row.set y 1).getD i 0 ≠ 0).length =
      ((List.range K).filter fun i => row.getD i 0 ≠ 0).length + 1 := by
  have hget : ∀ i, (row.set y 1).getD i 0 = if i = y then 1 else row.getD i 0 := by
    intro i; exact getD_set_gen row y 1 i 0 (by omega)
  have key : ∀ n, n ≤ K →
      ((List.range n).filter fun i => (row.set y 1).getD i 0 ≠ 0).length =
        ((List.range n).filter fun i => row.getD i 0 ≠ 0).length + (if y < n then 1 else 0) := by
    intro n
    induction n with
    | zero => intro _; simp
    | succ n ih =>
      intro hn
      rw [List.range_succ, List.filter_append, List.filter_append, List.length_append, List.length_append, ih (by omega)]
      by_cases hyn : y = n
      · subst hyn
        have e1 : (row.set y 1).getD y 0 ≠ 0 := by rw [hget]; simp
        have e2 : ¬ (row.getD y 0 ≠ 0) := fun h => h h0
        rw [List.filter_cons_of_pos (by simpa using e1), List.filter_cons_of_neg (by simpa using e2)]
        simp
      · have e : (row.set y 1).getD n 0 = row.getD n 0 := by rw [hget, if_neg (fun e => hyn e.symm)]
        by_cases hp : row.getD n 0 ≠ 0
        · rw [List.filter_cons_of_pos (by rw [e]; simpa using hp), List.filter_cons_of_pos (by simpa using hp)]
          simp only [List.filter_nil, List.length_cons, List.length_nil]
          by_cases h1 : y < n
          · rw [if_pos h1, if_pos (by omega)]
          · rw [if_neg h1, if_neg (by omega)]
        · rw [List.filter_cons_of_neg (by rw [e]; simpa using hp), List.filter_cons_of_neg (by simpa using hp)]
          simp only [List.filter_nil, List.length_nil]
          by_cases h1 : y < n
          · rw [if_pos h1, if_pos (by omega)]
          · rw [if_neg h1, if_neg (by omega)]
  have := key K (Nat.le_refl _)
  rw [if_pos hy] at this
  exact this

theorem getD_set_list (l : List (List Nat)) (j : Nat) (v : List Nat) (i : Nat) (hj : j < l.length) :
    (l.set j v).getD i [] = if i = j then v else l.getD i [] := by
  rw [List.getD_eq_getElem?_getD, List.getElem?_set]
  by_cases h : j = i
  · subst h; simp [hj]
  · have h' : ¬ i = j := fun e => h e.symm
    simp [h, h', List.getD_eq_getElem?_getD]

/-- one iteration of the `while (*ds)` loop: flag residue `y` in row `x`, count it -/
def degenAdd (a : Alphabet) (x y : Nat) : Alphabet :=
  { a with degen := a.degen.set x ((a.degen.getD x []).set y 1), ndegen := a.ndegen.set x (a.ndegen.getD x 0 + 1) }

theorem degenAdd_wfdegen (a : Alphabet) (h : a.WFDegen) (x y : Nat) (hx : x < a.Kp) (hy : y < a.K)
    (h0 : (a.degen.getD x []).getD y 0 = 0) : (a.degenAdd x y).WFDegen := by
  obtain ⟨hd, hn, hrow⟩ := h
  refine ⟨by simp [degenAdd, hd], by simp [degenAdd, hn], fun x' hx' => ?_⟩
  have hx'' : x' < a.Kp := hx'
  obtain ⟨r1, r2⟩ := hrow x' hx''
  show ((a.degen.set x ((a.degen.getD x []).set y 1)).getD x' []).length = a.K ∧
    (a.ndegen.set x (a.ndegen.getD x 0 + 1)).getD x' 0 =
      ((List.range a.K).filter fun i => ((a.degen.set x ((a.degen.getD x []).set y 1)).getD x' []).getD i 0 ≠ 0).length
  rw [getD_set_list _ _ _ _ (by omega), getD_set_gen _ _ _ _ _ (by omega)]
  by_cases e : x' = x
  · subst e
    rw [if_pos rfl, if_pos rfl]
    refine ⟨by rw [List.length_set]; exact r1, ?_⟩
    rw [filter_set_length a.K _ y hy r1 h0, r2]
    rfl
  · rw [if_neg e, if_neg e]
    exact ⟨r1, r2⟩

theorem degenAdd_other (a : Alphabet) (x y y' : Nat) (hne : y' ≠ y) :
    ((a.degenAdd x y).degen.getD x []).getD y' 0 = (a.degen.getD x []).getD y' 0 ∨ ¬ x < a.degen.length := by
  by_cases hx : x < a.degen.length
  · left
    show ((a.degen.set x ((a.degen.getD x []).set y 1)).getD x []).getD y' 0 = _
    rw [getD_set_list _ _ _ _ hx, if_pos rfl, getD_set_ne _ _ _ _ _ hne]
  · right; exact hx

/-- the loop keeps the tables well-formed when it ends with eslOK, the listed residues are pairwise distinct and none of
    them is already a member of the set of `x` -/
theorem degenLoop_wfdegen (x : Nat) : ∀ (ds : List Nat) (a : Alphabet), a.WFDegen → x < a.Kp →
    (a.degenLoop x ds).1 = .ok → (ds.filterMap a.strchrSym).Nodup →
    (∀ y ∈ ds.filterMap a.strchrSym, (a.degen.getD x []).getD y 0 = 0) →
    (a.degenLoop x ds).2.WFDegen := by
  intro ds
  induction ds with
  | nil => intro a h _ _ _ _; exact h
  | cons d rest ih =>
    intro a h hx hok hnd hfresh
    unfold degenLoop at hok ⊢
    cases hs : a.strchrSym d with
    | none => rw [hs] at hok; simp at hok
    | some y =>
      rw [hs] at hok
      simp only [] at hok ⊢
      by_cases hc : a.xIsCanonical y = true
      · have hyK : y < a.K := by simpa [xIsCanonical] using hc
        simp only [hc, not_true_eq_false, if_false] at hok ⊢
        have hfm : (d :: rest).filterMap a.strchrSym = y :: rest.filterMap a.strchrSym := by
          simp [List.filterMap_cons, hs]
        rw [hfm] at hnd hfresh
        have hnd' := List.nodup_cons.mp hnd
        have hadd := degenAdd_wfdegen a h x y hx hyK (hfresh y (by simp))
        -- the modified alphabet has the same symbols
        have hsym : ∀ c, (a.degenAdd x y).strchrSym c = a.strchrSym c := fun c => rfl
        have hfm' : rest.filterMap (a.degenAdd x y).strchrSym = rest.filterMap a.strchrSym := rfl
        refine ih (a.degenAdd x y) hadd hx hok (by rw [hfm']; exact hnd'.2) ?_
        intro y' hy'
        rw [hfm'] at hy'
        have hne : y' ≠ y := fun e => hnd'.1 (e ▸ hy')
        rcases degenAdd_other a x y y' hne with e | e
        · rw [e]; exact hfresh y' (by simp [hy'])
        · exact absurd (by rw [h.1]; exact hx) e
      · simp only [hc, not_false_eq_true, if_true] at hok
        cases hok

/-- `esl_alphabet_SetDegeneracy(a, c, ds)` returning eslOK with pairwise distinct residues in `ds`, none of them already
    in the set of `c`, keeps `ndegen` = set size for every symbol -/
theorem setDegeneracy_wfdegen (a : Alphabet) (h : a.WFDegen) (c : Nat) (ds : List Nat)
    (hok : (a.setDegeneracy c ds).1 = .ok) (hnd : (ds.filterMap a.strchrSym).Nodup)
    (hfresh : ∀ x, a.strchrSym c = some x → ∀ y ∈ ds.filterMap a.strchrSym, (a.degen.getD x []).getD y 0 = 0) :
    (a.setDegeneracy c ds).2.WFDegen := by
  unfold setDegeneracy at hok ⊢
  cases hs : a.strchrSym c with
  | none => rw [hs] at hok; simp at hok
  | some x =>
    rw [hs] at hok
    simp only [] at hok ⊢
    by_cases h1 : x + 3 = a.Kp
    · simp [h1] at hok
    · simp only [h1, if_false] at hok ⊢
      by_cases h2 : x < a.K + 1 ∨ x + 2 ≥ a.Kp
      · simp [h2] at hok
      · simp only [h2, if_false] at hok ⊢
        exact degenLoop_wfdegen x ds a h (by omega) hok hnd (hfresh x hs)

end Alphabet
end EaselModel.Alphabet
