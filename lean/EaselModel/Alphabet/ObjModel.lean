import EaselModel.Alphabet.Model
import EaselModel.Alphabet.SqModel
import EaselModel.Alphabet.Sq2Model
import EaselModel.Alphabet.Model3
import EaselModel.Alphabet.Spec
/-! # C08 (round 6) — an `ESL_SQ` as an object: residues, allocation size, per-residue markup (`ss` and the extra residue
markup `xr[]`), `start`/`end`; and the esl_sq.c operations that move between text and digital mode on it:
`esl_sq_Grow` (with `*opt_nsafe`), `esl_sq_GrowTo`, `esl_sq_Digitize`, `esl_sq_Textize`, `esl_sq_ReverseComplement`,
`esl_sq_Copy` into a fresh object of either mode. Markup buffers carry their allocation size (`mcap`): every `memmove` /
`strcpy` on them is bounds-checked and `none` = an access outside the allocation. Core Lean only. -/
namespace EaselModel.Alphabet.Sq
open EaselModel.Alphabet

/-- `esl_sq_Grow(sq, &nsafe)`: (`*opt_nsafe`, the new `salloc`) -/
def sqGrowN (digital : Bool) (salloc n : Nat) : Int × Nat :=
  let nsafe : Int := if digital then (salloc : Int) - 1 - n else (salloc : Int) - n
  if nsafe < 1 then
    let r := growLoop 64 nsafe salloc
    (r.1, r.2.toNat)
  else (nsafe, salloc)

/-- `esl_sq_GrowTo(sq, n)`: the new `salloc` (`n+1` cells in text mode, `n+2` in digital mode, never shrinking) -/
def sqGrowTo (digital : Bool) (salloc n : Nat) : Nat :=
  let need := if digital then n + 2 else n + 1
  if need > salloc then need else salloc

/-- an `ESL_SQ`: `res` = the characters (text) or the codes (digital) without NUL / sentinels, `n = res.length`;
    `mcap` = the allocation of every non-NULL markup buffer; `ss` / `xr` = the markup strings (text mode: cells `0..n-1`,
    digital mode: cells `1..n` after a NUL in cell 0); `nxr = xr.length` -/
structure SqObj where
  digital : Bool
  res : List Nat
  salloc : Nat
  mcap : Nat
  ss : Option (List Nat)
  xr : List (List Nat)
  start : Int
  stop : Int
  deriving DecidableEq, Repr

namespace SqObj

def n (o : SqObj) : Nat := o.res.length
def hasMarkup (o : SqObj) : Bool := o.ss.isSome || !o.xr.isEmpty

/-- strip the sentinels of a digital array -/
def body (d : List Nat) : List Nat := (d.drop 1).take (d.length - 2)

/-- `esl_sq_Grow(sq, &nsafe)`: markup buffers are reallocated together with the sequence -/
def grow (o : SqObj) : Int × SqObj :=
  let r := sqGrowN o.digital o.salloc o.n
  (r.1, { o with salloc := r.2, mcap := if r.2 ≠ o.salloc then r.2 else o.mcap })

/-- `esl_sq_GrowTo(sq, k)` -/
def growTo (o : SqObj) (k : Nat) : SqObj :=
  let s := sqGrowTo o.digital o.salloc k
  { o with salloc := s, mcap := if s ≠ o.salloc then s else o.mcap }

/-- appending one residue `r` (and one markup character `m` to every markup line) the way the sequence readers do:
    `esl_sq_Grow`, store at `seq[n]` / `dsq[n+1]` and in every markup buffer, `n++`, `esl_sq_Grow` again, terminate everything.
    `none` = a store outside an allocation -/
def append (o : SqObj) (r m : Nat) : Option (Int × SqObj) :=
  let g1 := o.grow
  let o1 := g1.2
  let cell := if o.digital then o.n + 1 else o.n
  if cell ≥ o1.salloc || (o.hasMarkup && decide (cell ≥ o1.mcap)) then none
  else
    let o2 : SqObj := { o1 with res := o1.res ++ [r], ss := o1.ss.map (· ++ [m]), xr := o1.xr.map (· ++ [m]) }
    let g2 := o2.grow
    let o3 := g2.2
    let term := if o.digital then o2.n + 1 else o2.n
    if term ≥ o3.salloc || (o.hasMarkup && decide (term ≥ o3.mcap)) then none else some (g1.1 + g2.1, o3)

/-- `k` appends; the first component sums every `*opt_nsafe` the `2k` Grow calls answered (what the harness prints) -/
def appendN (o : SqObj) (r m : Nat) : Nat → Int → Option (Int × SqObj)
  | 0, acc => some (acc, o)
  | k+1, acc => match append o r m with
    | none => none
    | some (ns, o') => appendN o' r m k (acc + ns)

/-- `esl_sq_Digitize(abc, sq)`: `none` = a markup `memmove` outside its allocation -/
def digitize (a : Alphabet) (o : SqObj) : Option (Status × SqObj) :=
  if o.digital then some (.ok, o)
  else if validateSeq a o.res ≠ .ok then some (.einval, o)
  else
    let n := o.n
    let (salloc, mcap) := if o.salloc < n + 2 then (n + 2, n + 2) else (o.salloc, o.mcap)
    let (st, d) := a.digitize o.res
    if st ≠ .ok then some (st, o)
    else if o.hasMarkup && decide (mcap < n + 2) then none       -- memmove(ss+1, ss, n+1)
    else some (.ok, { o with digital := true, res := body d, salloc := salloc, mcap := mcap })

/-- `esl_sq_Textize(sq)` -/
def textize (a : Alphabet) (o : SqObj) : Option (Status × SqObj) :=
  if !o.digital then some (.ok, o)
  else if o.salloc < o.n + 1 then none                          -- esl_abc_Textize writes buf[0..n] into salloc cells
  else match a.textize (Alphabet.mkDsq o.res) o.n with
    | none => none
    | some t =>
      if o.hasMarkup && decide (o.mcap < o.n + 2) then none      -- memmove(ss, ss+1, n+1) reads cells 1..n+1
      else some (.ok, { o with digital := false, res := t })

/-- `esl_sq_ReverseComplement(sq)`: the markup is dropped (`ss = NULL`, `nxr = 0`), `start`/`end` are swapped; a digital
    alphabet without complement: eslEINCOMPAT and nothing changes -/
def revcomp (a : Alphabet) (o : SqObj) : Option (Status × SqObj) :=
  if !o.digital then
    let (st, r) := revcompText o.res
    some (st, { o with res := r, ss := none, xr := [], start := o.stop, stop := o.start })
  else match a.revcomp (Alphabet.mkDsq o.res) o.n with
    | .error e => some (e, o)
    | .ok none => none
    | .ok (some d) => some (.ok, { o with res := body d, ss := none, xr := [], start := o.stop, stop := o.start })

/-- a fresh `esl_sq_Create()` / `esl_sq_CreateDigital(abc)` after a failed copy: `esl_sq_Reuse(dst)` -/
def reusedDst (toDigital : Bool) (salloc : Nat) (hadSs : Bool) : SqObj :=
  { digital := toDigital, res := [], salloc := salloc, mcap := salloc, ss := if hadSs then some [] else none, xr := [],
    start := 0, stop := 0 }

/-- `esl_sq_Copy(src, dst)` with `dst` a fresh object (`esl_sq_Create()` or `esl_sq_CreateDigital(abc)`, 256 cells) of the
    same alphabet: markup buffers are allocated with `dst->salloc` cells and grown by `esl_sq_GrowTo(dst, src->n)` -/
def copyTo (a : Alphabet) (o : SqObj) (toDigital : Bool) : Option (Status × SqObj) :=
  let n := o.n
  let salloc := sqGrowTo toDigital eslSQ_SEQCHUNK n
  let need := if toDigital then n + 2 else n + 1
  if o.hasMarkup && decide (salloc < need) then none
  else
    let dst : SqObj := { o with digital := toDigital, salloc := salloc, mcap := salloc }
    match o.digital, toDigital with
    | false, false => some (.ok, dst)
    | false, true =>
      if validateSeq a o.res ≠ .ok then some (.einval, reusedDst true salloc o.ss.isSome)
      else
        let (st, d) := a.digitize o.res
        if st ≠ .ok then some (st, reusedDst true salloc o.ss.isSome) else some (.ok, { dst with res := body d })
    | true, false =>
      match a.textize (Alphabet.mkDsq o.res) n with
      | none => none
      | some t => some (.ok, { dst with res := t })
    | true, true => some (.ok, dst)

/-- what the harness prints after a script -/
def line (o : SqObj) (hx : List Nat → String) : String :=
  let ssS := match o.ss with | some v => hx v | none => "null"
  let xrS := if o.xr.isEmpty then "-" else ",".intercalate (o.xr.map hx)
  s!"mode={if o.digital then "digital" else "text"} n={o.n} salloc={o.salloc} seq={hx o.res} ss={ssS} nxr={o.xr.length} xr={xrS} se={o.start},{o.stop}"

/-- one script token: `d` Digitize, `t` Textize, `r` ReverseComplement, `g` Grow, `to:K` GrowTo, `c:text` / `c:digital` Copy
    into a fresh object which replaces the current one -/
def step (a : Alphabet) (o : SqObj) (tok : String) : Option (String × SqObj) :=
  if tok == "d" then (digitize a o).map fun r => (s!"d={r.1.name}", r.2)
  else if tok == "t" then (textize a o).map fun r => (s!"t={r.1.name}", r.2)
  else if tok == "r" then (revcomp a o).map fun r => (s!"r={r.1.name}", r.2)
  else if tok == "g" then let r := grow o; some (s!"g={r.1}", r.2)
  else if tok.startsWith "to:" then
    match (tok.drop 3).toString.toNat? with
    | some k => some ("to=ok", growTo o k)
    | none => some ("to=bad", o)
  else if tok.startsWith "a:" then
    match (tok.drop 2).toString.toNat? with
    | some k => (appendN o (if o.digital then 0 else 65) 43 k 0).map fun r => (s!"a={r.1}", r.2)
    | none => some ("a=bad", o)
  else if tok == "c:text" then (copyTo a o false).map fun r => (s!"c={r.1.name}", r.2)
  else if tok == "c:digital" then (copyTo a o true).map fun r => (s!"c={r.1.name}", r.2)
  else some ("bad", o)

def script (a : Alphabet) : SqObj → List String → List String → Option (List String × SqObj)
  | o, [], acc => some (acc.reverse, o)
  | o, tok :: rest, acc =>
    match step a o tok with
    | none => none
    | some (w, o') => script a o' rest (w :: acc)

end SqObj

/-- the four ways the harness makes the object: `esl_sq_CreateFrom` / `esl_sq_CreateDigitalFrom` (exact allocation) or
    `esl_sq_Create[Digital]` + `esl_sq_{C,X}AddResidue` per residue (256-cell chunks, doubled) -/
def mkObj (digital viaAdd : Bool) (res : List Nat) (ss : Option (List Nat)) (xr : List (List Nat)) : Option SqObj :=
  let n := res.length
  if viaAdd then
    let g := if digital then (addAll xAddResidue createDigital res).bind (fun g => xAddResidue g SENTINEL)
             else (addAll cAddResidue createText res).bind (fun g => cAddResidue g 0)
    g.map fun g => { digital := digital, res := res, salloc := g.salloc, mcap := g.salloc, ss := ss, xr := xr, start := 0, stop := 0 }
  else
    let salloc := if digital then n + 2 else n + 1
    some { digital := digital, res := res, salloc := salloc, mcap := salloc, ss := ss, xr := xr, start := 1, stop := n }

end EaselModel.Alphabet.Sq

namespace EaselModel.Alphabet.Guess
/-- `esl_msa_GuessAlphabet` in its two forms: `strict = false` — an undecided vote always falls through to the pooled second
    pass (`Guess.msaGuess`); `strict = true` — the pooled pass runs only when NO row was classified, so an alignment with rows
    called amino and rows called nucleic is indeterminate, as the header documents. Which form the tree has is read off the
    code on every run (`Generated.AlphabetsAux.msaMixedProbe`). -/
def msaGuessV (strict : Bool) (g : List Int → Nat) (rows : List (List Nat)) : Option (Bool × Nat) :=
  let types := rows.map fun r => g (sqCount r (List.replicate 26 0) 0)
  let t := msaVote types
  if t ≠ 0 then some (true, t)
  else if strict && types.any (· != 0) then some (false, 0)
  else (msaPool rows (List.replicate 26 0) 0).map fun ct => (decide (g ct ≠ 0), g ct)
end EaselModel.Alphabet.Guess
