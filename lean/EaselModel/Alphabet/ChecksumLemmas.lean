import EaselModel.Alphabet.Sq2Model
/-! # C08 (round 6) — `esl_sq_Checksum` (Jenkins one-at-a-time over the residues, exact 32-bit unsigned arithmetic):
every step is a bijection of the 32-bit state for a fixed residue and injective in the residue for a fixed state, so the
checksum tells apart any two sequences that differ in exactly one residue. Core Lean only (no `bv_decide`). -/
namespace EaselModel.Alphabet.Sq

theorem shl_add (v : BitVec 32) (k : Nat) : v + (v <<< k) = v * (1 + BitVec.twoPow 32 k) := by
  rw [BitVec.shiftLeft_eq_mul_twoPow, BitVec.mul_add]; simp

theorem mul_unit_inj (m minv : BitVec 32) (h : m * minv = 1) (v w : BitVec 32) (e : v * m = w * m) : v = w := by
  have := congrArg (· * minv) e
  simp only [BitVec.mul_assoc, h] at this
  simpa using this

/-- `v += v << k` is injective: `1 + 2^k` is odd, hence a unit modulo `2^32` -/
theorem addShl_inj (k : Nat) (minv : BitVec 32) (h : (1 + BitVec.twoPow 32 k : BitVec 32) * minv = 1) (v w : BitVec 32)
    (e : v + (v <<< k) = w + (w <<< k)) : v = w := by
  rw [shl_add, shl_add] at e; exact mul_unit_inj _ minv h v w e

/-- `v ^= v >> k` (`k > 0`) is injective: the map is GF(2)-linear and `u = u >> k` forces `u = 0` -/
theorem xorShr_inj (v w : BitVec 32) (k : Nat) (hk : 0 < k) (e : v ^^^ (v >>> k) = w ^^^ (w >>> k)) : v = w := by
  have h1 : (v ^^^ w) = (v ^^^ w) >>> k := by
    rw [BitVec.ushiftRight_xor_distrib]
    apply BitVec.eq_of_getLsbD_eq
    intro i hi
    have := congrArg (·.getLsbD i) e
    simp only [BitVec.getLsbD_xor, BitVec.getLsbD_ushiftRight] at this ⊢
    revert this
    cases v.getLsbD i <;> cases w.getLsbD i <;> cases v.getLsbD (k + i) <;> cases w.getLsbD (k + i) <;> simp
  have h2 : (v ^^^ w).toNat = (v ^^^ w).toNat / 2 ^ k := by
    have := congrArg BitVec.toNat h1
    rw [BitVec.toNat_ushiftRight, Nat.shiftRight_eq_div_pow] at this
    exact this
  have h3 : (v ^^^ w).toNat = 0 := by
    by_cases z : (v ^^^ w).toNat = 0
    · exact z
    · exfalso
      have hp : 2 ≤ 2 ^ k := by
        calc 2 = 2 ^ 1 := rfl
          _ ≤ 2 ^ k := Nat.pow_le_pow_right (by decide) hk
      have : (v ^^^ w).toNat / 2 ^ k < (v ^^^ w).toNat := Nat.div_lt_self (by omega) (by omega)
      omega
  have h4 : v ^^^ w = 0 := BitVec.eq_of_toNat_eq (by simpa using h3)
  exact BitVec.xor_eq_zero_iff.mp h4

theorem ckStep_bv (v b : UInt32) : (ckStep v b).toBitVec =
    ((v.toBitVec + b.toBitVec) + ((v.toBitVec + b.toBitVec) <<< 10)) ^^^
      (((v.toBitVec + b.toBitVec) + ((v.toBitVec + b.toBitVec) <<< 10)) >>> 6) := by
  simp [ckStep]

theorem ckFinal_bv (v : UInt32) : (ckFinal v).toBitVec =
    (((v.toBitVec + (v.toBitVec <<< 3)) ^^^ ((v.toBitVec + (v.toBitVec <<< 3)) >>> 11)) +
      (((v.toBitVec + (v.toBitVec <<< 3)) ^^^ ((v.toBitVec + (v.toBitVec <<< 3)) >>> 11)) <<< 15)) := by
  simp [ckFinal]

theorem ckStep_sum_inj (v w b c : UInt32) (e : ckStep v b = ckStep w c) : v.toBitVec + b.toBitVec = w.toBitVec + c.toBitVec := by
  have := congrArg UInt32.toBitVec e
  rw [ckStep_bv, ckStep_bv] at this
  exact addShl_inj 10 3222273025#32 (by decide) _ _ (xorShr_inj _ _ 6 (by decide) this)

/-- for a fixed residue the step is injective in the state -/
theorem ckStep_inj_left (v w b : UInt32) (e : ckStep v b = ckStep w b) : v = w := by
  have h := ckStep_sum_inj v w b b e
  have := congrArg (· - b.toBitVec) h
  simp only [BitVec.add_sub_cancel] at this
  exact UInt32.toBitVec_inj.mp this

/-- for a fixed state the step is injective in the residue -/
theorem ckStep_inj_right (v b c : UInt32) (e : ckStep v b = ckStep v c) : b = c := by
  have h := ckStep_sum_inj v v b c e
  rw [BitVec.add_comm v.toBitVec, BitVec.add_comm v.toBitVec] at h
  have := congrArg (· - v.toBitVec) h
  simp only [BitVec.add_sub_cancel] at this
  exact UInt32.toBitVec_inj.mp this

theorem ckFinal_inj (v w : UInt32) (e : ckFinal v = ckFinal w) : v = w := by
  have := congrArg UInt32.toBitVec e
  rw [ckFinal_bv, ckFinal_bv] at this
  have h1 := addShl_inj 15 1073709057#32 (by decide) _ _ this
  have h2 := xorShr_inj _ _ 11 (by decide) h1
  exact UInt32.toBitVec_inj.mp (addShl_inj 3 954437177#32 (by decide) _ _ h2)

theorem ckFold_inj (f : Nat → UInt32) (l : List Nat) : ∀ (v w : UInt32),
    l.foldl (fun v x => ckStep v (f x)) v = l.foldl (fun v x => ckStep v (f x)) w → v = w := by
  induction l with
  | nil => intro v w e; exact e
  | cons x xs ih => intro v w e; rw [List.foldl_cons, List.foldl_cons] at e; exact ckStep_inj_left _ _ _ (ih _ _ e)

/-- the checksum of `pre ++ x :: post` and of `pre ++ y :: post` agree only if `x` and `y` are the same 32-bit addend -/
theorem ck_substitution (f : Nat → UInt32) (pre post : List Nat) (x y : Nat)
    (e : ckFinal ((pre ++ x :: post).foldl (fun v x => ckStep v (f x)) 0) = ckFinal ((pre ++ y :: post).foldl (fun v x => ckStep v (f x)) 0)) :
    f x = f y := by
  have h := ckFinal_inj _ _ e
  rw [List.foldl_append, List.foldl_append, List.foldl_cons, List.foldl_cons] at h
  exact ckStep_inj_right _ _ _ (ckFold_inj f post _ _ h)

theorem ofNat_inj_byte (x y : Nat) (hx : x < 256) (hy : y < 256) (e : UInt32.ofNat x = UInt32.ofNat y) : x = y := by
  have := congrArg UInt32.toNat e
  simp only [UInt32.toNat_ofNat'] at this
  omega

theorem charToU32_inj (x y : Nat) (hx : x < 256) (hy : y < 256) (e : charToU32 x = charToU32 y) : x = y := by
  have := congrArg UInt32.toNat e
  unfold charToU32 at this
  split at this <;> split at this <;> simp only [UInt32.toNat_ofNat'] at this <;> omega

/-- **`esl_sq_Checksum` detects every single-residue substitution**, in digital mode (codes) and in text mode (bytes, also
    bytes ≥ 0x80, which are sign-extended): two sequences that differ in exactly one position have different checksums -/
theorem checksum_substitution (pre post : List Nat) (x y : Nat) (hx : x < 256) (hy : y < 256) (hne : x ≠ y) :
    checksumDigital (pre ++ x :: post) ≠ checksumDigital (pre ++ y :: post) ∧
    checksumText (pre ++ x :: post) ≠ checksumText (pre ++ y :: post) :=
  ⟨fun e => hne (ofNat_inj_byte x y hx hy (ck_substitution (fun x => UInt32.ofNat x) pre post x y e)),
   fun e => hne (charToU32_inj x y hx hy (ck_substitution charToU32 pre post x y e))⟩

end EaselModel.Alphabet.Sq
