import EaselModel.Alphabet.Sq2Model
import EaselModel.Alphabet.ScoreLemmas
import EaselModel.Alphabet.RevcompLemmas
/-! # C08 — `esl_sq_XAddResidue` / `CAddResidue` build exactly the sequence and never store outside the allocation;
`esl_sq_CountResidues` adds, per position of the range, one count split equally over the residue's set -/
set_option linter.dupNamespace false
namespace EaselModel.Alphabet.Sq
open EaselModel.Alphabet EaselModel.Alphabet.Alphabet

theorem growLoop_one (f : Nat) (nsafe new : Int) (h : nsafe + new ≥ 1) : growLoop (f+1) nsafe new = (nsafe + new, new * 2) := by
  unfold growLoop; simp only []; rw [if_neg (by omega)]

/-- after `esl_sq_Grow` there is room for one more residue and the sentinel (digital) / the NUL (text) -/
theorem sqGrow_room (digital : Bool) (salloc n : Nat) (h1 : 1 ≤ salloc)
    (hn : if digital then n + 1 ≤ salloc else n ≤ salloc) :
    (if digital then n + 2 ≤ sqGrow digital salloc n else n + 1 ≤ sqGrow digital salloc n) ∧ 1 ≤ sqGrow digital salloc n := by
  unfold sqGrow
  cases digital
  · simp only [Bool.false_eq_true, if_false] at hn ⊢
    by_cases c : (salloc : Int) - n < 1
    · rw [if_pos c, growLoop_one 63 _ _ (by omega)]; simp only []; omega
    · rw [if_neg c]; omega
  · simp only [if_true] at hn ⊢
    by_cases c : (salloc : Int) - 1 - n < 1
    · rw [if_pos c, growLoop_one 63 _ _ (by omega)]; simp only []; omega
    · rw [if_neg c]; omega

theorem xAdd_go (codes : List Nat) (hs : SENTINEL ∉ codes) :
    ∀ (s : Grow) (done : List Nat), s.buf.take (s.n + 1) = SENTINEL :: done → s.n = done.length → s.n + 1 ≤ s.salloc →
      ∃ g, addAll xAddResidue s codes = some g ∧ g.buf.take (g.n + 1) = SENTINEL :: (done ++ codes) ∧
        g.n = (done ++ codes).length ∧ g.n + 1 ≤ g.salloc := by
  induction codes with
  | nil => intro s done h1 h2 h3; exact ⟨s, rfl, by simpa using h1, by simpa using h2, h3⟩
  | cons x xs ih =>
    intro s done h1 h2 h3
    have hx : x ≠ SENTINEL := fun e => hs (by simp [e])
    obtain ⟨r1, r2⟩ := sqGrow_room true s.salloc s.n (by omega) (by simpa using h3)
    simp only [if_true] at r1
    have hstep : xAddResidue s x = some { buf := s.buf.take (s.n + 1) ++ [x], n := s.n + 1, salloc := sqGrow true s.salloc s.n } := by
      unfold xAddResidue; simp only []; rw [if_pos (by omega), if_neg hx]
    obtain ⟨g, g1, g2, g3, g4⟩ := ih (fun hm => hs (by simp [hm]))
      { buf := s.buf.take (s.n + 1) ++ [x], n := s.n + 1, salloc := sqGrow true s.salloc s.n } (done ++ [x])
      (by
        simp only []
        rw [h1, List.take_of_length_le (by simp; omega)]; simp)
      (by simp [h2]) (by simp only []; omega)
    refine ⟨g, ?_, by simpa using g2, by simpa using g3, g4⟩
    simp only [addAll, hstep]; exact g1

/-- `esl_sq_CreateDigital` + `esl_sq_XAddResidue` for every code + the terminating sentinel builds exactly the digital
    sequence `sentinel, codes, sentinel` with `n = |codes|`, and no store is ever outside the allocation -/
theorem xAdd_spec (codes : List Nat) (hs : SENTINEL ∉ codes) :
    ∃ g, (addAll xAddResidue createDigital codes).bind (fun g => xAddResidue g SENTINEL) = some g ∧
      g.buf = mkDsq codes ∧ g.n = codes.length ∧ g.n + 2 ≤ g.salloc := by
  obtain ⟨g, g1, g2, g3, g4⟩ := xAdd_go codes hs createDigital [] rfl rfl (by decide)
  obtain ⟨r1, r2⟩ := sqGrow_room true g.salloc g.n (by omega) (by simpa using g4)
  simp only [if_true] at r1
  refine ⟨{ buf := g.buf.take (g.n + 1) ++ [SENTINEL], n := g.n, salloc := sqGrow true g.salloc g.n }, ?_, ?_, by simpa using g3, r1⟩
  · rw [g1]; simp only [Option.bind_some]
    unfold xAddResidue; simp only []; rw [if_pos (by omega)]; simp
  · simp only []; rw [g2]; simp [mkDsq]

theorem cAdd_go (bytes : List Nat) (hs : 0 ∉ bytes) :
    ∀ (s : Grow) (done : List Nat), s.buf.take s.n = done → s.n = done.length → s.n ≤ s.salloc → 1 ≤ s.salloc →
      ∃ g, addAll cAddResidue s bytes = some g ∧ g.buf.take g.n = done ++ bytes ∧
        g.n = (done ++ bytes).length ∧ g.n ≤ g.salloc ∧ 1 ≤ g.salloc := by
  induction bytes with
  | nil => intro s done h1 h2 h3 h4; exact ⟨s, rfl, by simpa using h1, by simpa using h2, h3, h4⟩
  | cons x xs ih =>
    intro s done h1 h2 h3 h4
    have hx : x ≠ 0 := fun e => hs (by simp [e])
    obtain ⟨r1, r2⟩ := sqGrow_room false s.salloc s.n h4 (by simpa using h3)
    simp only [Bool.false_eq_true, if_false] at r1
    have hstep : cAddResidue s x = some { buf := s.buf.take s.n ++ [x], n := s.n + 1, salloc := sqGrow false s.salloc s.n } := by
      unfold cAddResidue; simp only []; rw [if_pos (by omega), if_neg hx]
    obtain ⟨g, g1, g2, g3, g4, g5⟩ := ih (fun hm => hs (by simp [hm]))
      { buf := s.buf.take s.n ++ [x], n := s.n + 1, salloc := sqGrow false s.salloc s.n } (done ++ [x])
      (by simp only []; rw [h1, List.take_of_length_le (by simp; omega)])
      (by simp [h2]) (by simp only []; omega) r2
    refine ⟨g, ?_, by simpa using g2, by simpa using g3, g4, g5⟩
    simp only [addAll, hstep]; exact g1

/-- text mode: `esl_sq_Create` + `esl_sq_CAddResidue` for every byte + the NUL builds exactly the C string -/
theorem cAdd_spec (bytes : List Nat) (hs : 0 ∉ bytes) :
    ∃ g, (addAll cAddResidue createText bytes).bind (fun g => cAddResidue g 0) = some g ∧
      g.buf = bytes ++ [0] ∧ g.n = bytes.length ∧ g.n + 1 ≤ g.salloc := by
  obtain ⟨g, g1, g2, g3, g4, g5⟩ := cAdd_go bytes hs createText [] rfl rfl (by decide) (by decide)
  obtain ⟨r1, r2⟩ := sqGrow_room false g.salloc g.n g5 (by simpa using g4)
  simp only [Bool.false_eq_true, if_false] at r1
  refine ⟨{ buf := g.buf.take g.n ++ [0], n := g.n, salloc := sqGrow false g.salloc g.n }, ?_, ?_, by simpa using g3, r1⟩
  · rw [g1]; simp only [Option.bind_some]
    unfold cAddResidue; simp only []; rw [if_pos (by omega)]; simp
  · simp only []; rw [g2]; simp

/-- on 7-bit text the text-mode checksum is the same function of the bytes as the digital-mode checksum of the codes -/
theorem charToU32_ascii (c : Nat) (h : c < 128) : charToU32 c = UInt32.ofNat c := by
  unfold charToU32; rw [if_neg (by omega)]

theorem checksumText_ascii (bytes : List Nat) (h : ∀ c ∈ bytes, c < 128) : checksumText bytes = checksumDigital bytes := by
  have key : ∀ (v : UInt32), bytes.foldl (fun v c => ckStep v (charToU32 c)) v
      = bytes.foldl (fun v x => ckStep v (UInt32.ofNat x)) v := by
    induction bytes with
    | nil => intro v; rfl
    | cons c cs ih =>
      intro v
      rw [List.foldl_cons, List.foldl_cons, charToU32_ascii c (h c (by simp))]
      exact ih (fun c' hc' => h c' (by simp [hc'])) _
  unfold checksumText checksumDigital
  rw [key 0]

/-! ## `esl_sq_CountResidues` over ℚ -/

/-- the count residue code `x` contributes to canonical residue `y`: 1 for itself, `1/|set|` for each member of the set of
    a degenerate code, nothing for gap, nonresidue and missing data -/
def share (a : Alphabet) (x y : Nat) : ℚ :=
  if x < a.K then (if y = x then 1 else 0)
  else if a.xIsDegenerate x then (if y ∈ a.degenSet x then 1 / ((a.degenSet x).length : ℚ) else 0)
  else 0

theorem count_share (a : Alphabet) (h : a.WFDegen) (x : Nat) (hx : x < a.Kp) (hg : x ≠ a.K) (f : List ℚ) (hf : f.length = a.K) :
    ∃ f', a.count f x (ScoreNum.ofNat 1) = some f' ∧ f'.length = f.length ∧ ∀ y, f'.getD y 0 = f.getD y 0 + share a x y := by
  by_cases hc : x < a.K
  · have c1 : (a.xIsCanonical x || a.xIsGap x) = true := by simp [xIsCanonical, hc]
    refine ⟨f.set x (f.getD x 0 + 1), ?_, by simp, fun y => ?_⟩
    · unfold count
      simp only [c1, if_true, sc_get f x (by omega), Option.bind_eq_bind, Option.bind_some, sn_add, sn_ofNat, Nat.cast_one]
    · rw [getD_setQ _ _ _ _ (by omega)]
      unfold share
      rw [if_pos hc]
      by_cases e : y = x
      · subst e; simp
      · simp [e]
  · by_cases hd : a.xIsDegenerate x = true
    · obtain ⟨ct', h1, h2, h3, _⟩ := count_equal_split a h x hx hd f (by omega) (ScoreNum.ofNat 1)
      refine ⟨ct', h1, h2, fun y => ?_⟩
      rw [h3 y]; unfold share; rw [if_neg hc, if_pos hd]; simp
    · have hd' : a.xIsDegenerate x = false := by simpa using hd
      unfold xIsDegenerate at hd'
      simp only [Bool.and_eq_false_iff, decide_eq_false_iff_not] at hd'
      have c1 : (a.xIsCanonical x || a.xIsGap x) = false := by
        simp only [xIsCanonical, xIsGap, Bool.or_eq_false_iff, decide_eq_false_iff_not]; omega
      have c2 : (a.xIsMissing x || a.xIsNonresidue x) = true := by
        simp only [xIsMissing, xIsNonresidue, Bool.or_eq_true, decide_eq_true_eq]; omega
      refine ⟨f, ?_, rfl, fun y => ?_⟩
      · unfold count; simp only [c1, c2, Bool.false_eq_true, if_false, if_true]
      · unfold share; rw [if_neg hc, if_neg hd]; simp

theorem share_gap (a : Alphabet) (y : Nat) : share a a.K y = 0 := by
  unfold share xIsDegenerate; simp

theorem countResLoop_spec (a : Alphabet) (h : a.WFDegen) (dsq : List Nat) (y : Nat) :
    ∀ (k i : Nat) (f : List ℚ), i + k ≤ dsq.length → (∀ j, i ≤ j → j < i + k → dsq.getD j 0 < a.Kp) → f.length = a.K →
      ∃ f', countResLoop a dsq k i f = some f' ∧ f'.length = a.K ∧
        f'.getD y 0 = f.getD y 0 + (((dsq.drop i).take k).map fun x => share a x y).sum := by
  intro k
  induction k with
  | zero => intro i f _ _ hf; exact ⟨f, rfl, hf, by simp⟩
  | succ k ih =>
    intro i f hl hv hf
    have hi : i < dsq.length := by omega
    have e : dsq[i]? = some (dsq.getD i 0) := getElem?_getD0 dsq i hi
    have hdrop : (dsq.drop i).take (k+1) = dsq.getD i 0 :: (dsq.drop (i+1)).take k := by
      rw [List.drop_eq_getElem_cons hi, List.take_succ_cons]
      congr 1
      rw [List.getD_eq_getElem?_getD, List.getElem?_eq_getElem hi]; rfl
    rw [hdrop, List.map_cons, List.sum_cons]
    by_cases hg : dsq.getD i 0 = a.K
    · obtain ⟨f', g1, g2, g3⟩ := ih (i+1) f (by omega) (fun j h1 h2 => hv j (by omega) (by omega)) hf
      refine ⟨f', ?_, g2, ?_⟩
      · unfold countResLoop
        simp only [e, Option.bind_eq_bind, Option.bind_some, xIsGap, hg, decide_true, if_true]
        exact g1
      · rw [g3, hg, share_gap]; ring
    · obtain ⟨f1, c1, c2, c3⟩ := count_share a h (dsq.getD i 0) (hv i (Nat.le_refl _) (by omega)) hg f hf
      obtain ⟨f', g1, g2, g3⟩ := ih (i+1) f1 (by omega) (fun j h1 h2 => hv j (by omega) (by omega)) (by rw [c2, hf])
      refine ⟨f', ?_, g2, ?_⟩
      · unfold countResLoop
        simp only [e, Option.bind_eq_bind, Option.bind_some, xIsGap, hg, decide_false, Bool.false_eq_true, if_false, c1]
        exact g1
      · rw [g3, c3 y]; ring

/-- `esl_sq_CountResidues(sq, start, L, f)` on a digital sequence of valid codes with a `K`-long vector `f`: eslERANGE iff
    `start < 1` or `start+L > n+1`; otherwise every counter `y` grows by the sum over the positions `start … start+L-1` of
    the share of that position's code (1 for the residue itself, `1/|set|` for members of a degenerate code's set, 0 for gap,
    nonresidue, missing); no access outside `f[0..K-1]` or the sequence -/
theorem countResidues_spec (a : Alphabet) (h : a.WFDegen) (codes : List Nat) (hv : ∀ x ∈ codes, x < a.Kp)
    (start L : Nat) (hs : 1 ≤ start) (hr : start + L ≤ codes.length + 1) (f : List ℚ) (hf : f.length = a.K) (y : Nat) :
    ∃ f', countResidues a (mkDsq codes) codes.length start L f = some (some f') ∧ f'.length = a.K ∧
      f'.getD y 0 = f.getD y 0 + (((codes.drop (start - 1)).take L).map fun x => share a x y).sum := by
  have hval : ∀ j, start ≤ j → j < start + L → (mkDsq codes).getD j 0 < a.Kp :=
    fun j h1 h2 => mkDsq_valid codes a.Kp hv j (by omega) (by omega)
  have hlen : (mkDsq codes).length = codes.length + 2 := by simp [mkDsq]
  obtain ⟨f', g1, g2, g3⟩ := countResLoop_spec a h (mkDsq codes) y L start f (by omega) hval hf
  refine ⟨f', ?_, g2, ?_⟩
  · unfold countResidues
    rw [if_neg (by omega)]
    simp only [Int.toNat_natCast]
    rw [g1]
  · rw [g3]
    congr 3
    obtain ⟨s0, rfl⟩ : ∃ s0, start = s0 + 1 := ⟨start - 1, by omega⟩
    show ((SENTINEL :: (codes ++ [SENTINEL])).drop (s0 + 1)).take L = ((codes.drop (s0 + 1 - 1)).take L)
    rw [List.drop_succ_cons, Nat.add_sub_cancel, List.drop_append_of_le_length (by omega),
      List.take_append_of_le_length (by simp; omega)]

end EaselModel.Alphabet.Sq
