import EaselModel.Alphabet.RevcompLemmas
/-! # C08 — `esl_abc_dsqcat(_noalloc)` = appending the digitisation; text-mode reverse complement of `esl_sq` agrees with
the digital one -/
namespace EaselModel.Alphabet
namespace Alphabet

/-- the code `esl_abc_dsqcat_noalloc` appends for input byte `c` under input map `inmap` (`none`: ignored) -/
def catCode (inmap : List Nat) (c : Nat) : Option Nat :=
  if c ≥ 128 then some (inmap.getD 0 ILLEGAL)
  else
    let x := inmap.getD c ILLEGAL
    if x ≤ 127 then some x else if x = ILLEGAL then some (inmap.getD 0 ILLEGAL) else none

def catOK (inmap : List Nat) (c : Nat) : Bool :=
  decide (c < 128) && (decide (inmap.getD c ILLEGAL ≤ 127) || decide (inmap.getD c ILLEGAL = IGNORED))

/-- an input map as the documentation requires: every entry is a code ≤ 127, `eslDSQ_ILLEGAL` or `eslDSQ_IGNORED` -/
def InmapClean (inmap : List Nat) : Prop :=
  ∀ c, c < 128 → inmap.getD c ILLEGAL ≤ 127 ∨ inmap.getD c ILLEGAL = ILLEGAL ∨ inmap.getD c ILLEGAL = IGNORED

instance (inmap : List Nat) : Decidable (InmapClean inmap) := by unfold InmapClean; infer_instance

theorem dsqcatStep_eq (inmap : List Nat) (h : InmapClean inmap) (st : Status) (acc : List Nat) (c : Nat) :
    dsqcatStep inmap (st, acc) c =
      .ok (if catOK inmap c then st else .einval, match catCode inmap c with | some x => x :: acc | none => acc) := by
  unfold dsqcatStep catOK catCode
  by_cases hc : c ≥ 128
  · have : ¬ c < 128 := by omega
    simp [hc, this]
  · have hc' : c < 128 := by omega
    have h' := h c hc'
    generalize inmap.getD c ILLEGAL = x at h' ⊢
    generalize inmap.getD 0 ILLEGAL = u
    rcases h' with h1 | h1 | h1
    · simp [hc, hc', h1]
    · subst h1; simp [hc, hc', ILLEGAL, IGNORED]
    · subst h1; simp [hc, hc', ILLEGAL, IGNORED]

theorem dsqcatLoop_eq (inmap : List Nat) (h : InmapClean inmap) (s : List Nat) (st : Status) (acc : List Nat) :
    dsqcatLoop inmap s (st, acc) =
      .ok (if s.all (catOK inmap) then st else .einval, (s.filterMap (catCode inmap)).reverse ++ acc) := by
  induction s generalizing st acc with
  | nil => simp [dsqcatLoop]
  | cons c cs ih =>
    rw [dsqcatLoop, dsqcatStep_eq inmap h]
    simp only []
    rw [ih]
    cases hk : catOK inmap c <;> cases hc : catCode inmap c <;> simp [hk, hc]

/-- `esl_abc_dsqcat_noalloc(inmap, dsq, &L, s, n)`: the old residues, then the code of every non-ignored input byte
    (`inmap[0]` for an illegal or 8-bit byte), then a sentinel; `eslEINVAL` iff some byte is illegal; never an exception
    for a clean input map -/
theorem dsqcatNoalloc_spec (inmap : List Nat) (h : InmapClean inmap) (codes s : List Nat) :
    dsqcatNoalloc inmap (mkDsq codes) codes.length s =
      .ok (if s.all (catOK inmap) then .ok else .einval, mkDsq (codes ++ s.filterMap (catCode inmap)),
           codes.length + (s.filterMap (catCode inmap)).length) := by
  unfold dsqcatNoalloc
  rw [dsqcatLoop_eq inmap h]
  simp [mkDsq]

/-- with the input map `esl_sqio` builds from an alphabet (`inmap[0] = unknown`), appending a NUL-free line is the same as
    digitising it with `esl_abc_Digitize`: same codes, same status -/
theorem dsqcat_is_digitize (a : Alphabet) (hclean : ∀ c, c < 128 → a.inmapAt c < a.Kp ∨ a.inmapAt c = ILLEGAL ∨ a.inmapAt c = IGNORED)
    (hKp : a.Kp ≤ 128) (hlen : a.inmap.length = 128) (codes s : List Nat) (hnul : ∀ c ∈ s, c ≠ 0) :
    dsqcatNoalloc (a.inmap.set 0 a.unknown) (mkDsq codes) codes.length s =
      .ok ((a.digitize s).1, mkDsq (codes ++ s.filterMap a.code), codes.length + (s.filterMap a.code).length) := by
  have hget0 : (a.inmap.set 0 a.unknown).getD 0 ILLEGAL = a.unknown := by
    rw [List.getD_eq_getElem?_getD, List.getElem?_set]; simp [hlen]
  have hget : ∀ c, c ≠ 0 → (a.inmap.set 0 a.unknown).getD c ILLEGAL = a.inmapAt c := by
    intro c hc
    unfold inmapAt
    rw [List.getD_eq_getElem?_getD, List.getElem?_set, List.getD_eq_getElem?_getD]
    have : ¬ 0 = c := fun e => hc e.symm
    simp [this]
  have hcl : InmapClean (a.inmap.set 0 a.unknown) := by
    intro c hc
    by_cases h0 : c = 0
    · subst h0; rw [hget0]; left; unfold unknown; omega
    · rw [hget c h0]
      rcases hclean c hc with h1 | h1 | h1
      · left; omega
      · right; left; exact h1
      · right; right; exact h1
  have hcode : ∀ c, c ≠ 0 → catCode (a.inmap.set 0 a.unknown) c = a.code c ∧ catOK (a.inmap.set 0 a.unknown) c = a.charOK c := by
    intro c hc
    unfold catCode catOK code charOK
    rw [hget0]
    by_cases h128 : c < 128
    · rw [hget c hc]
      have : ¬ c ≥ 128 := by omega
      rcases hclean c h128 with h1 | h1 | h1
      · have : a.inmapAt c ≤ 127 := by omega
        simp [h128, h1, this, show ¬ c ≥ 128 by omega]
      · have e1 : ¬ (ILLEGAL ≤ 127) := by decide
        have e2 : ¬ (ILLEGAL < a.Kp) := by unfold ILLEGAL; omega
        have e3 : ¬ (ILLEGAL = IGNORED) := by decide
        simp [h128, h1, e1, e2, e3, show ¬ c ≥ 128 by omega]
      · have e1 : ¬ (IGNORED ≤ 127) := by decide
        have e2 : ¬ (IGNORED < a.Kp) := by unfold IGNORED; omega
        have e3 : ¬ (IGNORED = ILLEGAL) := by decide
        simp [h128, h1, e1, e2, e3, show ¬ c ≥ 128 by omega]
    · have e2 : ¬ (ILLEGAL < a.Kp) := by unfold ILLEGAL; omega
      have e3 : ¬ (ILLEGAL = IGNORED) := by decide
      simp [h128, show c ≥ 128 by omega, e2, e3]
  rw [dsqcatNoalloc_spec _ hcl, digitize_eq_spec]
  have e12 : ∀ l : List Nat, (∀ c ∈ l, c ≠ 0) →
      l.filterMap (catCode (a.inmap.set 0 a.unknown)) = l.filterMap a.code ∧
      l.all (catOK (a.inmap.set 0 a.unknown)) = l.all a.charOK := by
    intro l
    induction l with
    | nil => intro _; simp
    | cons c cs ih =>
      intro hl
      obtain ⟨i1, i2⟩ := ih (fun d hd => hl d (by simp [hd]))
      obtain ⟨c1, c2⟩ := hcode c (hl c (by simp))
      simp [List.filterMap_cons, c1, c2, i1, i2]
  obtain ⟨e1, e2⟩ := e12 s hnul
  rw [e1, e2]
  rfl

end Alphabet
end EaselModel.Alphabet
