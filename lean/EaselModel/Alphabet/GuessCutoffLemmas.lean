import EaselModel.Alphabet.Round4Lemmas
/-! # C08 — the counting loop of `esl_sq_GuessAlphabet` (and of both passes of `esl_msa_GuessAlphabet`) on EVERY byte string:
it counts exactly the letters of the shortest prefix holding 10001 letters (`if (n > 10000) break;` after the increment) -/
set_option linter.dupNamespace false
namespace EaselModel.Alphabet.Guess

/-- `c` is a letter A–Z / a–z -/
def isL (c : Nat) : Bool := decide (65 ≤ c ∧ c ≤ 90) || decide (97 ≤ c ∧ c ≤ 122)

theorem nLetters_eq (seq : List Nat) : nLetters seq = (seq.filter isL).length := rfl

theorem isL_iff (c : Nat) (hc : c < 256) : isL c = true ↔ ¬ (letterIdx c < 0 ∨ letterIdx c ≥ 26) := by
  unfold isL letterIdx
  by_cases h1 : c ≥ 128
  · simp only [h1, if_true]; simp; omega
  · by_cases h2 : 97 ≤ c ∧ c ≤ 122
    · simp only [h1, h2, if_false, if_true, and_self]; simp; omega
    · simp only [h1, h2, if_false]; simp; omega

/-- the shortest prefix of `seq` that holds `k` letters (all of `seq` if it has fewer) -/
def takeLetters : Nat → List Nat → List Nat
  | 0, _ => []
  | _, [] => []
  | k+1, c :: cs => if isL c then c :: takeLetters k cs else c :: takeLetters (k+1) cs

theorem nLetters_takeLetters (k : Nat) (seq : List Nat) : nLetters (takeLetters k seq) ≤ k := by
  induction seq generalizing k with
  | nil => cases k <;> simp [takeLetters, nLetters]
  | cons c cs ih =>
    cases k with
    | zero => simp [takeLetters, nLetters]
    | succ k =>
      unfold takeLetters
      by_cases h : isL c = true
      · rw [if_pos h, nLetters_eq, List.filter_cons, if_pos h, List.length_cons, ← nLetters_eq]
        have := ih k; omega
      · rw [if_neg h, nLetters_eq, List.filter_cons, if_neg h, ← nLetters_eq]
        exact ih (k+1)

theorem takeLetters_prefix (k : Nat) (seq : List Nat) : ∃ rest, seq = takeLetters k seq ++ rest := by
  induction seq generalizing k with
  | nil => cases k <;> exact ⟨[], by simp [takeLetters]⟩
  | cons c cs ih =>
    cases k with
    | zero => exact ⟨c :: cs, by simp [takeLetters]⟩
    | succ k =>
      unfold takeLetters
      by_cases h : isL c = true
      · rw [if_pos h]; obtain ⟨r, hr⟩ := ih k; exact ⟨r, by rw [List.cons_append, ← hr]⟩
      · rw [if_neg h]; obtain ⟨r, hr⟩ := ih (k+1); exact ⟨r, by rw [List.cons_append, ← hr]⟩

theorem takeLetters_all (k : Nat) (seq : List Nat) (h : nLetters seq < k) : takeLetters k seq = seq := by
  induction seq generalizing k with
  | nil => cases k <;> rfl
  | cons c cs ih =>
    cases k with
    | zero => omega
    | succ k =>
      unfold takeLetters
      rw [nLetters_eq, List.filter_cons] at h
      by_cases hc : isL c = true
      · rw [if_pos hc] at h ⊢
        rw [List.length_cons, ← nLetters_eq] at h
        rw [ih k (by omega)]
      · rw [if_neg hc] at h ⊢
        rw [← nLetters_eq] at h
        rw [ih (k+1) h]

/-- the loop never looks past that prefix -/
theorem sqCount_prefix (seq : List Nat) (hb : ∀ c ∈ seq, c < 256) :
    ∀ (ct : List Int) (n : Nat), n ≤ 10000 → sqCount seq ct n = sqCount (takeLetters (10001 - n) seq) ct n := by
  induction seq with
  | nil => intro ct n _; cases h : 10001 - n <;> simp [takeLetters]
  | cons c cs ih =>
    intro ct n hn
    have hcb := hb c List.mem_cons_self
    have ih' := ih (fun c' hc' => hb c' (List.mem_cons_of_mem _ hc'))
    obtain ⟨k, hk⟩ : ∃ k, 10001 - n = k + 1 := ⟨10000 - n, by omega⟩
    rw [hk]
    unfold takeLetters
    by_cases hL : isL c = true
    · have hin := (isL_iff c hcb).mp hL
      rw [if_pos hL, sqCount_cons_in c cs ct n hin, sqCount_cons_in c _ ct n hin]
      by_cases hcut : n + 1 > 10000
      · rw [if_pos hcut, if_pos hcut]
      · rw [if_neg hcut, if_neg hcut, ih' _ (n + 1) (by omega)]
        have : 10001 - (n + 1) = k := by omega
        rw [this]
    · have hout : letterIdx c < 0 ∨ letterIdx c ≥ 26 := by
        by_cases h : letterIdx c < 0 ∨ letterIdx c ≥ 26
        · exact h
        · exact absurd ((isL_iff c hcb).mpr h) hL
      rw [if_neg hL, sqCount_cons_out c cs ct n hout, sqCount_cons_out c _ ct n hout, ih' ct n hn, hk]

theorem filter_isLetter_nil (seq : List Nat) (l : Nat) (hl : l < 26) (h : nLetters seq = 0) :
    (seq.filter fun c => isLetter c l).length = 0 := by
  have := filter_letter_le seq l hl; omega

/-- `sqCount_spec` with the bound that includes the letter on which the loop breaks -/
theorem sqCount_spec' (seq : List Nat) (hb : ∀ c ∈ seq, c < 256) :
    ∀ (ct : List Int) (n : Nat), ct.length = 26 → n ≤ 10000 → n + nLetters seq ≤ 10001 →
      (sqCount seq ct n).length = 26 ∧
      ∀ l, l < 26 → (sqCount seq ct n).getD l 0 = ct.getD l 0 + ((seq.filter fun c => isLetter c l).length : Int) := by
  induction seq with
  | nil => intro ct n hl _ _; exact ⟨hl, fun l _ => by simp [sqCount]⟩
  | cons c cs ih =>
    intro ct n hl hn0 hn
    have hcb := hb c List.mem_cons_self
    have ih' := ih (fun c' hc' => hb c' (List.mem_cons_of_mem _ hc'))
    rcases letterIdx_cases c hcb with ⟨hout, hno⟩ | ⟨l0, hl0, hidx, hyes, hother⟩
    · have hL : ¬ isL c = true := fun h => ((isL_iff c hcb).mp h) hout
      have hnl : nLetters (c :: cs) = nLetters cs := by
        rw [nLetters_eq, List.filter_cons, if_neg hL, ← nLetters_eq]
      rw [sqCount_cons_out c cs ct n hout]
      obtain ⟨g1, g2⟩ := ih' ct n hl hn0 (by omega)
      refine ⟨g1, fun l hl' => ?_⟩
      rw [g2 l hl', List.filter_cons, hno l hl']; rfl
    · have hin : ¬ (letterIdx c < 0 ∨ letterIdx c ≥ 26) := by omega
      have hL : isL c = true := (isL_iff c hcb).mpr hin
      have hnl : nLetters (c :: cs) = nLetters cs + 1 := by
        rw [nLetters_eq, List.filter_cons, if_pos hL, List.length_cons, ← nLetters_eq]
      have htn : (letterIdx c).toNat = l0 := by omega
      rw [sqCount_cons_in c cs ct n hin, htn]
      have hbl : (bump ct l0).length = 26 := by rw [bump_length]; exact hl
      have hbget : ∀ l, l < 26 → (bump ct l0).getD l 0 = ct.getD l 0 + (if l = l0 then 1 else 0) := by
        intro l _
        unfold bump
        rw [getD_setI _ _ _ _ (by omega)]
        by_cases e : l = l0
        · subst e; simp
        · simp [e]
      by_cases hcut : n + 1 > 10000
      · rw [if_pos hcut]
        refine ⟨hbl, fun l hl' => ?_⟩
        have hz : nLetters cs = 0 := by omega
        rw [hbget l hl', List.filter_cons]
        by_cases e : l = l0
        · subst e; rw [if_pos rfl, hyes, if_pos rfl, List.length_cons, filter_isLetter_nil cs l hl' hz]; rfl
        · rw [if_neg e, hother l e hl']
          simp only [Bool.false_eq_true, if_false]
          rw [filter_isLetter_nil cs l hl' hz]; simp
      · rw [if_neg hcut]
        obtain ⟨g1, g2⟩ := ih' (bump ct l0) (n + 1) hbl (by omega) (by omega)
        refine ⟨g1, fun l hl' => ?_⟩
        rw [g2 l hl', hbget l hl', List.filter_cons]
        by_cases e : l = l0
        · subst e; simp only [if_true, hyes, List.length_cons]; push_cast; omega
        · rw [if_neg e, hother l e hl']; simp

/-- **the counting loop of `esl_sq_GuessAlphabet` on EVERY byte string**: counter `l` = number of occurrences (either case) of
    letter `l` in the shortest prefix that holds 10001 letters; the counters are counts in `[0, 2^31)` -/
theorem sqCount_all (seq : List Nat) (hb : ∀ c ∈ seq, c < 256) :
    (∀ l, l < 26 → (sqCount seq (List.replicate 26 0) 0).getD l 0 =
      (((takeLetters 10001 seq).filter fun c => isLetter c l).length : Int)) ∧
    Counts (sqCount seq (List.replicate 26 0) 0) := by
  have hpre := sqCount_prefix seq hb (List.replicate 26 0) 0 (by omega)
  obtain ⟨rest, hrest⟩ := takeLetters_prefix 10001 seq
  have hb' : ∀ c ∈ takeLetters 10001 seq, c < 256 := fun c hc => hb c (by rw [hrest]; exact List.mem_append_left _ hc)
  have hnl := nLetters_takeLetters 10001 seq
  obtain ⟨g1, g2⟩ := sqCount_spec' (takeLetters 10001 seq) hb' (List.replicate 26 0) 0 (by simp) (by omega) (by omega)
  have hz : ∀ l, (List.replicate 26 (0 : Int)).getD l 0 = 0 := by
    intro l; rw [List.getD_eq_getElem?_getD, List.getElem?_replicate]; split <;> rfl
  have hcnt : ∀ l, l < 26 → (sqCount seq (List.replicate 26 0) 0).getD l 0 =
      (((takeLetters 10001 seq).filter fun c => isLetter c l).length : Int) := by
    intro l hl
    rw [hpre]
    have := g2 l hl
    rw [hz l] at this
    simpa using this
  refine ⟨hcnt, fun l => ?_⟩
  by_cases hl : l < 26
  · rw [hcnt l hl]
    have := filter_letter_le (takeLetters 10001 seq) l hl
    omega
  · rw [hpre, List.getD_eq_getElem?_getD, List.getElem?_eq_none (by rw [Nat.sub_zero, g1]; omega)]
    simp

end EaselModel.Alphabet.Guess
