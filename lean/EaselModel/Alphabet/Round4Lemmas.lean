import EaselModel.Alphabet.Model3
import EaselModel.Alphabet.Sq2Lemmas
import EaselModel.Alphabet.DealignLemmas
import EaselModel.Alphabet.GuessLemmas
import EaselModel.Generated.Alphabets
import EaselModel.Generated.AlphabetsAux
/-! # C08 — round 4 lemmas: text-mode `esl_sq_CountResidues`, `esl_abc_TextizeN` windows, `esl_abc_dsqrlen`, `esl_abc_dsqdup`,
`esl_abc_{F,D}Count` on the non-degenerate codes, `esl_msa_GuessAlphabet` -/
set_option linter.dupNamespace false
namespace EaselModel.Alphabet

namespace Sq
open EaselModel.Alphabet.Alphabet

/-- what byte `c` of a text-mode sequence contributes to counter `y`: the share of its code if the byte is a character of
    the alphabet (`esl_abc_CIsValid`: 7-bit and mapped to a code), nothing otherwise -/
def shareC (a : Alphabet) (c y : Nat) : ℚ := if a.cIsValid c then share a (a.inmapAt c) y else 0

theorem countResTextLoop_spec (a : Alphabet) (h : a.WFDegen) (seq : List Nat) (y : Nat) :
    ∀ (k i : Nat) (f : List ℚ), i + k ≤ seq.length → f.length = a.K →
      ∃ f', countResTextLoop a seq k i f = some f' ∧ f'.length = a.K ∧
        f'.getD y 0 = f.getD y 0 + (((seq.drop i).take k).map fun c => shareC a c y).sum := by
  intro k
  induction k with
  | zero => intro i f _ hf; exact ⟨f, rfl, hf, by simp⟩
  | succ k ih =>
    intro i f hl hf
    have hi : i < seq.length := by omega
    have e : seq[i]? = some (seq.getD i 0) := getElem?_getD0 seq i hi
    have hdrop : (seq.drop i).take (k+1) = seq.getD i 0 :: (seq.drop (i+1)).take k := by
      rw [List.drop_eq_getElem_cons hi, List.take_succ_cons]
      congr 1
      rw [List.getD_eq_getElem?_getD, List.getElem?_eq_getElem hi]; rfl
    rw [hdrop, List.map_cons, List.sum_cons]
    generalize seq.getD i 0 = c at e ⊢
    by_cases hv : a.cIsValid c = true
    · have hlt : a.inmapAt c < a.Kp := by
        unfold cIsValid at hv; simp only [Bool.and_eq_true, decide_eq_true_eq] at hv; exact hv.2
      by_cases hg : a.cIsGap c = true
      · have hgk : a.inmapAt c = a.K := by
          unfold cIsGap at hg; simp only [Bool.and_eq_true, decide_eq_true_eq] at hg; exact hg.2
        obtain ⟨f', g1, g2, g3⟩ := ih (i+1) f (by omega) hf
        refine ⟨f', ?_, g2, ?_⟩
        · unfold countResTextLoop
          simp only [e, Option.bind_eq_bind, Option.bind_some, hv, hg, Bool.not_true, Bool.and_false, Bool.false_eq_true, if_false]
          exact g1
        · rw [g3]; unfold shareC; rw [if_pos hv, hgk, share_gap]; ring
      · have hg' : a.cIsGap c = false := by simpa using hg
        have hne : a.inmapAt c ≠ a.K := by
          intro e2
          have h7 : c < 128 := by
            unfold cIsValid at hv; simp only [Bool.and_eq_true, decide_eq_true_eq] at hv; exact hv.1
          unfold cIsGap at hg'; simp [h7, e2] at hg'
        obtain ⟨f1, c1, c2, c3⟩ := count_share a h (a.inmapAt c) hlt hne f hf
        obtain ⟨f', g1, g2, g3⟩ := ih (i+1) f1 (by omega) (by rw [c2, hf])
        refine ⟨f', ?_, g2, ?_⟩
        · unfold countResTextLoop
          simp only [e, Option.bind_eq_bind, Option.bind_some, hv, hg', Bool.not_false, Bool.and_self, if_true, c1]
          exact g1
        · rw [g3, c3 y]; unfold shareC; rw [if_pos hv]; ring
    · have hv' : a.cIsValid c = false := by simpa using hv
      obtain ⟨f', g1, g2, g3⟩ := ih (i+1) f (by omega) hf
      refine ⟨f', ?_, g2, ?_⟩
      · unfold countResTextLoop
        simp only [e, Option.bind_eq_bind, Option.bind_some, hv', Bool.false_and, Bool.false_eq_true, if_false]
        exact g1
      · rw [g3]; unfold shareC; rw [if_neg hv]; ring

/-- text-mode `esl_sq_CountResidues(sq, start, L, f)` with a `K`-long vector, for EVERY byte string (no hypothesis on the
    bytes): inside the range `0 ≤ start`, `start+L ≤ n` it never reads or writes out of bounds and counter `y` grows by the
    sum of the shares of the bytes `start … start+L-1` that are characters of the alphabet; other bytes (also ≥ 0x80) are
    skipped -/
theorem countResiduesText_spec (a : Alphabet) (h : a.WFDegen) (seq : List Nat) (start L : Nat)
    (hr : start + L ≤ seq.length) (f : List ℚ) (hf : f.length = a.K) (y : Nat) :
    ∃ f', countResiduesText a seq start L f = some (some f') ∧ f'.length = a.K ∧
      f'.getD y 0 = f.getD y 0 + (((seq.drop start).take L).map fun c => shareC a c y).sum := by
  obtain ⟨f', g1, g2, g3⟩ := countResTextLoop_spec a h seq y L start f hr hf
  refine ⟨f', ?_, g2, g3⟩
  unfold countResiduesText
  rw [if_neg (by omega)]
  simp only [Int.toNat_natCast]
  rw [g1]

/-- eslERANGE exactly when `start < 0` or `start + L > n`; a non-positive `L` inside the range changes nothing -/
theorem countResiduesText_range (a : Alphabet) (seq : List Nat) (start L : Int) (f : List ℚ) :
    (countResiduesText a seq start L f = none ↔ start < 0 ∨ start + L > (seq.length : Int)) ∧
    (¬ (start < 0 ∨ start + L > (seq.length : Int)) → L ≤ 0 → countResiduesText a seq start L f = some (some f)) := by
  unfold countResiduesText
  constructor
  · by_cases c : start < 0 ∨ start + L > (seq.length : Int)
    · simp [c]
    · simp [c]
  · intro c hL
    rw [if_neg c]
    have : L.toNat = 0 := by omega
    rw [this]; rfl

/-- for a sequence of valid characters, counting in text mode = counting the digitised sequence in digital mode
    (same shares position by position) -/
theorem shareC_valid (a : Alphabet) (seq : List Nat) (hv : ∀ c ∈ seq, a.cIsValid c = true) (y : Nat) :
    seq.map (fun c => shareC a c y) = (seq.map a.inmapAt).map fun x => share a x y := by
  rw [List.map_map]
  apply List.map_congr_left
  intro c hc
  unfold shareC
  rw [if_pos (hv c hc)]; rfl

end Sq

namespace Alphabet

/-! ## `esl_abc_TextizeN` -/

theorem mem_takeWhile_both {p : Nat → Bool} {l : List Nat} {x : Nat} (h : x ∈ l.takeWhile p) : x ∈ l ∧ p x = true := by
  induction l with
  | nil => simp at h
  | cons y ys ih =>
    rw [List.takeWhile_cons] at h
    by_cases hy : p y = true
    · rw [if_pos hy] at h
      rcases List.mem_cons.mp h with e | e
      · exact ⟨by rw [e]; exact List.mem_cons_self, e ▸ hy⟩
      · exact ⟨List.mem_cons_of_mem _ (ih e).1, (ih e).2⟩
    · rw [if_neg hy] at h; simp at h

theorem takeWhile_all {p : Nat → Bool} {l : List Nat} (h : ∀ x ∈ l, p x = true) : l.takeWhile p = l := by
  induction l with
  | nil => rfl
  | cons y ys ih =>
    rw [List.takeWhile_cons, if_pos (h y List.mem_cons_self), ih (fun x hx => h x (List.mem_cons_of_mem _ hx))]

theorem textizeN_go (a : Alphabet) (d : List Nat) (off : Nat) :
    ∀ (k i : Nat) (acc : List Nat),
      (∀ x ∈ (((d.drop (off + i)).take k).takeWhile (· ≠ SENTINEL)), x < a.sym.length) →
      (off + i + k ≤ d.length ∨ SENTINEL ∈ (d.drop (off + i)).take k) →
      a.textizeN d off k i acc = some (acc.reverse ++ ((((d.drop (off + i)).take k).takeWhile (· ≠ SENTINEL)).map a.symAt) ++
        (if SENTINEL ∈ (d.drop (off + i)).take k then [0] else [])) := by
  intro k
  induction k with
  | zero => intro i acc _ _; simp [textizeN]
  | succ k ih =>
    intro i acc hv hl
    by_cases hi : off + i < d.length
    · have e : d[off + i]? = some (d.getD (off + i) 0) := by
        rw [List.getD_eq_getElem?_getD, List.getElem?_eq_getElem hi]; simp
      have hdrop : (d.drop (off + i)).take (k+1) = d.getD (off + i) 0 :: (d.drop (off + (i+1))).take k := by
        rw [List.drop_eq_getElem_cons hi, List.take_succ_cons]
        congr 1
        rw [List.getD_eq_getElem?_getD, List.getElem?_eq_getElem hi]; rfl
      rw [hdrop] at hv hl ⊢
      generalize d.getD (off + i) 0 = x at e hv hl ⊢
      by_cases hx : x = SENTINEL
      · subst hx
        unfold textizeN
        simp [e]
      · have hxl : x < a.sym.length := hv x (by simp [List.takeWhile_cons, hx])
        have ec : a.sym[x]? = some (a.symAt x) := by
          unfold symAt
          rw [List.getD_eq_getElem?_getD, List.getElem?_eq_getElem hxl]; simp
        have ih' := ih (i+1) (a.symAt x :: acc)
          (fun z hz => hv z (by simp only [List.takeWhile_cons, hx, ne_eq, not_false_eq_true, decide_true, if_true]; exact List.mem_cons_of_mem _ hz))
          (by
            rcases hl with hl | hl
            · left; omega
            · right
              rcases List.mem_cons.mp hl with e2 | e2
              · exact absurd e2.symm hx
              · exact e2)
        unfold textizeN
        simp only [e, Option.bind_eq_bind, Option.bind_some, hx, if_false, ec]
        rw [ih']
        have hmem : (SENTINEL ∈ x :: (d.drop (off + (i+1))).take k) ↔ SENTINEL ∈ (d.drop (off + (i+1))).take k := by
          constructor
          · intro hm
            rcases List.mem_cons.mp hm with e2 | e2
            · exact absurd e2.symm hx
            · exact e2
          · intro hm; exact List.mem_cons_of_mem _ hm
        simp only [List.takeWhile_cons, hx, ne_eq, not_false_eq_true, decide_true, if_true, List.map_cons, List.reverse_cons,
          List.append_assoc, List.singleton_append, hmem]
    · exfalso
      have hnil : (d.drop (off + i)).take (k+1) = [] := by
        rw [List.drop_eq_nil_of_le (by omega)]; rfl
      rw [hnil] at hl
      rcases hl with hl | hl
      · omega
      · simp at hl

/-- `esl_abc_TextizeN(a, dsq + off, L, buf)` on a digital sequence of valid codes, for every start `off` (also at either
    sentinel) and every `L`: the window `dsq[off .. off+L-1]` is spelled up to its first sentinel; if the window holds a
    sentinel a NUL is written there and nothing after it; otherwise exactly `L` symbols and no NUL. No out-of-bounds read. -/
theorem textizeN_window (a : Alphabet) (codes : List Nat) (hv : ∀ x ∈ codes, x < a.sym.length) (off L : Nat)
    (hoff : off ≤ codes.length + 1) :
    a.textizeN (mkDsq codes) off L 0 [] =
      some ((((((mkDsq codes).drop off).take L).takeWhile (· ≠ SENTINEL)).map a.symAt) ++
        (if SENTINEL ∈ ((mkDsq codes).drop off).take L then [0] else [])) := by
  have hlen : (mkDsq codes).length = codes.length + 2 := by simp [mkDsq]
  have key := textizeN_go a (mkDsq codes) off L 0 []
    (fun x hx => by
      obtain ⟨h1, h2'⟩ := mem_takeWhile_both hx
      have h2 : x ≠ SENTINEL := by simpa using h2'
      have h3 : x ∈ mkDsq codes := List.mem_of_mem_drop (List.mem_of_mem_take h1)
      unfold mkDsq at h3
      rcases List.mem_cons.mp h3 with e | e
      · exact absurd e h2
      · rcases List.mem_append.mp e with e | e
        · exact hv x e
        · exact absurd (List.mem_singleton.mp e) h2)
    (by
      by_cases c : off + 0 + L ≤ (mkDsq codes).length
      · left; exact c
      · right
        -- the window runs past the closing sentinel, which sits at index codes.length+1 ≥ off
        apply List.mem_iff_getElem?.mpr
        refine ⟨codes.length + 1 - off, ?_⟩
        rw [List.getElem?_take_of_lt (by omega), List.getElem?_drop]
        have e1 : off + 0 + (codes.length + 1 - off) = codes.length + 1 := by omega
        rw [e1]
        show (SENTINEL :: (codes ++ [SENTINEL]))[codes.length + 1]? = some SENTINEL
        rw [List.getElem?_cons_succ, List.getElem?_append_right (Nat.le_refl _)]
        simp)
  simpa using key

/-- a window that lies inside the residues: exactly `L` symbols, no NUL written -/
theorem textizeN_inside (a : Alphabet) (codes : List Nat) (hs : SENTINEL ∉ codes) (hv : ∀ x ∈ codes, x < a.sym.length)
    (off L : Nat) (h1 : 1 ≤ off) (h2 : off + L ≤ codes.length + 1) :
    a.textizeN (mkDsq codes) off L 0 [] = some (((codes.drop (off - 1)).take L).map a.symAt) := by
  rw [textizeN_window a codes hv off L (by omega)]
  obtain ⟨o, rfl⟩ : ∃ o, off = o + 1 := ⟨off - 1, by omega⟩
  have hw : ((mkDsq codes).drop (o + 1)).take L = (codes.drop o).take L := by
    show ((SENTINEL :: (codes ++ [SENTINEL])).drop (o + 1)).take L = _
    rw [List.drop_succ_cons, List.drop_append_of_le_length (by omega), List.take_append_of_le_length (by simp; omega)]
  have hns : SENTINEL ∉ (codes.drop o).take L := fun hm => hs (List.mem_of_mem_drop (List.mem_of_mem_take hm))
  rw [hw, if_neg hns, Nat.add_sub_cancel, List.append_nil]
  rw [takeWhile_all]
  intro x hx
  have : x ≠ SENTINEL := fun e => hns (e ▸ hx)
  simpa using this

/-- a window that reaches the closing sentinel: the remaining residues, then a NUL -/
theorem textizeN_reaching (a : Alphabet) (codes : List Nat) (hs : SENTINEL ∉ codes) (hv : ∀ x ∈ codes, x < a.sym.length)
    (off L : Nat) (h1 : 1 ≤ off) (h0 : off ≤ codes.length + 1) (h2 : codes.length + 1 < off + L) :
    a.textizeN (mkDsq codes) off L 0 [] = some ((codes.drop (off - 1)).map a.symAt ++ [0]) := by
  rw [textizeN_window a codes hv off L h0]
  obtain ⟨o, rfl⟩ : ∃ o, off = o + 1 := ⟨off - 1, by omega⟩
  have hw : ((mkDsq codes).drop (o + 1)).take L = codes.drop o ++ SENTINEL :: ([] : List Nat).take (L - (codes.length - o) - 1) := by
    show ((SENTINEL :: (codes ++ [SENTINEL])).drop (o + 1)).take L = _
    rw [List.drop_succ_cons, List.drop_append_of_le_length (by omega), List.take_append]
    rw [List.take_of_length_le (by simp; omega)]
    congr 1
    have : L - (codes.drop o).length = (L - (codes.length - o) - 1) + 1 := by simp; omega
    rw [this]; rfl
  have hns : SENTINEL ∉ codes.drop o := fun hm => hs (List.mem_of_mem_drop hm)
  rw [hw, Nat.add_sub_cancel]
  have htw : (codes.drop o ++ SENTINEL :: ([] : List Nat).take (L - (codes.length - o) - 1)).takeWhile (· ≠ SENTINEL) = codes.drop o := by
    rw [List.takeWhile_append_of_pos (by intro x hx; have : x ≠ SENTINEL := fun e => hns (e ▸ hx); simpa using this)]
    simp
  rw [htw, if_pos (by simp)]

/-! ## `esl_abc_dsqrlen`, `esl_abc_dsqdup` -/

theorem dsqrlen_spec (a : Alphabet) (codes : List Nat) (hs : SENTINEL ∉ codes) :
    a.dsqrlen (mkDsq codes) = some (codes.filter a.xIsResidue).length := by
  unfold dsqrlen
  rw [dsqlen_mkDsq codes hs]
  simp only [Option.bind_eq_bind, Option.bind_some]
  have : ((mkDsq codes).drop 1).take codes.length = codes := by
    show ((SENTINEL :: (codes ++ [SENTINEL])).drop 1).take codes.length = codes
    simp
  rw [this]

theorem dsqdup_spec (codes : List Nat) (hs : SENTINEL ∉ codes) :
    dsqdup (some (mkDsq codes)) none = some (some (mkDsq codes)) ∧
    dsqdup (some (mkDsq codes)) (some codes.length) = some (some (mkDsq codes)) ∧
    (∀ L, dsqdup none L = some none) := by
  have hlen : (mkDsq codes).length = codes.length + 2 := by simp [mkDsq]
  have hc : dsqcpy (mkDsq codes) codes.length = some (mkDsq codes) := by
    unfold dsqcpy; rw [if_pos (by omega), List.take_of_length_le (by omega)]
  refine ⟨?_, ?_, fun L => rfl⟩
  · unfold dsqdup; simp only [dsqlen_mkDsq codes hs, Option.bind_eq_bind, Option.bind_some, hc]
  · unfold dsqdup; simp only [Option.bind_eq_bind, Option.bind_some, hc]

/-! ## `esl_abc_{F,D}Count` on the codes that are not degenerate -/

/-- canonical residue or gap: the whole weight goes to counter `x` (so a gap needs a `K+1`-long vector);
    nonresidue `*`, missing data `~`: nothing is counted -/
theorem count_simple (a : Alphabet) (hK : a.K + 4 ≤ a.Kp) (ct : List ℚ) (wt : ℚ) (x : Nat) :
    (x ≤ a.K → x < ct.length → a.count ct x wt = some (ct.set x (ct.getD x 0 + wt))) ∧
    (x ≤ a.K → ct.length ≤ x → a.count ct x wt = none) ∧
    ((x = a.Kp - 2 ∨ x = a.Kp - 1) → a.count ct x wt = some ct) := by
  refine ⟨fun hx hl => ?_, fun hx hl => ?_, fun hx => ?_⟩
  · have c1 : (a.xIsCanonical x || a.xIsGap x) = true := by
      simp only [xIsCanonical, xIsGap, Bool.or_eq_true, decide_eq_true_eq]; omega
    unfold count
    simp only [c1, if_true, sc_get ct x hl, Option.bind_eq_bind, Option.bind_some, sn_add]
  · have c1 : (a.xIsCanonical x || a.xIsGap x) = true := by
      simp only [xIsCanonical, xIsGap, Bool.or_eq_true, decide_eq_true_eq]; omega
    unfold count
    simp only [c1, if_true, List.getElem?_eq_none hl, Option.bind_eq_bind, Option.bind_none]
  · have c1 : (a.xIsCanonical x || a.xIsGap x) = false := by
      simp only [xIsCanonical, xIsGap, Bool.or_eq_false_iff, decide_eq_false_iff_not]; omega
    have c2 : (a.xIsMissing x || a.xIsNonresidue x) = true := by
      simp only [xIsMissing, xIsNonresidue, Bool.or_eq_true, decide_eq_true_eq]; omega
    unfold count
    simp only [c1, c2, Bool.false_eq_true, if_false, if_true]

end Alphabet

/-! ## `esl_msa_GuessAlphabet` -/
namespace Guess

/-- the 3 × 26 probe compositions of the table dumper: 100 each of A, C, G and T (base 0) / U (base 1) / nothing (base 2), plus 8
    (12 for base 2) of letter `l` -/
def probe (i : Nat) : List Int :=
  let base := i / 26
  let l := i % 26
  let ct0 : List Int := if base < 2 then
      (((List.replicate 26 (0 : Int)).set 0 100).set 2 100 |>.set 6 100).set (if base = 0 then 19 else 20) 100
    else List.replicate 26 0
  ct0.set l (ct0.getD l 0 + (if base = 2 then 12 else 8))

/-- the 12 threshold probes of the dumper: total 10 / 11; all-N 2000 / 2001; 2 / 3 foreign letters (B) in 100 and in 101
    residues; T absent / present once; A, C, G, T, U together; A, C, G, U -/
def thresholdProbes : List (List Int) :=
  let mk := fun (a c g t u b n : Int) =>
    ((((((List.replicate 26 (0 : Int)).set 0 a).set 2 c).set 6 g).set 19 t).set 20 u |>.set 1 b).set 13 n
  [mk 3 3 2 2 0 0 0, mk 3 3 3 2 0 0 0, mk 0 0 0 0 0 0 2000, mk 0 0 0 0 0 0 2001, mk 25 25 24 24 0 2 0, mk 25 24 24 24 0 3 0,
   mk 25 25 25 24 0 2 0, mk 25 25 25 23 0 3 0, mk 16 16 16 0 0 0 0, mk 16 16 16 1 0 0 0, mk 10 10 10 10 10 0 0, mk 10 10 10 0 10 0 0]

theorem bump_length (ct : List Int) (x : Nat) : (bump ct x).length = ct.length := by simp [bump]

theorem sqCount_cons_out (c : Nat) (cs : List Nat) (ct : List Int) (n : Nat) (h : letterIdx c < 0 ∨ letterIdx c ≥ 26) :
    sqCount (c :: cs) ct n = sqCount cs ct n := by
  conv_lhs => unfold sqCount
  simp only [h, if_true]

theorem sqCount_cons_in (c : Nat) (cs : List Nat) (ct : List Int) (n : Nat) (h : ¬ (letterIdx c < 0 ∨ letterIdx c ≥ 26)) :
    sqCount (c :: cs) ct n =
      if n + 1 > 10000 then bump ct (letterIdx c).toNat else sqCount cs (bump ct (letterIdx c).toNat) (n + 1) := by
  conv_lhs => unfold sqCount
  simp only [h, if_false]
  rfl

/-- one row of the pooled pass = the counting loop of `esl_sq_GuessAlphabet` on that row: either the 10000-letter cutoff is
    hit inside the row (the scan stops for good), or the scan goes on with the next row -/
theorem msaPoolRow_spec (r : List Nat) :
    ∀ (ct : List Int) (n : Nat), ct.length = 26 → n ≤ 10000 →
      ∃ ct' n', msaPoolRow r ct n = some (ct', n') ∧ ct'.length = 26 ∧
        ((n' > 10000 ∧ ∀ rest, sqCount (r ++ rest) ct n = ct') ∨
         (n' ≤ 10000 ∧ ∀ rest, sqCount (r ++ rest) ct n = sqCount rest ct' n')) := by
  induction r with
  | nil => intro ct n hl hn; exact ⟨ct, n, rfl, hl, Or.inr ⟨hn, fun rest => rfl⟩⟩
  | cons c cs ih =>
    intro ct n hl hn
    by_cases hout : letterIdx c < 0 ∨ letterIdx c > 25
    · obtain ⟨ct', n', g1, g2, g3⟩ := ih ct n hl hn
      have hout' : letterIdx c < 0 ∨ letterIdx c ≥ 26 := by omega
      refine ⟨ct', n', ?_, g2, ?_⟩
      · unfold msaPoolRow; simp only [hout, if_true]; exact g1
      · rcases g3 with ⟨a1, a2⟩ | ⟨a1, a2⟩
        · left; refine ⟨a1, fun rest => ?_⟩
          rw [List.cons_append, sqCount_cons_out _ _ _ _ hout']; exact a2 rest
        · right; refine ⟨a1, fun rest => ?_⟩
          rw [List.cons_append, sqCount_cons_out _ _ _ _ hout']; exact a2 rest
    · have hin' : ¬ (letterIdx c < 0 ∨ letterIdx c ≥ 26) := by omega
      have hlt : ¬ (letterIdx c).toNat ≥ ct.length := by omega
      by_cases hcut : n + 1 > 10000
      · refine ⟨bump ct (letterIdx c).toNat, n + 1, ?_, by rw [bump_length]; exact hl, Or.inl ⟨hcut, fun rest => ?_⟩⟩
        · unfold msaPoolRow; simp only [hout, if_false, hlt, hcut, if_true]
        · rw [List.cons_append, sqCount_cons_in _ _ _ _ hin', if_pos hcut]
      · obtain ⟨ct', n', g1, g2, g3⟩ := ih (bump ct (letterIdx c).toNat) (n + 1) (by rw [bump_length]; exact hl) (by omega)
        refine ⟨ct', n', ?_, g2, ?_⟩
        · unfold msaPoolRow; simp only [hout, if_false, hlt, hcut]; exact g1
        · rcases g3 with ⟨a1, a2⟩ | ⟨a1, a2⟩
          · left; refine ⟨a1, fun rest => ?_⟩
            rw [List.cons_append, sqCount_cons_in _ _ _ _ hin', if_neg hcut]; exact a2 rest
          · right; refine ⟨a1, fun rest => ?_⟩
            rw [List.cons_append, sqCount_cons_in _ _ _ _ hin', if_neg hcut]; exact a2 rest

/-- the pooled second pass over all rows = the counting loop of `esl_sq_GuessAlphabet` on the rows laid end to end (same
    10000-letter cutoff); in particular it never stores outside the 26 counters -/
theorem msaPool_spec (rows : List (List Nat)) :
    ∀ (ct : List Int) (n : Nat), ct.length = 26 → n ≤ 10000 → msaPool rows ct n = some (sqCount rows.flatten ct n) := by
  induction rows with
  | nil => intro ct n _ _; rfl
  | cons r rs ih =>
    intro ct n hl hn
    obtain ⟨ct', n', g1, g2, g3⟩ := msaPoolRow_spec r ct n hl hn
    unfold msaPool
    simp only [g1, List.flatten_cons]
    rcases g3 with ⟨a1, a2⟩ | ⟨a1, a2⟩
    · rw [if_pos a1, a2]
    · rw [if_neg (by omega), ih ct' n' g2 a1, a2]

/-- **`esl_msa_GuessAlphabet` on a text-mode alignment**: the vote over the per-row answers if it decides, else the answer
    for the composition of the whole alignment scanned row by row; never a fault -/
theorem msaGuess_spec (g : List Int → Nat) (rows : List (List Nat)) :
    msaGuess g rows = some (
      let t := msaVote (rows.map fun r => g (sqCount r (List.replicate 26 0) 0))
      if t ≠ 0 then (true, t)
      else (decide (g (sqCount rows.flatten (List.replicate 26 0) 0) ≠ 0), g (sqCount rows.flatten (List.replicate 26 0) 0))) := by
  unfold msaGuess
  simp only []
  split
  · rfl
  · rw [msaPool_spec rows _ 0 (by simp) (by omega)]; rfl

theorem filter_pos_iff (types : List Nat) (v : Nat) : (types.filter (· == v)).length > 0 ↔ v ∈ types := by
  show 0 < (types.filter (· == v)).length ↔ v ∈ types
  rw [List.length_pos_iff_exists_mem]
  constructor
  · rintro ⟨x, hx⟩
    have := List.mem_filter.mp hx
    have e : x = v := by simpa using this.2
    exact e ▸ this.1
  · intro h; exact ⟨v, List.mem_filter.mpr ⟨h, by simp⟩⟩

/-- the vote: amino iff some row is amino and none nucleic; DNA iff some row is DNA and none amino (RNA rows do not matter);
    RNA iff some row is RNA and none DNA or amino; undecided otherwise (no row classified, or amino and nucleic rows) -/
theorem msaVote_spec (types : List Nat) :
    (msaVote types = 3 ↔ 3 ∈ types ∧ 2 ∉ types ∧ 1 ∉ types) ∧
    (msaVote types = 2 ↔ 2 ∈ types ∧ 3 ∉ types) ∧
    (msaVote types = 1 ↔ 1 ∈ types ∧ 2 ∉ types ∧ 3 ∉ types) ∧
    (msaVote types = 0 ↔ (3 ∉ types ∧ 2 ∉ types ∧ 1 ∉ types) ∨ (3 ∈ types ∧ (2 ∈ types ∨ 1 ∈ types))) := by
  have h3 := filter_pos_iff types 3
  have h2 := filter_pos_iff types 2
  have h1 := filter_pos_iff types 1
  unfold msaVote
  simp only []
  generalize (types.filter (· == 3)).length = n3 at h3 ⊢
  generalize (types.filter (· == 2)).length = n2 at h2 ⊢
  generalize (types.filter (· == 1)).length = n1 at h1 ⊢
  by_cases m3 : 3 ∈ types <;> by_cases m2 : 2 ∈ types <;> by_cases m1 : 1 ∈ types <;>
    simp only [m3, m2, m1, iff_true, iff_false, not_lt, Nat.le_zero] at h3 h2 h1 <;>
    (repeat' split) <;> simp_all

end Guess
end EaselModel.Alphabet
