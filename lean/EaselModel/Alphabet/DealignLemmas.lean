import EaselModel.Alphabet.RevcompLemmas
/-! # C08 — `esl_abc_CDealign` / `esl_abc_XDealign`: the in-place compaction loop keeps exactly the characters aligned to
non-gap, non-missing reference positions -/
namespace EaselModel.Alphabet
namespace Alphabet

/-- the reference position keeps its column -/
def keepRef (a : Alphabet) (r : Nat) : Bool := !a.xIsGap r && !a.xIsMissing r

/-- the characters of `xs` aligned to kept reference positions -/
def keptOf (a : Alphabet) : List Nat → List Nat → List Nat
  | r :: refs, x :: xs => if a.keepRef r then x :: keptOf a refs xs else keptOf a refs xs
  | _, _ => []

theorem keptOf_length_le (a : Alphabet) (refs xs : List Nat) : (keptOf a refs xs).length ≤ refs.length := by
  induction refs generalizing xs with
  | nil => simp [keptOf]
  | cons r rest ih =>
    cases xs with
    | nil => simp [keptOf]
    | cons x xs =>
      unfold keptOf
      split
      · simp; exact ih xs
      · have := ih xs; simp; omega

/-- the loop, in closed form: the array always is `untouched prefix ++ kept so far ++ untouched rest` -/
theorem dealignLoop_spec (a : Alphabet) (b : Nat) (s0 : List Nat) :
    ∀ (refs : List Nat) (j : Nat) (K : List Nat), K.length ≤ j → j + refs.length + b ≤ s0.length →
      dealignLoop a b refs (j + 1) (b + K.length) (s0.take b ++ K ++ s0.drop (b + K.length)) =
        some (s0.take b ++ (K ++ keptOf a refs (s0.drop (j + b))) ++
                s0.drop (b + (K ++ keptOf a refs (s0.drop (j + b))).length),
              b + (K ++ keptOf a refs (s0.drop (j + b))).length) := by
  intro refs
  induction refs with
  | nil => intro j K _ _; simp [dealignLoop, keptOf]
  | cons r rest ih =>
    intro j K hK hlen
    simp only [List.length_cons] at hlen
    have hjb : j + b < s0.length := by omega
    obtain ⟨c, tl, hdrop⟩ : ∃ c tl, s0.drop (j + b) = c :: tl := by
      cases h : s0.drop (j + b) with
      | nil => simp at h; omega
      | cons c tl => exact ⟨c, tl, rfl⟩
    have htl : s0.drop (j + 1 + b) = tl := by
      have : s0.drop (j + b + 1) = (s0.drop (j + b)).drop 1 := by rw [List.drop_drop]
      rw [show j + 1 + b = j + b + 1 by omega, this, hdrop]; rfl
    have hc : s0[j + b]? = some c := by
      have := List.getElem?_drop (xs := s0) (i := j + b) (j := 0)
      rw [hdrop] at this; simpa using this.symm
    unfold dealignLoop
    by_cases hk : a.keepRef r = true
    · have hk' : (!a.xIsGap r && !a.xIsMissing r) = true := hk
      -- the read: index j + b lies in the untouched rest
      have hread : (s0.take b ++ K ++ s0.drop (b + K.length))[j + 1 - 1 + b]? = some c := by
        have hl : (s0.take b ++ K).length = b + K.length := by simp; omega
        rw [show j + 1 - 1 + b = (b + K.length) + (j - K.length) by omega,
          List.getElem?_append_right (by rw [hl]; omega), hl, List.getElem?_drop]
        rw [show b + K.length + (b + K.length + (j - K.length) - (b + K.length)) = j + b by omega]
        exact hc
      have hnlt : b + K.length < (s0.take b ++ K ++ s0.drop (b + K.length)).length := by simp; omega
      -- the write at b + |K|
      obtain ⟨d, tl2, hd⟩ : ∃ d tl2, s0.drop (b + K.length) = d :: tl2 := by
        cases h : s0.drop (b + K.length) with
        | nil => simp at h; omega
        | cons d tl2 => exact ⟨d, tl2, rfl⟩
      have htl2 : s0.drop (b + (K ++ [c]).length) = tl2 := by
        have : s0.drop (b + K.length + 1) = (s0.drop (b + K.length)).drop 1 := by rw [List.drop_drop]
        rw [show b + (K ++ [c]).length = b + K.length + 1 by simp; omega, this, hd]; rfl
      have hset : (s0.take b ++ K ++ s0.drop (b + K.length)).set (b + K.length) c =
          s0.take b ++ (K ++ [c]) ++ s0.drop (b + (K ++ [c]).length) := by
        have hl : (s0.take b ++ K).length = b + K.length := by simp; omega
        rw [htl2, hd, List.set_append_right _ _ (by rw [hl]; omega), hl]
        simp
      simp only [hk', if_true, hread, Option.bind_eq_bind, Option.bind_some, hnlt, hset]
      have := ih (j + 1) (K ++ [c]) (by simp; omega) (by omega)
      have e : b + K.length + 1 = b + (K ++ [c]).length := by simp; omega
      rw [e, this, htl, hdrop]
      simp [keptOf, hk]
    · have hk' : (!a.xIsGap r && !a.xIsMissing r) = false := by simpa [keepRef] using hk
      simp only [hk', Bool.false_eq_true, if_false]
      have := ih (j + 1) K (by omega) (by omega)
      rw [this, htl, hdrop]
      simp [keptOf, hk]

end Alphabet
end EaselModel.Alphabet

namespace EaselModel.Alphabet
namespace Alphabet

theorem idxOf_append_self (l : List Nat) (v : Nat) (h : v ∉ l) : (l ++ [v]).idxOf v = l.length := by
  induction l with
  | nil => simp
  | cons x xs ih =>
    simp only [List.mem_cons, not_or] at h
    have hne : (x == v) = false := by simp; exact fun e => h.1 e.symm
    simp [List.idxOf_cons, hne, ih h.2]

theorem dsqlen_mkDsq (codes : List Nat) (h : SENTINEL ∉ codes) : dsqlen (mkDsq codes) = some codes.length := by
  unfold dsqlen mkDsq
  simp only [List.cons_append, List.drop_succ_cons, List.drop_zero]
  rw [idxOf_append_self codes SENTINEL h]
  simp

theorem keptOf_append (a : Alphabet) (refs xs ys : List Nat) (h : refs.length ≤ xs.length) :
    keptOf a refs (xs ++ ys) = keptOf a refs xs := by
  induction refs generalizing xs with
  | nil => simp [keptOf]
  | cons r rest ih =>
    cases xs with
    | nil => simp at h
    | cons x xs =>
      simp only [List.cons_append, keptOf]
      rw [ih xs (by simpa using h)]

/-- `esl_abc_CDealign(abc, s, ref_ax, &rlen)`: `s` becomes the characters aligned to the non-gap, non-missing positions of
    the reference, `rlen` their number; no out-of-bounds access when `s` is at least as long as the alignment -/
theorem cDealign_spec (a : Alphabet) (s refs : List Nat) (hs : SENTINEL ∉ refs) (hl : refs.length ≤ s.length) :
    a.cDealign s (mkDsq refs) = some (keptOf a refs s, (keptOf a refs s).length) := by
  unfold cDealign
  rw [dsqlen_mkDsq refs hs]
  have hr : ((mkDsq refs).drop 1).take refs.length = refs := by simp [mkDsq]
  have := dealignLoop_spec a 0 s refs 0 [] (by simp) (by simpa using hl)
  simp only [List.take_zero, List.nil_append, List.length_nil, Nat.add_zero, List.drop_zero, Nat.zero_add] at this
  simp only [Option.bind_eq_bind, Option.bind_some, hr, this]
  have hle := keptOf_length_le a refs s
  simp

/-- `esl_abc_XDealign(abc, x, ref_ax, &rlen)` likewise for a digital `x` (sentinels restored) -/
theorem xDealign_spec (a : Alphabet) (xs refs : List Nat) (hs : SENTINEL ∉ refs) (hl : refs.length ≤ xs.length) :
    a.xDealign (mkDsq xs) (mkDsq refs) = some (mkDsq (keptOf a refs xs), (keptOf a refs xs).length) := by
  unfold xDealign
  rw [dsqlen_mkDsq refs hs]
  have hr : ((mkDsq refs).drop 1).take refs.length = refs := by simp [mkDsq]
  have hx0 : (mkDsq xs).set 0 SENTINEL = mkDsq xs := by simp [mkDsq]
  have hne : ¬ (mkDsq xs).length = 0 := by simp [mkDsq]
  have := dealignLoop_spec a 1 (mkDsq xs) refs 0 [] (by simp) (by simp [mkDsq]; omega)
  have hk : keptOf a refs ((mkDsq xs).drop (0 + 1)) = keptOf a refs xs := by
    have : (mkDsq xs).drop (0 + 1) = xs ++ [SENTINEL] := by simp [mkDsq]
    rw [this, keptOf_append a refs xs [SENTINEL] hl]
  rw [hk] at this
  simp only [List.length_nil, Nat.add_zero, List.nil_append] at this
  have ht : (mkDsq xs).take 1 ++ [] ++ (mkDsq xs).drop 1 = mkDsq xs := by simp [mkDsq]
  rw [ht] at this
  have hle := keptOf_length_le a refs xs
  simp only [hne, if_false, Option.bind_eq_bind, Option.bind_some, hr, hx0, this]
  have hlt : 1 + (keptOf a refs xs).length < ((mkDsq xs).take 1 ++ keptOf a refs xs ++ (mkDsq xs).drop (1 + (keptOf a refs xs).length)).length := by
    simp [mkDsq]; omega
  rw [if_pos hlt]
  have e1 : (mkDsq xs).take 1 = [SENTINEL] := by simp [mkDsq]
  obtain ⟨d, tl, hd⟩ : ∃ d tl, (mkDsq xs).drop (1 + (keptOf a refs xs).length) = d :: tl := by
    cases h : (mkDsq xs).drop (1 + (keptOf a refs xs).length) with
    | nil => simp [mkDsq] at h; omega
    | cons d tl => exact ⟨d, tl, rfl⟩
  have hl1 : ([SENTINEL] ++ keptOf a refs xs).length = 1 + (keptOf a refs xs).length := by simp; omega
  rw [e1, hd, List.set_append_right _ _ (by rw [hl1]; omega), hl1, Nat.sub_self, List.set_cons_zero]
  have e2 : [SENTINEL] ++ keptOf a refs xs ++ SENTINEL :: tl = mkDsq (keptOf a refs xs) ++ tl := by simp [mkDsq]
  rw [e2, List.take_left' (by simp [mkDsq]; omega)]
  congr 2
  omega

end Alphabet
end EaselModel.Alphabet
