import EaselModel.Alphabet.DealignLemmas
/-! # C08 — `esl_abc_ValidateSeq` (status, number of bad characters, first bad position), `esl_sq_Digitize`,
`esl_abc_ConvertDegen2X` -/
namespace EaselModel.Alphabet
namespace Alphabet

/-- what `esl_abc_ValidateSeq` counts as a bad character: not `esl_abc_CIsValid` (with an alphabet; ignored characters are
    NOT valid here), or not 7-bit (without one) -/
def isBad (a : Option Alphabet) (c : Nat) : Bool :=
  match a with
  | some a => !a.cIsValid c
  | none => decide (c ≥ 128)

/-- 0-based position of the first bad character (= length, if there is none) -/
def firstBad (a : Option Alphabet) (seq : List Nat) : Nat := (seq.takeWhile fun c => !isBad a c).length

theorem badChars_cons (a : Option Alphabet) (c : Nat) (cs : List Nat) (i : Nat) :
    badChars a (c :: cs) i = if isBad a c then (c, i) :: badChars a cs (i+1) else badChars a cs (i+1) := by
  cases a <;> rfl

theorem badChars_length (a : Option Alphabet) (seq : List Nat) (i : Nat) :
    (badChars a seq i).length = (seq.filter (isBad a)).length := by
  induction seq generalizing i with
  | nil => rfl
  | cons c cs ih =>
    rw [badChars_cons, List.filter_cons]
    by_cases h : isBad a c = true
    · simp only [h, if_true, List.length_cons, ih]
    · simp only [h, Bool.false_eq_true, if_false, ih]

theorem badChars_head (a : Option Alphabet) (seq : List Nat) (i : Nat) :
    (badChars a seq i).head? =
      if firstBad a seq < seq.length then some (seq.getD (firstBad a seq) 0, i + firstBad a seq) else none := by
  induction seq generalizing i with
  | nil => rfl
  | cons c cs ih =>
    rw [badChars_cons]
    unfold firstBad
    by_cases h : isBad a c = true
    · simp [h, List.takeWhile_cons]
    · have h' : isBad a c = false := by simpa using h
      simp only [h', Bool.false_eq_true, if_false, List.takeWhile_cons, Bool.not_false, if_true, List.length_cons,
        List.getD_cons_succ, Nat.add_lt_add_iff_right]
      rw [ih (i+1)]
      unfold firstBad
      split
      · congr 2; omega
      · rfl

/-- `esl_abc_ValidateSeq`: eslOK iff no character is bad; otherwise eslEINVAL and the message names the number of bad
    characters, the first bad character and its 1-based position, in the two documented forms -/
theorem validateSeqMsg_spec (a : Option Alphabet) (seq : List Nat) :
    validateSeqMsg a seq =
      let nbad := (seq.filter (isBad a)).length
      let p := firstBad a seq
      if nbad = 0 then (.ok, [])
      else if nbad = 1 then (.einval, str "invalid char " ++ [seq.getD p 0] ++ str s!" at pos {p+1}")
      else (.einval, str s!"{nbad} invalid chars (including " ++ [seq.getD p 0] ++ str s!" at pos {p+1})") := by
  have hl := badChars_length a seq 0
  have hh := badChars_head a seq 0
  unfold validateSeqMsg
  simp only []
  cases hb : badChars a seq 0 with
  | nil => rw [hb] at hl; simp only [List.length_nil] at hl; rw [← hl]; rfl
  | cons x rest =>
    rw [hb] at hl hh
    simp only [List.head?_cons, List.length_cons] at hl hh
    have hp : firstBad a seq < seq.length := by
      by_cases e : firstBad a seq < seq.length
      · exact e
      · rw [if_neg e] at hh; cases hh
    rw [if_pos hp, Nat.zero_add] at hh
    obtain ⟨c, i⟩ := x
    simp only [Option.some.injEq, Prod.mk.injEq] at hh
    obtain ⟨hc, hi⟩ := hh
    subst hc hi
    cases rest with
    | nil =>
      simp only [List.length_nil, Nat.zero_add] at hl
      rw [← hl]; rfl
    | cons y rest' =>
      simp only [List.length_cons] at hl
      rw [← hl, if_neg (by omega), if_neg (by omega)]
      rfl

theorem validateSeq_ok_iff (a : Option Alphabet) (seq : List Nat) :
    (validateSeqMsg a seq).1 = .ok ↔ ∀ c ∈ seq, isBad a c = false := by
  rw [validateSeqMsg_spec]
  simp only []
  constructor
  · intro h
    by_cases e : (seq.filter (isBad a)).length = 0
    · intro c hc
      have : seq.filter (isBad a) = [] := List.eq_nil_of_length_eq_zero e
      have := List.filter_eq_nil_iff.mp this c hc
      simpa using this
    · rw [if_neg e] at h
      split at h <;> cases h
  · intro h
    have : seq.filter (isBad a) = [] := List.filter_eq_nil_iff.mpr (fun c hc => by rw [h c hc]; simp)
    rw [this]; rfl

theorem validateSeq_status (a : Option Alphabet) (seq : List Nat) :
    (validateSeqMsg a seq).1 = .ok ∨ (validateSeqMsg a seq).1 = .einval := by
  rw [validateSeqMsg_spec]; simp only []
  split
  · left; rfl
  · split <;> (right; rfl)

/-- a character `esl_abc_CIsValid` accepts digitises to its input-map code -/
theorem code_of_valid (a : Alphabet) (c : Nat) (h : a.cIsValid c = true) :
    a.code c = some (a.inmapAt c) ∧ a.charOK c = true := by
  unfold cIsValid at h
  simp only [Bool.and_eq_true, decide_eq_true_eq] at h
  unfold code charOK
  simp [h.1, h.2]

theorem filterMap_code_valid (a : Alphabet) (seq : List Nat) (h : ∀ c ∈ seq, a.cIsValid c = true) :
    seq.filterMap a.code = seq.map a.inmapAt ∧ seq.all a.charOK = true := by
  induction seq with
  | nil => simp
  | cons c cs ih =>
    obtain ⟨h1, h2⟩ := code_of_valid a c (h c (by simp))
    obtain ⟨i1, i2⟩ := ih (fun d hd => h d (by simp [hd]))
    simp [h1, h2, i1, i2]

/-- `esl_sq_Digitize(abc, sq)` on a text-mode sequence: if every character is `esl_abc_CIsValid` the result is eslOK and
    the digital sequence has exactly one code per character (`n` is unchanged: no character is dropped, because ignored
    characters are not valid for ValidateSeq); otherwise eslEINVAL and the sequence stays in text mode. The second
    digitisation can never fail. -/
theorem sqDigitize_spec (a : Alphabet) (seq : List Nat) :
    Sq.sqDigitize a seq =
      if seq.all a.cIsValid then .ok (mkDsq (seq.map a.inmapAt)) else .error .einval := by
  unfold Sq.sqDigitize Sq.validateSeq
  by_cases h : seq.all a.cIsValid = true
  · obtain ⟨h1, h2⟩ := filterMap_code_valid a seq (fun c hc => List.all_eq_true.mp h c hc)
    simp only [h, if_true, ne_eq, not_true_eq_false, if_false]
    rw [digitize_eq_spec]; unfold digitizeSpec
    simp only [h1, h2, if_true, ne_eq, not_true_eq_false, if_false]
    rfl
  · simp [h]

theorem sqValidateSeq_eq (a : Alphabet) (seq : List Nat) : Sq.validateSeq a seq = (validateSeqMsg (some a) seq).1 := by
  unfold Sq.validateSeq
  by_cases h : seq.all a.cIsValid = true
  · rw [if_pos h]
    exact ((validateSeq_ok_iff (some a) seq).mpr (fun c hc => by
      have := List.all_eq_true.mp h c hc; simp [isBad, this])).symm
  · rw [if_neg h]
    rcases validateSeq_status (some a) seq with e | e
    · exfalso; apply h
      rw [List.all_eq_true]; intro c hc
      have := (validateSeq_ok_iff (some a) seq).mp e c hc
      simpa [isBad] using this
    · exact e.symm

/-- `esl_abc_ConvertDegen2X`: every degenerate code becomes the `any` code, every other code stays; sentinels untouched -/
theorem convertDegen2X_spec (a : Alphabet) (codes : List Nat) (hs : SENTINEL ∉ codes) :
    a.convertDegen2X (mkDsq codes) = some (mkDsq (codes.map fun x => if a.xIsDegenerate x then a.unknown else x)) := by
  unfold convertDegen2X
  rw [dsqlen_mkDsq codes hs]
  simp only [Option.bind_eq_bind, Option.bind_some, mkDsq, List.take_succ_cons, List.take_zero, List.drop_succ_cons,
    List.drop_zero, List.take_left', List.drop_left']
  simp [List.take_append, List.drop_append]

/-- … and it is idempotent; canonical residues, gap, any, nonresidue and missing are fixed -/
theorem degen2X_idem (a : Alphabet) (h : a.K + 4 ≤ a.Kp) (x : Nat) :
    let f := fun x => if a.xIsDegenerate x then a.unknown else x
    f (f x) = f x ∧ (a.xIsDegenerate x = false → f x = x) ∧ (x < a.Kp → f x < a.Kp) := by
  simp only []
  refine ⟨?_, fun h' => by simp [h'], fun hx => ?_⟩
  · by_cases c : a.xIsDegenerate x = true
    · simp only [c, if_true]
      have : a.xIsDegenerate a.unknown = true := by
        unfold xIsDegenerate unknown; simp; omega
      simp [this]
    · simp [c]
  · split
    · unfold unknown; omega
    · exact hx

end Alphabet
end EaselModel.Alphabet
