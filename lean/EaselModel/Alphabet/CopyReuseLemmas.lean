import EaselModel.Alphabet.CopyReuseModel
import EaselModel.Alphabet.ObjLemmas
/-! # C08 (round 6b) — `esl_sq_Copy` into a reused destination: in the repaired form every answer leaves a consistent object;
in the stale form it does not (counter-example). -/
set_option linter.dupNamespace false
namespace EaselModel.Alphabet.Sq
open EaselModel.Alphabet EaselModel.Alphabet.Alphabet
namespace SqObj

theorem reuse_inv (o : SqObj) (h : o.Inv) : o.reuse.Inv := by
  refine ⟨?_, h.cap, ?_, fun s hs => (by cases hs)⟩
  · show (0 : Nat) + (if o.digital = true then 2 else 1) ≤ o.salloc
    have := h.room; omega
  · intro s hs
    obtain ⟨s0, _, rfl⟩ := Option.mem_map.mp hs
    rfl

theorem fresh_inv (digital : Bool) : (fresh digital).Inv := by
  refine ⟨?_, rfl, fun s hs => (by cases hs), fun s hs => (by cases hs)⟩
  cases digital <;> decide

/-- **`esl_sq_Copy(src, dst)` into ANY consistent destination, repaired form**: whatever `dst` held before (longer or shorter
    sequence, `ss` or not, any number of `xr` lines, straight after `esl_sq_Reuse` or not), whatever the answer (eslOK, or
    eslEINVAL for text → digital with a character outside the alphabet), `dst` is a consistent object of its own mode whose
    allocation never shrank and holds `src->n` residues + terminators; after eslOK it has EXACTLY the source's `ss` and `xr`
    strings (none if the source has none), `n`, `start`, `end` -/
theorem copyInto_fixed_spec (a : Alphabet) (o dst : SqObj) (h : o.Inv) (hd : dst.Inv)
    (hcodes : o.digital = true → dst.digital = false → ∀ x ∈ o.res, x < a.sym.length) (st : Status) (o' : SqObj)
    (e : copyInto true a o dst = some (st, o')) :
    o'.Inv ∧ o'.digital = dst.digital ∧ dst.salloc ≤ o'.salloc ∧ o'.salloc = sqGrowTo dst.digital dst.salloc o.n ∧
    (st = .ok ∨ st = .einval) ∧
    (st = .ok → o'.ss = o.ss ∧ o'.xr = o.xr ∧ o'.n = o.n ∧ o'.start = o.start ∧ o'.stop = o.stop) ∧
    (st ≠ .ok → o'.n = 0 ∧ o'.xr = [] ∧ o.digital = false ∧ dst.digital = true ∧ o.res.all a.cIsValid = false) := by
  obtain ⟨g1, g2, _⟩ := sqGrowTo_spec dst.digital dst.salloc o.n
  have hgood : ∀ (res : List Nat), res.length = o.n →
      (⟨dst.digital, res, sqGrowTo dst.digital dst.salloc o.n, sqGrowTo dst.digital dst.salloc o.n, o.ss, o.xr, o.start, o.stop⟩ : SqObj).Inv := by
    intro res hl
    refine ⟨?_, rfl, ?_, ?_⟩
    · show res.length + (if dst.digital = true then 2 else 1) ≤ _
      rw [hl]; exact g1
    · intro s hs; show s.length = res.length; rw [hl]; exact h.ss s hs
    · intro s hs; show s.length = res.length; rw [hl]; exact h.xr s hs
  have hfail : (⟨dst.digital, [], sqGrowTo dst.digital dst.salloc o.n, sqGrowTo dst.digital dst.salloc o.n, o.ss.map fun _ => [], [], 0, 0⟩ : SqObj).Inv := by
    refine ⟨?_, rfl, ?_, fun s hs => (by cases hs)⟩
    · show (0 : Nat) + (if dst.digital = true then 2 else 1) ≤ sqGrowTo dst.digital dst.salloc o.n
      have := g1; omega
    · intro s hs
      obtain ⟨s0, _, rfl⟩ := Option.mem_map.mp hs
      rfl
  have hpre : ((o.ss.isSome || !o.xr.isEmpty) &&
      decide (sqGrowTo dst.digital dst.salloc o.n < if dst.digital then o.n + 2 else o.n + 1)) = false := by
    have : ¬ sqGrowTo dst.digital dst.salloc o.n < (if dst.digital then o.n + 2 else o.n + 1) := by
      cases hdd : dst.digital
      · simp only [hdd, Bool.false_eq_true, if_false] at g1 ⊢; omega
      · simp only [hdd, if_true] at g1 ⊢; omega
    rw [decide_eq_false this, Bool.and_false]
  unfold copyInto at e
  simp only [if_true] at e
  rw [if_neg (by simpa using hpre)] at e
  · cases hod : o.digital <;> cases hdd : dst.digital <;> rw [hod, hdd] at e <;> simp only [] at e
    · cases e
      have := hgood o.res rfl; rw [hdd] at this
      exact ⟨this, rfl, (by have := g2; rw [hdd] at this; exact this), rfl, Or.inl rfl, fun _ => ⟨rfl, rfl, rfl, rfl, rfl⟩, fun hne => absurd rfl hne⟩
    · by_cases hv : o.res.all a.cIsValid = true
      · have hval : validateSeq a o.res = .ok := by unfold validateSeq; rw [hv]; rfl
        have hdig : a.digitize o.res = (.ok, mkDsq (o.res.map a.inmapAt)) := by
          have hsq := sqDigitize_spec a o.res
          unfold Sq.sqDigitize at hsq
          rw [hv, hval] at hsq
          simp only [if_true, ne_eq, not_true_eq_false, if_false] at hsq
          rcases hd' : a.digitize o.res with ⟨st', d⟩
          rw [hd'] at hsq
          simp only [] at hsq
          by_cases e' : st' = .ok
          · subst e'; simp only [ne_eq, not_true_eq_false, if_false] at hsq; cases hsq; rfl
          · rw [if_pos e'] at hsq; cases hsq
        rw [hval, hdig] at e
        simp only [ne_eq, not_true_eq_false, if_false, body_mkDsq] at e
        cases e
        have := hgood (o.res.map a.inmapAt) (by simp [n]); rw [hdd] at this
        exact ⟨this, rfl, (by have := g2; rw [hdd] at this; exact this), rfl, Or.inl rfl, fun _ => ⟨rfl, rfl, by simp [n], rfl, rfl⟩, fun hne => absurd rfl hne⟩
      · have hval : validateSeq a o.res = .einval := by unfold validateSeq; rw [if_neg hv]
        rw [hval] at e
        simp only [ne_eq, reduceCtorEq, not_false_eq_true, if_true] at e
        cases e
        have := hfail; rw [hdd] at this
        exact ⟨this, rfl, (by have := g2; rw [hdd] at this; exact this), rfl, Or.inr rfl, fun hk => (by cases hk),
          fun _ => ⟨rfl, rfl, rfl, rfl, by simpa using hv⟩⟩
    · have hv := hcodes hod hdd
      have ht := textize_mkDsq a o.res hv
      unfold n at e
      rw [ht] at e
      simp only [] at e
      cases e
      have := hgood (o.res.map a.symAt) (by simp [n]); rw [hdd] at this
      exact ⟨this, rfl, (by have := g2; rw [hdd] at this; exact this), rfl, Or.inl rfl, fun _ => ⟨rfl, rfl, by simp [n], rfl, rfl⟩, fun hne => absurd rfl hne⟩
    · cases e
      have := hgood o.res rfl; rw [hdd] at this
      exact ⟨this, rfl, (by have := g2; rw [hdd] at this; exact this), rfl, Or.inl rfl, fun _ => ⟨rfl, rfl, rfl, rfl, rfl⟩, fun hne => absurd rfl hne⟩

/-- into a fresh destination the general copy is the `copyTo` of round 6 (both forms) -/
theorem copyInto_fresh (fixed : Bool) (a : Alphabet) (o : SqObj) (toDigital : Bool) :
    copyInto fixed a o (fresh toDigital) = copyTo a o toDigital := by
  unfold copyInto copyTo fresh reusedDst
  cases fixed <;> cases ho : o.ss <;> cases hx : o.xr <;> cases hd : o.digital <;> cases toDigital <;>
    simp [hasMarkup, ho, hx, n, eslSQ_SEQCHUNK] <;> rfl

end SqObj
end EaselModel.Alphabet.Sq
