import EaselModel.Alphabet.ObjModel
/-! # C08 (round 6b) — `esl_sq_Copy` into an EXISTING (reused) destination and `esl_sq_Reuse`, on objects with markup.
`fixed = true`: a source without `ss` frees the destination's `ss`, the destination's old `xr[]` is always released first (the
repair proposed in round 6b); `fixed = false`: the destination keeps the `ss` / `xr` of the sequence it held before when the
source has none (stale markup). Which form the tree has is regenerated on every run (`sqCopyReusedProbe`). Core Lean only. -/
namespace EaselModel.Alphabet.Sq
open EaselModel.Alphabet
namespace SqObj

/-- `esl_sq_Reuse(sq)`: empty sequence, the `ss` buffer is kept (empty string), all `xr` released, coordinates reset -/
def reuse (o : SqObj) : SqObj := { o with res := [], ss := o.ss.map fun _ => [], xr := [], start := 0, stop := 0 }

/-- `esl_sq_Copy(src = o, dst)` for two objects of the same alphabet; `none` = a `strcpy` outside a markup allocation -/
def copyInto (fixed : Bool) (a : Alphabet) (o dst : SqObj) : Option (Status × SqObj) :=
  let n := o.n
  let salloc := sqGrowTo dst.digital dst.salloc n
  let ss := if fixed then o.ss else (if o.ss.isSome then o.ss else dst.ss)
  let xr := if fixed then o.xr else (if o.xr.isEmpty then dst.xr else o.xr)
  let need := if dst.digital then n + 2 else n + 1
  if (ss.isSome || !xr.isEmpty) && decide (salloc < need) then none
  else
    let d : SqObj := { digital := dst.digital, res := o.res, salloc := salloc, mcap := salloc, ss := ss, xr := xr,
                       start := o.start, stop := o.stop }
    let failed : SqObj := { digital := dst.digital, res := [], salloc := salloc, mcap := salloc, ss := ss.map fun _ => [], xr := [],
                            start := 0, stop := 0 }
    match o.digital, dst.digital with
    | false, false => some (.ok, d)
    | false, true =>
      if validateSeq a o.res ≠ .ok then some (.einval, failed)
      else
        let r := a.digitize o.res
        if r.1 ≠ .ok then some (r.1, failed) else some (.ok, { d with res := body r.2 })
    | true, false =>
      match a.textize (Alphabet.mkDsq o.res) n with
      | none => none
      | some t => some (.ok, { d with res := t })
    | true, true => some (.ok, d)

/-- a fresh `esl_sq_Create()` / `esl_sq_CreateDigital()` -/
def fresh (digital : Bool) : SqObj :=
  { digital := digital, res := [], salloc := eslSQ_SEQCHUNK, mcap := eslSQ_SEQCHUNK, ss := none, xr := [], start := 0, stop := 0 }

/-- script tokens with a second, persistent object `P` (the reused destination): `p:text` / `p:digital` = `esl_sq_Copy(sq, P)`
    (`P` is created fresh in that mode the first time), `R` = `esl_sq_Reuse(P)`; everything else as `SqObj.step` -/
def step2 (fixed : Bool) (a : Alphabet) (o : SqObj) (P : Option SqObj) (tok : String) : Option (String × SqObj × Option SqObj) :=
  if tok == "p:text" || tok == "p:digital" then
    let dst := P.getD (fresh (tok == "p:digital"))
    (copyInto fixed a o dst).map fun r => (s!"p={r.1.name}", o, some r.2)
  else if tok == "R" then some ("R=ok", o, P.map reuse)
  else (step a o tok).map fun r => (r.1, r.2, P)

def script2 (fixed : Bool) (a : Alphabet) : SqObj → Option SqObj → List String → List String → Option (List String × SqObj × Option SqObj)
  | o, P, [], acc => some (acc.reverse, o, P)
  | o, P, tok :: rest, acc =>
    match step2 fixed a o P tok with
    | none => none
    | some (w, o', P') => script2 fixed a o' P' rest (w :: acc)

end SqObj
end EaselModel.Alphabet.Sq
