import EaselModel.Alphabet.Model3
/-! # C08 — the ss buffer of a reused `ESL_SQ` across `esl_sq_GetFromMSA` calls: with the buffer allocated to `salloc` cells
no history of calls overflows it; allocated to the exact SS-line length (the code before fix 4807e60) the second, wider
call does -/
namespace EaselModel.Alphabet.Sq

/-- the invariant: a non-NULL ss buffer has `salloc` cells -/
def SsInv (st : SsAlloc) : Prop := st.ssCap = none ∨ st.ssCap = some st.salloc

theorem getAlloc_inv (extra : Nat) (st : SsAlloc) (h : SsInv st) (alen : Nat) (hasSs : Bool) :
    ∃ st', getAlloc false extra st alen hasSs = some st' ∧ SsInv st' ∧ alen + extra ≤ st'.salloc := by
  unfold getAlloc
  by_cases hg : alen + extra > st.salloc
  · simp only [hg, if_true]
    rcases h with h | h
    · cases hasSs
      · exact ⟨_, rfl, Or.inl (by simp [h]), Nat.le_refl _⟩
      · simp only [Bool.not_true, Bool.false_eq_true, if_false, h, Option.map_none]
        exact ⟨_, rfl, Or.inr rfl, Nat.le_refl _⟩
    · cases hasSs
      · exact ⟨_, rfl, Or.inr (by simp [h]), Nat.le_refl _⟩
      · simp only [Bool.not_true, Bool.false_eq_true, if_false, h, Option.map_some]
        rw [if_pos (Nat.le_refl _)]
        exact ⟨_, rfl, Or.inr rfl, Nat.le_refl _⟩
  · simp only [hg, if_false]
    have hle : alen + extra ≤ st.salloc := by omega
    cases hasSs
    · exact ⟨st, rfl, h, hle⟩
    · simp only [Bool.not_true, Bool.false_eq_true, if_false]
      rcases h with h | h
      · rw [h]; exact ⟨_, rfl, Or.inr rfl, hle⟩
      · rw [h]; simp only []; rw [if_pos hle]; exact ⟨st, rfl, Or.inr h, hle⟩

/-- **with the ss buffer allocated to `salloc` cells, no history of `esl_sq_GetFromMSA` calls on one reused object — any
    widths, SS line present or absent in any call, text or digital mode — copies past the buffer** -/
theorem getAllocRun_safe (extra : Nat) (hist : List (Nat × Bool)) (st : SsAlloc) (h : SsInv st) :
    (getAllocRun false extra st hist).isSome = true := by
  induction hist generalizing st with
  | nil => rfl
  | cons c rest ih =>
    obtain ⟨alen, hasSs⟩ := c
    obtain ⟨st', e, hi, _⟩ := getAlloc_inv extra st h alen hasSs
    unfold getAllocRun
    rw [e]
    exact ih st' hi

end EaselModel.Alphabet.Sq
