import EaselModel.Alphabet.CustomLemmas
/-! # C08 — degeneracy tables of custom alphabets: what `esl_alphabet_CreateCustom` sets up is well-formed (`WFDegen`), and
`SetEquiv` / `SetCaseInsensitive` / `SetIgnored` do not touch it -/
namespace EaselModel.Alphabet
namespace Alphabet

theorem filter_range_eq (K x : Nat) (hx : x < K) : (List.range K).filter (fun y => decide (x = y)) = [x] := by
  induction K with
  | zero => omega
  | succ K ih =>
    rw [List.range_succ, List.filter_append]
    by_cases h : x < K
    · rw [ih h]
      have : ¬ x = K := by omega
      simp [this]
    · have hxK : x = K := by omega
      subst hxK
      have : (List.range x).filter (fun y => decide (x = y)) = [] := by
        rw [List.filter_eq_nil_iff]
        intro y hy
        have := List.mem_range.mp hy
        simp; omega
      rw [this]; simp

theorem filter_range_all (K : Nat) (p : Nat → Bool) (h : ∀ y, y < K → p y = true) : (List.range K).filter p = List.range K := by
  rw [List.filter_eq_self]
  intro y hy; exact h y (List.mem_range.mp hy)

theorem filter_range_none (K : Nat) (p : Nat → Bool) (h : ∀ y, y < K → p y = false) : (List.range K).filter p = [] := by
  rw [List.filter_eq_nil_iff]
  intro y hy; rw [h y (List.mem_range.mp hy)]; simp

theorem getD_map_range {α : Type} (n : Nat) (f : Nat → α) (x : Nat) (d : α) (hx : x < n) :
    ((List.range n).map f).getD x d = f x := by
  rw [List.getD_eq_getElem?_getD, List.getElem?_map, List.getElem?_range hx]; rfl

/-- the degeneracy tables `esl_alphabet_CreateCustom` initialises — every canonical residue denotes itself, `any` denotes
    all `K`, everything else nothing yet — are well-formed: `ndegen[x]` is the size of the set of row `x` -/
theorem createCustom_wfdegen (syms : List Nat) (K : Nat) (a : Alphabet) (hK : 1 ≤ K) (hKp : K + 4 ≤ syms.length)
    (h : createCustom syms K syms.length = some a) :
    a.WFDegen ∧ (∀ x, x < K → a.degenSet x = [x]) ∧ a.degenSet (syms.length - 3) = List.range K := by
  have hne : ¬ syms.length * K = 0 := by
    intro h; rcases Nat.mul_eq_zero.mp h with h | h <;> omega
  unfold createCustom at h
  rw [if_neg (by simp), if_neg (by omega), if_neg hne] at h
  cases h
  -- names for the two initialisation formulas
  let rowF : Nat → List Nat := fun x => (List.range K).map fun y => if (x < K ∧ x = y) ∨ x = syms.length - 3 then 1 else 0
  let ndF : Nat → Nat := fun x => if x < K then 1 else if x = syms.length - 3 then K else 0
  have hset : ∀ x, x < syms.length →
      degenSet { type := eslNONSTANDARD, K := K, Kp := syms.length, sym := syms,
                 inmap := initInmap syms 0 (List.replicate 128 ILLEGAL),
                 degen := (List.range syms.length).map rowF, ndegen := (List.range syms.length).map ndF,
                 complement := none } x =
        (List.range K).filter (fun y => decide ((x < K ∧ x = y) ∨ x = syms.length - 3)) := by
    intro x hx
    show (List.range K).filter (fun y => decide ((((List.range syms.length).map rowF).getD x []).getD y 0 ≠ 0)) = _
    rw [getD_map_range _ rowF x [] hx]
    apply List.filter_congr
    intro y hy
    have hy' := List.mem_range.mp hy
    show decide (((List.range K).map (fun y => if (x < K ∧ x = y) ∨ x = syms.length - 3 then 1 else 0)).getD y 0 ≠ 0) = _
    rw [getD_map_range _ _ y 0 hy']
    by_cases hc : (x < K ∧ x = y) ∨ x = syms.length - 3 <;> simp [hc]
  have hcount : ∀ x, x < syms.length →
      ((List.range K).filter (fun y => decide ((x < K ∧ x = y) ∨ x = syms.length - 3))).length = ndF x := by
    intro x hx
    show _ = if x < K then 1 else if x = syms.length - 3 then K else 0
    by_cases h1 : x < K
    · have : ¬ x = syms.length - 3 := by omega
      have e : (fun y => decide ((x < K ∧ x = y) ∨ x = syms.length - 3)) = fun y => decide (x = y) := by
        funext y; simp [h1, this]
      rw [e, filter_range_eq K x h1, if_pos h1]; rfl
    · by_cases h2 : x = syms.length - 3
      · rw [filter_range_all K _ (fun y _ => by simp [h2]), if_neg h1, if_pos h2]; simp
      · rw [filter_range_none K _ (fun y _ => by simp [h1, h2]), if_neg h1, if_neg h2]; rfl
  refine ⟨⟨by simp, by simp, fun x hx => ⟨?_, ?_⟩⟩, fun x hx => ?_, ?_⟩
  · show (((List.range syms.length).map rowF).getD x []).length = K
    rw [getD_map_range _ rowF x [] hx]; simp [rowF]
  · show ((List.range syms.length).map ndF).getD x 0 = _
    rw [getD_map_range _ ndF x 0 hx, hset x hx, hcount x hx]
  · rw [hset x (by omega)]
    have : ¬ x = syms.length - 3 := by omega
    have e : (fun y => decide ((x < K ∧ x = y) ∨ x = syms.length - 3)) = fun y => decide (x = y) := by
      funext y; simp [hx, this]
    rw [e, filter_range_eq K x hx]
  · rw [hset _ (by omega)]
    exact filter_range_all K _ (fun y _ => by simp)

theorem wfdegen_of_fields (a b : Alphabet) (h : a.WFDegen) (h1 : b.K = a.K) (h2 : b.Kp = a.Kp) (h3 : b.degen = a.degen)
    (h4 : b.ndegen = a.ndegen) : b.WFDegen := by
  unfold WFDegen degenSet at *
  rw [h1, h2, h3, h4]; exact h

theorem setEquiv_wfdegen (a : Alphabet) (h : a.WFDegen) (sym c : Nat) : (a.setEquiv sym c).2.WFDegen := by
  unfold setEquiv
  cases h1 : a.strchrSym sym with
  | some _ => exact h
  | none =>
    cases h2 : a.strchrSym c with
    | none => exact h
    | some x => exact wfdegen_of_fields a _ h rfl rfl rfl rfl

theorem setIgnored_wfdegen (a : Alphabet) (h : a.WFDegen) (chars : List Nat) : (a.setIgnored chars).WFDegen :=
  wfdegen_of_fields a _ h rfl rfl rfl rfl

theorem caseStep_fields (a : Alphabet) (lc : Nat) (a' : Alphabet) (hs : a.caseStep lc = some a') :
    a'.K = a.K ∧ a'.Kp = a.Kp ∧ a'.degen = a.degen ∧ a'.ndegen = a.ndegen := by
  unfold caseStep at hs
  simp only [] at hs
  split at hs
  · cases hs; exact ⟨rfl, rfl, rfl, rfl⟩
  · split at hs
    · cases hs; exact ⟨rfl, rfl, rfl, rfl⟩
    · split at hs
      · cases hs
      · cases hs; exact ⟨rfl, rfl, rfl, rfl⟩

theorem caseLoop_wfdegen (l : List Nat) (a : Alphabet) (h : a.WFDegen) : (a.caseLoop l).2.WFDegen := by
  induction l generalizing a with
  | nil => exact h
  | cons lc rest ih =>
    unfold caseLoop
    cases hs : a.caseStep lc with
    | none => exact h
    | some a' =>
      obtain ⟨f1, f2, f3, f4⟩ := caseStep_fields a lc a' hs
      exact ih a' (wfdegen_of_fields a a' h f1 f2 f3 f4)

theorem setCaseInsensitive_wfdegen (a : Alphabet) (h : a.WFDegen) : a.setCaseInsensitive.2.WFDegen :=
  caseLoop_wfdegen _ a h

end Alphabet
end EaselModel.Alphabet
