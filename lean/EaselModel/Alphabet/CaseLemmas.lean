import EaselModel.Alphabet.History2Lemmas
/-! # C08 (round 6) — case-insensitivity of the input map as an invariant of constructor histories -/
set_option linter.dupNamespace false
namespace EaselModel.Alphabet
open Alphabet
namespace Alphabet

/-- both cases of every letter are read alike: both outside the alphabet, or both valid with the same code -/
def CaseInsensitive (a : Alphabet) : Prop :=
  ∀ lc, 97 ≤ lc → lc ≤ 122 →
    a.cIsValid lc = a.cIsValid (lc - 32) ∧ (a.cIsValid lc = true → a.inmapAt lc = a.inmapAt (lc - 32))

/-- the same, decidable (for the regenerated tables) — and stronger: the two ENTRIES of the input map are equal for every
    letter (also when both are `eslDSQ_ILLEGAL` / `eslDSQ_IGNORED`) -/
def sameCaseEntries (a : Alphabet) : Bool := (List.range 26).all fun i => a.inmapAt (97 + i) == a.inmapAt (65 + i)

theorem caseInsensitive_of_entries (a : Alphabet) (h : a.sameCaseEntries = true) : a.CaseInsensitive := by
  intro lc h1 h2
  have := List.all_eq_true.mp h (lc - 97) (List.mem_range.mpr (by omega))
  have e : a.inmapAt lc = a.inmapAt (lc - 32) := by
    have e1 : 97 + (lc - 97) = lc := by omega
    have e2 : 65 + (lc - 97) = lc - 32 := by omega
    rw [e1, e2] at this; exact beq_iff_eq.mp this
  refine ⟨?_, fun _ => e⟩
  unfold cIsValid
  rw [e]
  have : decide (lc < 128) = true := by simp; omega
  have : decide (lc - 32 < 128) = true := by simp; omega
  simp [*]

/-- a call that cannot disturb case-insensitivity: a synonym for a non-letter, an ignored set without letters, any
    SetDegeneracy, a further SetCaseInsensitive -/
def Call.keepsCase : Call → Prop
  | .equiv s _ => ¬ (97 ≤ s ∧ s ≤ 122) ∧ ¬ (65 ≤ s ∧ s ≤ 90)
  | .ignored chars => ∀ c ∈ chars, ¬ (97 ≤ c ∧ c ≤ 122) ∧ ¬ (65 ≤ c ∧ c ≤ 90)
  | _ => True

theorem cIsValid_congr (a b : Alphabet) (c : Nat) (hk : b.Kp = a.Kp) (h : b.inmapAt c = a.inmapAt c) : b.cIsValid c = a.cIsValid c := by
  unfold cIsValid; rw [hk, h]

theorem caseInsensitive_congr (a b : Alphabet) (hk : b.Kp = a.Kp)
    (h : ∀ c, (97 ≤ c ∧ c ≤ 122) ∨ (65 ≤ c ∧ c ≤ 90) → b.inmapAt c = a.inmapAt c) (ha : a.CaseInsensitive) : b.CaseInsensitive := by
  intro lc h1 h2
  have e1 := h lc (Or.inl ⟨h1, h2⟩)
  have e2 := h (lc - 32) (Or.inr ⟨by omega, by omega⟩)
  rw [cIsValid_congr a b lc hk e1, cIsValid_congr a b (lc - 32) hk e2, e1, e2]
  exact ha lc h1 h2

/-- on a case-insensitive alphabet the loop of `esl_alphabet_SetCaseInsensitive` changes nothing and answers eslOK -/
theorem caseLoop_id (a : Alphabet) (ha : a.CaseInsensitive) (l : List Nat) (hl : ∀ lc ∈ l, 97 ≤ lc ∧ lc ≤ 122) :
    a.caseLoop l = (.ok, a) := by
  induction l with
  | nil => rfl
  | cons lc rest ih =>
    have hlc := hl lc (by simp)
    obtain ⟨v1, v2⟩ := ha lc hlc.1 hlc.2
    have huc : toUpper lc = lc - 32 := by unfold toUpper; rw [if_pos hlc]
    have hs : a.caseStep lc = some a := by
      unfold caseStep
      simp only [huc]
      cases hv : a.cIsValid lc
      · rw [hv] at v1; simp [← v1]
      · rw [hv] at v1; have := v2 hv; simp [← v1, this]
    rw [caseLoop_cons_some a a lc rest hs]
    exact ih (fun x hx => hl x (by simp [hx]))

theorem applyCall_keepsCase (a : Alphabet) (hl : a.inmap.length = 128) (ha : a.CaseInsensitive) (c : Call) (hc : c.keepsCase) :
    (a.applyCall c).2.inmap.length = 128 ∧ (a.applyCall c).2.CaseInsensitive := by
  cases c with
  | equiv s t =>
    simp only [applyCall]
    unfold setEquiv
    cases h1 : a.strchrSym s with
    | some _ => exact ⟨hl, ha⟩
    | none =>
      cases h2 : a.strchrSym t with
      | none => exact ⟨hl, ha⟩
      | some x =>
        simp only []
        refine ⟨by simp [hl], caseInsensitive_congr a _ rfl (fun c hcl => ?_) ha⟩
        by_cases hs : s < a.inmap.length
        · rw [inmapAt_set a s x c hs, if_neg]
          intro e; subst e
          simp only [Call.keepsCase] at hc
          rcases hcl with h | h
          · exact hc.1 h
          · exact hc.2 h
        · unfold inmapAt
          show (a.inmap.set s x).getD c ILLEGAL = a.inmap.getD c ILLEGAL
          rw [List.set_eq_of_length_le (by omega)]
  | caseins =>
    simp only [applyCall]
    unfold setCaseInsensitive
    rw [caseLoop_id a ha _ letters_ok.1]
    exact ⟨hl, ha⟩
  | degen d ds =>
    simp only [applyCall]
    have hin : (a.setDegeneracy d ds).2.inmap = a.inmap := by
      unfold setDegeneracy
      cases h1 : a.strchrSym d with
      | none => rfl
      | some x =>
        simp only []
        split
        · rfl
        · split
          · rfl
          · exact (degenLoop_fields x ds a).2.2.2
    have hkp : (a.setDegeneracy d ds).2.Kp = a.Kp := (applyCall_fields a (.degen d ds)).2.1
    refine ⟨by rw [hin, hl], caseInsensitive_congr a _ hkp (fun c _ => by unfold inmapAt; rw [hin]) ha⟩
  | ignored chars =>
    simp only [applyCall]
    obtain ⟨p1, p2, _, _, p5, _⟩ := setIgnored_post a hl chars
    refine ⟨p2, caseInsensitive_congr a _ p5 (fun c hcl => ?_) ha⟩
    rw [p1 c (by omega), if_neg]
    intro hm
    simp only [Call.keepsCase] at hc
    have := hc c hm
    rcases hcl with h | h
    · exact this.1 h
    · exact this.2 h

theorem run_keepsCase (h : List Call) (a : Alphabet) (hl : a.inmap.length = 128) (ha : a.CaseInsensitive)
    (hc : ∀ c ∈ h, c.keepsCase) : (a.run h).2.inmap.length = 128 ∧ (a.run h).2.CaseInsensitive := by
  induction h generalizing a with
  | nil => exact ⟨hl, ha⟩
  | cons c cs ih =>
    obtain ⟨l1, a1⟩ := applyCall_keepsCase a hl ha c (hc c (by simp))
    simp only [run]
    exact ih _ l1 a1 (fun x hx => hc x (by simp [hx]))

theorem run_append (h1 h2 : List Call) (a : Alphabet) : (a.run (h1 ++ h2)).2 = ((a.run h1).2.run h2).2 := by
  induction h1 generalizing a with
  | nil => rfl
  | cons c cs ih => simp only [List.cons_append, run]; exact ih _

/-- **case-insensitivity along a history**: whatever calls come first, once `SetCaseInsensitive` has returned eslOK the alphabet
    reads both cases of every letter alike — covering every mapping (symbol or synonym) present at that moment —, and it still
    does after any further calls that name no letter as a new synonym or ignored character (the documented order: synonyms
    first, `SetCaseInsensitive` last) -/
theorem history_case_insensitive (a : Alphabet) (pre post : List Call) (hl : (a.run pre).2.inmap.length = 128)
    (hok : (a.run pre).2.setCaseInsensitive.1 = .ok) (hpost : ∀ c ∈ post, c.keepsCase) :
    (a.run (pre ++ Call.caseins :: post)).2.CaseInsensitive := by
  rw [run_append]
  simp only [run, applyCall]
  obtain ⟨p1, _, _⟩ := setCaseInsensitive_post (a.run pre).2 hl hok
  have hlen : (a.run pre).2.setCaseInsensitive.2.inmap.length = 128 := by
    unfold setCaseInsensitive at hok ⊢
    exact (caseLoop_post _ (a.run pre).2 hl letters_ok.1 letters_ok.2 hok).1
  exact (run_keepsCase post _ hlen p1 hpost).2

/-- a later synonym for a letter does break it (why the documentation asks for `SetCaseInsensitive` last) -/
theorem later_letter_synonym_breaks :
    ∃ a : Alphabet, a.CaseInsensitive ∧ ¬ (a.setEquiv 98 65).2.CaseInsensitive := by
  refine ⟨((createCustom (str "ACGT-N*~") 4 8).getD ⟨0, 0, 0, [], [], [], [], none⟩).setCaseInsensitive.2, ?_, ?_⟩
  · exact caseInsensitive_of_entries _ (by decide +kernel)
  · intro h
    have := (h 98 (by decide) (by decide)).1
    revert this; decide +kernel

/-! ## `ndegen[x]` = size of the set of `x`, along a history -/

/-- a `SetDegeneracy(c, ds)` call that lists pairwise distinct residues none of which is already in the set of `c` (the C code
    adds one to `ndegen` per listed character without looking at the row); no condition on the other calls -/
def freshB (a : Alphabet) (c : Nat) (ds : List Nat) : Bool :=
  match a.strchrSym c with
  | none => true
  | some x => (ds.filterMap a.strchrSym).all fun y => (a.degen.getD x []).getD y 0 == 0

def Call.cleanAt (a : Alphabet) : Call → Prop
  | .degen c ds => (ds.filterMap a.strchrSym).Nodup ∧ a.freshB c ds = true
  | _ => True

instance (a : Alphabet) (c : Call) : Decidable (c.cleanAt a) := by
  cases c <;> unfold Call.cleanAt <;> infer_instance

/-- every call of the history is clean at the moment it is made -/
def cleanRun : Alphabet → List Call → Prop
  | _, [] => True
  | a, c :: cs => c.cleanAt a ∧ cleanRun (a.applyCall c).2 cs

def decCleanRun : (h : List Call) → (a : Alphabet) → Decidable (cleanRun a h)
  | [], _ => isTrue trivial
  | c :: cs, a =>
    match (inferInstance : Decidable (c.cleanAt a)), decCleanRun cs (a.applyCall c).2 with
    | isTrue h1, isTrue h2 => isTrue ⟨h1, h2⟩
    | isFalse h1, _ => isFalse fun h => h1 h.1
    | _, isFalse h2 => isFalse fun h => h2 h.2

instance (a : Alphabet) (h : List Call) : Decidable (cleanRun a h) := decCleanRun h a

theorem applyCall_wfdegen (a : Alphabet) (h : a.WFDegen) (c : Call) (hc : c.cleanAt a) : (a.applyCall c).2.WFDegen := by
  cases c with
  | equiv s t => exact setEquiv_wfdegen a h s t
  | caseins => exact setCaseInsensitive_wfdegen a h
  | ignored chars => exact setIgnored_wfdegen a h chars
  | degen c ds =>
    simp only [applyCall]
    obtain ⟨hnd, hb⟩ := hc
    have hfresh : ∀ x, a.strchrSym c = some x → ∀ y ∈ ds.filterMap a.strchrSym, (a.degen.getD x []).getD y 0 = 0 := by
      intro x hx y hy
      unfold freshB at hb; rw [hx] at hb
      exact beq_iff_eq.mp (List.all_eq_true.mp hb y hy)
    by_cases hok : (a.setDegeneracy c ds).1 = .ok
    · exact setDegeneracy_wfdegen a h c ds hok hnd hfresh
    · rcases setDegeneracy_rejected a c ds hok with e | ⟨pre, d, post, hds, _, _, hpre, e⟩
      · rw [e]; exact h
      · rw [e]
        have hsplit : ds.filterMap a.strchrSym = pre.filterMap a.strchrSym ++ (d :: post).filterMap a.strchrSym := by
          rw [hds, List.filterMap_append]
        refine setDegeneracy_wfdegen a h c pre hpre ?_ (fun x hx y hy => hfresh x hx y ?_)
        · rw [hsplit, List.nodup_append] at hnd; exact hnd.1
        · rw [hsplit]; exact List.mem_append_left _ hy

/-- **`WFDegen` is an invariant of every clean history**, whatever the statuses of the calls (a rejected `SetDegeneracy` leaves the
    effect of its accepted prefix, which is clean too) -/
theorem run_wfdegen (h : List Call) (a : Alphabet) (hw : a.WFDegen) (hc : cleanRun a h) : (a.run h).2.WFDegen := by
  induction h generalizing a with
  | nil => exact hw
  | cons c cs ih =>
    simp only [run]
    exact ih _ (applyCall_wfdegen a hw c hc.1) hc.2

end Alphabet
end EaselModel.Alphabet
