import EaselModel.Alphabet.Lemmas
/-! # C08 — the in-place swap loop of `esl_abc_revcomp` equals "reverse, then complement each code" -/
namespace EaselModel.Alphabet
namespace Alphabet

theorem getD_set' (l : List Nat) (j v i : Nat) (hj : j < l.length) :
    (l.set j v).getD i 0 = if i = j then v else l.getD i 0 := by
  rw [List.getD_eq_getElem?_getD, List.getElem?_set]
  by_cases h : j = i
  · subst h; simp [hj]
  · have h' : ¬ i = j := fun e => h e.symm
    simp [h, h', List.getD_eq_getElem?_getD]

theorem getElem?_eq_some_getD (l : List Nat) (i : Nat) (h : i < l.length) : l[i]? = some (l.getD i 0) := by
  rw [List.getD_eq_getElem?_getD, List.getElem?_eq_getElem h]; simp

theorem getElem?_eq_some_getD255 (l : List Nat) (i : Nat) (h : i < l.length) : l[i]? = some (l.getD i 255) := by
  rw [List.getD_eq_getElem?_getD, List.getElem?_eq_getElem h]; simp

/-- state after `k` iterations starting at `pos`: the `k` outermost untouched pairs are swapped and complemented -/
theorem revcompLoop_spec (comp : List Nat) (n : Nat) :
    ∀ (k pos : Nat) (d : List Nat), 1 ≤ pos → pos + k ≤ n / 2 + 1 → n < d.length →
      (∀ i, pos ≤ i → i ≤ n + 1 - pos → d.getD i 0 < comp.length) →
      ∃ d', revcompLoop comp n k pos d = some d' ∧ d'.length = d.length ∧
        ∀ i, d'.getD i 0 =
          if (pos ≤ i ∧ i < pos + k) ∨ (n + 1 - (pos + k) < i ∧ i ≤ n + 1 - pos)
          then comp.getD (d.getD (n + 1 - i) 0) 255 else d.getD i 0 := by
  intro k
  induction k with
  | zero =>
    intro pos d _ _ _ _
    refine ⟨d, rfl, rfl, fun i => ?_⟩
    rw [if_neg (by omega)]
  | succ k ih =>
    intro pos d hp hk hn hv
    have h2 : 2 * pos ≤ n := by omega
    have hhi : n - pos + 1 = n + 1 - pos := by omega
    have e1 : d[n - pos + 1]? = some (d.getD (n + 1 - pos) 0) := by
      rw [hhi]; exact getElem?_eq_some_getD d _ (by omega)
    have e2 : d[pos]? = some (d.getD pos 0) := getElem?_eq_some_getD d _ (by omega)
    have e3 : comp[d.getD (n + 1 - pos) 0]? = some (comp.getD (d.getD (n + 1 - pos) 0) 255) :=
      getElem?_eq_some_getD255 comp _ (hv _ (by omega) (by omega))
    have e4 : comp[d.getD pos 0]? = some (comp.getD (d.getD pos 0) 255) :=
      getElem?_eq_some_getD255 comp _ (hv _ (by omega) (by omega))
    have hlen1 : n - pos + 1 < d.length := by omega
    have hlen2 : pos < (d.set (n - pos + 1) (comp.getD (d.getD pos 0) 255)).length := by simp; omega
    have hget1 : ∀ i, ((d.set (n - pos + 1) (comp.getD (d.getD pos 0) 255)).set pos
        (comp.getD (d.getD (n + 1 - pos) 0) 255)).getD i 0 =
        if i = pos then comp.getD (d.getD (n + 1 - pos) 0) 255
        else if i = n + 1 - pos then comp.getD (d.getD pos 0) 255 else d.getD i 0 := by
      intro i
      rw [getD_set' _ _ _ _ hlen2, getD_set' _ _ _ _ hlen1, hhi]
    obtain ⟨d', hd', hl, hget⟩ := ih (pos + 1)
      ((d.set (n - pos + 1) (comp.getD (d.getD pos 0) 255)).set pos (comp.getD (d.getD (n + 1 - pos) 0) 255))
      (by omega) (by omega) (by simp; omega)
      (by
        intro i h1 h2'
        rw [hget1, if_neg (by omega), if_neg (by omega)]
        exact hv i (by omega) (by omega))
    refine ⟨d', ?_, by simpa using hl, fun i => ?_⟩
    · simp only [revcompLoop, e1, e2, e3, e4, Option.bind_eq_bind, Option.bind_some]
      rw [if_pos hlen1]
      exact hd'
    · rw [hget i]
      by_cases hi1 : i = pos
      · subst hi1
        rw [if_neg (by omega), if_pos (by omega), hget1, if_pos rfl]
      · by_cases hi2 : i = n + 1 - pos
        · subst hi2
          rw [if_neg (by omega), if_pos (by omega), hget1, if_neg (by omega), if_pos rfl]
          congr 2; omega
        · by_cases hc : (pos + 1 ≤ i ∧ i < pos + 1 + k) ∨ (n + 1 - (pos + 1 + k) < i ∧ i ≤ n + 1 - (pos + 1))
          · rw [if_pos hc, if_pos (by omega), hget1, if_neg (by omega), if_neg (by omega)]
          · rw [if_neg hc, if_neg (by omega), hget1, if_neg hi1, if_neg hi2]

end Alphabet
end EaselModel.Alphabet

namespace EaselModel.Alphabet
namespace Alphabet

theorem ext_getD (l1 l2 : List Nat) (hl : l1.length = l2.length) (h : ∀ i, l1.getD i 0 = l2.getD i 0) : l1 = l2 := by
  apply List.ext_getElem hl
  intro i h1 h2
  have := h i
  rw [List.getD_eq_getElem?_getD, List.getD_eq_getElem?_getD, List.getElem?_eq_getElem h1,
    List.getElem?_eq_getElem h2] at this
  simpa using this

/-- `esl_abc_revcomp(abc, dsq, n)` pointwise: positions `1..n` hold the complement of the mirrored position, everything
    else (sentinels, residues beyond `n`) is untouched; no out-of-bounds access when the codes are valid. -/
theorem revcomp_pointwise (a : Alphabet) (comp : List Nat) (hc : a.complement = some comp) (d : List Nat) (n : Nat)
    (hn : n < d.length) (hv : ∀ i, 1 ≤ i → i ≤ n → d.getD i 0 < comp.length) :
    ∃ d', a.revcomp d n = .ok (some d') ∧ d'.length = d.length ∧
      ∀ i, d'.getD i 0 = if 1 ≤ i ∧ i ≤ n then comp.getD (d.getD (n + 1 - i) 0) 255 else d.getD i 0 := by
  obtain ⟨d1, h1, hl1, hg1⟩ := revcompLoop_spec comp n (n / 2) 1 d (by omega) (by omega) hn
    (fun i h1 h2 => hv i h1 (by omega))
  unfold revcomp
  rw [hc]
  by_cases hodd : n % 2 = 1
  · have hpos : n / 2 + 1 < d1.length := by omega
    have e1 : d1[n / 2 + 1]? = some (d1.getD (n / 2 + 1) 0) := getElem?_eq_some_getD _ _ hpos
    have hmid : d1.getD (n / 2 + 1) 0 = d.getD (n / 2 + 1) 0 := by rw [hg1, if_neg (by omega)]
    have e2 : comp[d1.getD (n / 2 + 1) 0]? = some (comp.getD (d1.getD (n / 2 + 1) 0) 255) :=
      getElem?_eq_some_getD255 _ _ (by rw [hmid]; exact hv _ (by omega) (by omega))
    refine ⟨d1.set (n / 2 + 1) (comp.getD (d1.getD (n / 2 + 1) 0) 255), ?_, by simp [hl1], fun i => ?_⟩
    · simp only [h1, Option.bind_eq_bind, Option.bind_some, if_pos hodd, e1, e2]
    · rw [getD_set' _ _ _ _ hpos]
      by_cases hi : i = n / 2 + 1
      · subst hi
        rw [if_pos rfl, if_pos (by omega), hmid]
        congr 2; omega
      · rw [if_neg hi, hg1]
        by_cases hc2 : 1 ≤ i ∧ i ≤ n
        · rw [if_pos hc2, if_pos (by omega)]
        · rw [if_neg hc2, if_neg (by omega)]
  · refine ⟨d1, ?_, hl1, fun i => ?_⟩
    · simp only [h1, Option.bind_eq_bind, Option.bind_some, if_neg hodd]
    · rw [hg1]
      by_cases hc2 : 1 ≤ i ∧ i ≤ n
      · rw [if_pos hc2, if_pos (by omega)]
      · rw [if_neg hc2, if_neg (by omega)]

/-- complement of a code -/
def compAt (comp : List Nat) (x : Nat) : Nat := comp.getD x 255

/-- declarative reverse complement of the first `n` residues of a digital sequence -/
def revcompSpec (comp : List Nat) (d : List Nat) (n : Nat) : List Nat :=
  d.take 1 ++ ((d.drop 1).take n).reverse.map (compAt comp) ++ d.drop (n + 1)

theorem revcompSpec_getD (comp d : List Nat) (n : Nat) (hn : n < d.length) (i : Nat) :
    (revcompSpec comp d n).getD i 0 =
      if 1 ≤ i ∧ i ≤ n then comp.getD (d.getD (n + 1 - i) 0) 255 else d.getD i 0 := by
  unfold revcompSpec
  show _ = if 1 ≤ i ∧ i ≤ n then compAt comp (d.getD (n + 1 - i) 0) else d.getD i 0
  simp only [List.getD_eq_getElem?_getD]
  have hl1 : (d.take 1).length = 1 := by simp; omega
  have hl2 : (((d.drop 1).take n).reverse.map (compAt comp)).length = n := by simp; omega
  by_cases h0 : i = 0
  · subst h0
    rw [if_neg (by omega), List.append_assoc, List.getElem?_append_left (by omega)]
    simp
  · by_cases h1 : i ≤ n
    · rw [if_pos (by omega), List.getElem?_append_left (by simp; omega), List.getElem?_append_right (by omega)]
      rw [hl1, List.getElem?_map, List.getElem?_reverse (by simp; omega)]
      simp only [List.length_take, List.length_drop, List.getElem?_take, List.getElem?_drop]
      have e : min n (d.length - 1) - 1 - (i - 1) < n := by omega
      rw [if_pos e]
      have e2 : 1 + (min n (d.length - 1) - 1 - (i - 1)) = n + 1 - i := by omega
      rw [e2]
      have e3 : n + 1 - i < d.length := by omega
      rw [List.getElem?_eq_getElem e3]
      simp
    · rw [if_neg (by omega), List.getElem?_append_right (by simp; omega)]
      simp only [List.length_append, hl1, hl2, List.getElem?_drop]
      congr 2; omega

theorem revcompSpec_length (comp d : List Nat) (n : Nat) (hn : n < d.length) : (revcompSpec comp d n).length = d.length := by
  unfold revcompSpec; simp; omega

theorem revcomp_eq_spec (a : Alphabet) (comp : List Nat) (hc : a.complement = some comp) (d : List Nat) (n : Nat)
    (hn : n < d.length) (hv : ∀ i, 1 ≤ i → i ≤ n → d.getD i 0 < comp.length) :
    a.revcomp d n = .ok (some (revcompSpec comp d n)) := by
  obtain ⟨d', h1, hl, hg⟩ := revcomp_pointwise a comp hc d n hn hv
  rw [h1]
  congr 2
  apply ext_getD
  · rw [hl, revcompSpec_length _ _ _ hn]
  · intro i; rw [hg, revcompSpec_getD _ _ _ hn]

/-- reverse-complementing twice gives the sequence back (complement an involution on the codes that occur) -/
theorem revcomp_twice (a : Alphabet) (comp : List Nat) (hc : a.complement = some comp) (hw : a.WFComp comp)
    (d : List Nat) (n : Nat) (hn : n < d.length) (hv : ∀ i, 1 ≤ i → i ≤ n → d.getD i 0 < a.Kp) :
    ∃ d', a.revcomp d n = .ok (some d') ∧ a.revcomp d' n = .ok (some d) := by
  obtain ⟨hlen, hinv⟩ := hw
  obtain ⟨d', h1, hl, hg⟩ := revcomp_pointwise a comp hc d n hn (fun i a b => by rw [hlen]; exact hv i a b)
  have hv' : ∀ i, 1 ≤ i → i ≤ n → d'.getD i 0 < comp.length := by
    intro i h1 h2
    rw [hg, if_pos ⟨h1, h2⟩, hlen]
    exact (hinv _ (hv _ (by omega) (by omega))).1
  obtain ⟨d'', h2, hl2, hg2⟩ := revcomp_pointwise a comp hc d' n (by omega) hv'
  refine ⟨d', h1, ?_⟩
  rw [h2]
  congr 2
  apply ext_getD _ _ (by omega)
  intro i
  rw [hg2]
  by_cases hc2 : 1 ≤ i ∧ i ≤ n
  · rw [if_pos hc2, hg, if_pos (by omega)]
    have : n + 1 - (n + 1 - i) = i := by omega
    rw [this]
    exact (hinv _ (hv i hc2.1 hc2.2)).2
  · rw [if_neg hc2, hg, if_neg hc2]

end Alphabet
end EaselModel.Alphabet

namespace EaselModel.Alphabet
namespace Alphabet

theorem mkDsq_getD (codes : List Nat) (i : Nat) (h1 : 1 ≤ i) (h2 : i ≤ codes.length) :
    (mkDsq codes).getD i 0 = codes.getD (i - 1) 0 := by
  unfold mkDsq
  obtain ⟨j, rfl⟩ : ∃ j, i = j + 1 := ⟨i - 1, by omega⟩
  simp only [List.cons_append, List.getD_cons_succ, Nat.add_sub_cancel]
  rw [List.getD_eq_getElem?_getD, List.getD_eq_getElem?_getD, List.getElem?_append_left (by omega)]

theorem mkDsq_valid (codes : List Nat) (B : Nat) (hc : ∀ x ∈ codes, x < B) (i : Nat) (h1 : 1 ≤ i) (h2 : i ≤ codes.length) :
    (mkDsq codes).getD i 0 < B := by
  rw [mkDsq_getD codes i h1 h2, List.getD_eq_getElem?_getD, List.getElem?_eq_getElem (by omega)]
  exact hc _ (List.getElem_mem _)

theorem revcompSpec_mkDsq (comp codes : List Nat) :
    revcompSpec comp (mkDsq codes) codes.length = mkDsq (codes.reverse.map (compAt comp)) := by
  unfold revcompSpec mkDsq
  simp

/-- textize ∘ digitize in terms of per-character spelling -/
theorem map_symAt_filterMap_code (a : Alphabet) (f : Nat → Nat) (seq : List Nat)
    (h : ∀ c ∈ seq, (a.code c).map a.symAt = some (f c)) :
    (seq.filterMap a.code).map a.symAt = seq.map f := by
  induction seq with
  | nil => simp
  | cons c cs ih =>
    have hc := h c (by simp)
    have ih' := ih (fun c' hc' => h c' (by simp [hc']))
    cases hcode : a.code c with
    | none => simp [hcode] at hc
    | some x =>
      simp only [hcode, Option.map_some, Option.some.injEq] at hc
      simp [hcode, hc, ih']

end Alphabet
end EaselModel.Alphabet
