import EaselModel.Alphabet.Round4Lemmas
import EaselModel.Alphabet.ValidateLemmas
/-! # C08 — `esl_sq_FetchFromMSA`: dealigning a row in text mode (`esl_strdealign`, gap characters "-_.~") and in digital mode
(`esl_abc_XDealign` / `esl_abc_CDealign`, gap and missing-data codes) keep the same columns, so fetching commutes with
digitising -/
set_option linter.dupNamespace false
namespace EaselModel.Alphabet.Sq
open EaselModel.Alphabet EaselModel.Alphabet.Alphabet

/-- the columns `esl_strdealign` keeps: those whose `aseq` character is not a gap character -/
def keptText : List Nat → List Nat → List Nat
  | c :: cs, x :: xs => if c ∈ gapchars then keptText cs xs else x :: keptText cs xs
  | _, _ => []

/-- a two-residue dummy alphabet, to read `esl_strdealign`'s loop as an instance of the dealign loop: flag 1 = its gap code -/
def dummy : Alphabet := { type := 0, K := 1, Kp := 5, sym := [], inmap := [], degen := [], ndegen := [], complement := none }
def flag (c : Nat) : Nat := if c ∈ gapchars then 1 else 0

theorem keepRef_flag (c : Nat) : dummy.keepRef (flag c) = !decide (c ∈ gapchars) := by
  unfold flag keepRef xIsGap xIsMissing dummy
  by_cases h : c ∈ gapchars <;> simp [h]

theorem strdealignLoop_eq (aseq : List Nat) : ∀ (apos n : Nat) (s : List Nat),
    strdealignLoop aseq apos n s = dummy.dealignLoop 0 (aseq.map flag) (apos + 1) n s := by
  induction aseq with
  | nil => intro apos n s; rfl
  | cons c cs ih =>
    intro apos n s
    have hk := keepRef_flag c
    unfold keepRef at hk
    rw [List.map_cons]
    unfold strdealignLoop dealignLoop
    by_cases h : c ∈ gapchars
    · simp only [h, if_true, hk, decide_true, Bool.not_true, Bool.false_eq_true, if_false]
      exact ih (apos + 1) n s
    · simp only [h, if_false, hk, decide_false, Bool.not_false, if_true, Nat.add_sub_cancel, Nat.add_zero]
      cases s[apos]? with
      | none => rfl
      | some v =>
        simp only [Option.bind_eq_bind, Option.bind_some]
        by_cases hn : n < s.length
        · rw [if_pos hn, if_pos hn]; exact ih (apos + 1) (n + 1) _
        · rw [if_neg hn, if_neg hn]

theorem keptOf_flag (aseq s : List Nat) : keptOf dummy (aseq.map flag) s = keptText aseq s := by
  induction aseq generalizing s with
  | nil => cases s <;> rfl
  | cons c cs ih =>
    cases s with
    | nil => rfl
    | cons x xs =>
      rw [List.map_cons]
      unfold keptOf keptText
      rw [keepRef_flag, ih]
      by_cases h : c ∈ gapchars <;> simp [h]

/-- `esl_strdealign(s, aseq, "-_.~", &n)`: `s` keeps exactly the characters in the columns where `aseq` has no gap character -/
theorem strdealign_spec (s aseq : List Nat) (hl : aseq.length ≤ s.length) :
    strdealign s aseq = some (keptText aseq s, (keptText aseq s).length) := by
  unfold strdealign
  rw [strdealignLoop_eq]
  have := dealignLoop_spec dummy 0 s (aseq.map flag) 0 [] (by simp) (by simpa using hl)
  simp only [List.take_zero, List.nil_append, List.length_nil, Nat.add_zero, List.drop_zero, Nat.zero_add] at this
  rw [keptOf_flag] at this
  simp only [this, Option.bind_eq_bind, Option.bind_some]
  simp

/-- `a` reads exactly the gap characters "-_.~" as its gap or missing-data code -/
def GapCharsOK (a : Alphabet) : Prop :=
  ∀ c, c < 128 → ((a.inmapAt c = a.K ∨ a.inmapAt c + 1 = a.Kp) ↔ c ∈ gapchars)

instance (a : Alphabet) : Decidable (GapCharsOK a) := by unfold GapCharsOK; infer_instance

theorem keptOf_codes (a : Alphabet) (h : GapCharsOK a) (row : List Nat) (hv : ∀ c ∈ row, c < 128) (xs : List Nat) :
    keptOf a (row.map a.inmapAt) xs = keptText row xs := by
  induction row generalizing xs with
  | nil => cases xs <;> rfl
  | cons c cs ih =>
    cases xs with
    | nil => rfl
    | cons x xs =>
      rw [List.map_cons]
      unfold keptOf keptText
      rw [ih (fun c' hc' => hv c' (List.mem_cons_of_mem _ hc'))]
      have hg := h c (hv c List.mem_cons_self)
      unfold keepRef xIsGap xIsMissing
      by_cases hc : c ∈ gapchars
      · have := hg.mpr hc
        rw [if_pos hc]
        rcases this with e | e <;> simp [e]
      · have hn : ¬ (a.inmapAt c = a.K ∨ a.inmapAt c + 1 = a.Kp) := fun e => hc (hg.mp e)
        rw [if_neg hc]
        have h1 : ¬ a.inmapAt c = a.K := fun e => hn (Or.inl e)
        have h2 : ¬ a.inmapAt c + 1 = a.Kp := fun e => hn (Or.inr e)
        simp [h1, h2]

theorem keptText_map (f : Nat → Nat) (row xs : List Nat) : (keptText row xs).map f = keptText row (xs.map f) := by
  induction row generalizing xs with
  | nil => cases xs <;> rfl
  | cons c cs ih =>
    cases xs with
    | nil => rfl
    | cons x xs =>
      rw [List.map_cons]
      unfold keptText
      by_cases hc : c ∈ gapchars
      · rw [if_pos hc, if_pos hc]; exact ih xs
      · rw [if_neg hc, if_neg hc, List.map_cons, ih xs]

theorem keptText_subset (row xs : List Nat) : ∀ x ∈ keptText row xs, x ∈ xs := by
  induction row generalizing xs with
  | nil => intro x hx; cases xs <;> simp [keptText] at hx
  | cons c cs ih =>
    cases xs with
    | nil => intro x hx; simp [keptText] at hx
    | cons y ys =>
      intro x hx
      unfold keptText at hx
      by_cases hc : c ∈ gapchars
      · rw [if_pos hc] at hx; exact List.mem_cons_of_mem _ (ih ys x hx)
      · rw [if_neg hc] at hx
        rcases List.mem_cons.mp hx with e | e
        · rw [e]; exact List.mem_cons_self
        · exact List.mem_cons_of_mem _ (ih ys x e)

/-- **fetching commutes with digitising**: for an aligned row of characters of the alphabet (and any SS line of the same
    length), `esl_sq_FetchFromMSA` on the text alignment keeps the row without its "-_.~" columns; on the digitised alignment
    it keeps the codes of exactly those columns; so digitising the text result gives the digital result, with the same `n`
    and the same dealigned SS line -/
theorem fetch_modes_agree (a : Alphabet) (hg : GapCharsOK a) (hKp : a.Kp ≤ 250) (row ss : List Nat)
    (hv : ∀ c ∈ row, a.cIsValid c = true) (hss : ss.length = row.length) :
    fetchText row (some ss) = some { seq := keptText row row, ss := some (keptText row ss), n := (keptText row row).length } ∧
    fetchDigital a (mkDsq (row.map a.inmapAt)) (some ss) =
      some { seq := mkDsq ((keptText row row).map a.inmapAt), ss := some (keptText row ss), n := (keptText row row).length } ∧
    a.digitize (keptText row row) = (.ok, mkDsq ((keptText row row).map a.inmapAt)) := by
  have h7 : ∀ c ∈ row, c < 128 := by
    intro c hc
    have := hv c hc
    unfold cIsValid at this
    simp only [Bool.and_eq_true, decide_eq_true_eq] at this
    exact this.1
  have hlt : ∀ c ∈ row, a.inmapAt c < a.Kp := by
    intro c hc
    have := hv c hc
    unfold cIsValid at this
    simp only [Bool.and_eq_true, decide_eq_true_eq] at this
    exact this.2
  have hsent : SENTINEL ∉ row.map a.inmapAt := by
    intro hm
    obtain ⟨c, hc, he⟩ := List.mem_map.mp hm
    have := hlt c hc
    unfold SENTINEL at he; omega
  refine ⟨?_, ?_, ?_⟩
  · unfold fetchText
    simp only [strdealign_spec ss row (by omega), strdealign_spec row row (Nat.le_refl _), Option.map_some, Option.bind_eq_bind,
      Option.bind_some]
  · unfold fetchDigital
    have e1 := cDealign_spec a ss (row.map a.inmapAt) hsent (by simp; omega)
    have e2 := xDealign_spec a (row.map a.inmapAt) (row.map a.inmapAt) hsent (Nat.le_refl _)
    rw [keptOf_codes a hg row h7] at e1 e2
    simp only [e1, e2, Option.map_some, Option.bind_eq_bind, Option.bind_some]
    rw [← keptText_map, List.length_map]
  · have hv' : (keptText row row).all a.cIsValid = true :=
      List.all_eq_true.mpr fun c hc => hv c (keptText_subset row row c hc)
    have := sqDigitize_spec a (keptText row row)
    rw [if_pos hv'] at this
    unfold sqDigitize at this
    have hvs : validateSeq a (keptText row row) = .ok := by unfold validateSeq; rw [if_pos hv']
    simp only [hvs, ne_eq, not_true_eq_false, if_false] at this
    cases hd : a.digitize (keptText row row) with
    | mk st d =>
      rw [hd] at this
      simp only [] at this
      by_cases hst : st = .ok
      · subst hst
        simp only [ne_eq, not_true_eq_false, if_false] at this
        cases this; rfl
      · simp only [ne_eq, hst, not_false_eq_true, if_true] at this
        cases this

end EaselModel.Alphabet.Sq
