import EaselModel.Alphabet.Model
/-! # C08 — model of the alphabet-related conversions of esl_sq.c:
    `esl_sq_Digitize`, `esl_sq_Textize`, `esl_sq_ReverseComplement` (digital and text mode). Core Lean only. -/
namespace EaselModel.Alphabet.Sq
open EaselModel.Alphabet

/-- `esl_abc_ValidateSeq(a, seq, L, NULL)` with an alphabet: every character `esl_abc_CIsValid` -/
def validateSeq (a : Alphabet) (seq : List Nat) : Status :=
  if seq.all a.cIsValid then .ok else .einval

/-- `esl_sq_Digitize(abc, sq)` on a text-mode sequence: `Except.error st` = returned `st`, sequence left in text mode -/
def sqDigitize (a : Alphabet) (seq : List Nat) : Except Status (List Nat) :=
  if validateSeq a seq ≠ .ok then .error .einval
  else
    let (st, d) := a.digitize seq
    if st ≠ .ok then .error st else .ok d

/-- the `switch` of text-mode `esl_sq_ReverseComplement`: `none` = the `default:` branch -/
def compChar (c : Nat) : Option Nat :=
  let tbl : List (Char × Char) :=
    [('A','T'), ('C','G'), ('G','C'), ('T','A'), ('U','A'), ('R','Y'), ('Y','R'), ('M','K'), ('K','M'), ('S','S'),
     ('W','W'), ('H','D'), ('B','V'), ('V','B'), ('D','H'), ('N','N'), ('X','X'),
     ('a','t'), ('c','g'), ('g','c'), ('t','a'), ('u','a'), ('r','y'), ('y','r'), ('m','k'), ('k','m'), ('s','s'),
     ('w','w'), ('h','d'), ('b','v'), ('v','b'), ('d','h'), ('n','n'), ('x','x'),
     ('.','.'), ('_','_'), ('-','-'), ('~','~'), ('*','*')]
  (tbl.find? (fun p => p.1.toNat = c)).map (·.2.toNat)

/-- text-mode `esl_sq_ReverseComplement`: complement every character (unknown → 'N', eslEINVAL), then reverse -/
def revcompText (seq : List Nat) : Status × List Nat :=
  let st := if seq.all (fun c => (compChar c).isSome) then Status.ok else Status.einval
  (st, (seq.map fun c => (compChar c).getD 78).reverse)

/-- what the harness op `sqroundtrip` prints: CreateFrom(text [, ss]) → Digitize [→ Digitize again on the same object]
    → [ReverseComplement] → Textize. `ss` = secondary-structure annotation (shifted to 1..n by Digitize and back by Textize,
    dropped by ReverseComplement); coordinates `start = 1, end = n` are swapped by ReverseComplement. A rejected Digitize
    leaves the object in text mode, untouched; the retry is rejected again. A second Digitize of a digital object is a no-op. -/
def roundtripLine (a : Alphabet) (txt : List Nat) (rc : Bool) (hx : List Nat → String) (ss : Option (List Nat) := none)
    (retry : Bool := false) : String :=
  let ssS := fun (x : Option (List Nat)) => match x with | some v => hx v | none => "null"
  let n := txt.length
  match sqDigitize a txt with
  | .error st => s!"dig={st.name}{if retry then s!" dig2={st.name}" else ""} seq={hx txt} ss={ssS ss} se=1,{n}"
  | .ok d =>
    let r : Except Status (Option (List Nat)) := if rc then a.revcomp d n else .ok (some d)
    let pre := s!"dig=ok{if retry then " dig2=ok" else ""} dsq={hx d}"
    match r with
    | .error e => s!"{pre} exception {e.name}"
    | .ok none => "fault"
    | .ok (some d') =>
      match a.textize d' n with
      | none => "fault"
      | some t => s!"{pre} rc=ok txt=ok seq={hx t} ss={ssS (if rc then none else ss)} se={if rc then s!"{n},1" else s!"1,{n}"}"

end EaselModel.Alphabet.Sq
