import EaselModel.Alphabet.Model
import EaselModel.Alphabet.GuessModel
import EaselModel.Alphabet.Sq2Model
import EaselModel.Alphabet.SqModel
/-! # C08 — round 4 additions to the executable model (core Lean only; the driver imports this file)

* the integer-score routines `esl_abc_IAvgScore`, `esl_abc_IExpectScore`, `esl_abc_IAvgScVec`, `esl_abc_IExpectScVec`
  line by line, with the final `(int)(result ± 0.5)` as an operation of the number class (binary32/binary64 in the driver,
  exact over ℚ in the theorems);
* text-mode `esl_sq_CountResidues` (the branch `sq->seq != NULL`, with the validity guard of fix 10c7a99);
* `esl_msa_GuessAlphabet` on a text-mode alignment: the per-row counting loop, the vote, the pooled second pass;
* `esl_abc_dsqcpy`, `esl_abc_dsqdup`. -/
namespace EaselModel.Alphabet

/-- what the integer-score routines need beyond `ScoreNum`: `(float) sc[i]`, and the closing
    `if (result < 0) return (int)(result - 0.5); else return (int)(result + 0.5);` (the subtraction/addition is done in
    `double`, the cast truncates toward zero) -/
class IntScore (α : Type) where
  ofInt : Int → α
  roundHalf : α → Int

namespace Alphabet
open ScoreNum IntScore

/-- `esl_abc_IAvgScore(a, x, sc)` -/
def iAvgScore (α : Type) [ScoreNum α] [IntScore α] (a : Alphabet) (x : Nat) (sc : List Int) : Option Int :=
  if !a.xIsResidue x then some 0
  else do
    let row ← a.degen[x]?
    let nd ← a.ndegen[x]?
    let r ← degenFold (α := α) row (fun i => (sc[i]?).map ofInt) a.K 0 zero
    some (roundHalf (div r (ScoreNum.ofNat nd)))

/-- `esl_abc_IExpectScore(a, x, sc, p)`: `result += (float) sc[i] * p[i]; denom += p[i]` -/
def iExpectScore {α : Type} [ScoreNum α] [IntScore α] (a : Alphabet) (x : Nat) (sc : List Int) (p : List α) : Option Int :=
  if !a.xIsResidue x then some 0
  else do
    let row ← a.degen[x]?
    let r ← degenFold row (fun i => do let s ← sc[i]?; let q ← p[i]?; some (mul (ofInt s) q)) a.K 0 zero
    let d ← degenFold row (fun i => p[i]?) a.K 0 zero
    some (roundHalf (div r d))

/-- `esl_abc_IAvgScVec(a, sc)`: `for (x = K+1; x <= Kp-3; x++) sc[x] = esl_abc_IAvgScore(a, x, sc)` -/
def iAvgScVec (α : Type) [ScoreNum α] [IntScore α] (a : Alphabet) (sc : List Int) : Option (List Int) :=
  scVecLoop (fun x sc => iAvgScore α a x sc) (a.Kp - 3 - a.K) (a.K + 1) sc

/-- `esl_abc_IExpectScVec(a, sc, p)` -/
def iExpectScVec {α : Type} [ScoreNum α] [IntScore α] (a : Alphabet) (sc : List Int) (p : List α) : Option (List Int) :=
  scVecLoop (fun x sc => iExpectScore a x sc p) (a.Kp - 3 - a.K) (a.K + 1) sc

/-- `esl_abc_CIsGap(a, c)` = `isascii(c) && a->inmap[c] == a->K` -/
def cIsGap (a : Alphabet) (c : Nat) : Bool := decide (c < 128) && decide (a.inmapAt c = a.K)

/-- bit mask of the macros `esl_abc_XIs{Valid,Residue,Canonical,Gap,Degenerate,Unknown,Nonresidue,Missing}(a, x)` (bits 0..7) -/
def xClass (a : Alphabet) (x : Nat) : Nat :=
  (if a.xIsValid x then 1 else 0) + (if a.xIsResidue x then 2 else 0) + (if a.xIsCanonical x then 4 else 0) +
  (if a.xIsGap x then 8 else 0) + (if a.xIsDegenerate x then 16 else 0) + (if a.xIsUnknown x then 32 else 0) +
  (if a.xIsNonresidue x then 64 else 0) + (if a.xIsMissing x then 128 else 0)

/-- the same for `esl_abc_CIs…(a, c)` = `isascii(c) && <the X macro on a->inmap[c]>`; a byte ≥ 0x80 is in no class -/
def cClass (a : Alphabet) (c : Nat) : Nat := if c < 128 then a.xClass (a.inmapAt c) else 0

/-- `esl_abc_dsqcpy(dsq, L, dcopy)`: `memcpy` of `L+2` codes; `none` = reads past the end of `dsq` -/
def dsqcpy (dsq : List Nat) (L : Nat) : Option (List Nat) :=
  if L + 2 ≤ dsq.length then some (dsq.take (L + 2)) else none

/-- `esl_abc_dsqdup(dsq, L, &dup)`: `dsq = none` is NULL (answer NULL), `L = none` is -1 (length found by `esl_abc_dsqlen`),
    then its own `memcpy` of `L+2` codes (the same copy as `esl_abc_dsqcpy`); outer `none` = a read outside `dsq` -/
def dsqdup (dsq : Option (List Nat)) (L : Option Nat) : Option (Option (List Nat)) :=
  match dsq with
  | none => some none
  | some d => do
    let n ← match L with
      | some l => some l
      | none => dsqlen d
    let c ← dsqcpy d n
    some (some c)

end Alphabet

namespace Sq
open Alphabet ScoreNum

/-- the text-mode loop of `esl_sq_CountResidues`:
    `if (esl_abc_CIsValid(abc, seq[i]) && !esl_abc_CIsGap(abc, seq[i])) esl_abc_FCount(abc, f, abc->inmap[seq[i]], 1.)` -/
def countResTextLoop {α : Type} [ScoreNum α] (a : Alphabet) (seq : List Nat) : Nat → Nat → List α → Option (List α)
  | 0, _, f => some f
  | k+1, i, f => do
    let c ← seq[i]?
    if a.cIsValid c && !a.cIsGap c then
      let f' ← a.count f (a.inmapAt c) (ScoreNum.ofNat 1)
      countResTextLoop a seq k (i+1) f'
    else countResTextLoop a seq k (i+1) f

/-- `esl_sq_CountResidues(sq, start, L, f)` on a text-mode sequence of length `n` (`seq` = the bytes without the NUL):
    outer `none` = eslERANGE (`start < 0 || start+L > n`), inner `none` = an out-of-bounds access -/
def countResiduesText {α : Type} [ScoreNum α] (a : Alphabet) (seq : List Nat) (start L : Int) (f : List α) :
    Option (Option (List α)) :=
  if start < 0 ∨ start + L > (seq.length : Int) then none
  else some (countResTextLoop a seq L.toNat start.toNat f)

/-! ## `esl_sq_Copy`: the sequence part of the four mode combinations -/

/-- what `esl_sq_Copy` leaves in `dst`: `n`, and the cells of `dst->seq` up to its NUL / of `dst->dsq` up to and including its
    closing sentinel (the cells the code has written; anything beyond is uninitialised) -/
structure Copied where
  n : Nat
  buf : List Nat
  deriving DecidableEq, Repr

/-- `esl_sq_Reuse(dst)` on the error path: `n = 0`, empty sequence -/
def reused (dstDigital : Bool) : Copied := { n := 0, buf := if dstDigital then [SENTINEL, SENTINEL] else [] }

/-- `esl_sq_Copy(src, dst)`, sequence part. `src` = `.inl text` (NUL-free bytes) or `.inr (dsq, n)` (whole digital array, length);
    `a` = alphabet of the digital side(s); `sameType` = `src->abc->type == dst->abc->type` (digital to digital only).
    `guard` = the `esl_abc_ValidateSeq` call before the text→digital `esl_abc_Digitize`.
    Result: status (`.error` = exception) and what is left in `dst`; inner `none` = out-of-bounds access. -/
def sqCopy (guard : Bool) (a : Alphabet) (src : Sum (List Nat) (List Nat × Nat)) (dstDigital sameType : Bool) :
    Option (Except Status (Status × Copied)) :=
  match src, dstDigital with
  | .inl txt, false => some (.ok (.ok, { n := txt.length, buf := txt }))                       -- strcpy
  | .inl txt, true =>
    if guard && validateSeq a txt != .ok then some (.ok (.einval, reused true))
    else
      let (st, d) := a.digitize txt
      if st ≠ .ok then some (.ok (st, reused true))
      else some (.ok (.ok, { n := txt.length, buf := d }))                                         -- dst->n = src->n
  | .inr (dsq, n), false =>
    match a.textize dsq n with
    | none => none
    | some t => some (.ok (.ok, { n := n, buf := t }))
  | .inr (dsq, n), true =>
    if !sameType then some (.error .eincompat)
    else match Alphabet.dsqcpy dsq n with
      | none => none
      | some c => some (.ok (.ok, { n := n, buf := c }))

/-- `esl_sq_Validate`'s length test on the copy: `strlen(seq) == n` / `esl_abc_dsqlen(dsq) == n` -/
def Copied.consistent (c : Copied) (digital : Bool) : Bool :=
  if digital then Alphabet.dsqlen c.buf == some c.n else c.buf.length == c.n

/-! ## `esl_sq_FetchFromMSA`: one aligned row (+ its secondary-structure line) → a dealigned sequence, text and digital mode -/

/-- `gapchars = "-_.~"` of `esl_sq_FetchFromMSA` / `esl_sq_GetFromMSA` (text mode only) -/
def gapchars : List Nat := Alphabet.str "-_.~"

/-- the loop of `esl_strdealign(s, aseq, gapchars, &n)`: `if (strchr(gapchars, aseq[apos]) == NULL) s[n++] = s[apos];`
    in place on `s`; `none` = an access outside `s` -/
def strdealignLoop : List Nat → Nat → Nat → List Nat → Option (List Nat × Nat)
  | [], _, n, s => some (s, n)
  | c :: cs, apos, n, s =>
    if c ∈ gapchars then strdealignLoop cs (apos + 1) n s
    else do
      let v ← s[apos]?
      if n < s.length then strdealignLoop cs (apos + 1) (n + 1) (s.set n v) else none

/-- `esl_strdealign(s, aseq, gapchars, &n)`: the string left in `s` (NUL written at `n`) and `n` -/
def strdealign (s aseq : List Nat) : Option (List Nat × Nat) := do
  let (s', n) ← strdealignLoop aseq 0 0 s
  if n ≤ s'.length then some (s'.take n, n) else none

/-- what `esl_sq_FetchFromMSA` returns: sequence (text bytes / whole digital array), its `ss`, `n` -/
structure Fetched where
  seq : List Nat
  ss : Option (List Nat)
  n : Nat
  deriving DecidableEq, Repr

/-- text-mode alignment: `esl_sq_CreateFrom(name, aseq, …, ss)`, then `ss` and the sequence dealigned against the sequence -/
def fetchText (row : List Nat) (ss : Option (List Nat)) : Option Fetched := do
  let ss' ← match ss with
    | none => some none
    | some v => (strdealign v row).map fun r => some r.1
  let (seq', n) ← strdealign row row
  some { seq := seq', ss := ss', n := n }

/-- digital alignment: `esl_sq_CreateDigitalFrom(abc, name, ax, alen, …, ss)`, then `esl_abc_CDealign(ss+1, dsq)` and
    `esl_abc_XDealign(dsq, dsq, &n)` -/
def fetchDigital (a : Alphabet) (ax : List Nat) (ss : Option (List Nat)) : Option Fetched := do
  let ss' ← match ss with
    | none => some none
    | some v => (a.cDealign v ax).map fun r => some r.1
  let (d, n) ← a.xDealign ax ax
  some { seq := d, ss := ss', n := n }

/-- `esl_sq_GetFromMSA(msa, 0, sq)` into an existing `sq` whose ss buffer currently holds `ssOld` (`none` = NULL): the
    sequence part is what `esl_sq_FetchFromMSA` computes (`strcpy` / `esl_abc_dsqcpy` into `sq`, then the same dealigning);
    an alignment without SS line leaves `sq->ss` as it was -/
def getText (row : List Nat) (ss ssOld : Option (List Nat)) : Option Fetched :=
  (fetchText row ss).map fun f => { f with ss := match ss with | some _ => f.ss | none => ssOld }
def getDigital (a : Alphabet) (ax : List Nat) (ss ssOld : Option (List Nat)) : Option Fetched :=
  (fetchDigital a ax ss).map fun f => { f with ss := match ss with | some _ => f.ss | none => ssOld }

/-- allocation state of the per-residue arrays of an `ESL_SQ`: `salloc`, and the number of cells of `sq->ss` (`none` = NULL) -/
structure SsAlloc where
  salloc : Nat
  ssCap : Option Nat
  deriving DecidableEq, Repr

/-- the allocation side of one `esl_sq_GetFromMSA` call with an alignment of `alen` columns (`extra` = 1 in text mode: cells
    `0..alen`; 2 in digital mode: cells `0..alen+1`): `esl_sq_GrowTo(sq, alen)` reallocates `seq`/`dsq` and a non-NULL `ss` to
    `alen+extra` cells when `salloc` is smaller; then, with an SS line, a NULL `ss` is allocated — `exact = true`: to
    `strlen(ss)+extra` cells (`esl_strdup` / `ESL_ALLOC(strlen(ss)+2)`), `exact = false`: to `salloc` cells — and otherwise
    `strcpy` writes `alen+extra` cells into the existing buffer: `none` = that copy runs past the buffer -/
def getAlloc (exact : Bool) (extra : Nat) (st : SsAlloc) (alen : Nat) (hasSs : Bool) : Option SsAlloc :=
  let st1 : SsAlloc := if alen + extra > st.salloc then { salloc := alen + extra, ssCap := st.ssCap.map fun _ => alen + extra } else st
  if !hasSs then some st1
  else match st1.ssCap with
    | none => some { st1 with ssCap := some (if exact then alen + extra else st1.salloc) }
    | some cap => if alen + extra ≤ cap then some st1 else none

/-- a history of calls on one reused object (`esl_sq_Reuse` in between does not touch the allocations) -/
def getAllocRun (exact : Bool) (extra : Nat) : SsAlloc → List (Nat × Bool) → Option SsAlloc
  | st, [] => some st
  | st, (alen, hasSs) :: rest =>
    match getAlloc exact extra st alen hasSs with
    | none => none
    | some st' => getAllocRun exact extra st' rest

/-- `esl_sq_Reuse(sq)` on the ss buffer: emptied, not freed -/
def reuseSs (ss : Option (List Nat)) : Option (List Nat) := ss.map fun _ => []

end Sq

namespace Guess

/-- the counter update `ct[x]++` -/
def bump (ct : List Int) (x : Nat) : List Int := ct.set x (ct.getD x 0 + 1)

/-- inner loop of the SECOND pass of `esl_msa_GuessAlphabet` over one row (guard `if (x < 0 || x > 25) continue;` since fix
    9b7e276; the counter store goes through a bounds check: `none` = a store outside the 26 counters).
    Returns the counters and the running letter count `n` (shared by all rows; `if (n > 10000) break;`). -/
def msaPoolRow : List Nat → List Int → Nat → Option (List Int × Nat)
  | [], ct, n => some (ct, n)
  | c :: cs, ct, n =>
    let x := letterIdx c
    if x < 0 ∨ x > 25 then msaPoolRow cs ct n
    else if x.toNat ≥ ct.length then none
    else
      let ct' := bump ct x.toNat
      if n + 1 > 10000 then some (ct', n + 1) else msaPoolRow cs ct' (n + 1)

/-- outer loop of the second pass: `if (n > 10000) break;` after each row -/
def msaPool : List (List Nat) → List Int → Nat → Option (List Int)
  | [], ct, _ => some ct
  | r :: rs, ct, n =>
    match msaPoolRow r ct n with
    | none => none
    | some (ct', n') => if n' > 10000 then some ct' else msaPool rs ct' n'

/-- the vote of the first pass over the per-sequence answers (1 = RNA, 2 = DNA, 3 = amino, 0 = unknown) -/
def msaVote (types : List Nat) : Nat :=
  let namino := (types.filter (· == 3)).length
  let ndna := (types.filter (· == 2)).length
  let nrna := (types.filter (· == 1)).length
  if namino > 0 ∧ ndna + nrna = 0 then 3
  else if ndna > 0 ∧ nrna + namino = 0 then 2
  else if nrna > 0 ∧ ndna + namino = 0 then 1
  else if ndna + nrna > 0 ∧ namino = 0 then 2
  else 0

/-- `esl_msa_GuessAlphabet(msa, &type)` on a text-mode alignment (`rows` = `msa->aseq[i][0..alen-1]`), with the classifier
    `g` of a composition (`esl_abc_GuessAlphabet`); the per-row counting loop of the first pass is the loop of
    `esl_sq_GuessAlphabet` (`x < 0 || x > 25`). `none` = a store outside the 26 counters in the second pass (unreachable:
    `msa_guess_no_fault`). -/
def msaGuess (g : List Int → Nat) (rows : List (List Nat)) : Option (Bool × Nat) :=
  let t := msaVote (rows.map fun r => g (sqCount r (List.replicate 26 0) 0))
  if t ≠ 0 then some (true, t)
  else (msaPool rows (List.replicate 26 0) 0).map fun ct => (decide (g ct ≠ 0), g ct)

end Guess
end EaselModel.Alphabet
