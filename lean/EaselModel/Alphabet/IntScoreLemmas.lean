import EaselModel.Alphabet.Model3
import EaselModel.Alphabet.ScVecLemmas
import Mathlib.Data.Rat.Floor
/-! # C08 — the integer-score routines over ℚ: `esl_abc_IAvgScore` = the exact mean rounded half away from zero,
`esl_abc_IExpectScore` = the weighted mean rounded likewise; the `I*ScVec` wrappers fill exactly the degenerate slots -/
set_option linter.dupNamespace false
namespace EaselModel.Alphabet
namespace Alphabet

/-- `(int) y` for a real `y`: truncation toward zero -/
def truncQ (y : ℚ) : Int := if y < 0 then -⌊-y⌋ else ⌊y⌋

/-- `if (result < 0) return (int)(result - 0.5); else return (int)(result + 0.5);` over ℚ -/
def roundHalfQ (r : ℚ) : Int := if r < 0 then truncQ (r - 1/2) else truncQ (r + 1/2)

instance : IntScore ℚ where
  ofInt := fun i => (i : ℚ)
  roundHalf := roundHalfQ

@[simp] theorem is_ofInt (i : Int) : (IntScore.ofInt i : ℚ) = (i : ℚ) := rfl
@[simp] theorem is_roundHalf (r : ℚ) : IntScore.roundHalf r = roundHalfQ r := rfl

/-- **round half away from zero**: `n` is the integer nearest to `m`, and a tie `m = k + 1/2` goes to the neighbour of larger
    magnitude — written without absolute values: a non-negative `m` lies in `[n - 1/2, n + 1/2)`, a negative one in
    `(n - 1/2, n + 1/2]` -/
def RoundHalfAway (m : ℚ) (n : Int) : Prop :=
  (0 ≤ m → (n : ℚ) - 1/2 ≤ m ∧ m < (n : ℚ) + 1/2) ∧ (m < 0 → (n : ℚ) - 1/2 < m ∧ m ≤ (n : ℚ) + 1/2)

theorem roundHalfQ_spec (m : ℚ) : RoundHalfAway m (roundHalfQ m) := by
  unfold RoundHalfAway roundHalfQ truncQ
  constructor
  · intro h0
    rw [if_neg (by linarith), if_neg (by linarith)]
    have h1 := Int.floor_le (m + 1/2)
    have h2 := Int.lt_floor_add_one (m + 1/2)
    constructor <;> linarith
  · intro h0
    rw [if_pos h0, if_pos (by linarith)]
    have h1 := Int.floor_le (-(m - 1/2))
    have h2 := Int.lt_floor_add_one (-(m - 1/2))
    push_cast
    constructor <;> linarith

/-- there is exactly one such integer -/
theorem roundHalfAway_unique (m : ℚ) (n n' : Int) (h : RoundHalfAway m n) (h' : RoundHalfAway m n') : n = n' := by
  unfold RoundHalfAway at h h'
  by_cases h0 : 0 ≤ m
  · obtain ⟨a1, a2⟩ := h.1 h0
    obtain ⟨b1, b2⟩ := h'.1 h0
    have c1 : (n : ℚ) < (n' : ℚ) + 1 := by linarith
    have c2 : (n' : ℚ) < (n : ℚ) + 1 := by linarith
    have d1 : n < n' + 1 := by exact_mod_cast c1
    have d2 : n' < n + 1 := by exact_mod_cast c2
    omega
  · have h0' : m < 0 := by linarith
    obtain ⟨a1, a2⟩ := h.2 h0'
    obtain ⟨b1, b2⟩ := h'.2 h0'
    have c1 : (n : ℚ) < (n' : ℚ) + 1 := by linarith
    have c2 : (n' : ℚ) < (n : ℚ) + 1 := by linarith
    have d1 : n < n' + 1 := by exact_mod_cast c1
    have d2 : n' < n + 1 := by exact_mod_cast c2
    omega

theorem roundHalfQ_eq (m : ℚ) (n : Int) (h : RoundHalfAway m n) : roundHalfQ m = n :=
  roundHalfAway_unique m _ _ (roundHalfQ_spec m) h

/-- the familiar form: within 1/2 of `m`, and in a tie the magnitude grows -/
theorem roundHalfAway_abs (m : ℚ) (n : Int) (h : RoundHalfAway m n) :
    |(n : ℚ) - m| ≤ 1/2 ∧ (|(n : ℚ) - m| = 1/2 → |m| < |(n : ℚ)|) := by
  unfold RoundHalfAway at h
  by_cases h0 : 0 ≤ m
  · obtain ⟨a1, a2⟩ := h.1 h0
    refine ⟨abs_le.mpr ⟨by linarith, by linarith⟩, fun ht => ?_⟩
    have hn : (n : ℚ) - m = 1/2 := by
      rcases abs_eq (by norm_num : (0 : ℚ) ≤ 1/2) |>.mp ht with e | e
      · exact e
      · linarith
    rw [abs_of_nonneg h0, abs_of_nonneg (by linarith)]
    linarith
  · have h0' : m < 0 := by linarith
    obtain ⟨a1, a2⟩ := h.2 h0'
    refine ⟨abs_le.mpr ⟨by linarith, by linarith⟩, fun ht => ?_⟩
    have hn : (n : ℚ) - m = -(1/2) := by
      rcases abs_eq (by norm_num : (0 : ℚ) ≤ 1/2) |>.mp ht with e | e
      · linarith
      · exact e
    rw [abs_of_neg h0', abs_of_neg (by linarith)]
    linarith

/-- integers are fixed; the rounding is odd: `round (-m) = - round m` -/
theorem roundHalfQ_int (k : Int) : roundHalfQ (k : ℚ) = k :=
  (roundHalfAway_unique _ _ _ (roundHalfQ_spec _)
    ⟨fun _ => ⟨by linarith, by linarith⟩, fun _ => ⟨by linarith, by linarith⟩⟩)

theorem roundHalfQ_neg (m : ℚ) : roundHalfQ (-m) = - roundHalfQ m := by
  by_cases hz : m = 0
  · subst hz
    have e : roundHalfQ 0 = 0 := by simpa using roundHalfQ_int 0
    simp [e]
  apply roundHalfAway_unique (-m) _ _ (roundHalfQ_spec _)
  have h := roundHalfQ_spec m
  unfold RoundHalfAway at h ⊢
  push_cast
  by_cases h0 : 0 ≤ m
  · obtain ⟨a1, a2⟩ := h.1 h0
    have hp : 0 < m := lt_of_le_of_ne h0 (Ne.symm hz)
    exact ⟨fun hh => absurd hh (by linarith), fun _ => ⟨by linarith, by linarith⟩⟩
  · have h0' : m < 0 := by linarith
    obtain ⟨a1, a2⟩ := h.2 h0'
    exact ⟨fun _ => ⟨by linarith, by linarith⟩, fun hh => absurd hh (by linarith)⟩

theorem getD_setZ (l : List Int) (j : Nat) (v : Int) (i : Nat) (hj : j < l.length) :
    (l.set j v).getD i 0 = if i = j then v else l.getD i 0 := by
  rw [List.getD_eq_getElem?_getD, List.getElem?_set]
  by_cases h : j = i
  · subst h; simp [hj]
  · have h' : ¬ i = j := fun e => h e.symm
    simp [h, h', List.getD_eq_getElem?_getD]

/-! ## the routines -/

theorem getD_map_cast (sc : List Int) (i : Nat) : (sc.map fun v : Int => (v : ℚ)).getD i 0 = ((sc.getD i 0 : Int) : ℚ) := by
  rw [List.getD_eq_getElem?_getD, List.getD_eq_getElem?_getD, List.getElem?_map]
  cases sc[i]? <;> simp

/-- the integer routine is the real-valued one on the converted scores, followed by the rounding -/
theorem iAvgScore_eq (a : Alphabet) (x : Nat) (sc : List Int) :
    iAvgScore ℚ a x sc = if !a.xIsResidue x then some 0
      else (a.avgScore x (sc.map fun v : Int => (v : ℚ))).map roundHalfQ := by
  unfold iAvgScore avgScore
  by_cases hr : a.xIsResidue x = true
  · simp only [hr, Bool.not_true, Bool.false_eq_true, if_false]
    have hf : (fun (i : Nat) => (sc[i]?).map (IntScore.ofInt : Int → ℚ)) = fun (i : Nat) => (sc.map fun v : Int => (v : ℚ))[i]? := by
      funext i; rw [List.getElem?_map]; rfl
    rw [hf]
    cases a.degen[x]? <;> cases a.ndegen[x]? <;> simp [Option.bind, Option.map]
    rename_i row nd
    generalize degenFold row _ a.K 0 (0 : ℚ) = d; cases d <;> rfl
  · have hr' : a.xIsResidue x = false := by simpa using hr
    simp [hr']

/-- **`esl_abc_IAvgScore` = the exact mean over the degeneracy set, rounded half away from zero** -/
theorem iAvgScore_round (a : Alphabet) (h : a.WFDegen) (x : Nat) (hx : x < a.Kp) (hres : a.xIsResidue x = true)
    (sc : List Int) (hsc : a.K ≤ sc.length) :
    iAvgScore ℚ a x sc =
      some (roundHalfQ (((a.degenSet x).map fun i => ((sc.getD i 0 : Int) : ℚ)).sum / ((a.degenSet x).length : ℚ))) := by
  rw [iAvgScore_eq]
  simp only [hres, Bool.not_true, Bool.false_eq_true, if_false]
  rw [avgScore_mean a h x hx hres _ (by simpa using hsc)]
  simp only [Option.map_some, getD_map_cast]

theorem iAvgScore_nonresidue (a : Alphabet) (x : Nat) (hres : a.xIsResidue x = false) (sc : List Int) :
    iAvgScore ℚ a x sc = some 0 := by
  unfold iAvgScore; simp [hres]

theorem iExpectScore_eq (a : Alphabet) (x : Nat) (sc : List Int) (p : List ℚ) :
    iExpectScore a x sc p = if !a.xIsResidue x then some 0
      else (a.expectScore x (sc.map fun v : Int => (v : ℚ)) p).map roundHalfQ := by
  unfold iExpectScore expectScore
  by_cases hr : a.xIsResidue x = true
  · simp only [hr, Bool.not_true, Bool.false_eq_true, if_false]
    have hf : (fun (i : Nat) => (do let s ← sc[i]?; let q ← p[i]?; some (ScoreNum.mul (IntScore.ofInt s : ℚ) q) : Option ℚ)) =
        fun (i : Nat) => (do let s ← (sc.map fun v : Int => (v : ℚ))[i]?; let q ← p[i]?; some (ScoreNum.mul s q) : Option ℚ) := by
      funext i; rw [List.getElem?_map]; cases sc[i]? <;> rfl
    rw [hf]
    cases a.degen[x]? <;> simp [Option.bind, Option.map]
    rename_i row
    generalize degenFold row (fun (i : Nat) => p[i]?) a.K 0 (0 : ℚ) = e
    generalize degenFold row _ a.K 0 (0 : ℚ) = d
    cases d <;> cases e <;> rfl
  · have hr' : a.xIsResidue x = false := by simpa using hr
    simp [hr']

/-- **`esl_abc_IExpectScore` = the `p`-weighted mean over the degeneracy set, rounded half away from zero** -/
theorem iExpectScore_round (a : Alphabet) (h : a.WFDegen) (x : Nat) (hx : x < a.Kp) (hres : a.xIsResidue x = true)
    (sc : List Int) (p : List ℚ) (hsc : a.K ≤ sc.length) (hp : a.K ≤ p.length) :
    iExpectScore a x sc p =
      some (roundHalfQ (((a.degenSet x).map fun i => ((sc.getD i 0 : Int) : ℚ) * p.getD i 0).sum /
        ((a.degenSet x).map fun i => p.getD i 0).sum)) := by
  rw [iExpectScore_eq]
  simp only [hres, Bool.not_true, Bool.false_eq_true, if_false]
  rw [expectScore_weighted a h x hx hres _ p (by simpa using hsc) hp]
  simp only [Option.map_some, getD_map_cast]

/-! ## the in-place wrappers on an `int` vector -/

theorem scVecLoopI_spec (Kp K : Nat) (sc : List Int) (f : Nat → List Int → Option Int) (g : Nat → Int)
    (hf : ∀ x cur, K < x → x + 3 ≤ Kp → cur.length = Kp → (∀ i, i ≤ K → cur.getD i 0 = sc.getD i 0) → f x cur = some (g x)) :
    ∀ (k x : Nat) (cur : List Int), x + k + 2 = Kp → K < x → cur.length = Kp →
      (∀ i, i ≤ K → cur.getD i 0 = sc.getD i 0) →
      ∃ r, scVecLoop f k x cur = some r ∧ r.length = Kp ∧
        ∀ i, r.getD i 0 = if x ≤ i ∧ i < x + k then g i else cur.getD i 0 := by
  intro k
  induction k with
  | zero =>
    intro x cur _ _ hl _
    exact ⟨cur, rfl, hl, fun i => by rw [if_neg (by omega)]⟩
  | succ k ih =>
    intro x cur hk hx hl hag
    have hfx := hf x cur hx (by omega) hl hag
    have hlt : x < cur.length := by omega
    obtain ⟨r, h1, h2, h3⟩ := ih (x + 1) (cur.set x (g x)) (by omega) (by omega) (by simpa using hl)
      (fun i hi => by rw [getD_setZ _ _ _ _ hlt, if_neg (by omega)]; exact hag i hi)
    refine ⟨r, ?_, h2, fun i => ?_⟩
    · simp only [scVecLoop, hfx, Option.bind_eq_bind, Option.bind_some, hlt, if_true]
      exact h1
    · rw [h3, getD_setZ _ _ _ _ hlt]
      by_cases e : i = x
      · subst e; rw [if_neg (by omega), if_pos rfl, if_pos (by omega)]
      · rw [if_neg e]
        by_cases c : x + 1 ≤ i ∧ i < x + 1 + k
        · rw [if_pos c, if_pos (by omega)]
        · rw [if_neg c, if_neg (by omega)]

/-- `esl_abc_IAvgScVec(a, sc)` on a `Kp`-long `int` vector: every degenerate slot `K < x ≤ Kp-3` receives the mean of the
    canonical scores over the set of `x` rounded half away from zero; every other slot is untouched; no out-of-bounds access -/
theorem iAvgScVec_spec (a : Alphabet) (h : a.WFDegen) (hK : a.K + 4 ≤ a.Kp) (sc : List Int) (hl : sc.length = a.Kp) :
    ∃ r, iAvgScVec ℚ a sc = some r ∧ r.length = a.Kp ∧
      ∀ x, r.getD x 0 = if a.K < x ∧ x + 3 ≤ a.Kp
        then roundHalfQ (((a.degenSet x).map fun i => ((sc.getD i 0 : Int) : ℚ)).sum / ((a.degenSet x).length : ℚ))
        else sc.getD x 0 := by
  have hf : ∀ x cur, a.K < x → x + 3 ≤ a.Kp → cur.length = a.Kp → (∀ i, i ≤ a.K → cur.getD i 0 = sc.getD i 0) →
      iAvgScore ℚ a x cur =
        some (roundHalfQ (((a.degenSet x).map fun i => ((sc.getD i 0 : Int) : ℚ)).sum / ((a.degenSet x).length : ℚ))) := by
    intro x cur hx hx3 hcl hag
    have hres : a.xIsResidue x = true := by
      simp only [xIsResidue, Bool.or_eq_true, Bool.and_eq_true, decide_eq_true_eq]; right; omega
    rw [iAvgScore_round a h x (by omega) hres cur (by omega)]
    congr 4
    apply List.map_congr_left
    intro i hi
    rw [hag i (by have := degenSet_lt a x i hi; omega)]
  obtain ⟨r, h1, h2, h3⟩ := scVecLoopI_spec a.Kp a.K sc (fun x cur => iAvgScore ℚ a x cur) _ hf
    (a.Kp - 3 - a.K) (a.K + 1) sc (by omega) (by omega) hl (fun _ _ => rfl)
  refine ⟨r, h1, h2, fun x => ?_⟩
  rw [h3]
  by_cases c : a.K < x ∧ x + 3 ≤ a.Kp
  · rw [if_pos c, if_pos (by omega)]
  · rw [if_neg c, if_neg (by omega)]

/-- `esl_abc_IExpectScVec(a, sc, p)` likewise with the `p`-weighted mean -/
theorem iExpectScVec_spec (a : Alphabet) (h : a.WFDegen) (hK : a.K + 4 ≤ a.Kp) (sc : List Int) (p : List ℚ)
    (hl : sc.length = a.Kp) (hp : a.K ≤ p.length) :
    ∃ r, iExpectScVec a sc p = some r ∧ r.length = a.Kp ∧
      ∀ x, r.getD x 0 = if a.K < x ∧ x + 3 ≤ a.Kp
        then roundHalfQ (((a.degenSet x).map fun i => ((sc.getD i 0 : Int) : ℚ) * p.getD i 0).sum /
          ((a.degenSet x).map fun i => p.getD i 0).sum)
        else sc.getD x 0 := by
  have hf : ∀ x cur, a.K < x → x + 3 ≤ a.Kp → cur.length = a.Kp → (∀ i, i ≤ a.K → cur.getD i 0 = sc.getD i 0) →
      iExpectScore a x cur p =
        some (roundHalfQ (((a.degenSet x).map fun i => ((sc.getD i 0 : Int) : ℚ) * p.getD i 0).sum /
          ((a.degenSet x).map fun i => p.getD i 0).sum)) := by
    intro x cur hx hx3 hcl hag
    have hres : a.xIsResidue x = true := by
      simp only [xIsResidue, Bool.or_eq_true, Bool.and_eq_true, decide_eq_true_eq]; right; omega
    rw [iExpectScore_round a h x (by omega) hres cur p (by omega) hp]
    congr 4
    apply List.map_congr_left
    intro i hi
    rw [hag i (by have := degenSet_lt a x i hi; omega)]
  obtain ⟨r, h1, h2, h3⟩ := scVecLoopI_spec a.Kp a.K sc (fun x cur => iExpectScore a x cur p) _ hf
    (a.Kp - 3 - a.K) (a.K + 1) sc (by omega) (by omega) hl (fun _ _ => rfl)
  refine ⟨r, h1, h2, fun x => ?_⟩
  rw [h3]
  by_cases c : a.K < x ∧ x + 3 ≤ a.Kp
  · rw [if_pos c, if_pos (by omega)]
  · rw [if_neg c, if_neg (by omega)]

end Alphabet
end EaselModel.Alphabet
