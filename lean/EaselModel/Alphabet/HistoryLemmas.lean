import EaselModel.Alphabet.CustomDegen
import EaselModel.Alphabet.DegenLemmas
/-! # C08 — custom alphabets as HISTORIES of constructor calls: invariants over every history, and the documented error
statuses of the individual calls -/
namespace EaselModel.Alphabet
namespace Alphabet

/-- one call on an alphabet under construction -/
inductive Call
  | equiv (sym c : Nat)
  | caseins
  | degen (c : Nat) (ds : List Nat)
  | ignored (chars : List Nat)

def applyCall (a : Alphabet) : Call → Status × Alphabet
  | .equiv s c => a.setEquiv s c
  | .caseins => a.setCaseInsensitive
  | .degen c ds => a.setDegeneracy c ds
  | .ignored chars => (.ok, a.setIgnored chars)

/-- run a history of calls (statuses are ignored by the next call, exactly as a C caller that does not check them);
    returns the statuses in call order and the final alphabet -/
def run (a : Alphabet) : List Call → List Status × Alphabet
  | [] => ([], a)
  | c :: cs => ((a.applyCall c).1 :: (run (a.applyCall c).2 cs).1, (run (a.applyCall c).2 cs).2)

/-- the call does not declare a symbol of the alphabet ignored -/
def Call.spares (syms : List Nat) : Call → Prop
  | .ignored chars => ∀ c ∈ chars, c ∉ syms
  | _ => True

/-! ## fields no call changes -/

theorem caseLoop_fields (l : List Nat) (a : Alphabet) :
    (a.caseLoop l).2.K = a.K ∧ (a.caseLoop l).2.Kp = a.Kp ∧ (a.caseLoop l).2.sym = a.sym ∧
    (a.caseLoop l).2.degen = a.degen ∧ (a.caseLoop l).2.ndegen = a.ndegen ∧ (a.caseLoop l).2.complement = a.complement := by
  induction l generalizing a with
  | nil => exact ⟨rfl, rfl, rfl, rfl, rfl, rfl⟩
  | cons lc rest ih =>
    unfold caseLoop
    cases hs : a.caseStep lc with
    | none => exact ⟨rfl, rfl, rfl, rfl, rfl, rfl⟩
    | some a' =>
      simp only []
      have hf : a'.K = a.K ∧ a'.Kp = a.Kp ∧ a'.sym = a.sym ∧ a'.degen = a.degen ∧ a'.ndegen = a.ndegen ∧
          a'.complement = a.complement := by
        unfold caseStep at hs
        simp only [] at hs
        split at hs
        · cases hs; exact ⟨rfl, rfl, rfl, rfl, rfl, rfl⟩
        · split at hs
          · cases hs; exact ⟨rfl, rfl, rfl, rfl, rfl, rfl⟩
          · split at hs
            · cases hs
            · cases hs; exact ⟨rfl, rfl, rfl, rfl, rfl, rfl⟩
      obtain ⟨i1, i2, i3, i4, i5, i6⟩ := ih a'
      obtain ⟨f1, f2, f3, f4, f5, f6⟩ := hf
      exact ⟨i1.trans f1, i2.trans f2, i3.trans f3, i4.trans f4, i5.trans f5, i6.trans f6⟩

theorem applyCall_fields (a : Alphabet) (c : Call) :
    (a.applyCall c).2.K = a.K ∧ (a.applyCall c).2.Kp = a.Kp ∧ (a.applyCall c).2.sym = a.sym := by
  cases c with
  | equiv s c =>
    simp only [applyCall]; unfold setEquiv
    cases a.strchrSym s with
    | some _ => exact ⟨rfl, rfl, rfl⟩
    | none => cases a.strchrSym c <;> exact ⟨rfl, rfl, rfl⟩
  | caseins =>
    obtain ⟨h1, h2, h3, _⟩ := caseLoop_fields ((List.range 26).map (· + 97)) a
    exact ⟨h1, h2, h3⟩
  | degen c ds =>
    simp only [applyCall]; unfold setDegeneracy
    cases a.strchrSym c with
    | none => exact ⟨rfl, rfl, rfl⟩
    | some x =>
      simp only []
      split
      · exact ⟨rfl, rfl, rfl⟩
      · split
        · exact ⟨rfl, rfl, rfl⟩
        · obtain ⟨f1, f2, f3, _⟩ := degenLoop_fields x ds a
          exact ⟨f1, f2, f3⟩
  | ignored chars => exact ⟨rfl, rfl, rfl⟩

/-- no history changes the sizes or the symbol string -/
theorem run_fields (h : List Call) (a : Alphabet) :
    (a.run h).2.K = a.K ∧ (a.run h).2.Kp = a.Kp ∧ (a.run h).2.sym = a.sym ∧ (a.run h).1.length = h.length := by
  induction h generalizing a with
  | nil => exact ⟨rfl, rfl, rfl, rfl⟩
  | cons c cs ih =>
    obtain ⟨f1, f2, f3⟩ := applyCall_fields a c
    obtain ⟨i1, i2, i3, i4⟩ := ih (a.applyCall c).2
    exact ⟨i1.trans f1, i2.trans f2, i3.trans f3, by simp [run, i4]⟩

/-! ## `WF` over histories -/

theorem applyCall_wf (a : Alphabet) (hw : a.WF) (c : Call) (hs : c.spares a.sym) : (a.applyCall c).2.WF := by
  cases c with
  | equiv s c => exact setEquiv_wf a hw s c
  | caseins => exact setCaseInsensitive_wf a hw
  | degen c ds => exact setDegeneracy_wf a hw c ds
  | ignored chars => exact setIgnored_wf a hw chars hs

/-- **`WF` is an invariant of every history** of `SetEquiv / SetCaseInsensitive / SetDegeneracy / SetIgnored` calls,
    whatever their arguments and statuses, provided no `SetIgnored` names a symbol of the alphabet -/
theorem run_wf (h : List Call) (a : Alphabet) (hw : a.WF) (hs : ∀ c ∈ h, c.spares a.sym) : (a.run h).2.WF := by
  induction h generalizing a with
  | nil => exact hw
  | cons c cs ih =>
    have h1 := applyCall_wf a hw c (hs c (by simp))
    have hsym := (applyCall_fields a c).2.2
    exact ih _ h1 (fun c' hc' => by rw [hsym]; exact hs c' (by simp [hc']))

/-! ## the rows of the degeneracy tables no history can touch -/

/-- canonical residues, gap, `any`, nonresidue, missing: the codes `esl_alphabet_SetDegeneracy` refuses -/
def frozenCode (a : Alphabet) (x : Nat) : Prop := x ≤ a.K ∨ x + 3 ≥ a.Kp

theorem degenLoop_other (x : Nat) (ds : List Nat) (a : Alphabet) (x' : Nat) (hne : x' ≠ x) :
    (a.degenLoop x ds).2.degen.getD x' [] = a.degen.getD x' [] ∧ (a.degenLoop x ds).2.ndegen.getD x' 0 = a.ndegen.getD x' 0 := by
  induction ds generalizing a with
  | nil => exact ⟨rfl, rfl⟩
  | cons d rest ih =>
    unfold degenLoop
    cases a.strchrSym d with
    | none => exact ⟨rfl, rfl⟩
    | some y =>
      simp only []
      split
      · exact ⟨rfl, rfl⟩
      · obtain ⟨i1, i2⟩ := ih (a.degenAdd x y)
        refine ⟨i1.trans ?_, i2.trans ?_⟩
        · show (a.degen.set x _).getD x' [] = _
          rw [List.getD_eq_getElem?_getD, List.getElem?_set, if_neg (fun e : x = x' => hne e.symm),
            List.getD_eq_getElem?_getD]
        · show (a.ndegen.set x _).getD x' 0 = _
          exact getD_set_ne _ _ _ _ _ hne

theorem applyCall_frozen (a : Alphabet) (c : Call) (x : Nat) (hx : a.frozenCode x) :
    (a.applyCall c).2.degen.getD x [] = a.degen.getD x [] ∧ (a.applyCall c).2.ndegen.getD x 0 = a.ndegen.getD x 0 := by
  cases c with
  | equiv s c =>
    simp only [applyCall]; unfold setEquiv
    cases a.strchrSym s with
    | some _ => exact ⟨rfl, rfl⟩
    | none => cases a.strchrSym c <;> exact ⟨rfl, rfl⟩
  | caseins =>
    obtain ⟨_, _, _, h4, h5, _⟩ := caseLoop_fields ((List.range 26).map (· + 97)) a
    simp only [applyCall, setCaseInsensitive, h4, h5, and_self]
  | degen c ds =>
    simp only [applyCall]; unfold setDegeneracy
    cases a.strchrSym c with
    | none => exact ⟨rfl, rfl⟩
    | some x0 =>
      simp only []
      split
      · exact ⟨rfl, rfl⟩
      · split
        · exact ⟨rfl, rfl⟩
        · rename_i h1 h2
          exact degenLoop_other x0 ds a x (by unfold frozenCode at hx; omega)
  | ignored chars => exact ⟨rfl, rfl⟩

/-- **no history changes the degeneracy rows of the canonical residues, the gap, `any`, nonresidue or missing** -/
theorem run_frozen (h : List Call) (a : Alphabet) (x : Nat) (hx : a.frozenCode x) :
    (a.run h).2.degen.getD x [] = a.degen.getD x [] ∧ (a.run h).2.ndegen.getD x 0 = a.ndegen.getD x 0 := by
  induction h generalizing a with
  | nil => exact ⟨rfl, rfl⟩
  | cons c cs ih =>
    obtain ⟨f1, f2, _⟩ := applyCall_fields a c
    obtain ⟨g1, g2⟩ := applyCall_frozen a c x hx
    obtain ⟨i1, i2⟩ := ih (a.applyCall c).2 (by unfold frozenCode at hx ⊢; rw [f1, f2]; exact hx)
    exact ⟨i1.trans g1, i2.trans g2⟩

/-! ## documented statuses of the individual calls -/

/-- `esl_alphabet_CreateCustom` returns NULL exactly when the string length is not `Kp`, or `Kp < K+4`, or `K = 0` -/
theorem createCustom_none_iff (syms : List Nat) (K Kp : Nat) :
    createCustom syms K Kp = none ↔ syms.length ≠ Kp ∨ Kp < K + 4 ∨ K = 0 := by
  unfold createCustom
  by_cases h1 : syms.length ≠ Kp
  · simp [h1]
  · by_cases h2 : Kp < K + 4
    · simp [h1, h2]
    · by_cases h3 : K = 0
      · simp [h1, h2, h3]
      · have : ¬ Kp * K = 0 := by
          intro e; rcases Nat.mul_eq_zero.mp e with e | e <;> omega
        simp [h1, h2, h3, this]

theorem createCustom_fields (syms : List Nat) (K Kp : Nat) (a : Alphabet) (h : createCustom syms K Kp = some a) :
    a.K = K ∧ a.Kp = Kp ∧ a.sym = syms := by
  unfold createCustom at h
  split at h
  · cases h
  · split at h
    · cases h
    · split at h
      · cases h
      · cases h; exact ⟨rfl, rfl, rfl⟩

theorem degenSet_congr (a b : Alphabet) (x : Nat) (hK : b.K = a.K) (hd : b.degen.getD x [] = a.degen.getD x []) :
    b.degenSet x = a.degenSet x := by
  unfold degenSet; rw [hK, hd]

/-- after EVERY history on a freshly created custom alphabet the order convention still holds: a canonical residue denotes
    itself (`ndegen` 1), `any` denotes all `K` residues (`ndegen` K) -/
theorem run_order (syms : List Nat) (K : Nat) (a : Alphabet) (hK : 1 ≤ K) (hKp : K + 4 ≤ syms.length)
    (h : createCustom syms K syms.length = some a) (hist : List Call) :
    (∀ x, x < K → (a.run hist).2.degenSet x = [x] ∧ (a.run hist).2.ndegen.getD x 0 = 1) ∧
    (a.run hist).2.degenSet (syms.length - 3) = List.range K ∧ (a.run hist).2.ndegen.getD (syms.length - 3) 0 = K := by
  obtain ⟨f1, f2, _⟩ := createCustom_fields syms K syms.length a h
  obtain ⟨hwf, hc, hany⟩ := createCustom_wfdegen syms K a hK hKp h
  obtain ⟨r1, r2, _, _⟩ := run_fields hist a
  have hnd := fun x (hx : x < a.Kp) => (hwf.2.2 x hx).2
  refine ⟨fun x hx => ?_, ?_, ?_⟩
  · obtain ⟨g1, g2⟩ := run_frozen hist a x (Or.inl (by omega))
    rw [degenSet_congr a _ x r1 g1, g2, hnd x (by omega), hc x hx]
    exact ⟨rfl, rfl⟩
  · obtain ⟨g1, _⟩ := run_frozen hist a (syms.length - 3) (Or.inr (by omega))
    rw [degenSet_congr a _ _ r1 g1, hany]
  · obtain ⟨_, g2⟩ := run_frozen hist a (syms.length - 3) (Or.inr (by omega))
    rw [g2, hnd _ (by omega), hany]; simp

theorem strchrSym_some_iff (a : Alphabet) (c : Nat) (hc : c ≠ 0) : (a.strchrSym c).isSome = true ↔ c ∈ a.sym := by
  unfold strchrSym
  simp only [hc, if_false]
  by_cases h : a.sym.idxOf c < a.sym.length
  · simp [h, List.idxOf_lt_length_iff.mp h]
  · have : c ∉ a.sym := fun hm => h (List.idxOf_lt_length_iff.mpr hm)
    simp [h, this]

/-- `esl_alphabet_SetEquiv(a, sym, c)` (non-NUL characters): eslOK iff `sym` is not yet a symbol and `c` is one; otherwise
    eslEINVAL and the alphabet is unchanged; on success only `inmap[sym]` changes, to the code of `c` -/
theorem setEquiv_status (a : Alphabet) (sym c : Nat) (hs : sym ≠ 0) (hc : c ≠ 0) :
    ((a.setEquiv sym c).1 = .ok ↔ sym ∉ a.sym ∧ c ∈ a.sym) ∧
    ((a.setEquiv sym c).1 ≠ .ok → (a.setEquiv sym c).1 = .einval ∧ (a.setEquiv sym c).2 = a) ∧
    ((a.setEquiv sym c).1 = .ok → (a.setEquiv sym c).2 = { a with inmap := a.inmap.set sym (a.sym.idxOf c) }) := by
  have e1 := strchrSym_some_iff a sym hs
  have e2 := strchrSym_some_iff a c hc
  unfold setEquiv
  cases h1 : a.strchrSym sym with
  | some v =>
    rw [h1] at e1
    have : sym ∈ a.sym := e1.mp rfl
    simp [this]
  | none =>
    rw [h1] at e1
    have hn : sym ∉ a.sym := fun hm => by have := e1.mpr hm; cases this
    cases h2 : a.strchrSym c with
    | none =>
      rw [h2] at e2
      have : c ∉ a.sym := fun hm => by have := e2.mpr hm; cases this
      simp [this]
    | some x =>
      rw [h2] at e2
      have hm : c ∈ a.sym := e2.mp rfl
      have hx : x = a.sym.idxOf c := by
        unfold strchrSym at h2
        simp only [hc, if_false] at h2
        split at h2
        · cases h2; rfl
        · cases h2
      simp [hn, hm, hx]

/-- the `while (*ds)` loop ends with eslOK iff every listed character is a canonical residue symbol -/
theorem degenLoop_status (x : Nat) (ds : List Nat) (a : Alphabet) :
    ((a.degenLoop x ds).1 = .ok ↔ ∀ d ∈ ds, ∃ y, a.strchrSym d = some y ∧ y < a.K) ∧
    ((a.degenLoop x ds).1 = .ok ∨ (a.degenLoop x ds).1 = .einval) := by
  induction ds generalizing a with
  | nil => simp [degenLoop]
  | cons d rest ih =>
    unfold degenLoop
    cases hs : a.strchrSym d with
    | none =>
      refine ⟨⟨(fun e => by cases e), fun hall => ?_⟩, Or.inr rfl⟩
      obtain ⟨y, hy, _⟩ := hall d (by simp)
      rw [hs] at hy; cases hy
    | some y =>
      simp only []
      by_cases hc : a.xIsCanonical y = true
      · have hyK : y < a.K := by simpa [xIsCanonical] using hc
        simp only [hc, not_true_eq_false, if_false]
        obtain ⟨i1, i2⟩ := ih (a.degenAdd x y)
        refine ⟨Iff.trans i1 ?_, i2⟩
        constructor
        · intro hall d' hd'
          rcases List.mem_cons.mp hd' with e | e
          · subst e; exact ⟨y, hs, hyK⟩
          · exact hall d' e
        · intro hall d' hd'
          exact hall d' (by simp [hd'])
      · simp only [hc, not_false_eq_true, if_true]
        refine ⟨⟨(fun e => by cases e), fun hall => ?_⟩, Or.inr rfl⟩
        obtain ⟨y', hy', hlt⟩ := hall d (by simp)
        rw [hs] at hy'; cases hy'
        exact absurd (by simpa [xIsCanonical] using hlt) hc

/-- `esl_alphabet_SetDegeneracy(a, c, ds)`: eslOK iff `c` is one of the degenerate symbols `K < x < Kp-3` (not a canonical
    residue, not the gap, not `any`, nonresidue or missing, not outside the alphabet) and every character of `ds` is a
    canonical residue symbol; otherwise eslEINVAL -/
theorem setDegeneracy_status (a : Alphabet) (c : Nat) (ds : List Nat) :
    ((a.setDegeneracy c ds).1 = .ok ↔
      ∃ x, a.strchrSym c = some x ∧ a.K < x ∧ x + 3 < a.Kp ∧ ∀ d ∈ ds, ∃ y, a.strchrSym d = some y ∧ y < a.K) ∧
    ((a.setDegeneracy c ds).1 = .ok ∨ (a.setDegeneracy c ds).1 = .einval) := by
  unfold setDegeneracy
  cases hs : a.strchrSym c with
  | none => exact ⟨⟨(fun e => by cases e), fun ⟨x, hx, _⟩ => by cases hx⟩, Or.inr rfl⟩
  | some x =>
    simp only []
    by_cases h1 : x + 3 = a.Kp
    · rw [if_pos h1]
      exact ⟨⟨(fun e => by cases e), fun ⟨x', hx', _, h3, _⟩ => by cases hx'; omega⟩, Or.inr rfl⟩
    · rw [if_neg h1]
      by_cases h2 : x < a.K + 1 ∨ x + 2 ≥ a.Kp
      · rw [if_pos h2]
        exact ⟨⟨(fun e => by cases e), fun ⟨x', hx', h2', h3, _⟩ => by cases hx'; omega⟩, Or.inr rfl⟩
      · rw [if_neg h2]
        obtain ⟨i1, i2⟩ := degenLoop_status x ds a
        refine ⟨?_, i2⟩
        rw [i1]
        constructor
        · intro hall; exact ⟨x, rfl, by omega, by omega, hall⟩
        · intro ⟨_, _, _, _, hall⟩; exact hall

/-- one letter of `esl_alphabet_SetCaseInsensitive`: the eslECORRUPT exception is raised exactly when both cases are
    valid input characters that map to different codes -/
theorem caseStep_none_iff (a : Alphabet) (lc : Nat) :
    a.caseStep lc = none ↔ a.cIsValid lc = true ∧ a.cIsValid (toUpper lc) = true ∧ a.inmapAt (toUpper lc) ≠ a.inmapAt lc := by
  unfold caseStep
  simp only []
  cases h1 : a.cIsValid lc <;> cases h2 : a.cIsValid (toUpper lc) <;> simp

theorem caseLoop_status (l : List Nat) (a : Alphabet) : (a.caseLoop l).1 = .ok ∨ (a.caseLoop l).1 = .ecorrupt := by
  induction l generalizing a with
  | nil => exact Or.inl rfl
  | cons lc rest ih =>
    unfold caseLoop
    cases a.caseStep lc with
    | none => exact Or.inr rfl
    | some a' => exact ih a'

end Alphabet
end EaselModel.Alphabet
