/-! # C08 — an independent, hand-written statement of the IUPAC nucleotide and amino-acid codes
(nothing here is derived from esl_alphabet.c; the table theorems in `Props/C08.lean` compare the tables dumped from
the code against these definitions).

Sources: IUPAC-IUB nucleic acid codes (Cornish-Bowden 1985): R = A|G (puRine), Y = C|T (pYrimidine), M = A|C (aMino),
K = G|T (Keto), S = C|G (Strong), W = A|T (Weak), H = not G, B = not A, V = not T, D = not C, N = aNy.
IUPAC amino acid codes: B = D|N (Asx), Z = E|Q (Glx), J = I|L (Xle), X = any; U (selenocysteine) and O (pyrrolysine)
are scored as C and K respectively (Easel's documented convention). -/
namespace EaselModel.Alphabet.Iupac

inductive Kind | dna | rna | amino | coins | dice
  deriving DecidableEq, Repr

/-- the internal symbol order: canonical residues | gap | degeneracies | any | nonresidue | missing -/
def symbols : Kind → List Char
  | .dna   => "ACGT-RYMKSWHBVDN*~".toList
  | .rna   => "ACGU-RYMKSWHBVDN*~".toList
  | .amino => "ACDEFGHIKLMNPQRSTVWY-BJZOUX*~".toList
  | .coins => "HT-X*~".toList
  | .dice  => "123456-X*~".toList

/-- number of canonical residues -/
def K : Kind → Nat
  | .dna => 4 | .rna => 4 | .amino => 20 | .coins => 2 | .dice => 6

def canonical (k : Kind) : List Char := (symbols k).take (K k)

/-- IUPAC nucleotide codes, in DNA letters -/
def nucDenotes : Char → List Char
  | 'A' => ['A'] | 'C' => ['C'] | 'G' => ['G'] | 'T' => ['T']
  | 'R' => ['A', 'G'] | 'Y' => ['C', 'T'] | 'M' => ['A', 'C'] | 'K' => ['G', 'T'] | 'S' => ['C', 'G'] | 'W' => ['A', 'T']
  | 'H' => ['A', 'C', 'T'] | 'B' => ['C', 'G', 'T'] | 'V' => ['A', 'C', 'G'] | 'D' => ['A', 'G', 'T']
  | 'N' => ['A', 'C', 'G', 'T']
  | _ => []

def toRna (c : Char) : Char := if c = 'T' then 'U' else c
def ofRna (c : Char) : Char := if c = 'U' then 'T' else c

/-- IUPAC amino-acid codes -/
def aminoDenotes (c : Char) : List Char :=
  if c = 'B' then ['D', 'N'] else if c = 'J' then ['I', 'L'] else if c = 'Z' then ['E', 'Q']
  else if c = 'U' then ['C'] else if c = 'O' then ['K']
  else if c = 'X' then canonical .amino
  else if c ∈ canonical .amino then [c] else []

/-- the set of canonical residues a symbol of the alphabet stands for (gap, `*`, `~`: none) -/
def denotes : Kind → Char → List Char
  | .dna, c => nucDenotes c
  | .rna, c => (nucDenotes (ofRna c)).map toRna
  | .amino, c => aminoDenotes c
  | .coins, c => if c = 'X' then canonical .coins else if c ∈ canonical .coins then [c] else []
  | .dice, c => if c = 'X' then canonical .dice else if c ∈ canonical .dice then [c] else []

/-- documented input synonyms (read `fst` as `snd`) -/
def synonyms : Kind → List (Char × Char)
  | .dna => [('U', 'T'), ('X', 'N'), ('I', 'A'), ('_', '-'), ('.', '-')]
  | .rna => [('T', 'U'), ('X', 'N'), ('I', 'A'), ('_', '-'), ('.', '-')]
  | _ => [('_', '-'), ('.', '-')]

def upper (c : Char) : Char := if 'a' ≤ c ∧ c ≤ 'z' then Char.ofNat (c.toNat - 32) else c

/-- the canonical (upper-case, synonym-free) spelling an input character is read as; `none`: not in the alphabet -/
def canonOf (k : Kind) (c : Char) : Option Char :=
  let u := upper c
  if u ∈ symbols k then some u
  else ((synonyms k).find? (fun p => p.1 = u)).map (·.2)

/-- Watson-Crick partner of a canonical nucleotide (DNA letters) -/
def wc : Char → Char
  | 'A' => 'T' | 'C' => 'G' | 'G' => 'C' | 'T' => 'A' | c => c

def wcOf : Kind → Char → Char
  | .rna, c => toRna (wc (ofRna c))
  | _, c => wc c

end EaselModel.Alphabet.Iupac
