import EaselModel.Alphabet.SqModel
import EaselModel.Generated.AlphabetsAux
/-! # C08 — the hand-written `switch` of text-mode `esl_sq_ReverseComplement`, regenerated from the code on every run
(the function is called on all 256 one-byte sequences), equals the model's `compChar` -/
namespace EaselModel.Alphabet.Sq
open EaselModel.Generated

/-- the switch as read off the code under check: `none` = the `default:` branch (status eslEINVAL) -/
def compCharG (c : Nat) : Option Nat :=
  match AlphabetsAux.textRevcomp[c]? with
  | some (o, 1) => some o
  | _ => none

/-- all 256 bytes: same case/default decision, same output byte (`'N'` in the default branch) -/
theorem compChar_regenerated :
    AlphabetsAux.textRevcomp.length = 256 ∧
    ∀ c, c < 256 → compChar c = compCharG c ∧ (AlphabetsAux.textRevcomp.getD c (0, 0)).1 = (compChar c).getD 78 := by
  decide +kernel

end EaselModel.Alphabet.Sq
