import EaselModel.Alphabet.ScoreLemmas
/-! # C08 — the `*ScVec` wrappers fill exactly the degenerate slots `K+1 … Kp-3`, each with the score computed from the
canonical scores `sc[0..K-1]` (which the loop never overwrites) -/
set_option linter.dupNamespace false
namespace EaselModel.Alphabet
namespace Alphabet

theorem scVecLoop_spec (Kp K : Nat) (sc : List ℚ) (f : Nat → List ℚ → Option ℚ) (g : Nat → ℚ)
    (hf : ∀ x cur, K < x → x + 3 ≤ Kp → cur.length = Kp → (∀ i, i ≤ K → cur.getD i 0 = sc.getD i 0) → f x cur = some (g x)) :
    ∀ (k x : Nat) (cur : List ℚ), x + k + 2 = Kp → K < x → cur.length = Kp →
      (∀ i, i ≤ K → cur.getD i 0 = sc.getD i 0) →
      ∃ r, scVecLoop f k x cur = some r ∧ r.length = Kp ∧
        ∀ i, r.getD i 0 = if x ≤ i ∧ i < x + k then g i else cur.getD i 0 := by
  intro k
  induction k with
  | zero =>
    intro x cur _ _ hl _
    exact ⟨cur, rfl, hl, fun i => by rw [if_neg (by omega)]⟩
  | succ k ih =>
    intro x cur hk hx hl hag
    have hfx := hf x cur hx (by omega) hl hag
    have hlt : x < cur.length := by omega
    obtain ⟨r, h1, h2, h3⟩ := ih (x + 1) (cur.set x (g x)) (by omega) (by omega) (by simpa using hl)
      (fun i hi => by rw [getD_setQ _ _ _ _ hlt, if_neg (by omega)]; exact hag i hi)
    refine ⟨r, ?_, h2, fun i => ?_⟩
    · simp only [scVecLoop, hfx, Option.bind_eq_bind, Option.bind_some, hlt, if_true]
      exact h1
    · rw [h3, getD_setQ _ _ _ _ hlt]
      by_cases e : i = x
      · subst e; rw [if_neg (by omega), if_pos rfl, if_pos (by omega)]
      · rw [if_neg e]
        by_cases c : x + 1 ≤ i ∧ i < x + 1 + k
        · rw [if_pos c, if_pos (by omega)]
        · rw [if_neg c, if_neg (by omega)]

theorem degenSet_lt (a : Alphabet) (x i : Nat) (h : i ∈ a.degenSet x) : i < a.K := by
  unfold degenSet at h
  exact List.mem_range.mp (List.mem_filter.mp h).1

/-- `esl_abc_{F,D}AvgScVec(a, sc)` on a `Kp`-long vector: every degenerate slot `K < x ≤ Kp-3` receives the mean of the
    canonical scores over the set of `x`; the canonical scores, the gap, nonresidue and missing slots are untouched -/
theorem avgScVec_spec (a : Alphabet) (h : a.WFDegen) (hK : a.K + 4 ≤ a.Kp) (sc : List ℚ) (hl : sc.length = a.Kp) :
    ∃ r, a.avgScVec sc = some r ∧ r.length = a.Kp ∧
      ∀ x, r.getD x 0 = if a.K < x ∧ x + 3 ≤ a.Kp
        then ((a.degenSet x).map fun i => sc.getD i 0).sum / ((a.degenSet x).length : ℚ) else sc.getD x 0 := by
  have hf : ∀ x cur, a.K < x → x + 3 ≤ a.Kp → cur.length = a.Kp → (∀ i, i ≤ a.K → cur.getD i 0 = sc.getD i 0) →
      a.avgScore x cur = some (((a.degenSet x).map fun i => sc.getD i 0).sum / ((a.degenSet x).length : ℚ)) := by
    intro x cur hx hx3 hcl hag
    have hres : a.xIsResidue x = true := by
      simp only [xIsResidue, Bool.or_eq_true, Bool.and_eq_true, decide_eq_true_eq]; right; omega
    rw [avgScore_mean a h x (by omega) hres cur (by omega)]
    congr 3
    apply List.map_congr_left
    intro i hi
    exact hag i (by have := degenSet_lt a x i hi; omega)
  obtain ⟨r, h1, h2, h3⟩ := scVecLoop_spec a.Kp a.K sc (fun x cur => a.avgScore x cur) _ hf
    (a.Kp - 3 - a.K) (a.K + 1) sc (by omega) (by omega) hl (fun _ _ => rfl)
  refine ⟨r, h1, h2, fun x => ?_⟩
  rw [h3]
  by_cases c : a.K < x ∧ x + 3 ≤ a.Kp
  · rw [if_pos c, if_pos (by omega)]
  · rw [if_neg c, if_neg (by omega)]

/-- `esl_abc_{F,D}ExpectScVec(a, sc, p)` on a `Kp`-long vector: every degenerate slot `K < x ≤ Kp-3` receives the `p`-weighted
    mean of the canonical scores over the set of `x`; the other slots are untouched; no out-of-bounds access -/
theorem expectScVec_spec (a : Alphabet) (h : a.WFDegen) (hK : a.K + 4 ≤ a.Kp) (sc p : List ℚ) (hl : sc.length = a.Kp)
    (hp : a.K ≤ p.length) :
    ∃ r, a.expectScVec sc p = some r ∧ r.length = a.Kp ∧
      ∀ x, r.getD x 0 = if a.K < x ∧ x + 3 ≤ a.Kp
        then ((a.degenSet x).map fun i => sc.getD i 0 * p.getD i 0).sum / ((a.degenSet x).map fun i => p.getD i 0).sum
        else sc.getD x 0 := by
  have hf : ∀ x cur, a.K < x → x + 3 ≤ a.Kp → cur.length = a.Kp → (∀ i, i ≤ a.K → cur.getD i 0 = sc.getD i 0) →
      a.expectScore x cur p = some (((a.degenSet x).map fun i => sc.getD i 0 * p.getD i 0).sum /
        ((a.degenSet x).map fun i => p.getD i 0).sum) := by
    intro x cur hx hx3 hcl hag
    have hres : a.xIsResidue x = true := by
      simp only [xIsResidue, Bool.or_eq_true, Bool.and_eq_true, decide_eq_true_eq]; right; omega
    rw [expectScore_weighted a h x (by omega) hres cur p (by omega) hp]
    congr 3
    apply List.map_congr_left
    intro i hi
    rw [hag i (by have := degenSet_lt a x i hi; omega)]
  obtain ⟨r, h1, h2, h3⟩ := scVecLoop_spec a.Kp a.K sc (fun x cur => a.expectScore x cur p) _ hf
    (a.Kp - 3 - a.K) (a.K + 1) sc (by omega) (by omega) hl (fun _ _ => rfl)
  refine ⟨r, h1, h2, fun x => ?_⟩
  rw [h3]
  by_cases c : a.K < x ∧ x + 3 ≤ a.Kp
  · rw [if_pos c, if_pos (by omega)]
  · rw [if_neg c, if_neg (by omega)]

end Alphabet
end EaselModel.Alphabet
