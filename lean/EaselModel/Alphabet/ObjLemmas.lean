import EaselModel.Alphabet.ObjModel
import EaselModel.Alphabet.Sq2Lemmas
import EaselModel.Alphabet.ValidateLemmas
import EaselModel.Alphabet.SqLemmas
import EaselModel.Alphabet.Round4Lemmas
/-! # C08 (round 6) — `esl_sq_Grow` / `esl_sq_GrowTo` cover what the caller will write; the mode-changing operations on an
`ESL_SQ` with markup never touch a markup buffer outside its allocation, keep the markup aligned with the residues, and
`esl_sq_ReverseComplement` drops it -/
set_option linter.dupNamespace false
namespace EaselModel.Alphabet.Sq
open EaselModel.Alphabet EaselModel.Alphabet.Alphabet

/-! ## the doubling loop of `esl_sq_Grow`, in general (any shortfall, not only "one cell short") -/

theorem growLoop_diff : ∀ (f : Nat) (nsafe new : Int), (growLoop f nsafe new).1 - (growLoop f nsafe new).2 = nsafe - new := by
  intro f
  induction f with
  | zero => intro nsafe new; rfl
  | succ f ih =>
    intro nsafe new
    unfold growLoop
    simp only []
    by_cases c : nsafe + new < 1
    · rw [if_pos c, ih]; omega
    · rw [if_neg c]; simp only []; omega

theorem growLoop_ge : ∀ (f : Nat) (nsafe new : Int), 0 ≤ new → new ≤ (growLoop f nsafe new).2 := by
  intro f
  induction f with
  | zero => intro nsafe new _; exact Int.le_refl _
  | succ f ih =>
    intro nsafe new h
    unfold growLoop
    simp only []
    by_cases c : nsafe + new < 1
    · rw [if_pos c]; have := ih (nsafe + new) (new * 2) (by omega); omega
    · rw [if_neg c]; simp only []; omega

/-- the new size is the old one doubled `k ≥ 1` times -/
theorem growLoop_pow : ∀ (f : Nat) (nsafe new : Int), f ≠ 0 → ∃ k, 1 ≤ k ∧ (growLoop f nsafe new).2 = new * 2 ^ k := by
  intro f
  induction f with
  | zero => intro _ _ h; exact absurd rfl h
  | succ f ih =>
    intro nsafe new _
    unfold growLoop
    simp only []
    by_cases c : nsafe + new < 1
    · rw [if_pos c]
      by_cases hf : f = 0
      · subst hf; exact ⟨1, Nat.le_refl _, by simp [growLoop]⟩
      · obtain ⟨k, hk, e⟩ := ih (nsafe + new) (new * 2) hf
        exact ⟨k + 1, by omega, by rw [e, pow_succ]; ring⟩
    · rw [if_neg c]; exact ⟨1, Nat.le_refl _, by simp⟩

theorem growLoop_term : ∀ (f : Nat) (nsafe new : Int), 1 ≤ nsafe + new * ((2 : Int) ^ f - 1) → 1 ≤ (growLoop f nsafe new).1 := by
  intro f
  induction f with
  | zero => intro nsafe new h; simpa [growLoop] using h
  | succ f ih =>
    intro nsafe new h
    unfold growLoop
    simp only []
    by_cases c : nsafe + new < 1
    · rw [if_pos c]
      apply ih
      have e : new * ((2 : Int) ^ (f + 1) - 1) = new + new * 2 * ((2 : Int) ^ f - 1) := by rw [pow_succ]; ring
      rw [e] at h; omega
    · rw [if_neg c]; simp only []; omega

/-- **`esl_sq_Grow(sq, &nsafe)`** for ANY `n` (the "keep doubling" loop included; `n+2 ≤ 2^64` as `n` is an `int64_t`) and any
    allocation `salloc ≥ 1`: the answer `nsafe ≥ 1`, the new allocation is exactly `n + nsafe` cells in text mode and
    `n + 1 + nsafe` in digital mode — so the `nsafe` cells the caller may write next (`seq[n .. n+nsafe-1]` / `dsq[n+1 .. n+nsafe]`,
    the NUL / sentinel counted as a residue) are inside it —, it never shrinks, it is the old size doubled `k` times, and it is
    the old size when there already was room -/
theorem sqGrowN_spec (digital : Bool) (salloc n : Nat) (h1 : 1 ≤ salloc) (hn : n + 2 ≤ 2 ^ 64) :
    1 ≤ (sqGrowN digital salloc n).1 ∧
    ((sqGrowN digital salloc n).2 : Int) = n + (if digital then 1 else 0) + (sqGrowN digital salloc n).1 ∧
    salloc ≤ (sqGrowN digital salloc n).2 ∧
    (∃ k, (sqGrowN digital salloc n).2 = salloc * 2 ^ k) ∧
    (n + (if digital then 2 else 1) ≤ salloc → (sqGrowN digital salloc n).2 = salloc) := by
  have key : ∀ nsafe : Int, nsafe < 1 → (-(n : Int) - 1 ≤ nsafe - salloc) →
      1 ≤ (growLoop 64 nsafe salloc).1 ∧ (growLoop 64 nsafe salloc).1 - (growLoop 64 nsafe salloc).2 = nsafe - salloc ∧
      (salloc : Int) ≤ (growLoop 64 nsafe salloc).2 ∧ ∃ k, (growLoop 64 nsafe salloc).2 = (salloc : Int) * 2 ^ k := by
    intro nsafe _ hlo
    refine ⟨growLoop_term 64 nsafe salloc ?_, growLoop_diff 64 nsafe salloc, growLoop_ge 64 nsafe salloc (by omega), ?_⟩
    · have hp : (2 : Int) ^ 64 = 18446744073709551616 := by norm_num
      have hn' : (n : Int) + 2 ≤ 18446744073709551616 := by
        have : ((n + 2 : Nat) : Int) ≤ ((2 ^ 64 : Nat) : Int) := Int.ofNat_le.mpr hn
        simpa using this
      rw [hp]
      have hs : (1 : Int) ≤ salloc := by omega
      nlinarith
    · obtain ⟨k, _, e⟩ := growLoop_pow 64 nsafe salloc (by decide); exact ⟨k, e⟩
  unfold sqGrowN
  cases digital
  · simp only [Bool.false_eq_true, if_false]
    by_cases c : (salloc : Int) - n < 1
    · rw [if_pos c]
      obtain ⟨k1, k2, k3, k, k4⟩ := key ((salloc : Int) - n) c (by omega)
      simp only []
      refine ⟨k1, by omega, by omega, ⟨k, ?_⟩, fun h => by omega⟩
      have : ((growLoop 64 ((salloc : Int) - n) salloc).2.toNat : Int) = ((salloc * 2 ^ k : Nat) : Int) := by
        rw [Int.toNat_of_nonneg (by omega), k4]; push_cast; rfl
      exact Int.ofNat_inj.mp this
    · rw [if_neg c]; simp only []
      exact ⟨by omega, by omega, Nat.le_refl _, ⟨0, by simp⟩, by simp⟩
  · simp only [if_true]
    by_cases c : (salloc : Int) - 1 - n < 1
    · rw [if_pos c]
      obtain ⟨k1, k2, k3, k, k4⟩ := key ((salloc : Int) - 1 - n) c (by omega)
      simp only []
      refine ⟨k1, by omega, by omega, ⟨k, ?_⟩, fun h => by omega⟩
      have : ((growLoop 64 ((salloc : Int) - 1 - n) salloc).2.toNat : Int) = ((salloc * 2 ^ k : Nat) : Int) := by
        rw [Int.toNat_of_nonneg (by omega), k4]; push_cast; rfl
      exact Int.ofNat_inj.mp this
    · rw [if_neg c]; simp only []
      exact ⟨by omega, by omega, Nat.le_refl _, ⟨0, by simp⟩, by simp⟩

/-- `sqGrowN` is `sqGrow` (the size used by `esl_sq_{C,X}AddResidue`) together with `*opt_nsafe` -/
theorem sqGrowN_snd (digital : Bool) (salloc n : Nat) : (sqGrowN digital salloc n).2 = sqGrow digital salloc n := by
  unfold sqGrowN sqGrow
  cases digital <;> simp only [Bool.false_eq_true, if_false, if_true] <;> split <;> rfl

/-- **`esl_sq_GrowTo(sq, n)`**: afterwards the allocation holds `n` residues plus the NUL (text) / both sentinels (digital);
    it never shrinks; it is either unchanged or exactly that size -/
theorem sqGrowTo_spec (digital : Bool) (salloc n : Nat) :
    n + (if digital then 2 else 1) ≤ sqGrowTo digital salloc n ∧ salloc ≤ sqGrowTo digital salloc n ∧
    (sqGrowTo digital salloc n = salloc ∨ sqGrowTo digital salloc n = n + (if digital then 2 else 1)) := by
  unfold sqGrowTo
  cases digital <;> simp only [Bool.false_eq_true, if_false, if_true] <;> split <;> omega

/-! ## the object invariant and the mode-changing operations -/

namespace SqObj

/-- what every constructor establishes: room for the residues and their terminator(s), markup buffers of `salloc` cells,
    markup strings as long as the sequence -/
structure Inv (o : SqObj) : Prop where
  room : o.n + (if o.digital then 2 else 1) ≤ o.salloc
  cap : o.mcap = o.salloc
  ss : ∀ s ∈ o.ss, s.length = o.n
  xr : ∀ s ∈ o.xr, s.length = o.n

theorem body_mkDsq (l : List Nat) : body (mkDsq l) = l := by
  unfold body mkDsq
  simp

theorem mkObj_inv (digital : Bool) (res : List Nat) (ss : Option (List Nat)) (xr : List (List Nat))
    (hss : ∀ s ∈ ss, s.length = res.length) (hxr : ∀ s ∈ xr, s.length = res.length) (o : SqObj)
    (h : mkObj digital false res ss xr = some o) : o.Inv := by
  unfold mkObj at h
  simp only [Bool.false_eq_true, if_false, Option.some.injEq] at h
  subst h
  cases digital <;> exact ⟨by simp [n], rfl, hss, hxr⟩

theorem grow_inv (o : SqObj) (h : o.Inv) (hn : o.n + 2 ≤ 2 ^ 64) :
    o.grow.2.Inv ∧ 1 ≤ o.grow.1 ∧ (o.grow.2.salloc : Int) = o.n + (if o.digital then 1 else 0) + o.grow.1 ∧
    o.grow.2 = { o with salloc := o.grow.2.salloc, mcap := o.grow.2.salloc } := by
  have h1 : 1 ≤ o.salloc := by have := h.room; split at this <;> omega
  obtain ⟨s1, s2, s3, _, _⟩ := sqGrowN_spec o.digital o.salloc o.n h1 hn
  have hc := h.cap
  refine ⟨⟨?_, ?_, h.ss, h.xr⟩, s1, s2, ?_⟩
  · show o.n + (if o.digital then 2 else 1) ≤ (sqGrowN o.digital o.salloc o.n).2
    have := h.room; omega
  · show (if (sqGrowN o.digital o.salloc o.n).2 ≠ o.salloc then (sqGrowN o.digital o.salloc o.n).2 else o.mcap) = _
    split
    · rfl
    · rename_i e; simp only [ne_eq, Decidable.not_not] at e; rw [hc]; exact e.symm
  · show ({ o with salloc := _, mcap := _ } : SqObj) = _
    congr 1
    show (if (sqGrowN o.digital o.salloc o.n).2 ≠ o.salloc then (sqGrowN o.digital o.salloc o.n).2 else o.mcap) = _
    split
    · rfl
    · rename_i e; simp only [ne_eq, Decidable.not_not] at e; rw [hc]; exact e.symm

theorem growTo_inv (o : SqObj) (h : o.Inv) (k : Nat) :
    (o.growTo k).Inv ∧ k + (if o.digital then 2 else 1) ≤ (o.growTo k).salloc ∧
    o.growTo k = { o with salloc := (o.growTo k).salloc, mcap := (o.growTo k).salloc } := by
  obtain ⟨s1, s2, _⟩ := sqGrowTo_spec o.digital o.salloc k
  have hc := h.cap
  have hm : (o.growTo k).mcap = (o.growTo k).salloc := by
    show (if sqGrowTo o.digital o.salloc k ≠ o.salloc then sqGrowTo o.digital o.salloc k else o.mcap) = sqGrowTo o.digital o.salloc k
    split
    · rfl
    · rename_i e; simp only [ne_eq, Decidable.not_not] at e; rw [hc, e]
  refine ⟨⟨?_, hm, h.ss, h.xr⟩, s1, ?_⟩
  · show o.n + (if o.digital then 2 else 1) ≤ sqGrowTo o.digital o.salloc k
    have := h.room; omega
  · show ({ o with salloc := _, mcap := _ } : SqObj) = _
    congr 1

theorem grow_fields (o : SqObj) (hc : o.mcap = o.salloc) :
    o.grow.2.salloc = (sqGrowN o.digital o.salloc o.n).2 ∧ o.grow.2.mcap = (sqGrowN o.digital o.salloc o.n).2 ∧
    o.grow.2.res = o.res ∧ o.grow.2.ss = o.ss ∧ o.grow.2.xr = o.xr ∧ o.grow.2.digital = o.digital ∧
    o.grow.2.start = o.start ∧ o.grow.2.stop = o.stop ∧ o.grow.1 = (sqGrowN o.digital o.salloc o.n).1 := by
  refine ⟨rfl, ?_, rfl, rfl, rfl, rfl, rfl, rfl, rfl⟩
  show (if (sqGrowN o.digital o.salloc o.n).2 ≠ o.salloc then (sqGrowN o.digital o.salloc o.n).2 else o.mcap) = _
  split
  · rfl
  · rename_i e; simp only [ne_eq, Decidable.not_not] at e; rw [hc]; exact e.symm

/-- **appending a residue the way the sequence readers do** (Grow, store the residue and one character in EVERY markup buffer,
    `n++`, Grow, terminate): both stores and both terminators are inside the allocations, the object invariant is kept, and
    exactly one residue / one markup character was appended -/
theorem append_spec (o : SqObj) (h : o.Inv) (hn : o.n + 3 ≤ 2 ^ 64) (r m : Nat) :
    ∃ ns o', append o r m = some (ns, o') ∧ o'.Inv ∧ o'.res = o.res ++ [r] ∧ o'.ss = o.ss.map (· ++ [m]) ∧
      o'.xr = o.xr.map (· ++ [m]) ∧ o'.digital = o.digital ∧ o.salloc ≤ o'.salloc := by
  have h1 : 1 ≤ o.salloc := by have := h.room; split at this <;> omega
  obtain ⟨a1, a2, a3, _, _⟩ := sqGrowN_spec o.digital o.salloc o.n h1 (by omega)
  obtain ⟨f1, f2, f3, f4, f5, f6, f7, f8, f9⟩ := grow_fields o h.cap
  -- the object after the store
  let o2 : SqObj := { o.grow.2 with res := o.grow.2.res ++ [r], ss := o.grow.2.ss.map (· ++ [m]), xr := o.grow.2.xr.map (· ++ [m]) }
  have hc2 : o2.mcap = o2.salloc := by show o.grow.2.mcap = o.grow.2.salloc; rw [f1, f2]
  have hn2 : o2.n = o.n + 1 := by show (o.grow.2.res ++ [r]).length = _; rw [f3]; simp [n]
  have hd2 : o2.digital = o.digital := f6
  have hs2 : o2.salloc = (sqGrowN o.digital o.salloc o.n).2 := f1
  obtain ⟨b1, b2, b3, _, _⟩ := sqGrowN_spec o.digital o2.salloc o2.n (by rw [hs2]; omega) (by rw [hn2]; omega)
  obtain ⟨g1, g2, g3, g4, g5, g6, g7, g8, g9⟩ := grow_fields o2 hc2
  have g1' : o2.grow.2.salloc = (sqGrowN o.digital o2.salloc o2.n).2 := g1
  have hcell : ¬ ((if o.digital then o.n + 1 else o.n) ≥ o.grow.2.salloc) := by
    rw [f1]; intro hge
    cases hdig : o.digital <;> simp only [hdig, if_true, Bool.false_eq_true, if_false] at hge a1 a2 a3 <;> omega
  have hterm : ¬ ((if o.digital then o2.n + 1 else o2.n) ≥ o2.grow.2.salloc) := by
    rw [g1']; intro hge
    cases hdig : o.digital <;> simp only [hdig, if_true, Bool.false_eq_true, if_false] at hge b1 b2 b3 <;> omega
  refine ⟨o.grow.1 + o2.grow.1, o2.grow.2, ?_, ⟨?_, ?_, ?_, ?_⟩, ?_, ?_, ?_, ?_, ?_⟩
  · unfold append
    simp only []
    have e1 : (decide ((if o.digital = true then o.n + 1 else o.n) ≥ o.grow.2.salloc) ||
        (o.hasMarkup && decide ((if o.digital = true then o.n + 1 else o.n) ≥ o.grow.2.mcap))) = false := by
      rw [f2, ← f1]; simp [hcell]
    rw [if_neg (by rw [e1]; simp)]
    have e2 : (decide ((if o.digital = true then o2.n + 1 else o2.n) ≥ o2.grow.2.salloc) ||
        (o.hasMarkup && decide ((if o.digital = true then o2.n + 1 else o2.n) ≥ o2.grow.2.mcap))) = false := by
      rw [g2, ← g1]; simp [hterm]
    rw [if_neg (by rw [e2]; simp)]
  · -- room
    show o2.grow.2.res.length + (if o2.grow.2.digital = true then 2 else 1) ≤ o2.grow.2.salloc
    rw [g3, g6, g1']
    have hn2' : o2.res.length = o2.n := rfl
    rw [hn2']
    have hd2' : o2.digital = o.digital := rfl
    rw [hd2']
    cases hdig : o.digital <;> simp only [hdig, if_true, Bool.false_eq_true, if_false] at b1 b2 b3 ⊢ <;> omega
  · rw [g2, g1]
  · intro s hs
    rw [g4] at hs
    show s.length = o2.grow.2.res.length
    rw [g3]
    have hs' : s ∈ o.grow.2.ss.map (· ++ [m]) := hs
    rw [f4] at hs'
    obtain ⟨s0, hs0, rfl⟩ := Option.mem_map.mp hs'
    have := h.ss s0 hs0
    show (s0 ++ [m]).length = (o.grow.2.res ++ [r]).length
    rw [f3]; simp [this, n]
  · intro s hs
    rw [g5] at hs
    show s.length = o2.grow.2.res.length
    rw [g3]
    have hs' : s ∈ o.grow.2.xr.map (· ++ [m]) := hs
    rw [f5] at hs'
    obtain ⟨s0, hs0, rfl⟩ := List.mem_map.mp hs'
    have := h.xr s0 hs0
    show (s0 ++ [m]).length = (o.grow.2.res ++ [r]).length
    rw [f3]; simp [this, n]
  · rw [g3]; show o.grow.2.res ++ [r] = _; rw [f3]
  · rw [g4]; show o.grow.2.ss.map (· ++ [m]) = _; rw [f4]
  · rw [g5]; show o.grow.2.xr.map (· ++ [m]) = _; rw [f5]
  · rw [g6]; exact hd2
  · rw [g1']; have : o2.salloc ≤ (sqGrowN o.digital o2.salloc o2.n).2 := b3
    rw [hs2] at this; omega

/-- the allocation after `esl_sq_Digitize`: raised to `n+2` when it was smaller -/
def dsz (o : SqObj) : Nat := if o.salloc < o.n + 2 then o.n + 2 else o.salloc

/-- the object `esl_sq_Digitize` leaves on valid text -/
def digitized (a : Alphabet) (o : SqObj) : SqObj :=
  { o with digital := true, res := o.res.map a.inmapAt, salloc := o.dsz, mcap := o.dsz }

/-- **`esl_sq_Digitize` on an object with markup**: a digital object is left alone; text with a character outside the alphabet:
    eslEINVAL, object untouched; valid text: eslOK, one code per character, `salloc` raised to `n+2` when it was one short
    (`esl_sq_CreateFrom` allocates `n+1`), the markup strings, `start`, `end` unchanged — and the `memmove` that shifts every
    markup buffer by one cell stays inside its (re)allocation (`≠ none`) -/
theorem digitize_spec (a : Alphabet) (o : SqObj) (h : o.Inv) :
    (o.digital = true → digitize a o = some (.ok, o)) ∧
    (o.digital = false → o.res.all a.cIsValid = false → digitize a o = some (.einval, o)) ∧
    (o.digital = false → o.res.all a.cIsValid = true →
      digitize a o = some (.ok, o.digitized a) ∧ (o.digitized a).Inv) := by
  refine ⟨fun hd => by unfold digitize; rw [if_pos hd], fun hd hv => ?_, fun hd hv => ?_⟩
  · unfold digitize validateSeq
    rw [if_neg (by simp [hd]), hv]; simp
  · have hsq := sqDigitize_spec a o.res
    unfold Sq.sqDigitize at hsq
    rw [hv] at hsq
    simp only [if_true] at hsq
    have hval : validateSeq a o.res = .ok := by unfold validateSeq; rw [hv]; rfl
    rw [hval] at hsq
    simp only [ne_eq, not_true_eq_false, if_false] at hsq
    have hdig : a.digitize o.res = (.ok, mkDsq (o.res.map a.inmapAt)) := by
      rcases hd' : a.digitize o.res with ⟨st, d⟩
      rw [hd'] at hsq
      simp only [] at hsq
      by_cases e : st = .ok
      · subst e; simp only [ne_eq, not_true_eq_false, if_false] at hsq
        cases hsq; rfl
      · rw [if_pos e] at hsq; cases hsq
    constructor
    · unfold digitize
      rw [if_neg (by simp [hd]), hval]
      simp only [ne_eq, not_true_eq_false, if_false, hdig, body_mkDsq]
      have hcap := h.cap
      by_cases c : o.salloc < o.n + 2
      · simp only [c, if_true]
        rw [if_neg (by simp)]
        unfold digitized dsz; rw [if_pos c]
      · simp only [c, if_false]
        rw [if_neg (by simp; intro _; omega)]
        unfold digitized dsz; rw [if_neg c, hcap]
    · refine ⟨?_, rfl, ?_, ?_⟩
      · show (o.res.map a.inmapAt).length + (if true = true then 2 else 1) ≤ o.dsz
        simp only [List.length_map, if_true]; unfold dsz n; split <;> omega
      · intro s hs; have := h.ss s hs; simpa [n, digitized] using this
      · intro s hs; have := h.xr s hs; simpa [n, digitized] using this

/-- **`esl_sq_Textize` on an object with markup**: valid codes are spelled, allocation, markup strings, `start`, `end`
    unchanged; the `memmove` shifting the markup back reads inside the allocation -/
theorem textize_spec (a : Alphabet) (o : SqObj) (h : o.Inv) (hd : o.digital = true) (hv : ∀ x ∈ o.res, x < a.sym.length) :
    textize a o = some (.ok, { o with digital := false, res := o.res.map a.symAt }) ∧
    ({ o with digital := false, res := o.res.map a.symAt } : SqObj).Inv := by
  have hroom := h.room
  rw [hd] at hroom; simp only [if_true] at hroom
  constructor
  · unfold textize
    rw [hd]
    simp only [Bool.not_true, Bool.false_eq_true, if_false]
    rw [if_neg (by omega)]
    have := textize_mkDsq a o.res hv
    unfold n
    rw [this]
    simp only []
    rw [if_neg (by simp; intro _; have := h.cap; unfold n at hroom; omega)]
  · refine ⟨?_, h.cap, ?_, ?_⟩
    · show (o.res.map a.symAt).length + (if false = true then 2 else 1) ≤ o.salloc
      simp only [List.length_map, Bool.false_eq_true, if_false]; unfold n at hroom; omega
    · intro s hs; have := h.ss s hs; simpa [n] using this
    · intro s hs; have := h.xr s hs; simpa [n] using this

/-- **`esl_sq_ReverseComplement` and the markup**: in text mode (always) and in digital mode with a complement table the
    sequence becomes the reverse complement of the same length, `ss` is set to NULL, ALL extra residue markup is dropped
    (`nxr = 0`, repaired in c71354f), `start` and `end` are swapped, the allocation is unchanged; a digital alphabet without
    complement answers eslEINCOMPAT and the object — markup included — is untouched -/
theorem revcomp_markup (a : Alphabet) (o : SqObj) (h : o.Inv) :
    (o.digital = false → ∃ st, (st = .ok ∨ st = .einval) ∧
      revcomp a o = some (st, { o with res := (revcompText o.res).2, ss := none, xr := [], start := o.stop, stop := o.start }) ∧
      (revcompText o.res).2.length = o.n ∧
      ({ o with res := (revcompText o.res).2, ss := none, xr := [], start := o.stop, stop := o.start } : SqObj).Inv) ∧
    (o.digital = true → a.complement = none → revcomp a o = some (.eincompat, o)) ∧
    (o.digital = true → ∀ comp, a.complement = some comp → (∀ x ∈ o.res, x < comp.length) →
      revcomp a o = some (.ok, { o with res := o.res.reverse.map (compAt comp), ss := none, xr := [], start := o.stop, stop := o.start }) ∧
      ({ o with res := o.res.reverse.map (compAt comp), ss := none, xr := [], start := o.stop, stop := o.start } : SqObj).Inv) := by
  refine ⟨fun hd => ?_, fun hd hc => ?_, fun hd comp hc hv => ?_⟩
  · have hlen : (revcompText o.res).2.length = o.n := by unfold revcompText n; simp
    refine ⟨(revcompText o.res).1, ?_, ?_, hlen, ⟨?_, h.cap, fun s hs => (by cases hs), fun s hs => (by cases hs)⟩⟩
    · unfold revcompText; simp only []; split <;> simp
    · unfold revcomp; rw [hd]; rfl
    · show (revcompText o.res).2.length + (if o.digital = true then 2 else 1) ≤ o.salloc
      rw [hlen]; exact h.room
  · unfold revcomp Alphabet.revcomp
    rw [hd, hc]; rfl
  · have hr : a.revcomp (mkDsq o.res) o.res.length = .ok (some (mkDsq (o.res.reverse.map (compAt comp)))) := by
      rw [revcomp_eq_spec a comp hc (mkDsq o.res) o.res.length
        (by simp only [mkDsq, List.length_cons, List.length_append, List.length_nil]; omega) (mkDsq_valid o.res _ hv),
        revcompSpec_mkDsq]
    constructor
    · unfold revcomp n
      rw [hd]
      simp only [Bool.not_true, Bool.false_eq_true, if_false, hr, body_mkDsq]
    · refine ⟨?_, h.cap, fun s hs => (by cases hs), fun s hs => (by cases hs)⟩
      show (o.res.reverse.map (compAt comp)).length + (if o.digital = true then 2 else 1) ≤ o.salloc
      have := h.room; unfold n at this; simpa using this

/-- **`esl_sq_Copy` into a fresh object, all four mode combinations, markup included** (the text → digital branch copies the
    extra residue markup whether or not there is an `ss` line since fix cdfb777): an eslOK copy holds the converted residues,
    the SAME `ss` and `xr` strings, `start`, `end`, an allocation of `max(256, n+1 | n+2)` cells for the sequence and for every
    markup buffer — every `strcpy` fits —, and satisfies the object invariant; text → digital of text with a character outside
    the alphabet answers eslEINVAL and leaves the emptied destination of `esl_sq_Reuse` -/
theorem copyTo_spec (a : Alphabet) (o : SqObj) (h : o.Inv) (toDigital : Bool) :
    let salloc := sqGrowTo toDigital eslSQ_SEQCHUNK o.n
    (o.digital = false → toDigital = false →
      copyTo a o toDigital = some (.ok, { o with salloc := salloc, mcap := salloc })) ∧
    (o.digital = true → toDigital = true →
      copyTo a o toDigital = some (.ok, { o with salloc := salloc, mcap := salloc })) ∧
    (o.digital = false → toDigital = true → o.res.all a.cIsValid = true →
      copyTo a o toDigital = some (.ok, { o with digital := true, res := o.res.map a.inmapAt, salloc := salloc, mcap := salloc })) ∧
    (o.digital = false → toDigital = true → o.res.all a.cIsValid = false →
      copyTo a o toDigital = some (.einval, reusedDst true salloc o.ss.isSome)) ∧
    (o.digital = true → toDigital = false → (∀ x ∈ o.res, x < a.sym.length) →
      copyTo a o toDigital = some (.ok, { o with digital := false, res := o.res.map a.symAt, salloc := salloc, mcap := salloc })) ∧
    (∀ o', (o.digital = true → toDigital = false → ∀ x ∈ o.res, x < a.sym.length) →
      copyTo a o toDigital = some (.ok, o') → o'.Inv ∧ o'.ss = o.ss ∧ o'.xr = o.xr ∧ o'.n = o.n ∧
      o'.start = o.start ∧ o'.stop = o.stop ∧ o'.digital = toDigital) := by
  intro salloc
  obtain ⟨g1, g2, _⟩ := sqGrowTo_spec toDigital eslSQ_SEQCHUNK o.n
  have hpre : (o.hasMarkup && decide (salloc < if toDigital then o.n + 2 else o.n + 1)) = false := by
    have : ¬ salloc < (if toDigital then o.n + 2 else o.n + 1) := by
      show ¬ sqGrowTo toDigital eslSQ_SEQCHUNK o.n < _
      cases toDigital
      · simp only [Bool.false_eq_true, if_false] at g1 ⊢; omega
      · simp only [if_true] at g1 ⊢; omega
    rw [decide_eq_false this, Bool.and_false]
  have hvs : ∀ v, o.res.all a.cIsValid = v → validateSeq a o.res = if v then .ok else .einval := by
    intro v hv; unfold validateSeq; rw [hv]
  have hdig : o.res.all a.cIsValid = true → a.digitize o.res = (.ok, mkDsq (o.res.map a.inmapAt)) := by
    intro hv
    have hsq := sqDigitize_spec a o.res
    unfold Sq.sqDigitize at hsq
    rw [hv, hvs true hv] at hsq
    simp only [if_true, ne_eq, not_true_eq_false, if_false] at hsq
    rcases hd' : a.digitize o.res with ⟨st, d⟩
    rw [hd'] at hsq
    simp only [] at hsq
    by_cases e : st = .ok
    · subst e; simp only [ne_eq, not_true_eq_false, if_false] at hsq; cases hsq; rfl
    · rw [if_pos e] at hsq; cases hsq
  have c1 : o.digital = false → toDigital = false → copyTo a o toDigital = some (.ok, { o with salloc := salloc, mcap := salloc }) := by
    intro hd ht; subst ht
    unfold copyTo; simp only []; rw [if_neg (by simpa using hpre), hd]
  have c2 : o.digital = true → toDigital = true → copyTo a o toDigital = some (.ok, { o with salloc := salloc, mcap := salloc }) := by
    intro hd ht; subst ht
    unfold copyTo; simp only []; rw [if_neg (by simpa using hpre), hd]
  have c3 : o.digital = false → toDigital = true → o.res.all a.cIsValid = true →
      copyTo a o toDigital = some (.ok, { o with digital := true, res := o.res.map a.inmapAt, salloc := salloc, mcap := salloc }) := by
    intro hd ht hv; subst ht
    unfold copyTo; simp only []; rw [if_neg (by simpa using hpre), hd]
    simp only [hvs true hv, if_true, ne_eq, not_true_eq_false, if_false, hdig hv, body_mkDsq]
    rfl
  have c4 : o.digital = false → toDigital = true → o.res.all a.cIsValid = false →
      copyTo a o toDigital = some (.einval, reusedDst true salloc o.ss.isSome) := by
    intro hd ht hv; subst ht
    unfold copyTo; simp only []; rw [if_neg (by simpa using hpre), hd]
    simp only [hvs false hv, Bool.false_eq_true, if_false]
    rfl
  have c5 : o.digital = true → toDigital = false → (∀ x ∈ o.res, x < a.sym.length) →
      copyTo a o toDigital = some (.ok, { o with digital := false, res := o.res.map a.symAt, salloc := salloc, mcap := salloc }) := by
    intro hd ht hv; subst ht
    unfold copyTo; simp only []; rw [if_neg (by simpa using hpre), hd]
    simp only []
    have := textize_mkDsq a o.res hv
    unfold n; rw [this]; rfl
  refine ⟨c1, c2, c3, c4, c5, ?_⟩
  intro o' hcodes ho'
  have hinv : ∀ (res : List Nat), res.length = o.n →
      ({ o with digital := toDigital, res := res, salloc := salloc, mcap := salloc } : SqObj).Inv := by
    intro res hl
    refine ⟨?_, rfl, ?_, ?_⟩
    · show res.length + (if toDigital = true then 2 else 1) ≤ sqGrowTo toDigital eslSQ_SEQCHUNK o.n
      rw [hl]; exact g1
    · intro s hs; show s.length = res.length; rw [hl]; exact h.ss s hs
    · intro s hs; show s.length = res.length; rw [hl]; exact h.xr s hs
  cases hd : o.digital <;> cases ht : toDigital
  · rw [c1 hd ht] at ho'; cases ho'
    have := hinv o.res rfl; rw [ht, ← hd] at this
    exact ⟨this, rfl, rfl, rfl, rfl, rfl, by rw [hd]⟩
  · by_cases hv : o.res.all a.cIsValid = true
    · rw [c3 hd ht hv] at ho'; cases ho'
      have := hinv (o.res.map a.inmapAt) (by simp [n]); rw [ht] at this
      exact ⟨this, rfl, rfl, by simp [n], rfl, rfl, rfl⟩
    · rw [c4 hd ht (by simpa using hv)] at ho'; cases ho'
  · have hv := hcodes hd ht
    rw [c5 hd ht hv] at ho'; cases ho'
    have := hinv (o.res.map a.symAt) (by simp [n]); rw [ht] at this
    exact ⟨this, rfl, rfl, by simp [n], rfl, rfl, rfl⟩
  · rw [c2 hd ht] at ho'; cases ho'
    have := hinv o.res rfl; rw [ht, ← hd] at this
    exact ⟨this, rfl, rfl, rfl, rfl, rfl, by rw [hd]⟩

end SqObj
end EaselModel.Alphabet.Sq

namespace EaselModel.Alphabet.Guess

theorem msaGuessV_false (g : List Int → Nat) (rows : List (List Nat)) : msaGuessV false g rows = msaGuess g rows := by
  unfold msaGuessV msaGuess; simp

/-- **`esl_msa_GuessAlphabet`, both forms**: the vote over the per-row answers if it decides; otherwise — `strict` (the
    documented behaviour): indeterminate as soon as some row was classified (amino and nucleic rows both occur), the pooled
    composition only when NO row was classified; not `strict`: always the pooled composition. Never a fault. -/
theorem msaGuessV_spec (strict : Bool) (g : List Int → Nat) (rows : List (List Nat)) :
    msaGuessV strict g rows = some (
      let types := rows.map fun r => g (sqCount r (List.replicate 26 0) 0)
      let t := msaVote types
      if t ≠ 0 then (true, t)
      else if strict && types.any (· != 0) then (false, 0)
      else (decide (g (sqCount rows.flatten (List.replicate 26 0) 0) ≠ 0), g (sqCount rows.flatten (List.replicate 26 0) 0))) := by
  unfold msaGuessV
  simp only []
  split
  · rfl
  · split
    · rfl
    · rw [msaPool_spec rows _ 0 (by simp) (by omega)]; rfl

end EaselModel.Alphabet.Guess
