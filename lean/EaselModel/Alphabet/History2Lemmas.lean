import EaselModel.Alphabet.HistoryLemmas
import Mathlib.Tactic.Linarith
/-! # C08 — custom alphabets, round 4: what a REJECTED constructor call leaves behind (exactly the effect of the accepted
prefix of its argument — nothing for `SetEquiv` and for a `SetDegeneracy` refused at its symbol checks), and the documented
postconditions of the accepted calls (`SetIgnored`, `SetDegeneracy`, `SetCaseInsensitive`) -/
set_option linter.dupNamespace false
namespace EaselModel.Alphabet
namespace Alphabet

/-- `d` is a canonical residue symbol of `a` -/
def canonSym (a : Alphabet) (d : Nat) : Prop := ∃ y, a.strchrSym d = some y ∧ y < a.K

theorem degenAdd_strchr (a : Alphabet) (x y c : Nat) : (a.degenAdd x y).strchrSym c = a.strchrSym c := rfl

theorem degenLoop_strchr (x : Nat) (ds : List Nat) (a : Alphabet) (c : Nat) :
    (a.degenLoop x ds).2.strchrSym c = a.strchrSym c := by
  have h := (degenLoop_fields x ds a).2.2.1
  unfold strchrSym; rw [h]

theorem degenLoop_K (x : Nat) (ds : List Nat) (a : Alphabet) : (a.degenLoop x ds).2.K = a.K := (degenLoop_fields x ds a).1

theorem degenLoop_cons_ok (x d : Nat) (l : List Nat) (a : Alphabet) (y : Nat) (hs : a.strchrSym d = some y)
    (hc : a.xIsCanonical y = true) : a.degenLoop x (d :: l) = (a.degenAdd x y).degenLoop x l := by
  conv_lhs => unfold degenLoop
  rw [hs]; simp only [hc, not_true_eq_false, if_false]; rfl

theorem degenLoop_cons_none (x d : Nat) (l : List Nat) (a : Alphabet) (hs : a.strchrSym d = none) :
    a.degenLoop x (d :: l) = (.einval, a) := by
  conv_lhs => unfold degenLoop
  rw [hs]

theorem degenLoop_cons_bad (x d : Nat) (l : List Nat) (a : Alphabet) (y : Nat) (hs : a.strchrSym d = some y)
    (hc : ¬ a.xIsCanonical y = true) : a.degenLoop x (d :: l) = (.einval, a) := by
  conv_lhs => unfold degenLoop
  rw [hs]
  have hc' : a.xIsCanonical y = false := by simpa using hc
  simp [hc']

/-- the loop over `pre ++ post` = the loop over `post` started from the result of an accepted `pre` -/
theorem degenLoop_append (x : Nat) (pre post : List Nat) (a : Alphabet) (h : (a.degenLoop x pre).1 = .ok) :
    a.degenLoop x (pre ++ post) = (a.degenLoop x pre).2.degenLoop x post := by
  induction pre generalizing a with
  | nil => rfl
  | cons d rest ih =>
    rw [List.cons_append]
    cases hs : a.strchrSym d with
    | none => rw [degenLoop_cons_none x d rest a hs] at h; cases h
    | some y =>
      by_cases hc : a.xIsCanonical y = true
      · rw [degenLoop_cons_ok x d rest a y hs hc] at h ⊢
        rw [degenLoop_cons_ok x d _ a y hs hc]
        exact ih _ h
      · rw [degenLoop_cons_bad x d rest a y hs hc] at h; cases h

/-- **a rejected `while (*ds)` loop has applied exactly the residues listed before the offending character**: `ds` splits as
    `pre ++ d :: post` with every character of `pre` a canonical residue symbol, `d` not one, and the alphabet left behind is
    the result of the (accepted) loop over `pre` -/
theorem degenLoop_rejected (x : Nat) (ds : List Nat) (a : Alphabet) (h : (a.degenLoop x ds).1 ≠ .ok) :
    ∃ pre d post, ds = pre ++ d :: post ∧ (∀ e ∈ pre, a.canonSym e) ∧ ¬ a.canonSym d ∧
      (a.degenLoop x pre).1 = .ok ∧ (a.degenLoop x ds).2 = (a.degenLoop x pre).2 := by
  induction ds generalizing a with
  | nil => exact absurd rfl h
  | cons d rest ih =>
    cases hs : a.strchrSym d with
    | none =>
      refine ⟨[], d, rest, rfl, fun e he => (by cases he), ?_, rfl, ?_⟩
      · rintro ⟨y, hy, _⟩; rw [hs] at hy; cases hy
      · rw [degenLoop_cons_none x d rest a hs]; rfl
    | some y =>
      by_cases hc : a.xIsCanonical y = true
      · rw [degenLoop_cons_ok x d rest a y hs hc] at h
        have hyK : y < a.K := by simpa [xIsCanonical] using hc
        obtain ⟨pre, d', post, e1, e2, e3, e4, e5⟩ := ih (a.degenAdd x y) h
        refine ⟨d :: pre, d', post, by rw [e1]; rfl, ?_, ?_, ?_, ?_⟩
        · intro e he
          rcases List.mem_cons.mp he with e0 | e0
          · subst e0; exact ⟨y, hs, hyK⟩
          · obtain ⟨y', h1, h2⟩ := e2 e e0
            exact ⟨y', by rw [← degenAdd_strchr a x y]; exact h1, h2⟩
        · rintro ⟨y', h1, h2⟩
          exact e3 ⟨y', by rw [degenAdd_strchr]; exact h1, h2⟩
        · rw [degenLoop_cons_ok x d pre a y hs hc]; exact e4
        · rw [degenLoop_cons_ok x d rest a y hs hc, degenLoop_cons_ok x d pre a y hs hc]; exact e5
      · refine ⟨[], d, rest, rfl, fun e he => (by cases he), ?_, rfl, ?_⟩
        · rintro ⟨y', hy', hlt⟩
          rw [hs] at hy'; cases hy'
          exact hc (by simpa [xIsCanonical] using hlt)
        · rw [degenLoop_cons_bad x d rest a y hs hc]; rfl

/-- **`esl_alphabet_SetDegeneracy` rejected**: either nothing at all was changed (the symbol is not one of the degenerate
    symbols `K < x < Kp-3`), or `ds = pre ++ d :: post` with `d` the first character that is not a canonical residue symbol
    and the alphabet is left exactly as the accepted call `SetDegeneracy(a, c, pre)` leaves it -/
theorem setDegeneracy_rejected (a : Alphabet) (c : Nat) (ds : List Nat) (h : (a.setDegeneracy c ds).1 ≠ .ok) :
    (a.setDegeneracy c ds).2 = a ∨
    ∃ pre d post, ds = pre ++ d :: post ∧ (∀ e ∈ pre, a.canonSym e) ∧ ¬ a.canonSym d ∧
      (a.setDegeneracy c pre).1 = .ok ∧ (a.setDegeneracy c ds).2 = (a.setDegeneracy c pre).2 := by
  unfold setDegeneracy at h ⊢
  cases hs : a.strchrSym c with
  | none => left; rfl
  | some x =>
    rw [hs] at h
    simp only [] at h ⊢
    by_cases h1 : x + 3 = a.Kp
    · left; rw [if_pos h1]
    · rw [if_neg h1] at h ⊢
      by_cases h2 : x < a.K + 1 ∨ x + 2 ≥ a.Kp
      · left; rw [if_pos h2]
      · rw [if_neg h2] at h ⊢
        right
        obtain ⟨pre, d, post, e1, e2, e3, e4, e5⟩ := degenLoop_rejected x ds a h
        refine ⟨pre, d, post, e1, e2, e3, ?_, ?_⟩
        · rw [if_neg h1, if_neg h2]; exact e4
        · rw [if_neg h1, if_neg h2]; exact e5

/-! ## postcondition of an accepted `SetDegeneracy` -/

theorem degenAdd_row (a : Alphabet) (x y y' : Nat) (hx : x < a.degen.length) (hy : y < (a.degen.getD x []).length) :
    ((a.degenAdd x y).degen.getD x []).getD y' 0 = if y' = y then 1 else (a.degen.getD x []).getD y' 0 := by
  show ((a.degen.set x ((a.degen.getD x []).set y 1)).getD x []).getD y' 0 = _
  rw [getD_set_list _ _ _ _ hx, if_pos rfl, getD_set_gen _ _ _ _ _ hy]

theorem degenAdd_row_length (a : Alphabet) (x y : Nat) (hx : x < a.degen.length) :
    ((a.degenAdd x y).degen.getD x []).length = (a.degen.getD x []).length ∧ (a.degenAdd x y).degen.length = a.degen.length := by
  constructor
  · show ((a.degen.set x ((a.degen.getD x []).set y 1)).getD x []).length = _
    rw [getD_set_list _ _ _ _ hx, if_pos rfl, List.length_set]
  · show (a.degen.set x _).length = _
    rw [List.length_set]

theorem degenAdd_ndegen (a : Alphabet) (x y : Nat) (hx : x < a.ndegen.length) :
    (a.degenAdd x y).ndegen.getD x 0 = a.ndegen.getD x 0 + 1 ∧ (a.degenAdd x y).ndegen.length = a.ndegen.length := by
  constructor
  · show (a.ndegen.set x (a.ndegen.getD x 0 + 1)).getD x 0 = _
    rw [getD_set_gen _ _ _ _ _ hx, if_pos rfl]
  · show (a.ndegen.set x _).length = _
    rw [List.length_set]

/-- an accepted loop flags exactly the listed residues in row `x` (old flags stay), and counts one per listed character -/
theorem degenLoop_post (x : Nat) : ∀ (ds : List Nat) (a : Alphabet), x < a.degen.length → x < a.ndegen.length →
    (a.degen.getD x []).length = a.K → (a.degenLoop x ds).1 = .ok →
    (∀ y, ((a.degenLoop x ds).2.degen.getD x []).getD y 0 ≠ 0 ↔
      ((a.degen.getD x []).getD y 0 ≠ 0 ∨ y ∈ ds.filterMap a.strchrSym)) ∧
    (a.degenLoop x ds).2.ndegen.getD x 0 = a.ndegen.getD x 0 + ds.length := by
  intro ds
  induction ds with
  | nil => intro a _ _ _ _; exact ⟨fun y => by simp [degenLoop], rfl⟩
  | cons d rest ih =>
    intro a hx hn hrow hok
    cases hs : a.strchrSym d with
    | none => rw [degenLoop_cons_none x d rest a hs] at hok; cases hok
    | some y0 =>
      by_cases hc : a.xIsCanonical y0 = true
      · rw [degenLoop_cons_ok x d rest a y0 hs hc] at hok ⊢
        have hyK : y0 < a.K := by simpa [xIsCanonical] using hc
        obtain ⟨l1, l2⟩ := degenAdd_row_length a x y0 hx
        obtain ⟨n1, n2⟩ := degenAdd_ndegen a x y0 hn
        obtain ⟨i1, i2⟩ := ih (a.degenAdd x y0) (by rw [l2]; exact hx) (by rw [n2]; exact hn)
          (by rw [l1]; exact hrow) hok
        refine ⟨fun y => ?_, ?_⟩
        · rw [i1 y, degenAdd_row a x y0 y hx (by omega)]
          have hfm : (d :: rest).filterMap a.strchrSym = y0 :: rest.filterMap a.strchrSym := by
            simp [List.filterMap_cons, hs]
          have hfm' : rest.filterMap (a.degenAdd x y0).strchrSym = rest.filterMap a.strchrSym := rfl
          rw [hfm, hfm', List.mem_cons]
          by_cases e : y = y0
          · subst e; simp
          · simp [e]
        · rw [i2, n1, List.length_cons]; omega
      · rw [degenLoop_cons_bad x d rest a y0 hs hc] at hok; cases hok

/-- **postcondition of an accepted `esl_alphabet_SetDegeneracy(a, c, ds)`** (tables of the right shape): with `x` the code
    of `c`, row `x` flags exactly its old members and the residues listed in `ds`; `ndegen[x]` grew by `|ds|` (one per listed
    character, repeated or not); every other row, `ndegen` entry, the input map, the symbols and sizes are unchanged -/
theorem setDegeneracy_post (a : Alphabet) (h : a.WFDegen) (c : Nat) (ds : List Nat) (hok : (a.setDegeneracy c ds).1 = .ok) :
    ∃ x, a.strchrSym c = some x ∧ a.K < x ∧ x + 3 < a.Kp ∧
      (∀ y, (((a.setDegeneracy c ds).2.degen.getD x []).getD y 0 ≠ 0 ↔
        ((a.degen.getD x []).getD y 0 ≠ 0 ∨ y ∈ ds.filterMap a.strchrSym))) ∧
      (a.setDegeneracy c ds).2.ndegen.getD x 0 = a.ndegen.getD x 0 + ds.length ∧
      (∀ x', x' ≠ x → (a.setDegeneracy c ds).2.degen.getD x' [] = a.degen.getD x' [] ∧
        (a.setDegeneracy c ds).2.ndegen.getD x' 0 = a.ndegen.getD x' 0) ∧
      (a.setDegeneracy c ds).2.inmap = a.inmap ∧ (a.setDegeneracy c ds).2.sym = a.sym ∧
      (a.setDegeneracy c ds).2.K = a.K ∧ (a.setDegeneracy c ds).2.Kp = a.Kp := by
  obtain ⟨x, hs, hx1, hx2, _⟩ := (setDegeneracy_status a c ds).1.mp hok
  have e : a.setDegeneracy c ds = a.degenLoop x ds := by
    unfold setDegeneracy
    rw [hs]; simp only []
    rw [if_neg (by omega), if_neg (by omega)]
  rw [e] at hok ⊢
  obtain ⟨hd, hn, hrow⟩ := h
  obtain ⟨p1, p2⟩ := degenLoop_post x ds a (by omega) (by omega) (hrow x (by omega)).1 hok
  obtain ⟨f1, f2, f3, f4⟩ := degenLoop_fields x ds a
  exact ⟨x, hs, hx1, hx2, p1, p2, fun x' hne => degenLoop_other x ds a x' hne, f4, f3, f1, f2⟩

/-! ## postcondition of `SetIgnored` -/

theorem foldl_set_length (chars : List Nat) (m : List Nat) : (chars.foldl (fun m c => m.set c IGNORED) m).length = m.length := by
  induction chars generalizing m with
  | nil => rfl
  | cons c cs ih => rw [List.foldl_cons, ih, List.length_set]

theorem foldl_set_getD (chars : List Nat) (m : List Nat) (i : Nat) (hi : i < m.length) :
    (chars.foldl (fun m c => m.set c IGNORED) m).getD i ILLEGAL = if i ∈ chars then IGNORED else m.getD i ILLEGAL := by
  induction chars generalizing m with
  | nil => simp
  | cons c cs ih =>
    rw [List.foldl_cons, ih (m.set c IGNORED) (by rw [List.length_set]; exact hi)]
    by_cases h1 : i ∈ cs
    · simp [h1]
    · rw [if_neg h1]
      by_cases h2 : i = c
      · subst h2
        rw [if_pos (List.mem_cons_self), getD_set_gen _ _ _ _ _ hi, if_pos rfl]
      · rw [if_neg (by simp [h1, h2]), getD_set_ne _ _ _ _ _ h2]

/-- **postcondition of `esl_alphabet_SetIgnored(a, chars)`**: exactly the listed 7-bit characters now map to
    `eslDSQ_IGNORED`; every other entry of the input map and every other table is unchanged -/
theorem setIgnored_post (a : Alphabet) (hl : a.inmap.length = 128) (chars : List Nat) :
    (∀ c, c < 128 → (a.setIgnored chars).inmapAt c = if c ∈ chars then IGNORED else a.inmapAt c) ∧
    (a.setIgnored chars).inmap.length = 128 ∧
    (a.setIgnored chars).sym = a.sym ∧ (a.setIgnored chars).K = a.K ∧ (a.setIgnored chars).Kp = a.Kp ∧
    (a.setIgnored chars).degen = a.degen ∧ (a.setIgnored chars).ndegen = a.ndegen ∧
    (a.setIgnored chars).complement = a.complement := by
  refine ⟨fun c hc => ?_, ?_, rfl, rfl, rfl, rfl, rfl, rfl⟩
  · exact foldl_set_getD chars a.inmap c (by omega)
  · show (chars.foldl (fun m c => m.set c IGNORED) a.inmap).length = 128
    rw [foldl_set_length, hl]

/-- … hence digitising skips exactly those characters (provided none of them is NUL, which ends a C string) -/
theorem setIgnored_code (a : Alphabet) (hl : a.inmap.length = 128) (hk : a.Kp ≤ 250) (chars : List Nat) (c : Nat) (hc : c < 128)
    (hm : c ∈ chars) : (a.setIgnored chars).code c = none := by
  have := (setIgnored_post a hl chars).1 c hc
  rw [if_pos hm] at this
  unfold code
  simp only [hc, if_true, this]
  have e : (a.setIgnored chars).Kp = a.Kp := rfl
  rw [e]
  have : ¬ IGNORED < a.Kp := by unfold IGNORED; omega
  simp [this]


/-! ## `SetCaseInsensitive`: rejected = the letters before the offending one were processed; accepted = every letter pair agrees -/

theorem caseLoop_cons_some (a a' : Alphabet) (lc : Nat) (l : List Nat) (h : a.caseStep lc = some a') :
    a.caseLoop (lc :: l) = a'.caseLoop l := by
  conv_lhs => unfold caseLoop
  rw [h]

theorem caseLoop_cons_none (a : Alphabet) (lc : Nat) (l : List Nat) (h : a.caseStep lc = none) :
    a.caseLoop (lc :: l) = (.ecorrupt, a) := by
  conv_lhs => unfold caseLoop
  rw [h]

/-- **a rejected `esl_alphabet_SetCaseInsensitive`** (eslECORRUPT) leaves the alphabet as the accepted loop over the letters
    before the offending one leaves it; that letter has both cases valid with different codes at that point -/
theorem caseLoop_rejected (l : List Nat) (a : Alphabet) (h : (a.caseLoop l).1 ≠ .ok) :
    ∃ pre lc post, l = pre ++ lc :: post ∧ (a.caseLoop pre).1 = .ok ∧ (a.caseLoop pre).2.caseStep lc = none ∧
      (a.caseLoop l).2 = (a.caseLoop pre).2 := by
  induction l generalizing a with
  | nil => exact absurd rfl h
  | cons lc rest ih =>
    cases hs : a.caseStep lc with
    | none => exact ⟨[], lc, rest, rfl, rfl, hs, by rw [caseLoop_cons_none a lc rest hs]; rfl⟩
    | some a' =>
      rw [caseLoop_cons_some a a' lc rest hs] at h
      obtain ⟨pre, lc', post, e1, e2, e3, e4⟩ := ih a' h
      refine ⟨lc :: pre, lc', post, by rw [e1]; rfl, ?_, ?_, ?_⟩
      · rw [caseLoop_cons_some a a' lc pre hs]; exact e2
      · rw [caseLoop_cons_some a a' lc pre hs]; exact e3
      · rw [caseLoop_cons_some a a' lc rest hs, caseLoop_cons_some a a' lc pre hs]; exact e4

theorem inmapAt_set (a : Alphabet) (u v c : Nat) (hu : u < a.inmap.length) :
    ({ a with inmap := a.inmap.set u v } : Alphabet).inmapAt c = if c = u then v else a.inmapAt c := by
  unfold inmapAt
  show (a.inmap.set u v).getD c ILLEGAL = _
  rw [getD_set_gen _ _ _ _ _ hu]

/-- one accepted step touches at most the two entries of its letter, never an entry that was valid, and makes the pair agree -/
theorem caseStep_post (a a' : Alphabet) (lc : Nat) (hl : a.inmap.length = 128) (hlc : 97 ≤ lc ∧ lc ≤ 122)
    (hs : a.caseStep lc = some a') :
    a'.inmap.length = 128 ∧ a'.Kp = a.Kp ∧
    (∀ c, c ≠ lc → c ≠ toUpper lc → a'.inmapAt c = a.inmapAt c) ∧
    (∀ c, a.cIsValid c = true → a'.inmapAt c = a.inmapAt c) ∧
    (a'.cIsValid lc = a'.cIsValid (toUpper lc)) ∧ (a'.cIsValid lc = true → a'.inmapAt lc = a'.inmapAt (toUpper lc)) := by
  have huc : toUpper lc = lc - 32 := by unfold toUpper; rw [if_pos hlc]
  have hne : lc - 32 ≠ lc := by omega
  have h7 : lc < 128 ∧ lc - 32 < 128 := by omega
  unfold caseStep at hs
  simp only [huc] at hs ⊢
  by_cases c1 : (a.cIsValid lc && !a.cIsValid (lc - 32)) = true
  · rw [if_pos c1] at hs
    cases hs
    simp only [Bool.and_eq_true, Bool.not_eq_true'] at c1
    have hv : a.inmapAt lc < a.Kp := by
      have := c1.1; unfold cIsValid at this; simp only [Bool.and_eq_true, decide_eq_true_eq] at this; exact this.2
    have e1 : ∀ c, ({ a with inmap := a.inmap.set (lc - 32) (a.inmapAt lc) } : Alphabet).inmapAt c =
        if c = lc - 32 then a.inmapAt lc else a.inmapAt c := fun c => inmapAt_set a _ _ c (by omega)
    refine ⟨by show (a.inmap.set _ _).length = 128; rw [List.length_set]; exact hl, rfl, ?_, ?_, ?_, ?_⟩
    · intro c _ h2; rw [e1, if_neg h2]
    · intro c hc
      rw [e1]
      by_cases e : c = lc - 32
      · subst e; rw [c1.2] at hc; cases hc
      · rw [if_neg e]
    · unfold cIsValid
      rw [e1, e1, if_neg (by omega), if_pos rfl]
      simp [h7.1, h7.2, hv]
    · intro _; rw [e1, e1, if_neg (by omega), if_pos rfl]
  · rw [if_neg c1] at hs
    by_cases c2 : (a.cIsValid (lc - 32) && !a.cIsValid lc) = true
    · rw [if_pos c2] at hs
      cases hs
      simp only [Bool.and_eq_true, Bool.not_eq_true'] at c2
      have hv : a.inmapAt (lc - 32) < a.Kp := by
        have := c2.1; unfold cIsValid at this; simp only [Bool.and_eq_true, decide_eq_true_eq] at this; exact this.2
      have e1 : ∀ c, ({ a with inmap := a.inmap.set lc (a.inmapAt (lc - 32)) } : Alphabet).inmapAt c =
          if c = lc then a.inmapAt (lc - 32) else a.inmapAt c := fun c => inmapAt_set a _ _ c (by omega)
      refine ⟨by show (a.inmap.set _ _).length = 128; rw [List.length_set]; exact hl, rfl, ?_, ?_, ?_, ?_⟩
      · intro c h1 _; rw [e1, if_neg h1]
      · intro c hc
        rw [e1]
        by_cases e : c = lc
        · subst e; rw [c2.2] at hc; cases hc
        · rw [if_neg e]
      · unfold cIsValid
        rw [e1, e1, if_pos rfl, if_neg hne]
        simp [h7.1, h7.2, hv]
      · intro _; rw [e1, e1, if_pos rfl, if_neg hne]
    · rw [if_neg c2] at hs
      by_cases c3 : (a.cIsValid lc && a.cIsValid (lc - 32) && decide (a.inmapAt (lc - 32) ≠ a.inmapAt lc)) = true
      · rw [if_pos c3] at hs; cases hs
      · rw [if_neg c3] at hs
        cases hs
        refine ⟨hl, rfl, fun _ _ _ => rfl, fun _ _ => rfl, ?_, ?_⟩
        · cases h1 : a.cIsValid lc <;> cases h2 : a.cIsValid (lc - 32) <;> simp_all
        · intro hv
          cases h2 : a.cIsValid (lc - 32)
          · simp [hv, h2] at c1
          · simp [hv, h2] at c3; exact c3.symm

/-- **postcondition of an accepted `esl_alphabet_SetCaseInsensitive`** over a list of distinct lower-case letters: for every
    letter of the list, upper and lower case are both valid or both invalid, and when valid they map to the same code;
    no entry that was valid before has changed, no entry outside the letters of the list has changed -/
theorem caseLoop_post (l : List Nat) : ∀ (a : Alphabet), a.inmap.length = 128 → (∀ lc ∈ l, 97 ≤ lc ∧ lc ≤ 122) → l.Nodup →
    (a.caseLoop l).1 = .ok →
    (a.caseLoop l).2.inmap.length = 128 ∧
    (∀ lc ∈ l, (a.caseLoop l).2.cIsValid lc = (a.caseLoop l).2.cIsValid (toUpper lc) ∧
      ((a.caseLoop l).2.cIsValid lc = true → (a.caseLoop l).2.inmapAt lc = (a.caseLoop l).2.inmapAt (toUpper lc))) ∧
    (∀ c, a.cIsValid c = true → (a.caseLoop l).2.inmapAt c = a.inmapAt c) ∧
    (∀ c, (∀ lc ∈ l, c ≠ lc ∧ c ≠ toUpper lc) → (a.caseLoop l).2.inmapAt c = a.inmapAt c) := by
  induction l with
  | nil => intro a hl _ _ _; exact ⟨hl, fun lc h => (by cases h), fun _ _ => rfl, fun _ _ => rfl⟩
  | cons lc rest ih =>
    intro a hl hrange hnd hok
    cases hs : a.caseStep lc with
    | none => rw [caseLoop_cons_none a lc rest hs] at hok; cases hok
    | some a' =>
      rw [caseLoop_cons_some a a' lc rest hs] at hok ⊢
      have hlc := hrange lc List.mem_cons_self
      obtain ⟨s1, s2, s3, s4, s5, s6⟩ := caseStep_post a a' lc hl hlc hs
      have hnd' := List.nodup_cons.mp hnd
      obtain ⟨i1, i2, i3, i4⟩ := ih a' s1 (fun x hx => hrange x (List.mem_cons_of_mem _ hx)) hnd'.2 hok
      have hKp : (a'.caseLoop rest).2.Kp = a'.Kp := (caseLoop_fields rest a').2.1
      have huc : toUpper lc = lc - 32 := by unfold toUpper; rw [if_pos hlc]
      -- the entries of `lc` and of its upper case are not touched by the rest of the loop
      have hfar : ∀ c, (c = lc ∨ c = toUpper lc) → (a'.caseLoop rest).2.inmapAt c = a'.inmapAt c := by
        intro c hc
        apply i4
        intro x hx
        have hxr := hrange x (List.mem_cons_of_mem _ hx)
        have hxu : toUpper x = x - 32 := by unfold toUpper; rw [if_pos hxr]
        have hxne : x ≠ lc := fun e => hnd'.1 (e ▸ hx)
        rcases hc with e | e
        · subst e; constructor
          · exact fun e2 => hxne e2.symm
          · rw [hxu]; omega
        · rw [e, huc, hxu]; constructor <;> omega
      refine ⟨i1, ?_, ?_, ?_⟩
      · intro x hx
        rcases List.mem_cons.mp hx with e | e
        · subst e
          have v1 : (a'.caseLoop rest).2.cIsValid x = a'.cIsValid x := by
            unfold cIsValid; rw [hfar x (Or.inl rfl), hKp]
          have v2 : (a'.caseLoop rest).2.cIsValid (toUpper x) = a'.cIsValid (toUpper x) := by
            unfold cIsValid; rw [hfar (toUpper x) (Or.inr rfl), hKp]
          rw [v1, v2, hfar x (Or.inl rfl), hfar (toUpper x) (Or.inr rfl)]
          exact ⟨s5, s6⟩
        · exact i2 x e
      · intro c hc
        have hc' : a'.cIsValid c = true := by
          unfold cIsValid at hc ⊢; rw [s4 c (by unfold cIsValid; exact hc), s2]; exact hc
        rw [i3 c hc', s4 c hc]
      · intro c hc
        rw [i4 c (fun x hx => hc x (List.mem_cons_of_mem _ hx))]
        exact s3 c (hc lc List.mem_cons_self).1 (hc lc List.mem_cons_self).2

theorem letters_ok : (∀ lc ∈ (List.range 26).map (· + 97), 97 ≤ lc ∧ lc ≤ 122) ∧ ((List.range 26).map (· + 97)).Nodup := by
  decide

/-- `esl_alphabet_SetCaseInsensitive(a)` returning eslOK: for all 26 letters both cases are valid or both invalid, and valid
    pairs map to the same code; every character that was valid keeps its code; nothing but letters changes -/
theorem setCaseInsensitive_post (a : Alphabet) (hl : a.inmap.length = 128) (hok : a.setCaseInsensitive.1 = .ok) :
    (∀ lc, 97 ≤ lc → lc ≤ 122 → a.setCaseInsensitive.2.cIsValid lc = a.setCaseInsensitive.2.cIsValid (lc - 32) ∧
      (a.setCaseInsensitive.2.cIsValid lc = true → a.setCaseInsensitive.2.inmapAt lc = a.setCaseInsensitive.2.inmapAt (lc - 32))) ∧
    (∀ c, a.cIsValid c = true → a.setCaseInsensitive.2.inmapAt c = a.inmapAt c) ∧
    (∀ c, ¬ (97 ≤ c ∧ c ≤ 122) → ¬ (65 ≤ c ∧ c ≤ 90) → a.setCaseInsensitive.2.inmapAt c = a.inmapAt c) := by
  unfold setCaseInsensitive at hok ⊢
  obtain ⟨_, p2, p3, p4⟩ := caseLoop_post _ a hl letters_ok.1 letters_ok.2 hok
  refine ⟨fun lc h1 h2 => ?_, p3, fun c h1 h2 => ?_⟩
  · have hm : lc ∈ (List.range 26).map (· + 97) := List.mem_map.mpr ⟨lc - 97, List.mem_range.mpr (by omega), by omega⟩
    have := p2 lc hm
    have huc : toUpper lc = lc - 32 := by unfold toUpper; rw [if_pos ⟨h1, h2⟩]
    rw [huc] at this; exact this
  · apply p4
    intro x hx
    obtain ⟨k, hk, rfl⟩ := List.mem_map.mp hx
    have hk' := List.mem_range.mp hk
    have huc : toUpper (k + 97) = k + 97 - 32 := by unfold toUpper; rw [if_pos (by omega)]
    rw [huc]; constructor <;> omega

end Alphabet
end EaselModel.Alphabet
