import EaselModel.Alphabet.Spec
import Mathlib.Tactic.Ring
import Mathlib.Tactic.FieldSimp
import Mathlib.Tactic.Linarith
import Mathlib.Algebra.Order.Field.Rat
/-! # C08 — degenerate scores and counts over ℚ: the accumulation loops compute the mean / the equal split
(Mathlib is imported here only; the driver never imports this file) -/
set_option linter.dupNamespace false
namespace EaselModel.Alphabet
namespace Alphabet

instance : ScoreNum ℚ where
  zero := 0
  add := (· + ·)
  sub := (· - ·)
  mul := (· * ·)
  div := (· / ·)
  ofNat := fun n => (n : ℚ)

@[simp] theorem sn_zero : (ScoreNum.zero : ℚ) = 0 := rfl
@[simp] theorem sn_add (x y : ℚ) : ScoreNum.add x y = x + y := rfl
@[simp] theorem sn_mul (x y : ℚ) : ScoreNum.mul x y = x * y := rfl
@[simp] theorem sn_div (x y : ℚ) : ScoreNum.div x y = x / y := rfl
@[simp] theorem sn_ofNat (n : Nat) : (ScoreNum.ofNat n : ℚ) = (n : ℚ) := rfl

/-- sum of `f` over the flagged indices of `[i, i+k)` -/
def flagSum (row : List Nat) (f : Nat → ℚ) (i k : Nat) : ℚ :=
  (((List.range' i k).filter fun j => row.getD j 0 ≠ 0).map f).sum

theorem getElem?_getD0 (l : List Nat) (i : Nat) (h : i < l.length) : l[i]? = some (l.getD i 0) := by
  rw [List.getD_eq_getElem?_getD, List.getElem?_eq_getElem h]; simp

/-- the accumulation loop `for (i..) if (degen[x][i]) result += f(i)` -/
theorem degenFold_sum (row : List Nat) (f : Nat → Option ℚ) (fv : Nat → ℚ) :
    ∀ (k i : Nat) (acc : ℚ), i + k ≤ row.length → (∀ j, i ≤ j → j < i + k → f j = some (fv j)) →
      degenFold row f k i acc = some (acc + flagSum row fv i k) := by
  intro k
  induction k with
  | zero => intro i acc _ _; simp [degenFold, flagSum]
  | succ k ih =>
    intro i acc hlen hf
    have e := getElem?_getD0 row i (by omega)
    have ih' := fun acc => ih (i + 1) acc (by omega) (fun j h1 h2 => hf j (by omega) (by omega))
    have hsplit : List.range' i (k + 1) = i :: List.range' (i + 1) k := by simp [List.range'_succ]
    by_cases hflag : row.getD i 0 = 0
    · simp only [degenFold, e, Option.bind_eq_bind, Option.bind_some, hflag, ne_eq, not_true_eq_false, if_false]
      rw [ih', flagSum, flagSum, hsplit, List.filter_cons_of_neg (by simpa using hflag)]
    · simp only [degenFold, e, Option.bind_eq_bind, Option.bind_some, hflag, ne_eq, not_false_eq_true, if_true,
        hf i (Nat.le_refl _) (by omega), sn_add]
      rw [ih', flagSum, flagSum, hsplit, List.filter_cons_of_pos (by simpa using hflag)]
      simp only [List.map_cons, List.sum_cons]
      ring_nf

theorem flagSum_degenSet (a : Alphabet) (x : Nat) (fv : Nat → ℚ) :
    flagSum (a.degen.getD x []) fv 0 a.K = ((a.degenSet x).map fv).sum := by
  unfold flagSum degenSet
  rw [List.range_eq_range']

theorem sc_get (sc : List ℚ) (j : Nat) (h : j < sc.length) : sc[j]? = some (sc.getD j 0) := by
  rw [List.getD_eq_getElem?_getD, List.getElem?_eq_getElem h]; simp

/-- `esl_abc_DAvgScore` as a rational function: the mean of the scores over the degeneracy set of `x` -/
theorem avgScore_mean (a : Alphabet) (h : a.WFDegen) (x : Nat) (hx : x < a.Kp) (hres : a.xIsResidue x = true)
    (sc : List ℚ) (hsc : a.K ≤ sc.length) :
    a.avgScore x sc = some (((a.degenSet x).map fun i => sc.getD i 0).sum / ((a.degenSet x).length : ℚ)) := by
  obtain ⟨hd, hn, hrow⟩ := h
  obtain ⟨hrl, hnd⟩ := hrow x hx
  have e1 : a.degen[x]? = some (a.degen.getD x []) := by
    rw [List.getD_eq_getElem?_getD, List.getElem?_eq_getElem (by omega)]; simp
  have e2 : a.ndegen[x]? = some (a.ndegen.getD x 0) := getElem?_getD0 _ _ (by omega)
  unfold avgScore
  simp only [hres, Bool.not_true, Bool.false_eq_true, if_false, e1, e2, Option.bind_eq_bind, Option.bind_some]
  rw [degenFold_sum _ _ (fun i => sc.getD i 0) a.K 0 _ (by omega) (fun j _ hj => sc_get sc j (by omega))]
  simp only [Option.bind_some, sn_zero, zero_add, sn_div, sn_ofNat, flagSum_degenSet, hnd]

/-- `esl_abc_DExpectScore`: the `p`-weighted mean over the degeneracy set -/
theorem expectScore_weighted (a : Alphabet) (h : a.WFDegen) (x : Nat) (hx : x < a.Kp) (hres : a.xIsResidue x = true)
    (sc p : List ℚ) (hsc : a.K ≤ sc.length) (hp : a.K ≤ p.length) :
    a.expectScore x sc p = some (((a.degenSet x).map fun i => sc.getD i 0 * p.getD i 0).sum /
      ((a.degenSet x).map fun i => p.getD i 0).sum) := by
  obtain ⟨hd, hn, hrow⟩ := h
  obtain ⟨hrl, hnd⟩ := hrow x hx
  have e1 : a.degen[x]? = some (a.degen.getD x []) := by
    rw [List.getD_eq_getElem?_getD, List.getElem?_eq_getElem (by omega)]; simp
  unfold expectScore
  simp only [hres, Bool.not_true, Bool.false_eq_true, if_false, e1, Option.bind_eq_bind, Option.bind_some]
  rw [degenFold_sum _ _ (fun i => sc.getD i 0 * p.getD i 0) a.K 0 _ (by omega)
    (fun j _ hj => by
      simp only [sc_get sc j (by omega), sc_get p j (by omega), Option.bind_eq_bind, Option.bind_some, sn_mul])]
  simp only [Option.bind_some]
  rw [degenFold_sum _ _ (fun i => p.getD i 0) a.K 0 _ (by omega) (fun j _ hj => sc_get p j (by omega))]
  simp only [Option.bind_some, sn_zero, zero_add, sn_div, flagSum_degenSet]

/-- a non-residue code (gap, `*`, `~`, or an invalid code) scores 0 -/
theorem avgScore_nonresidue (a : Alphabet) (x : Nat) (hres : a.xIsResidue x = false) (sc : List ℚ) :
    a.avgScore x sc = some 0 := by
  unfold avgScore; simp [hres]

theorem getD_setQ (l : List ℚ) (j : Nat) (v : ℚ) (i : Nat) (hj : j < l.length) :
    (l.set j v).getD i 0 = if i = j then v else l.getD i 0 := by
  rw [List.getD_eq_getElem?_getD, List.getElem?_set]
  by_cases h : j = i
  · subst h; simp [hj]
  · have h' : ¬ i = j := fun e => h e.symm
    simp [h, h', List.getD_eq_getElem?_getD]

/-- the count loop adds `share` to exactly the flagged positions of `[y0, y0+k)` -/
theorem countLoop_spec (row : List Nat) (share : ℚ) :
    ∀ (k y0 : Nat) (ct : List ℚ), y0 + k ≤ row.length → y0 + k ≤ ct.length →
      ∃ ct', countLoop row share k y0 ct = some ct' ∧ ct'.length = ct.length ∧
        ∀ y, ct'.getD y 0 = ct.getD y 0 + (if y0 ≤ y ∧ y < y0 + k ∧ row.getD y 0 ≠ 0 then share else 0) := by
  intro k
  induction k with
  | zero =>
    intro y0 ct _ _
    refine ⟨ct, rfl, rfl, fun y => ?_⟩
    rw [if_neg (by omega)]; ring
  | succ k ih =>
    intro y0 ct hr hc
    have e := getElem?_getD0 row y0 (by omega)
    by_cases hflag : row.getD y0 0 = 0
    · obtain ⟨ct', h1, h2, h3⟩ := ih (y0 + 1) ct (by omega) (by omega)
      refine ⟨ct', ?_, h2, fun y => ?_⟩
      · simp only [countLoop, e, Option.bind_eq_bind, Option.bind_some, hflag, ne_eq, not_true_eq_false, if_false]
        exact h1
      · rw [h3]
        by_cases hy : y = y0
        · subst hy; rw [if_neg (by omega), if_neg (fun h => h.2.2 hflag)]
        · by_cases hc2 : y0 + 1 ≤ y ∧ y < y0 + 1 + k ∧ row.getD y 0 ≠ 0
          · rw [if_pos hc2, if_pos ⟨by omega, by omega, hc2.2.2⟩]
          · rw [if_neg hc2, if_neg (fun h => hc2 ⟨by omega, by omega, h.2.2⟩)]
    · have e2 : ct[y0]? = some (ct.getD y0 0) := sc_get ct y0 (by omega)
      obtain ⟨ct', h1, h2, h3⟩ := ih (y0 + 1) (ct.set y0 (ct.getD y0 0 + share)) (by omega) (by simp; omega)
      refine ⟨ct', ?_, by simpa using h2, fun y => ?_⟩
      · simp only [countLoop, e, e2, Option.bind_eq_bind, Option.bind_some, hflag, ne_eq, not_false_eq_true, if_true, sn_add]
        exact h1
      · rw [h3, getD_setQ _ _ _ _ (by omega)]
        by_cases hy : y = y0
        · subst hy
          rw [if_pos rfl, if_neg (by omega), if_pos ⟨Nat.le_refl _, by omega, hflag⟩]; ring
        · rw [if_neg hy]
          by_cases hc2 : y0 + 1 ≤ y ∧ y < y0 + 1 + k ∧ row.getD y 0 ≠ 0
          · rw [if_pos hc2, if_pos ⟨by omega, by omega, hc2.2.2⟩]
          · rw [if_neg hc2, if_neg (fun h => hc2 ⟨by omega, by omega, h.2.2⟩)]

/-- `esl_abc_DCount` of a degenerate code: every member of its set receives `wt / |set|`, nothing else changes;
    the shares add up to `wt` -/
theorem count_equal_split (a : Alphabet) (h : a.WFDegen) (x : Nat) (hx : x < a.Kp) (hdeg : a.xIsDegenerate x = true)
    (ct : List ℚ) (hct : a.K ≤ ct.length) (wt : ℚ) :
    ∃ ct', a.count ct x wt = some ct' ∧ ct'.length = ct.length ∧
      (∀ y, ct'.getD y 0 = ct.getD y 0 + (if y ∈ a.degenSet x then wt / ((a.degenSet x).length : ℚ) else 0)) ∧
      ((a.degenSet x).length ≠ 0 → ((a.degenSet x).map fun _ => wt / ((a.degenSet x).length : ℚ)).sum = wt) := by
  obtain ⟨hd, hn, hrow⟩ := h
  obtain ⟨hrl, hnd⟩ := hrow x hx
  have e1 : a.degen[x]? = some (a.degen.getD x []) := by
    rw [List.getD_eq_getElem?_getD, List.getElem?_eq_getElem (by omega)]; simp
  have e2 : a.ndegen[x]? = some (a.ndegen.getD x 0) := getElem?_getD0 _ _ (by omega)
  unfold xIsDegenerate at hdeg
  simp only [Bool.and_eq_true, decide_eq_true_eq] at hdeg
  have c1 : (a.xIsCanonical x || a.xIsGap x) = false := by
    simp only [xIsCanonical, xIsGap, Bool.or_eq_false_iff, decide_eq_false_iff_not]; omega
  have c2 : (a.xIsMissing x || a.xIsNonresidue x) = false := by
    simp only [xIsMissing, xIsNonresidue, Bool.or_eq_false_iff, decide_eq_false_iff_not]; omega
  obtain ⟨ct', h1, h2, h3⟩ := countLoop_spec (a.degen.getD x []) (wt / ((a.degenSet x).length : ℚ)) a.K 0 ct (by omega) (by omega)
  refine ⟨ct', ?_, h2, fun y => ?_, fun hne => ?_⟩
  · unfold count
    simp only [c1, c2, Bool.false_eq_true, if_false, e1, e2, Option.bind_eq_bind, Option.bind_some, sn_div, sn_ofNat, hnd]
    exact h1
  · rw [h3]
    congr 1
    have : (0 ≤ y ∧ y < 0 + a.K ∧ (a.degen.getD x []).getD y 0 ≠ 0) ↔ y ∈ a.degenSet x := by
      unfold degenSet; simp
    by_cases hm : y ∈ a.degenSet x
    · rw [if_pos hm, if_pos (this.mpr hm)]
    · rw [if_neg hm, if_neg (fun h => hm (this.mp h))]
  · rw [List.map_const', List.sum_replicate]
    have : ((a.degenSet x).length : ℚ) ≠ 0 := by exact_mod_cast hne
    simp only [nsmul_eq_mul]
    field_simp

/-- sum of `f` over the indices of `[i, i+k)` flagged in both rows -/
def flagSum2 (rowx rowy : List Nat) (f : Nat → ℚ) (i k : Nat) : ℚ :=
  (((List.range' i k).filter fun j => rowx.getD j 0 ≠ 0 ∧ rowy.getD j 0 ≠ 0).map f).sum

theorem flagSum_succ (row : List Nat) (f : Nat → ℚ) (i k : Nat) :
    flagSum row f i (k + 1) = (if row.getD i 0 ≠ 0 then f i else 0) + flagSum row f (i + 1) k := by
  unfold flagSum
  rw [show List.range' i (k + 1) = i :: List.range' (i + 1) k by simp [List.range'_succ]]
  by_cases h : row.getD i 0 = 0
  · rw [List.filter_cons_of_neg (by simpa using h), if_neg (fun hh => hh h), zero_add]
  · rw [List.filter_cons_of_pos (by simpa using h), if_pos h, List.map_cons, List.sum_cons]

theorem flagSum2_succ (rowx rowy : List Nat) (f : Nat → ℚ) (i k : Nat) :
    flagSum2 rowx rowy f i (k + 1) =
      (if rowx.getD i 0 ≠ 0 ∧ rowy.getD i 0 ≠ 0 then f i else 0) + flagSum2 rowx rowy f (i + 1) k := by
  unfold flagSum2
  rw [show List.range' i (k + 1) = i :: List.range' (i + 1) k by simp [List.range'_succ]]
  by_cases h : rowx.getD i 0 ≠ 0 ∧ rowy.getD i 0 ≠ 0
  · rw [List.filter_cons_of_pos (by simpa using h), if_pos h, List.map_cons, List.sum_cons]
  · rw [List.filter_cons_of_neg (by simpa using h), if_neg h, zero_add]

theorem matchLoop_sum (rowx rowy : List Nat) (pf : Nat → Option ℚ) (q : Nat → ℚ) :
    ∀ (k i : Nat) (prob sx sy : ℚ), i + k ≤ rowx.length → i + k ≤ rowy.length →
      (∀ j, i ≤ j → j < i + k → pf j = some (q j)) →
      matchLoop rowx rowy pf k i (prob, sx, sy) =
        some (prob + flagSum2 rowx rowy (fun j => q j * q j) i k, sx + flagSum rowx q i k, sy + flagSum rowy q i k) := by
  intro k
  induction k with
  | zero => intro i prob sx sy _ _ _; simp [matchLoop, flagSum, flagSum2]
  | succ k ih =>
    intro i prob sx sy hx hy hf
    have ex := getElem?_getD0 rowx i (by omega)
    have ey := getElem?_getD0 rowy i (by omega)
    have hq := hf i (Nat.le_refl _) (by omega)
    have ih' := fun prob sx sy => ih (i + 1) prob sx sy (by omega) (by omega) (fun j h1 h2 => hf j (by omega) (by omega))
    rw [flagSum_succ, flagSum_succ, flagSum2_succ]
    by_cases fx : rowx.getD i 0 = 0 <;> by_cases fy : rowy.getD i 0 = 0
    · simp only [matchLoop, ex, ey, fx, fy, Option.bind_eq_bind, Option.bind_some, ne_eq, not_true_eq_false,
        if_false, and_self]
      rw [ih']; simp
    · simp only [matchLoop, ex, ey, hq, fx, fy, Option.bind_eq_bind, Option.bind_some, ne_eq, not_true_eq_false,
        not_false_eq_true, if_true, if_false, false_and, Option.map_some, sn_add]
      rw [ih']; simp; ring
    · simp only [matchLoop, ex, ey, hq, fx, fy, Option.bind_eq_bind, Option.bind_some, ne_eq, not_true_eq_false,
        not_false_eq_true, if_true, if_false, and_false, Option.map_some, sn_add]
      rw [ih']; simp; ring
    · simp only [matchLoop, ex, ey, hq, fx, fy, Option.bind_eq_bind, Option.bind_some, ne_eq,
        not_false_eq_true, if_true, and_self, Option.map_some, sn_add, sn_mul]
      rw [ih']; simp
      refine ⟨by ring, by ring, by ring⟩

/-- `esl_abc_Match(abc, x, y, p)` for residue codes that are not both canonical, as a rational function:
    Σ_{i ∈ S(x) ∩ S(y)} p_i² / (Σ_{S(x)} p_i · Σ_{S(y)} p_i) -/
theorem matchProb_formula (a : Alphabet) (h : a.WFDegen) (x y : Nat) (hx : x < a.Kp) (hy : y < a.Kp)
    (hrx : a.xIsResidue x = true) (hry : a.xIsResidue y = true) (hnc : (a.xIsCanonical x && a.xIsCanonical y) = false)
    (p : List ℚ) (hp : a.K ≤ p.length) :
    a.matchProb x y (some p) =
      some (flagSum2 (a.degen.getD x []) (a.degen.getD y []) (fun j => p.getD j 0 * p.getD j 0) 0 a.K /
        (flagSum (a.degen.getD x []) (fun j => p.getD j 0) 0 a.K * flagSum (a.degen.getD y []) (fun j => p.getD j 0) 0 a.K)) := by
  obtain ⟨hd, hn, hrow⟩ := h
  have e1 : a.degen[x]? = some (a.degen.getD x []) := by
    rw [List.getD_eq_getElem?_getD, List.getElem?_eq_getElem (by omega)]; simp
  have e2 : a.degen[y]? = some (a.degen.getD y []) := by
    rw [List.getD_eq_getElem?_getD, List.getElem?_eq_getElem (by omega)]; simp
  unfold matchProb
  simp only [hnc, Bool.false_eq_true, if_false, hrx, hry, Bool.not_true, Bool.or_self, e1, e2, Option.bind_eq_bind,
    Option.bind_some]
  rw [matchLoop_sum _ _ _ (fun j => p.getD j 0) a.K 0 _ _ _ (by rw [(hrow x hx).1]; omega) (by rw [(hrow y hy).1]; omega)
    (fun j _ hj => sc_get p j (by omega))]
  simp only [Option.bind_some, sn_zero, zero_add, sn_div, sn_mul]

end Alphabet
end EaselModel.Alphabet
