import EaselModel.Alphabet.Model
/-! # C08 — alphabet type codes: `esl_abc_EncodeType`, `esl_abc_EncodeTypeMem`, `esl_abc_DecodeType`,
`esl_abc_ValidateType` (core Lean only). Strings are NUL-free byte lists. -/
namespace EaselModel.Alphabet.AbcType
open EaselModel.Alphabet EaselModel.Alphabet.Alphabet

def eslUNKNOWN : Nat := 0

/-- `tolower` / `toupper` of the C locale on a byte (bytes ≥ 0x80 and non-letters are left alone) -/
def lowerB (c : Nat) : Nat := if 65 ≤ c ∧ c ≤ 90 then c + 32 else c
def upperB (c : Nat) : Nat := if 97 ≤ c ∧ c ≤ 122 then c - 32 else c

/-- `strcasecmp(s, t) == 0` for NUL-free `s`, `t` -/
def strcaseEq (s t : List Nat) : Bool := s.map lowerB == t.map lowerB

/-- `esl_memstrcmp_case(p, n, s)` for a non-NULL chunk: the loop compares `toupper` of both sides, then the lengths -/
def memstrcmpCase : List Nat → List Nat → Bool
  | [], [] => true
  | [], _ :: _ => false
  | _ :: _, [] => false
  | p :: ps, c :: cs => if upperB p ≠ upperB c then false else memstrcmpCase ps cs

/-- the `if … else if` chain of `esl_abc_EncodeType`, in the order of the source -/
def names : List (List Nat × Nat) :=
  [(str "amino", eslAMINO), (str "rna", eslRNA), (str "dna", eslDNA), (str "coins", eslCOINS), (str "dice", eslDICE),
   (str "custom", eslNONSTANDARD)]

/-- `esl_abc_EncodeType(type)` -/
def encodeType (s : List Nat) : Nat :=
  match names.find? (fun p => strcaseEq s p.1) with
  | some p => p.2
  | none => eslUNKNOWN

/-- `esl_abc_EncodeTypeMem(type, n)` -/
def encodeTypeMem (s : List Nat) : Nat :=
  match names.find? (fun p => memstrcmpCase s p.1) with
  | some p => p.2
  | none => eslUNKNOWN

/-- `esl_abc_DecodeType(type)`; `none` = the eslEINVAL exception, NULL returned. `type` is a C `int` (here: any integer). -/
def decodeType (t : Int) : Option (List Nat) :=
  if t = 0 then some (str "unknown")
  else if t = 1 then some (str "RNA")
  else if t = 2 then some (str "DNA")
  else if t = 3 then some (str "amino")
  else if t = 4 then some (str "coins")
  else if t = 5 then some (str "dice")
  else if t = 6 then some (str "custom")
  else none

/-- `esl_abc_ValidateType(type)`: `true` = eslOK, `false` = eslFAIL -/
def validateType (t : Int) : Bool := !(decide (t ≤ 0) || decide (t > (eslNONSTANDARD : Int)))

end EaselModel.Alphabet.AbcType
