import EaselModel.Alphabet.Round4Lemmas
import EaselModel.Alphabet.ValidateLemmas
/-! # C08 — `esl_sq_Copy`: the four text/digital combinations convert faithfully and leave a consistent object -/
set_option linter.dupNamespace false
namespace EaselModel.Alphabet.Sq
open EaselModel.Alphabet EaselModel.Alphabet.Alphabet

/-- the text→digital branch with the validation pre-pass is `esl_sq_Digitize`'s conversion -/
theorem sqCopy_text_digital_eq (a : Alphabet) (txt : List Nat) (sameType : Bool) :
    sqCopy true a (.inl txt) true sameType = some (.ok (match sqDigitize a txt with
      | .ok d => (.ok, { n := txt.length, buf := d })
      | .error st => (st, reused true))) := by
  unfold sqCopy sqDigitize
  by_cases hv : validateSeq a txt = .ok
  · simp only [hv, bne_self_eq_false, Bool.and_false, Bool.false_eq_true, if_false, ne_eq, not_true_eq_false]
    cases hd : a.digitize txt with
    | mk st d =>
      simp only []
      by_cases hs : st = .ok
      · subst hs; simp
      · simp [hs]
  · have hb : (validateSeq a txt != Status.ok) = true := by simpa using hv
    simp [hv, hb]

/-- **text → digital**: eslOK iff every character is a character of the alphabet (`esl_abc_CIsValid`: ignored characters and
    bytes ≥ 0x80 are refused); then the copy holds one code per character, `n` = the text length = the digital length
    (the object passes the length test of `esl_sq_Validate`); otherwise eslEINVAL and `dst` is `esl_sq_Reuse`d (empty, n = 0) -/
theorem sqCopy_text_digital (a : Alphabet) (hKp : a.Kp ≤ 250) (txt : List Nat) (sameType : Bool) :
    sqCopy true a (.inl txt) true sameType = some (.ok (
      if txt.all a.cIsValid then (.ok, { n := txt.length, buf := mkDsq (txt.map a.inmapAt) }) else (.einval, reused true))) ∧
    (txt.all a.cIsValid = true → ({ n := txt.length, buf := mkDsq (txt.map a.inmapAt) } : Copied).consistent true = true) ∧
    (reused true).consistent true = true := by
  refine ⟨?_, fun hv => ?_, by decide⟩
  · rw [sqCopy_text_digital_eq, sqDigitize_spec]
    by_cases hv : txt.all a.cIsValid = true
    · simp [hv]
    · simp [hv]
  · have hs : SENTINEL ∉ txt.map a.inmapAt := by
      intro hm
      obtain ⟨c, hc, he⟩ := List.mem_map.mp hm
      have := List.all_eq_true.mp hv c hc
      unfold cIsValid at this
      simp only [Bool.and_eq_true, decide_eq_true_eq] at this
      unfold SENTINEL at he; omega
    unfold Copied.consistent
    simp only [if_true]
    rw [dsqlen_mkDsq _ hs]
    simp

/-- the other three combinations: text → text copies the string; digital → text spells every (valid) code, `n` kept;
    digital → digital copies the array when the alphabet types agree and raises eslEINCOMPAT otherwise; all leave `n` = the
    sequence length -/
theorem sqCopy_others (a : Alphabet) (txt codes : List Nat) (hs : SENTINEL ∉ codes) (hv : ∀ x ∈ codes, x < a.sym.length)
    (g : Bool) :
    sqCopy g a (.inl txt) false true = some (.ok (.ok, { n := txt.length, buf := txt })) ∧
    sqCopy g a (.inr (mkDsq codes, codes.length)) false true = some (.ok (.ok, { n := codes.length, buf := codes.map a.symAt })) ∧
    sqCopy g a (.inr (mkDsq codes, codes.length)) true true = some (.ok (.ok, { n := codes.length, buf := mkDsq codes })) ∧
    sqCopy g a (.inr (mkDsq codes, codes.length)) true false = some (.error .eincompat) ∧
    ({ n := codes.length, buf := mkDsq codes } : Copied).consistent true = true ∧
    ({ n := codes.length, buf := codes.map a.symAt } : Copied).consistent false = true := by
  have hlen : (mkDsq codes).length = codes.length + 2 := by simp [mkDsq]
  have hc : dsqcpy (mkDsq codes) codes.length = some (mkDsq codes) := by
    unfold dsqcpy; rw [if_pos (by omega), List.take_of_length_le (by omega)]
  refine ⟨rfl, ?_, ?_, rfl, ?_, ?_⟩
  · unfold sqCopy; simp only [textize_mkDsq a codes hv]
  · unfold sqCopy; simp [hc]
  · unfold Copied.consistent; simp only [if_true]; rw [dsqlen_mkDsq _ hs]; simp
  · unfold Copied.consistent; simp

end EaselModel.Alphabet.Sq
