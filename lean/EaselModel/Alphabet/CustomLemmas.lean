import EaselModel.Alphabet.Lemmas
/-! # C08 — custom alphabets: what `esl_alphabet_CreateCustom` + `SetEquiv` / `SetCaseInsensitive` / `SetDegeneracy` /
`SetIgnored` produce is well-formed (`Alphabet.WF`), so the conversion theorems apply to every custom alphabet -/
namespace EaselModel.Alphabet
namespace Alphabet

theorem getD_set_gen (l : List Nat) (j v i d : Nat) (hj : j < l.length) :
    (l.set j v).getD i d = if i = j then v else l.getD i d := by
  rw [List.getD_eq_getElem?_getD, List.getElem?_set]
  by_cases h : j = i
  · subst h; simp [hj]
  · have h' : ¬ i = j := fun e => h e.symm
    simp [h, h', List.getD_eq_getElem?_getD]

theorem getD_set_ne (l : List Nat) (j v i d : Nat) (h : i ≠ j) : (l.set j v).getD i d = l.getD i d := by
  rw [List.getD_eq_getElem?_getD, List.getElem?_set]
  have h' : ¬ j = i := fun e => h e.symm
  simp [h', List.getD_eq_getElem?_getD]

theorem initInmap_length (l : List Nat) (x : Nat) (m : List Nat) : (initInmap l x m).length = m.length := by
  induction l generalizing x m with
  | nil => rfl
  | cons s rest ih => simp [initInmap, ih]

theorem initInmap_notin (l : List Nat) (x : Nat) (m : List Nat) (c d : Nat) (h : c ∉ l) :
    (initInmap l x m).getD c d = m.getD c d := by
  induction l generalizing x m with
  | nil => rfl
  | cons s rest ih =>
    simp only [List.mem_cons, not_or] at h
    rw [initInmap, ih _ _ h.2, getD_set_ne _ _ _ _ _ h.1]

theorem initInmap_in (l : List Nat) (hnd : l.Nodup) (x : Nat) (m : List Nat) (hm : ∀ s ∈ l, s < m.length) (d : Nat) :
    ∀ i, i < l.length → (initInmap l x m).getD (l.getD i 0) d = x + i := by
  induction l generalizing x m with
  | nil => intro i hi; simp at hi
  | cons s rest ih =>
    intro i hi
    have hnd' := List.nodup_cons.mp hnd
    cases i with
    | zero =>
      simp only [List.getD_cons_zero, initInmap, Nat.add_zero]
      rw [initInmap_notin _ _ _ _ _ hnd'.1, getD_set_gen _ _ _ _ _ (hm s (by simp))]
      simp
    | succ i' =>
      simp only [List.getD_cons_succ, initInmap]
      rw [ih hnd'.2 (x + 1) (m.set s x) (fun s' hs' => by simp; exact hm s' (by simp [hs'])) i' (by simpa using hi)]
      omega

/-- `esl_alphabet_CreateCustom` on `Kp` distinct non-NUL 7-bit symbols with `1 ≤ K`, `K + 4 ≤ Kp` returns a
    well-formed alphabet -/
theorem createCustom_wf (syms : List Nat) (K : Nat) (hnd : syms.Nodup) (hascii : ∀ s ∈ syms, s < 128)
    (hK : 1 ≤ K) (hKp : K + 4 ≤ syms.length) (h250 : syms.length ≤ 250) :
    ∃ a, createCustom syms K syms.length = some a ∧ a.WF ∧ a.K = K ∧ a.Kp = syms.length ∧ a.sym = syms ∧
      a.complement = none := by
  have hne : ¬ syms.length * K = 0 := by
    intro h; rcases Nat.mul_eq_zero.mp h with h | h <;> omega
  refine ⟨_, by unfold createCustom; rw [if_neg (by simp), if_neg (by omega), if_neg hne], ?_, rfl, rfl, rfl, rfl⟩
  refine ⟨hKp, h250, rfl, by simp [initInmap_length], fun x hx => ?_⟩
  have hmem : syms.getD x 0 ∈ syms := by
    rw [List.getD_eq_getElem?_getD, List.getElem?_eq_getElem hx]; simp
  refine ⟨hascii _ hmem, ?_⟩
  show (initInmap syms 0 (List.replicate 128 ILLEGAL)).getD (syms.getD x 0) ILLEGAL = x
  rw [initInmap_in syms hnd 0 _ (fun s hs => by simp; exact hascii s hs) ILLEGAL x hx]
  omega

theorem symAt_mem (a : Alphabet) (h : a.WF) (x : Nat) (hx : x < a.Kp) : a.symAt x ∈ a.sym := by
  unfold symAt
  rw [List.getD_eq_getElem?_getD, List.getElem?_eq_getElem (by rw [h.2.2.1]; exact hx)]; simp

theorem strchr_none (a : Alphabet) (c : Nat) (h : a.strchrSym c = none) : c ∉ a.sym := by
  unfold strchrSym at h
  by_cases h0 : c = 0
  · simp [h0] at h
  · simp only [h0, if_false] at h
    intro hm
    have := List.idxOf_lt_length_iff.mpr hm
    simp [this] at h

/-- changing the input map at a character that is not a symbol keeps the alphabet well-formed -/
theorem wf_set_inmap (a : Alphabet) (h : a.WF) (u v : Nat) (hu : u ∉ a.sym) :
    ({ a with inmap := a.inmap.set u v } : Alphabet).WF := by
  obtain ⟨h1, h2, h3, h4, h5⟩ := h
  refine ⟨h1, h2, h3, by simpa using h4, fun x hx => ?_⟩
  obtain ⟨g1, g2⟩ := h5 x hx
  refine ⟨g1, ?_⟩
  have hne : a.symAt x ≠ u := fun e => hu (e ▸ symAt_mem a ⟨h1, h2, h3, h4, h5⟩ x hx)
  show (a.inmap.set u v).getD (a.symAt x) ILLEGAL = x
  rw [getD_set_ne _ _ _ _ _ hne]
  exact g2

/-- `esl_alphabet_SetEquiv` keeps a well-formed alphabet well-formed (whatever its status) -/
theorem setEquiv_wf (a : Alphabet) (h : a.WF) (sym c : Nat) : (a.setEquiv sym c).2.WF := by
  unfold setEquiv
  cases h1 : a.strchrSym sym with
  | some _ => exact h
  | none =>
    cases h2 : a.strchrSym c with
    | none => exact h
    | some x => exact wf_set_inmap a h sym x (strchr_none a sym h1)

/-- a symbol of a well-formed alphabet is a valid input character -/
theorem sym_valid (a : Alphabet) (h : a.WF) (x : Nat) (hx : x < a.Kp) : a.cIsValid (a.symAt x) = true := by
  obtain ⟨g1, g2⟩ := h.2.2.2.2 x hx
  unfold cIsValid
  simp [g1, g2, hx]

theorem notvalid_notin (a : Alphabet) (h : a.WF) (u : Nat) (hu : a.cIsValid u = false) : u ∉ a.sym := by
  intro hm
  obtain ⟨i, hi, rfl⟩ := List.getElem_of_mem hm
  have hi' : i < a.Kp := by rw [← h.2.2.1]; exact hi
  have : a.symAt i = a.sym[i] := by
    unfold symAt; rw [List.getD_eq_getElem?_getD, List.getElem?_eq_getElem hi]; simp
  rw [← this, sym_valid a h i hi'] at hu
  cases hu

theorem caseStep_wf (a : Alphabet) (h : a.WF) (lc : Nat) (a' : Alphabet) (hs : a.caseStep lc = some a') : a'.WF := by
  unfold caseStep at hs
  simp only [] at hs
  cases c1 : (a.cIsValid lc && !a.cIsValid (toUpper lc))
  · simp only [c1, Bool.false_eq_true, if_false] at hs
    cases c2 : (a.cIsValid (toUpper lc) && !a.cIsValid lc)
    · simp only [c2, Bool.false_eq_true, if_false] at hs
      cases c3 : (a.cIsValid lc && a.cIsValid (toUpper lc) && decide (a.inmapAt (toUpper lc) ≠ a.inmapAt lc))
      · simp only [c3, Bool.false_eq_true, if_false, Option.some.injEq] at hs
        subst hs; exact h
      · simp only [c3, if_true] at hs
        cases hs
    · simp only [c2, if_true, Option.some.injEq] at hs
      subst hs
      have : a.cIsValid lc = false := by
        simp only [Bool.and_eq_true, Bool.not_eq_true'] at c2; exact c2.2
      exact wf_set_inmap a h _ _ (notvalid_notin a h _ this)
  · simp only [c1, if_true, Option.some.injEq] at hs
    subst hs
    have : a.cIsValid (toUpper lc) = false := by
      simp only [Bool.and_eq_true, Bool.not_eq_true'] at c1; exact c1.2
    exact wf_set_inmap a h _ _ (notvalid_notin a h _ this)

theorem caseLoop_wf (l : List Nat) (a : Alphabet) (h : a.WF) : (a.caseLoop l).2.WF := by
  induction l generalizing a with
  | nil => exact h
  | cons lc rest ih =>
    unfold caseLoop
    cases hs : a.caseStep lc with
    | none => exact h
    | some a' => exact ih a' (caseStep_wf a h lc a' hs)

/-- `esl_alphabet_SetCaseInsensitive` keeps a well-formed alphabet well-formed (also when it stops with eslECORRUPT) -/
theorem setCaseInsensitive_wf (a : Alphabet) (h : a.WF) : a.setCaseInsensitive.2.WF :=
  caseLoop_wf _ a h

theorem degenLoop_fields (x : Nat) (ds : List Nat) (a : Alphabet) :
    (a.degenLoop x ds).2.K = a.K ∧ (a.degenLoop x ds).2.Kp = a.Kp ∧ (a.degenLoop x ds).2.sym = a.sym ∧
    (a.degenLoop x ds).2.inmap = a.inmap := by
  induction ds generalizing a with
  | nil => exact ⟨rfl, rfl, rfl, rfl⟩
  | cons d rest ih =>
    unfold degenLoop
    cases h1 : a.strchrSym d with
    | none => exact ⟨rfl, rfl, rfl, rfl⟩
    | some y =>
      simp only []
      split
      · exact ⟨rfl, rfl, rfl, rfl⟩
      · exact ih _

theorem wf_of_fields (a b : Alphabet) (h : a.WF) (h1 : b.K = a.K) (h2 : b.Kp = a.Kp) (h3 : b.sym = a.sym)
    (h4 : b.inmap = a.inmap) : b.WF := by
  unfold WF symAt inmapAt at *
  rw [h1, h2, h3, h4]; exact h

/-- `esl_alphabet_SetDegeneracy` does not touch the symbols or the input map -/
theorem setDegeneracy_wf (a : Alphabet) (h : a.WF) (c : Nat) (ds : List Nat) : (a.setDegeneracy c ds).2.WF := by
  unfold setDegeneracy
  cases h1 : a.strchrSym c with
  | none => exact h
  | some x =>
    simp only []
    split
    · exact h
    · split
      · exact h
      · obtain ⟨f1, f2, f3, f4⟩ := degenLoop_fields x ds a
        exact wf_of_fields a _ h f1 f2 f3 f4

/-- `esl_alphabet_SetIgnored` keeps the alphabet well-formed as long as no symbol of the alphabet is declared ignored -/
theorem setIgnored_wf (a : Alphabet) (h : a.WF) (chars : List Nat) (hc : ∀ c ∈ chars, c ∉ a.sym) :
    (a.setIgnored chars).WF := by
  unfold setIgnored
  induction chars generalizing a with
  | nil => exact h
  | cons c rest ih =>
    simp only [List.foldl_cons]
    have h' := wf_set_inmap a h c IGNORED (hc c (by simp))
    have := ih _ h' (fun c' hc' => hc c' (by simp [hc']))
    exact this

end Alphabet
end EaselModel.Alphabet

namespace EaselModel.Alphabet
namespace Alphabet

/-- the custom alphabets: anything obtained from `esl_alphabet_CreateCustom` on distinct 7-bit symbols by any sequence of
    `SetEquiv`, `SetCaseInsensitive`, `SetDegeneracy` calls (whatever their arguments and statuses) and `SetIgnored`
    calls that do not declare a symbol of the alphabet itself ignored -/
inductive Built : Alphabet → Prop
  | create (syms : List Nat) (K : Nat) (hnd : syms.Nodup) (hascii : ∀ s ∈ syms, s < 128) (hK : 1 ≤ K)
      (hKp : K + 4 ≤ syms.length) (h250 : syms.length ≤ 250) (a : Alphabet)
      (h : createCustom syms K syms.length = some a) : Built a
  | equiv (a : Alphabet) (h : Built a) (sym c : Nat) : Built (a.setEquiv sym c).2
  | caseins (a : Alphabet) (h : Built a) : Built a.setCaseInsensitive.2
  | degen (a : Alphabet) (h : Built a) (c : Nat) (ds : List Nat) : Built (a.setDegeneracy c ds).2
  | ignored (a : Alphabet) (h : Built a) (chars : List Nat) (hc : ∀ c ∈ chars, c ∉ a.sym) : Built (a.setIgnored chars)

theorem built_wf (a : Alphabet) (h : Built a) : a.WF := by
  induction h with
  | create syms K hnd hascii hK hKp h250 a h =>
    obtain ⟨a', h1, h2, _⟩ := createCustom_wf syms K hnd hascii hK hKp h250
    rw [h] at h1; cases h1; exact h2
  | equiv a _ sym c ih => exact setEquiv_wf a ih sym c
  | caseins a _ ih => exact setCaseInsensitive_wf a ih
  | degen a _ c ds ih => exact setDegeneracy_wf a ih c ds
  | ignored a _ chars hc ih => exact setIgnored_wf a ih chars hc

end Alphabet
end EaselModel.Alphabet
