/-! # C08 — executable model of esl_alphabet.c (core Lean only; the driver imports this file)

Everything is `Nat`-valued: bytes of text are `Nat < 256`, digital codes (`ESL_DSQ`, an unsigned 8-bit type) are
`Nat < 256`.  A digital sequence `dsq` is the whole C array *including* the two sentinel bytes: `dsq[0]`, `dsq[L+1]`.
Data-dependent table reads go through `[_]?`; `none` is the outcome **fault** (out-of-bounds read in the C code).

The functions mirror the loops of the C code (index expressions, in-place updates); the declarative statements they
are proved equal to live in `Alphabet/Spec.lean`. -/
namespace EaselModel.Alphabet

def SENTINEL : Nat := 255
def ILLEGAL  : Nat := 254
def IGNORED  : Nat := 253
def EOL      : Nat := 252
def EOD      : Nat := 251

def eslRNA : Nat := 1
def eslDNA : Nat := 2
def eslAMINO : Nat := 3
def eslCOINS : Nat := 4
def eslDICE : Nat := 5
def eslNONSTANDARD : Nat := 6

inductive Status | ok | einval | eincompat | ecorrupt | einconceivable
  deriving DecidableEq, Repr

def Status.name : Status → String
  | .ok => "ok" | .einval => "einval" | .eincompat => "eincompat" | .ecorrupt => "ecorrupt"
  | .einconceivable => "einconceivable"

/-- `ESL_ALPHABET`. `sym` has `Kp` entries (the C array has one more, the NUL); `inmap` has 128;
    `degen` is `Kp` rows of `K` flags (C `char` 0/1); `complement` is `NULL` or `Kp` codes. -/
structure Alphabet where
  type : Nat
  K : Nat
  Kp : Nat
  sym : List Nat
  inmap : List Nat
  degen : List (List Nat)
  ndegen : List Nat
  complement : Option (List Nat)
  deriving DecidableEq, Repr

namespace Alphabet

/-! ## the macros of esl_alphabet.h (`x` is an unsigned byte promoted to `int`; `x < Kp-2` is written `x+2 < Kp`) -/
def xIsValid (a : Alphabet) (x : Nat) : Bool := decide (x < a.Kp)
def xIsResidue (a : Alphabet) (x : Nat) : Bool := decide (x < a.K) || (decide (x > a.K) && decide (x + 2 < a.Kp))
def xIsCanonical (a : Alphabet) (x : Nat) : Bool := decide (x < a.K)
def xIsGap (a : Alphabet) (x : Nat) : Bool := decide (x = a.K)
def xIsDegenerate (a : Alphabet) (x : Nat) : Bool := decide (x > a.K) && decide (x + 2 < a.Kp)
def xIsUnknown (a : Alphabet) (x : Nat) : Bool := decide (x + 3 = a.Kp)
def xIsNonresidue (a : Alphabet) (x : Nat) : Bool := decide (x + 2 = a.Kp)
def xIsMissing (a : Alphabet) (x : Nat) : Bool := decide (x + 1 = a.Kp)
def gap (a : Alphabet) : Nat := a.K
def unknown (a : Alphabet) : Nat := a.Kp - 3
def nonresidue (a : Alphabet) : Nat := a.Kp - 2
def missing (a : Alphabet) : Nat := a.Kp - 1

/-- `a->inmap[c]` for `c < 128` (the callers guard the index) -/
def inmapAt (a : Alphabet) (c : Nat) : Nat := a.inmap.getD c ILLEGAL

/-- `esl_abc_CIsValid(a,c)` = `isascii(c) && a->inmap[c] < a->Kp` -/
def cIsValid (a : Alphabet) (c : Nat) : Bool := decide (c < 128) && decide (a.inmapAt c < a.Kp)

/-! ## 1. construction -/

/-- `strchr(a->sym, c)` as an index: first position of `c`; `c = 0` finds the terminating NUL at index `Kp`. -/
def strchrSym (a : Alphabet) (c : Nat) : Option Nat :=
  if c = 0 then some a.sym.length
  else let i := a.sym.idxOf c; if i < a.sym.length then some i else none

/-- the loop `for (x = 0; x < Kp; x++) inmap[(int) sym[x]] = x` -/
def initInmap : List Nat → Nat → List Nat → List Nat
  | [], _, m => m
  | s :: rest, x, m => initInmap rest (x+1) (m.set s x)

/-- `esl_alphabet_CreateCustom(alphabet, K, Kp)`; `none` = returns NULL (argument check or zero-size allocation).
    Precondition of the C code (not checked there): every symbol is a non-NUL 7-bit character. -/
def createCustom (alphabet : List Nat) (K Kp : Nat) : Option Alphabet :=
  if alphabet.length ≠ Kp then none
  else if Kp < K + 4 then none
  else if Kp * K = 0 then none          -- ESL_ALLOC of size 0
  else
    let inmap := initInmap alphabet 0 (List.replicate 128 ILLEGAL)
    let degen := (List.range Kp).map fun x =>
      (List.range K).map fun y => if (x < K ∧ x = y) ∨ x = Kp - 3 then 1 else 0
    let ndegen := (List.range Kp).map fun x => if x < K then 1 else if x = Kp - 3 then K else 0
    some { type := eslNONSTANDARD, K := K, Kp := Kp, sym := alphabet, inmap := inmap,
           degen := degen, ndegen := ndegen, complement := none }

/-- `esl_alphabet_SetEquiv(a, sym, c)` (`sym` is a 7-bit character) -/
def setEquiv (a : Alphabet) (sym c : Nat) : Status × Alphabet :=
  match a.strchrSym sym with
  | some _ => (.einval, a)
  | none =>
    match a.strchrSym c with
    | none => (.einval, a)
    | some x => (.ok, { a with inmap := a.inmap.set sym x })

/-- `toupper` in the C locale for `lc ∈ 'a'..'z'` -/
def toUpper (c : Nat) : Nat := if 97 ≤ c ∧ c ≤ 122 then c - 32 else c

/-- the body of the loop of `esl_alphabet_SetCaseInsensitive` for one `lc`; `none` = the eslECORRUPT exception -/
def caseStep (a : Alphabet) (lc : Nat) : Option Alphabet :=
  let uc := toUpper lc
  if a.cIsValid lc && !a.cIsValid uc then some { a with inmap := a.inmap.set uc (a.inmapAt lc) }
  else if a.cIsValid uc && !a.cIsValid lc then some { a with inmap := a.inmap.set lc (a.inmapAt uc) }
  else if a.cIsValid lc && a.cIsValid uc && a.inmapAt uc ≠ a.inmapAt lc then none
  else some a

def caseLoop (a : Alphabet) : List Nat → Status × Alphabet
  | [] => (.ok, a)
  | lc :: rest =>
    match a.caseStep lc with
    | none => (.ecorrupt, a)
    | some a' => caseLoop a' rest

/-- `esl_alphabet_SetCaseInsensitive(a)` -/
def setCaseInsensitive (a : Alphabet) : Status × Alphabet :=
  caseLoop a ((List.range 26).map (· + 97))

/-- the `while (*ds)` loop of `esl_alphabet_SetDegeneracy`: modifications made before an error remain -/
def degenLoop (a : Alphabet) (x : Nat) : List Nat → Status × Alphabet
  | [] => (.ok, a)
  | d :: rest =>
    match a.strchrSym d with
    | none => (.einval, a)
    | some y =>
      if ¬ a.xIsCanonical y then (.einval, a)
      else
        let row := (a.degen.getD x []).set y 1
        let a' := { a with degen := a.degen.set x row, ndegen := a.ndegen.set x (a.ndegen.getD x 0 + 1) }
        degenLoop a' x rest

/-- `esl_alphabet_SetDegeneracy(a, c, ds)`; `ds` is a NUL-free byte string -/
def setDegeneracy (a : Alphabet) (c : Nat) (ds : List Nat) : Status × Alphabet :=
  match a.strchrSym c with
  | none => (.einval, a)
  | some x =>
    if x + 3 = a.Kp then (.einval, a)
    else if x < a.K + 1 ∨ x + 2 ≥ a.Kp then (.einval, a)
    else degenLoop a x ds

/-- `esl_alphabet_SetIgnored(a, chars)` (7-bit characters) -/
def setIgnored (a : Alphabet) (chars : List Nat) : Alphabet :=
  { a with inmap := chars.foldl (fun m c => m.set c IGNORED) a.inmap }

/-- the hand-written table of `set_complementarity()` -/
def complementTable : List Nat := [3, 2, 1, 0, 4, 6, 5, 8, 7, 9, 10, 14, 13, 12, 11, 15, 16, 17]

/-- run a list of construction calls, ignoring statuses exactly as `create_dna()` etc. do -/
def applyEquivs (a : Alphabet) (l : List (Nat × Nat)) : Alphabet :=
  l.foldl (fun a p => (a.setEquiv p.1 p.2).2) a
def applyDegens (a : Alphabet) (l : List (Nat × List Nat)) : Alphabet :=
  l.foldl (fun a p => (a.setDegeneracy p.1 p.2).2) a

def str (s : String) : List Nat := s.toList.map Char.toNat
def ch (c : Char) : Nat := c.toNat

/-- `create_dna()` -/
def createDna : Option Alphabet := do
  let a ← createCustom (str "ACGT-RYMKSWHBVDN*~") 4 18
  let a := { a with type := eslDNA }
  let a := applyEquivs a [(ch 'U', ch 'T'), (ch 'X', ch 'N'), (ch 'I', ch 'A'), (ch '_', ch '-'), (ch '.', ch '-')]
  let a := a.setCaseInsensitive.2
  let a := applyDegens a [(ch 'R', str "AG"), (ch 'Y', str "CT"), (ch 'M', str "AC"), (ch 'K', str "GT"),
    (ch 'S', str "CG"), (ch 'W', str "AT"), (ch 'H', str "ACT"), (ch 'B', str "CGT"), (ch 'V', str "ACG"),
    (ch 'D', str "AGT")]
  some { a with complement := some complementTable }

/-- `create_rna()` -/
def createRna : Option Alphabet := do
  let a ← createCustom (str "ACGU-RYMKSWHBVDN*~") 4 18
  let a := { a with type := eslRNA }
  let a := applyEquivs a [(ch 'T', ch 'U'), (ch 'X', ch 'N'), (ch 'I', ch 'A'), (ch '_', ch '-'), (ch '.', ch '-')]
  let a := a.setCaseInsensitive.2
  let a := applyDegens a [(ch 'R', str "AG"), (ch 'Y', str "CU"), (ch 'M', str "AC"), (ch 'K', str "GU"),
    (ch 'S', str "CG"), (ch 'W', str "AU"), (ch 'H', str "ACU"), (ch 'B', str "CGU"), (ch 'V', str "ACG"),
    (ch 'D', str "AGU")]
  some { a with complement := some complementTable }

/-- `create_amino()` -/
def createAmino : Option Alphabet := do
  let a ← createCustom (str "ACDEFGHIKLMNPQRSTVWY-BJZOUX*~") 20 29
  let a := { a with type := eslAMINO }
  let a := applyEquivs a [(ch '_', ch '-'), (ch '.', ch '-')]
  let a := a.setCaseInsensitive.2
  let a := applyDegens a [(ch 'B', str "ND"), (ch 'J', str "IL"), (ch 'Z', str "QE"), (ch 'U', str "C"),
    (ch 'O', str "K")]
  some a

/-- `create_coins()` -/
def createCoins : Option Alphabet := do
  let a ← createCustom (str "HT-X*~") 2 6
  let a := { a with type := eslCOINS }
  let a := applyEquivs a [(ch '_', ch '-'), (ch '.', ch '-')]
  some a.setCaseInsensitive.2

/-- `create_dice()` (the C code sets `type = eslCOINS` here; mirrored) -/
def createDice : Option Alphabet := do
  let a ← createCustom (str "123456-X*~") 6 10
  let a := { a with type := eslCOINS }
  let a := applyEquivs a [(ch '_', ch '-'), (ch '.', ch '-')]
  some a.setCaseInsensitive.2

/-! ## 2. digital sequences -/

/-- loop body of `esl_abc_Digitize` (with the 7-bit guard: a byte ≥ 0x80 is an illegal character).
    State: (status, codes written so far, most recent first). -/
def digitizeStep (a : Alphabet) (st : Status × List Nat) (c : Nat) : Status × List Nat :=
  let x := if c < 128 then a.inmapAt c else ILLEGAL
  if x < a.Kp then (st.1, x :: st.2)
  else if x = IGNORED then st
  else (.einval, a.unknown :: st.2)

/-- `esl_abc_Digitize(a, seq, dsq)`: returns the status and the `dsq` array `[0..j]`. `seq` is NUL-free. -/
def digitize (a : Alphabet) (seq : List Nat) : Status × List Nat :=
  let r := seq.foldl a.digitizeStep (.ok, [SENTINEL])
  (r.1, (SENTINEL :: r.2).reverse)

/-- the loop `for (i = 0; i < L; i++) seq[i] = a->sym[dsq[i+1]]`, `k` iterations left -/
def textizeGo (a : Alphabet) (dsq : List Nat) : Nat → Nat → Option (List Nat)
  | 0, _ => some []
  | k+1, i => do
    let x ← dsq[i+1]?
    let c ← a.sym[x]?
    let r ← textizeGo a dsq k (i+1)
    some (c :: r)

/-- `esl_abc_Textize(a, dsq, L, seq)`: `seq[i] = a->sym[dsq[i+1]]` for `i < L` -/
def textize (a : Alphabet) (dsq : List Nat) (L : Nat) : Option (List Nat) := textizeGo a dsq L 0

/-- `esl_abc_TextizeN(a, dptr, L, buf)` where `dptr = dsq + off`; returns the bytes written to `buf`
    (a NUL is written, and the loop left, at the first sentinel). -/
def textizeN (a : Alphabet) (dsq : List Nat) (off : Nat) : Nat → Nat → List Nat → Option (List Nat)
  | 0, _, acc => some acc.reverse
  | k+1, i, acc => do
    let x ← dsq[off + i]?
    if x = SENTINEL then some (0 :: acc).reverse
    else
      let c ← a.sym[x]?
      textizeN a dsq off k (i+1) (c :: acc)

/-- result of `esl_abc_dsqcat_noalloc`'s loop body: `.error` = `ESL_EXCEPTION(eslEINCONCEIVABLE)` -/
def dsqcatStep (inmap : List Nat) (st : Status × List Nat) (c : Nat) : Except Status (Status × List Nat) :=
  if c ≥ 128 then .ok (.einval, inmap.getD 0 ILLEGAL :: st.2)
  else
    let x := inmap.getD c ILLEGAL
    if x ≤ 127 then .ok (st.1, x :: st.2)
    else if x = ILLEGAL then .ok (.einval, inmap.getD 0 ILLEGAL :: st.2)
    else if x = IGNORED then .ok st
    else .error .einconceivable

def dsqcatLoop (inmap : List Nat) : List Nat → Status × List Nat → Except Status (Status × List Nat)
  | [], st => .ok st
  | c :: cs, st =>
    match dsqcatStep inmap st c with
    | .ok st' => dsqcatLoop inmap cs st'
    | .error e => .error e

/-- `esl_abc_dsqcat_noalloc(inmap, dsq, &L, s, n)`: `dsq[0..L]` is kept, codes are written from `L+1`, then a sentinel.
    Returns (status, new dsq, new L), or the exception status (dsq then is left unterminated). -/
def dsqcatNoalloc (inmap : List Nat) (dsq : List Nat) (L : Nat) (s : List Nat) : Except Status (Status × List Nat × Nat) :=
  match dsqcatLoop inmap s (.ok, []) with
  | .error e => .error e
  | .ok (st, newrev) =>
    let d := dsq.take (L+1) ++ newrev.reverse ++ [SENTINEL]
    .ok (st, d, L + newrev.length)

/-- `esl_abc_dsqlen`: scan from `dsq[1]` to the sentinel; `none` = runs off the array -/
def dsqlen (dsq : List Nat) : Option Nat :=
  let i := (dsq.drop 1).idxOf SENTINEL
  if i < (dsq.drop 1).length then some i else none

/-- `esl_abc_dsqcat(inmap, &dsq, &L, s, n)`: `dsq = none` is a NULL pointer, `L = none` is -1 -/
def dsqcat (inmap : List Nat) (dsq : Option (List Nat)) (L : Option Nat) (s : List Nat) :
    Option (Except Status (Status × Option (List Nat) × Nat)) := do
  let L ← match L with
    | some l => some l
    | none => match dsq with
      | some d => dsqlen d
      | none => some 0
  if s.length = 0 then return .ok (.ok, dsq, L)
  let d := match dsq with
    | some d => d
    | none => [SENTINEL]
  match dsqcatNoalloc inmap d L s with
  | .error e => return .error e
  | .ok (st, d', L') => return .ok (st, some d', L')

/-- `esl_abc_dsqrlen` -/
def dsqrlen (a : Alphabet) (dsq : List Nat) : Option Nat := do
  let n ← dsqlen dsq
  some (((dsq.drop 1).take n).filter a.xIsResidue).length

/-- loop of `esl_abc_CDealign` / `esl_abc_XDealign`, in place on `s` (text: `base = 0`, digital: `base = 1`):
    `s[n++] = s[apos-1+base]` for every `apos` whose reference code is neither gap nor missing. -/
def dealignLoop (a : Alphabet) (base : Nat) : List Nat → Nat → Nat → List Nat → Option (List Nat × Nat)
  | [], _, n, s => some (s, n)
  | r :: refs, apos, n, s =>
    if !a.xIsGap r && !a.xIsMissing r then do
      let c ← s[apos - 1 + base]?
      if n < s.length then dealignLoop a base refs (apos+1) (n+1) (s.set n c) else none
    else dealignLoop a base refs (apos+1) n s

/-- `esl_abc_CDealign(abc, s, ref_ax, &rlen)`: returns the C string left in `s` and `rlen`. `s` is the `char` array
    without its NUL. -/
def cDealign (a : Alphabet) (s : List Nat) (ref : List Nat) : Option (List Nat × Nat) := do
  let alen ← dsqlen ref
  let (s', n) ← dealignLoop a 0 ((ref.drop 1).take alen) 1 0 s
  if n ≤ s'.length then some (s'.take n, n) else none

/-- `esl_abc_XDealign(abc, x, ref_ax, &rlen)`: returns the new digital `x` (up to its new sentinel) and `rlen` -/
def xDealign (a : Alphabet) (x : List Nat) (ref : List Nat) : Option (List Nat × Nat) := do
  let alen ← dsqlen ref
  if x.length = 0 then none else
  let x := x.set 0 SENTINEL
  let (x', n) ← dealignLoop a 1 ((ref.drop 1).take alen) 1 1 x
  if n < x'.length then some ((x'.set n SENTINEL).take (n+1), n - 1) else none

/-- `esl_abc_ConvertDegen2X` -/
def convertDegen2X (a : Alphabet) (dsq : List Nat) : Option (List Nat) := do
  let n ← dsqlen dsq
  some (dsq.take 1 ++ ((dsq.drop 1).take n).map (fun x => if a.xIsDegenerate x then a.unknown else x) ++ dsq.drop (n+1))

/-- the `for (pos = 1; pos <= n/2; pos++)` loop of `esl_abc_revcomp`, `k` iterations left, in place on `d` -/
def revcompLoop (comp : List Nat) (n : Nat) : Nat → Nat → List Nat → Option (List Nat)
  | 0, _, d => some d
  | k+1, pos, d => do
    let hi ← d[n - pos + 1]?
    let lo ← d[pos]?
    let x ← comp[hi]?
    let y ← comp[lo]?
    if n - pos + 1 < d.length then
      revcompLoop comp n k (pos+1) ((d.set (n - pos + 1) y).set pos x)
    else none

/-- `esl_abc_revcomp(abc, dsq, n)`; the outer `Except` error is the eslEINCOMPAT exception, inner `none` a fault -/
def revcomp (a : Alphabet) (dsq : List Nat) (n : Nat) : Except Status (Option (List Nat)) :=
  match a.complement with
  | none => .error .eincompat
  | some comp => .ok do
    let d ← revcompLoop comp n (n/2) 1 dsq
    if n % 2 = 1 then
      let pos := n/2 + 1
      let z ← d[pos]?
      let c ← comp[z]?
      some (d.set pos c)
    else some d

/-! ## 3. degenerate scores and counts, polymorphic in the number type -/

/-- the arithmetic the scoring routines use -/
class ScoreNum (α : Type) where
  zero : α
  add : α → α → α
  sub : α → α → α
  mul : α → α → α
  div : α → α → α
  ofNat : Nat → α

open ScoreNum in
/-- `for (i = 0; i < K; i++) if (degen[x][i]) result += sc[i]` — `none` if a read is out of bounds -/
def degenFold {α : Type} [ScoreNum α] (row : List Nat) (f : Nat → Option α) : Nat → Nat → α → Option α
  | 0, _, acc => some acc
  | k+1, i, acc => do
    let flag ← row[i]?
    if flag ≠ 0 then
      let v ← f i
      degenFold row f k (i+1) (add acc v)
    else degenFold row f k (i+1) acc

open ScoreNum in
/-- `esl_abc_FAvgScore` / `esl_abc_DAvgScore` -/
def avgScore {α : Type} [ScoreNum α] (a : Alphabet) (x : Nat) (sc : List α) : Option α :=
  if !a.xIsResidue x then some zero
  else do
    let row ← a.degen[x]?
    let nd ← a.ndegen[x]?
    let r ← degenFold row (fun i => sc[i]?) a.K 0 zero
    some (div r (ofNat nd))

open ScoreNum in
/-- `esl_abc_FExpectScore` / `esl_abc_DExpectScore`: returns `result / denom` -/
def expectScore {α : Type} [ScoreNum α] (a : Alphabet) (x : Nat) (sc p : List α) : Option α :=
  if !a.xIsResidue x then some zero
  else do
    let row ← a.degen[x]?
    let r ← degenFold row (fun i => do let s ← sc[i]?; let q ← p[i]?; some (mul s q)) a.K 0 zero
    let d ← degenFold row (fun i => p[i]?) a.K 0 zero
    some (div r d)

open ScoreNum in
/-- the `for (y = 0; y < K; y++) if (degen[x][y]) ct[y] += wt / ndegen[x]` loop -/
def countLoop {α : Type} [ScoreNum α] (row : List Nat) (share : α) : Nat → Nat → List α → Option (List α)
  | 0, _, ct => some ct
  | k+1, y, ct => do
    let flag ← row[y]?
    if flag ≠ 0 then
      let c ← ct[y]?
      countLoop row share k (y+1) (ct.set y (add c share))
    else countLoop row share k (y+1) ct

open ScoreNum in
/-- `esl_abc_FCount` / `esl_abc_DCount` -/
def count {α : Type} [ScoreNum α] (a : Alphabet) (ct : List α) (x : Nat) (wt : α) : Option (List α) :=
  if a.xIsCanonical x || a.xIsGap x then do
    let c ← ct[x]?
    some (ct.set x (add c wt))
  else if a.xIsMissing x || a.xIsNonresidue x then some ct
  else do
    let row ← a.degen[x]?
    let nd ← a.ndegen[x]?
    countLoop row (div wt (ofNat nd)) a.K 0 ct

open ScoreNum in
/-- the accumulation loop of `esl_abc_Match`: `(prob, sx, sy)` -/
def matchLoop {α : Type} [ScoreNum α] (rowx rowy : List Nat) (pf : Nat → Option α) :
    Nat → Nat → α × α × α → Option (α × α × α)
  | 0, _, acc => some acc
  | k+1, i, (prob, sx, sy) => do
    let fx ← rowx[i]?
    let sx ← if fx ≠ 0 then (pf i).map (add sx) else some sx
    let fy ← rowy[i]?
    let sy ← if fy ≠ 0 then (pf i).map (add sy) else some sy
    let prob ← if fx ≠ 0 ∧ fy ≠ 0 then (pf i).map (fun q => add prob (mul q q)) else some prob
    matchLoop rowx rowy pf k (i+1) (prob, sx, sy)

open ScoreNum in
/-- `esl_abc_Match(abc, x, y, p)`; `p = none` is the NULL pointer (uniform background). Comparisons involving a gap,
    nonresidue, missing-data or invalid code return 0.0 (the guard tests both `x` and `y`). -/
def matchProb {α : Type} [ScoreNum α] (a : Alphabet) (x y : Nat) (p : Option (List α)) : Option α :=
  if a.xIsCanonical x && a.xIsCanonical y then some (if x = y then ofNat 1 else zero)
  else if !a.xIsResidue x || !a.xIsResidue y then some zero
  else do
    let rowx ← a.degen[x]?
    let rowy ← a.degen[y]?
    let pf : Nat → Option α := match p with
      | some pl => fun i => pl[i]?
      | none => fun _ => some (div (ofNat 1) (ofNat a.K))
    let (prob, sx, sy) ← matchLoop rowx rowy pf a.K 0 (zero, zero, zero)
    some (div prob (mul sx sy))

/-- the loop `for (x = K+1; x <= Kp-3; x++) sc[x] = score(a, x, sc)` of the `esl_abc_{I,F,D}{Avg,Expect}ScVec` wrappers:
    `k` iterations left, in place on the `Kp`-long vector `sc`; `none` = a read or the store is out of bounds -/
def scVecLoop {β : Type} (f : Nat → List β → Option β) : Nat → Nat → List β → Option (List β)
  | 0, _, sc => some sc
  | k+1, x, sc => do
    let v ← f x sc
    if x < sc.length then scVecLoop f k (x+1) (sc.set x v) else none

/-- `esl_abc_{F,D}AvgScVec(a, sc)` -/
def avgScVec {α : Type} [ScoreNum α] (a : Alphabet) (sc : List α) : Option (List α) :=
  scVecLoop (fun x sc => a.avgScore x sc) (a.Kp - 3 - a.K) (a.K + 1) sc

/-- `esl_abc_{F,D}ExpectScVec(a, sc, p)` -/
def expectScVec {α : Type} [ScoreNum α] (a : Alphabet) (sc p : List α) : Option (List α) :=
  scVecLoop (fun x sc => a.expectScore x sc p) (a.Kp - 3 - a.K) (a.K + 1) sc

/-- positions and characters `esl_abc_ValidateSeq` counts as bad: not `esl_abc_CIsValid` (with an alphabet), or not 7-bit
    (without one) -/
def badChars (a : Option Alphabet) : List Nat → Nat → List (Nat × Nat)
  | [], _ => []
  | c :: cs, i =>
    let bad := match a with
      | some a => !a.cIsValid c
      | none => decide (c ≥ 128)
    if bad then (c, i) :: badChars a cs (i+1) else badChars a cs (i+1)

/-- `esl_abc_ValidateSeq(a, seq, L, errbuf)`: status and the message left in `errbuf` (1-based position of the first bad
    character) -/
def validateSeqMsg (a : Option Alphabet) (seq : List Nat) : Status × List Nat :=
  match badChars a seq 0 with
  | [] => (.ok, [])
  | [(c, i)] => (.einval, str "invalid char " ++ [c] ++ str s!" at pos {i+1}")
  | (c, i) :: rest =>
    (.einval, str s!"{rest.length + 1} invalid chars (including " ++ [c] ++ str s!" at pos {i+1})")

end Alphabet
end EaselModel.Alphabet
