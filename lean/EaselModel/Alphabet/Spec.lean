import EaselModel.Alphabet.Model
import EaselModel.Alphabet.SqModel
import EaselModel.Alphabet.Iupac
/-! # C08 — declarative statements (the "simple thing" the model is proved equal to) and table predicates -/
namespace EaselModel.Alphabet
open Iupac

namespace Alphabet

/-- the digital code input byte `c` is read as: `none` = ignored, `some (unknown)` for a character outside the alphabet -/
def code (a : Alphabet) (c : Nat) : Option Nat :=
  let x := if c < 128 then a.inmapAt c else ILLEGAL
  if x < a.Kp then some x else if x = IGNORED then none else some a.unknown

/-- `c` is a character of the alphabet (a symbol, a synonym, or an ignored character) -/
def charOK (a : Alphabet) (c : Nat) : Bool :=
  let x := if c < 128 then a.inmapAt c else ILLEGAL
  decide (x < a.Kp) || decide (x = IGNORED)

/-- declarative digitisation: sentinel, the code of every non-ignored character, sentinel -/
def digitizeSpec (a : Alphabet) (seq : List Nat) : Status × List Nat :=
  (if seq.all a.charOK then .ok else .einval, SENTINEL :: seq.filterMap a.code ++ [SENTINEL])

/-- symbol of a code -/
def symAt (a : Alphabet) (x : Nat) : Nat := a.sym.getD x 0

/-- well-formed alphabet: what `esl_alphabet_CreateCustom` + `SetEquiv/SetCaseInsensitive/SetDegeneracy` guarantee when the
    symbols are distinct 7-bit characters and no symbol is declared ignored -/
def WF (a : Alphabet) : Prop :=
  a.K + 4 ≤ a.Kp ∧ a.Kp ≤ 250 ∧ a.sym.length = a.Kp ∧ a.inmap.length = 128 ∧
  ∀ x, x < a.Kp → a.symAt x < 128 ∧ a.inmapAt (a.symAt x) = x

instance (a : Alphabet) : Decidable a.WF := by unfold WF; infer_instance

/-- the set of canonical residues (indices `< K`) that code `x` stands for, read off `degen[x][·]` -/
def degenSet (a : Alphabet) (x : Nat) : List Nat :=
  (List.range a.K).filter fun y => (a.degen.getD x []).getD y 0 ≠ 0

/-- the degeneracy tables are well-formed: `Kp` rows of `K` flags, `ndegen` = number of flags set -/
def WFDegen (a : Alphabet) : Prop :=
  a.degen.length = a.Kp ∧ a.ndegen.length = a.Kp ∧
  ∀ x, x < a.Kp → (a.degen.getD x []).length = a.K ∧ a.ndegen.getD x 0 = (a.degenSet x).length

instance (a : Alphabet) : Decidable a.WFDegen := by unfold WFDegen; infer_instance

/-- complement table well-formed: an involution on the codes `0..Kp-1` -/
def WFComp (a : Alphabet) (comp : List Nat) : Prop :=
  comp.length = a.Kp ∧ ∀ x, x < a.Kp → comp.getD x 255 < a.Kp ∧ comp.getD (comp.getD x 255) 255 = x

instance (a : Alphabet) (comp : List Nat) : Decidable (a.WFComp comp) := by unfold WFComp; infer_instance

/-- a digital sequence over the alphabet: sentinel, valid codes, sentinel -/
def mkDsq (codes : List Nat) : List Nat := SENTINEL :: codes ++ [SENTINEL]

/-! ## table predicates against the hand-written IUPAC statement (all decidable; closed by `decide` on the dumped tables) -/

def symCodes (k : Kind) : List Nat := (symbols k).map Char.toNat

/-- symbol string, sizes and the order convention canonical | gap | degenerate | any | nonresidue | missing -/
def OrderOK (k : Kind) (a : Alphabet) : Prop :=
  a.sym = symCodes k ∧ a.K = Iupac.K k ∧ a.Kp = (symbols k).length ∧ a.K + 4 ≤ a.Kp ∧
  a.symAt a.K = '-'.toNat ∧ a.symAt (a.Kp - 1) = '~'.toNat ∧ a.symAt (a.Kp - 2) = '*'.toNat ∧
  (a.symAt (a.Kp - 3) = 'N'.toNat ∨ a.symAt (a.Kp - 3) = 'X'.toNat) ∧
  (∀ x, x < a.K → a.ndegen.getD x 0 = 1 ∧ ∀ y, y < a.K → ((a.degen.getD x []).getD y 0 ≠ 0 ↔ x = y)) ∧
  a.ndegen.getD a.K 9 = 0 ∧ a.ndegen.getD (a.Kp - 2) 9 = 0 ∧ a.ndegen.getD (a.Kp - 1) 9 = 0 ∧
  a.ndegen.getD (a.Kp - 3) 0 = a.K ∧ (∀ y, y < a.K → (a.degen.getD (a.Kp - 3) []).getD y 0 ≠ 0)

instance (k : Kind) (a : Alphabet) : Decidable (OrderOK k a) := by unfold OrderOK; infer_instance

/-- the input map reads every 7-bit character as its canonical upper-case, synonym-free symbol, or as illegal -/
def InmapCanonical (k : Kind) (a : Alphabet) : Prop :=
  ∀ c, c < 128 → a.inmapAt c = match canonOf k (Char.ofNat c) with
    | some s => (symbols k).idxOf s
    | none => ILLEGAL

instance (k : Kind) (a : Alphabet) : Decidable (InmapCanonical k a) := by unfold InmapCanonical; infer_instance

def kSym (k : Kind) (x : Nat) : Char := (symbols k).getD x ' '

/-- `degen[x][y]` is set exactly when canonical residue `y` belongs to the IUPAC set of symbol `x` -/
def DegenIsIupac (k : Kind) (a : Alphabet) : Prop :=
  ∀ x, x < a.Kp → ∀ y, y < a.K → ((a.degen.getD x []).getD y 0 ≠ 0 ↔ kSym k y ∈ denotes k (kSym k x))

instance (k : Kind) (a : Alphabet) : Decidable (DegenIsIupac k a) := by unfold DegenIsIupac; infer_instance

/-- `ndegen[x]` is the cardinality of the IUPAC set (which lists each canonical residue once, and only canonical ones) -/
def NdegenIsCard (k : Kind) (a : Alphabet) : Prop :=
  ∀ x, x < a.Kp → a.ndegen.getD x 0 = (denotes k (kSym k x)).length ∧ (denotes k (kSym k x)).Nodup ∧
    ∀ c ∈ denotes k (kSym k x), c ∈ canonical k

instance (k : Kind) (a : Alphabet) : Decidable (NdegenIsCard k a) := by unfold NdegenIsCard; infer_instance

def HasInvolutiveComplement (a : Alphabet) : Prop :=
  match a.complement with
  | some comp => a.WFComp comp
  | none => False

instance (a : Alphabet) : Decidable (HasInvolutiveComplement a) := by
  unfold HasInvolutiveComplement; split <;> infer_instance

/-- residue `c` is in the set of `complement x` iff its Watson-Crick partner is in the set of `x`;
    gap, nonresidue and missing are fixed -/
def ComplementComplementsSet (k : Kind) (a : Alphabet) : Prop :=
  match a.complement with
  | some comp =>
    (∀ x, x < a.Kp → ∀ y, y < a.K →
      ((a.degen.getD (comp.getD x 255) []).getD y 0 ≠ 0 ↔
       (a.degen.getD x []).getD ((symbols k).idxOf (wcOf k (kSym k y))) 0 ≠ 0)) ∧
    comp.getD a.K 255 = a.K ∧ comp.getD (a.Kp - 2) 255 = a.Kp - 2 ∧ comp.getD (a.Kp - 1) 255 = a.Kp - 1 ∧
    comp.getD (a.Kp - 3) 255 = a.Kp - 3
  | none => False

instance (k : Kind) (a : Alphabet) : Decidable (ComplementComplementsSet k a) := by
  unfold ComplementComplementsSet; split <;> infer_instance

/-- canonical spelling of input byte `c` (what textising its code prints): `none` for an ignored character -/
def spell (k : Kind) (c : Nat) : Nat :=
  if c < 128 then
    match canonOf k (Char.ofNat c) with
    | some s => s.toNat
    | none => (kSym k ((symbols k).length - 3)).toNat
  else (kSym k ((symbols k).length - 3)).toNat

/-- per-character statement behind `textize_canonical_spelling` (finite: 256 bytes) -/
def SpellOK (k : Kind) (a : Alphabet) : Prop :=
  ∀ c, c < 256 → (a.code c).map a.symAt = some (spell k c)

instance (k : Kind) (a : Alphabet) : Decidable (SpellOK k a) := by unfold SpellOK; infer_instance

end Alphabet
end EaselModel.Alphabet
