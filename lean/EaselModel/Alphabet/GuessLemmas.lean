import EaselModel.Alphabet.GuessModel
/-! # C08 — what `esl_abc_GuessAlphabet` guarantees (theorems about the integer form `guessZ`; the `Float` form is tied to it
and to the code by the differential run) and what the counting loop of `esl_sq_GuessAlphabet` counts -/
namespace EaselModel.Alphabet.Guess

/-- the status is eslOK exactly when a type was assigned, and the type is one of unknown/RNA/DNA/amino -/
theorem guess_status (ct : List Int) :
    ((guessAlphabet ct).1 = true ↔ (guessAlphabet ct).2 ≠ 0) ∧ (guessAlphabet ct).2 ≤ 3 := by
  unfold guessAlphabet
  simp only []
  refine ⟨by simp, ?_⟩
  repeat' split
  all_goals omega

/-- ten residues or fewer are never classified -/
theorem guess_small (ct : List Int) (h : total ct ≤ 10) : guessAlphabet ct = (false, 0) := by
  unfold guessAlphabet
  have : (List.range 26).foldl (fun acc i => acc + ct.getD i 0) 0 ≤ 10 := h
  simp only [this, if_true]
  simp

/-- `ct[]` holds counts: non-negative and below 2^31 (`esl_sq_GuessAlphabet` stops at 10001 letters) -/
def Counts (ct : List Int) : Prop := ∀ l, 0 ≤ ct.getD l 0 ∧ ct.getD l 0 < 2147483648

def sumOf (ct : List Int) (letters : List Nat) : Int := (letters.map fun l => ct.getD l 0).sum
/-- how many of `letters` occur -/
def seen (ct : List Int) (letters : List Nat) : Nat := (letters.filter fun l => decide (ct.getD l 0 > 0)).length

theorem tally_go (ct : List Int) (h : Counts ct) (letters : List Nat) (acc : Int × Nat) :
    letters.foldl (fun (acc : Int × Nat) l => let x := wrap32 (ct.getD l 0); if x > 0 then (acc.1 + x, acc.2 + 1) else acc) acc
      = (acc.1 + sumOf ct letters, acc.2 + seen ct letters) := by
  induction letters generalizing acc with
  | nil => simp [sumOf, seen]
  | cons l rest ih =>
    have hw : wrap32 (ct.getD l 0) = ct.getD l 0 := by
      have := h l; unfold wrap32; omega
    simp only [List.foldl_cons, hw]
    rw [ih]
    by_cases hp : ct.getD l 0 > 0
    · simp only [hp, if_true, sumOf, seen, List.map_cons, List.sum_cons, List.filter_cons, decide_true, List.length_cons]
      refine Prod.ext ?_ ?_ <;> simp only [] <;> omega
    · have h0 : ct.getD l 0 = 0 := by have := (h l).1; omega
      simp only [hp, if_false, sumOf, seen, List.map_cons, List.sum_cons, List.filter_cons, h0]
      refine Prod.ext ?_ ?_ <;> simp

theorem tally_spec (ct : List Int) (h : Counts ct) (letters : List Nat) :
    tally ct letters = (sumOf ct letters, seen ct letters) := by
  unfold tally; rw [tally_go ct h]; simp

theorem seen_cons (ct : List Int) (l : Nat) (rest : List Nat) :
    seen ct (l :: rest) = (if ct.getD l 0 > 0 then 1 else 0) + seen ct rest := by
  unfold seen
  by_cases h : ct.getD l 0 > 0
  · rw [List.filter_cons, if_pos (decide_eq_true h), if_pos h, List.length_cons]; omega
  · rw [List.filter_cons, if_neg (by simpa using h), if_neg h]; omega

theorem seen_nil (ct : List Int) : seen ct [] = 0 := rfl

theorem seen3 (ct : List Int) (a b c : Nat) (h : seen ct [a, b, c] ≥ 3) :
    ct.getD a 0 > 0 ∧ ct.getD b 0 > 0 ∧ ct.getD c 0 > 0 := by
  rw [seen_cons, seen_cons, seen_cons, seen_nil] at h
  by_cases ha : ct.getD a 0 > 0 <;> by_cases hb : ct.getD b 0 > 0 <;> by_cases hc : ct.getD c 0 > 0 <;>
    simp only [ha, hb, hc, if_true, if_false] at h <;> omega

theorem seen3_le (ct : List Int) (a b c : Nat) : seen ct [a, b, c] ≤ 3 := by
  rw [seen_cons, seen_cons, seen_cons, seen_nil]
  split <;> split <;> split <;> omega

theorem seen1 (ct : List Int) (h : Counts ct) (l : Nat) : seen ct [l] = if ct.getD l 0 ≠ 0 then 1 else 0 := by
  have := (h l).1
  rw [seen_cons, seen_nil]
  by_cases e : ct.getD l 0 = 0
  · rw [if_neg (by omega), if_neg (by simpa using e)]
  · rw [if_pos (by omega), if_pos e]

theorem sumOf_aaonly_nonneg (ct : List Int) (h : Counts ct) : 0 ≤ sumOf ct aaonly := by
  unfold sumOf aaonly
  simp only [List.map_cons, List.map_nil, List.sum_cons, List.sum_nil]
  have hnn := fun l => (h l).1
  have := hnn 4; have := hnn 5; have := hnn 8; have := hnn 9; have := hnn 11; have := hnn 14; have := hnn 15
  have := hnn 16; have := hnn 25
  omega

theorem sumOf_allcanon (ct : List Int) : sumOf ct allcanon = ct.getD 0 0 + ct.getD 2 0 + ct.getD 6 0 := by
  simp [sumOf, allcanon]; omega

/-- **never answers on ten residues or fewer** (no hypothesis on the counts) -/
theorem guessZ_small (ct : List Int) (h : total ct ≤ 10) : guessZ ct = 0 := by
  unfold guessZ; simp only [h, if_true]

theorem guessZ_le (ct : List Int) : guessZ ct ≤ 3 := by
  unfold guessZ; simp only []; repeat' split
  all_goals omega

/-- the decision list of `esl_abc_GuessAlphabet` on counts, in terms of plain sums and numbers of letters that occur -/
theorem guessZ_eq (ct : List Int) (h : Counts ct) : guessZ ct =
    if total ct ≤ 10 then 0
    else if total ct > 2000 ∧ ct.getD 13 0 = total ct then 2
    else if sumOf ct aaonly > 0 then 3
    else if 50 * (total ct - (sumOf ct allcanon + ct.getD 19 0 + ct.getD 13 0)) ≤ total ct ∧ seen ct allcanon + seen ct [19] = 4 then 2
    else if 50 * (total ct - (sumOf ct allcanon + ct.getD 20 0 + ct.getD 13 0)) ≤ total ct ∧ seen ct allcanon + seen ct [20] = 4 then 1
    else if 50 * (total ct - (sumOf ct aaonly + sumOf ct allcanon + sumOf ct aacanon + ct.getD 13 0 + ct.getD 19 0 + ct.getD 23 0)) ≤ total ct ∧
        sumOf ct aacanon > sumOf ct allcanon ∧
        seen ct aaonly + seen ct allcanon + seen ct aacanon + seen ct [13] + seen ct [19] ≥ 15 then 3
    else 0 := by
  unfold guessZ
  rw [tally_spec ct h, tally_spec ct h, tally_spec ct h, seen1 ct h 19, seen1 ct h 20, seen1 ct h 13]

/-- **answer DNA** ⇒ more than 10 residues, and either the all-N special case (> 2000 residues, all of them N), or: no
    amino-only letter (EFIJLOPQZ) occurs, at most 2 % of the residues are something other than A, C, G, T, N, and each
    of A, C, G, T occurs -/
theorem guessZ_dna (ct : List Int) (h : Counts ct) (hg : guessZ ct = 2) :
    total ct > 10 ∧
    ((total ct > 2000 ∧ ct.getD 13 0 = total ct) ∨
     (sumOf ct aaonly = 0 ∧
      50 * (total ct - (ct.getD 0 0 + ct.getD 2 0 + ct.getD 6 0 + ct.getD 19 0 + ct.getD 13 0)) ≤ total ct ∧
      ct.getD 0 0 > 0 ∧ ct.getD 2 0 > 0 ∧ ct.getD 6 0 > 0 ∧ ct.getD 19 0 > 0)) := by
  rw [guessZ_eq ct h] at hg
  have h1 := sumOf_aaonly_nonneg ct h
  have hs := sumOf_allcanon ct
  have h3le : seen ct allcanon ≤ 3 := seen3_le ct 0 2 6
  by_cases c1 : total ct ≤ 10
  · rw [if_pos c1] at hg; omega
  rw [if_neg c1] at hg
  by_cases c2 : total ct > 2000 ∧ ct.getD 13 0 = total ct
  · exact ⟨by omega, Or.inl c2⟩
  rw [if_neg c2] at hg
  by_cases c3 : sumOf ct aaonly > 0
  · rw [if_pos c3] at hg; omega
  rw [if_neg c3] at hg
  by_cases c4 : 50 * (total ct - (sumOf ct allcanon + ct.getD 19 0 + ct.getD 13 0)) ≤ total ct ∧ seen ct allcanon + seen ct [19] = 4
  · obtain ⟨d1, d2⟩ := c4
    have hx : seen ct [19] ≤ 1 := by rw [seen1 ct h 19]; split <;> omega
    have hall := seen3 ct 0 2 6 (by unfold allcanon at d2 h3le; omega)
    have ht : ct.getD 19 0 > 0 := by
      have h19 := (h 19).1
      have : seen ct [19] = 1 := by omega
      rw [seen1 ct h 19] at this
      by_cases e : ct.getD 19 0 = 0
      · rw [if_neg (fun hne => hne e)] at this; omega
      · omega
    exact ⟨by omega, Or.inr ⟨by omega, by rw [hs] at d1; omega, hall.1, hall.2.1, hall.2.2, ht⟩⟩
  rw [if_neg c4] at hg
  by_cases c5 : 50 * (total ct - (sumOf ct allcanon + ct.getD 20 0 + ct.getD 13 0)) ≤ total ct ∧ seen ct allcanon + seen ct [20] = 4
  · rw [if_pos c5] at hg; omega
  rw [if_neg c5] at hg
  split at hg <;> omega

/-- **answer RNA** ⇒ more than 10 residues, no amino-only letter occurs, at most 2 % of the residues are something other
    than A, C, G, U, N, and each of A, C, G, U occurs -/
theorem guessZ_rna (ct : List Int) (h : Counts ct) (hg : guessZ ct = 1) :
    total ct > 10 ∧ sumOf ct aaonly = 0 ∧
    50 * (total ct - (ct.getD 0 0 + ct.getD 2 0 + ct.getD 6 0 + ct.getD 20 0 + ct.getD 13 0)) ≤ total ct ∧
    ct.getD 0 0 > 0 ∧ ct.getD 2 0 > 0 ∧ ct.getD 6 0 > 0 ∧ ct.getD 20 0 > 0 := by
  rw [guessZ_eq ct h] at hg
  have h1 := sumOf_aaonly_nonneg ct h
  have hs := sumOf_allcanon ct
  have h3le : seen ct allcanon ≤ 3 := seen3_le ct 0 2 6
  by_cases c1 : total ct ≤ 10
  · rw [if_pos c1] at hg; omega
  rw [if_neg c1] at hg
  by_cases c2 : total ct > 2000 ∧ ct.getD 13 0 = total ct
  · rw [if_pos c2] at hg; omega
  rw [if_neg c2] at hg
  by_cases c3 : sumOf ct aaonly > 0
  · rw [if_pos c3] at hg; omega
  rw [if_neg c3] at hg
  by_cases c4 : 50 * (total ct - (sumOf ct allcanon + ct.getD 19 0 + ct.getD 13 0)) ≤ total ct ∧ seen ct allcanon + seen ct [19] = 4
  · rw [if_pos c4] at hg; omega
  rw [if_neg c4] at hg
  by_cases c5 : 50 * (total ct - (sumOf ct allcanon + ct.getD 20 0 + ct.getD 13 0)) ≤ total ct ∧ seen ct allcanon + seen ct [20] = 4
  · obtain ⟨d1, d2⟩ := c5
    have hx : seen ct [20] ≤ 1 := by rw [seen1 ct h 20]; split <;> omega
    have hall := seen3 ct 0 2 6 (by unfold allcanon at d2 h3le; omega)
    have ht : ct.getD 20 0 > 0 := by
      have h20 := (h 20).1
      have : seen ct [20] = 1 := by omega
      rw [seen1 ct h 20] at this
      by_cases e : ct.getD 20 0 = 0
      · rw [if_neg (fun hne => hne e)] at this; omega
      · omega
    exact ⟨by omega, by omega, by rw [hs] at d1; omega, hall.1, hall.2.1, hall.2.2, ht⟩
  rw [if_neg c5] at hg
  split at hg <;> omega

/-- **answer amino** ⇒ more than 10 residues, and either an amino-only letter (EFIJLOPQZ) occurs, or: at most 2 % of the
    residues are outside ACG + DHKMRSVWY + N, T, X, the letters DHKMRSVWY outnumber A, C, G, and at least 15 different
    letters among ACG, DHKMRSVWY, N, T occur -/
theorem guessZ_amino (ct : List Int) (h : Counts ct) (hg : guessZ ct = 3) :
    total ct > 10 ∧
    (sumOf ct aaonly > 0 ∨
     (50 * (total ct - (sumOf ct allcanon + sumOf ct aacanon + ct.getD 13 0 + ct.getD 19 0 + ct.getD 23 0)) ≤ total ct ∧
      sumOf ct aacanon > sumOf ct allcanon ∧
      seen ct aaonly + seen ct allcanon + seen ct aacanon + seen ct [13] + seen ct [19] ≥ 15)) := by
  rw [guessZ_eq ct h] at hg
  have h1 := sumOf_aaonly_nonneg ct h
  by_cases c1 : total ct ≤ 10
  · rw [if_pos c1] at hg; omega
  rw [if_neg c1] at hg
  by_cases c2 : total ct > 2000 ∧ ct.getD 13 0 = total ct
  · rw [if_pos c2] at hg; omega
  rw [if_neg c2] at hg
  by_cases c3 : sumOf ct aaonly > 0
  · exact ⟨by omega, Or.inl c3⟩
  rw [if_neg c3] at hg
  by_cases c4 : 50 * (total ct - (sumOf ct allcanon + ct.getD 19 0 + ct.getD 13 0)) ≤ total ct ∧ seen ct allcanon + seen ct [19] = 4
  · rw [if_pos c4] at hg; omega
  rw [if_neg c4] at hg
  by_cases c5 : 50 * (total ct - (sumOf ct allcanon + ct.getD 20 0 + ct.getD 13 0)) ≤ total ct ∧ seen ct allcanon + seen ct [20] = 4
  · rw [if_pos c5] at hg; omega
  rw [if_neg c5] at hg
  split at hg
  · rename_i hd
    obtain ⟨d1, d2, d3⟩ := hd
    exact ⟨by omega, Or.inr ⟨by omega, d2, d3⟩⟩
  · omega

theorem seen_le_length (ct : List Int) (letters : List Nat) : seen ct letters ≤ letters.length := by
  unfold seen; exact List.length_filter_le _ _

theorem seen_aaonly_zero (ct : List Int) (h : Counts ct) (h0 : sumOf ct aaonly = 0) : seen ct aaonly = 0 := by
  unfold sumOf aaonly at h0
  simp only [List.map_cons, List.map_nil, List.sum_cons, List.sum_nil] at h0
  have hnn := fun l => (h l).1
  have := hnn 4; have := hnn 5; have := hnn 8; have := hnn 9; have := hnn 11; have := hnn 14; have := hnn 15
  have := hnn 16; have := hnn 25
  unfold aaonly
  simp only [seen_cons, seen_nil]
  rw [if_neg (by omega), if_neg (by omega), if_neg (by omega), if_neg (by omega), if_neg (by omega), if_neg (by omega),
    if_neg (by omega), if_neg (by omega), if_neg (by omega)]

/-- the third documented rule ("≥ 98 % canonical amino acids or X, at least 15 different residues, DHKMRSVWY outnumber
    ACG") can never fire on counts: without an amino-only letter at most 3 + 9 + 1 + 1 = 14 different letters are counted,
    and with one the giveaway rule has already answered. So the answer is amino **iff** an amino-only letter occurs (in a
    sample of more than 10 residues that is not the all-N special case). -/
theorem guessZ_amino_iff (ct : List Int) (h : Counts ct) :
    guessZ ct = 3 ↔ total ct > 10 ∧ ¬ (total ct > 2000 ∧ ct.getD 13 0 = total ct) ∧ sumOf ct aaonly > 0 := by
  have h1 := sumOf_aaonly_nonneg ct h
  constructor
  · intro hg
    rw [guessZ_eq ct h] at hg
    by_cases c1 : total ct ≤ 10
    · rw [if_pos c1] at hg; omega
    rw [if_neg c1] at hg
    by_cases c2 : total ct > 2000 ∧ ct.getD 13 0 = total ct
    · rw [if_pos c2] at hg; omega
    rw [if_neg c2] at hg
    by_cases c3 : sumOf ct aaonly > 0
    · exact ⟨by omega, c2, c3⟩
    rw [if_neg c3] at hg
    have hz := seen_aaonly_zero ct h (by omega)
    have h2 : seen ct allcanon ≤ 3 := seen_le_length ct allcanon
    have h3 : seen ct aacanon ≤ 9 := seen_le_length ct aacanon
    have h4 : seen ct [13] ≤ 1 := seen_le_length ct [13]
    have h5 : seen ct [19] ≤ 1 := seen_le_length ct [19]
    split at hg
    · omega
    · split at hg
      · omega
      · split at hg
        · rename_i hd; omega
        · omega
  · intro ⟨hn, hN, hp⟩
    rw [guessZ_eq ct h, if_neg (by omega), if_neg hN, if_pos hp]

/-- … and an amino-only letter always decides for amino (unless the sample is small or the all-N special case applies) -/
theorem guessZ_aaonly (ct : List Int) (h : Counts ct) (hn : total ct > 10) (hN : ¬ (total ct > 2000 ∧ ct.getD 13 0 = total ct))
    (hp : sumOf ct aaonly > 0) : guessZ ct = 3 := by
  rw [guessZ_eq ct h, if_neg (by omega), if_neg hN, if_pos hp]

/-! ## the counting loop of `esl_sq_GuessAlphabet` -/

/-- byte `c` is counted as letter number `l` (0 = A … 25 = Z), case-insensitively -/
def isLetter (c l : Nat) : Bool := decide (c = 65 + l) || decide (c = 97 + l)

theorem letterIdx_cases (c : Nat) (hc : c < 256) :
    (letterIdx c < 0 ∨ letterIdx c ≥ 26) ∧ (∀ l, l < 26 → isLetter c l = false) ∨
    (∃ l : Nat, l < 26 ∧ letterIdx c = (l : Int) ∧ isLetter c l = true ∧ ∀ l', l' ≠ l → l' < 26 → isLetter c l' = false) := by
  unfold letterIdx isLetter
  by_cases h1 : c ≥ 128
  · left; simp only [h1, if_true]; refine ⟨by omega, fun l hl => by simp; omega⟩
  · by_cases h2 : 97 ≤ c ∧ c ≤ 122
    · right; refine ⟨c - 97, by omega, by simp only [h1, h2, if_false, if_true, and_self]; omega, by simp; omega,
        fun l' hne hl' => by simp; omega⟩
    · simp only [h1, h2, if_false]
      by_cases h3 : 65 ≤ c ∧ c ≤ 90
      · right; refine ⟨c - 65, by omega, by omega, by simp; omega, fun l' hne hl' => by simp; omega⟩
      · left; refine ⟨by omega, fun l hl => by simp; omega⟩

/-- number of letters (A–Z, a–z) in a byte string -/
def nLetters (seq : List Nat) : Nat := (seq.filter fun c => decide (65 ≤ c ∧ c ≤ 90) || decide (97 ≤ c ∧ c ≤ 122)).length

theorem getD_setI (l : List Int) (j : Nat) (v : Int) (i : Nat) (hj : j < l.length) :
    (l.set j v).getD i 0 = if i = j then v else l.getD i 0 := by
  rw [List.getD_eq_getElem?_getD, List.getElem?_set]
  by_cases h : j = i
  · subst h; simp [hj]
  · have h' : ¬ i = j := fun e => h e.symm
    simp [h, h', List.getD_eq_getElem?_getD]

/-- as long as the cutoff is not reached, every counter ends up increased by the number of occurrences of its letter -/
theorem sqCount_spec (seq : List Nat) (hb : ∀ c ∈ seq, c < 256) :
    ∀ (ct : List Int) (n : Nat), ct.length = 26 → n + nLetters seq ≤ 10000 →
      (sqCount seq ct n).length = 26 ∧
      ∀ l, l < 26 → (sqCount seq ct n).getD l 0 = ct.getD l 0 + ((seq.filter fun c => isLetter c l).length : Int) := by
  induction seq with
  | nil => intro ct n hl _; exact ⟨hl, fun l _ => by simp [sqCount]⟩
  | cons c cs ih =>
    intro ct n hl hn
    have hcb := hb c (by simp)
    have ih' := ih (fun c' hc' => hb c' (by simp [hc']))
    rcases letterIdx_cases c hcb with ⟨hout, hno⟩ | ⟨l0, hl0, hidx, hyes, hother⟩
    · have hnl : nLetters (c :: cs) = nLetters cs := by
        have : (decide (65 ≤ c ∧ c ≤ 90) || decide (97 ≤ c ∧ c ≤ 122)) = false := by
          unfold letterIdx at hout
          by_cases h1 : c ≥ 128
          · simp; omega
          · by_cases h2 : 97 ≤ c ∧ c ≤ 122
            · simp only [h1, h2, if_false, if_true, and_self] at hout; omega
            · simp only [h1, h2, if_false] at hout; simp; omega
        unfold nLetters; rw [List.filter_cons, this]; rfl
      unfold sqCount
      simp only [hout, if_true]
      obtain ⟨g1, g2⟩ := ih' ct n hl (by omega)
      refine ⟨g1, fun l hl' => ?_⟩
      rw [g2 l hl', List.filter_cons, hno l hl']; rfl
    · have hnl : nLetters (c :: cs) = nLetters cs + 1 := by
        have : (decide (65 ≤ c ∧ c ≤ 90) || decide (97 ≤ c ∧ c ≤ 122)) = true := by
          unfold isLetter at hyes; simp at hyes ⊢; omega
        unfold nLetters; rw [List.filter_cons, this]; rfl
      unfold sqCount
      have hin : ¬ (letterIdx c < 0 ∨ letterIdx c ≥ 26) := by omega
      have htn : (letterIdx c).toNat = l0 := by omega
      simp only [hin, if_false, htn]
      rw [if_neg (by omega)]
      obtain ⟨g1, g2⟩ := ih' (ct.set l0 (ct.getD l0 0 + 1)) (n + 1) (by simpa using hl) (by omega)
      refine ⟨g1, fun l hl' => ?_⟩
      rw [g2 l hl', getD_setI _ _ _ _ (by omega), List.filter_cons]
      by_cases e : l = l0
      · subst e; simp only [if_true, hyes, List.length_cons]; omega
      · rw [if_neg e, hother l e hl']; rfl

/-- `esl_sq_GuessAlphabet` on a sequence of at most 10000 letters classifies exactly the case-insensitive letter counts -/
theorem sqCount_counts (seq : List Nat) (hb : ∀ c ∈ seq, c < 256) (hn : nLetters seq ≤ 10000) :
    ∀ l, l < 26 → (sqCount seq (List.replicate 26 0) 0).getD l 0 = ((seq.filter fun c => isLetter c l).length : Int) := by
  intro l hl
  have := (sqCount_spec seq hb (List.replicate 26 0) 0 (by simp) (by omega)).2 l hl
  rw [this]
  have : (List.replicate 26 (0 : Int)).getD l 0 = 0 := by
    rw [List.getD_eq_getElem?_getD, List.getElem?_replicate]; split <;> rfl
  rw [this]; omega

theorem counts_of_all (ct : List Int) (h : ∀ v ∈ ct, 0 ≤ v ∧ v < 2147483648) : Counts ct := by
  intro l
  rw [List.getD_eq_getElem?_getD]
  cases hl : ct[l]? with
  | none => simp
  | some v => simp only [Option.getD_some]; exact h v (List.mem_of_getElem? hl)

theorem filter_letter_le (seq : List Nat) (l : Nat) (hl : l < 26) :
    (seq.filter fun c => isLetter c l).length ≤ nLetters seq := by
  unfold nLetters
  rw [← List.countP_eq_length_filter, ← List.countP_eq_length_filter]
  apply List.countP_mono_left
  intro c _ hc
  unfold isLetter at hc
  simp at hc ⊢
  omega

/-- the counters `esl_sq_GuessAlphabet` hands to `esl_abc_GuessAlphabet` are counts (so the guarantees above apply) -/
theorem sqCount_Counts (seq : List Nat) (hb : ∀ c ∈ seq, c < 256) (hn : nLetters seq ≤ 10000) :
    Counts (sqCount seq (List.replicate 26 0) 0) := by
  intro l
  by_cases hl : l < 26
  · rw [sqCount_counts seq hb hn l hl]
    have := filter_letter_le seq l hl
    omega
  · have hlen := (sqCount_spec seq hb (List.replicate 26 0) 0 (by simp) (by omega)).1
    rw [List.getD_eq_getElem?_getD, List.getElem?_eq_none (by omega)]
    simp

end EaselModel.Alphabet.Guess
