import EaselModel.Alphabet.GuessModel
/-! # C08 — elementary facts about the model of `esl_abc_GuessAlphabet` (the 2 % thresholds are `double` comparisons and
stay outside the theorems) -/
namespace EaselModel.Alphabet.Guess

def total (ct : List Int) : Int := (List.range 26).foldl (fun acc i => acc + ct.getD i 0) 0

/-- the status is eslOK exactly when a type was assigned, and the type is one of unknown/RNA/DNA/amino -/
theorem guess_status (ct : List Int) :
    ((guessAlphabet ct).1 = true ↔ (guessAlphabet ct).2 ≠ 0) ∧ (guessAlphabet ct).2 ≤ 3 := by
  unfold guessAlphabet
  simp only []
  refine ⟨by simp, ?_⟩
  repeat' split
  all_goals omega

/-- ten residues or fewer are never classified -/
theorem guess_small (ct : List Int) (h : total ct ≤ 10) : guessAlphabet ct = (false, 0) := by
  unfold guessAlphabet
  have : (List.range 26).foldl (fun acc i => acc + ct.getD i 0) 0 ≤ 10 := h
  simp only [this, if_true]
  simp

end EaselModel.Alphabet.Guess
