import EaselModel.Alphabet.Spec
/-! # C08 — lemmas: the loop models equal their declarative statements (induction; every alphabet, every string) -/
namespace EaselModel.Alphabet
namespace Alphabet

/-! ## Digitize -/

theorem digitizeStep_eq (a : Alphabet) (st : Status) (acc : List Nat) (c : Nat) :
    a.digitizeStep (st, acc) c =
      (if a.charOK c then st else .einval, match a.code c with | some x => x :: acc | none => acc) := by
  unfold digitizeStep charOK code
  generalize (if c < 128 then a.inmapAt c else ILLEGAL) = x
  by_cases h1 : x < a.Kp
  · simp [h1]
  · by_cases h2 : x = IGNORED
    · subst h2; simp [h1]
    · simp [h1, h2]

theorem foldl_digitizeStep (a : Alphabet) (seq : List Nat) (st : Status) (acc : List Nat) :
    seq.foldl a.digitizeStep (st, acc) =
      (if seq.all a.charOK then st else .einval, (seq.filterMap a.code).reverse ++ acc) := by
  induction seq generalizing st acc with
  | nil => simp
  | cons c cs ih =>
    rw [List.foldl_cons, digitizeStep_eq, ih]
    cases hc : a.code c <;> cases hk : a.charOK c <;> simp [hc, hk]

theorem digitize_eq_spec (a : Alphabet) (seq : List Nat) : a.digitize seq = a.digitizeSpec seq := by
  unfold digitize digitizeSpec
  rw [foldl_digitizeStep]
  simp

theorem code_lt (a : Alphabet) (h : 3 ≤ a.Kp) (c x : Nat) (hx : a.code c = some x) : x < a.Kp := by
  unfold code at hx
  generalize (if c < 128 then a.inmapAt c else ILLEGAL) = y at hx
  by_cases h1 : y < a.Kp
  · simp [h1] at hx; omega
  · by_cases h2 : y = IGNORED
    · subst h2; simp [h1] at hx
    · simp [h1, h2] at hx; unfold unknown at hx; omega

theorem filterMap_code_lt (a : Alphabet) (h : 3 ≤ a.Kp) (seq : List Nat) : ∀ x ∈ seq.filterMap a.code, x < a.Kp := by
  intro x hx
  rw [List.mem_filterMap] at hx
  obtain ⟨c, _, hc⟩ := hx
  exact code_lt a h c x hc

/-! ## Textize -/

theorem textizeGo_spec (a : Alphabet) (dsq codes rest : List Nat) (i : Nat)
    (h : dsq.drop (i+1) = codes ++ rest) (hc : ∀ x ∈ codes, x < a.sym.length) :
    a.textizeGo dsq codes.length i = some (codes.map a.symAt) := by
  induction codes generalizing i with
  | nil => simp [textizeGo]
  | cons x xs ih =>
    have h0 : dsq[i+1]? = some x := by
      have := List.getElem?_drop (xs := dsq) (i := i+1) (j := 0)
      rw [h] at this
      simpa using this.symm
    have h1 : dsq.drop (i+1+1) = xs ++ rest := by
      have : (dsq.drop (i+1)).drop 1 = xs ++ rest := by rw [h]; simp
      rw [List.drop_drop] at this
      simpa [Nat.add_comm] using this
    have hx : x < a.sym.length := hc x (by simp)
    have h2 : a.sym[x]? = some (a.symAt x) := by
      unfold symAt
      rw [List.getD_eq_getElem?_getD, List.getElem?_eq_getElem hx]; simp
    have ih' := ih (i+1) h1 (fun y hy => hc y (by simp [hy]))
    simp [textizeGo, h0, h2, ih']

theorem textize_mkDsq (a : Alphabet) (codes : List Nat) (hc : ∀ x ∈ codes, x < a.sym.length) :
    a.textize (mkDsq codes) codes.length = some (codes.map a.symAt) := by
  unfold textize
  exact textizeGo_spec a (mkDsq codes) codes [SENTINEL] 0 (by simp [mkDsq]) hc

/-! ## Digitize ∘ Textize -/

theorem code_symAt (a : Alphabet) (h : a.WF) (x : Nat) (hx : x < a.Kp) :
    a.code (a.symAt x) = some x ∧ a.charOK (a.symAt x) = true := by
  obtain ⟨_, _, _, _, hs⟩ := h
  obtain ⟨h1, h2⟩ := hs x hx
  unfold code charOK
  simp [h1, h2, hx]

theorem filterMap_code_symAt (a : Alphabet) (h : a.WF) (codes : List Nat) (hc : ∀ x ∈ codes, x < a.Kp) :
    (codes.map a.symAt).filterMap a.code = codes ∧ (codes.map a.symAt).all a.charOK = true := by
  induction codes with
  | nil => simp
  | cons x xs ih =>
    have hx := code_symAt a h x (hc x (by simp))
    have ih' := ih (fun y hy => hc y (by simp [hy]))
    simp [hx.1, hx.2, ih'.1]
    simpa using ih'.2

theorem digitize_textized (a : Alphabet) (h : a.WF) (codes : List Nat) (hc : ∀ x ∈ codes, x < a.Kp) :
    a.digitize (codes.map a.symAt) = (.ok, mkDsq codes) := by
  rw [digitize_eq_spec]
  unfold digitizeSpec
  have := filterMap_code_symAt a h codes hc
  rw [this.1, this.2]
  simp [mkDsq]

end Alphabet
end EaselModel.Alphabet
