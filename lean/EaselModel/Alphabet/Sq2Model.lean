import EaselModel.Alphabet.Model
/-! # C08 — more of the alphabet-facing part of esl_sq.c (core Lean only):
`esl_sq_Grow`, `esl_sq_XAddResidue`, `esl_sq_CAddResidue` (with the allocation size, so that "never writes outside the
allocation" is a statement about the model), `esl_sq_Checksum`, `esl_sq_CountResidues` (digital mode). -/
namespace EaselModel.Alphabet.Sq
open EaselModel.Alphabet

def eslSQ_SEQCHUNK : Nat := 256

/-- the `do { nsafe += new; new *= 2; } while (nsafe < 1);` loop of `esl_sq_Grow` (64 doublings exceed int64) -/
def growLoop : Nat → Int → Int → Int × Int
  | 0, nsafe, new => (nsafe, new)
  | f+1, nsafe, new =>
    let nsafe := nsafe + new
    let new := new * 2
    if nsafe < 1 then growLoop f nsafe new else (nsafe, new)

/-- `esl_sq_Grow(sq, NULL)`: the new `salloc` -/
def sqGrow (digital : Bool) (salloc n : Nat) : Nat :=
  let nsafe : Int := if digital then (salloc : Int) - 1 - n else (salloc : Int) - n
  if nsafe < 1 then (growLoop 64 nsafe salloc).2.toNat else salloc

/-- a growing sequence: `buf` = the cells written so far that matter (`dsq[0..n+1]` / `seq[0..n]`), `n`, `salloc` -/
structure Grow where
  buf : List Nat
  n : Nat
  salloc : Nat
  deriving DecidableEq, Repr

/-- `esl_sq_CreateDigital()`: `dsq[0] = dsq[1] = eslDSQ_SENTINEL`, `n = 0` -/
def createDigital : Grow := { buf := [SENTINEL, SENTINEL], n := 0, salloc := eslSQ_SEQCHUNK }
/-- `esl_sq_Create()`: `seq[0] = '\0'`, `n = 0` -/
def createText : Grow := { buf := [0], n := 0, salloc := eslSQ_SEQCHUNK }

/-- `esl_sq_XAddResidue(sq, x)`: `dsq[n+1] = x; if (x != eslDSQ_SENTINEL) n++`; `none` = the store is outside the allocation -/
def xAddResidue (s : Grow) (x : Nat) : Option Grow :=
  let salloc := sqGrow true s.salloc s.n
  if s.n + 1 < salloc then
    some { buf := s.buf.take (s.n + 1) ++ [x], n := if x = SENTINEL then s.n else s.n + 1, salloc := salloc }
  else none

/-- `esl_sq_CAddResidue(sq, c)`: `seq[n] = c; if (c != '\0') n++` -/
def cAddResidue (s : Grow) (c : Nat) : Option Grow :=
  let salloc := sqGrow false s.salloc s.n
  if s.n < salloc then
    some { buf := s.buf.take s.n ++ [c], n := if c = 0 then s.n else s.n + 1, salloc := salloc }
  else none

def addAll (f : Grow → Nat → Option Grow) : Grow → List Nat → Option Grow
  | s, [] => some s
  | s, x :: xs => match f s x with
    | none => none
    | some s' => addAll f s' xs

/-! ## `esl_sq_Checksum` (Jenkins one-at-a-time over the residues, 32-bit unsigned arithmetic) -/

def ckStep (val b : UInt32) : UInt32 :=
  let v := val + b
  let v := v + (v <<< 10)
  v ^^^ (v >>> 6)

def ckFinal (val : UInt32) : UInt32 :=
  let v := val + (val <<< 3)
  let v := v ^^^ (v >>> 11)
  v + (v <<< 15)

/-- digital mode: `val += sq->dsq[pos]` (an unsigned byte) -/
def checksumDigital (codes : List Nat) : UInt32 :=
  ckFinal (codes.foldl (fun v x => ckStep v (UInt32.ofNat x)) 0)

/-- a (signed) `char` converted to `uint32_t`: sign-extended -/
def charToU32 (c : Nat) : UInt32 := if c ≥ 128 then UInt32.ofNat (c + 4294967040) else UInt32.ofNat c

/-- text mode: `val += sq->seq[pos]` — a (signed) `char` is sign-extended before it is added -/
def checksumText (bytes : List Nat) : UInt32 :=
  ckFinal (bytes.foldl (fun v c => ckStep v (charToU32 c)) 0)

/-! ## `esl_sq_CountResidues` (digital mode) -/

open Alphabet.ScoreNum in
/-- the loop `for (i = start; i < start+L; i++) if (!esl_abc_XIsGap(abc, dsq[i])) esl_abc_FCount(abc, f, dsq[i], 1.)` -/
def countResLoop {α : Type} [Alphabet.ScoreNum α] (a : Alphabet) (dsq : List Nat) : Nat → Nat → List α → Option (List α)
  | 0, _, f => some f
  | k+1, i, f => do
    let x ← dsq[i]?
    if a.xIsGap x then countResLoop a dsq k (i+1) f
    else
      let f' ← a.count f x (ofNat 1)
      countResLoop a dsq k (i+1) f'

/-- `esl_sq_CountResidues(sq, start, L, f)` on a digital sequence of length `n` (`dsq` = the whole array): outer `none` =
    eslERANGE, inner `none` = an out-of-bounds access -/
def countResidues {α : Type} [Alphabet.ScoreNum α] (a : Alphabet) (dsq : List Nat) (n : Nat) (start L : Int) (f : List α) :
    Option (Option (List α)) :=
  if start < 1 ∨ start + L > (n : Int) + 1 then none
  else some (countResLoop a dsq L.toNat start.toNat f)

end EaselModel.Alphabet.Sq
