import EaselModel.Alphabet.RevcompLemmas
/-! # C08 — the text-mode `esl_sq_ReverseComplement` agrees with the digital conversions -/
namespace EaselModel.Alphabet.Sq
open EaselModel.Alphabet EaselModel.Alphabet.Alphabet

/-- per-character agreement of the hand-written `switch` of text-mode `esl_sq_ReverseComplement` with the digital
    complement table `comp` of alphabet `a`: whenever the switch has a case for `c`, both `c` and its image are characters
    of the alphabet, neither is ignored, and the image's code is the complement of `c`'s code (finite: 128 characters) -/
def TextCompOK (a : Alphabet) (comp : List Nat) : Prop :=
  ∀ c, c < 128 → ∀ c', compChar c = some c' →
    a.charOK c = true ∧ a.charOK c' = true ∧ (a.code c).isSome = true ∧ a.code c' = (a.code c).map (compAt comp)

instance (a : Alphabet) (comp : List Nat) : Decidable (TextCompOK a comp) := by
  unfold TextCompOK
  have : ∀ c, Decidable (∀ c', compChar c = some c' →
      a.charOK c = true ∧ a.charOK c' = true ∧ (a.code c).isSome = true ∧ a.code c' = (a.code c).map (compAt comp)) := by
    intro c
    cases h : compChar c with
    | none => exact isTrue (fun c' hc' => by cases hc')
    | some v =>
      by_cases hp : a.charOK c = true ∧ a.charOK v = true ∧ (a.code c).isSome = true ∧ a.code v = (a.code c).map (compAt comp)
      · exact isTrue (fun c' hc' => by cases hc'; exact hp)
      · exact isFalse (fun hall => hp (hall v rfl))
  infer_instance

/-- for a text sequence every character of which the switch knows: text-mode reverse complement, then digitise =
    digitise, then reverse and complement the codes (which is what `esl_abc_revcomp` does: `revcomp_spec`); and the
    text-mode status is eslOK -/
theorem text_revcomp_digitize (a : Alphabet) (comp : List Nat) (h : TextCompOK a comp) (s : List Nat)
    (hs : ∀ c ∈ s, c < 128 ∧ (compChar c).isSome = true) :
    (revcompText s).1 = .ok ∧
    a.digitize (revcompText s).2 = (.ok, mkDsq ((s.filterMap a.code).reverse.map (compAt comp))) := by
  have hall : s.all (fun c => (compChar c).isSome) = true := by
    rw [List.all_eq_true]; intro c hc; exact (hs c hc).2
  have key : ∀ l : List Nat, (∀ c ∈ l, c < 128 ∧ (compChar c).isSome = true) →
      (l.map fun c => (compChar c).getD 78).filterMap a.code = (l.filterMap a.code).map (compAt comp) ∧
      (l.map fun c => (compChar c).getD 78).all a.charOK = true := by
    intro l
    induction l with
    | nil => intro _; simp
    | cons c cs ih =>
      intro hl
      obtain ⟨h128, hsome⟩ := hl c (by simp)
      obtain ⟨c', hc'⟩ := Option.isSome_iff_exists.mp hsome
      obtain ⟨_, k2, k3, k4⟩ := h c h128 c' hc'
      obtain ⟨x, hx⟩ := Option.isSome_iff_exists.mp k3
      obtain ⟨i1, i2⟩ := ih (fun d hd => hl d (by simp [hd]))
      rw [hx] at k4
      simp only [List.map_cons, hc', Option.getD_some, List.filterMap_cons, k4, Option.map_some, hx, i1,
        List.all_cons, k2, i2, Bool.and_self, and_self]
  obtain ⟨k1, k2⟩ := key s hs
  refine ⟨by simp [revcompText, hall], ?_⟩
  unfold revcompText
  rw [digitize_eq_spec]
  unfold digitizeSpec
  simp only [List.filterMap_reverse, k1, List.all_reverse, k2, if_true, List.map_reverse]
  rfl

end EaselModel.Alphabet.Sq

namespace EaselModel.Alphabet.Sq
open EaselModel.Alphabet EaselModel.Alphabet.Alphabet

/-- lower-case of an upper-case letter, other bytes unchanged -/
def lowerOf (c : Nat) : Nat := if 65 ≤ c ∧ c ≤ 90 then c + 32 else c

/-- "for every symbol": textising code `x`, complementing the character with the text-mode switch and digitising it again
    gives the digital complement of `x`, in upper and in lower case -/
def TextCompSymbols (a : Alphabet) (comp : List Nat) : Prop :=
  ∀ x, x < a.Kp →
    (compChar (a.symAt x)).bind a.code = some (compAt comp x) ∧
    (compChar (lowerOf (a.symAt x))).bind a.code = some (compAt comp x) ∧
    (compChar (lowerOf (a.symAt x))).map lowerOf = compChar (lowerOf (a.symAt x)) ∧
    ((compChar (a.symAt x)).map lowerOf = compChar (lowerOf (a.symAt x)))

instance (a : Alphabet) (comp : List Nat) : Decidable (TextCompSymbols a comp) := by
  unfold TextCompSymbols; infer_instance

end EaselModel.Alphabet.Sq
